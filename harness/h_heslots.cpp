// differential harness for the hazard ERA slot pool (C18): runs guard_ptr operation sequences on the REAL
// xenium::reclamation::hazard_eras<static_strategy<K> / dynamic_strategy<K>> guard_ptrs of one thread and prints,
// after every operation, the canonical line of coq/Model/HeSlotsDefs.v (show_hout):
//   <ok|exhausted|invalid> ret=<0|1> g=[<slot|->:<object>.<mark>,...] prot=[sorted protected eras] free=[free list from hint] total=<slots>
//   cnt=[guard_cnt per slot] last=<last_hazard_era slot|-> lastera=<last_era> clock=<era_clock>
// input (stdin):   case <id> K=<1..4> dyn=<0|1> G=<guards>      followed by one operation per line and  end
//   acq g v m | acqeq g v m ev em | reset g | ctor g v m | cctor d s | mctor d s | cassign d s | massign d s | swap a b | exit | tick
// every case runs in a forked child (fresh thread_local / control block list); "exit" ends the thread that owns the
// guards (all guards destroyed first) and continues in a new thread, which adopts the control block.
// plain build:  g++ -std=c++17 -O1 -I/repo harness/h_heslots.cpp -o build/h_heslots -lpthread     (assertions stay enabled)
#include <algorithm>
#include <atomic>
#include <cassert>
#include <cstdint>
#include <cstdio>
#include <cstdlib>
#include <cstring>
#include <functional>
#include <iterator>
#include <memory>
#include <new>
#include <sstream>
#include <stdexcept>
#include <string>
#include <thread>
#include <type_traits>
#include <utility>
#include <vector>
#include <sys/wait.h>
#include <unistd.h>

#define private public
#define protected public
#include <xenium/reclamation/hazard_eras.hpp>
#undef private
#undef protected

namespace xr = xenium::reclamation;

struct Op { std::string name; long a[5]; };

static const int NOBJ = 16;

template <class R, bool Dyn, size_t K>
struct Runner {
  struct Node : R::template enable_concurrent_ptr<Node, 1> { int id = 0; };
  using CP = typename R::template concurrent_ptr<Node, 1>;
  using MP = typename CP::marked_ptr;
  using GP = typename CP::guard_ptr;
  using CB = std::remove_pointer_t<decltype(R::local_thread_data().control_block)>;   // (thread_control_block is default-private)
  using HP = typename CB::hazard_era;

  static Node* nodes() { static Node* n = new Node[NOBJ + 1]; return n; }
  static MP mk(long v, long m) { return MP(v == 0 ? nullptr : &nodes()[v], (uintptr_t)m); }
  static long obj_id(const Node* p) { return p == nullptr ? 0 : (long)(p - nodes()); }

  // the slot arrays in allocation order
  static std::vector<std::pair<HP*, size_t>> ranges(CB* cb) {
    std::vector<std::pair<HP*, size_t>> r;
    r.push_back({&cb->eras[0], K});
    if constexpr (Dyn) {
      std::vector<std::pair<HP*, size_t>> b;
      for (auto* blk = cb->he_block.load(); blk != nullptr; blk = blk->next) b.push_back({blk->begin(), blk->size});
      std::reverse(b.begin(), b.end());
      for (auto& x : b) r.push_back(x);
    }
    return r;
  }
  static long index_of(CB* cb, const HP* hp) {
    long off = 0;
    for (auto& rg : ranges(cb)) {
      if (hp >= rg.first && hp < rg.first + rg.second) return off + (hp - rg.first);
      off += (long)rg.second;
    }
    return -2;   // not a slot of this thread
  }

  static std::string observe(const char* res, bool ret, GP* gs, int G) {
    auto& td = R::local_thread_data();
    td.ensure_has_control_block();
    CB* cb = td.control_block;
    std::ostringstream o;
    o << res << " ret=" << (ret ? 1 : 0) << " g=[";
    for (int i = 0; i < G; ++i) {
      if (i) o << ",";
      if (gs[i].he == nullptr) o << "-"; else o << index_of(cb, gs[i].he);
      o << ":" << obj_id(gs[i].ptr.get()) << "." << gs[i].ptr.mark();
    }
    o << "] prot=[";
    std::vector<uint64_t> ids;
    cb->gather_protected_eras(ids);
    std::sort(ids.begin(), ids.end());
    for (size_t i = 0; i < ids.size(); ++i) o << (i ? "," : "") << ids[i];
    o << "] free=[";
    long total = 0;
    for (auto& rg : ranges(cb)) total += (long)rg.second;
    long fuel = total + 1; bool first = true;
    for (HP* h = td.hint; h != nullptr && fuel > 0; --fuel) {
      o << (first ? "" : ",") << index_of(cb, h); first = false;
      if (!h->is_link()) break;
      h = h->get_link();
    }
    o << "] total=" << total;
    if constexpr (Dyn) { if ((long)cb->total_number_of_hes != total) o << " TOTAL_MISMATCH=" << cb->total_number_of_hes; }
    o << " cnt=[";
    { bool f = true; for (auto& rg : ranges(cb)) for (size_t j = 0; j < rg.second; ++j) { o << (f ? "" : ",") << rg.first[j].guard_cnt; f = false; } }
    o << "] last=";
    if (cb->last_hazard_era == nullptr) o << "-"; else o << index_of(cb, cb->last_hazard_era);
    o << " lastera=" << cb->last_era << " clock=" << R::era_clock.load();
    return o.str();
  }

  // runs ops[pos..] until the end or an "exit"; returns the position after the last executed operation
  static std::pair<size_t, bool> segment(const std::vector<Op>& ops, size_t pos, int G, bool after_exit) {
    alignas(GP) unsigned char store[16][sizeof(GP)];
    GP* gs = reinterpret_cast<GP*>(&store[0][0]);
    for (int i = 0; i < G; ++i) new (&gs[i]) GP();
    R::local_thread_data().ensure_has_control_block();
    if (after_exit) puts(observe("ok", false, gs, G).c_str());
    CP cell;
    bool exited = false;
    while (pos < ops.size() && !exited) {
      const Op& op = ops[pos++];
      const long* a = op.a;
      const char* res = "ok"; bool ret = false;
      auto valid = [&](long g) { return g >= 0 && g < G; };
      try {
        if (op.name == "acq") {
          if (!valid(a[0])) res = "invalid";
          else { cell.store(mk(a[1], a[2])); gs[a[0]].acquire(cell); }
        } else if (op.name == "acqeq") {
          if (!valid(a[0])) res = "invalid";
          else { cell.store(mk(a[1], a[2])); ret = gs[a[0]].acquire_if_equal(cell, mk(a[3], a[4])); }
        } else if (op.name == "reset") {
          if (!valid(a[0])) res = "invalid"; else gs[a[0]].reset();
        } else if (op.name == "ctor") {
          if (!valid(a[0])) res = "invalid";
          else {
            gs[a[0]].~GP();
            try { new (&gs[a[0]]) GP(mk(a[1], a[2])); } catch (...) { new (&gs[a[0]]) GP(); throw; }
          }
        } else if (op.name == "cctor") {
          if (!valid(a[0]) || !valid(a[1]) || a[0] == a[1]) res = "invalid";
          else {
            gs[a[0]].~GP();
            try { new (&gs[a[0]]) GP(gs[a[1]]); } catch (...) { new (&gs[a[0]]) GP(); throw; }
          }
        } else if (op.name == "mctor") {
          if (!valid(a[0]) || !valid(a[1]) || a[0] == a[1]) res = "invalid";
          else { gs[a[0]].~GP(); new (&gs[a[0]]) GP(std::move(gs[a[1]])); }
        } else if (op.name == "cassign") {
          if (!valid(a[0]) || !valid(a[1])) res = "invalid"; else { GP& s = gs[a[1]]; gs[a[0]] = s; }
        } else if (op.name == "massign") {
          if (!valid(a[0]) || !valid(a[1])) res = "invalid"; else { GP& s = gs[a[1]]; gs[a[0]] = std::move(s); }
        } else if (op.name == "swap") {
          if (!valid(a[0]) || !valid(a[1])) res = "invalid"; else gs[a[0]].swap(gs[a[1]]);
        } else if (op.name == "tick") {
          R::era_clock.fetch_add(1);
        } else if (op.name == "exit") {
          exited = true;
        } else {
          res = "unknown-op";
        }
      } catch (const xr::bad_hazard_era_alloc&) {
        res = "exhausted";
      }
      if (!exited) puts(observe(res, ret, gs, G).c_str());
    }
    for (int i = G - 1; i >= 0; --i) gs[i].~GP();
    return {pos, exited};
  }

  static void run_case(const std::vector<Op>& ops, int G) {
    size_t pos = 0; bool after_exit = false;
    do {
      std::pair<size_t, bool> r;
      std::thread t([&] { r = segment(ops, pos, G, after_exit); });
      t.join();
      pos = r.first; after_exit = r.second;
    } while (pos < ops.size() || after_exit);
  }
};

template <size_t K> using RS = xr::hazard_eras<>::with<xenium::policy::allocation_strategy<xr::he_allocation::static_strategy<K>>>;
template <size_t K> using RD = xr::hazard_eras<>::with<xenium::policy::allocation_strategy<xr::he_allocation::dynamic_strategy<K>>>;

static void dispatch(int K, int dyn, const std::vector<Op>& ops, int G) {
#define D(k) if (K == k) { if (dyn) Runner<RD<k>, true, k>::run_case(ops, G); else Runner<RS<k>, false, k>::run_case(ops, G); return; }
  D(1) D(2) D(3) D(4) D(5)
#undef D
  puts("unsupported K");
}

int main() {
  char line[256];
  std::vector<Op> ops; int K = 0, dyn = 0, G = 0; long id = -1;
  while (fgets(line, sizeof line, stdin)) {
    char w[32] = {0};
    if (sscanf(line, "%31s", w) != 1) continue;
    if (!strcmp(w, "case")) {
      ops.clear();
      if (sscanf(line, "case %ld K=%d dyn=%d G=%d", &id, &K, &dyn, &G) != 4 || G < 0 || G > 16) { puts("bad case line"); return 2; }
    } else if (!strcmp(w, "end")) {
      printf("case %ld\n", id); fflush(stdout);
      pid_t pid = fork();
      if (pid == 0) { dispatch(K, dyn, ops, G); fflush(stdout); _exit(0); }
      int st = 0; waitpid(pid, &st, 0);
      if (!WIFEXITED(st) || WEXITSTATUS(st) != 0) { printf("crash status=%d\n", st); }
      fflush(stdout);
    } else {
      Op op; op.name = w; for (auto& x : op.a) x = 0;
      sscanf(line, "%*s %ld %ld %ld %ld %ld", &op.a[0], &op.a[1], &op.a[2], &op.a[3], &op.a[4]);
      ops.push_back(op);
    }
  }
  return 0;
}
