// harness for the trace correspondence of the harris_michael_hash_map model (Model/HmmDefs.v, driver instance hmm):
// everything of h_hm.cpp (same adapter, same operations, same cfg keys), plus cfg buckets=4 (h_hm.cpp: 1 | 2 | 8).
#define main h_hm_main_unused
#include "h_hm.cpp"
#undef main

static Adapter* make_hmm() {
  if (g_case.gets("c", "set") == "map" && g_case.geti("buckets", 1) == 4) {
    bool m = g_case.geti("memo", 0) != 0;
    return m ? (Adapter*)new HmAdapter<MapT<4, true>, true>() : (Adapter*)new HmAdapter<MapT<4, false>, true>();
  }
  return make();
}
int main(int argc, char** argv) {
  if (argc >= 3) { std::ifstream in(argv[2]); g_case = parse_case(in); }
  return main_driver(argc, argv, make_hmm);
}
