// harness for the reclamation schemes (C01, C02, C15, C17, C18): a generic protocol-conforming client.
// Reclaimer selected with -DXV_RECL=<alias of recl_types.hpp>, optional -DXV_K=<static slot count>.
//   cfg cells=2 slots=3 flushes=8
//   ops (c = cell index, k/j = index of a per-thread persistent guard):
//     repl c      unlink+retire: g.acquire(cell[c]); n = new Node; if CAS(cell[c], g, n) g.reclaim() else delete n
//     clear c     unlink to nullptr and retire
//     read c      g.acquire(cell[c]); dereference; g.reset()
//     readeq c    e = cell[c].load(); g.acquire_if_equal(cell[c], e); dereference if true
//     hold c k    guards[k].acquire(cell[c])          (stays protected across operations)
//     holdeq c k  guards[k].acquire_if_equal(cell[c], cell[c].load())
//     deref k     dereference guards[k] (must be alive)
//     drop k      guards[k].reset()                   copy k j: guards[j] = guards[k]     move k j: guards[j] = std::move(guards[k])
//     swap k j    guards[k].swap(guards[j])           self k : guards[k] = guards[k] (self assignment)
//     cctor k     guard_ptr tmp(guards[k]); dereference tmp                               retire k: guards[k].reclaim() after unlinking its node from every cell
//     enter/leave region_guard (one level)
#include "hx.hpp"

#include "recl_types.hpp"

#ifndef XV_RECL
  #define XV_RECL HPs<3>
#endif
using R = rt::XV_RECL;
using namespace hx;

static std::map<long, int>* g_destroyed = nullptr;   // node id -> destructor calls
static std::map<long, long>* g_deleter = nullptr;    // node id -> tag of the deleter that ran
static long g_next_id = 1;
static long g_created = 0;

struct Node;
#ifdef XV_DEFAULT_DELETER
using Del = std::default_delete<Node>;
#else
struct Del { long tag = -1; void operator()(Node* n) const; };
#endif
#ifndef XV_MARKBITS
  #define XV_MARKBITS 0
#endif
#ifndef XV_FLUSH_FACTOR
  #define XV_FLUSH_FACTOR 1   // reclaimers that try to advance their epoch only every n-th region entry need n times as many flush rounds
#endif
struct Node : R::template enable_concurrent_ptr<Node, XV_MARKBITS, Del> {
  long id; long canary;
  explicit Node(long i) : id(i), canary(0xA11CE) { xv::Quiet q; g_created++; }
  ~Node() override { canary = 0xDEAD; xv::Quiet q; if (!g_destroyed) g_destroyed = new std::map<long, int>(); (*g_destroyed)[id]++; }
};
#ifndef XV_DEFAULT_DELETER
void Del::operator()(Node* n) const { { xv::Quiet q; if (!g_deleter) g_deleter = new std::map<long, long>(); (*g_deleter)[n->id] = tag; } delete n; }
static Del mkdel(long id) { Del d; d.tag = id; return d; }
#else
static Del mkdel(long) { return Del(); }
#endif

using CPtr = typename R::template concurrent_ptr<Node, XV_MARKBITS>;
using Guard = typename CPtr::guard_ptr;
using MPtr = typename CPtr::marked_ptr;

struct ReclAdapter : Adapter {
  std::vector<CPtr>* cells = nullptr; int ncells = 2, nslots = 3, flushes = 8;
  std::vector<Guard>* guards[17] = {nullptr};
  typename R::region_guard* region[17] = {nullptr};
  std::string violation;

  void setup(const Case& c) override {
    ncells = (int)c.geti("cells", 2); nslots = (int)c.geti("slots", 3); flushes = (int)c.geti("flushes", 8) * XV_FLUSH_FACTOR;
    { xv::Quiet q; cells = new std::vector<CPtr>(ncells); }
    for (int i = 0; i < ncells; i++) (*cells)[i].store(new Node(g_next_id++), std::memory_order_relaxed);
    xv::Quiet q; for (int i = 0; i < ncells; i++) { static char nm[8][8]; snprintf(nm[i % 8], 8, "cell%d", i); xv::name_range(&(*cells)[i], sizeof(CPtr), nm[i % 8]); }
  }
  void thread_begin(int tid) override { xv::Quiet q; guards[tid] = new std::vector<Guard>(nslots); }
  void thread_end(int tid) override {
    // guards stay on their thread: release them before the thread exits
    for (auto& g : *guards[tid]) g.reset();
    if (region[tid]) { delete region[tid]; region[tid] = nullptr; }
    xv::Quiet q; delete guards[tid]; guards[tid] = nullptr;
  }
  std::string deref(Guard& g) {
    if (g.get() == nullptr) return "null";   // operator bool is also true for a marked null pointer
    long c = g->canary; long id = g->id;
    if (c != 0xA11CE) { xv::Quiet q; violation = "guarded node " + std::to_string(id) + " was destroyed while a guard_ptr protects it (canary " + std::to_string(c) + ")"; xv::fail(xv::S_ORACLE, violation); return "DEAD"; }
    xv::Quiet q; return std::to_string(id);
  }
  // identity oracle: the object a persistent guard holds cannot change while the guard holds it - if the id read through the
  // guard differs from the id seen when the guard was set, the object was reclaimed and its memory reused under the guard
  std::map<std::pair<int, long>, long> heldid;
  std::string derefk(int tid, long k) {
    auto& g = (*guards[tid])[k];
    std::string r = deref(g);
    if (r == "null" || r == "DEAD") return r;
    long was = heldid[{tid, k}], now = atol(r.c_str());
    if (was != 0 && was != now) { xv::Quiet q; violation = "guard " + std::to_string(k) + " of T" + std::to_string(tid) + " was set on node " + std::to_string(was) + " and now reads node " + std::to_string(now) + ": the object was reclaimed and its memory reused while a guard_ptr protects it"; xv::fail(xv::S_ORACLE, violation); return "DEAD"; }
    return r;
  }
  std::string setk(int tid, long k) {   // after an acquisition into guard k
    auto& g = (*guards[tid])[k];
    std::string r = deref(g);
    { xv::Quiet q; heldid[{tid, k}] = (r == "null" || r == "DEAD") ? 0 : atol(r.c_str()); }
    return r;
  }
  std::string exec(int tid, const OpSpec& op) override {
    auto& G = *guards[tid];
    const std::string& o = op.name;
    long a = op.args.size() > 0 ? op.args[0] : 0, b = op.args.size() > 1 ? op.args[1] : 0;
    try {
      if (o == "repl" || o == "clear") {
        Guard g; g.acquire((*cells)[a], std::memory_order_acquire);
        Node* n = o == "repl" ? new Node(g_next_id++) : nullptr;
        MPtr exp = g;
        if ((*cells)[a].compare_exchange_strong(exp, MPtr(n), std::memory_order_acq_rel, std::memory_order_relaxed)) {
          if (g.get() != nullptr) { long id = g->id; g.reclaim(mkdel(id)); }   // (a marked null pointer is a value, not an object)
          return "ok";
        }
        delete n;
        return "lost";
      }
      if (o == "mark") {   // toggle the mark bit of the pointer in cell a (no-op without mark bits): changes the marked_ptr value, not the object
#if XV_MARKBITS > 0
        {
          for (;;) {
            MPtr e = (*cells)[a].load(std::memory_order_relaxed);
            MPtr n2(e.get(), (e.mark() ^ 1) & ((1u << XV_MARKBITS) - 1));
            if ((*cells)[a].compare_exchange_strong(e, n2, std::memory_order_acq_rel, std::memory_order_relaxed)) return "ok";
          }
        }
#endif
        return "ok";
      }
      if (o == "read") { Guard g; g.acquire((*cells)[a], std::memory_order_acquire); return deref(g); }
      if (o == "readeq") { MPtr e = (*cells)[a].load(std::memory_order_relaxed); Guard g; bool r = g.acquire_if_equal((*cells)[a], e, std::memory_order_acquire); if (!r) { if (g) return "BAD-nonempty-after-false"; return "ne"; } if (MPtr(g) != e) return "BAD-snapshot"; return deref(g); }
      if (o == "hold") { { xv::Quiet q; heldid[{tid, b}] = 0; } G[b].acquire((*cells)[a], std::memory_order_acquire); return setk(tid, b); }
      if (o == "holdeq") { { xv::Quiet q; heldid[{tid, b}] = 0; } MPtr e = (*cells)[a].load(std::memory_order_relaxed); bool r = G[b].acquire_if_equal((*cells)[a], e, std::memory_order_acquire); if (!r) return G[b] ? "BAD-nonempty-after-false" : "ne"; if (MPtr(G[b]) != e) return "BAD-snapshot"; return setk(tid, b); }
      if (o == "deref") return derefk(tid, a);
      if (o == "drop") { G[a].reset(); { xv::Quiet q; heldid[{tid, a}] = 0; } return G[a] ? "BAD" : "ok"; }
      if (o == "copy") { long src; { xv::Quiet q; src = heldid[{tid, a}]; heldid[{tid, b}] = 0; } G[b] = G[a]; { xv::Quiet q; heldid[{tid, b}] = src; } return derefk(tid, b); }
      if (o == "move") { if (a != b) { long src; { xv::Quiet q; src = heldid[{tid, a}]; heldid[{tid, b}] = 0; } G[b] = std::move(G[a]); { xv::Quiet q; heldid[{tid, b}] = src; heldid[{tid, a}] = 0; } if (G[a]) return "BAD-source-not-empty"; } return derefk(tid, b); }
      if (o == "swap") { G[a].swap(G[b]); { xv::Quiet q; std::swap(heldid[{tid, a}], heldid[{tid, b}]); } return derefk(tid, a) + "/" + derefk(tid, b); }
      if (o == "self") { Guard& r = G[a]; G[a] = r; return derefk(tid, a); }
      if (o == "cctor") { Guard t(G[a]); std::string r = deref(t); return r; }
      if (o == "mctor") { Guard t(std::move(G[a])); if (G[a]) return "BAD-source-not-empty"; std::string r = deref(t); G[a] = std::move(t); return r; }
      if (o == "enter") { if (!region[tid]) region[tid] = new typename R::region_guard(); return "ok"; }
      if (o == "leave") { if (region[tid]) { delete region[tid]; region[tid] = nullptr; } return "ok"; }
    } catch (const std::exception& e) {
      xv::Quiet q; std::string w = e.what(); return "throw";
    }
    return "?";
  }
  long held_by(int tid) { long n = 0; if (guards[tid]) for (auto& g : *guards[tid]) if (g) n++; return n; }

  void teardown(std::vector<std::string>& out) override {
    // flush: public API only. Unlink and retire everything, then cycle through critical regions / retire+scan rounds.
    for (int i = 0; i < ncells; i++) {
      Guard g; g.acquire((*cells)[i], std::memory_order_acquire);
      if (g.get() != nullptr) { (*cells)[i].store(MPtr(nullptr), std::memory_order_release); long id = g->id; g.reclaim(mkdel(id)); }
      else if (g) (*cells)[i].store(MPtr(nullptr), std::memory_order_release);
    }
    CPtr scratch; scratch.store(new Node(g_next_id++), std::memory_order_relaxed);
    for (int r = 0; r < flushes; r++) {
      { typename R::region_guard rg; }
      Guard g; g.acquire(scratch, std::memory_order_acquire);
      Node* n = new Node(g_next_id++); MPtr exp = g;
      if (scratch.compare_exchange_strong(exp, MPtr(n), std::memory_order_acq_rel, std::memory_order_relaxed)) { long id = g->id; g.reclaim(mkdel(id)); }
    }
    long scratch_id = scratch.load(std::memory_order_relaxed)->id;
    xv::Quiet q;
    // census: every node except the last 'flushes'+1 scratch generations must be destroyed exactly once by its own deleter
    std::string s = "census";
    long first_scratch = scratch_id - flushes;
    for (long id = 1; id < first_scratch; id++) {
      int d = g_destroyed && g_destroyed->count(id) ? (*g_destroyed)[id] : 0;
      if (d != 1) s += " " + std::to_string(id) + ":" + std::to_string(d);
#ifndef XV_DEFAULT_DELETER
      else if (g_deleter && g_deleter->count(id) && (*g_deleter)[id] != id && (*g_deleter)[id] != -1) s += " " + std::to_string(id) + ":deleter" + std::to_string((*g_deleter)[id]);
#endif
    }
    if (g_destroyed) for (auto& kv : *g_destroyed) if (kv.second > 1) s += " " + std::to_string(kv.first) + ":x" + std::to_string(kv.second);
    out.push_back(s);
    out.push_back("created " + std::to_string(g_created) + " scratch_from " + std::to_string(first_scratch));
    out.push_back("threadblocks " + std::to_string(xv::live_blocks_by_threads()));
  }
  bool check(const Case& c, const std::vector<OpRec>& h, const std::vector<std::string>& fin, std::string& why) override {
    for (auto& o : h) {
      if (o.done && o.res.find("BAD") != std::string::npos) { why = "guard algebra: " + o.name + " returned " + o.res; return false; }
      if (o.done && o.res.find("DEAD") != std::string::npos) { why = "guarded node destroyed while protected: " + o.name + " -> " + o.res; return false; }
    }
    bool pending = false; for (auto& o : h) if (!o.done) pending = true;
    if (!pending && !fin.empty() && fin[0] != "census") { why = "retired objects not destroyed exactly once by their own deleter after the flush: " + fin[0] + " (id:count)"; return false; }
    // C18: with a static strategy of K slots fewer than K protecting guards must never make an acquisition throw
    long K = c.geti("K", -1);
    if (K >= 0) {
      std::map<int, std::vector<long>> slot;  // tid -> guard contents (node id or 0)
      for (auto& o : h) {
        if (!o.done) continue;
        auto& S = slot[o.tid]; if (S.empty()) S.assign(nslots, 0);
        long a = o.args.size() > 0 ? o.args[0] : 0, b = o.args.size() > 1 ? o.args[1] : 0;
        long held = 0; for (long v : S) if (v) held++;
        auto val = [&](const std::string& r) -> long { return (r == "null" || r == "ne" || r == "throw" || r == "ok") ? 0 : atol(r.c_str()); };
        if (o.res == "throw") {
          long need = held;
          if (o.name == "hold" || o.name == "holdeq") need = held - (S[b] ? 1 : 0);   // the target guard's own slot is reusable
          if (o.name == "copy") need = held - (S[b] ? 1 : 0);
          if (need < K && !(o.name == "copy" && S[a] == 0)) { why = "bad_hazard_*_alloc thrown by " + o.name + " although only " + std::to_string(need) + " of K=" + std::to_string(K) + " slots are held by protecting guards"; return false; }
          if (o.name == "copy" && S[a] == 0 && need < K) { why = "bad_hazard_*_alloc thrown by copy-assignment of an EMPTY guard with " + std::to_string(need) + " of K=" + std::to_string(K) + " slots in use"; return false; }
          if (o.name == "hold" || o.name == "holdeq" || o.name == "copy") S[b] = 0;
          continue;
        }
        if (o.name == "hold" || o.name == "holdeq") S[b] = val(o.res);
        else if (o.name == "drop") S[a] = 0;
        else if (o.name == "copy") S[b] = S[a];
        else if (o.name == "move") { if (a != b) { S[b] = S[a]; S[a] = 0; } }
        else if (o.name == "swap") std::swap(S[a], S[b]);
      }
    }
    return true;
  }
};

int main(int argc, char** argv) { return main_driver(argc, argv, []() -> Adapter* { return new ReclAdapter(); }); }
