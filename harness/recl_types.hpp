// reclaimer configurations used by the harnesses (small thresholds so that reclamation happens inside short histories)
#pragma once
#include <xenium/reclamation/generic_epoch_based.hpp>
#include <xenium/reclamation/hazard_eras.hpp>
#include <xenium/reclamation/hazard_pointer.hpp>
#include <xenium/reclamation/lock_free_ref_count.hpp>
#include <xenium/reclamation/quiescent_state_based.hpp>
#include <xenium/reclamation/stamp_it.hpp>

#include "gc_reclaimer.hpp"
namespace rt {
using GC = xvgc::gc;
namespace r = xenium::reclamation;
namespace p = xenium::policy;
template <size_t K> using HPs = r::hazard_pointer<>::with<p::allocation_strategy<r::hp_allocation::static_strategy<K, 0, 0>>>;
template <size_t K> using HPd = r::hazard_pointer<>::with<p::allocation_strategy<r::hp_allocation::dynamic_strategy<K, 0, 0>>>;
template <size_t K> using HEs = r::hazard_eras<>::with<p::allocation_strategy<r::he_allocation::static_strategy<K, 0, 0>>>;
template <size_t K> using HEd = r::hazard_eras<>::with<p::allocation_strategy<r::he_allocation::dynamic_strategy<K, 0, 0>>>;
using EBR = r::epoch_based<>::with<p::scan_frequency<1>>;
using NEBR = r::new_epoch_based<>::with<p::scan_frequency<1>>;
using DEBRA = r::debra<>::with<p::scan_frequency<1>>;
using EBR0 = r::epoch_based<>::with<p::scan_frequency<0>>;
// further generic_epoch_based configurations (region extension x scan strategy x abandon strategy)
using GEBR_lazy = r::generic_epoch_based<>::with<p::scan_frequency<1>, p::scan<r::scan::all_threads>, p::region_extension<r::region_extension::lazy>>;
using GEBR_n2 = r::generic_epoch_based<>::with<p::scan_frequency<0>, p::scan<r::scan::n_threads<2>>, p::region_extension<r::region_extension::none>>;
using GEBR_aband = r::generic_epoch_based<>::with<p::scan_frequency<1>, p::abandon<r::abandon::always>, p::region_extension<r::region_extension::none>>;
using GEBR_thresh = r::generic_epoch_based<>::with<p::scan_frequency<1>, p::abandon<r::abandon::when_exceeds_threshold<1>>, p::region_extension<r::region_extension::eager>>;
using GEBR_t0 = r::generic_epoch_based<>::with<p::scan_frequency<1>, p::abandon<r::abandon::when_exceeds_threshold<0>>, p::region_extension<r::region_extension::none>>;   // threshold 0: abandon whatever is left
using EBR100 = r::epoch_based<>;
using LFRCtl = r::lock_free_ref_count<>::with<p::thread_local_free_list_size<2>>;
using QSBR = r::quiescent_state_based;
using STAMP = r::stamp_it;
using LFRC = r::lock_free_ref_count<>;
}  // namespace rt
