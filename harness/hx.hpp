// hx.hpp - common driver for all xvrt harnesses (one binary per structure family).
//
//   <harness> run <casefile> [--trace] [--race] [--weak W] [--aba]      one execution, prints trace/history/result
//   <harness> explore <casefile> --strategy random|pct|prefix|dfs --n N --seed S [--race] [--weak W] [--aba] [--pb K]
//                                                                      many executions (one forked child each)
// A case file:
//   cfg key=value key=value ...
//   thread 1: push 1; push 2; pop
//   thread 2: steal; steal
//   sched 1 1 2 2 1 ...        (optional: explicit schedule = tid per atomic step)
//   choices 0 3 1              (optional: recorded nondeterministic choices)
#pragma once
#include "../rt/xvrt.hpp"

#include <signal.h>
#include <sys/mman.h>
#include <sys/wait.h>
#include <unistd.h>

#include <algorithm>
#include <cstdio>
#include <cstdlib>
#include <cstring>
#include <fstream>
#include <functional>
#include <iostream>
#include <map>
#include <set>
#include <sstream>
#include <string>
#include <unordered_set>
#include <vector>

namespace hx {

struct OpSpec { std::string name; std::vector<long> args; };
struct OpRec { int tid; int idx; std::string name; std::vector<long> args; std::string res; long inv = -1, ret = -1; bool done = false; uint32_t vci[16] = {0}, vcr[16] = {0}; };
inline bool g_hb_order = false;   // weak-memory mode: operations are ordered by happens-before, not by wall-clock time
inline bool op_precedes(const OpRec& a, const OpRec& b) {
  if (!a.done) return false;
  if (!g_hb_order) return a.ret < b.inv;
  if (a.tid == b.tid) return a.ret < b.inv;
  if (a.tid == 0 || b.tid == 0) return a.ret < b.inv;   // the main thread runs before / after all others (spawn and join synchronise)
  for (int i = 0; i < 16; i++) if (a.vcr[i] > b.vci[i]) return false;
  return a.ret < b.inv;
}
struct Case {
  std::map<std::string, std::string> cfg;
  std::vector<std::vector<OpSpec>> prog;  // prog[0] = thread 1
  std::vector<int> sched;
  std::vector<uint64_t> choices;
  std::vector<std::pair<int, long>> prefix;
  long geti(const std::string& k, long d) const { auto it = cfg.find(k); return it == cfg.end() ? d : atol(it->second.c_str()); }
  std::string gets(const std::string& k, const std::string& d) const { auto it = cfg.find(k); return it == cfg.end() ? d : it->second; }
};

inline std::string trim(const std::string& s) { size_t a = s.find_first_not_of(" \t\r\n"), b = s.find_last_not_of(" \t\r\n"); return a == std::string::npos ? "" : s.substr(a, b - a + 1); }

inline Case parse_case(std::istream& in) {
  Case c; std::string line;
  while (std::getline(in, line)) {
    line = trim(line);
    if (line.empty() || line[0] == '#') continue;
    std::istringstream ss(line); std::string w; ss >> w;
    if (w == "cfg") { std::string kv; while (ss >> kv) { auto e = kv.find('='); if (e != std::string::npos) c.cfg[kv.substr(0, e)] = kv.substr(e + 1); } }
    else if (w == "thread") {
      int t; ss >> t; std::string rest; std::getline(ss, rest); auto col = rest.find(':'); rest = rest.substr(col + 1);
      if ((int)c.prog.size() < t) c.prog.resize(t);
      std::istringstream os(rest); std::string op;
      while (std::getline(os, op, ';')) { op = trim(op); if (op.empty()) continue; std::istringstream o2(op); OpSpec s; o2 >> s.name; long a; while (o2 >> a) s.args.push_back(a); c.prog[t - 1].push_back(s); }
    }
    else if (w == "sched") { int t; while (ss >> t) c.sched.push_back(t); }
    else if (w == "choices") { uint64_t t; while (ss >> t) c.choices.push_back(t); }
    else if (w == "prefix") { int t; long n; while (ss >> t >> n) c.prefix.push_back({t, n}); }
  }
  return c;
}

inline std::string case_text(const Case& c, const std::vector<int>* sched = nullptr, const std::vector<uint64_t>* choices = nullptr) {
  std::ostringstream o; o << "cfg"; for (auto& kv : c.cfg) o << " " << kv.first << "=" << kv.second; o << "\n";
  for (size_t t = 0; t < c.prog.size(); t++) { o << "thread " << (t + 1) << ":"; for (size_t i = 0; i < c.prog[t].size(); i++) { o << (i ? "; " : " ") << c.prog[t][i].name; for (long a : c.prog[t][i].args) o << " " << a; } o << "\n"; }
  const std::vector<int>& s = sched ? *sched : c.sched;
  if (!s.empty()) { o << "sched"; for (int t : s) o << " " << t; o << "\n"; }
  const std::vector<uint64_t>& ch = choices ? *choices : c.choices;
  if (!ch.empty()) { o << "choices"; for (auto t : ch) o << " " << t; o << "\n"; }
  return o.str();
}

// ------------------------------------------------------------------------------------------------
// exact linearizability check (Wing&Gong / Lowe style DFS with memoisation) against a relational spec.
// Spec: struct { using State = ...; State init; bool apply(State&, const OpRec&) const; std::string key(const State&) const; }
// apply returns false if the recorded result is not allowed in that state. Pending ops (done=false)
// may be linearized (with any result: apply is called with res == "?") or dropped.
// ------------------------------------------------------------------------------------------------
// optional second successor of an operation (nondeterministic specifications): Spec::apply_alt
template <class Spec> auto lin_alt(const Spec& sp, typename Spec::State& s, const OpRec& o, int) -> decltype(sp.apply_alt(s, o)) { return sp.apply_alt(s, o); }
template <class Spec> bool lin_alt(const Spec&, typename Spec::State&, const OpRec&, long) { return false; }

template <class Spec>
struct LinCheck {
  const Spec& spec; const std::vector<OpRec>& h; std::unordered_set<std::string> seen; long nodes = 0; long limit;
  LinCheck(const Spec& s, const std::vector<OpRec>& hist, long lim = 2000000) : spec(s), h(hist), limit(lim) {}
  bool dfs(uint64_t done, const typename Spec::State& st) {
    size_t n = h.size();
    bool all = true;
    for (size_t i = 0; i < n; i++) if (!(done >> i & 1) && h[i].done) { all = false; break; }
    if (all) return true;
    if (++nodes > limit) return true;  // give up = no verdict (never a failure)
    std::string k = std::to_string(done) + "|" + spec.key(st);
    if (!seen.insert(k).second) return false;
    // an operation can be linearized next only if no not-yet-linearized completed operation precedes it
    for (size_t i = 0; i < n; i++) {
      if (done >> i & 1) continue;
      bool blocked = false;
      for (size_t j = 0; j < n && !blocked; j++) if (j != i && !(done >> j & 1) && op_precedes(h[j], h[i])) blocked = true;
      if (blocked) continue;
      typename Spec::State s2 = st;
      if (spec.apply(s2, h[i])) { if (dfs(done | (1ull << i), s2)) return true; }
      typename Spec::State s3 = st;
      if (lin_alt(spec, s3, h[i], 0)) { if (dfs(done | (1ull << i), s3)) return true; }
    }
    return false;
  }
  bool ok() { if (h.size() > 62) return true; return dfs(0, spec.init); }
};

// ------------------------------------------------------------------------------------------------
struct Adapter {
  virtual ~Adapter() {}
  virtual void setup(const Case& c) = 0;                       // construct (main thread, tracking on)
  virtual std::string exec(int tid, const OpSpec& op) = 0;      // perform one operation, return its result
  virtual void teardown(std::vector<std::string>& out) {}       // drain / destroy; lines appended to out ("drain ...")
  virtual bool check(const Case& c, const std::vector<OpRec>& h, const std::vector<std::string>& final_lines, std::string& why) { return true; }
  virtual bool lock_free(const Case& c, const OpSpec& op) { return true; }   // is this operation documented lock-free (C16)?
  virtual void thread_begin(int tid) {}
  virtual void thread_end(int tid) {}
};

struct Opts { bool trace = false, race = false, weak = false, aba = false; int W = 16; std::string strategy = "random"; long n = 100; uint64_t seed = 1; int pb = 2; int pct_depth = 3; long max_steps = 200000; bool quiet = false; int maxfound = 1; int solo_tid = 0; long solo_after = -1; long solo_budget = 0; int spin = 64; };

struct ExecOut { int status = 0; std::string detail; std::vector<int> sched; std::vector<uint32_t> enabled; std::vector<uint64_t> choices; std::vector<long> tsteps; long steps = 0; };

struct Shared {  // result area shared with forked children
  int status; long steps; int nsched; int nchoices; long solo_at; int solo_tid; long solo_budget; unsigned long long seed; char detail[1024]; int sched[60000]; uint32_t enabled[60000]; uint64_t choices[256]; long tsteps[17]; int nts; long stale; long loads;
};

inline std::vector<OpRec>* g_hist = nullptr;
inline int g_cur_op[17];       // index of the operation a thread is executing / about to execute
inline bool g_in_op[17];
inline long g_solo_at = -1; inline int g_solo_tid = 0; inline long g_solo_budget = 0;   // C16 replay information
inline long g_clock = 0;

// Executes one case in the current process. If `print` the trace/history/result are written to stdout.
inline ExecOut execute(Adapter& A, const Case& c, const Opts& o, xv::Scheduler& sch, bool print, Shared* sh) {
  xv::Config cfg; cfg.trace = o.trace; cfg.race = o.race || o.weak; cfg.weak = o.weak; cfg.weak_window = o.W; cfg.aba = o.aba; cfg.seed = o.seed; cfg.max_steps = o.max_steps; cfg.spin_limit = o.spin;
  std::vector<OpRec> hist; g_hist = &hist; g_clock = 0; g_hb_order = o.weak;
  std::vector<std::string> final_lines;
  auto dump = [&](int status, const std::string& detail) {
    if (print) {
      for (auto& r : xv::trace()) std::cout << "TRACE " << xv::fmt_rec(r) << "\n";
      for (auto& r : hist) { std::cout << "HIST T" << r.tid << " " << r.name; for (long a : r.args) std::cout << " " << a; std::cout << " -> " << (r.done ? r.res : "?") << " [" << r.inv << "," << r.ret << "]\n"; }
      for (auto& l : final_lines) std::cout << "FINAL " << l << "\n";
      std::cout << "RESULT " << status << " " << detail << "\n";
    }
  };
  ExecOut out;
  xv::set_abort_handler([&]() {
    // called on a fatal violation; the process exits right after
    if (sh) {
      sh->status = xv::status(); strncpy(sh->detail, xv::detail().c_str(), sizeof sh->detail - 1);
      const xv::Result& pr = xv::partial_result();
      sh->nsched = (int)std::min<size_t>(pr.schedule.size(), 60000); for (int i = 0; i < sh->nsched; i++) { sh->sched[i] = pr.schedule[i]; sh->enabled[i] = pr.enabled[i]; }
      sh->nchoices = (int)std::min<size_t>(pr.choices.size(), 256); for (int i = 0; i < sh->nchoices; i++) sh->choices[i] = pr.choices[i];
      sh->steps = (long)xv::step_count();
      sh->solo_at = g_solo_at; sh->solo_tid = g_solo_tid; sh->solo_budget = g_solo_budget;
    }
    dump(xv::status(), xv::detail());
    if (print) std::cout.flush();
  });
  if (sh) sh->seed = o.seed;
  xv::reset(cfg);
  A.setup(c);
  {
    xv::Quiet q;
    hist.reserve(256);
    for (size_t t = 0; t < c.prog.size(); t++) {
      int tid = (int)t + 1;
      xv::spawn([&, tid]() {
        A.thread_begin(tid);
        const auto& ops = c.prog[tid - 1];
        for (size_t i = 0; i < ops.size(); i++) {
          size_t slot;
          g_cur_op[tid] = (int)i; g_in_op[tid] = false;
          xv::yield_point();   // START step: the invocation is a scheduling point of its own
          g_in_op[tid] = true;
          {
            xv::Quiet q2;
            OpRec r; r.tid = tid; r.idx = (int)i; r.name = ops[i].name; r.args = ops[i].args; r.inv = ++g_clock; xv::clock_snapshot(r.vci);
            slot = hist.size(); hist.push_back(r);
            std::string s = "inv " + ops[i].name; for (long a : ops[i].args) s += " " + std::to_string(a); xv::event(s);
          }
          std::string res = A.exec(tid, ops[i]);   // adapters keep their own bookkeeping inside xv::Quiet
          {
            xv::Quiet q2;
            hist[slot].res = res; hist[slot].ret = ++g_clock; hist[slot].done = true; xv::clock_snapshot(hist[slot].vcr);
            xv::event("res " + res);
          }
          g_in_op[tid] = false;
          if (xv::solo_thread() == tid) xv::end_execution();   // C16: the solo thread finished its operation within its budget
        }
        g_cur_op[tid] = (int)ops.size(); g_in_op[tid] = false;
        A.thread_end(tid);
      });
    }
  }
  xv::Result r = xv::run(sch);
  { xv::Quiet q; out.sched = r.schedule; out.enabled = r.enabled; out.choices = r.choices; out.tsteps = r.thread_steps; out.steps = r.steps; }
  A.teardown(final_lines);
  xv::finish();
  int status = xv::status(); std::string detail = xv::detail();
  if (status == 0) { std::string why; if (!A.check(c, hist, final_lines, why)) { status = xv::S_ORACLE; detail = why; } }
  out.status = status; out.detail = detail;
  if (sh) {
    sh->status = status; strncpy(sh->detail, detail.c_str(), sizeof sh->detail - 1); sh->steps = r.steps;
    sh->nsched = (int)std::min<size_t>(r.schedule.size(), 60000); for (int i = 0; i < sh->nsched; i++) { sh->sched[i] = r.schedule[i]; sh->enabled[i] = r.enabled[i]; }
    sh->nchoices = (int)std::min<size_t>(r.choices.size(), 256); for (int i = 0; i < sh->nchoices; i++) sh->choices[i] = r.choices[i];
    sh->nts = (int)std::min<size_t>(r.thread_steps.size(), 17); for (int i = 0; i < sh->nts; i++) sh->tsteps[i] = r.thread_steps[i];
    auto ws = xv::wstats(); sh->stale = ws.stale_reads; sh->loads = ws.loads;
    sh->solo_at = g_solo_at; sh->solo_tid = g_solo_tid; sh->solo_budget = g_solo_budget;
  }
  dump(status, detail);
  if (print) { std::cout << "SCHED"; for (int t : r.schedule) std::cout << " " << t; std::cout << "\n"; if (!r.choices.empty()) { std::cout << "CHOICES"; for (auto t : r.choices) std::cout << " " << t; std::cout << "\n"; } std::cout << "STEPS " << r.steps; for (size_t i = 1; i < r.thread_steps.size(); i++) std::cout << " T" << i << "=" << r.thread_steps[i]; std::cout << "\n"; }
  return out;
}

// run one execution in a forked child; the result comes back through shared memory
inline bool run_child(std::function<Adapter*()> mk, const Case& c, const Opts& o, std::function<xv::Scheduler*()> mksched, Shared* sh, int timeout_s = 20) {
  memset(sh, 0, sizeof(int) * 4 + sizeof(long));
  sh->status = -1; sh->detail[0] = 0; sh->nsched = 0; sh->nchoices = 0; sh->nts = 0; sh->solo_at = -1; sh->solo_tid = 0;
  fflush(stdout);
  pid_t pid = fork();
  if (pid == 0) {
    alarm(timeout_s);
    Adapter* A = mk();
    xv::Scheduler* s = mksched();
    execute(*A, c, o, *s, false, sh);
    _exit(0);
  }
  int st = 0; waitpid(pid, &st, 0);
  if (WIFSIGNALED(st)) {
    int sig = WTERMSIG(st);
    if (sig == SIGALRM) { sh->status = -2; snprintf(sh->detail, sizeof sh->detail, "child timed out (tool time-out, not a verdict)"); }
    else { sh->status = xv::S_CRASH; snprintf(sh->detail, sizeof sh->detail, "child killed by signal %d", sig); }
  } else if (sh->status == -1) { sh->status = xv::S_CRASH; snprintf(sh->detail, sizeof sh->detail, "child exited with code %d without a result", WEXITSTATUS(st)); }
  return sh->status == 0;
}

struct DfsSched : xv::Scheduler {  // follows a prefix, then non-preemptive continuation
  std::vector<int> prefix; size_t pos = 0;
  int pick(long, int cur, uint32_t en) override {
    if (pos < prefix.size()) { int t = prefix[pos++]; if (en & (1u << t)) return t; }
    if (cur > 0 && (en & (1u << cur))) return cur;
    for (int i = 1; i < 32; i++) if (en & (1u << i)) return i;
    return 0;
  }
};

struct OpSched : xv::Scheduler {  // operations run one at a time (no preemption inside an operation), random order
  uint64_t s; explicit OpSched(uint64_t seed) : s(seed * 0x9E3779B97F4A7C15ull + 99) {}
  uint64_t next() { s ^= s << 13; s ^= s >> 7; s ^= s << 17; return s; }
  int pick(long, int cur, uint32_t en) override {
    if (cur > 0 && (en & (1u << cur)) && !xv::at_boundary(cur)) return cur;
    int cnt = __builtin_popcount(en); int k = (int)(next() % cnt);
    for (int i = 1; i < 32; i++) if (en & (1u << i)) { if (k-- == 0) return i; }
    return 0;
  }
  uint64_t choice(uint64_t n) override { return n ? next() % n : 0; }
};

// phases: (tid, steps, ops): run tid until it has executed `steps` steps in this phase (steps >= 0) or has reached
// its `ops`-th operation boundary in this phase (ops >= 0); -1 = unlimited. Then the next phase. Afterwards non-preemptive lowest id.
struct PhaseSched : xv::Scheduler {
  struct Ph { int tid; long steps; long ops; };
  std::vector<Ph> ph; size_t cur = 0; long used = 0, bounds = 0; bool entered = false;
  int pick(long, int curt, uint32_t en) override {
    while (cur < ph.size()) {
      const Ph& p = ph[cur];
      bool alive = (en & (1u << p.tid)) != 0;
      if (alive) {
        bool stop = false;
        if (p.steps >= 0 && used >= p.steps) stop = true;
        if (p.ops >= 0 && xv::at_boundary(p.tid) && nb >= p.ops) stop = true;
        if (!stop) { if (xv::at_boundary(p.tid)) nb++; used++; entered = true; return p.tid; }
      }
      cur++; used = 0; bounds = 0; nb = 0; entered = false;
    }
    if (curt > 0 && (en & (1u << curt))) return curt;
    for (int i = 1; i < 32; i++) if (en & (1u << i)) return i;
    return 0;
  }
  long nb = 0;
};

// C16: random schedule for `prefix` steps, then one eligible thread (inside or about to start a lock-free operation) runs alone
struct SoloSched : xv::Scheduler {
  xv::RandomSched rnd; long prefix; long budget; Adapter* A; const Case* c; bool started = false; int solo = 0; uint64_t s;
  SoloSched(uint64_t seed, long pre, long bud, Adapter* a, const Case* cs) : rnd(seed, 35), prefix(pre), budget(bud), A(a), c(cs), s(seed * 77 + 5) {}
  int pick(long step, int cur, uint32_t en) override {
    if (started) return solo;
    if (step < prefix) return rnd.pick(step, cur, en);
    std::vector<int> elig;
    for (int t = 1; t <= (int)c->prog.size(); t++) {
      if (!(en & (1u << t))) continue;
      int i = g_cur_op[t]; if (i < 0 || i >= (int)c->prog[t - 1].size()) continue;
      if (A->lock_free(*c, c->prog[t - 1][i])) elig.push_back(t);
    }
    if (elig.empty()) return rnd.pick(step, cur, en);
    s ^= s << 13; s ^= s >> 7; s ^= s << 17;
    solo = elig[s % elig.size()]; started = true;
    xv::set_solo(solo, budget);
    g_solo_at = (long)xv::partial_result().schedule.size(); g_solo_tid = solo; g_solo_budget = budget;
    return solo;
  }
  uint64_t choice(uint64_t n) override { return rnd.choice(n); }
};

// C16, systematic: thread `a` runs `aops` whole operations and then `k` more steps (it is then stopped inside an operation),
// then thread `b` runs alone if its next operation is documented lock-free
struct SoloSweepSched : xv::Scheduler {
  PhaseSched ph; int b; long budget; Adapter* A; const Case* c; bool started = false, skipped = false;
  SoloSweepSched(int a, long aops, long k, int b_, long bud, Adapter* ad, const Case* cs) : b(b_), budget(bud), A(ad), c(cs) { ph.ph = {{a, -1, aops}, {a, k, -1}}; }
  int pick(long step, int cur, uint32_t en) override {
    if (started) return b;
    if (ph.cur < ph.ph.size()) { int t = ph.pick(step, cur, en); if (ph.cur < ph.ph.size()) return t; }
    if (!skipped && (en & (1u << b))) {
      int i = g_cur_op[b];
      if (i >= 0 && i < (int)c->prog[b - 1].size() && A->lock_free(*c, c->prog[b - 1][i])) {
        started = true; xv::set_solo(b, budget);
        g_solo_at = (long)xv::partial_result().schedule.size(); g_solo_tid = b; g_solo_budget = budget;
        return b;
      }
    }
    skipped = true;
    if (cur > 0 && (en & (1u << cur))) return cur;
    for (int i = 1; i < 32; i++) if (en & (1u << i)) return i;
    return 0;
  }
  uint64_t choice(uint64_t) override { return 0; }
};

struct SoloReplay : xv::ReplaySched {   // replay of a C16 finding: after `solo_at` decisions only `solo_tid` runs
  long solo_at; int solo_tid; long budget; long n = 0; bool on = false;
  int pick(long step, int cur, uint32_t en) override {
    if (!on && n >= solo_at) { on = true; xv::set_solo(solo_tid, budget); }
    n++;
    if (on) return solo_tid;
    return xv::ReplaySched::pick(step, cur, en);
  }
};

inline int count_preemptions(const std::vector<int>& s, const std::vector<uint32_t>& en) {
  int p = 0; for (size_t i = 1; i < s.size(); i++) if (s[i] != s[i - 1] && (en[i] & (1u << s[i - 1]))) p++; return p;
}

inline void crash_handler(int sig) {
  // run mode: report a crash as a verdict instead of dying silently
  char buf[64]; int n = snprintf(buf, sizeof buf, "RESULT 6 crash: signal %d\n", sig);
  if (write(1, buf, (size_t)n)) {}
  _exit(16);
}

inline int main_driver(int argc, char** argv, std::function<Adapter*()> mk) {
  if (argc < 3) { fprintf(stderr, "usage: %s run|explore <case> [options]\n", argv[0]); return 2; }
  std::string cmd = argv[1];
  std::ifstream in(argv[2]); if (!in) { fprintf(stderr, "cannot open %s\n", argv[2]); return 2; }
  Case c = parse_case(in);
  Opts o;
  for (int i = 3; i < argc; i++) {
    std::string a = argv[i];
    auto nxt = [&]() { return std::string(i + 1 < argc ? argv[++i] : "0"); };
    if (a == "--trace") o.trace = true; else if (a == "--race") o.race = true; else if (a == "--aba") o.aba = true;
    else if (a == "--weak") { o.weak = true; o.W = atoi(nxt().c_str()); }
    else if (a == "--strategy") o.strategy = nxt(); else if (a == "--n") o.n = atol(nxt().c_str()); else if (a == "--seed") o.seed = strtoull(nxt().c_str(), 0, 10);
    else if (a == "--pb") o.pb = atoi(nxt().c_str()); else if (a == "--depth") o.pct_depth = atoi(nxt().c_str()); else if (a == "--max-steps") o.max_steps = atol(nxt().c_str());
    else if (a == "--spin") o.spin = atoi(nxt().c_str());
    else if (a == "--maxfound") o.maxfound = atoi(nxt().c_str());
    else if (a == "--solo-budget") o.solo_budget = atol(nxt().c_str());
    else if (a == "--quiet") o.quiet = true;
  }
  if (c.geti("wseed", 0)) o.seed = (uint64_t)strtoull(c.gets("wseed", "1").c_str(), 0, 10);
  if (c.geti("aba", 0)) o.aba = true;
  if (c.geti("race", 0)) o.race = true;
  if (c.geti("weak", 0)) { o.weak = true; o.W = (int)c.geti("weak", 16); }
  int nthreads = (int)c.prog.size();
  if (cmd == "run") {
    signal(SIGSEGV, crash_handler); signal(SIGBUS, crash_handler); signal(SIGABRT, crash_handler); signal(SIGFPE, crash_handler);
    Adapter* A = mk();
    xv::Scheduler* s;
    if (!c.prefix.empty()) { auto* p = new xv::PrefixSched(); p->segs = c.prefix; s = p; }
    else if (c.geti("solo_at", -1) >= 0) { auto* r = new SoloReplay(); r->sched = c.sched; r->choices = c.choices; r->solo_at = c.geti("solo_at", 0); r->solo_tid = (int)c.geti("solo_tid", 1); r->budget = c.geti("solo_budget", 5000); s = r; }
    else { auto* r = new xv::ReplaySched(); r->sched = c.sched; r->choices = c.choices; s = r; }
    ExecOut e = execute(*A, c, o, *s, true, nullptr);
    return e.status == 0 ? 0 : 10 + e.status;
  }
  if (cmd == "explore") {
    Shared* sh = (Shared*)mmap(nullptr, sizeof(Shared), PROT_READ | PROT_WRITE, MAP_SHARED | MAP_ANONYMOUS, -1, 0);
    long execs = 0, timeouts = 0, total_steps = 0, stale = 0; std::set<std::string> distinct; std::set<std::string> found_kinds;
    auto report = [&](const char* how) {
      std::cout << "EXPLORED strategy=" << how << " executions=" << execs << " distinct_schedules=" << distinct.size() << " steps=" << total_steps << " timeouts=" << timeouts << " stale_reads=" << stale << "\n";
    };
    auto handle = [&]() -> bool {  // returns true if a violation was found (and printed)
      execs++; total_steps += sh->steps; stale += sh->stale;
      std::string key; for (int i = 0; i < sh->nsched; i++) key += (char)('0' + sh->sched[i]); for (int i = 0; i < sh->nchoices; i++) key += "c" + std::to_string(sh->choices[i]);
      distinct.insert(key);
      if (sh->status == -2) { timeouts++; return false; }
      if (sh->status != 0) {
        std::vector<int> sc(sh->sched, sh->sched + sh->nsched); std::vector<uint64_t> ch(sh->choices, sh->choices + sh->nchoices);
        std::string norm; for (const char* p = sh->detail; *p; ++p) norm += (*p >= '0' && *p <= '9') ? '#' : *p;
        norm = std::to_string(sh->status) + norm.substr(0, 60);
        if (!found_kinds.insert(norm).second) return false;   // same kind of finding already reported: keep exploring
        std::cout << "FOUND status=" << sh->status << " detail=" << sh->detail << "\n";
        Case c2 = c;
        if (o.weak) c2.cfg["wseed"] = std::to_string(sh->seed);
        if (sh->solo_at >= 0) { c2.cfg["solo_at"] = std::to_string(sh->solo_at); c2.cfg["solo_tid"] = std::to_string(sh->solo_tid); c2.cfg["solo_budget"] = std::to_string(sh->solo_budget); }
        std::cout << "CASE-BEGIN\n" << case_text(c2, &sc, &ch) << "CASE-END\n";
        return (int)found_kinds.size() >= o.maxfound;
      }
      return false;
    };
    if (o.strategy == "solo") {
      // every execution: a random prefix of random length, then one lock-free operation must finish solo within the budget
      for (long k = 0; k < o.n; k++) {
        uint64_t sd = o.seed * 1000003ull + (uint64_t)k;
        Opts o2 = o; o2.seed = sd;
        long pre = (long)(sd % 97) * (1 + (long)((sd >> 8) % 4));
        Adapter* Ap = nullptr;
        run_child([&]() { Ap = mk(); return Ap; }, c, o2, [&]() -> xv::Scheduler* { return new SoloSched(sd, pre, o.solo_budget > 0 ? o.solo_budget : 5000, Ap, &c); }, sh);
        if (handle()) { report("solo"); return 1; }
      }
      report("solo");
      return found_kinds.empty() ? 0 : 1;
    }
    if (o.strategy == "solosweep") {
      for (int a = 1; a <= nthreads; a++) for (int b = 1; b <= nthreads; b++) if (a != b) {
        long nops_a = (long)c.prog[a - 1].size();
        for (long ia = 0; ia < nops_a; ia++) {
          for (long k = 0; k < o.n; k++) {
            Adapter* Ap = nullptr;
            run_child([&]() { Ap = mk(); return Ap; }, c, o, [&]() -> xv::Scheduler* { return new SoloSweepSched(a, ia, k, b, o.solo_budget > 0 ? o.solo_budget : 5000, Ap, &c); }, sh);
            if (handle()) { report("solosweep"); return 1; }
            if (sh->nts > a && sh->tsteps[a] < k) break;   // a finished its operation before k steps: deeper k add nothing
          }
        }
      }
      report("solosweep");
      return found_kinds.empty() ? 0 : 1;
    }
    if (o.strategy == "opseq") {
      for (long k = 0; k < o.n; k++) {
        uint64_t sd = o.seed * 1000003ull + (uint64_t)k;
        Opts o2 = o; o2.seed = sd;
        run_child(mk, c, o2, [&]() -> xv::Scheduler* { return new OpSched(sd); }, sh);
        if (handle()) { report("opseq"); return 1; }
      }
      report("opseq");
      return found_kinds.empty() ? 0 : 1;
    }
    if (o.strategy == "random" || o.strategy == "pct") {
      for (long k = 0; k < o.n; k++) {
        uint64_t sd = o.seed * 1000003ull + (uint64_t)k;
        Opts o2 = o; o2.seed = sd;
        bool pct = o.strategy == "pct" || (o.strategy == "random" && false);
        long est = 40 * (long)nthreads;
        run_child(mk, c, o2, [&]() -> xv::Scheduler* { if (pct) return new xv::PctSched(sd, nthreads, o.pct_depth, est); return new xv::RandomSched(sd, 10 + (unsigned)(sd % 5) * 15); }, sh);
        if (handle()) { report(o.strategy.c_str()); return 1; }
      }
      report(o.strategy.c_str());
      return found_kinds.empty() ? 0 : 1;
    }
    if (o.strategy == "phase3") {
      // three-party races: thread a runs `ia` whole operations (it then holds whatever its guards hold), thread c runs k steps,
      // thread b runs to completion (incl. thread exit), then c, then a complete. All ordered triples of distinct threads.
      for (int a = 1; a <= nthreads; a++) for (int b = 1; b <= nthreads; b++) for (int cc = 1; cc <= nthreads; cc++) {
        if (a == b || b == cc || a == cc) continue;
        long nops_a = (long)c.prog[a - 1].size();
        for (long ia = 0; ia <= nops_a; ia++) for (int order = 0; order < 2; order++) {
          // order 0: a's operations first, then c's k steps; order 1: c's k steps first (c is already k steps into its own
          // operations - e.g. has announced an older epoch / passed a quiescent state - when a takes its guards)
          for (long k = 0; k < o.n; k++) {
            run_child(mk, c, o, [&]() -> xv::Scheduler* { auto* p = new PhaseSched();
              if (order == 0) p->ph = {{a, -1, ia}, {cc, k, -1}, {b, -1, -1}, {cc, -1, -1}, {a, -1, -1}};
              else p->ph = {{cc, k, -1}, {a, -1, ia}, {b, -1, -1}, {cc, -1, -1}, {a, -1, -1}};
              return p; }, sh);
            if (handle()) { report("phase3"); return 1; }
            if (sh->nts > cc && sh->tsteps[cc] < k) break;
          }
        }
      }
      report("phase3");
      return found_kinds.empty() ? 0 : 1;
    }
    if (o.strategy == "prefix") {  // "thread A runs k steps, then B to completion, then the rest" for all A != B, k
      for (int a = 1; a <= nthreads; a++) for (int b = 1; b <= nthreads; b++) if (a != b || nthreads == 1) {
        for (long k = 0; k < o.n; k++) {
          run_child(mk, c, o, [&]() -> xv::Scheduler* { auto* p = new xv::PrefixSched(); p->segs = {{a, k}, {b, 1000000}}; return p; }, sh);
          if (handle()) { report("prefix"); return 1; }
          if (sh->nts > a && sh->tsteps[a] < k) break;  // thread a has fewer than k steps: done
        }
      }
      report("prefix");
      return found_kinds.empty() ? 0 : 1;
    }
    if (o.strategy == "dfs") {  // preemption-bounded DFS, budget o.n executions
      std::vector<std::vector<int>> stack; stack.push_back({});
      std::set<std::string> queued;
      while (!stack.empty() && execs < o.n) {
        std::vector<int> pre = stack.back(); stack.pop_back();
        run_child(mk, c, o, [&]() -> xv::Scheduler* { auto* d = new DfsSched(); d->prefix = pre; return d; }, sh);
        if (handle()) { report("dfs"); return 1; }
        if (sh->status != 0) continue;
        std::vector<int> sc(sh->sched, sh->sched + sh->nsched); std::vector<uint32_t> en(sh->enabled, sh->enabled + sh->nsched);
        // children: deviate at one position >= |pre|
        for (size_t i = sc.size(); i-- > pre.size();) {
          for (int t = 1; t <= nthreads; t++) if (t != sc[i] && (en[i] & (1u << t))) {
            std::vector<int> p2(sc.begin(), sc.begin() + i); p2.push_back(t);
            std::vector<uint32_t> e2(en.begin(), en.begin() + i + 1);
            if (count_preemptions(p2, e2) > o.pb) continue;
            std::string k; for (int x : p2) k += (char)('0' + x);
            if (queued.insert(k).second) stack.push_back(p2);
          }
        }
      }
      std::cout << "DFS-FRONTIER " << stack.size() << (stack.empty() ? " exhaustive" : " truncated") << "\n";
      report("dfs");
      return found_kinds.empty() ? 0 : 1;
    }
  }
  fprintf(stderr, "unknown command\n");
  return 2;
}

}  // namespace hx
