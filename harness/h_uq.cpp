// harness for michael_scott / ramalhete / nikolaev / kirsch_kfifo (reclaimer selected by -DXV_RECL=<alias>)
// and kirsch_bounded_kfifo (no reclaimer)  (C04, C06, C07, C16; with the reclaimers also C01/C02)
//   cfg q=ms|ram|nik|kf|kfb elem=int|obj|ptr|uptr|small epn=1|2|3|4|11 retries=0|1|2 k=.. segs=.. drain=0|1
#include "hq.hpp"

#include "recl_types.hpp"
#define private public
#include <xenium/kirsch_bounded_kfifo_queue.hpp>
#include <xenium/kirsch_kfifo_queue.hpp>
#include <xenium/michael_scott_queue.hpp>
#include <xenium/nikolaev_queue.hpp>
#include <xenium/ramalhete_queue.hpp>
#undef private

#ifndef XV_RECL
  #define XV_RECL HPs<3>
#endif
using R = rt::XV_RECL;
using namespace hq;
namespace xp = xenium::policy;

extern "C" std::uint64_t xenium_verif_random() { return xv::choose(64); }

template <class Q, class K> struct UOps {   // push(value) always succeeds
  using T = typename K::T;
  static int push(Q& q, T& x) { q.push(std::move(x)); return 1; }
  static int pushw(Q& q, T& x) { return push(q, x); }
  static int pop(Q& q, T& out) { auto r = q.pop(); if (r) { out = std::move(*r); return 1; } return 0; }
  static int tpop(Q& q, T& out) { return q.try_pop(out) ? 1 : 0; }
  static int popw(Q& q, T& out) { return tpop(q, out); }
  static void flush() { xvgc::gc_flush(); }
};
template <class Q, class K> struct BOps {   // try_push may fail
  using T = typename K::T;
  static int push(Q& q, T& x) { return q.try_push(std::move(x)) ? 1 : 0; }
  static int pushw(Q& q, T& x) { return push(q, x); }
  static int pop(Q& q, T& out) { auto r = q.pop(); if (r) { out = std::move(*r); return 1; } return 0; }
  static int tpop(Q& q, T& out) { return q.try_pop(out) ? 1 : 0; }
  static int popw(Q& q, T& out) { return tpop(q, out); }
  static void flush() {}
};

template <class Q, class K> static Adapter* mkU(QSpec sp = QSpec()) { return new QueueAdapter<Q, K, UOps<Q, K>>([](const Case&) { return new Q(); }, sp); }

template <class K> static Adapter* mk_ms() {
  using Q = xenium::michael_scott_queue<typename K::T, xp::reclaimer<R>>;
  auto* a = new QueueAdapter<Q, K, UOps<Q, K>>([](const Case&) { return new Q(); }, QSpec());
  a->naming = [](Q* q, const Case&) { xv::name_range(&q->_head, sizeof q->_head, "head"); xv::name_range(&q->_tail, sizeof q->_tail, "tail"); };
  return a;
}
template <class K, unsigned E, unsigned P> static Adapter* mk_ram() { return mkU<xenium::ramalhete_queue<typename K::T, xp::reclaimer<R>, xp::entries_per_node<E>, xp::pop_retries<P>>, K>(); }
template <class K, unsigned E, unsigned P> static Adapter* mk_nik() { return mkU<xenium::nikolaev_queue<typename K::T, xp::reclaimer<R>, xp::entries_per_node<E>, xp::pop_retries<P>>, K>(); }
#ifndef XV_NO_KF
template <class K> static Adapter* mk_kf(const Case& c) {
  using Q = xenium::kirsch_kfifo_queue<typename K::T, xp::reclaimer<R>>;
  QSpec sp; sp.k = c.geti("k", 2); sp.empty_below = sp.k;
  return new QueueAdapter<Q, K, UOps<Q, K>>([](const Case& cc) { return new Q((uint64_t)cc.geti("k", 2)); }, sp);
}
#endif
template <class K> static Adapter* mk_kfb(const Case& c) {
  using Q = xenium::kirsch_bounded_kfifo_queue<typename K::T>;
  QSpec sp; sp.k = c.geti("k", 2); sp.empty_below = sp.k; long segs = c.geti("segs", 2); sp.cap = sp.k * segs; sp.full_min = (segs - 1) * sp.k + 1;
  if (c.geti("relaxfull", 0)) sp.full_min = 0;   // classification aid: accept every 'full' answer
  return new QueueAdapter<Q, K, BOps<Q, K>>([](const Case& cc) { return new Q((uint64_t)cc.geti("k", 2), (uint64_t)cc.geti("segs", 2)); }, sp);
}

template <class K> static Adapter* ram_sizes(long e, long p) {
  if (e == 1) return p == 0 ? mk_ram<K, 1, 0>() : mk_ram<K, 1, 2>();
  if (e == 2) return p == 0 ? mk_ram<K, 2, 0>() : mk_ram<K, 2, 1>();
  if (e == 3) return mk_ram<K, 3, 1>();     // not a power of two
  if (e == 11) return mk_ram<K, 11, 0>();   // a multiple of the index step (11)
  return p == 0 ? mk_ram<K, 4, 0>() : mk_ram<K, 4, 2>();
}
template <class K> static Adapter* nik_sizes(long e, long p) {
  if (e == 1) return p == 0 ? mk_nik<K, 1, 0>() : mk_nik<K, 1, 2>();
  if (e == 2) return p == 0 ? mk_nik<K, 2, 0>() : mk_nik<K, 2, 1>();
  return p == 0 ? mk_nik<K, 4, 0>() : mk_nik<K, 4, 2>();
}

static Case g_case;
static Adapter* make() {
  std::string q = g_case.gets("q", "ms"), e = g_case.gets("elem", "int");
  long epn = g_case.geti("epn", 2), ret = g_case.geti("retries", 0);
  if (q == "ms") return e == "obj" ? mk_ms<KObj>() : (e == "uptr" ? mk_ms<KUptr>() : mk_ms<KInt>());
  if (q == "nik") return e == "obj" ? nik_sizes<KObj>(epn, ret) : (e == "uptr" ? nik_sizes<KUptr>(epn, ret) : nik_sizes<KInt>(epn, ret));
  if (q == "ram") return e == "uptr" ? ram_sizes<KUptr>(epn, ret) : (e == "small" ? ram_sizes<KSmall>(epn, ret) : ram_sizes<KPtr>(epn, ret));
#ifndef XV_NO_KF
  if (q == "kf") return e == "uptr" ? mk_kf<KUptr>(g_case) : mk_kf<KPtr>(g_case);
#endif
  return e == "uptr" ? mk_kfb<KUptr>(g_case) : mk_kfb<KPtr>(g_case);
}
int main(int argc, char** argv) {
  if (argc >= 3) { std::ifstream in(argv[2]); g_case = parse_case(in); }
  return main_driver(argc, argv, make);
}
