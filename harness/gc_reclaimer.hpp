// gc_reclaimer.hpp - a reclaimer with the xenium interface whose guard acquisition is ONE atomic load
// with the caller's memory order and whose reclaim() only records the node (nodes are freed by
// gc_flush() after the run).  It is the "GC instance" of DESIGN.md section 3: container models assume
// exactly this interface (what C01 guarantees to containers); the real reclaimers are exercised by the
// standing search and by C01/C02.
#pragma once
#include <xenium/acquire_guard.hpp>
#include <xenium/marked_ptr.hpp>
#include <xenium/reclamation/detail/concurrent_ptr.hpp>
#include <xenium/reclamation/detail/deletable_object.hpp>
#include <xenium/reclamation/detail/guard_ptr.hpp>

#include "../rt/xvrt.hpp"
#include <vector>

namespace xvgc {
namespace d = xenium::reclamation::detail;

inline std::vector<d::deletable_object*>* g_retired = nullptr;
inline void gc_flush() {
  if (!g_retired) return;
  std::vector<d::deletable_object*> l; { xv::Quiet q; l.swap(*g_retired); }
  for (auto* o : l) o->delete_self();
}

class gc {
  template <class T, class MarkedPtr> class guard_ptr;
public:
  template <class T, std::size_t N = 0, class Deleter = std::default_delete<T>> class enable_concurrent_ptr;
  struct region_guard {};
  template <class T, std::size_t N = T::number_of_mark_bits> using concurrent_ptr = d::concurrent_ptr<T, N, guard_ptr>;
};

template <class T, std::size_t N, class Deleter>
class gc::enable_concurrent_ptr : private d::deletable_object_impl<T, Deleter> {
public:
  static constexpr std::size_t number_of_mark_bits = N;
protected:
  enable_concurrent_ptr() noexcept = default;
  enable_concurrent_ptr(const enable_concurrent_ptr&) noexcept = default;
  enable_concurrent_ptr(enable_concurrent_ptr&&) noexcept = default;
  enable_concurrent_ptr& operator=(const enable_concurrent_ptr&) noexcept = default;
  enable_concurrent_ptr& operator=(enable_concurrent_ptr&&) noexcept = default;
  ~enable_concurrent_ptr() noexcept override = default;
private:
  friend d::deletable_object_impl<T, Deleter>;
  template <class, class> friend class guard_ptr;
};

template <class T, class MarkedPtr>
class gc::guard_ptr : public d::guard_ptr<T, MarkedPtr, guard_ptr<T, MarkedPtr>> {
  using base = d::guard_ptr<T, MarkedPtr, guard_ptr>;
  using Deleter = typename T::Deleter;
public:
  explicit guard_ptr(const MarkedPtr& p = MarkedPtr()) noexcept : base(p) {}
  guard_ptr(const guard_ptr& p) noexcept : base(p.ptr) {}
  guard_ptr(guard_ptr&& p) noexcept : base(p.ptr) { p.ptr.reset(); }
  guard_ptr& operator=(const guard_ptr& p) noexcept { this->ptr = p.ptr; return *this; }
  guard_ptr& operator=(guard_ptr&& p) noexcept { if (&p != this) { this->ptr = p.ptr; p.ptr.reset(); } return *this; }
  void acquire(const concurrent_ptr<T>& p, std::memory_order order = std::memory_order_seq_cst) noexcept { this->ptr = p.load(order); }
  bool acquire_if_equal(const concurrent_ptr<T>& p, const MarkedPtr& expected, std::memory_order order = std::memory_order_seq_cst) noexcept {
    auto actual = p.load(order);
    if (actual != expected) { this->ptr.reset(); return false; }
    this->ptr = actual; return true;
  }
  void reset() noexcept { this->ptr.reset(); }
  void reclaim(Deleter dl = Deleter()) noexcept {
    this->ptr->set_deleter(std::move(dl));
    { xv::Quiet q; if (!g_retired) g_retired = new std::vector<d::deletable_object*>(); g_retired->push_back(this->ptr.get()); xv::event("RETIRE " + xv::sym_addr((uintptr_t)this->ptr.get())); }
    this->ptr.reset();
  }
};
}  // namespace xvgc
