// harness for xenium::left_right (C13, C16, C03)
//   ops: read | readref | update d
//   readref: the functor returns a reference to the instance (const P&); read() is declared to return a value, so the
//   caller's copy is taken while the reader is still registered - the caller then looks at x, then y, of what it got
// T = {x, y}; an update adds d to x, then to y (two harness-level steps, so that a reader may
// interleave between them if the protocol is broken); a read copies x, then y.
#include "hx.hpp"

#include <atomic>
#include <cassert>
#include <mutex>
#include <thread>

#define private public
#include <xenium/left_right.hpp>
#undef private

using namespace hx;

// the move constructor empties its source (like std::vector / std::string): an instance built from a moved-from object is visibly wrong
struct P {
  long x = 0, y = 0;
  P() = default;
  P(long a, long b) : x(a), y(b) {}
  P(const P&) = default;
  P& operator=(const P&) = default;
  P(P&& o) noexcept : x(o.x), y(o.y) { o.x = -1000; o.y = -2000; }
  P& operator=(P&& o) noexcept { x = o.x; y = o.y; o.x = -1000; o.y = -2000; return *this; }
};

struct CounterSpec {
  using State = long;
  State init = 0;
  bool apply(State& s, const OpRec& o) const {
    if (o.name == "update") { s += o.args[0]; return true; }
    if (o.name == "read" || o.name == "readref") { if (!o.done) return true; return o.res == std::to_string(s); }
    return false;
  }
  std::string key(const State& s) const { return std::to_string(s); }
};

struct LrAdapter : Adapter {
  xenium::left_right<P>* lr = nullptr;
  const char* which(const P& p) const { return &p == &lr->_left ? "left" : "right"; }
  long init_v = 0;
  void setup(const Case& cs) override {
    // cfg init=v: built with the one-argument constructor from the value {v, v}; init2=v: two-argument constructor; default: left_right()
    init_v = cs.geti("init", cs.geti("init2", 0));
    if (cs.geti("init", 0) != 0) lr = new xenium::left_right<P>(P(init_v, init_v));
    else if (cs.geti("init2", 0) != 0) lr = new xenium::left_right<P>(P(init_v, init_v), P(init_v, init_v));
    else lr = new xenium::left_right<P>();
    xv::Quiet q;
    xv::name_range(&lr->_writer_mutex, sizeof lr->_writer_mutex, "mutex");
    xv::name_range(&lr->_version_index, sizeof lr->_version_index, "version");
    xv::name_range(&lr->_lr_indicator, sizeof lr->_lr_indicator, "lr");
    xv::name_range(&lr->_read_indicator1, sizeof lr->_read_indicator1, "ind0");
    xv::name_range(&lr->_read_indicator2, sizeof lr->_read_indicator2, "ind1");
    xv::name_range(&lr->_left, sizeof lr->_left, "left");
    xv::name_range(&lr->_right, sizeof lr->_right, "right");
  }
  std::string exec(int, const OpSpec& op) override {
    if (op.name == "read") {
      long x = 0, y = 0;
      lr->read([&](const P& p) {
        xv::step_point(); x = p.x; { xv::Quiet q; xv::event(std::string("PR ") + which(p) + ".x " + std::to_string(x)); }
        xv::step_point(); y = p.y; { xv::Quiet q; xv::event(std::string("PR ") + which(p) + ".y " + std::to_string(y)); }
        return 0;
      });
      xv::Quiet q;
      return x == y ? std::to_string(x) : "mixed:" + std::to_string(x) + "," + std::to_string(y);
    }
    if (op.name == "readref") {
      const P& r = lr->read([&](const P& p) -> const P& { xv::step_point(); return p; });
      long x, y;
      xv::step_point(); x = r.x;
      xv::step_point(); y = r.y;
      xv::Quiet q;
      return x == y ? std::to_string(x) : "mixed:" + std::to_string(x) + "," + std::to_string(y);
    }
    if (op.name == "update") {
      long d = op.args[0];
      lr->update([&](P& p) {
        xv::step_point(); p.x += d; { xv::Quiet q; xv::event(std::string("PW ") + which(p) + ".x " + std::to_string(p.x)); }
        xv::step_point(); p.y += d; { xv::Quiet q; xv::event(std::string("PW ") + which(p) + ".y " + std::to_string(p.y)); }
      });
      return "ok";
    }
    return "?";
  }
  bool lock_free(const Case&, const OpSpec& op) override { return op.name == "read" || op.name == "readref"; }
  void teardown(std::vector<std::string>& out) override {
    { xv::Quiet q; out.push_back("final " + std::to_string(lr->_left.x) + " " + std::to_string(lr->_left.y) + " " + std::to_string(lr->_right.x) + " " + std::to_string(lr->_right.y)); }
    delete lr;
  }
  bool check(const Case&, const std::vector<OpRec>& h, const std::vector<std::string>& fin, std::string& why) override {
    long total = init_v;
    for (auto& o : h) {
      if ((o.name == "read" || o.name == "readref") && o.done && o.res.rfind("mixed", 0) == 0) { why = std::string(o.name == "read" ? "a read functor observed an instance in the middle of an update: " : "the value returned by read() is a mixture of two states: ") + o.res; return false; }
      if (o.name == "update" && o.done) total += o.args[0];
    }
    // every completed update applied exactly once to each instance
    bool all_done = true; for (auto& o : h) if (!o.done) all_done = false;
    if (all_done && !fin.empty()) { std::string want = "final " + std::to_string(total) + " " + std::to_string(total) + " " + std::to_string(total) + " " + std::to_string(total); if (fin[0] != want) { why = "updates were not applied exactly once to both instances: " + fin[0] + " expected " + want; return false; } }
    CounterSpec sp; sp.init = init_v; LinCheck<CounterSpec> lc(sp, h);
    if (!lc.ok()) { why = "history is not linearizable w.r.t. a counter register (reads vs updates)"; return false; }
    return true;
  }
};

int main(int argc, char** argv) { return main_driver(argc, argv, []() -> Adapter* { return new LrAdapter(); }); }
