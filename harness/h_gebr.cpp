// harness for the generalised epoch based reclaimer (Model/GebrDefs.v): exactly the generic reclaimer client of h_recl.cpp,
// instantiated with the generic_epoch_based configuration rt::XV_RECL of recl_types.hpp (-DXV_RECL=EBR | NEBR | DEBRA | EBR0 |
// GEBR_lazy | GEBR_n2 | GEBR_aband | GEBR_thresh | GEBR_t0 | EBR100; default EBR), with the reclaimer's static members named so that the
// trace prints them as tbl_head / global_epoch / orphan0..2 instead of raw (ASLR dependent) addresses.
// Any other point of the configuration space is built with
//   -DXV_GEBR_SF=<scan_frequency> -DXV_GEBR_SCAN=<all_threads | one_thread | n_threads<N>>
//   -DXV_GEBR_ABANDON=<never | always | when_exceeds_threshold<T>> -DXV_GEBR_REGION=<none | eager | lazy>
// (all four), which defines the alias rt::GEBR_custom and selects it.
#include "hx.hpp"

#define private public
#include <xenium/reclamation/generic_epoch_based.hpp>
#undef private

#include "recl_types.hpp"

#ifdef XV_GEBR_SF
namespace rt {
using GEBR_custom = r::generic_epoch_based<>::with<p::scan_frequency<XV_GEBR_SF>, p::scan<r::scan::XV_GEBR_SCAN>,
                                                   p::abandon<r::abandon::XV_GEBR_ABANDON>,
                                                   p::region_extension<r::region_extension::XV_GEBR_REGION>>;
}
  #undef XV_RECL
  #define XV_RECL GEBR_custom
#endif
#ifndef XV_RECL
  #define XV_RECL EBR
#endif
#define main recl_main
#include "h_recl.cpp"
#undef main

struct GebrAdapter : ReclAdapter {
  void setup(const Case& c) override {
    ReclAdapter::setup(c);
    xv::Quiet q;
    static_assert(sizeof(R::thread_control_block) == 24, "thread_control_block layout: next_entry 0, state 8, is_in_critical_region 12, local_epoch 16 (Model/GebrDefs.v)");
    static_assert(sizeof(Node) == 40, "node size (Model/GebrDefs.v)");
    static_assert(sizeof(typename R::region_guard) == 1, "region_guard size (Model/GebrDefs.v)");
    static_assert(R::number_epochs == 3, "number_epochs (Model/GebrDefs.v)");
    xv::name_range(&R::global_thread_block_list.head, sizeof R::global_thread_block_list.head, "tbl_head");
    xv::name_range(&R::global_epoch, sizeof R::global_epoch, "global_epoch");
    static char nm[3][12];
    for (int i = 0; i < 3; i++) { snprintf(nm[i], sizeof nm[i], "orphan%d", i); xv::name_range(&R::orphans[i], sizeof R::orphans[i], nm[i]); }
  }
};

int main(int argc, char** argv) { return main_driver(argc, argv, []() -> Adapter* { return new GebrAdapter(); }); }
