// harness for the hazard pointer reclaimer (Model/HpDefs.v): exactly the generic reclaimer client of h_recl.cpp,
// instantiated with rt::HPs<3> (hazard_pointer<> with static_strategy<3, 0, 0>), with the reclaimer's static members named
// so that the trace prints them as tbl_head / nact / abandoned instead of raw (ASLR dependent) addresses.
#include "hx.hpp"

#define private public
#include <xenium/reclamation/hazard_pointer.hpp>
#undef private

#ifndef XV_RECL
  #define XV_RECL HPs<3>
#endif
#define main recl_main
#include "h_recl.cpp"
#undef main

struct HpAdapter : ReclAdapter {
  void setup(const Case& c) override {
    ReclAdapter::setup(c);
    xv::Quiet q;
    using AS = xenium::reclamation::hp_allocation::static_strategy<3, 0, 0>;
    using TCB = AS::thread_control_block;
    static_assert(sizeof(TCB) == 64, "thread_control_block layout: next_entry 0, state 8, pointers[i] 16 + 8 i (Model/HpDefs.v)");
    static_assert(AS::K == 3, "K = 3 (Model/HpDefs.v)");
    static_assert(sizeof(Node) == 40, "node size (Model/HpDefs.v)");
    xv::name_range(&R::global_thread_block_list.head, sizeof R::global_thread_block_list.head, "tbl_head");
    xv::name_range(&R::global_thread_block_list.abandoned_retired_nodes, sizeof R::global_thread_block_list.abandoned_retired_nodes, "abandoned");
    xv::name_range(&AS::number_of_active_hps, sizeof AS::number_of_active_hps, "nact");
  }
};

int main(int argc, char** argv) { return main_driver(argc, argv, []() -> Adapter* { return new HpAdapter(); }); }
