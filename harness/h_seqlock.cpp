// harness for xenium::seqlock (C14, C16, C03)
//   cfg slots=1|2|3|4|8 size=12|16|20|24|40     (size = sizeof(T) in bytes)
//   ops: load | store v | update d
// A value v is the byte pattern  byte[j] = (v * 31 + j) & 0xff  for j < sizeof(T) (so that torn or
// truncated copies are visible); update d turns value v into v + d.
#include "hx.hpp"

#include <atomic>
#include <cassert>
#include <cstring>
#include <memory>

#define private public
#include <xenium/seqlock.hpp>
#undef private

using namespace hx;

template <size_t N, size_t A> struct alignas(A) Blob { unsigned char b[N]; };

template <size_t N> static void fill(unsigned char* p, long v) { for (size_t j = 0; j < N; j++) p[j] = (unsigned char)((v * 31 + (long)j) & 0xff); }
template <size_t N> static long decode(const unsigned char* p) {
  // find v (0..4095) whose pattern matches all N bytes; -1 if none (torn / truncated / garbage)
  for (long v = 0; v < 4096; v++) { bool ok = true; for (size_t j = 0; j < N && ok; j++) ok = p[j] == (unsigned char)((v * 31 + (long)j) & 0xff); if (ok) return v; }
  return -1;
}

struct RegSpec {
  using State = long;
  State init = 0;
  bool apply(State& s, const OpRec& o) const {
    if (o.name == "store") { s = o.args[0]; return true; }
    if (o.name == "update") { s = s + o.args[0]; return true; }
    if (o.name == "load") { if (!o.done) return true; return o.res == std::to_string(s); }
    return false;
  }
  std::string key(const State& s) const { return std::to_string(s); }
};

template <size_t N, size_t A, unsigned S>
struct SeqAdapter : Adapter {
  using T = Blob<N, A>;
  using L = xenium::seqlock<T, xenium::policy::slots<S>>;
  L* l = nullptr;
  void setup(const Case& cs) override {
    T init; fill<N>(init.b, 0);
    l = new L(init);
    // ver0: start at version ver0 (as after ver0 completed stores of the initial value): lets small programs run across
    // arithmetic boundaries of the version counter (2^32, 2^63) that cannot be reached by actually storing that often
    unsigned long long ver0 = strtoull(cs.gets("ver0", "0").c_str(), nullptr, 10);
    if (ver0 != 0) {
      for (unsigned i = 0; i < S; i++) memcpy((void*)&l->_data[i], (void*)&l->_data[0], sizeof(l->_data[0]));
      l->_seq.store((typename L::sequence_t)(ver0 << 1), std::memory_order_relaxed);
    }
    xv::Quiet q;
    xv::name_range(&l->_seq, sizeof l->_seq, "seq");
    xv::name_range(&l->_data, sizeof l->_data, "data");
  }
  std::string exec(int, const OpSpec& op) override {
    if (op.name == "load") { T r = l->load(); xv::Quiet q; long v = decode<N>(r.b); if (v < 0) { std::string s = "torn:"; char buf[4]; for (size_t j = 0; j < N; j++) { snprintf(buf, sizeof buf, "%02x", r.b[j]); s += buf; } return s; } return std::to_string(v); }
    if (op.name == "store") { T t; fill<N>(t.b, op.args[0]); l->store(t); return "ok"; }
    if (op.name == "update") { long d = op.args[0]; l->update([d](T& t) { long v = decode<N>(t.b); fill<N>(t.b, v < 0 ? 4095 : v + d); }); return "ok"; }
    return "?";
  }
  bool lock_free(const Case&, const OpSpec& op) override { return op.name == "load" && S > 1; }   // store/update take the lock; load with one slot waits for writers
  void teardown(std::vector<std::string>& out) override {
    T r = l->load();
    { xv::Quiet q; out.push_back("final " + std::to_string(decode<N>(r.b))); }
    delete l;
  }
  bool check(const Case&, const std::vector<OpRec>& h, const std::vector<std::string>& fin, std::string& why) override {
    for (auto& o : h) if (o.name == "load" && o.done && o.res.rfind("torn", 0) == 0) { why = "load returned a value that was never stored (torn or truncated): " + o.res; return false; }
    if (!fin.empty() && fin[0] == "final -1") { why = "final load returned a value that was never stored (torn or truncated)"; return false; }
    std::vector<OpRec> h2 = h;
    { OpRec r; r.tid = 0; r.name = "load"; r.res = fin.empty() ? "?" : fin[0].substr(6); r.inv = 1000000; r.ret = 1000001; r.done = true; h2.push_back(r); }
    RegSpec sp; LinCheck<RegSpec> lc(sp, h2);
    if (!lc.ok()) { why = "history is not linearizable w.r.t. an atomic register with store/update"; return false; }
    return true;
  }
};

static long g_slots, g_size;
template <size_t N, size_t A> static Adapter* mk_slots() {
  switch (g_slots) { case 1: return new SeqAdapter<N, A, 1>(); case 2: return new SeqAdapter<N, A, 2>(); case 3: return new SeqAdapter<N, A, 3>(); case 4: return new SeqAdapter<N, A, 4>(); default: return new SeqAdapter<N, A, 8>(); }
}
static Adapter* make() {
  switch (g_size) {
    case 12: return mk_slots<12, 4>();
    case 16: return mk_slots<16, 8>();
    case 20: return mk_slots<20, 4>();
    case 24: return mk_slots<24, 8>();
    case 9: return mk_slots<9, 1>();
    default: return mk_slots<40, 8>();
  }
}
int main(int argc, char** argv) {
  if (argc >= 3) { std::ifstream in(argv[2]); Case c = parse_case(in); g_slots = c.geti("slots", 1); g_size = c.geti("size", 24); }
  return main_driver(argc, argv, make);
}
