// hq.hpp - generic adapter for all xenium queues (C04, C05, C06, C07, C16)
//   cfg q=<queue> recl=<reclaimer> elem=int|obj|ptr|uptr|small  [epn= retries= cap= k= segs=] drain=0|1
//   ops: push v | pop | tpop (try_pop) | pushw v | popw (weak vyukov ops)
#pragma once
#include "hx.hpp"

#include <deque>
#include <memory>
#include <optional>

namespace hq {
using namespace hx;

// ---- element kinds with a census (ownership oracle) ------------------------------------------------
inline std::map<long, int>* g_alive = nullptr;   // value id -> number of live carrier tokens
inline long g_tok_made = 0, g_tok_destroyed = 0;
struct Tok {
  long v;
  explicit Tok(long x) : v(x) { xv::Quiet q; if (!g_alive) g_alive = new std::map<long, int>(); (*g_alive)[v]++; g_tok_made++; }
  ~Tok() { xv::Quiet q; (*g_alive)[v]--; g_tok_destroyed++; }
  Tok(const Tok&) = delete;
};
struct Obj {  // non-trivial movable value owning a token
  std::unique_ptr<Tok> p;
  Obj() = default;
  explicit Obj(long v) : p(new Tok(v)) {}
  Obj(Obj&&) noexcept = default;
  Obj& operator=(Obj&&) noexcept = default;
  long val() const { return p ? p->v : -1; }
};

struct KInt { using T = long; static T make(long v) { return v; } static long val(const T& x) { return x; } static void done(T&) {} static constexpr bool owning = false; };
struct KObj { using T = Obj; static T make(long v) { return Obj(v); } static long val(const T& x) { return x.val(); } static void done(T&) {} static constexpr bool owning = true; };
struct KPtr { using T = Tok*; static T make(long v) { return new Tok(v); } static long val(const T& x) { return x ? x->v : -1; } static void done(T& x) { delete x; x = nullptr; } static constexpr bool owning = false; };
struct KUptr { using T = std::unique_ptr<Tok>; static T make(long v) { return T(new Tok(v)); } static long val(const T& x) { return x ? x->v : -1; } static void done(T&) {} static constexpr bool owning = true; };
struct KSmall { using T = int; static T make(long v) { return (int)v; } static long val(const T& x) { return x; } static void done(T&) {} static constexpr bool owning = false; };

// ---- specifications ----------------------------------------------------------------------------------
struct QSpec {
  using State = std::deque<long>;
  State init;
  long cap = -1;        // bounded: capacity (-1 unbounded)
  long full_slack = 0;  // "full" allowed when size >= cap - full_slack
  long full_min = -1;   // kfifo bounded: "full" allowed only if size >= full_min
  long k = 1;           // pop may return any of the k oldest
  long empty_below = 1; // "empty" allowed if size < empty_below
  bool apply(State& s, const OpRec& o) const {
    if (o.name == "push" || o.name == "pushw") {
      if (!o.done) { s.push_back(o.args[0]); return true; }
      if (o.res == "ok") { if (cap >= 0 && (long)s.size() >= cap) return false; s.push_back(o.args[0]); return true; }
      if (o.res == "wfail") return true;
      // full
      if (full_min >= 0) return (long)s.size() >= full_min;
      return cap >= 0 && (long)s.size() >= cap - full_slack;
    }
    if (o.name == "pop" || o.name == "tpop" || o.name == "popw") {
      if (!o.done) return true;  // a pending pop that took nothing; (pending pops that took something are not produced by the harness)
      if (o.res == "wfail") return true;
      if (o.res == "empty") return (long)s.size() < empty_below;
      for (long i = 0; i < k && i < (long)s.size(); i++) if (std::to_string(s[i]) == o.res) { s.erase(s.begin() + i); return true; }
      return false;
    }
    return false;
  }
  std::string key(const State& s) const { std::string r; for (long v : s) r += std::to_string(v) + ","; return r; }
};

// ---- adapter -------------------------------------------------------------------------------------------
// Ops wraps the differences between the queue APIs.
template <class Q, class K, class Ops>
struct QueueAdapter : Adapter {
  Q* q = nullptr; QSpec spec; bool drain = true; std::function<Q*(const Case&)> ctor; std::function<void(Q*, const Case&)> naming;
  QueueAdapter(std::function<Q*(const Case&)> c, QSpec s) : spec(s), ctor(c) {}
  void setup(const Case& c) override {
    drain = c.geti("drain", 1) != 0 || !K::owning;   // values the queue does not own are always drained by the harness
    q = ctor(c);
    if (naming) { xv::Quiet qq; naming(q, c); }
  }
  std::string exec(int, const OpSpec& op) override {
    if (op.name == "push" || op.name == "pushw") {
      typename K::T x = K::make(op.args[0]);
      int r = op.name == "push" ? Ops::push(*q, x) : Ops::pushw(*q, x);
      // a rejected value is still with the caller (or was destroyed with the by-value parameter): either way it dies here
      if (r != 1) K::done(x);
      return r == 1 ? "ok" : (r == 0 ? "full" : "wfail");
    }
    if (op.name == "pop" || op.name == "tpop" || op.name == "popw") {
      typename K::T out{};
      int r = op.name == "pop" ? Ops::pop(*q, out) : (op.name == "tpop" ? Ops::tpop(*q, out) : Ops::popw(*q, out));
      if (r == 1) { long v = K::val(out); K::done(out); xv::Quiet qq; return std::to_string(v); }
      return r == 0 ? "empty" : "wfail";
    }
    return "?";
  }
  std::function<bool(const Case&, const OpSpec&)> lf;
  bool lock_free(const Case& c, const OpSpec& op) override { return lf ? lf(c, op) : true; }
  void teardown(std::vector<std::string>& out) override {
    std::vector<long> got; { xv::Quiet qq; got.reserve(4096); }
    if (drain) {
      for (int guard = 0; guard < 100000; guard++) { typename K::T x{}; if (Ops::pop(*q, x) != 1) break; long v = K::val(x); K::done(x); xv::Quiet qq; got.push_back(v); }
    }
    { xv::Quiet qq; std::string s = drain ? "drain" : "nodrain"; for (long v : got) s += " " + std::to_string(v); out.push_back(s); }
    delete q;
    Ops::flush();
    { xv::Quiet qq; std::string s = "census"; if (g_alive) for (auto& kv : *g_alive) if (kv.second != 0) s += " " + std::to_string(kv.first) + ":" + std::to_string(kv.second); out.push_back(s); }
  }
  bool check(const Case& c, const std::vector<OpRec>& h, const std::vector<std::string>& fin, std::string& why) override {
    std::map<std::string, int> pushed, got;
    bool pending = false;
    for (auto& o : h) {
      if (!o.done) pending = true;
      if ((o.name == "push" || o.name == "pushw") && o.res == "ok") pushed[std::to_string(o.args[0])]++;
      if ((o.name == "pop" || o.name == "tpop" || o.name == "popw") && o.done && o.res != "empty" && o.res != "wfail") got[o.res]++;
    }
    std::vector<std::string> drained;
    { std::istringstream ss(fin.size() > 0 ? fin[0] : ""); std::string w; ss >> w; while (ss >> w) { got[w]++; drained.push_back(w); } }
    for (auto& g : got) if (pushed[g.first] < g.second) { why = "value " + g.first + " returned " + std::to_string(g.second) + "x but pushed " + std::to_string(pushed[g.first]) + "x (duplicated or invented)"; return false; }
    if (drain && !pending) for (auto& p : pushed) if (got[p.first] != p.second) { why = "value " + p.first + " was accepted but never returned (lost)"; return false; }
    // ownership census (C07): after the queue is destroyed nothing is alive, nothing was destroyed twice (double frees are caught by xvrt)
    if (fin.size() > 1 && fin[1] != "census") { why = "ownership census after destruction: " + fin[1] + " (value:live-count; >0 leaked, <0 destroyed twice)"; return false; }
    if (g_hb_order) {
      // weak-memory mode (C03): the guarantees are conservation (above), ownership and DELIVERY ORDER w.r.t. happens-before;
      // 'empty' / 'full' / weak-failure answers may be based on stale but legal reads and are not constrained here.
      // order: if push(a) happens-before push(b) then pop(b) must not happen-before pop(a) - up to the k-1 overtaking of a k-FIFO
      std::map<std::string, const OpRec*> pushof, popof;
      for (auto& o : h) { if ((o.name == "push" || o.name == "pushw") && o.res == "ok") pushof[std::to_string(o.args[0])] = &o; if ((o.name == "pop" || o.name == "tpop" || o.name == "popw") && o.done && o.res != "empty" && o.res != "wfail") popof[o.res] = &o; }
      if (spec.k <= 1) for (auto& a : pushof) for (auto& b : pushof) {
        if (a.first == b.first || !popof.count(a.first) || !popof.count(b.first)) continue;
        if (op_precedes(*a.second, *b.second) && op_precedes(*popof[b.first], *popof[a.first])) { why = "delivery order: push " + a.first + " happens-before push " + b.first + " but pop " + b.first + " happens-before pop " + a.first; return false; }
      }
      return true;
    }
    std::vector<OpRec> h2 = h;
    if (drain) { long t = 1000000; for (auto& w : drained) { OpRec r; r.tid = 0; r.name = "pop"; r.res = w; r.inv = t++; r.ret = t++; r.done = true; h2.push_back(r); } }
    QSpec sp = spec;
    // sequential histories (no two operations overlap): 'empty' exactly when empty
    bool overlap = false; for (size_t i = 0; i < h.size() && !overlap; i++) for (size_t j = 0; j < h.size(); j++) if (i != j && h[i].inv < h[j].ret && h[j].inv < h[i].ret && h[i].tid != h[j].tid) { overlap = true; break; }
    if (!overlap) { sp.empty_below = 1; sp.full_slack = 0; }
    LinCheck<QSpec> lc(sp, h2);
    if (!lc.ok()) { why = std::string("history is not linearizable w.r.t. the ") + (sp.k > 1 ? "k-FIFO" : "FIFO") + " queue specification" + (overlap ? "" : " (sequential history)"); return false; }
    return true;
  }
};

}  // namespace hq
