// harness for harris_michael_list_based_set and harris_michael_hash_map (C08, C09, C16; reclaimer via -DXV_RECL)
//   cfg c=set|map buckets=1|2|8 memo=0|1 hash=id|const|mod2
//   ops: ins k | insget k | getins k | getlazy k | at k | del k | has k | find k
//        itb (it = begin) | itf k (it = find k) | itn (++it) | itd (deref) | ite (erase(it)) | itr (reset) | trav (full traversal with a fresh iterator)
// map values: value for key k is k*10 (+ thread id for operator[] assignments is not used).
#include "hx.hpp"

#include "recl_types.hpp"
#include <set>
#define private public
#include <xenium/harris_michael_hash_map.hpp>
#include <xenium/harris_michael_list_based_set.hpp>
#undef private

#ifndef XV_RECL
  #define XV_RECL HPs<6>
#endif
using R = rt::XV_RECL;
using namespace hx;
namespace xp = xenium::policy;

#ifdef XV_STRKEY
// a key type whose move constructor empties its source (std::string inside): code that keeps using a moved-from key shows up
struct KeyT {
  std::string s;
  KeyT(long k = 0) { char b[24]; snprintf(b, sizeof b, "%012ld", k); xv::Quiet q; s = b; }   // NOLINT: implicit on purpose
  KeyT(const KeyT& o) { xv::Quiet q; s = o.s; }
  KeyT(KeyT&& o) noexcept { xv::Quiet q; s = std::move(o.s); o.s.clear(); }
  KeyT& operator=(const KeyT& o) { xv::Quiet q; s = o.s; return *this; }
  KeyT& operator=(KeyT&& o) noexcept { xv::Quiet q; s = std::move(o.s); o.s.clear(); return *this; }
  ~KeyT() { xv::Quiet q; s.clear(); s.shrink_to_fit(); }
  operator long() const { return s.empty() ? -1 : atol(s.c_str()); }   // NOLINT
  friend bool operator<(const KeyT& a, const KeyT& b) { return a.s < b.s; }
  friend bool operator==(const KeyT& a, const KeyT& b) { return a.s == b.s; }
  friend bool operator!=(const KeyT& a, const KeyT& b) { return a.s != b.s; }
  friend bool operator<=(const KeyT& a, const KeyT& b) { return a.s <= b.s; }
  friend bool operator>(const KeyT& a, const KeyT& b) { return a.s > b.s; }
  friend bool operator>=(const KeyT& a, const KeyT& b) { return a.s >= b.s; }
};
using Key = KeyT;
#else
using Key = long;
#endif
static int g_hashmode = 0;  // 0 identity, 1 constant, 2 mod 2, 3 reversed (1000 - k: hash order opposite to key order)
struct XHash { std::size_t operator()(const Key& kk) const { long k = (long)kk; return g_hashmode == 1 ? 7 : (g_hashmode == 2 ? (std::size_t)(k % 2) : (g_hashmode == 3 ? (std::size_t)(1000 - k) : (std::size_t)k)); } };

struct SetSpec {
  using State = std::set<long>;
  State init;
  bool apply(State& s, const OpRec& o) const {
    const std::string& n = o.name; long k = o.args.empty() ? 0 : o.args[0];
    auto res = [&](const char* r) { return !o.done || o.res == r; };
    if (n == "ins" || n == "insget" || n == "getins" || n == "getlazy" || n == "at") {
      bool fresh = s.insert(k).second;
      if (!o.done) return true;
      if (n == "at") return o.res == std::to_string(k * 10);
      return o.res == (fresh ? "new" : "old");
    }
    if (n == "del") { bool was = s.erase(k) > 0; return !o.done || o.res == (was ? "ok" : "no"); }
    if (n == "has") return res(s.count(k) ? "yes" : "no");
    if (n == "find" || n == "itf") return res(s.count(k) ? std::to_string(k).c_str() : "end");
    return true;  // iterator stepping ops are checked separately
  }
  std::string key(const State& s) const { std::string r; for (long v : s) r += std::to_string(v) + ","; return r; }
};

template <class C, bool IsMap>
struct HmAdapter : Adapter {
  C* c = nullptr;
  using It = typename C::iterator;
  It* its[17] = {nullptr};
  static long keyof(It& it) { if constexpr (IsMap) return (*it).first; else return *it; }
  void setup(const Case& cs) override {
    std::string h = cs.gets("hash", "id"); g_hashmode = h == "const" ? 1 : (h == "mod2" ? 2 : (h == "rev" ? 3 : 0));
    c = new C();
  }
  void thread_begin(int tid) override { xv::Quiet q; its[tid] = new It(c->end()); }
  void thread_end(int tid) override { its[tid]->reset(); xv::Quiet q; delete its[tid]; its[tid] = nullptr; }
  std::string show(It& it) { if (it == c->end()) return "end"; long k = keyof(it); xv::Quiet q; return std::to_string(k); }
  std::string exec(int tid, const OpSpec& op) override {
    const std::string& o = op.name; long k = op.args.empty() ? 0 : op.args[0];
    It& it = *its[tid];
    if (o == "ins") { bool r; if constexpr (IsMap) r = c->emplace(k, k * 10); else r = c->emplace(k); return r ? "new" : "old"; }
    if (o == "insget") { if constexpr (IsMap) { auto r = c->emplace_or_get(k, k * 10); if ((long)(*r.first).first != k || (*r.first).second != k * 10) return "BADVAL"; return r.second ? "new" : "old"; } else { auto r = c->emplace_or_get(k); if ((long)*r.first != k) return "BADVAL"; return r.second ? "new" : "old"; } }
    if constexpr (IsMap) {
      if (o == "getins") { auto r = c->get_or_emplace(k, k * 10); if ((long)(*r.first).first != k || (*r.first).second != k * 10) return "BADVAL"; return r.second ? "new" : "old"; }
      if (o == "getlazy") { auto r = c->get_or_emplace_lazy(k, [k]() { return k * 10; }); if ((long)(*r.first).first != k || (*r.first).second != k * 10) return "BADVAL"; return r.second ? "new" : "old"; }
    } else {
      if (o == "getins" || o == "getlazy") { auto r = c->emplace_or_get(k); if ((long)*r.first != k) return "BADVAL"; return r.second ? "new" : "old"; }
    }
    if (o == "del") return c->erase(k) ? "ok" : "no";
    if (o == "has") return c->contains(k) ? "yes" : "no";
    if (o == "find") { It f = c->find(k); std::string r = show(f); f.reset(); return r; }
    if (o == "itb") { it = c->begin(); return show(it); }
    if (o == "itf") { it = c->find(k); return show(it); }
    if (o == "itn") { if (it == c->end()) return "end"; ++it; return show(it); }
    if (o == "itd") return show(it);
    if (o == "ite") { if (it == c->end()) return "end"; long was = keyof(it); it = c->erase(std::move(it)); std::string r = show(it); xv::Quiet q; return std::to_string(was) + ">" + r; }
    if (o == "itr") { it.reset(); return "ok"; }
    if (o == "trav") { std::string r; { xv::Quiet q; r.reserve(256); } for (It t = c->begin(); t != c->end(); ++t) { long kk = keyof(t); xv::Quiet q; r += std::to_string(kk) + ","; } return r.empty() ? "-" : r; }
    return "?";
  }
  void teardown(std::vector<std::string>& out) override {
    std::string r = "final";
    { xv::Quiet q; r.reserve(512); }
    for (It t = c->begin(); t != c->end(); ++t) { long kk = keyof(t); xv::Quiet q; r += " " + std::to_string(kk); }
    { xv::Quiet q; out.push_back(r); }
    delete c;
  }
  bool check(const Case& cs, const std::vector<OpRec>& h, const std::vector<std::string>& fin, std::string& why) override {
    for (auto& o : h) if (o.done && o.res.find("BAD") != std::string::npos) { why = o.name + " returned an element with the wrong key/value"; return false; }
    // 1. linearizability of the set operations (iterator stepping ops are transparent to the spec, except 'ite' which erases)
    std::vector<OpRec> h2;
    for (auto o : h) {
      if (o.name == "ite") { if (!o.done || o.res == "end") continue; OpRec d = o; d.name = "del"; d.args = {atol(o.res.c_str())}; d.res = "ok?"; h2.push_back(d); continue; }
      if (o.name == "itb" || o.name == "itn" || o.name == "itd" || o.name == "itr" || o.name == "trav") continue;
      h2.push_back(o);
    }
    // erase(iterator) removes exactly the referenced element if it is still there: treat as del that may answer ok or no
    // (if another thread removed that element earlier the call has no effect on the abstract set, even if an equal key was re-inserted)
    struct Spec2 : SetSpec {
      bool apply(State& s, const OpRec& o) const { if (o.name == "del" && o.res == "ok?") { s.erase(o.args[0]); return true; } return SetSpec::apply(s, o); }
      bool apply_alt(State& s, const OpRec& o) const { return o.name == "del" && o.res == "ok?"; }   // no effect
    } sp;
    { long t = 1000000; std::set<long> finalset; std::istringstream ss(fin.empty() ? "" : fin[0]); std::string w; ss >> w; long prev = -1; bool sorted_ok = true; while (ss >> w) { long v = atol(w.c_str()); if (finalset.count(v)) { why = "final traversal yields key " + w + " twice"; return false; } finalset.insert(v); (void)prev; (void)sorted_ok; }
      for (long k = 0; k < 64; k++) { OpRec r; r.tid = 0; r.name = "has"; r.args = {k}; r.res = finalset.count(k) ? "yes" : "no"; r.inv = t++; r.ret = t++; r.done = true; h2.push_back(r); } }
    if (h2.size() <= 62) { LinCheck<Spec2> lc(sp, h2); if (!lc.ok()) { why = "history is not linearizable w.r.t. the set/map specification"; return false; } }
    else {
      // too long for the bitmask checker: check the prefix without the final probes, then final state by key
      std::vector<OpRec> h3(h2.begin(), h2.begin() + std::min<size_t>(h2.size(), 60)); LinCheck<Spec2> lc(sp, h3); if (!lc.ok()) { why = "history is not linearizable w.r.t. the set/map specification"; return false; }
    }
    // 2. iterator yields (C09): within one traversal of a thread (itb/itf ... itn/ite until end or next itb/itf/itr) no key is yielded twice
    //    unless it was (re-)inserted by an operation overlapping or following the first yield; every yielded key was inserted at some time.
    std::set<long> ever; for (auto& o : h) if (o.name == "ins" || o.name == "insget" || o.name == "getins" || o.name == "getlazy" || o.name == "at") ever.insert(o.args[0]);
    std::map<int, std::vector<std::pair<long, long>>> trav;  // tid -> (key, time of yield)
    auto yield = [&](const OpRec& o, long k) -> bool {
      if (!ever.count(k)) { why = "iterator yielded key " + std::to_string(k) + " that was never inserted"; return false; }
      auto& v = trav[o.tid];
      for (auto& p : v) if (p.first == k) {
        // yielded before: allowed only if some insert of k was pending or started after the first yield
        bool reins = false; for (auto& q : h) if ((q.name == "ins" || q.name == "insget" || q.name == "getins" || q.name == "getlazy") && q.args[0] == k && (q.ret < 0 || q.ret > p.second) ) reins = true;
        if (!reins) { why = "iterator of T" + std::to_string(o.tid) + " yielded key " + std::to_string(k) + " twice in one traversal although it was not re-inserted"; return false; }
      }
      v.push_back({k, o.inv});
      return true;
    };
    for (auto& o : h) {
      if (!o.done) continue;
      if (o.name == "itb" || o.name == "itf" || o.name == "itr") { trav[o.tid].clear(); if (o.res != "end" && o.res != "ok") if (!yield(o, atol(o.res.c_str()))) return false; }
      else if (o.name == "itn") { if (o.res != "end") if (!yield(o, atol(o.res.c_str()))) return false; }
      else if (o.name == "ite" && o.res != "end") { auto p = o.res.find('>'); std::string nx = o.res.substr(p + 1); if (nx != "end") if (!yield(o, atol(nx.c_str()))) return false; }
      else if (o.name == "trav" && o.res != "-") { std::set<long> seen; std::istringstream ss(o.res); std::string w; while (std::getline(ss, w, ',')) { if (w.empty()) continue; long k = atol(w.c_str()); if (!ever.count(k)) { why = "traversal yielded key " + w + " that was never inserted"; return false; } if (seen.count(k)) { bool reins = false; for (auto& q : h) if ((q.name == "ins" || q.name == "insget" || q.name == "getins" || q.name == "getlazy") && q.args[0] == k && (q.ret < 0 || q.ret > o.inv)) reins = true; if (!reins) { why = "traversal yielded key " + w + " twice although it was not re-inserted"; return false; } } seen.insert(k); } }
    }
    // 3. completeness (C09): a traversal that starts at begin() and runs to end() yields every key that is in the container for the
    //    whole traversal: inserted (successfully, call returned) before the traversal started and never the target of an erase
    //    (erase(key), erase(iterator)) that could take effect after that insertion (conservative: every such erase returned before
    //    the insertion was invoked).
    //    Precedence is op_precedes (real time, or happens-before in weak-memory mode).
    auto stable_keys = [&](const OpRec& first) {
      std::set<long> st;
      for (auto& q : h) {
        bool isins = (q.name == "ins" || q.name == "insget" || q.name == "getins" || q.name == "getlazy") && q.done && q.res == "new";
        if (!isins || !op_precedes(q, first)) continue;
        long k = q.args[0]; bool ok = true;
        for (auto& e : h) {
          bool hits = false;
          if (e.name == "del" && e.args[0] == k) hits = true;
          if (e.name == "ite") { if (!e.done) hits = true; else if (e.res != "end" && atol(e.res.c_str()) == k) hits = true; }
          if (hits && !op_precedes(e, q)) { ok = false; break; }
        }
        if (ok) st.insert(k);
      }
      return st;
    };
    auto complete = [&](const std::set<long>& yielded, const OpRec& first, const std::string& what) -> bool {
      for (long k : stable_keys(first)) if (!yielded.count(k)) { why = what + " from begin() to end() did not yield key " + std::to_string(k) + " although it was in the container during the whole traversal"; return false; }
      return true;
    };
    for (auto& o : h) if (o.name == "trav" && o.done) {
      std::set<long> y; std::istringstream ss(o.res); std::string w; while (std::getline(ss, w, ',')) if (!w.empty() && w != "-") y.insert(atol(w.c_str()));
      if (!complete(y, o, "traversal of T" + std::to_string(o.tid))) return false;
    }
    {
      std::map<int, std::pair<const OpRec*, std::set<long>>> cur;   // tid -> (the itb that began the traversal, keys yielded so far)
      for (auto& o : h) {
        if (!o.done) { cur.erase(o.tid); continue; }
        auto nextkey = [&](const std::string& r) { auto p = r.find('>'); return p == std::string::npos ? r : r.substr(p + 1); };
        if (o.name == "itb") { cur[o.tid] = {&o, {}}; if (o.res == "end") { if (!complete(cur[o.tid].second, o, "iterator traversal of T" + std::to_string(o.tid))) return false; cur.erase(o.tid); } else cur[o.tid].second.insert(atol(o.res.c_str())); }
        else if (o.name == "itf" || o.name == "itr") cur.erase(o.tid);
        else if ((o.name == "itn" || o.name == "ite") && cur.count(o.tid)) {
          std::string nx = nextkey(o.res);
          if (nx == "end") { if (!complete(cur[o.tid].second, *cur[o.tid].first, "iterator traversal of T" + std::to_string(o.tid))) return false; cur.erase(o.tid); }
          else cur[o.tid].second.insert(atol(nx.c_str()));
        }
      }
    }
    return true;
  }
};

template <size_t B, bool M> using MapT = xenium::harris_michael_hash_map<Key, long, xp::reclaimer<R>, xp::buckets<B>, xp::memoize_hash<M>, xp::hash<XHash>>;
using SetT = xenium::harris_michael_list_based_set<Key, xp::reclaimer<R>>;

static Case g_case;
static Adapter* make() {
  if (g_case.gets("c", "set") == "set") return new HmAdapter<SetT, false>();
  long b = g_case.geti("buckets", 1); bool m = g_case.geti("memo", 0) != 0;
  if (b == 1) return m ? (Adapter*)new HmAdapter<MapT<1, true>, true>() : (Adapter*)new HmAdapter<MapT<1, false>, true>();
  if (b == 2) return m ? (Adapter*)new HmAdapter<MapT<2, true>, true>() : (Adapter*)new HmAdapter<MapT<2, false>, true>();
  return m ? (Adapter*)new HmAdapter<MapT<8, true>, true>() : (Adapter*)new HmAdapter<MapT<8, false>, true>();
}
int main(int argc, char** argv) {
  if (argc >= 3) { std::ifstream in(argv[2]); g_case = parse_case(in); }
  return main_driver(argc, argv, make);
}
