// harness for xenium::chase_work_stealing_deque (C12, C16, C03)
#include "hx.hpp"

#include <atomic>
#include <cassert>
#include <deque>
#include <memory>
#include <stdexcept>

#define private public
#include <xenium/chase_work_stealing_deque.hpp>
#undef private

using namespace hx;

struct Item { int v; };
static Item* mk(long v) { return reinterpret_cast<Item*>(static_cast<uintptr_t>(v)); }
static long val(Item* p) { return static_cast<long>(reinterpret_cast<uintptr_t>(p)); }

struct DequeSpec {
  using State = std::deque<long>;
  State init;
  long cap = -1;  // fixed capacity (-1: growing)
  bool apply(State& s, const OpRec& o) const {
    if (o.name == "push") {
      if (!o.done) { s.push_back(o.args[0]); return true; }
      if (o.res == "ok") { s.push_back(o.args[0]); return true; }
      return cap >= 0 && (long)s.size() >= cap;  // "full"
    }
    if (o.name == "pop") {
      if (!o.done) { if (!s.empty()) s.pop_back(); return true; }
      if (o.res == "empty") return s.empty();
      if (s.empty() || std::to_string(s.back()) != o.res) return false;
      s.pop_back(); return true;
    }
    if (o.name == "steal") {
      if (!o.done) { if (!s.empty()) s.pop_front(); return true; }
      if (o.res == "empty") return true;  // try_steal may fail when it loses a race (exactness is checked by the sequential correspondence)
      if (s.empty() || std::to_string(s.front()) != o.res) return false;
      s.pop_front(); return true;
    }
    return false;
  }
  std::string key(const State& s) const { std::string k; for (long v : s) k += std::to_string(v) + ","; return k; }
};

template <class D>
struct ChaseAdapter : Adapter {
  D* d = nullptr; long fixed_cap;
  explicit ChaseAdapter(long fc) : fixed_cap(fc) {}
  void setup(const Case&) override {
    d = new D();
    xv::Quiet q;
    xv::name_range(&d->_bottom, sizeof d->_bottom, "bottom");
    xv::name_range(&d->_top, sizeof d->_top, "top");
    name_items(d->_items);
  }
  template <class T, std::size_t A, std::size_t B> void name_items(xenium::detail::growing_circular_array<T, A, B>& a) {
    xv::name_range(&a._capacity, sizeof a._capacity, "capacity");
    xv::name_range(&a._buckets, sizeof a._buckets, "buckets");
    xv::name_range(&a._data, sizeof a._data, "data");
  }
  template <class T, std::size_t C> void name_items(xenium::detail::fixed_size_circular_array<T, C>& a) { xv::name_range(&a._items, sizeof a._items, "items"); }
  std::string exec(int, const OpSpec& op) override {
    if (op.name == "push") return d->try_push(mk(op.args[0])) ? "ok" : "full";
    Item* r = nullptr;
    if (op.name == "pop") return d->try_pop(r) ? std::to_string(val(r)) : "empty";
    if (op.name == "steal") return d->try_steal(r) ? std::to_string(val(r)) : "empty";
    return "?";
  }
  void teardown(std::vector<std::string>& out) override {
    std::vector<long> got;
    { xv::Quiet q; got.reserve(1024); }
    Item* r = nullptr;
    while (d->try_pop(r)) { xv::Quiet q; got.push_back(val(r)); }
    { xv::Quiet q; std::string s = "drain"; for (long v : got) s += " " + std::to_string(v); out.push_back(s); }
    delete d;
  }
  bool check(const Case&, const std::vector<OpRec>& h, const std::vector<std::string>& fin, std::string& why) override {
    // conservation: every accepted item is returned exactly once (by pop, steal or the final drain)
    std::map<std::string, int> pushed, got;
    for (auto& o : h) { if (o.name == "push" && o.res == "ok") pushed[std::to_string(o.args[0])]++; if ((o.name == "pop" || o.name == "steal") && o.res != "empty") got[o.res]++; }
    { std::istringstream ss(fin.empty() ? "" : fin[0]); std::string w; ss >> w; while (ss >> w) got[w]++; }
    if (pushed != got) { why = "conservation: accepted items and returned items differ:"; for (auto& g : got) if (pushed[g.first] != g.second) why += " item " + g.first + " returned " + std::to_string(g.second) + "x pushed " + std::to_string(pushed[g.first]) + "x;"; for (auto& p : pushed) if (!got.count(p.first)) why += " item " + p.first + " lost;"; return false; }
    DequeSpec sp; sp.cap = fixed_cap;
    // drain as one final sequence of pops
    std::vector<OpRec> h2 = h;
    { std::istringstream ss(fin.empty() ? "" : fin[0]); std::string w; ss >> w; long t = 1000000; while (ss >> w) { OpRec r; r.tid = 0; r.name = "pop"; r.res = w; r.inv = t++; r.ret = t++; r.done = true; h2.push_back(r); } OpRec e; e.tid = 0; e.name = "pop"; e.res = "empty"; e.inv = t++; e.ret = t++; e.done = true; h2.push_back(e); }
    LinCheck<DequeSpec> lc(sp, h2);
    if (!lc.ok()) { why = "history is not linearizable w.r.t. the deque specification"; return false; }
    return true;
  }
};

template <std::size_t C> using GrowD = xenium::chase_work_stealing_deque<Item, xenium::policy::capacity<C>>;
template <std::size_t C> using FixD = xenium::chase_work_stealing_deque<Item, xenium::policy::container<xenium::detail::fixed_size_circular_array<Item, C>>>;

static std::string g_container; static long g_cap;
static Adapter* make() {
  if (g_container == "fixed") {
    if (g_cap == 2) return new ChaseAdapter<FixD<2>>(2);
    if (g_cap == 4) return new ChaseAdapter<FixD<4>>(4);
    return new ChaseAdapter<FixD<8>>(8);
  }
  if (g_cap == 2) return new ChaseAdapter<GrowD<2>>(-1);
  if (g_cap == 4) return new ChaseAdapter<GrowD<4>>(-1);
  if (g_cap == 8) return new ChaseAdapter<GrowD<8>>(-1);
  return new ChaseAdapter<GrowD<64>>(-1);
}

int main(int argc, char** argv) {
  if (argc >= 3) { std::ifstream in(argv[2]); Case c = parse_case(in); g_container = c.gets("container", "growing"); g_cap = c.geti("capacity", 4); }
  return main_driver(argc, argv, make);
}
