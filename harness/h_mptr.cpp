// differential harness for xenium::marked_ptr (C15): prints get/mark/raw of make(p, m) for the cases on stdin
//   input lines:  <MarkBits> <MaxUpper> <pointer hex> <mark hex>      (only the instantiated (MarkBits, MaxUpper) pairs are supported)
#include <cstdint>
#include <cstdio>
#include <cstring>
#include <xenium/marked_ptr.hpp>
template <uintptr_t MB, uintptr_t MU> static void one(uint64_t p, uint64_t m) {
  xenium::marked_ptr<char, MB, MU> mp(reinterpret_cast<char*>(p), m);
  uint64_t raw; static_assert(sizeof(mp) == 8, ""); std::memcpy(&raw, &mp, 8);
  printf("%lu %lu %lu\n", (unsigned long)reinterpret_cast<uintptr_t>(mp.get()), (unsigned long)mp.mark(), (unsigned long)raw);
}
#define CASE(MB, MU) if (mb == MB && mu == MU) { one<MB, MU>(p, m); continue; }
int main() {
  unsigned long mb, mu; unsigned long long p, m;
  while (scanf("%lu %lu %llx %llx", &mb, &mu, &p, &m) == 4) {
    CASE(1, 16) CASE(2, 16) CASE(3, 16) CASE(16, 16) CASE(17, 16) CASE(18, 16) CASE(24, 16) CASE(32, 16) CASE(3, 1) CASE(8, 0) CASE(5, 2) CASE(32, 0) CASE(20, 8) CASE(1, 0)
    printf("unsupported\n");
  }
}
