// harness for the hazard eras reclaimer (Model/HeDefs.v): exactly the generic reclaimer client of h_recl.cpp,
// instantiated with rt::HEs<3> (hazard_eras<> with static_strategy<3, 0, 0>), with the reclaimer's static members named
// so that the trace prints them as tbl_head / nact / abandoned / era_clock instead of raw (ASLR dependent) addresses.
#include "hx.hpp"

#define private public
#define protected public
#include <xenium/reclamation/hazard_eras.hpp>
#undef protected
#undef private

#ifndef XV_RECL
  #define XV_RECL HEs<3>
#endif
#define main recl_main
#include "h_recl.cpp"
#undef main

struct HeAdapter : ReclAdapter {
  void setup(const Case& c) override {
    ReclAdapter::setup(c);
    xv::Quiet q;
    using AS = xenium::reclamation::he_allocation::static_strategy<3, 0, 0>;
    using TCB = AS::thread_control_block;
    static_assert(sizeof(TCB) == 128, "thread_control_block layout: next_entry 0, state 8, last_hazard_era 16, last_era 24, eras[i].value 32 + 16 i, eras[i].guard_cnt 40 + 16 i (Model/HeDefs.v)");
    static_assert(offsetof(TCB, eras) == 32, "eras at offset 32 (Model/HeDefs.v)");
    static_assert(sizeof(TCB::hazard_era) == 16, "hazard_era = value 8 + guard_cnt 8 (Model/HeDefs.v)");
    static_assert(AS::K == 3, "K = 3 (Model/HeDefs.v)");
    static_assert(sizeof(Node) == 56, "node size (Model/HeDefs.v)");
    xv::name_range(&R::global_thread_block_list.head, sizeof R::global_thread_block_list.head, "tbl_head");
    xv::name_range(&R::global_thread_block_list.abandoned_retired_nodes, sizeof R::global_thread_block_list.abandoned_retired_nodes, "abandoned");
    xv::name_range(&AS::number_of_active_hes, sizeof AS::number_of_active_hes, "nact");
    xv::name_range(&R::era_clock, sizeof R::era_clock, "era_clock");
  }
};

int main(int argc, char** argv) { return main_driver(argc, argv, []() -> Adapter* { return new HeAdapter(); }); }
