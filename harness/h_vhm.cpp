// harness for xenium::vyukov_hash_map (C10, C11, C16; reclaimer via -DXV_RECL)
//   cfg mode=ll|ls|sl|ss|mp cap=1|2|4|8|64 hash=id|const|mod2|mod4
//     mode: key/value storage specialisation: l = long (trivial), s = std::string (non-trivial), mp = long -> managed_ptr<node>
//   ops: ins k v | getins k v | getlazy k v | del k | ext k | get k | find k
//        itb | itf k | itn | itd | ite | itr | itm (move-assign a fresh find/begin over a positioned iterator) | trav
// Threads follow the documented iterator rules: while a thread's iterator is positioned it only performs
// iterator operations (the generators in tools/props obey this).
#include "hx.hpp"

#include "recl_types.hpp"
#include <map>
#define private public
#include <xenium/vyukov_hash_map.hpp>
#undef private

#ifndef XV_RECL
  #define XV_RECL HPs<6>
#endif
using R = rt::XV_RECL;
using namespace hx;
namespace xp = xenium::policy;

static int g_hashmode = 0;
static std::size_t hmode(long k) { switch (g_hashmode) { case 1: return 7; case 2: return (std::size_t)(k % 2); case 3: return (std::size_t)(k % 4); default: return (std::size_t)k; } }
struct XHashL { std::size_t operator()(const long& k) const { return hmode(k); } };
struct XHashS { std::size_t operator()(const std::string& k) const { return hmode(atol(k.c_str() + 1)); } };

struct MapSpec {
  using State = std::map<long, long>;
  State init;
  bool apply(State& s, const OpRec& o) const {
    const std::string& n = o.name; long k = o.args.empty() ? 0 : o.args[0]; long v = o.args.size() > 1 ? o.args[1] : 0;
    if (n == "ins") { bool fresh = !s.count(k); if (fresh) s[k] = v; return !o.done || o.res == (fresh ? "new" : "old"); }
    if (n == "getins" || n == "getlazy") { bool fresh = !s.count(k); if (fresh) s[k] = v; if (!o.done) return true; return o.res == (fresh ? "new:" : "old:") + std::to_string(s[k]); }
    if (n == "del") { bool was = s.erase(k) > 0; return !o.done || o.res == (was ? "ok" : "no") || (o.res == "ok?"); }
    if (n == "ext") { if (!s.count(k)) return !o.done || o.res == "no"; long cur = s[k]; s.erase(k); return !o.done || o.res == std::to_string(cur); }
    if (n == "get") { if (!o.done) return true; if (!s.count(k)) return o.res == "no"; return o.res == std::to_string(s[k]); }
    if (n == "find" || n == "itf") { if (!o.done) return true; if (!s.count(k)) return o.res == "end"; return o.res == std::to_string(k) + "=" + std::to_string(s[k]); }
    if (n == "probe") { if (!s.count(k)) return o.res == "no"; return o.res == std::to_string(s[k]); }
    return true;
  }
  bool apply_alt(State&, const OpRec& o) const { return o.name == "del" && o.res == "ok?"; }
  std::string key(const State& s) const { std::string r; for (auto& kv : s) r += std::to_string(kv.first) + ":" + std::to_string(kv.second) + ","; return r; }
};

struct MNode : R::template enable_concurrent_ptr<MNode> { long v; explicit MNode(long x) : v(x) {} };

template <class A> auto areset(A& a, int) -> decltype(a.reset()) { a.reset(); }
template <class A> void areset(A&, long) {}
template <class K> struct KeyConv;
template <> struct KeyConv<long> { static long mk(long k) { return k; } static long un(const long& k) { return k; } };
template <> struct KeyConv<std::string> { static std::string mk(long k) { return "k" + std::to_string(k); } static long un(const std::string& k) { return atol(k.c_str() + 1); } };
template <class V> struct ValConv;
template <> struct ValConv<long> { static long mk(long v) { return v; } static long un(const long& v) { return v; } };
template <> struct ValConv<std::string> { static std::string mk(long v) { return "v" + std::to_string(v); } static long un(const std::string& v) { return atol(v.c_str() + 1); } };

template <class M, class K, class V, bool Managed>
struct VhmAdapter : Adapter {
  M* m = nullptr;
  using It = typename M::iterator;
  using Acc = typename M::accessor;
  It* its[17] = {nullptr};
  std::string cs_init;
  void setup(const Case& cs) override {
    cs_init = cs.gets("init", "");
    std::string h = cs.gets("hash", "id"); g_hashmode = h == "const" ? 1 : (h == "mod2" ? 2 : (h == "mod4" ? 3 : 0));
    m = new M((std::size_t)cs.geti("cap", 8));
    // init=1.2.3 : keys inserted (value 10*k) by the main thread before the threads start
    std::string init = cs.gets("init", "");
    for (size_t i = 0; i < init.size();) { size_t j = init.find('.', i); if (j == std::string::npos) j = init.size(); long k = atol(init.substr(i, j - i).c_str()); if constexpr (Managed) m->emplace(KeyConv<K>::mk(k), new MNode(k * 10)); else m->emplace(KeyConv<K>::mk(k), ValConv<V>::mk(k * 10)); i = j + 1; }
  }
  void thread_begin(int tid) override { xv::Quiet q; its[tid] = new It(); }
  void thread_end(int tid) override { its[tid]->reset(); xv::Quiet q; delete its[tid]; its[tid] = nullptr; }
  static long accval(Acc& a) { if constexpr (Managed) return a->v; else return ValConv<V>::un(*a); }
  template <class Ref> static long refkey(Ref&& r) { return KeyConv<K>::un(r.first); }
  template <class Ref> static long refval(Ref&& r) { if constexpr (Managed) return r.second->v; else return ValConv<V>::un(r.second); }
  std::string show(It& it) { if (it == m->end()) return "end"; auto r = *it; long k = refkey(r), v = refval(r); xv::Quiet q; return std::to_string(k) + "=" + std::to_string(v); }
  std::string exec(int tid, const OpSpec& op) override {
    const std::string& o = op.name; long k = op.args.empty() ? 0 : op.args[0]; long v = op.args.size() > 1 ? op.args[1] : k * 10;
    It& it = *its[tid];
    if (o == "ins") { bool r; if constexpr (Managed) { auto* n = new MNode(v); r = m->emplace(KeyConv<K>::mk(k), n); if (!r) delete n; } else r = m->emplace(KeyConv<K>::mk(k), ValConv<V>::mk(v)); return r ? "new" : "old"; }
    if (o == "getins" || o == "getlazy") {
      std::pair<Acc, bool> r;
      if constexpr (Managed) { if (o == "getins") { auto* n = new MNode(v); r = m->get_or_emplace(KeyConv<K>::mk(k), n); if (!r.second) delete n; } else r = m->get_or_emplace_lazy(KeyConv<K>::mk(k), [v]() { return new MNode(v); }); }
      else { if (o == "getins") r = m->get_or_emplace(KeyConv<K>::mk(k), ValConv<V>::mk(v)); else r = m->get_or_emplace_lazy(KeyConv<K>::mk(k), [v]() { return ValConv<V>::mk(v); }); }
      long got = accval(r.first); areset(r.first, 0); xv::Quiet q; return std::string(r.second ? "new:" : "old:") + std::to_string(got);
    }
    if (o == "del") return m->erase(KeyConv<K>::mk(k)) ? "ok" : "no";
    if (o == "ext") { Acc a; bool r = m->extract(KeyConv<K>::mk(k), a); if (!r) return "no"; long got = accval(a); if constexpr (Managed) a.reclaim(); else areset(a, 0); xv::Quiet q; return std::to_string(got); }
    if (o == "get") { Acc a; bool r = m->try_get_value(KeyConv<K>::mk(k), a); if (!r) return "no"; long got = accval(a); areset(a, 0); xv::Quiet q; return std::to_string(got); }
    if (o == "find") { It f = m->find(KeyConv<K>::mk(k)); std::string r = show(f); f.reset(); return r; }
    if (o == "itb") { it = m->begin(); return show(it); }
    if (o == "itf" || o == "itm") { it = m->find(KeyConv<K>::mk(k)); return show(it); }
    if (o == "itn") { if (it == m->end()) return "end"; ++it; return show(it); }
    if (o == "itd") return show(it);
    if (o == "ite") { if (it == m->end()) return "end"; auto r = *it; long was = refkey(r); m->erase(it); std::string nx = show(it); xv::Quiet q; return std::to_string(was) + ">" + nx; }
    if (o == "itr") { it.reset(); return "ok"; }
    if (o == "trav") { std::string r; { xv::Quiet q; r.reserve(512); } for (It t = m->begin(); t != m->end(); ++t) { auto e = *t; long kk = refkey(e), vv = refval(e); xv::Quiet q; r += std::to_string(kk) + "=" + std::to_string(vv) + ","; } return r.empty() ? "-" : r; }
    return "?";
  }
  bool lock_free(const Case&, const OpSpec& op) override { return op.name == "get"; }   // only try_get_value takes no bucket lock
  void teardown(std::vector<std::string>& out) override {
    std::string r = "final";
    { xv::Quiet q; r.reserve(1024); }
    for (It t = m->begin(); t != m->end(); ++t) { auto e = *t; long kk = refkey(e), vv = refval(e); xv::Quiet q; r += " " + std::to_string(kk) + "=" + std::to_string(vv); }
    // lock-free probes of every key of the universe after quiescence
    std::string p = "probe";
    for (long k = 0; k < 24; k++) { Acc a; bool ok = m->try_get_value(KeyConv<K>::mk(k), a); long got = ok ? accval(a) : -1; areset(a, 0); xv::Quiet q; p += " " + std::to_string(got); }
    { xv::Quiet q; out.push_back(r); out.push_back(p); }
    delete m;
  }
  bool check(const Case&, const std::vector<OpRec>& h, const std::vector<std::string>& fin, std::string& why) override {
    // final traversal: every element exactly once, and identical to the lock-free probes
    std::map<long, long> finalmap;
    { std::istringstream ss(fin.empty() ? "" : fin[0]); std::string w; ss >> w; while (ss >> w) { auto e = w.find('='); long k = atol(w.substr(0, e).c_str()), v = atol(w.substr(e + 1).c_str()); if (finalmap.count(k)) { why = "final traversal yields key " + std::to_string(k) + " twice"; return false; } finalmap[k] = v; } }
    std::vector<long> probes; { std::istringstream ss(fin.size() > 1 ? fin[1] : ""); std::string w; ss >> w; while (ss >> w) probes.push_back(atol(w.c_str())); }
    for (size_t k = 0; k < probes.size(); k++) { bool in = finalmap.count((long)k); if ((probes[k] >= 0) != in || (in && probes[k] != finalmap[(long)k])) { why = "after quiescence try_get_value(" + std::to_string(k) + ") = " + std::to_string(probes[k]) + " disagrees with the traversal (" + (in ? std::to_string(finalmap[(long)k]) : std::string("absent")) + ")"; return false; } }
    std::vector<OpRec> h2;
    for (auto o : h) {
      if (o.name == "ite") { if (!o.done || o.res == "end") continue; OpRec d = o; d.name = "del"; d.args = {atol(o.res.c_str())}; d.res = "ok"; h2.push_back(d); continue; }   // the iterator holds the bucket lock: the element is there
      if (o.name == "itb" || o.name == "itn" || o.name == "itd" || o.name == "itr" || o.name == "trav" || o.name == "itm") continue;
      h2.push_back(o);
    }
    { long t = 1000000; for (size_t k = 0; k < probes.size() && h2.size() < 61; k++) { OpRec r; r.tid = 0; r.name = "probe"; r.args = {(long)k}; r.res = probes[k] < 0 ? "no" : std::to_string(probes[k]); r.inv = t++; r.ret = t++; r.done = true; h2.push_back(r); } }
    MapSpec sp; { std::string init = cs_init; for (size_t i = 0; i < init.size();) { size_t j = init.find('.', i); if (j == std::string::npos) j = init.size(); long k = atol(init.substr(i, j - i).c_str()); sp.init[k] = k * 10; i = j + 1; } }
    LinCheck<MapSpec> lc(sp, h2);
    if (!lc.ok()) { why = "history is not linearizable w.r.t. the map specification"; return false; }
    // sequential traversals ('trav' with no overlapping operation) yield every element exactly once
    for (auto& o : h) if (o.name == "trav" && o.done && o.res != "-") { std::set<long> seen; std::istringstream ss(o.res); std::string w; while (std::getline(ss, w, ',')) { if (w.empty()) continue; long k = atol(w.c_str()); if (seen.count(k)) { why = "traversal yields key " + std::to_string(k) + " twice"; return false; } seen.insert(k); } }
    return true;
  }
};

template <class K, class V, class H> using VM = xenium::vyukov_hash_map<K, V, xp::reclaimer<R>, xp::hash<H>>;
static Case g_case;
static Adapter* make() {
  std::string md = g_case.gets("mode", "ll");
  if (md == "ls") return new VhmAdapter<VM<long, std::string, XHashL>, long, std::string, false>();
  if (md == "sl") return new VhmAdapter<VM<std::string, long, XHashS>, std::string, long, false>();
  if (md == "ss") return new VhmAdapter<VM<std::string, std::string, XHashS>, std::string, std::string, false>();
  if (md == "mp") return new VhmAdapter<VM<long, xenium::managed_ptr<MNode, R>, XHashL>, long, long, true>();
  return new VhmAdapter<VM<long, long, XHashL>, long, long, false>();
}
int main(int argc, char** argv) {
  if (argc >= 3) { std::ifstream in(argv[2]); g_case = parse_case(in); }
  return main_driver(argc, argv, make);
}
