// harness for the lock-free reference counting reclaimer (Model/LfrcDefs.v): exactly the generic reclaimer client of
// h_recl.cpp, instantiated with rt::LFRC (lock_free_ref_count<>: no padding, no thread-local free list) and
// XV_DEFAULT_DELETER, with the reclaimer's only static - the head of the global free list of Node - named so that
// the trace prints it as free_head instead of a raw (ASLR dependent) address.
#include "hx.hpp"

#define private public
#include <xenium/reclamation/lock_free_ref_count.hpp>
#undef private

#ifndef XV_RECL
  #define XV_RECL LFRC
#endif
#ifndef XV_DEFAULT_DELETER
  #define XV_DEFAULT_DELETER
#endif
#define main recl_main
#include "h_recl.cpp"
#undef main

struct LfrcAdapter : ReclAdapter {
  void setup(const Case& c) override {
    {
      xv::Quiet q;
      // header: ref_count 0 (4 bytes), destroyed 4 (1 byte), next_free 8; the object (vptr 16, id 24, canary 32) follows
      static_assert(sizeof(Node) == 24, "node size (Model/LfrcDefs.v)");
      static_assert(sizeof(Node::unpadded_header) == 16, "header layout: ref_count 0, destroyed 4, next_free 8 (Model/LfrcDefs.v)");
      xv::name_range(&Node::global_free_list.head, sizeof Node::global_free_list.head, "free_head");
    }
    ReclAdapter::setup(c);
  }
};

int main(int argc, char** argv) { return main_driver(argc, argv, []() -> Adapter* { return new LfrcAdapter(); }); }
