// harness for xenium::reclamation::detail::thread_block_list (C17, C16): the list is driven directly.
//   ops: acq   acquire_entry()            result: index of the entry (creation order, 1-based)
//        acqi  acquire_inactive_entry()   result: index of the entry
//        act   owned->activate()          result: index of the entry
//        rel   release_entry(owned)       result: index of the entry
// A thread owns at most one entry; `acq`/`acqi` are only legal for a thread that owns none, `rel`/`act` only for a
// thread that owns one (`act`: an inactive one).  Illegal operations are not executed and return "illegal".
#include "hx.hpp"

#include <atomic>
#include <cassert>

#define private public
#include <xenium/reclamation/detail/deletable_object.hpp>
#include <xenium/reclamation/detail/thread_block_list.hpp>
#undef private

using namespace hx;

struct Entry;
static std::vector<Entry*>* g_entries = nullptr;   // creation order

using TBL = xenium::reclamation::detail::thread_block_list<Entry>;
struct Entry : TBL::entry {
  Entry() { xv::Quiet q; if (!g_entries) g_entries = new std::vector<Entry*>(); g_entries->push_back(this); }
};

static long index_of(Entry* e) {
  if (!g_entries) return 0;
  for (size_t i = 0; i < g_entries->size(); i++) if ((*g_entries)[i] == e) return (long)i + 1;
  return 0;
}

struct TblAdapter : Adapter {
  TBL* list = nullptr;
  Entry* owned[17] = {nullptr};
  bool inactive[17] = {false};
  void setup(const Case&) override {
    list = new TBL();
    xv::Quiet q;
    static_assert(sizeof(Entry) == 16, "entry layout: next_entry at 0, state at 8 (Model/TblDefs.v)");
    xv::name_range(&list->head, sizeof list->head, "head");
    xv::name_range(&list->abandoned_retired_nodes, sizeof list->abandoned_retired_nodes, "abandoned");
  }
  std::string exec(int tid, const OpSpec& op) override {
    if (op.name == "acq" || op.name == "acqi") {
      if (owned[tid]) return "illegal";
      bool in = op.name == "acqi";
      Entry* e = in ? list->acquire_inactive_entry() : list->acquire_entry();
      xv::Quiet q; owned[tid] = e; inactive[tid] = in; return std::to_string(index_of(e));
    }
    if (op.name == "act") {
      if (!owned[tid] || !inactive[tid]) return "illegal";
      owned[tid]->activate();
      xv::Quiet q; inactive[tid] = false; return std::to_string(index_of(owned[tid]));
    }
    if (op.name == "rel") {
      if (!owned[tid]) return "illegal";
      Entry* e = owned[tid];
      list->release_entry(e);
      xv::Quiet q; owned[tid] = nullptr; return std::to_string(index_of(e));
    }
    return "?";
  }
  void teardown(std::vector<std::string>& out) override {
    // the real list never frees its entries: walk `head` (next_entry never changes once an entry is linked)
    long n = 0, created = 0; bool dup = false;
    std::vector<Entry*> seen;
    for (Entry* e = list->head.load(std::memory_order_relaxed); e != nullptr;) {
      Entry* nx = e->next_entry;
      { xv::Quiet q; for (Entry* s : seen) if (s == e) dup = true; seen.push_back(e); }
      if (dup) break;
      n++; e = nx;
    }
    { xv::Quiet q; created = g_entries ? (long)g_entries->size() : 0; out.push_back("entries " + std::to_string(n) + " created " + std::to_string(created) + (dup ? " cycle" : "")); }
    for (Entry* e : seen) delete e;
    delete list;
  }
  bool check(const Case&, const std::vector<OpRec>& h, const std::vector<std::string>& fin, std::string& why) override {
    // ownership intervals per entry: [ret(acq), inv(rel)] (certainly owned), threads never share an entry
    struct Own { int tid; long idx; long from, to; };
    std::vector<Own> owns; std::vector<std::pair<long, long>> live;   // live: [inv(acq), ret(rel)]
    const long INF = 1L << 60;
    std::map<int, size_t> cur, curlive;
    bool all_done = true;
    for (auto& o : h) {
      if (!o.done) all_done = false;
      if (o.res == "illegal") { why = "program error: illegal operation " + o.name + " by T" + std::to_string(o.tid); return false; }
      if (o.name == "acq" || o.name == "acqi") {
        curlive[o.tid] = live.size(); live.push_back({o.inv, INF});
        if (o.done) { cur[o.tid] = owns.size(); owns.push_back({o.tid, atol(o.res.c_str()), o.ret, INF}); }
      } else if (o.name == "rel") {
        if (cur.count(o.tid)) { owns[cur[o.tid]].to = o.inv; if (o.done && atol(o.res.c_str()) != owns[cur[o.tid]].idx) { why = "release of a different entry"; return false; } cur.erase(o.tid); }
        if (curlive.count(o.tid) && o.done) { live[curlive[o.tid]].second = o.ret; curlive.erase(o.tid); }
      }
    }
    for (size_t i = 0; i < owns.size(); i++) for (size_t j = i + 1; j < owns.size(); j++)
      if (owns[i].idx == owns[j].idx && owns[i].tid != owns[j].tid && owns[i].from <= owns[j].to && owns[j].from <= owns[i].to) {
        why = "entry " + std::to_string(owns[i].idx) + " owned by T" + std::to_string(owns[i].tid) + " and T" + std::to_string(owns[j].tid) + " at the same time"; return false; }
    for (auto& o : owns) if (o.idx <= 0) { why = "acquire returned an unknown entry"; return false; }
    // peak number of overlapping acq..rel intervals
    long peak = 0;
    for (auto& a : live) { long c = 0; for (auto& b : live) if (b.first <= a.first && a.first <= b.second) c++; peak = std::max(peak, c); }
    long n = -1, created = -1; char tail[32] = {0};
    if (!fin.empty()) sscanf(fin[0].c_str(), "entries %ld created %ld %31s", &n, &created, tail);
    if (std::string(tail) == "cycle") { why = "the entry list contains a cycle"; return false; }
    if (all_done && n != created) { why = "entries in the list (" + std::to_string(n) + ") != entries created (" + std::to_string(created) + ")"; return false; }
    if (created > peak) { why = "entries created (" + std::to_string(created) + ") exceed the peak number of simultaneously live threads (" + std::to_string(peak) + ")"; return false; }
    return true;
  }
};

int main(int argc, char** argv) { return main_driver(argc, argv, []() -> Adapter* { return new TblAdapter(); }); }
