// harness for the stamp_it reclaimer (Model/StampDefs.v): exactly the generic reclaimer client of h_recl.cpp,
// instantiated with rt::STAMP (xenium::reclamation::stamp_it), with the reclaimer's statics named so that the trace
// prints them as tbl_head / global_retired / head / tail instead of raw (ASLR dependent) addresses.  head and tail are
// the two sentinel control blocks of the thread order queue; they are allocated by the constructor of the static
// stamp_it::queue, i.e. before the runtime tracks allocations (fields: prev +16, next +24, stamp +32).
#include "hx.hpp"

#define private public
#include <xenium/reclamation/stamp_it.hpp>
#undef private

#ifndef XV_RECL
  #define XV_RECL STAMP
#endif
#define main recl_main
#include "h_recl.cpp"
#undef main

struct StampAdapter : ReclAdapter {
  void setup(const Case& c) override {
    {
      xv::Quiet q;
      using TCB = R::thread_control_block;
      // thread_control_block: next_entry 0, state 8, prev 16, next 24, stamp 32
      static_assert(sizeof(TCB) == 40, "thread_control_block layout: next_entry 0, state 8, prev 16, next 24, stamp 32 (Model/StampDefs.v)");
      static_assert(sizeof(Node) == 56, "node size (Model/StampDefs.v)");
      static_assert(sizeof(R::region_guard) == 1, "region_guard size (Model/StampDefs.v)");
      static_assert(R::MarkBits == 18, "mark bits (Model/StampDefs.v)");
      xv::name_range(&R::queue.global_thread_block_list.head, sizeof R::queue.global_thread_block_list.head, "tbl_head");
      xv::name_range(&R::queue.global_retired_nodes, sizeof R::queue.global_retired_nodes, "global_retired");
      xv::name_range(R::queue.head, sizeof(TCB), "head");
      xv::name_range(R::queue.tail, sizeof(TCB), "tail");
    }
    ReclAdapter::setup(c);
  }
};

int main(int argc, char** argv) { return main_driver(argc, argv, []() -> Adapter* { return new StampAdapter(); }); }
