// harness for the epoch based reclaimer (Model/EbrDefs.v): exactly the generic reclaimer client of h_recl.cpp,
// instantiated with rt::EBR (epoch_based<> with scan_frequency<1>), with the reclaimer's static members named so that
// the trace prints them as tbl_head / global_epoch / orphan0..2 instead of raw (ASLR dependent) addresses.
#include "hx.hpp"

#define private public
#include <xenium/reclamation/generic_epoch_based.hpp>
#undef private

#ifndef XV_RECL
  #define XV_RECL EBR
#endif
#define main recl_main
#include "h_recl.cpp"
#undef main

struct EbrAdapter : ReclAdapter {
  void setup(const Case& c) override {
    ReclAdapter::setup(c);
    xv::Quiet q;
    static_assert(sizeof(R::thread_control_block) == 24, "thread_control_block layout: next_entry 0, state 8, is_in_critical_region 12, local_epoch 16 (Model/EbrDefs.v)");
    static_assert(sizeof(Node) == 40, "node size (Model/EbrDefs.v)");
    xv::name_range(&R::global_thread_block_list.head, sizeof R::global_thread_block_list.head, "tbl_head");
    xv::name_range(&R::global_epoch, sizeof R::global_epoch, "global_epoch");
    static char nm[3][12];
    for (int i = 0; i < 3; i++) { snprintf(nm[i], sizeof nm[i], "orphan%d", i); xv::name_range(&R::orphans[i], sizeof R::orphans[i], nm[i]); }
  }
};

int main(int argc, char** argv) { return main_driver(argc, argv, []() -> Adapter* { return new EbrAdapter(); }); }
