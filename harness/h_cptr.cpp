// conformance harness for xenium::reclamation::detail::concurrent_ptr (C15: "concurrent_ptr behaves as an atomic marked_ptr")
//   every public operation of concurrent_ptr is executed with every memory order (pair) on a concurrent_ptr and, with the same
//   arguments, on a std::atomic<marked_ptr>; the atomic accesses recorded by xvrt (kind, memory orders, value read, value written,
//   expected value) and the results (return value, value left in `expected`) must be identical.
//   ops: conf   (the whole table; result "ok" or "BAD: <first difference>")
#include "hx.hpp"
#include "recl_types.hpp"
#include <atomic>
#ifndef XV_RECL
  #define XV_RECL EBR
#endif
using R = rt::XV_RECL;
using namespace hx;
struct Node : R::template enable_concurrent_ptr<Node, 2> { long v = 0; };
using CPtr = typename R::template concurrent_ptr<Node, 2>;
using MPtr = typename CPtr::marked_ptr;
static const std::memory_order ORD[] = {std::memory_order_relaxed, std::memory_order_consume, std::memory_order_acquire, std::memory_order_release, std::memory_order_acq_rel, std::memory_order_seq_cst};
static bool load_ok(int o) { return o != 3 && o != 4; }
static bool store_ok(int o) { return o != 1 && o != 2 && o != 4; }
static bool fail_ok(int o) { return o != 3 && o != 4; }

struct CpAdapter : Adapter {
  CPtr* cp = nullptr; std::atomic<MPtr>* ap = nullptr; Node* n1 = nullptr; Node* n2 = nullptr;
  void setup(const Case&) override { cp = new CPtr(); ap = new std::atomic<MPtr>(); n1 = new Node(); n2 = new Node(); }
  // run f on both objects, compare the trace records produced
  template <class F, class G> bool both(const char* what, int o1, int o2, F onc, G ona, std::string& why) {
    size_t t0 = xv::trace().size();
    auto rc = onc();
    size_t t1 = xv::trace().size();
    auto ra = ona();
    size_t t2 = xv::trace().size();
    xv::Quiet q;
    auto desc = [&](const char* d) { char b[160]; snprintf(b, sizeof b, "%s(order %d/%d): %s", what, o1, o2, d); why = b; return false; };
    if (rc != ra) return desc("results differ");
    if (t1 - t0 != t2 - t1) return desc("number of atomic accesses differs");
    if (t1 == t0) return desc("no atomic access recorded (run with --trace)");
    for (size_t i = 0; i < t1 - t0; i++) {
      const xv::Rec& a = xv::trace()[t0 + i]; const xv::Rec& b = xv::trace()[t1 + i];
      if (a.kind != b.kind || a.mo != b.mo || a.mo2 != b.mo2 || a.size != b.size || a.v1 != b.v1 || a.v2 != b.v2) {
        std::string s = "accesses differ: concurrent_ptr [" + xv::fmt_rec(a) + "] vs std::atomic [" + xv::fmt_rec(b) + "]"; return desc(s.c_str());
      }
    }
    return true;
  }
  std::string exec(int, const OpSpec& op) override {
    if (op.name != "conf") return "?";
    std::string why; long checked = 0;
    MPtr vals[] = {MPtr(nullptr), MPtr(n1, 0), MPtr(n1, 1), MPtr(n2, 3), MPtr(nullptr, 2)};
    for (MPtr cur : vals) for (MPtr other : vals) {
      for (int o = 0; o < 6; o++) {
        if (store_ok(o)) { if (!both("store", o, -1, [&] { cp->store(cur, ORD[o]); return 0; }, [&] { ap->store(cur, ORD[o]); return 0; }, why)) return "BAD: " + why; checked++; }
        if (load_ok(o)) { if (!both("load", o, -1, [&] { return cp->load(ORD[o]); }, [&] { return ap->load(ORD[o]); }, why)) return "BAD: " + why; checked++; }
        // single-order CAS, hitting and missing
        for (int strong = 0; strong < 2; strong++) for (MPtr exp0 : {cur, other}) {
          cp->store(cur, std::memory_order_relaxed); ap->store(cur, std::memory_order_relaxed);
          if (!both(strong ? "compare_exchange_strong" : "compare_exchange_weak", o, -1,
                    [&] { MPtr e = exp0; bool r = strong ? cp->compare_exchange_strong(e, other, ORD[o]) : cp->compare_exchange_weak(e, other, ORD[o]); return std::make_pair(r, e); },
                    [&] { MPtr e = exp0; bool r = strong ? ap->compare_exchange_strong(e, other, ORD[o]) : ap->compare_exchange_weak(e, other, ORD[o]); return std::make_pair(r, e); }, why)) return "BAD: " + why;
          checked++;
          for (int f = 0; f < 6; f++) {
            if (!fail_ok(f)) continue;
            cp->store(cur, std::memory_order_relaxed); ap->store(cur, std::memory_order_relaxed);
            if (!both(strong ? "compare_exchange_strong" : "compare_exchange_weak", o, f,
                      [&] { MPtr e = exp0; bool r = strong ? cp->compare_exchange_strong(e, other, ORD[o], ORD[f]) : cp->compare_exchange_weak(e, other, ORD[o], ORD[f]); return std::make_pair(r, e); },
                      [&] { MPtr e = exp0; bool r = strong ? ap->compare_exchange_strong(e, other, ORD[o], ORD[f]) : ap->compare_exchange_weak(e, other, ORD[o], ORD[f]); return std::make_pair(r, e); }, why)) return "BAD: " + why;
            checked++;
          }
        }
      }
    }
    xv::Quiet q; return "ok:" + std::to_string(checked);
  }
  void teardown(std::vector<std::string>&) override { delete cp; delete ap; delete n1; delete n2; }
  bool check(const Case&, const std::vector<OpRec>& h, const std::vector<std::string>&, std::string& why) override {
    for (auto& o : h) if (o.done && o.res.rfind("BAD", 0) == 0) { why = "concurrent_ptr does not behave as std::atomic<marked_ptr>: " + o.res; return false; }
    return true;
  }
};
static Adapter* make() { return new CpAdapter(); }
int main(int argc, char** argv) { return main_driver(argc, argv, make); }
