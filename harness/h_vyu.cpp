// harness for vyukov_bounded_queue and nikolaev_bounded_queue (C05, C07, C16)
#include "hq.hpp"

#define private public
#include <xenium/nikolaev_bounded_queue.hpp>
#include <xenium/vyukov_bounded_queue.hpp>
#undef private

using namespace hq;

template <class Q, class K> struct VyuOps {
  using T = typename K::T;
  static int push(Q& q, T& x) { return q.try_push_strong(std::move(x)) ? 1 : 0; }
  static int pushw(Q& q, T& x) { return q.try_push_weak(std::move(x)) ? 1 : 2; }
  static int pop(Q& q, T& out) { auto r = q.pop_strong(); if (r) { out = std::move(*r); return 1; } return 0; }
  static int tpop(Q& q, T& out) { return q.try_pop_strong(out) ? 1 : 0; }
  static int popw(Q& q, T& out) { return q.try_pop_weak(out) ? 1 : 2; }
  static void flush() {}
};
template <class Q, class K> struct NikbOps {
  using T = typename K::T;
  static int push(Q& q, T& x) { return q.try_push(std::move(x)) ? 1 : 0; }
  static int pushw(Q& q, T& x) { return push(q, x); }
  static int pop(Q& q, T& out) { auto r = q.pop(); if (r) { out = std::move(*r); return 1; } return 0; }
  static int tpop(Q& q, T& out) { return q.try_pop(out) ? 1 : 0; }
  static int popw(Q& q, T& out) { return tpop(q, out); }
  static void flush() {}
};

static long npow2(long c) { long p = 1; while (p < c) p <<= 1; return p; }

template <class K> static Adapter* mk_vyu(const Case& c) {
  using Q = xenium::vyukov_bounded_queue<typename K::T>;
  QSpec sp; sp.cap = c.geti("cap", 2);
  auto* a = new QueueAdapter<Q, K, VyuOps<Q, K>>([](const Case& cc) { return new Q((std::size_t)cc.geti("cap", 2)); }, sp);
  a->lf = [](const Case&, const OpSpec& op) { return op.name == "pushw" || op.name == "popw"; };   // the strong operations may wait for a stalled peer
  a->naming = [](Q* q, const Case& cc) {
    xv::name_range(&q->enqueue_pos, sizeof q->enqueue_pos, "enq");
    xv::name_range(&q->dequeue_pos, sizeof q->dequeue_pos, "deq");
    long cap = cc.geti("cap", 2);
    for (long i = 0; i < cap; i++) { static char buf[64][16]; snprintf(buf[i % 64], 16, "cell%ld", i); xv::name_range(&q->cells[i], sizeof q->cells[i], buf[i % 64]); }
  };
  return a;
}
template <class K, unsigned R> static Adapter* mk_nikb(const Case& c) {
  using Q = xenium::nikolaev_bounded_queue<typename K::T, xenium::policy::pop_retries<R>>;
  QSpec sp; sp.cap = npow2(c.geti("cap", 2)); sp.full_slack = (long)c.prog.size();   // every other operation in progress may occupy a slot
  auto* a = new QueueAdapter<Q, K, NikbOps<Q, K>>([](const Case& cc) { return new Q((std::size_t)cc.geti("cap", 2)); }, sp);
  a->lf = [](const Case& cc, const OpSpec&) { return (long)cc.prog.size() < npow2(cc.geti("cap", 2)); };   // documented: lock-free only with fewer threads than slots
  return a;
}

static Case g_case;
static Adapter* make() {
  std::string q = g_case.gets("q", "vyu"), e = g_case.gets("elem", "int");
  long r = g_case.geti("retries", 2);
  if (q == "vyu") { if (e == "obj") return mk_vyu<KObj>(g_case); if (e == "uptr") return mk_vyu<KUptr>(g_case); return mk_vyu<KInt>(g_case); }
  if (e == "obj") return r == 0 ? mk_nikb<KObj, 0>(g_case) : mk_nikb<KObj, 2>(g_case);
  if (e == "uptr") return r == 0 ? mk_nikb<KUptr, 0>(g_case) : mk_nikb<KUptr, 2>(g_case);
  return r == 0 ? mk_nikb<KInt, 0>(g_case) : mk_nikb<KInt, 2>(g_case);
}
int main(int argc, char** argv) {
  if (argc >= 3) { std::ifstream in(argv[2]); g_case = parse_case(in); }
  return main_driver(argc, argv, make);
}
