// harness for the quiescent state based reclaimer (Model/QsbrDefs.v): exactly the generic reclaimer client of h_recl.cpp,
// instantiated with rt::QSBR (xenium::reclamation::quiescent_state_based), with the reclaimer's static members named so
// that the trace prints them as tbl_head / abandoned / global_epoch instead of raw (ASLR dependent) addresses.
#include "hx.hpp"

#define private public
#include <xenium/reclamation/quiescent_state_based.hpp>
#undef private

#ifndef XV_RECL
  #define XV_RECL QSBR
#endif
#define main recl_main
#include "h_recl.cpp"
#undef main

struct QsbrAdapter : ReclAdapter {
  void setup(const Case& c) override {
    ReclAdapter::setup(c);
    xv::Quiet q;
    static_assert(sizeof(R::thread_control_block) == 16, "thread_control_block layout: next_entry 0, state 8, local_epoch 12 (Model/QsbrDefs.v)");
    static_assert(sizeof(xenium::reclamation::detail::orphan<3>) == 48, "orphan size (Model/QsbrDefs.v)");
    static_assert(sizeof(Node) == 40, "node size (Model/QsbrDefs.v)");
    static_assert(sizeof(typename R::region_guard) == 1, "region_guard size (Model/QsbrDefs.v)");
    xv::name_range(&R::global_thread_block_list.head, sizeof R::global_thread_block_list.head, "tbl_head");
    xv::name_range(&R::global_thread_block_list.abandoned_retired_nodes, sizeof R::global_thread_block_list.abandoned_retired_nodes, "abandoned");
    xv::name_range(&R::global_epoch, sizeof R::global_epoch, "global_epoch");
  }
};

int main(int argc, char** argv) { return main_driver(argc, argv, []() -> Adapter* { return new QsbrAdapter(); }); }
