#!/usr/bin/env python3
"""splice docs/sec0.md (the as-built section, with the seeded-change table from seeded/*/meta.json) into DESIGN.md"""
import os, json, re, glob
V = os.path.dirname(os.path.dirname(os.path.abspath(__file__)))
sec0 = open(os.path.join(V, 'docs', 'sec0.md')).read()
rows = ['| id | change (file) | needs | caught by | notes |', '|----|---------------|-------|-----------|-------|']
for d in sorted(glob.glob(os.path.join(V, 'seeded', '*'))):
    mp = os.path.join(d, 'meta.json')
    if not os.path.exists(mp): continue
    m = json.load(open(mp))
    cell = lambda x: str(x).replace('|', '/').replace('\n', ' ')
    rows.append('| %s | %s | %s | %s | %s |' % (os.path.basename(d), cell(m.get('summary', ''))[:300], cell(m.get('needs_to_manifest', ''))[:200], cell(m.get('caught_by', 'not yet run')), cell(m.get('check_notes', ''))[:300]))
sec0 = sec0.replace('@SEEDED_TABLE@', '\n'.join(rows) if len(rows) > 2 else '(campaign in progress)')
p = os.path.join(V, 'DESIGN.md')
s = open(p).read()
b, e = '<!-- SEC0-BEGIN -->', '<!-- SEC0-END -->'
if b in s:
    s = s[:s.index(b)] + b + '\n' + sec0 + '\n' + s[s.index(e):]
else:
    marker = '## 1. What is being verified'
    s = s.replace(marker, b + '\n' + sec0 + '\n' + e + '\n\n' + marker, 1)
open(p, 'w').write(s)
print('DESIGN.md updated,', len(rows) - 2, 'seeded rows')
