#!/usr/bin/env python3
"""Trace correspondence of the quiescent state based reclamation model (coq/Model/QsbrDefs.v) with the real code.

    qsbr_correspond.py <driver> [--programs N] [--scheds K] [--seed S] [--harness /verif/build/h_qsbr]

<driver> must contain the `qsbr` instance (see the block in the final report / ocaml/driver.ml).  For N random client
programs (2-4 threads, ops repl/clear/read/hold/drop/deref/enter/leave on 1-3 cells, 1-3 guard slots; every thread's
program ends with its exit) plus the fixed programs below, K complete random schedules each are generated from the
model (`driver qsbr gen`), replayed on the harness and compared line by line (xvlib.correspond_one).  The fixed programs
cover: thread exits with pending retire lists (orphans), a reader that keeps a guard across another thread's exit,
adoption of orphans, orphans swallowed by the orphan of the adopting thread, exits with live guards / region_guards,
exits whose epoch CAS (~thread_data) races with an epoch advance."""
import sys, os, re, random, argparse
sys.path.insert(0, os.path.dirname(os.path.abspath(__file__)))
import xvlib as X

C2 = {'cells': '2', 'slots': '3', 'flushes': '8'}
FIXED = [
    (C2, ['repl 0; repl 0; read 1; repl 1', 'hold 0 1; read 0; deref 1; drop 1; repl 0']),
    (C2, ['repl 0; repl 0; repl 0; repl 0', 'repl 0; read 0; repl 0', 'hold 0 0; hold 1 1; hold 0 1; drop 0']),
    (C2, ['clear 0; repl 0; clear 1; read 1; hold 1 2; repl 1; hold 1 2', 'hold 0 0; hold 0 0; hold 1 0; deref 0; drop 0; drop 0; deref 0']),
    # exits with pending retire lists, a reader holding a guard across them, adoption by the survivors
    (C2, ['repl 0; repl 1', 'hold 0 0; read 1; read 1; deref 0; read 0; deref 0; drop 0; read 0; read 0', 'repl 0; read 1; read 1; read 1']),
    (C2, ['hold 0 0; repl 0; repl 1', 'hold 0 0; deref 0; read 1; deref 0; read 1; read 1; deref 0', 'read 1; read 1; read 1; read 1; read 1; read 1']),
    (C2, ['repl 0', 'repl 1', 'read 0; read 0; read 0; read 0; read 0; read 0', 'read 1; read 1; read 1; read 1; read 1; read 1']),
    # orphan of an orphan: the adopter exits with the adopted orphan still in its lists
    (C2, ['repl 0; repl 0', 'repl 1; read 0', 'hold 1 0; repl 0; read 0', 'read 0; read 1; read 0; read 1; read 0; read 1']),
    # region guards, exits with live guards / region guards
    (C2, ['enter; repl 0; read 1; leave; repl 1', 'enter; enter; hold 0 0; leave; leave; read 0', 'hold 1 1; enter; repl 1']),
    (C2, ['enter; repl 0; repl 1', 'hold 0 0; hold 1 1; enter', 'read 0; leave; enter; read 1; leave; read 0']),
    (C2, ['read 0', 'read 0; read 1', 'read 0; read 1']),
    # exits with pending retire lists racing with epoch advances of the other threads (the CAS of ~thread_data that reads the
    # current global epoch fails and is retried)
    (C2, ['hold 1 0; repl 0', 'read 0; read 0; read 0', 'hold 1 1; repl 1']),
    (C2, ['enter; repl 0; repl 1', 'read 1; read 1; read 1; read 1', 'hold 0 0; repl 0', 'read 0; read 0']),
]

def random_program(r):
    nth = r.choice([2, 3, 3, 4]); ncells = r.choice([1, 2, 2, 3]); nslots = r.choice([1, 2, 3])
    prog = []
    for _ in range(nth):
        ops = []
        for _ in range(r.randint(1, 7)):
            k = r.random(); c = r.randrange(ncells); s = r.randrange(nslots)
            if k < 0.3: ops.append('repl %d' % c)
            elif k < 0.36: ops.append('clear %d' % c)
            elif k < 0.6: ops.append('read %d' % c)
            elif k < 0.76: ops.append('hold %d %d' % (c, s))
            elif k < 0.84: ops.append('drop %d' % s)
            elif k < 0.9: ops.append('deref %d' % s)
            elif k < 0.95: ops.append('enter')
            else: ops.append('leave')
        prog.append('; '.join(ops))
    return ({'cells': str(ncells), 'slots': str(nslots), 'flushes': '12'}, prog)

if __name__ == '__main__':
    ap = argparse.ArgumentParser()
    ap.add_argument('driver'); ap.add_argument('--programs', type=int, default=20); ap.add_argument('--scheds', type=int, default=10)
    ap.add_argument('--seed', type=int, default=1); ap.add_argument('--harness', default='/verif/build/h_qsbr')
    a = ap.parse_args()
    r = random.Random(a.seed)
    cases = list(FIXED) + [random_program(r) for _ in range(a.programs)]
    cases = [(cfg, [[o.strip() for o in p.split(';')] if isinstance(p, str) else p for p in prog]) for cfg, prog in cases]
    wd = X.Workdir()
    st = X.correspondence(a.driver, 'qsbr', a.harness, cases, wd, a.scheds, a.seed)
    print('programs=%d schedules=%d trace_lines=%d mismatches=%d impl_violations=%d model_pcs_covered=%d' %
          (st['programs'], st['cases'], st['steps'], len(st['mismatches']), len(st['impl_violations']), st['model_pcs_covered']))
    for m in st['mismatches'][:3]: print('MISMATCH', m)
    for m in st['impl_violations'][:3]: print('IMPL', m['status'], m['detail'])
    wd.close()
    sys.exit(1 if st['mismatches'] else 0)
