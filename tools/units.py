"""Translation units for tools/cxx2gallina.py: which functions of which header become Gallina."""
UNITS = [
    {
        'name': 'UtilsGen',
        'source': 'xenium/utils.hpp',
        'tu': '#include <xenium/utils.hpp>\n#include <cstddef>\n'
              'template bool xenium::utils::is_power_of_two<unsigned long>(unsigned long);\n'
              'template unsigned xenium::utils::find_last_bit_set<unsigned long>(unsigned long);\n'
              'template unsigned long xenium::utils::next_power_of_two<unsigned long>(unsigned long);\n',
        'call_map': {'find_last_bit_set': 'flbs'},   # justified by Proof/UtilsGenOk.v: find_last_bit_set = Some (flbs v)
        'functions': ['is_power_of_two', 'find_last_bit_set', 'next_power_of_two'],
    },
    {
        'name': 'GrowingArrayGen',
        'source': 'xenium/detail/growing_circular_array.hpp',
        'class': 'growing_circular_array',
        'tu': '#include <xenium/detail/growing_circular_array.hpp>\n'
              'template struct xenium::detail::growing_circular_array<int, 4, 64>;\n',
        'state': {'_buckets': 'buckets', '_capacity': 'capacity'},
        'mem': '_data',
        'member_calls': {'capacity': '_capacity'},
        'call_map': {'find_last_bit_set': 'flbs'},
        'functions': ['get_entry', 'grow'],
    },
    {
        'name': 'SeqlockGen',
        'source': 'xenium/seqlock.hpp',
        'class': 'seqlock',
        'tu': '#include <xenium/seqlock.hpp>\nstruct XvBlob { char b[12]; };\n'
              'template struct xenium::seqlock<XvBlob, xenium::policy::slots<2>>;\n',
        'sizeof_params': {'XvBlob': 'sizeof_T'},
        'constants': {'words': None},
        'functions': ['is_write_pending'],
    },
    {
        'name': 'ScqGen',
        'source': 'xenium/detail/nikolaev_scq.hpp',
        'class': 'nikolaev_scq',
        'tu': '#include <xenium/detail/nikolaev_scq.hpp>\n',
        'constants': {'cacheline_size': None, 'indexes_per_cacheline': None},
        'call_map': {'find_last_bit_set': 'flbs'},
        'functions': ['diff', 'remap_index', 'calc_remap_shift'],
    },
    {
        'name': 'KirschIdxGen',
        'source': 'xenium/kirsch_bounded_kfifo_queue.hpp',
        'class': 'marked_idx',
        'tu': '#include <xenium/kirsch_bounded_kfifo_queue.hpp>\ntemplate class xenium::kirsch_bounded_kfifo_queue<int*>;\n',
        'state': {'_val': 'val'},
        'constants': {'bits': None, 'val_mask': None},
        'rename': {'marked_idx': 'mk_idx', 'get': 'idx_get', 'mark': 'idx_mark'},
        'param_types': {'marked_idx': 'uint64_t, uint64_t'},
        'functions': ['marked_idx', 'get', 'mark'],
    },
    {
        'name': 'RamalheteNodeGen',
        'source': 'xenium/ramalhete_queue.hpp',
        'class': 'node',
        'const_class': 'ramalhete_queue',
        'tu': '#include <xenium/ramalhete_queue.hpp>\n#include <xenium/reclamation/generic_epoch_based.hpp>\n'
              'template class xenium::ramalhete_queue<int*, xenium::policy::reclaimer<xenium::reclamation::epoch_based<>>, xenium::policy::entries_per_node<4>>;\n',
        'state': {'pop_idx': 'pop_idx', 'push_idx': 'push_idx'},
        'mem1': 'entries',
        'constants': {'step_size': None, 'max_idx': None},
        'symbolic_constants': ['entries_per_node'],
        'call_map': {'min': 'N.min'},
        'effect_calls': {'delete_value': 'count'},
        'rename': {'~node': 'node_dtor'},
        'functions': ['~node'],
    },
]
