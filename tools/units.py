"""Translation units for tools/cxx2gallina.py: which functions of which header become Gallina."""
UNITS = [
    {
        'name': 'UtilsGen',
        'source': 'xenium/utils.hpp',
        'tu': '#include <xenium/utils.hpp>\n#include <cstddef>\n'
              'template bool xenium::utils::is_power_of_two<unsigned long>(unsigned long);\n'
              'template unsigned xenium::utils::find_last_bit_set<unsigned long>(unsigned long);\n'
              'template unsigned long xenium::utils::next_power_of_two<unsigned long>(unsigned long);\n',
        'call_map': {'find_last_bit_set': 'flbs'},   # justified by Proof/UtilsGenOk.v: find_last_bit_set = Some (flbs v)
        'functions': ['is_power_of_two', 'find_last_bit_set', 'next_power_of_two'],
    },
    {
        'name': 'GrowingArrayGen',
        'source': 'xenium/detail/growing_circular_array.hpp',
        'class': 'growing_circular_array',
        'tu': '#include <xenium/detail/growing_circular_array.hpp>\n'
              'template struct xenium::detail::growing_circular_array<int, 4, 64>;\n',
        'state': {'_buckets': 'buckets', '_capacity': 'capacity'},
        'mem': '_data',
        'member_calls': {'capacity': '_capacity'},
        'call_map': {'find_last_bit_set': 'flbs'},
        'functions': ['get_entry', 'grow'],
    },
    {
        'name': 'SeqlockGen',
        'source': 'xenium/seqlock.hpp',
        'class': 'seqlock',
        'tu': '#include <xenium/seqlock.hpp>\nstruct XvBlob { char b[12]; };\n'
              'template struct xenium::seqlock<XvBlob, xenium::policy::slots<2>>;\n',
        'sizeof_params': {'XvBlob': 'sizeof_T'},
        'constants': {'words': None},
        'functions': ['is_write_pending'],
    },
    {
        'name': 'ScqGen',
        'source': 'xenium/detail/nikolaev_scq.hpp',
        'class': 'nikolaev_scq',
        'tu': '#include <xenium/detail/nikolaev_scq.hpp>\n',
        'constants': {'cacheline_size': None, 'indexes_per_cacheline': None},
        'call_map': {'find_last_bit_set': 'flbs'},
        'functions': ['diff', 'remap_index', 'calc_remap_shift'],
    },
]
