#!/bin/bash
# builds everything the checks need from files on disk (offline): Coq development, extraction, OCaml driver, xvrt
set -e
cd "$(dirname "$0")/.."
mkdir -p build coq/gen
python3 tools/cxx2gallina.py coq/gen >/dev/null || true
cd coq
[ -f Makefile ] || coq_makefile -f _CoqProject $(find . -name '*.v' | sort) -o Makefile >/dev/null
timeout 3000 make -k -j16 >../build/coq-make.log 2>&1 || true
cd ..
python3 - <<'PY'
import sys; sys.path.insert(0, 'tools')
import xvlib
d, err = xvlib.build_driver()
print('driver:', d, err[-300:])
xvlib.build_rt()
PY
