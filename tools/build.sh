#!/bin/bash
# builds everything the checks need from files on disk (offline): Coq development, extraction, OCaml driver, xvrt
set -e
cd "$(dirname "$0")/.."
mkdir -p build coq/gen
python3 tools/cxx2gallina.py coq/gen >/dev/null || true
cd coq
[ -f Makefile ] || coq_makefile -f _CoqProject $(find . -name '*.v' | sort) -o Makefile >/dev/null
timeout 3000 make -k -j16 >../build/coq-make.log 2>&1 || true
cd ..
if [ -f coq/xm.ml ]; then mv coq/xm.ml coq/xm.mli ocaml/; fi
(cd ocaml && ocamlfind ocamlopt -w -a xm.mli xm.ml driver.ml -o ../build/driver)
g++ -std=c++17 -O1 -g -c rt/xvrt.cpp -o build/xvrt.o
