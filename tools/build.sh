#!/bin/bash
# builds everything the checks need from files on disk (offline): Coq development, extraction, OCaml driver, xvrt
set -e
cd "$(dirname "$0")/.."
mkdir -p build coq/gen
python3 -c "import sys; sys.path.insert(0, 'tools'); import xvlib; print(xvlib.regenerate_gen()[0])" >/dev/null || true
cd coq
coq_makefile -f _CoqProject $(find . -name '*.v' | sed 's|^\./||' | sort) -o Makefile >/dev/null; rm -f .files.stamp
timeout 3000 make -k -j16 >../build/coq-make.log 2>&1 || true
cd ..
python3 - <<'PY'
import sys; sys.path.insert(0, 'tools')
import xvlib
d, err = xvlib.build_driver()
print('driver:', d, err[-300:])
xvlib.build_rt()
PY
