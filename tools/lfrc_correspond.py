#!/usr/bin/env python3
"""Trace correspondence of the lock-free reference counting model (coq/Model/LfrcDefs.v) with the real code.

    lfrc_correspond.py <driver> [--programs N] [--scheds K] [--seed S] [--harness /verif/build/h_lfrc]

<driver> must contain the `lfrc` instance (see ocaml/driver.ml / the block in the report).  For N random client programs
(2-4 threads, ops repl/clear/read/hold/drop/deref on 1-3 cells, 1-3 guard slots) plus the fixed programs below (the
recycled-node race, racing drops of the last references, free list push/pop contention), K complete random schedules each
are generated from the model (`driver lfrc gen`), replayed on the harness and compared line by line
(xvlib.correspond_one).  The harness h_lfrc names the free list head; for build/h_recl_lfrc (raw address) pass
--harness /verif/build/h_recl_lfrc: the only static address of the trace is then renamed to free_head."""
import sys, os, re, random, argparse
sys.path.insert(0, os.path.dirname(os.path.abspath(__file__)))
import xvlib as X

FIXED = [
    # recycled-node race: a reader between its load of cell0 and its fetch_add while the node is freed, popped again and published in cell1
    ({'cells': '2', 'slots': '2', 'flushes': '8'}, ['read 0; read 0; hold 0 0; read 1', 'repl 0; repl 1; repl 0; repl 1']),
    ({'cells': '2', 'slots': '2', 'flushes': '8'}, ['read 0; hold 0 1; read 0', 'repl 0; repl 1; clear 0', 'hold 1 0; repl 0; drop 0']),
    # racing drops of the last references
    ({'cells': '1', 'slots': '2', 'flushes': '8'}, ['hold 0 0; drop 0', 'hold 0 1; drop 1', 'clear 0']),
    ({'cells': '1', 'slots': '2', 'flushes': '8'}, ['hold 0 0; hold 0 1; drop 0; drop 1', 'hold 0 0', 'repl 0; repl 0']),
    # free list contention: pushes and pops of several threads
    ({'cells': '3', 'slots': '1', 'flushes': '8'}, ['repl 0; repl 0; repl 0', 'repl 1; repl 1; repl 1', 'repl 2; repl 2; repl 2']),
    ({'cells': '2', 'slots': '1', 'flushes': '8'}, ['repl 0; repl 0; repl 0; repl 0', 'repl 0; repl 1; repl 0; repl 1', 'clear 1; repl 1; clear 0; repl 0']),
    ({'cells': '1', 'slots': '1', 'flushes': '8'}, ['repl 0; repl 0; repl 0', 'repl 0; repl 0; repl 0', 'read 0; read 0; read 0; read 0']),
    ({'cells': '2', 'slots': '3', 'flushes': '8'}, ['hold 0 1; hold 1 0; hold 1 2', 'clear 0; repl 1; repl 0']),
]

# directed schedules (one entry = one step): the recycled-node race and its variants
#  - thread 1 loads cell0 = node 0 and stops before its fetch_add; thread 2 replaces cell0 (node 0 -> free list) and cell1
#    (node 0 popped again, second incarnation published in cell1); thread 1's increment lands on the recycled node, the
#    re-check fails, the reference is released, the retry succeeds
#  - the same, then thread 2 clears cell1 before thread 1's re-check: thread 1's release is the last one and thread 1
#    (inside a read of cell0) destroys the second incarnation and pushes the node
#  - thread 2 replaces cell0 twice: node 0 is recycled into the SAME cell, thread 1's re-check succeeds (a valid
#    reference on the new incarnation)
DIRECTED = [
    ({'cells': '2', 'slots': '1', 'flushes': '8'}, ['read 0', 'repl 0; repl 1'], [1, 1] + [2] * 37 + [1] * 9),
    ({'cells': '2', 'slots': '1', 'flushes': '8'}, ['read 0', 'repl 0; repl 1; clear 1'], [1, 1] + [2] * 37 + [1] + [2] * 8 + [1] * 13),
    ({'cells': '2', 'slots': '1', 'flushes': '8'}, ['read 0; read 1', 'repl 0; repl 0'], [1, 1] + [2] * 37 + [1] * 10),
    ({'cells': '2', 'slots': '1', 'flushes': '8'}, ['hold 0 0; deref 0', 'repl 0; repl 1; clear 1', 'read 1; read 1'],
     [1, 1] + [2] * 37 + [3, 3] + [1] + [2] * 8 + [3] * 7 + [1] * 14),
]

def random_program(r):
    nth = r.choice([2, 3, 3, 4]); ncells = r.choice([1, 2, 2, 3]); nslots = r.choice([1, 2, 3])
    prog = []
    for _ in range(nth):
        ops = []
        for _ in range(r.randint(1, 7)):
            k = r.random(); c = r.randrange(ncells); s = r.randrange(nslots)
            if k < 0.35: ops.append('repl %d' % c)
            elif k < 0.43: ops.append('clear %d' % c)
            elif k < 0.65: ops.append('read %d' % c)
            elif k < 0.82: ops.append('hold %d %d' % (c, s))
            elif k < 0.92: ops.append('drop %d' % s)
            else: ops.append('deref %d' % s)
        prog.append('; '.join(ops))
    return ({'cells': str(ncells), 'slots': str(nslots), 'flushes': '8'}, prog)

def normalize_statics(lines):
    return [re.sub(r'\?0x[0-9a-f]+', 'free_head', l) for l in lines]

if __name__ == '__main__':
    ap = argparse.ArgumentParser()
    ap.add_argument('driver'); ap.add_argument('--programs', type=int, default=20); ap.add_argument('--scheds', type=int, default=10)
    ap.add_argument('--seed', type=int, default=1); ap.add_argument('--harness', default='/verif/build/h_lfrc')
    a = ap.parse_args()
    r = random.Random(a.seed)
    cases = list(FIXED) + [random_program(r) for _ in range(a.programs)]
    cases = [(cfg, [[o.strip() for o in p.split(';')] if isinstance(p, str) else p for p in prog]) for cfg, prog in cases]
    wd = X.Workdir()
    norm = normalize_statics if 'h_recl' in a.harness else None
    st = X.correspondence(a.driver, 'lfrc', a.harness, cases, wd, a.scheds, a.seed, normalize=norm)
    for cfg, prog, sched in DIRECTED:
        prog = [[o.strip() for o in p.split(';')] for p in prog]
        path = wd.write(X.case_text(cfg, prog, sched))
        same, diff, n, ist, idet = X.correspond_one(a.driver, 'lfrc', a.harness, path, normalize=norm)
        st['cases'] += 1; st['steps'] += n
        if not same: st['mismatches'].append({'case': X.case_text(cfg, prog, sched), 'step': diff[0], 'model': diff[1], 'impl': diff[2]})
        if ist != 0: st['impl_violations'].append({'case': X.case_text(cfg, prog, sched), 'status': ist, 'detail': idet})
    print('programs=%d schedules=%d (directed %d) trace_lines=%d mismatches=%d impl_violations=%d model_pcs_covered=%d' %
          (st['programs'], st['cases'], len(DIRECTED), st['steps'], len(st['mismatches']), len(st['impl_violations']), st['model_pcs_covered']))
    for m in st['mismatches'][:3]: print('MISMATCH', m)
    for m in st['impl_violations'][:3]: print('IMPL', m['status'], m['detail'])
    wd.close()
    sys.exit(1 if st['mismatches'] else 0)
