"""C17 - dynamic threads: bookkeeping is recycled; exited threads never block or leak"""
import re
import xvlib as X
from xvlib import log
from props.common import *
import props.reclcommon as rc

def harnesses(tier):
    return rc.harnesses(tier) + [('tbl', (), False, '')]
HARNESSES = harnesses('quick')
THEOREM_NOTES = {
    'scope': 'the theorems are about the record list every reclaimer shares (thread_block_list: acquire_entry / acquire_inactive_entry / activate / release_entry), for any number of threads, programs and schedules: exclusive ownership, records never removed or duplicated, number of records <= peak number of threads that were registering or registered at the same time (the stronger bounds are refuted by a concrete schedule that was replayed on the real code), reuse, solo termination of acquire in 2*records+5 steps; what each reclaimer does with its record (retire lists, hand-over at exit) is covered by the search with the C01/C02 oracles and the growth measurement',
}
ASSUMPTIONS = [
    'generations of threads are logical threads with short programs whose lifetimes are arranged by the schedule: strictly sequential generations (peak = 1 live thread) and overlapping ones',
    'bookkeeping is measured as the number of live heap blocks allocated by logical threads after the final flush (retired nodes are all reclaimed then, so what is left are thread control blocks / slot blocks); for sequential generations with identical generations it must not grow between 6 and 12 generations (3 generations are reported as warm-up)',
    'C01/C02 oracles (guarded node alive, census after the flush) stay on across record reuse',
]
def replay(sig, V, wd):
    hs = X.build_harnesses(rc.harnesses('thorough'))
    hs.update(X.build_harnesses([('tbl', (), False, '')]))
    (st, det), out = X.replay_case(hs[sig.get('harness', 'recl_hp')][0], sig['case'], wd, ('--trace',))
    print(out[-3000:]); print('REPLAY status=%d %s' % (st, det))
    return 1 if st != 0 else 0

def gen_thread(rng, K):
    ops = []
    held = False
    for _ in range(rng.randint(2, 5)):
        r = rng.random()
        if r < 0.35: ops.append('repl %d' % rng.randrange(2))
        elif r < 0.55 and K != 1: ops.append('hold %d 0' % rng.randrange(2)); held = True
        elif r < 0.7 and held: ops.append('deref 0')
        elif r < 0.8: ops.append('drop 0'); held = False
        else: ops.append('read %d' % rng.randrange(2))
    return ops

def sequential_case(rng, K, G, prog=None):
    # every generation runs the same program, so its bookkeeping needs are identical
    prog = prog or gen_thread(rng, K)
    threads = [list(prog) for _ in range(G)]
    txt = X.case_text({'cells': '2', 'slots': '3', 'flushes': '40'}, threads)
    txt += 'prefix ' + ' '.join('%d 1000000' % (t + 1) for t in range(G)) + '\n'
    return txt

def tbl_program(rng, nthreads):
    prog = []
    for _ in range(nthreads):
        ops = []
        for g in range(rng.randint(2, 4)):
            r = rng.random()
            if r < 0.55: ops += ['acq', 'rel']
            elif r < 0.85: ops += ['acqi', 'act', 'rel']
            else: ops += ['acqi', 'rel']
        if rng.random() < 0.3: ops.append('acq')   # keep the last record
        prog.append(ops)
    return prog

def run(ctx):
    rng, tier = ctx['rng'], ctx['tier']
    thorough = tier == 'thorough'
    n = 1200 if thorough else 150
    growth = {}
    # ---- the record list model (Model/TblDefs.v): trace correspondence + search with the list oracles of h_tbl
    Htbl = ctx['H'].pop('tbl')
    fixed = [[['acq', 'rel', 'acq', 'rel'], ['acq', 'rel']], [['acq'], ['acq', 'rel'], ['acq']], [['acqi', 'act', 'rel'], ['acq', 'rel', 'acqi', 'rel'], ['acq']]]
    cases = [({}, p) for p in fixed] + [({}, tbl_program(rng, 2 + k % 3)) for k in range(10 if thorough else 5)]
    st = do_correspondence(ctx, 'tbl', Htbl, cases, 12 if thorough else 6, 'thread_block_list')
    tie = tie_broken_sig(st, 'tbl')
    do_search(ctx, Htbl, [({}, tbl_program(rng, 3 + k % 2), strat, n * 2, ctx['seed'] + k, extra) for k in range(3) for strat, extra in (('random', ()), ('pct', ('--depth', '3')))], 'tbl', classify=lambda c, h, f: {'harness': 'tbl'})
    for name, H in sorted(ctx['H'].items()):
        K = rc.K_of(name)
        # ---- sequential generations: G vs 2G
        counts = {}
        worst_prog = None
        progs = [gen_thread(rng, K) for _ in range(4 if thorough else 2)]
        # every generation also holds as many guards at once as the strategy allows (dynamic strategies: more than the initial
        # block, so that every generation needs the extra slot blocks of the record it adopts)
        many = 3 if K is None else min(K, 3)
        if many >= 1 and K != 1:
            progs.append(['hold %d %d' % (i % 2, i) for i in range(many)] + ['read 0', 'repl 1'] + ['drop %d' % i for i in range(many)])
        for G in (3, 6, 12):
            worst = 0
            for prog in progs:
                txt = sequential_case(rng, K, G, prog)
                (st, det), out = X.replay_case(H, txt, ctx['wd'])
                if st != 0:
                    report_impl(ctx, st, det, txt, {'harness': name})
                m = re.search(r'FINAL threadblocks (\d+)', out)
                if m:
                    if int(m.group(1)) > worst and G == 12: worst_prog = prog
                    worst = max(worst, int(m.group(1)))
            counts[G] = worst
        growth[name] = counts
        ctx['cov']['evaluations'] = ctx['cov'].get('evaluations', 0) + 3 * len(progs)
        if counts[12] > counts[6]:
            txt = sequential_case(rng, K, 12, worst_prog)
            ctx['V'].report({'kind': 'oracle', 'detail': 'per-thread bookkeeping grows with the number of threads ever created although only one thread is alive at a time: %s live blocks after 3/6/12 sequential generations (%s)' % (counts, name), 'case': txt, 'harness': name})
        # ---- overlapping generations with the C01/C02 oracles
        jobs = []
        cfg = {'cells': '2', 'slots': '3', 'flushes': '40'}
        for k in range(4 if thorough else 2):
            prog = [gen_thread(rng, K) for _ in range(4 + k % 3)]
            jobs.append((cfg, prog, 'random', n, ctx['seed'] + k, ()))
            jobs.append((cfg, prog, 'pct', n, ctx['seed'] + k, ('--depth', '3')))
            jobs.append((cfg, prog, 'opseq', n // 2, ctx['seed'] + k, ()))
        hold = ['hold 0 0', 'deref 0', 'deref 0'] if K != 1 else ['read 0', 'read 0']
        jobs.append((cfg, [hold, ['read 0'] * 3, ['repl 0'], ['repl 0']], 'phase3', 300, ctx['seed'], ()))
        if any(x in name for x in ('ebr', 'debra', '_g')):
            # record reuse inside ONE epoch: a reader enters its region after w epoch advances and keeps a guard; a thread exits; a new thread
            # adopts its record in the same epoch, retires the guarded node and advances the epoch as far as it can: the adopter's per-thread
            # epoch state must be re-initialised for every residue of the epoch (w sweeps the residues)
            for w in range(5):
                jobs.append((cfg, [['read 1'] * w + ['hold 0 0', 'deref 0', 'deref 0'], ['read 1'], ['repl 0', 'read 1', 'read 1', 'read 1', 'repl 1', 'read 1']], 'phase3', 24, ctx['seed'], ()))
        do_search(ctx, H, jobs, name, classify=lambda c, h, f, name=name: {'harness': name})
    ctx['cov']['bookkeeping_blocks_after_3_6_12_sequential_generations'] = growth
    return tie
