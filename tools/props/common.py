"""helpers shared by the per-property modules"""
import re, os, json
import xvlib as X
from xvlib import log

STATUS = {1: 'use-after-free', 2: 'double-free', 3: 'data-race', 4: 'deadlock', 5: 'step-limit', 6: 'crash', 7: 'oracle', 8: 'solo-bound', -1: 'no-result', -2: 'timeout'}

def report_impl(ctx, status, detail, case_txt, extra=None):
    sig = {'kind': STATUS.get(status, str(status)), 'detail': detail, 'case': case_txt}
    if extra:
        sig.update(extra)
    return ctx['V'].report(sig)

def run_corpus(ctx, harness, pid, extra=()):
    """replays every committed corpus case first; returns number of cases"""
    d = os.path.join(X.VERIF, 'corpus', pid)
    n = 0
    if os.path.isdir(d):
        for f in sorted(os.listdir(d)):
            if not f.endswith('.case'):
                continue
            txt = open(os.path.join(d, f)).read()
            (st, det), out = X.replay_case(harness, txt, ctx['wd'], extra)
            n += 1
            if st != 0:
                report_impl(ctx, st, det, txt, {'corpus': f})
    return n

def do_correspondence(ctx, model, harness, cases, per_case, label, extra_h=(), drop_alloc=False, normalize=None, classify=None):
    st = X.correspondence(ctx['driver'], model, harness, cases, ctx['wd'], per_case, ctx['seed'] * 7919 + 13, extra_h, drop_alloc, normalize)
    c = ctx['cov'].setdefault('correspondence', {})
    c[label] = {k: st[k] for k in ('cases', 'programs', 'steps', 'model_pcs_covered', 'distinct')}
    c[label]['mismatches'] = len(st['mismatches'])
    ctx['cov']['samples'] += st['samples'][:1]
    ctx['cov']['traces_validated_against_impl'] = ctx['cov'].get('traces_validated_against_impl', 0) + st['cases'] - len(st['mismatches'])
    log('correspondence[%s]: %d cases (%d programs), %d trace lines, %d mismatches, %d impl violations' % (label, st['cases'], st['programs'], st['steps'], len(st['mismatches']), len(st['impl_violations'])))
    for v in st['impl_violations'][:3]:
        extra = classify(ctx, harness, v) if classify else None
        report_impl(ctx, v['status'], v['detail'], v['case'], extra)
    return st

def do_search(ctx, harness, jobs, label, classify=None):
    findings, agg = X.search(harness, jobs, ctx['wd'])
    if jobs and len(ctx['cov']['samples']) < 3:
        ctx['cov']['samples'].append({'search_job': X.case_text(jobs[0][0], jobs[0][1]), 'strategy': jobs[0][2], 'executions_budget': jobs[0][3]})
    s = ctx['cov'].setdefault('search', {})
    s[label] = agg
    ctx['cov']['evaluations'] = ctx['cov'].get('evaluations', 0) + agg['executions']
    ctx['cov']['distinct_nontrivial'] = ctx['cov'].get('distinct_nontrivial', 0) + agg['distinct']
    log('search[%s]: %d jobs, %d executions (%d distinct schedules), %d findings%s' % (label, agg['jobs'], agg['executions'], agg['distinct'], len(findings), (' errors=%s' % agg['errors'][:2]) if agg['errors'] else ''))
    seen = set()
    for f in findings:
        key = (f['status'], re.sub(r'\d+', 'N', f['detail'])[:80])
        if key in seen:
            continue
        seen.add(key)
        extra = {'strategy': f.get('strategy')}
        if classify:
            extra.update(classify(ctx, harness, f) or {})
        report_impl(ctx, f['status'], f['detail'], f['case'], extra)
    return findings

def tie_broken_sig(st, model):
    if not st['mismatches']:
        return None
    m = st['mismatches'][0]
    return {'kind': 'correspondence', 'detail': 'model %s and implementation disagree at trace line %d: model "%s" vs implementation "%s" (%d of %d cases differ)' % (model, m['step'], m['model'], m['impl'], len(st['mismatches']), st['cases']), 'case': m['case']}
