"""program generators for vyukov_hash_map (C10, C11)"""
MODES = ['ll', 'ls', 'sl', 'ss', 'mp']
RECL_QUICK = [('HPs<6>', '_hp'), ('EBR', '_ebr')]
RECL_ALL = RECL_QUICK + [('HEs<6>', '_he'), ('NEBR', '_nebr'), ('DEBRA', '_debra'), ('QSBR', '_qsbr'), ('STAMP', '_stamp')]   # LFRC cannot hold vyukov_hash_map blocks (not default constructible through its free list)
def harnesses(tier):
    return [('vhm', ('XV_RECL=%s' % r,), False, sfx) for r, sfx in (RECL_ALL if tier == 'thorough' else RECL_QUICK)]

def vhm_program(rng, nthreads, nops, keys=(1, 2, 3, 4, 5, 6), iter_thread=None):
    prog, vv = [], 100
    for t in range(nthreads):
        ops = []
        if t == iter_thread:
            # iterator thread: contiguous iterator sections only
            for _ in range(max(1, nops // 3)):
                sec = [rng.choice(['itb', 'itf %d' % rng.choice(keys)])]
                for _ in range(rng.randint(1, 3)):
                    sec.append(rng.choice(['itn', 'itn', 'ite', 'itd']))
                sec.append('itr')
                ops += sec
        else:
            for _ in range(nops):
                k = rng.choice(keys); vv += 1
                op = rng.choice(['ins', 'ins', 'getins', 'getlazy', 'del', 'ext', 'get', 'get', 'find'])
                ops.append('%s %d %d' % (op, k, vv) if op in ('ins', 'getins', 'getlazy') else '%s %d' % (op, k))
        prog.append(ops)
    return prog

# ---------------------------------------------------------------------------------------------------------------
# one-bucket models (Model/VhmDefs.v, Model/VhmItDefs.v): trace correspondence.  The extension bucket sits at an offset
# inside the block that depends on the allocation address (it is aligned to 256 bytes, the block to 64): the offset is
# probed from the harness' own set-up trace for every case and handed to the model as cfg key xoff.
# ---------------------------------------------------------------------------------------------------------------
import re as _re, hashlib as _hashlib, concurrent.futures as _cf
import xvlib as _X

def _probe_xoff(harness, case_path):
    rc, out, err = _X.sh([harness, 'run', case_path, '--trace', '--spin', '1000000'], timeout=60)
    seen = False
    for l in out.splitlines():
        if 'ALLOC h1 ' in l: seen = True
        elif seen:
            m = _re.match(r'TRACE T0 ST h1\+(\d+) rlx 0$', l)
            if m: return int(m.group(1)) - 32
    return None

def vhm_model_program(rng, iterators=False):
    keys = [1, 2, 3, 4, 5, 6]
    init = [k for k in rng.sample(keys, 6) if rng.random() < 0.72]
    nth = 2 + (rng.random() < 0.5)
    prog = []
    for t in range(nth):
        ops = []
        if iterators and t == 0:
            for _ in range(rng.randint(1, 2)):
                ops.append(rng.choice(['itb', 'itf %d' % rng.choice(keys)]))
                for _ in range(rng.randint(1, 3)): ops.append(rng.choice(['itn', 'itd', 'ite', 'itn']))
                ops.append('itr')
        else:
            for _ in range(rng.randint(2, 4)):
                k = rng.choice(keys); op = rng.choice(['ins', 'getins', 'del', 'ext', 'get', 'get'])
                ops.append('%s %d %d' % (op, k, 10 * k) if op in ('ins', 'getins') else '%s %d' % (op, k))
        prog.append(ops)
    cfg = {'mode': 'll', 'cap': '128', 'hash': 'const', 'xoff': '0000'}
    if init: cfg['init'] = '.'.join(map(str, init))
    return cfg, prog

VHM_FIXED = [({'mode': 'll', 'cap': '128', 'hash': 'const', 'init': '1.2.3.4.5.6', 'xoff': '0000'}, [['del 5', 'ext 6', 'ins 5 50'], ['get 4', 'get 5'], ['get 6', 'del 2']]),
             ({'mode': 'll', 'cap': '128', 'hash': 'const', 'init': '1.2.3', 'xoff': '0000'}, [['ins 4 40', 'ins 5 50', 'del 4'], ['getins 4 41', 'get 5'], ['ext 1', 'get 4']])]
VHMIT_FIXED = [({'mode': 'll', 'cap': '128', 'hash': 'const', 'init': '1.2.3.4.5.6', 'xoff': '0000'}, [['itf 5', 'ite', 'itn', 'itr'], ['get 4', 'get 6'], ['get 5', 'ins 5 50']]),
               ({'mode': 'll', 'cap': '128', 'hash': 'const', 'init': '1.2.3.4', 'xoff': '0000'}, [['itb', 'itn', 'ite', 'itd', 'itr'], ['del 2', 'get 4'], ['ins 5 50']]),
               # ++ through the array into the extension chain 6 -> 5 -> 4, then erase(iterator) of an item reached from its predecessor item
               ({'mode': 'll', 'cap': '128', 'hash': 'const', 'init': '1.2.3.4.5.6', 'xoff': '0000'}, [['itb', 'itn', 'itn', 'itn', 'itn', 'ite', 'itd', 'itr'], ['get 6', 'get 4'], ['get 5']]),
               ({'mode': 'll', 'cap': '128', 'hash': 'const', 'init': '1.2.3.4.5.6', 'xoff': '0000'}, [['itf 6', 'itn', 'itn', 'ite', 'itr', 'itb', 'itn', 'itr'], ['get 6', 'get 5']])]

def vhm_correspondence(ctx, model, harness, cases, per_case, label):
    """like xvlib.correspondence, with the xoff probe per case; returns the same statistics dict"""
    wd, driver = ctx['wd'], ctx['driver']
    jobs = []; cov = 0
    for ci, (cfg, prog) in enumerate(cases):
        base = wd.write(_X.case_text(cfg, prog))
        scheds, c = _X.model_schedules(driver, model, base, per_case, ctx['seed'] * 7919 + 13 + ci)
        cov = max(cov, c)
        for s in scheds: jobs.append((cfg, prog, s))
    st = {'cases': len(jobs), 'programs': len(cases), 'steps': 0, 'mismatches': [], 'impl_violations': [], 'model_pcs_covered': cov, 'distinct': 0, 'samples': []}
    def one(job):
        cfg, prog, s = job
        p0 = wd.write(_X.case_text(cfg, prog, s))
        xo = _probe_xoff(harness, p0)
        if xo is None: return job, (False, (0, 'xoff probe failed', ''), 0, -1, 'no extension bucket initialisation found in the set-up trace'), _X.case_text(cfg, prog, s)
        cfg2 = dict(cfg, xoff='%04d' % xo)
        txt = _X.case_text(cfg2, prog, s)
        return job, _X.correspond_one(driver, model, harness, wd.write(txt)), txt
    with _cf.ThreadPoolExecutor(max_workers=_X.NPROC) as ex:
        for job, (same, diff, n, ist, idet), txt in ex.map(one, jobs):
            st['steps'] += n
            if not same: st['mismatches'].append({'case': txt, 'step': diff[0], 'model': diff[1], 'impl': diff[2]})
            if ist != 0: st['impl_violations'].append({'case': txt, 'status': ist, 'detail': idet})
            if len(st['samples']) < 2: st['samples'].append({'case': txt, 'agree': same, 'trace_lines': n})
    st['distinct'] = len(set(_hashlib.sha1(_X.case_text(c, p, s).encode()).hexdigest() for c, p, s in jobs))
    c = ctx['cov'].setdefault('correspondence', {})
    c[label] = {k: st[k] for k in ('cases', 'programs', 'steps', 'model_pcs_covered', 'distinct')}
    c[label]['mismatches'] = len(st['mismatches'])
    ctx['cov']['samples'] += st['samples'][:1]
    ctx['cov']['traces_validated_against_impl'] = ctx['cov'].get('traces_validated_against_impl', 0) + st['cases'] - len(st['mismatches'])
    _X.log('correspondence[%s]: %d cases (%d programs), %d trace lines, %d mismatches, %d impl violations' % (label, st['cases'], st['programs'], st['steps'], len(st['mismatches']), len(st['impl_violations'])))
    return st


# ---------------------------------------------------------------------------------------------------------------
# multi-bucket model with grow (Model/VhmGrowDefs.v): at most 3 keys per hash class (a grow to 128 buckets has no model step)
# ---------------------------------------------------------------------------------------------------------------
def vhmgrow_model_program(rng):
    hashm = rng.choice(['id', 'id', 'id', 'id', 'mod2', 'mod4'])
    cap = rng.choice([1, 1, 1, 1, 2, 4])
    keys = {'id': list(range(0, 9)), 'mod2': [1, 2, 3, 4, 5, 6], 'mod4': list(range(0, 9))}[hashm]
    init = [k for k in rng.sample(keys, len(keys)) if rng.random() < 0.3]
    nth = 2 + (rng.random() < 0.5)
    prog = []
    for t in range(nth):
        ops = []
        for _ in range(rng.randint(3, 6)):
            k = rng.choice(keys); op = rng.choice(['ins', 'ins', 'ins', 'ins', 'ins', 'getins', 'del', 'ext', 'get', 'get', 'get'])
            ops.append('%s %d %d' % (op, k, 10 * k + t + 1) if op in ('ins', 'getins') else '%s %d' % (op, k))
        prog.append(ops)
    cfg = {'mode': 'll', 'cap': str(cap), 'hash': hashm}
    if init: cfg['init'] = '.'.join(map(str, init))
    return cfg, prog
VHMGROW_FIXED = [
  # three grows 1->2->4->8 under concurrent readers and an eraser
  ({'mode': 'll', 'cap': '1', 'hash': 'id'}, [['ins 0 1', 'ins 8 81', 'ins 4 41', 'ins 12 121', 'ins 2 21'], ['get 0', 'get 8', 'get 4', 'get 12'], ['del 8', 'get 2', 'ext 0']]),
  # two threads find the same bucket full: one grows, the other waits on resize_lock
  ({'mode': 'll', 'cap': '1', 'hash': 'id', 'init': '1.2.3'}, [['ins 4 41', 'get 1'], ['ins 5 52', 'get 4'], ['get 3', 'del 3', 'get 3']]),
  # erase on an empty bucket / on a bucket of a replaced block, insert after remove in the same bucket
  ({'mode': 'll', 'cap': '2', 'hash': 'mod2', 'init': '1.3.5'}, [['ins 2 21', 'ins 4 41', 'ins 6 61', 'ins 3 33'], ['del 2', 'del 1', 'get 3'], ['ext 5', 'getins 1 13', 'get 6']]),
]
