"""program generators for vyukov_hash_map (C10, C11)"""
MODES = ['ll', 'ls', 'sl', 'ss', 'mp']
RECL_QUICK = [('HPs<6>', '_hp'), ('EBR', '_ebr')]
RECL_ALL = RECL_QUICK + [('HEs<6>', '_he'), ('NEBR', '_nebr'), ('DEBRA', '_debra'), ('QSBR', '_qsbr'), ('STAMP', '_stamp'), ('LFRC', '_lfrc')]
def harnesses(tier):
    return [('vhm', ('XV_RECL=%s' % r,), False, sfx) for r, sfx in (RECL_ALL if tier == 'thorough' else RECL_QUICK)]

def vhm_program(rng, nthreads, nops, keys=(1, 2, 3, 4, 5, 6), iter_thread=None):
    prog, vv = [], 100
    for t in range(nthreads):
        ops = []
        if t == iter_thread:
            # iterator thread: contiguous iterator sections only
            for _ in range(max(1, nops // 3)):
                sec = [rng.choice(['itb', 'itf %d' % rng.choice(keys)])]
                for _ in range(rng.randint(1, 3)):
                    sec.append(rng.choice(['itn', 'itn', 'ite', 'itd']))
                sec.append('itr')
                ops += sec
        else:
            for _ in range(nops):
                k = rng.choice(keys); vv += 1
                op = rng.choice(['ins', 'ins', 'getins', 'getlazy', 'del', 'ext', 'get', 'get', 'find'])
                ops.append('%s %d %d' % (op, k, vv) if op in ('ins', 'getins', 'getlazy') else '%s %d' % (op, k))
        prog.append(ops)
    return prog
