"""C13 - left_right: readers always see one consistent, fully updated instance"""
import xvlib as X
from xvlib import log
from props.common import *

HARNESSES = [('lr', (), False, '')]
ASSUMPTIONS = [
    'SC interleavings only in this check (seq_cst accesses of left_right under weak memory: C03)',
    'T = {x, y}; update functors add a constant to x then y, read functors copy x then y (each a separate scheduling step); theorems are for this family of functors',
    'std::mutex is modelled as an atomic lock/unlock step (pthread_mutex_lock/unlock are interposed by xvrt)',
]

def program(rng, nwriters, nreaders, nops):
    prog = []
    for t in range(nwriters):
        prog.append([('update %d' % rng.randint(1, 9)) if rng.random() < 0.75 else 'read' for _ in range(nops)])
    for t in range(nreaders):
        prog.append(['read'] * nops)
    rng.shuffle(prog)
    return prog

def run(ctx):
    rng, tier, H = ctx['rng'], ctx['tier'], ctx['H']['lr']
    thorough = tier == 'thorough'
    run_corpus(ctx, H, 'C13')
    cases = []
    for k in range(16 if thorough else 8):
        cases.append(({'x': '1'}, program(rng, 1 + k % 2, 1 + k % 3, 2 + k % 2)))
    st = do_correspondence(ctx, 'lr', H, cases, 12 if thorough else 6, 'left_right')
    tie = tie_broken_sig(st, 'lr')
    jobs = []
    n = 4000 if thorough else 500
    for k in range(10 if thorough else 5):
        prog = program(rng, 1 + k % 2, 1 + k % 3, 2)
        jobs.append(({'x': '1'}, prog, 'random', n, ctx['seed'] + k, ()))
        jobs.append(({'x': '1'}, prog, 'pct', n, ctx['seed'] + k, ('--depth', '3')))
        jobs.append(({'x': '1'}, prog, 'dfs', 2 * n, ctx['seed'], ('--pb', '2')))
    # back-to-back updates with a reader arriving between the switch and the version toggle
    jobs.append(({'x': '1'}, [['update 1', 'update 2', 'update 3'], ['read', 'read'], ['read']], 'dfs', 4 * n, ctx['seed'], ('--pb', '3')))
    # read() returns what the functor returns BY VALUE (copied while the reader is registered), also for a functor returning a reference
    for k in range(3):
        jobs.append(({'x': '1'}, [['update %d' % (k + 1), 'update 2'], ['readref', 'readref'], ['read', 'readref']], 'random', n, ctx['seed'] + k, ()))
    jobs.append(({'x': '1'}, [['update 1', 'update 2'], ['readref', 'readref']], 'dfs', 4 * n, ctx['seed'], ('--pb', '3')))
    jobs.append(({'x': '1', 'race': '1'}, [['update 1', 'update 2'], ['readref', 'readref']], 'random', n, ctx['seed'], ()))
    # instances constructed from an initial value (T's move constructor empties its source): both instances start identical
    for key in ('init', 'init2'):
        jobs.append(({'x': '1', key: '7'}, [['update 1', 'read', 'update 2', 'read', 'update 3', 'read']], 'opseq', 1, ctx['seed'], ()))
        jobs.append(({'x': '1', key: '7'}, [['update 1', 'update 2'], ['read', 'read', 'readref'], ['read']], 'random', n, ctx['seed'], ()))
    do_search(ctx, H, jobs, 'left_right')
    if tie and not ctx['V'].violations:
        # model and code disagree (e.g. on a memory order) and SC interleavings show no failure: look among the weak executions of C03
        wj = []
        for k in range(4):
            prog = program(rng, 1 + k % 2, 2, 3)
            wj.append(({'x': '1', 'weak': '16'}, prog, 'random', 1500, ctx['seed'] + k, ()))
            wj.append(({'x': '1', 'race': '1'}, prog, 'random', 800, ctx['seed'] + k, ()))
        do_search(ctx, H, wj, 'left_right-weak')
    return tie

def replay(sig, V, wd):
    hs = X.build_harnesses(HARNESSES)
    (st, det), out = X.replay_case(hs['lr'][0], sig['case'], wd, ('--trace',))
    print(out[-3000:])
    print('REPLAY status=%d %s' % (st, det))
    return 1 if st != 0 else 0
