"""C07 - queues own their elements: each value is moved out or destroyed exactly once"""
import xvlib as X
from xvlib import log
from props.common import *
from props.qcommon import *

RECL_QUICK = [('HPs<3>', '_hp'), ('EBR', '_ebr'), ('LFRC', '_lfrc'), ('HEs<3>', '_he')]   # _he: era-based protection (a node must be unreachable when retired)
RECL_ALL = RECL_QUICK + [('NEBR', '_nebr'), ('DEBRA', '_debra'), ('QSBR', '_qsbr'), ('STAMP', '_stamp')]
def harnesses(tier):
    return [('uq', ('XV_RECL=%s' % r,) + (('XV_NO_KF',) if r == 'LFRC' else ()), False, sfx) for r, sfx in (RECL_ALL if tier == 'thorough' else RECL_QUICK)] + [('vyu', (), False, ''), ('uq', ('XV_RECL=GC',), False, '_gc')]
PROPERTY_FILES = ['Properties_C07', 'Properties_C04_ram', 'Properties_C07_models']
HARNESSES = harnesses('quick')
ASSUMPTIONS = [
    'element kinds: Obj (non-trivial movable owning a heap token), std::unique_ptr<Tok>, raw Tok*, small int; every token is a tracked heap block: a second destruction is a double free caught by the xvrt allocator, a leak is a live token after the queue is destroyed',
    'concurrent behaviour is explored (schedule search with the census oracle); the ramalhete node destructor is proved for every node state',
]

def replay(sig, V, wd):
    hs = X.build_harnesses(harnesses('thorough'))
    (st, det), out = X.replay_case(hs[sig.get('harness', 'uq_hp')][0], sig['case'], wd, ('--trace',))
    print(out[-3000:]); print('REPLAY status=%d %s' % (st, det))
    return 1 if st != 0 else 0

def run(ctx):
    rng, tier = ctx['rng'], ctx['tier']
    thorough = tier == 'thorough'
    Hs = ctx['H']
    run_corpus(ctx, Hs['uq_hp'], 'C07')
    # corpus cases recorded on the hazard_eras harness (file name he-*.case): replayed there, and their programs re-explored
    import os
    cd = os.path.join(X.VERIF, 'corpus', 'C07')
    for f in sorted(os.listdir(cd)) if os.path.isdir(cd) else []:
        if f.startswith('he-') and f.endswith('.case') and 'uq_he' in Hs:
            txt = open(os.path.join(cd, f)).read()
            (st0, det0), _ = X.replay_case(Hs['uq_he'], txt, ctx['wd'])
            if st0 != 0:
                report_impl(ctx, st0, det0, txt, {'corpus': f, 'harness': 'uq_he'})
            cfg0, prog0, _, _ = X.parse_case_text(txt)
            do_search(ctx, Hs['uq_he'], [(cfg0, prog0, 'random', 1500, ctx['seed'] + k, ()) for k in range(2)], 'corpus:' + f[:-5], classify=lambda c, h, fd: {'harness': 'uq_he'})
    # ---- tie of the ramalhete model (its conservation / destructor theorems are part of this property's evidence)
    Hgc = Hs.pop('uq_gc')
    rcases = [({'q': 'ram', 'elem': 'ptr', 'epn': str(epn), 'retries': str(ret)}, queue_program(rng, 2 + k % 2, 3 + k)) for k, (epn, ret) in enumerate(((1, 0), (2, 1), (3, 1)))]
    st2 = do_correspondence(ctx, 'ram', Hgc, rcases, 6 if thorough else 4, 'ramalhete')
    tie = tie_broken_sig(st2, 'ram')
    n = 2000 if thorough else 250
    for name, H in sorted(Hs.items()):
        jobs = []
        if name == 'vyu':
            combos = [('vyu', 'obj', {'cap': '2'}), ('vyu', 'uptr', {'cap': '4'}), ('nikb', 'obj', {'cap': '2', 'retries': '0'}), ('nikb', 'uptr', {'cap': '3', 'retries': '2'})]
        else:
            combos = [('ms', 'obj', {}), ('ms', 'uptr', {}), ('ram', 'uptr', {'epn': '1', 'retries': '0'}), ('ram', 'uptr', {'epn': '2', 'retries': '1'}), ('ram', 'small', {'epn': '2', 'retries': '0'}),
                      ('nik', 'obj', {'epn': '1', 'retries': '0'}), ('nik', 'uptr', {'epn': '2', 'retries': '1'}), ('kfb', 'uptr', {'k': '2', 'segs': '2', 'relaxfull': '1'})]   # when 'full' may be answered is C06's business (known finding there); here: ownership
            if name != 'uq_lfrc':
                combos.append(('kf', 'uptr', {'k': '2'}))
            if not thorough:
                combos = rng.sample(combos, 5)
        for q, elem, extra in combos:
            for drain in ('0', '1'):
                cfg = dict({'q': q, 'elem': elem, 'drain': drain}, **extra)
                # several producers hitting a full node at once + destruction with elements inside
                gen = lambda: queue_program(rng, 2 + rng.randint(0, 1), 3, pushy=0.7)
                jobs.append((cfg, gen(), 'random', n, ctx['seed'], ()))
                jobs.append((cfg, gen(), 'pct', n, ctx['seed'], ('--depth', '3')))
                jobs.append((cfg, [queue_program(rng, 1, 9, pushy=0.7)[0]], 'opseq', 1, ctx['seed'], ()))
            # ownership hand-over is by release/acquire on the slot: an element (or its storage) touched by the previous owner after
            # the hand-over shows up as a conflicting plain access without happens-before (the scheduler cannot preempt between an
            # atomic store and the plain accesses that follow it, the race detector sees them regardless of the interleaving)
            jobs.append((dict({'q': q, 'elem': elem, 'drain': '1', 'race': '1'}, **extra), queue_program(rng, 3, 3, pushy=0.6), 'random', n // 2, ctx['seed'] + 3, ()))
        do_search(ctx, H, jobs, name, classify=lambda c, h, f, name=name: {'harness': name})
    return tie
