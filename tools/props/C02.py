"""C02 - retired objects are destroyed exactly once by their own deleter, never leaked"""
import xvlib as X
from xvlib import log
from props.common import *
import props.reclcommon as rc

PROPERTY_FILES = ['Properties_C01_ebr', 'Properties_C01_hp', 'Properties_C01_qsbr', 'Properties_C01_lfrc', 'Properties_C01_he', 'Properties_C01_gebr', 'Properties_C01_stamp']
THEOREM_NOTES = {
    'scope': 'the theorems are about a step-level model of epoch_based<> (generic_epoch_based with its default traits: critical-region entry/exit, global epoch update scanning the thread block list, three retire lists, orphan hand-over at thread exit and adoption, guard_ptr acquire/reset/reclaim) driven by the generic client of harness/h_recl.cpp, for any number of threads, cells, guard slots, programs and schedules: a guarded node is never freed and no dereference hits a destroyed node (C01), the epoch window argument, a retired node is in exactly one place and freed at most once also across thread exit (C02), and seven solo flush operations free everything at quiescence. Tied to the code by trace correspondence (harness/h_ebr.cpp). and of hazard_pointer<static_strategy<3>> (record list, slot free list, acquire with publish + fence + re-validation, retire, scan with adoption of abandoned nodes, thread exit): a node protected by a validated guard is in a hazard slot and never freed, exactly-once bookkeeping across thread exit, and (partial: from the start of the scan) the flush frees everything at quiescence; tied by trace correspondence (harness/h_hp.cpp); and of quiescent_state_based (regions, quiescent states, epoch advance, orphans with their target epoch, thread exit with the repaired target computation): guarded nodes never freed, the epoch window, an orphan created at epoch g is freed only at g+2 (the wrong target g+1 is refuted), exactly-once across orphan hand-over, four solo flush operations free everything when every other record is released (with an idle registered thread nothing is freed: refuted as stated, that is the documented QSBR behaviour); tied by trace correspondence (harness/h_qsbr.cpp). acquire_if_equal, guard copies / moves, the dynamic strategy and the other reclaimers (hazard_eras, NEBR/DEBRA and the other generic_epoch_based configurations, stamp_it, LFRC) are covered by the search only',
}
def harnesses(tier):
    # _gt0: abandon::when_exceeds_threshold<0> (repaired crash 8874b53) is part of the quick tier
    return rc.harnesses(tier) + ([] if tier == 'thorough' else rc.harnesses('thorough', only=['_gt0'])) + rc.MODEL_HARNESSES + rc.gebr_harnesses(tier)
HARNESSES = harnesses('quick')
ASSUMPTIONS = [
    'SC interleavings only; census at the quiescent end of every history after a public-API flush (unlink+retire everything, then 40 rounds of region enter/leave and retire on a fresh thread): every node destroyed exactly once, by the deleter instance passed for it (LFRC: std::default_delete by design)',
]
def replay(sig, V, wd):
    hs = X.build_harnesses(rc.harnesses('thorough'))
    (st, det), out = X.replay_case(hs[sig.get('harness', 'recl_hp')][0], sig['case'], wd, ('--trace',))
    print(out[-3000:]); print('REPLAY status=%d %s' % (st, det))
    return 1 if st != 0 else 0

def run(ctx):
    rng, tier = ctx['rng'], ctx['tier']
    thorough = tier == 'thorough'
    n = 1500 if thorough else 200
    tie = rc.model_ties(ctx, do_correspondence, tie_broken_sig)
    for name, H in sorted(ctx['H'].items()):
        K = rc.K_of(name)
        mh = 0 if K == 1 else ((K - 1) if K else None)
        jobs = []
        for k in range(3 if thorough else 2):
            cfg = {'cells': '2', 'slots': '3', 'flushes': '40'}
            # threads retire and exit at arbitrary operation boundaries: short programs of different length, several "generations"
            def gen():
                nt = 3 + rng.randint(0, 2 if thorough else 1)
                return [rc.client_program(rng, 1, rng.randint(1, 4), cells=2, slots=3, maxheld=mh, guard_ops=False)[0] for _ in range(nt)]
            jobs.append((cfg, gen(), 'random', n, ctx['seed'] + k, ()))
            jobs.append((cfg, gen(), 'pct', n, ctx['seed'] + k, ('--depth', '3')))
            jobs.append((cfg, gen(), 'opseq', n // 2, ctx['seed'] + k, ()))
        jobs.append(({'cells': '1', 'slots': '3', 'flushes': '40'}, [['repl 0', 'repl 0'], ['repl 0'], ['hold 0 0', 'repl 0'] if K != 1 else ['read 0', 'repl 0']], 'dfs', 2 * n, ctx['seed'], ('--pb', '2')))
        tcfg = {'cells': '1', 'slots': '3', 'flushes': '40'}
        for prog in ([['read 0'] * 3, ['read 0'] * 4, ['repl 0']], [['read 0', 'repl 0'], ['repl 0', 'repl 0'], ['repl 0']]):
            jobs.append((tcfg, prog, 'phase3', 400, ctx['seed'], ()))
            jobs.append((tcfg, prog, 'pct', 2 * n, ctx['seed'], ('--depth', '3')))
        do_search(ctx, H, jobs, name, classify=lambda c, h, f, name=name: {'harness': name})
    return tie
