"""C02 - retired objects are destroyed exactly once by their own deleter, never leaked"""
import xvlib as X
from xvlib import log
from props.common import *
import props.reclcommon as rc

LEVEL = 'exploration'
def harnesses(tier):
    return rc.harnesses(tier)
HARNESSES = harnesses('quick')
ASSUMPTIONS = [
    'SC interleavings only; census at the quiescent end of every history after a public-API flush (unlink+retire everything, then 40 rounds of region enter/leave and retire on a fresh thread): every node destroyed exactly once, by the deleter instance passed for it (LFRC: std::default_delete by design)',
]
def replay(sig, V, wd):
    hs = X.build_harnesses(rc.harnesses('thorough'))
    (st, det), out = X.replay_case(hs[sig.get('harness', 'recl_hp')][0], sig['case'], wd, ('--trace',))
    print(out[-3000:]); print('REPLAY status=%d %s' % (st, det))
    return 1 if st != 0 else 0

def run(ctx):
    rng, tier = ctx['rng'], ctx['tier']
    thorough = tier == 'thorough'
    n = 1500 if thorough else 200
    for name, H in sorted(ctx['H'].items()):
        K = rc.K_of(name)
        mh = 0 if K == 1 else ((K - 1) if K else None)
        jobs = []
        for k in range(3 if thorough else 2):
            cfg = {'cells': '2', 'slots': '3', 'flushes': '40'}
            # threads retire and exit at arbitrary operation boundaries: short programs of different length, several "generations"
            def gen():
                nt = 3 + rng.randint(0, 2 if thorough else 1)
                return [rc.client_program(rng, 1, rng.randint(1, 4), cells=2, slots=3, maxheld=mh, guard_ops=False)[0] for _ in range(nt)]
            jobs.append((cfg, gen(), 'random', n, ctx['seed'] + k, ()))
            jobs.append((cfg, gen(), 'pct', n, ctx['seed'] + k, ('--depth', '3')))
            jobs.append((cfg, gen(), 'opseq', n // 2, ctx['seed'] + k, ()))
        jobs.append(({'cells': '1', 'slots': '3', 'flushes': '40'}, [['repl 0', 'repl 0'], ['repl 0'], ['hold 0 0', 'repl 0'] if K != 1 else ['read 0', 'repl 0']], 'dfs', 2 * n, ctx['seed'], ('--pb', '2')))
        tcfg = {'cells': '1', 'slots': '3', 'flushes': '40'}
        for prog in ([['read 0'] * 3, ['read 0'] * 4, ['repl 0']], [['read 0', 'repl 0'], ['repl 0', 'repl 0'], ['repl 0']]):
            jobs.append((tcfg, prog, 'phase3', 400, ctx['seed'], ()))
            jobs.append((tcfg, prog, 'pct', 2 * n, ctx['seed'], ('--depth', '3')))
        do_search(ctx, H, jobs, name, classify=lambda c, h, f, name=name: {'harness': name})
    return None
