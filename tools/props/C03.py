"""C03 - correct under the C++ memory model: race-free, robust to weak executions"""
import os, json
import xvlib as X
from xvlib import log
from props.common import *
from props.qcommon import queue_program
import props.reclcommon as rc
from props.hmcommon import hm_program
from props.vhmcommon import vhm_program
from props import C14 as c14, C13 as c13, C12 as c12

def harnesses(tier):
    hs = [('chase', (), False, ''), ('seqlock', (), False, ''), ('lr', (), False, ''), ('vyu', (), False, ''),
          ('uq', ('XV_RECL=GC',), False, '_gc'), ('uq', ('XV_RECL=HPs<3>',), False, '_hp'), ('uq', ('XV_RECL=EBR',), False, '_ebr'),
          ('hm', ('XV_RECL=GC',), False, '_gc'), ('hm', ('XV_RECL=HPs<6>',), False, '_hp'),
          ('vhm', ('XV_RECL=GC',), False, '_gc'), ('vhm', ('XV_RECL=EBR',), False, '_ebr'),
          # TSan build variant (TSAN_MEMORY_ORDER picks the stronger orders, fences stay): same code paths, other orders
          ('uq', ('XV_RECL=HPs<3>',), True, '_hp_tsan'), ('seqlock', (), True, '_tsan')]
    hs += rc.harnesses('thorough', only=['_hp', '_ebr', '_qsbr', '_stamp', '_lfrc', '_he', '_hpd', '_hed'] if tier != 'thorough' else None)
    if tier == 'thorough':
        hs += [('uq', ('XV_RECL=STAMP',), False, '_stamp'), ('uq', ('XV_RECL=QSBR',), False, '_qsbr'), ('hm', ('XV_RECL=EBR',), False, '_ebr'), ('recl', ('XV_RECL=EBR',), True, '_ebr_tsan')]
    return hs
HARNESSES = harnesses('quick')
PROPERTY_FILES = ['Properties_C03', 'Properties_C03_vyukov_src', 'Properties_C03_seqlock_src', 'Properties_C03_seqlock_slots_src', 'Properties_C03_seqlock', 'Properties_C03_seqlock_slots']
THEOREM_NOTES = {
    'scope': 'proved: (a) the generated synchronisation-annotation table is consistent (every annotated site at least as strong as annotated, every pair release->acquire or sc<->sc); (b) the meta-theory of the weak machine; (c) for seqlock - the structure whose correctness rests on fences - load atomicity, update on the latest generation and writer exclusion on EVERY execution of the weak machine, for any number of threads, words and slots, instantiated with the memory orders generated from seqlock.hpp (orders_ok gen_orders by computation), with machine-checked counter-example executions for each weakened site. For all other containers and the reclaimers robustness under weak executions and race freedom are explored on the real code, not proved',
}
COMPUTED_OBLIGATIONS = ['table_ok (227 annotated sites, computed by vm_compute)']
ASSUMPTIONS = [
    'weak executions are those of a view-based release/acquire + fences + seq_cst machine (WM/View.v; the same machine is implemented by rt/xvrt in --weak mode): modification order = execution order, no load buffering, a load may read any message not older than the thread view of the location and not overwritten more than W scheduling steps ago (W = 16 in the quick tier, 64 in the thorough tier)',
    'happens-before for the race check follows the C++ rules (release/acquire on a message, release sequences, fence synchronisation through a message, mutex); seq_cst fences and accesses do not create happens-before by themselves',
    'in weak mode operations are ordered by happens-before instead of wall-clock time in every linearizability check',
    'the sync table is a static obligation about the annotated contract (every annotated site at least as strong as its comment, every pair release-class -> acquire-class, TSan variant included); whole-algorithm race freedom under the weak machine is explored, not proved',
]
def replay(sig, V, wd):
    hs = X.build_harnesses(harnesses('thorough'))
    extra = ('--trace', '--weak', str(sig.get('W', 16))) if sig.get('mode') == 'weak' else ('--trace', '--race')
    (st, det), out = X.replay_case(hs[sig.get('harness', 'chase')][0], sig['case'], wd, extra)
    print(out[-3000:]); print('REPLAY status=%d %s' % (st, det))
    return 1 if st != 0 else 0

def run(ctx):
    rng, tier, Hs = ctx['rng'], ctx['tier'], ctx['H']
    thorough = tier == 'thorough'
    n = 1200 if thorough else 150
    W = '64' if thorough else '16'
    meta = os.path.join(X.COQ, 'gen', 'SyncTable.meta.json')
    if os.path.exists(meta):
        sites = json.load(open(meta))
        ctx['cov']['sync_table'] = {'sites': len(sites), 'files': len(set(s['file'] for s in sites)), 'pairs': sum(len(s['targets']) for s in sites)}
        ctx['cov']['samples'].append({'sync_site': {k: sites[0][k] for k in ('file', 'num', 'line', 'claim', 'succ', 'text')}})
    # ---- corpus first: every committed case is replayed on its schedule and its program is re-explored
    cd = os.path.join(X.VERIF, 'corpus', 'C03')
    ncorp = 0
    for f in sorted(os.listdir(cd)) if os.path.isdir(cd) else []:
        if not f.endswith('.case') or '__' not in f: continue
        hname = f.split('__')[0]
        if hname not in Hs: continue
        txt = open(os.path.join(cd, f)).read()
        cfg, prog, _, _ = X.parse_case_text(txt)
        mode = 'weak' if 'weak' in cfg else 'race'
        cls = lambda c, h, fd, hname=hname, mode=mode: {'harness': hname, 'mode': mode, 'W': int(W), 'corpus': f}
        (st, det), out = X.replay_case(Hs[hname], txt, ctx['wd'])
        ncorp += 1
        if st != 0:
            report_impl(ctx, st, det, txt, cls(None, None, None))
        cfg.pop('wseed', None)
        do_search(ctx, Hs[hname], [(cfg, prog, 'random', 1500 if thorough else 500, ctx['seed'] + k, ()) for k in range(4)], 'corpus:' + f[:-5], classify=cls)
    ctx['cov']['corpus_cases'] = ncorp
    def go(name, jobs):
        js = []
        for i, (cfg, prog) in enumerate(jobs):
            js.append((dict(cfg, weak=W), prog, 'random', n, ctx['seed'] + i, ()))
            js.append((dict(cfg, weak=W), prog, 'pct', n // 2, ctx['seed'] + i, ('--depth', '3')))
            js.append((dict(cfg, race='1'), prog, 'random', n // 2, ctx['seed'] + i, ()))
        do_search(ctx, Hs[name], js, name, classify=lambda c, h, f, name=name: {'harness': name, 'mode': 'weak' if 'weak=' in f['case'] else 'race', 'W': int(W)})
    go('chase', [({'container': c, 'capacity': '4'}, c12.conc_program(rng, 2, 5, 3, 1)) for c in ('growing', 'fixed')])
    # the pop/steal handshake (Dekker pattern on bottom/top): two items, owner pops while one or two thieves steal
    go('chase', [({'container': 'fixed', 'capacity': '4'}, p) for p in ([['push 1', 'push 2', 'pop', 'pop'], ['steal', 'steal']],
                                                                      [['push 1', 'push 2', 'push 3', 'pop', 'pop'], ['steal', 'steal'], ['steal']],
                                                                      [['push 1', 'pop', 'push 2', 'pop'], ['steal'], ['steal']])])
    for nm in ('seqlock', 'seqlock_tsan'):
        go(nm, [({'slots': str(s), 'size': str(sz)}, c14.program(rng, 3, 3, 1)) for s, sz in ((1, 24), (2, 24), (3, 20))])
    go('lr', [({'x': '1'}, c13.program(rng, 1 + k % 2, 2, 3)) for k in range(2)])
    go('vyu', [({'q': 'vyu', 'cap': '2', 'elem': 'obj'}, queue_program(rng, 3, 3, ('push', 'pushw'), ('pop', 'popw'))), ({'q': 'nikb', 'cap': '2', 'elem': 'obj', 'retries': '0'}, queue_program(rng, 3, 3))])
    for name in [k for k in Hs if k.startswith('uq_')]:
        jobs = [({'q': q, 'elem': e, 'epn': ep, 'retries': rt, 'k': '2', 'segs': '2'}, queue_program(rng, 3, 3)) for q, e, ep, rt in (('ms', 'obj', '2', '0'), ('ram', 'uptr', '2', '1'), ('nik', 'obj', '2', '0'), ('kfb', 'uptr', '2', '0'))]
        if 'lfrc' not in name:
            jobs.append(({'q': 'kf', 'elem': 'uptr', 'k': '2'}, queue_program(rng, 3, 3)))
        go(name, jobs)
    for name in [k for k in Hs if k.startswith('hm_')]:
        go(name, [({'c': 'set'}, hm_program(rng, 3, 3, iter_ops=True, is_map=False)), ({'c': 'map', 'buckets': '2', 'memo': '1', 'hash': 'mod2'}, hm_program(rng, 3, 3, iter_ops=True))])
    for name in [k for k in Hs if k.startswith('vhm_')]:
        go(name, [({'mode': m, 'cap': '2', 'hash': 'const'}, vhm_program(rng, 3, 3)) for m in ('ll', 'ss')])
    for name in [k for k in Hs if k.startswith('recl_')]:
        K = rc.K_of(name.replace('_tsan', ''))
        mh = 0 if K == 1 else ((K - 1) if K else None)
        go(name, [({'cells': '2', 'slots': '3', 'flushes': '40'}, rc.client_program(rng, 3, 4, maxheld=mh, guard_ops=(K is None or K >= 3))) for _ in range(2)])
        if name.endswith('_hpd') or name.endswith('_hed'):
            # dynamic strategy: a thread that needs more slots than its first block publishes additional blocks while other threads scan them
            grow = [['repl 0', 'hold 0 0', 'repl 1', 'hold 1 1', 'repl 0', 'hold 0 2', 'repl 1', 'hold 1 3', 'deref 0', 'deref 3'], ['repl 0', 'repl 1', 'repl 0'], ['repl 1', 'read 0', 'repl 1']]
            go(name, [({'cells': '2', 'slots': '4', 'flushes': '40'}, grow)])
    return None
