"""C10 - vyukov_hash_map is a linearizable map, including lock-free reads and resizing"""
import xvlib as X
from xvlib import log
from props.common import *
from props.vhmcommon import *

_base_harnesses = harnesses
def harnesses(tier):
    return _base_harnesses(tier) + [('vhm', ('XV_RECL=GC',), False, '_gc')]
HARNESSES = harnesses('quick')
PROPERTY_FILES = ['Properties_C10_vhm', 'Properties_C10_vhmgrow', 'Properties_C10']
THEOREM_NOTES = {
    'scope': 'the theorems are about a step-level model of ONE bucket of vyukov_hash_map<long, long> (constant hash, no grow): 3 array slots + extension items with their free list and lock, bucket.state = the word GENERATED from the source (lock bit, version, item count, delete marker), emplace / get_or_emplace / erase / extract / lock-free try_get_value, for any number of threads, programs and schedules: lock discipline, structure when unlocked (abstract map = array pairs + chain pairs, keys distinct), chain and free list disjoint, the version rule (every step bumps the version or preserves what a reader may be standing on), writers linearize at the store that makes the change visible with the sequential result, and the main theorem: every completed try_get_value(k) has an instant inside the call at which the abstract map agreed with its answer (never absent for a key present throughout, never a value of another key). Hypothesis of the reader theorems: fewer than 2^27 version bumps (the 27-bit version field can wrap). Tied to the code by trace correspondence (mode ll, GC reclaimer, extension-bucket offset probed per run). Multi-bucket maps, grow, non-trivial key/value storage modes and the real reclaimers are covered by the search only',
}
ASSUMPTIONS = [
    'SC interleavings only; every explored history is checked exactly against the map specification (values included), plus a quiescent traversal and lock-free probes of every key',
    'writers spin on bucket locks: a thread whose reads see no change is descheduled until the lock word is written (xvrt spin detection)',
]
def replay(sig, V, wd):
    hs = X.build_harnesses(harnesses('thorough'))
    (st, det), out = X.replay_case(hs[sig.get('harness', 'vhm_hp')][0], sig['case'], wd, ('--trace',))
    print(out[-3000:]); print('REPLAY status=%d %s' % (st, det))
    return 1 if st != 0 else 0

def run(ctx):
    rng, tier = ctx['rng'], ctx['tier']
    thorough = tier == 'thorough'
    Hs = ctx['H']
    run_corpus(ctx, Hs['vhm_hp'], 'C10')
    # ---- tie: the one-bucket model reproduces the implementation's traces
    Hgc = Hs.pop('vhm_gc')
    cases = list(VHM_FIXED) + [vhm_model_program(rng, iterators=False) for _ in range(8 if thorough else 4)]
    st = vhm_correspondence(ctx, 'vhm', Hgc, cases, 8 if thorough else 5, 'vyukov_hash_map bucket')
    tie = tie_broken_sig(st, 'vhm')
    # erase(iterator) is a writer of the map too: the one-bucket model with iterators (C11) is tied here as well
    sti = vhm_correspondence(ctx, 'vhmit', Hgc, list(VHMIT_FIXED) + [vhm_model_program(rng, iterators=True) for _ in range(2)], 4, 'vyukov_hash_map bucket + iterators')
    tie = tie or tie_broken_sig(sti, 'vhmit')
    # ---- tie: the multi-bucket model with grow (Model/VhmGrowDefs.v; capacities 1/2/4, no extension buckets, any number of grows)
    gcases = list(VHMGROW_FIXED) + [vhmgrow_model_program(rng) for _ in range(8 if thorough else 4)]
    stg = do_correspondence(ctx, 'vhmgrow', Hgc, gcases, 8 if thorough else 5, 'vyukov_hash_map grow')
    tie = tie or tie_broken_sig(stg, 'vhmgrow')
    n = 1500 if thorough else 200
    for name, H in sorted(Hs.items()):
        jobs = []
        for mode in (MODES if thorough else rng.sample(MODES, 3)):
            for cap, hsh in [(1, 'id'), (2, 'const'), (8, 'mod2'), (64, 'const')]:
                cfg = {'mode': mode, 'cap': str(cap), 'hash': hsh}
                gen = lambda: vhm_program(rng, 2 + rng.randint(0, 1), 3)
                jobs.append((cfg, gen(), 'random', n, ctx['seed'], ()))
                jobs.append((cfg, gen(), 'pct', n, ctx['seed'], ('--depth', '3')))
                # reader vs writers moving items between array and extension list / growing
                jobs.append((dict(cfg, init='1.2.3.4.5'), [['del 2', 'ins 6 66', 'ext 1'], ['get 4', 'get 5'], ['get 6', 'get 3']], 'dfs', n, ctx['seed'], ('--pb', '2')))
                jobs.append((cfg, [vhm_program(rng, 1, 30, keys=tuple(range(1, 12)))[0]], 'opseq', 1, ctx['seed'], ()))
            # lock-free readers walking the extension chain while items of the chain (head / middle / tail) or array items backed by the
            # chain are removed: bucket with 3 array items + 3 extension items (constant hash), every position is removed by some job
            for k in range(4 if thorough else 2):
                rem = rng.sample([1, 2, 3, 4, 5, 6], 2)
                w = ['%s %d' % (rng.choice(['del', 'ext']), x) for x in rem]
                others = [x for x in (1, 2, 3, 4, 5, 6) if x not in rem]
                r1 = ['get %d' % rng.choice(others), 'get %d' % rng.choice(others)]
                r2 = ['get %d' % rng.choice(rem), 'get %d' % rng.choice(others)]
                jobs.append(({'mode': mode, 'cap': '64', 'hash': 'const', 'init': '1.2.3.4.5.6'}, [w, r1, r2], 'dfs', n, ctx['seed'] + k, ('--pb', '2')))
            jobs.append(({'mode': mode, 'cap': '64', 'hash': 'const', 'init': '1.2.3.4.5.6'}, [['ext 6', 'del 5'], ['get 4', 'get 4'], ['get 5', 'get 4']], 'dfs', n, ctx['seed'], ('--pb', '2')))
            # the version rule across an iterator: erase(iterator) of an array item backed by an extension item bumps the version twice while
            # the iterator holds the lock; the state the iterator writes back on release must not take the version backwards (a later +1
            # removal would restore the version a paused reader started with): reader paused inside its array scan across release, removal
            # that relocates its key into a scanned slot, and an insertion that reuses the vacated slot
            jobs.append(({'mode': mode, 'cap': '128', 'hash': 'const', 'init': '1.2.3.4'}, [['itf 1', 'ite', 'itr', 'del 2', 'ins 6 60'], ['get 3']], 'dfs', 5000, ctx['seed'], ('--pb', '2')))
            jobs.append(({'mode': mode, 'cap': '128', 'hash': 'const', 'init': '1.2.3.4.5'}, [['itf 2', 'ite', 'itn', 'itr', 'del 1', 'ins 6 60'], ['get 3', 'get 5']], 'dfs', 5000, ctx['seed'], ('--pb', '2')))
            # grow of a block WITH extension items: 128 buckets own 10 extension items; a bucket holding 3 + 10 keys grows on the 14th key and
            # its whole chain is re-created in the doubled block (several items landing in one new bucket, behind a full array).  const: all in
            # one bucket; mod2: two chains, merged/split by the doubled mask.  Lock-free readers run across the migration.
            init13 = '.'.join(map(str, range(1, 14)))
            jobs.append(({'mode': mode, 'cap': '128', 'hash': 'const', 'init': init13}, [['ins 14 140', 'get 13', 'del 9', 'get 4', 'ins 15 150', 'get 15', 'ext 12', 'trav']], 'opseq', 1, ctx['seed'], ()))
            jobs.append(({'mode': mode, 'cap': '128', 'hash': 'const', 'init': init13}, [['ins 14 140', 'get 14'], ['get 13', 'get 4'], ['get 7', 'get 1']], 'random', n // 2, ctx['seed'], ()))
            init20 = '.'.join(map(str, range(1, 21)))
            jobs.append(({'mode': mode, 'cap': '128', 'hash': 'mod2', 'init': init20}, [['ins 21 210', 'ins 22 220', 'ins 23 230', 'get 5', 'get 20', 'del 19', 'trav']], 'opseq', 1, ctx['seed'], ()))
            jobs.append(({'mode': mode, 'cap': '128', 'hash': 'mod2', 'init': init20}, [['ins 21 210', 'ins 23 230'], ['get 19', 'get 6'], ['ins 22 220', 'get 1']], 'random', n // 2, ctx['seed'], ()))
        do_search(ctx, H, jobs, name, classify=lambda c, h, f, name=name: {'harness': name})
    return tie
