"""C18 - hazard pointer/era slots: K available, exhaustion reported, slots reusable"""
import xvlib as X
from xvlib import log
from props.common import *
import props.reclcommon as rc

LEVEL = 'exploration'
SFX_QUICK = ['_hp', '_hp1', '_hpd', '_he']
SFX_ALL = SFX_QUICK + ['_hp2', '_he1', '_hed']
def harnesses(tier):
    return rc.harnesses('thorough', only=(SFX_ALL if tier == 'thorough' else SFX_QUICK))
HARNESSES = harnesses('quick')
ASSUMPTIONS = [
    'oracle: the harness tracks which guards of a thread protect an object; with a static strategy of K slots an acquisition (acquire, acquire_if_equal, copy) may throw bad_hazard_*_alloc only if at least K slots are held by other protecting guards; after a throw all other guards still protect (dereference oracle) and the thread continues; with the dynamic strategy nothing throws; hazard eras may share a slot between guards of the same era, so they may succeed beyond K',
]
def replay(sig, V, wd):
    hs = X.build_harnesses(rc.harnesses('thorough'))
    (st, det), out = X.replay_case(hs[sig.get('harness', 'recl_hp')][0], sig['case'], wd, ('--trace',))
    print(out[-3000:]); print('REPLAY status=%d %s' % (st, det))
    return 1 if st != 0 else 0

def slot_program(rng, n, slots, cells=2):
    ops = []
    for _ in range(n):
        r = rng.random(); k = rng.randrange(slots); j = rng.randrange(slots); c = rng.randrange(cells)
        if r < 0.30: ops.append('%s %d %d' % (rng.choice(['hold', 'hold', 'holdeq']), c, k))
        elif r < 0.45: ops.append('drop %d' % k)
        elif r < 0.60: ops.append('copy %d %d' % (k, j))
        elif r < 0.70: ops.append('move %d %d' % (k, j))
        elif r < 0.78: ops.append('swap %d %d' % (k, j))
        elif r < 0.84: ops.append('self %d' % k)
        elif r < 0.90: ops.append('deref %d' % k)
        elif r < 0.95: ops.append('repl %d' % c)
        else: ops.append('read %d' % c)
    return ops

def run(ctx):
    rng, tier = ctx['rng'], ctx['tier']
    thorough = tier == 'thorough'
    n = 600 if thorough else 120
    import os
    for name, H in sorted(ctx['H'].items()):
        K = rc.K_of(name)
        jobs = []
        d = os.path.join(X.VERIF, 'corpus', 'C18')
        for f in sorted(os.listdir(d)):
            txt = open(os.path.join(d, f)).read()
            if ('K=%s' % K) in txt.split('\n')[0] and ((f.startswith('he-') and '_he' in name) or (f.startswith('hp-') and '_hp' in name)):
                (st, det), out = X.replay_case(H, txt, ctx['wd'])
                if st != 0:
                    report_impl(ctx, st, det, txt, {'corpus': f, 'harness': name})
        slots = (K + 2) if K else 5
        cfg = {'cells': '2', 'slots': str(slots), 'flushes': '40'}
        if K is not None:
            cfg['K'] = str(K)
        else:
            cfg['K'] = '1000000'      # dynamic strategy: never throws
        # single-thread sequences (bounded random), several different ones per run; then with a second thread replacing the cells and exiting
        for k in range(n):
            jobs.append((cfg, [slot_program(rng, 14, slots)], 'opseq', 1, ctx['seed'] + k, ()))
        for k in range(6 if thorough else 3):
            jobs.append((cfg, [slot_program(rng, 8, slots), ['repl 0', 'repl 1', 'repl 0']], 'random', 150, ctx['seed'] + k, ()))
            jobs.append((cfg, [slot_program(rng, 5, slots), slot_program(rng, 5, slots)], 'opseq', 40, ctx['seed'] + k, ()))
        # the two shapes named in the property: copy-assign onto an owning guard / swap of owning and empty guards / exception in the middle of acquire
        jobs.append((cfg, [['copy 1 2', 'hold 0 0', 'deref 0', 'drop 0', 'hold 1 0', 'deref 0']], 'opseq', 1, ctx['seed'], ()))
        jobs.append((cfg, [['hold 0 0', 'copy 0 1', 'repl 0', 'holdeq 0 1', 'deref 0', 'drop 1', 'deref 0', 'drop 0', 'hold 0 1']], 'opseq', 1, ctx['seed'], ()))
        jobs.append((cfg, [['hold 0 0', 'copy 0 1', 'repl 1', 'holdeq 1 1', 'drop 1', 'deref 0', 'repl 0', 'deref 0']], 'opseq', 1, ctx['seed'], ()))
        do_search(ctx, H, jobs, name, classify=lambda c, h, f, name=name: {'harness': name})
    return None
