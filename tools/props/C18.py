"""C18 - hazard pointer/era slots: K available, exhaustion reported, slots reusable"""
import xvlib as X
from xvlib import log
from props.common import *
import props.reclcommon as rc

THEOREM_NOTES = {
    'scope': 'the theorems are about an executable model of the per-thread slot pool (free list threaded through the slots, hint, static / dynamic blocks) and of the guard_ptr operations on top of it, for hazard_pointer and hazard_eras, for every K >= 1, every number of guards and every operation sequence: invariant (free list = exactly the unheld slots, distinct slots per guard, held slot contains the guard object, a guard has a slot iff its pointer is non-null), an acquisition throws iff K slots are held by guards with non-null pointers, a throw leaves all other guards unchanged and the asking guard empty, reset / move / copy slot accounting, no leak, dynamic strategy never throws. Tie: differential run of random operation sequences on the model (vm_compute inside Coq) and on the real guard_ptrs (slot indices, protected sets, free lists compared line by line). The multi-threaded part (scans seeing the protected objects) is covered by the search',
}
SFX_QUICK = ['_hp', '_hp1', '_hpd', '_he', '_he1', '_hed']
SFX_ALL = SFX_QUICK + ['_hp2']
def harnesses(tier):
    return rc.harnesses('thorough', only=(SFX_ALL if tier == 'thorough' else SFX_QUICK))
HARNESSES = harnesses('quick')
ASSUMPTIONS = [
    'oracle: the harness tracks which guards of a thread protect an object; with a static strategy of K slots an acquisition (acquire, acquire_if_equal, copy) may throw bad_hazard_*_alloc only if at least K slots are held by other protecting guards; after a throw all other guards still protect (dereference oracle) and the thread continues; with the dynamic strategy nothing throws; hazard eras may share a slot between guards of the same era, so they may succeed beyond K',
]
def replay(sig, V, wd):
    hs = X.build_harnesses(rc.harnesses('thorough'))
    (st, det), out = X.replay_case(hs[sig.get('harness', 'recl_hp')][0], sig['case'], wd, ('--trace',))
    print(out[-3000:]); print('REPLAY status=%d %s' % (st, det))
    return 1 if st != 0 else 0

def slot_program(rng, n, slots, cells=2):
    ops = []
    for _ in range(n):
        r = rng.random(); k = rng.randrange(slots); j = rng.randrange(slots); c = rng.randrange(cells)
        if r < 0.30: ops.append('%s %d %d' % (rng.choice(['hold', 'hold', 'holdeq']), c, k))
        elif r < 0.45: ops.append('drop %d' % k)
        elif r < 0.60: ops.append('copy %d %d' % (k, j))
        elif r < 0.70: ops.append('move %d %d' % (k, j))
        elif r < 0.78: ops.append('swap %d %d' % (k, j))
        elif r < 0.84: ops.append('self %d' % k)
        elif r < 0.90: ops.append('deref %d' % k)
        elif r < 0.95: ops.append('repl %d' % c)
        else: ops.append('read %d' % c)
    return ops

def run(ctx):
    rng, tier = ctx['rng'], ctx['tier']
    thorough = tier == 'thorough'
    n = 600 if thorough else 120
    import os, sys, re
    # ---- tie: differential run model vs real guard_ptrs (hazard_pointer, hazard_eras)
    tie = None
    for he in (False, True):
        cmd = [sys.executable, os.path.join(X.VERIF, 'tools', 'hpslots_diff.py'), str(ctx['seed']), str(400 if thorough else 120)] + (['--he'] if he else [])
        drc, out, err = X.sh(cmd, timeout=1500)
        label = 'heslots' if he else 'hpslots'
        m = re.search(r'(\d+) fixed \+ (\d+) random sequences \((\d+) operations, (\d+) exhausted', out)
        ctx['cov'].setdefault('differential', {})[label] = {'rc': drc, 'sequences': (int(m.group(1)) + int(m.group(2))) if m else 0, 'operations': int(m.group(3)) if m else 0, 'exhausted_outcomes': int(m.group(4)) if m else 0}
        if m:
            ctx['cov']['evaluations'] = ctx['cov'].get('evaluations', 0) + int(m.group(1)) + int(m.group(2))
            ctx['cov']['traces_validated_against_impl'] = ctx['cov'].get('traces_validated_against_impl', 0) + int(m.group(1)) + int(m.group(2))
        log('differential[%s]: rc=%d %s' % (label, drc, (out.strip().splitlines() or ['?'])[-1][:200] if drc == 0 else out.strip()[:400]))
        if drc != 0 and tie is None:
            cm = re.search(r'case:\n(.*)', out, re.S)
            tie = {'kind': 'correspondence', 'detail': '%s: slot-pool model and the real guard_ptrs disagree: %s' % (label, out.strip()[:600]), 'case': cm.group(1)[:2000] if cm else ''}
    for name, H in sorted(ctx['H'].items()):
        K = rc.K_of(name)
        jobs = []
        d = os.path.join(X.VERIF, 'corpus', 'C18')
        for f in sorted(os.listdir(d)):
            txt = open(os.path.join(d, f)).read()
            if ('K=%s' % K) in txt.split('\n')[0] and ((f.startswith('he-') and '_he' in name) or (f.startswith('hp-') and '_hp' in name)):
                (st, det), out = X.replay_case(H, txt, ctx['wd'])
                if st != 0:
                    report_impl(ctx, st, det, txt, {'corpus': f, 'harness': name})
        slots = (K + 2) if K else 5
        cfg = {'cells': '2', 'slots': str(slots), 'flushes': '40'}
        if K is not None:
            cfg['K'] = str(K)
        else:
            cfg['K'] = '1000000'      # dynamic strategy: never throws
        # single-thread sequences (bounded random), several different ones per run; then with a second thread replacing the cells and exiting
        for k in range(n):
            jobs.append((cfg, [slot_program(rng, 14, slots)], 'opseq', 1, ctx['seed'] + k, ()))
        for k in range(6 if thorough else 3):
            jobs.append((cfg, [slot_program(rng, 8, slots), ['repl 0', 'repl 1', 'repl 0']], 'random', 150, ctx['seed'] + k, ()))
            jobs.append((cfg, [slot_program(rng, 5, slots), slot_program(rng, 5, slots)], 'opseq', 40, ctx['seed'] + k, ()))
        # the two shapes named in the property: copy-assign onto an owning guard / swap of owning and empty guards / exception in the middle of acquire
        jobs.append((cfg, [['copy 1 2', 'hold 0 0', 'deref 0', 'drop 0', 'hold 1 0', 'deref 0']], 'opseq', 1, ctx['seed'], ()))
        jobs.append((cfg, [['hold 0 0', 'copy 0 1', 'repl 0', 'holdeq 0 1', 'deref 0', 'drop 1', 'deref 0', 'drop 0', 'hold 0 1']], 'opseq', 1, ctx['seed'], ()))
        jobs.append((cfg, [['hold 0 0', 'copy 0 1', 'repl 1', 'holdeq 1 1', 'drop 1', 'deref 0', 'repl 0', 'deref 0']], 'opseq', 1, ctx['seed'], ()))
        if K is None:
            # dynamic strategy: any number of guards, all of them protecting - the pool grows block by block (second, third ... extra block),
            # every guard is taken in a different era / on a different object, everything is then retired and every guard dereferenced
            cfgd = dict(cfg, slots='14')
            for ng in (3, 5, 9, 14):
                acq = []
                for i in range(ng):
                    acq += ['repl %d' % (i % 2), 'hold %d %d' % (i % 2, i)]
                chk = ['repl 0', 'repl 1'] + ['deref %d' % i for i in range(ng)]
                jobs.append((cfgd, [acq + chk + ['drop %d' % i for i in range(0, ng, 2)] + chk[:2] + ['deref %d' % i for i in range(1, ng, 2)] + ['hold 0 0', 'repl 0', 'deref 0']], 'opseq', 1, ctx['seed'], ()))
            jobs.append((cfgd, [slot_program(rng, 30, 14)], 'opseq', 1, ctx['seed'], ()))
            jobs.append((cfgd, [slot_program(rng, 30, 14)], 'opseq', 1, ctx['seed'] + 1, ()))
        if K:
            # exhaustion in the middle of acquire_if_equal / acquire / copy on a guard that SHARES its slot (hazard eras) or owns one,
            # with the other K-1 slots held by guards of other eras: the throwing guard must end up empty, every other guard keeps protecting
            fill = []
            for i in range(K - 1):
                fill += ['repl 1', 'hold 1 %d' % (2 + i)]
            # exhaustion is reported EVERY time: all K slots held by guards of K different eras / objects, an acquisition throws, the retry in
            # the same era throws again (or, if it succeeds, protects); after releasing the oldest guard the next acquisition protects
            fillK = []
            for i in range(K):
                fillK += ['repl %d' % (i % 2), 'hold %d %d' % (i % 2, i)]
            x = K   # first guard beyond the K slots (slots = K + 2 guards exist)
            jobs.append((cfg, [fillK + ['repl 1', 'hold 1 %d' % x, 'hold 1 %d' % x, 'repl 1', 'repl 1', 'deref %d' % x, 'hold 1 %d' % x, 'repl 1', 'deref %d' % x]], 'opseq', 1, ctx['seed'], ()))
            jobs.append((cfg, [fillK + ['repl 1', 'hold 1 %d' % x, 'drop 0', 'hold 1 %d' % x, 'repl 1', 'repl 1', 'deref %d' % x] + ['deref %d' % i for i in range(1, K)]], 'opseq', 1, ctx['seed'], ()))
            jobs.append((cfg, [fillK + ['repl 0', 'holdeq 0 %d' % x, 'holdeq 0 %d' % x, 'repl 0', 'repl 0', 'deref %d' % x]], 'opseq', 1, ctx['seed'], ()))
            for acq in ('holdeq 1 1', 'hold 1 1'):
                jobs.append((cfg, [['hold 0 0', 'copy 0 1'] + fill + ['repl 1', acq, 'drop 1', 'deref 0', 'repl 0', 'deref 0', 'drop 0', 'hold 0 0', 'deref 0']], 'opseq', 1, ctx['seed'], ()))
                jobs.append((cfg, [['hold 0 0', 'copy 0 1'] + fill + ['repl 1', acq, 'copy 0 1', 'drop 1', 'deref 0', 'repl 0', 'deref 0']], 'opseq', 1, ctx['seed'], ()))
        do_search(ctx, H, jobs, name, classify=lambda c, h, f, name=name: {'harness': name})
    return tie
