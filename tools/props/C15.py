"""C15 - marked_ptr, concurrent_ptr and guard_ptr obey their smart-pointer algebra"""
import os, re, subprocess
import xvlib as X
from xvlib import log
from props.common import *
import props.reclcommon as rc

SFX_QUICK = ['_hp', '_he', '_ebr', '_qsbr', '_stamp', '_lfrc']
MARKED = [('HPs<3>', '_hp_m1'), ('HEs<3>', '_he_m1'), ('EBR', '_ebr_m1')]
MARKED_ALL = MARKED + [('HPd<1>', '_hpd_m1'), ('QSBR', '_qsbr_m1'), ('STAMP', '_stamp_m1')]
def harnesses(tier):
    # the same client with one mark bit in its concurrent_ptrs (XV_MARKBITS=1): a second thread toggles only the mark
    return [('cptr', ('XV_RECL=EBR',), False, '')] + rc.harnesses('thorough', only=None if tier == 'thorough' else SFX_QUICK) + [('recl', ('XV_RECL=%s' % a, 'XV_MARKBITS=1'), False, sfx) for a, sfx in (MARKED_ALL if tier == 'thorough' else MARKED)]
HARNESSES = harnesses('quick')
PROPERTY_FILES = ['Properties_C15', 'Properties_C15_guards']
ASSUMPTIONS = [
    'marked_ptr: the theorems are about the Gallina functions generated from marked_ptr.hpp/utils.hpp; the generated functions are additionally run against the compiled C++ on random and boundary inputs for 14 (MarkBits, MaxUpperMarkBits) instantiations in every run',
    'guard_ptr algebra: explored (bounded random guard-operation sequences on one thread for every reclaimer, plus a thread that keeps replacing the source pointer); oracles: dereference through every non-empty guard finds a live object, acquire_if_equal returns true exactly when the snapshot equals expected and leaves the guard empty otherwise, move empties the source',
    'concurrent_ptr adds one atomic operation per call (visible as one trace line per call in every trace correspondence of the container checks)',
]
INST = [(1, 16), (2, 16), (3, 16), (16, 16), (17, 16), (18, 16), (24, 16), (32, 16), (3, 1), (8, 0), (5, 2), (32, 0), (20, 8), (1, 0)]

def replay(sig, V, wd):
    hs = X.build_harnesses(harnesses('thorough'))
    (st, det), out = X.replay_case(hs[sig.get('harness', 'recl_hp')][0], sig['case'], wd, ('--trace',))
    print(out[-3000:]); print('REPLAY status=%d %s' % (st, det))
    return 1 if st != 0 else 0

def marked_ptr_differential(ctx):
    """run generated make_ptr/get/mark (vm_compute inside Coq) and the compiled C++ on the same inputs"""
    rng = ctx['rng']
    exe = os.path.join(X.BUILD, 'h_mptr')
    rc_, o, e = X.sh(['g++', '-std=c++17', '-O1', '-DNDEBUG', '-I' + X.REPO, os.path.join(X.VERIF, 'harness', 'h_mptr.cpp'), '-o', exe], timeout=300)
    if rc_ != 0:
        return {'kind': 'harness-build', 'detail': 'h_mptr does not compile against the current tree: ' + e[-500:], 'case': ''}
    cases = []
    for mb, mu in INST:
        low = mb - min(mb, mu); up = mb - low
        pmask = ((1 << (64 - mb)) - 1) << low
        for _ in range(12 if ctx['tier'] == 'quick' else 60):
            p = rng.getrandbits(64) & pmask
            if rng.random() < 0.2: p = pmask
            if rng.random() < 0.1: p = 0
            m = rng.getrandbits(40) if rng.random() < 0.5 else rng.getrandbits(mb)
            if rng.random() < 0.15: m = (1 << mb) - 1
            cases.append((mb, mu, p, m))
    inp = ''.join('%d %d %x %x\n' % c for c in cases)
    rc_, out, err = X.sh([exe], input=inp, timeout=60)
    impl = [tuple(map(int, l.split())) for l in out.strip().splitlines()]
    v = os.path.join(X.COQ, 'gen', 'MptrCases.v')
    with open(v, 'w') as f:
        f.write('From Coq Require Import NArith List. Import ListNotations.\nFrom XV Require Import Base.Word gen.MarkedPtrGen.\nLocal Open Scope N_scope.\n')
        f.write('Definition cases : list (N * N * N * N) := [\n' + ';\n'.join('(%d, %d, %d, %d)' % c for c in cases) + '].\n')
        f.write('Definition out := map (fun c => let \'(mb, mu, p, m) := c in let w := make_ptr mb mu p m in (get mb mu w, mark mb mu w, w)) cases.\n')
        f.write('Eval vm_compute in out.\n')
    rc_, out, err = X.sh(['coqc', '-Q', '.', 'XV', 'gen/MptrCases.v'], cwd=X.COQ, timeout=300)
    os.remove(v)
    for ext in ('.vo', '.glob', '.vok', '.vos'):
        try: os.remove(v[:-2] + ext)
        except OSError: pass
    nums = list(map(int, re.findall(r'\d+', out.split(':')[0].replace('=', ' ', 1))))
    model = [tuple(nums[i:i + 3]) for i in range(0, len(nums) - len(nums) % 3, 3)]
    ctx['cov'].setdefault('correspondence', {})['marked_ptr'] = {'cases': len(cases), 'instantiations': len(INST), 'mismatches': 0}
    ctx['cov']['samples'].append({'marked_ptr_case': '%d %d %x %x' % cases[0], 'impl': impl[0] if impl else None, 'model': model[0] if model else None})
    if len(model) != len(cases) or len(impl) != len(cases):
        return {'kind': 'correspondence', 'detail': 'marked_ptr differential run is incomplete: %d cases, %d model results, %d implementation results (%s)' % (len(cases), len(model), len(impl), (err or out)[-300:]), 'case': ''}
    bad = [(c, mo, im) for c, mo, im in zip(cases, model, impl) if mo != im]
    ctx['cov']['correspondence']['marked_ptr']['mismatches'] = len(bad)
    ctx['cov']['traces_validated_against_impl'] = ctx['cov'].get('traces_validated_against_impl', 0) + len(cases) - len(bad)
    log('marked_ptr differential: %d cases, %d mismatches' % (len(cases), len(bad)))
    if bad:
        c, mo, im = bad[0]
        # a concrete failing input: does the implementation itself violate the round trip?
        mb, mu, p, m = c
        if im[0] != p or im[1] != (m & ((1 << mb) - 1)):
            ctx['V'].report({'kind': 'oracle', 'detail': 'marked_ptr<%d,%d>: make(p=%#x, mark=%#x) gives get()=%#x mark()=%#x' % (mb, mu, p, m, im[0], im[1]), 'case': 'h_mptr: %d %d %x %x' % c})
            return None
        return {'kind': 'correspondence', 'detail': 'generated marked_ptr model and compiled code differ on MarkBits=%d MaxUpper=%d p=%#x m=%#x: model %s, implementation %s' % (mb, mu, p, m, mo, im), 'case': '%d %d %x %x' % c}
    return None

def guard_program(rng, n, slots=3, cells=2):
    ops = []
    for _ in range(n):
        r = rng.random(); k = rng.randrange(slots); j = rng.randrange(slots); c = rng.randrange(cells)
        if r < 0.20: ops.append('%s %d %d' % (rng.choice(['hold', 'holdeq']), c, k))
        elif r < 0.26: ops.append('%s %d' % (rng.choice(['repl', 'repl', 'clear']), c))   # the thread itself unlinks and retires (and scans) what a guard may hold
        elif r < 0.32: ops.append('drop %d' % k)
        elif r < 0.46: ops.append('copy %d %d' % (k, j))
        elif r < 0.58: ops.append('move %d %d' % (k, j))
        elif r < 0.68: ops.append('swap %d %d' % (k, j))
        elif r < 0.74: ops.append('self %d' % k)
        elif r < 0.80: ops.append('cctor %d' % k)
        elif r < 0.86: ops.append('mctor %d' % k)
        elif r < 0.94: ops.append('deref %d' % k)
        else: ops.append('readeq %d' % c)
    return ops

def run(ctx):
    rng, tier = ctx['rng'], ctx['tier']
    thorough = tier == 'thorough'
    tie = marked_ptr_differential(ctx)
    # guard algebra theorems (Properties_C15_guards.v) are about the guard / slot models: differential run against the real guard_ptrs
    # (random sequences of acquire / acquire_if_equal / reset / copy / move / swap; slot indices, protected sets, free lists compared)
    import sys
    for he in (False, True):
        cmd = [sys.executable, os.path.join(X.VERIF, 'tools', 'hpslots_diff.py'), str(ctx['seed'] + 100), str(200 if ctx['tier'] == 'thorough' else 60)] + (['--he'] if he else [])
        drc, out, err = X.sh(cmd, timeout=1500)
        label = 'guards-he' if he else 'guards-hp'
        m = re.search(r'(\d+) fixed \+ (\d+) random sequences \((\d+) operations', out)
        ctx['cov'].setdefault('differential', {})[label] = {'rc': drc, 'sequences': (int(m.group(1)) + int(m.group(2))) if m else 0, 'operations': int(m.group(3)) if m else 0}
        if m:
            ctx['cov']['evaluations'] = ctx['cov'].get('evaluations', 0) + int(m.group(1)) + int(m.group(2))
            ctx['cov']['traces_validated_against_impl'] = ctx['cov'].get('traces_validated_against_impl', 0) + int(m.group(1)) + int(m.group(2))
        log('differential[%s]: rc=%d %s' % (label, drc, (out.strip().splitlines() or ['?'])[-1][:200] if drc == 0 else out.strip()[:400]))
        if drc != 0 and tie is None:
            cm = re.search(r'case:\n(.*)', out, re.S)
            tie = {'kind': 'correspondence', 'detail': '%s: guard / slot model and the real guard_ptrs disagree: %s' % (label, out.strip()[:600]), 'case': cm.group(1)[:2000] if cm else ''}
    # concurrent_ptr conformance: every operation with every memory order (pair) on a concurrent_ptr and on a std::atomic<marked_ptr>:
    # identical atomic accesses (kind, orders, values) and identical results
    Hc = ctx['H'].pop('cptr')
    txt = X.case_text({'x': '1'}, [['conf']])
    (st, det), out = X.replay_case(Hc, txt, ctx['wd'], ('--trace',))
    import re as _re
    m = _re.search(r'conf -> ok:(\d+)', out)
    ctx['cov']['concurrent_ptr_conformance'] = {'status': st, 'operations_compared': int(m.group(1)) if m else 0}
    ctx['cov']['evaluations'] = ctx['cov'].get('evaluations', 0) + (int(m.group(1)) if m else 0)
    log('concurrent_ptr conformance: status=%d %s' % (st, m.group(0) if m else det))
    if st != 0:
        report_impl(ctx, st, det, txt, {'harness': 'cptr'})
    elif not m:
        report_impl(ctx, 7, 'concurrent_ptr conformance run produced no result', txt, {'harness': 'cptr'})
    n = 400 if thorough else 60
    for name, H in sorted(ctx['H'].items()):
        if name.endswith('_m1'):
            # marked pointers: acquire_if_equal must return true only when the WHOLE marked_ptr (pointer and mark) it leaves in the
            # guard equals `expected`; a thread that flips only the mark between the two loads of acquire_if_equal must make it fail
            cfg = {'cells': '2', 'slots': '3', 'flushes': '40'}
            jobs = []
            for prog in ([['readeq 0', 'readeq 0', 'holdeq 0 0', 'deref 0'], ['mark 0', 'mark 0', 'mark 0']],
                         [['holdeq 0 0', 'deref 0', 'holdeq 0 1', 'deref 1', 'readeq 1'], ['mark 0', 'repl 1', 'mark 1', 'mark 0']],
                         [['hold 0 0', 'holdeq 0 1', 'deref 1', 'readeq 0'], ['mark 0'], ['mark 0', 'repl 0']]):
                jobs.append((cfg, prog, 'dfs', 800 if thorough else 300, ctx['seed'], ('--pb', '2')))
                jobs.append((cfg, prog, 'prefix', 60, ctx['seed'], ()))
                jobs.append((cfg, prog, 'random', 400 if thorough else 150, ctx['seed'], ()))
            # guards on a MARKED NULL pointer (nullptr with a mark): constructed, copied, moved and destroyed next to a guard that protects a
            # real object - their bookkeeping (critical-region nesting, slots) must stay balanced, the other guard keeps protecting
            for mk in (['cctor 0'], ['copy 0 2', 'drop 2'], ['mctor 0'], ['move 0 2', 'drop 2'], ['self 0'], ['swap 0 2', 'drop 2', 'drop 0']):
                jobs.append((cfg, [['clear 0', 'mark 0', 'hold 1 1', 'hold 0 0'] + mk + ['drop 0'] + ['repl 1'] * 8 + ['deref 1', 'hold 1 1'] + ['repl 1'] * 8 + ['deref 1']], 'opseq', 1, ctx['seed'], ()))
                jobs.append((cfg, [['clear 0', 'mark 0', 'hold 1 1', 'hold 0 0'] + mk + ['drop 0', 'deref 1', 'deref 1'], ['repl 1'] * 8], 'prefix', 80, ctx['seed'], ()))
            do_search(ctx, H, jobs, name, classify=lambda c, h, f, name=name: {'harness': name})
            continue
        K = rc.K_of(name)
        if K is not None and K < 3:
            continue
        cfg = {'cells': '2', 'slots': '3', 'flushes': '40'}
        jobs = []
        for k in range(n):
            jobs.append((cfg, [guard_program(rng, 12)], 'opseq', 1, ctx['seed'] + k, ()))
        # transfer of protection: after copy / move / swap / self-assignment the DESTINATION protects, whatever happens to the source; the
        # object is unlinked and retired by the same thread (threshold 0: every retire scans), then reached through the surviving guard
        for a, b in ((0, 1), (1, 0), (0, 2)):
            for xfer in ('swap %d %d' % (a, b), 'swap %d %d' % (b, a), 'move %d %d' % (a, b), 'copy %d %d' % (a, b)):
                for pre in ([], ['repl 1', 'hold 1 %d' % b]):   # second guard taken in a later era / holding another object
                    prog = ['hold 0 %d' % a] + pre + (['hold 1 %d' % b] if not pre else []) + [xfer, 'drop %d' % a, 'repl 0', 'repl 1', 'deref %d' % b, 'repl 0', 'repl 1', 'deref %d' % b]
                    jobs.append((cfg, [prog], 'opseq', 1, ctx['seed'], ()))
                    prog2 = ['hold 0 %d' % a] + pre + (['hold 1 %d' % b] if not pre else []) + [xfer, 'drop %d' % b, 'repl 0', 'repl 1', 'deref %d' % a]
                    if xfer.startswith('swap') or xfer.startswith('copy'): jobs.append((cfg, [prog2], 'opseq', 1, ctx['seed'], ()))
        for k in range(6 if thorough else 3):
            # snapshot claim under a thread that keeps replacing the source pointer
            jobs.append((cfg, [guard_program(rng, 6), ['repl 0', 'repl 1', 'repl 0', 'clear 1', 'repl 1']], 'random', 300 if thorough else 120, ctx['seed'] + k, ()))
            jobs.append((cfg, [['holdeq 0 0', 'deref 0', 'hold 0 1', 'deref 1', 'readeq 0'], ['repl 0', 'repl 0']], 'dfs', 600, ctx['seed'], ('--pb', '2')))
        do_search(ctx, H, jobs, name, classify=lambda c, h, f, name=name: {'harness': name})
    return tie
