"""program generators shared by the queue properties (C04..C07)"""
def queue_program(rng, nthreads, nops, push_ops=('push',), pop_ops=('pop',), pushy=0.55, start=1):
    prog, v = [], start
    for t in range(nthreads):
        ops = []
        for _ in range(nops):
            if rng.random() < pushy:
                ops.append('%s %d' % (rng.choice(push_ops), v)); v += 1
            else:
                ops.append(rng.choice(pop_ops))
        prog.append(ops)
    return prog

def std_search_jobs(rng, cfg, seed, n, thorough, gen, strategies=('random', 'pct', 'dfs')):
    jobs = []
    prog = gen()
    if 'random' in strategies:
        jobs.append((cfg, prog, 'random', n, seed, ()))
    if 'pct' in strategies:
        jobs.append((cfg, prog, 'pct', n, seed, ('--depth', '3')))
    if 'dfs' in strategies:
        jobs.append((cfg, gen(), 'dfs', 2 * n, seed, ('--pb', '2')))
    return jobs
