"""C04 - michael_scott, ramalhete and nikolaev queues are linearizable FIFO queues"""
import re, os
import xvlib as X
from xvlib import log
from props.common import *
from props.qcommon import *

RECL_QUICK = [('GC', '_gc'), ('HPs<3>', '_hp'), ('EBR', '_ebr'), ('LFRC', '_lfrc')]
RECL_ALL = RECL_QUICK + [('HEs<3>', '_he'), ('NEBR', '_nebr'), ('DEBRA', '_debra'), ('QSBR', '_qsbr'), ('STAMP', '_stamp'), ('HPd<1>', '_hpd')]
def harnesses(tier):
    return [('uq', ('XV_RECL=%s' % r,) + (('XV_NO_KF',) if r == 'LFRC' else ()), False, sfx) for r, sfx in (RECL_ALL if tier == 'thorough' else RECL_QUICK)]
HARNESSES = harnesses('quick')
ASSUMPTIONS = [
    'SC interleavings only in this check (publication of nodes under weak memory: C03)',
    'the michael_scott model assumes a reclaimer that never reuses a node while it is referenced (this is C01); the real reclaimers are exercised by the search with a use-after-free / double-free oracle',
    'ramalhete_queue and nikolaev_queue: concurrent linearizability is explored (exact FIFO linearizability check of every explored history), not proved',
]

PROPERTY_FILES = ['Properties_C04', 'Properties_C04_ram', 'Properties_C04_nikq']
THEOREM_NOTES = {
    'scope': 'proved on step-level models tied by trace correspondence: michael_scott_queue (chain, FIFO conservation, pop value, emptiness point) and ramalhete_queue for every entries_per_node E >= 1 and pop_retries R (node chain, ticket ownership, entry life cycle null -> value -> taken, conservation g_pushed ~ g_popped ++ contents in EVERY reachable state, tickets handed out in global order without gaps, values leave in ticket order, the two emptiness exits with every filled ticket already claimed, destructor deletes exactly the filled tickets, solo termination bounds; hypothesis: no 32-bit ticket counter has wrapped); two natural but false formalisations are refuted with schedules replayed on the code (CAS order is not the leaving order; a pop may answer empty while a claimed, filled ticket exists - it is linearized after the claiming pop). nikolaev_queue, the real reclaimers, element kinds and small nodes are covered by the search with an exact FIFO linearizability oracle',
}
def replay(sig, V, wd):
    hs = X.build_harnesses(harnesses('thorough'))
    sfx = sig.get('harness', 'uq_hp')
    (st, det), out = X.replay_case(hs[sfx][0], sig['case'], wd, ('--trace',))
    print(out[-3000:]); print('REPLAY status=%d %s' % (st, det))
    return 1 if st != 0 else 0

def classify_threshold(ctx, harness, f, name):
    """pattern 'threshold-exhausted-by-delayed-poppers' (known finding, see C05): nikolaev_queue, a pushed value is not delivered
    AND at least 3*entries_per_node pop calls that answered 'empty' overlap that push in the history"""
    out = {'harness': name, 'pattern': 'other'}
    case = f.get('case', '')
    head = case.split('\n')[0]
    me = re.search(r'epn=(\d+)', head)
    if 'q=nik ' not in head + ' ' or not me or not ('lost' in f.get('detail', '') or 'not linearizable' in f.get('detail', '')):
        return out
    epn = 1
    while epn < int(me.group(1)): epn *= 2
    (st, det), txt = X.replay_case(harness, case, ctx['wd'], ())
    hist = []
    for l in txt.splitlines():
        mm = re.match(r'HIST T(\d+) (\w+)(?: (\S+))? -> (\S+) \[(\d+),(-?\d+)\]', l)
        if mm: hist.append((mm.group(2), mm.group(4), int(mm.group(5)), int(mm.group(6))))
    for nm, res, a, b in hist:
        if nm == 'push' and res == 'ok':
            n = sum(1 for n2, r2, a2, b2 in hist if n2 in ('pop', 'tpop') and r2 == 'empty' and a2 < b and b2 > a)
            if n >= 3 * epn:
                out['pattern'] = 'threshold-exhausted-by-delayed-poppers'
    return out

def run(ctx):
    rng, tier = ctx['rng'], ctx['tier']
    thorough = tier == 'thorough'
    Hs = ctx['H']
    run_corpus(ctx, Hs['uq_hp'], 'C04')
    # the recorded schedule of the known finding (GC-reclaimer harness: the schedule counts its steps)
    kf = os.path.join(X.VERIF, 'corpus', 'C04', 'nik-threshold-delayed-poppers.known')
    if os.path.exists(kf) and 'uq_gc' in Hs:
        txt = open(kf).read()
        (st0, det0), _ = X.replay_case(Hs['uq_gc'], txt, ctx['wd'])
        if st0 != 0:
            report_impl(ctx, st0, det0, txt, classify_threshold(ctx, Hs['uq_gc'], {'case': txt, 'detail': det0}, 'uq_gc'))
    # ---- correspondence: MS queue model (GC reclaimer instance)
    cases = []
    for k in range(10 if thorough else 5):
        cases.append(({'q': 'ms', 'elem': 'int'}, queue_program(rng, 2 + k % 2, 3 + k % 3)))
    st = do_correspondence(ctx, 'msq', Hs['uq_gc'], cases, 10 if thorough else 5, 'michael_scott')
    tie = tie_broken_sig(st, 'msq')
    # ---- correspondence: ramalhete_queue model (GC reclaimer instance), several node sizes / retry counts
    rcases = []
    for epn, ret in ((1, 0), (2, 1), (3, 1), (2, 0)) + (((4, 1), (11, 0), (1, 1)) if thorough else ()):
        for k in range(2):
            rcases.append(({'q': 'ram', 'elem': 'ptr', 'epn': str(epn), 'retries': str(ret)}, queue_program(rng, 2 + k % 2, 3 + k)))
    st2 = do_correspondence(ctx, 'ram', Hs['uq_gc'], rcases, 8 if thorough else 4, 'ramalhete')
    tie = tie or tie_broken_sig(st2, 'ram')
    # ---- correspondence: nikolaev_queue model (Model/NikqDefs.v: linked nodes of two SCQ rings, finalization, hand-over, retire)
    def nikq_model_program():
        epn, ret = rng.choice([(1, 0), (1, 1), (2, 0), (2, 1), (4, 0), (4, 1)])
        nth = rng.choice([2, 3, 3, 4])
        nops = rng.choice([2, 3, 4, 5]) if nth < 4 else rng.choice([2, 3])
        return ({'q': 'nik', 'elem': 'int', 'epn': str(epn), 'retries': str(ret)}, queue_program(rng, nth, nops, ('push',), ('pop', 'pop', 'tpop'), pushy=rng.choice([0.5, 0.6, 0.75])))
    e1 = {'q': 'nik', 'elem': 'int', 'epn': '1', 'retries': '0'}
    ncases = [(e1, [['push 1', 'pop', 'push 7', 'pop'], ['pop'], ['pop'], ['pop']]), (e1, [['pop', 'pop'], ['push 1', 'push 2'], ['pop']]),
              (e1, [['push 1', 'pop', 'pop', 'pop', 'pop'], ['push 2'], ['push 3']])] + [nikq_model_program() for _ in range(8 if thorough else 4)]
    st3 = do_correspondence(ctx, 'nikq', Hs['uq_gc'], ncases, 8 if thorough else 4, 'nikolaev')
    tie = tie or tie_broken_sig(st3, 'nikq')
    # ---- search: all three queues, every built reclaimer, small nodes
    n = 2500 if thorough else 300
    for name, H in sorted(Hs.items()):
        jobs = []
        for q in ('ms', 'ram', 'nik'):
            sizes = [(1, 0), (2, 1), (4, 2)] if q != 'ms' else [(0, 0)]
            if not thorough and q != 'ms':
                sizes = rng.sample(sizes, 2)
            for epn, ret in sizes:
                elem = 'int' if q in ('ms', 'nik') else 'ptr'
                cfg = {'q': q, 'elem': elem, 'epn': str(epn), 'retries': str(ret)}
                jobs += std_search_jobs(rng, cfg, ctx['seed'], n, thorough, lambda: queue_program(rng, 2 + rng.randint(0, 1), 3))
                jobs.append((cfg, [queue_program(rng, 1, 14)[0]], 'opseq', 1, ctx['seed'], ()))
        # node sizes that are not a power of two / are a multiple of the index step of ramalhete_queue (every entries_per_node > 0 is accepted)
        for epn in (3, 11):
            cfg = {'q': 'ram', 'elem': 'ptr', 'epn': str(epn), 'retries': '1' if epn == 3 else '0'}
            jobs.append((cfg, [queue_program(rng, 1, 4 * epn + 6, pushy=0.6)[0]], 'opseq', 1, ctx['seed'], ()))
            jobs.append((cfg, [['push %d' % i for i in range(1, 2 * epn + 2)] + ['pop'] * (2 * epn + 2)], 'opseq', 1, ctx['seed'], ()))
            jobs.append((cfg, queue_program(rng, 2, 2 * epn), 'random', n // 2, ctx['seed'], ()))
        # nikolaev_queue node hand-over with every index of the node in flight (entries_per_node 1): a pusher finalizes the node between a
        # popper's tail load and its catchup CAS while a stale pusher still targets the node - the finalized bit must survive catchup
        hcfg = {'q': 'nik', 'elem': 'int', 'epn': '1', 'retries': '0'}
        hprog = [['push 1', 'push 3'], ['pop', 'pop'], ['push 4'], ['pop']]
        jobs.append((hcfg, hprog, 'pct', 4000, ctx['seed'], ('--depth', '5')))
        jobs.append((hcfg, hprog, 'random', 4000, ctx['seed'], ()))
        jobs.append((hcfg, [['push 1', 'pop', 'push 3'], ['pop', 'push 4'], ['push 5', 'pop'], ['pop']], 'pct', 4000, ctx['seed'] + 1, ('--depth', '5')))
        fs = do_search(ctx, H, jobs, name, classify=lambda c, h, f, name=name: classify_threshold(c, h, f, name))
    return tie
