"""program generators for the Harris-Michael containers (C08, C09)"""
def hm_program(rng, nthreads, nops, keys=(1, 2, 3, 5, 8), iter_ops=False, is_map=True):
    upd = ['ins', 'insget', 'del', 'del', 'has', 'find'] + (['getins', 'getlazy'] if is_map else [])
    prog = []
    for t in range(nthreads):
        ops = []
        for _ in range(nops):
            if iter_ops and rng.random() < 0.5:
                r = rng.random()
                if r < 0.2: ops.append('itb')
                elif r < 0.35: ops.append('itf %d' % rng.choice(keys))
                elif r < 0.8: ops.append('itn')
                elif r < 0.9: ops.append('ite')
                else: ops.append('trav')
            else:
                ops.append('%s %d' % (rng.choice(upd), rng.choice(keys)))
        prog.append(ops)
    return prog

CONFIGS = [{'c': 'set'}, {'c': 'map', 'buckets': '1', 'memo': '0'}, {'c': 'map', 'buckets': '1', 'memo': '1', 'hash': 'const'},
           {'c': 'map', 'buckets': '2', 'memo': '1', 'hash': 'mod2'}, {'c': 'map', 'buckets': '8', 'memo': '0'}, {'c': 'map', 'buckets': '2', 'memo': '0', 'hash': 'const'},
           {'c': 'map', 'buckets': '1', 'memo': '1', 'hash': 'rev'}, {'c': 'map', 'buckets': '2', 'memo': '1', 'hash': 'rev'}]   # rev: hash order opposite to key order inside a bucket
RECL_QUICK = [('HPs<6>', '_hp'), ('EBR', '_ebr'), ('LFRC', '_lfrc')]
RECL_ALL = RECL_QUICK + [('HEs<6>', '_he'), ('NEBR', '_nebr'), ('DEBRA', '_debra'), ('QSBR', '_qsbr'), ('STAMP', '_stamp'), ('HPd<2>', '_hpd')]
def harnesses(tier):
    return [('hm', ('XV_RECL=%s' % r,), False, sfx) for r, sfx in (RECL_ALL if tier == 'thorough' else RECL_QUICK)]


# ---------------------------------------------------------------------------------------------------------------
# harris_michael_hash_map model (Model/HmmDefs.v): program generator and fixed cases for the trace correspondence
# ---------------------------------------------------------------------------------------------------------------
HMM_KEYS = [10, 15, 20, 30, 35, 41]
def hmm_model_program(rng, iterators=True):
    cfg = {'c': 'map', 'buckets': str(rng.choice([1, 2, 4])), 'memo': str(rng.choice([0, 1])),
           'hash': rng.choice(['id', 'mod2', 'rev', 'const'] if rng.random() < 0.25 else ['id', 'mod2', 'rev'])}
    nthr = rng.choice([2, 2, 3])
    mapop = lambda: '%s %d' % (rng.choice(['ins', 'ins', 'getins', 'del', 'del', 'has', 'find']), rng.choice(HMM_KEYS))
    itop = lambda: rng.choice(['itb', 'itf %d' % rng.choice(HMM_KEYS), 'itn', 'itn', 'itn', 'itd', 'ite', 'ite', 'itr'])
    prog = []; shape = rng.choice(['map', 'iter', 'mixed']) if iterators else 'map'
    for t in range(nthr):
        if shape == 'map': ops = [mapop() for _ in range(rng.randint(3, 5))]
        elif shape == 'iter' and t == 0:
            ops = ['ins %d' % k for k in rng.sample(HMM_KEYS, rng.randint(2, 4))] + [rng.choice(['itb', 'itb', 'itf %d' % rng.choice(HMM_KEYS)])] \
                  + [rng.choice(['itn', 'itn', 'itn', 'itd', 'ite']) for _ in range(rng.randint(3, 5))] + ['itr']
        elif shape == 'iter': ops = [mapop() for _ in range(rng.randint(2, 4))]
        else: ops = [(itop() if rng.random() < 0.45 else mapop()) for _ in range(rng.randint(3, 6))]
        prog.append(ops)
    return cfg, prog
HMM_FIXED = [({'c': 'map', 'buckets': '2', 'memo': '1', 'hash': 'mod2'}, [['ins 10', 'ins 20', 'ins 15', 'itf 20', 'ite', 'itd'], ['ins 30', 'del 30', 'ins 41']]),
             ({'c': 'map', 'buckets': '1', 'memo': '0', 'hash': 'id'}, [['getins 10', 'has 10'], ['getins 10', 'del 10'], ['ins 10']]),
             ({'c': 'map', 'buckets': '4', 'memo': '1', 'hash': 'rev'}, [['ins 10', 'ins 15', 'ins 20', 'ins 41', 'itb', 'itn', 'itn', 'itn', 'itn'], ['del 10', 'del 20'], ['del 15', 'ins 15']]),
             ({'c': 'map', 'buckets': '1', 'memo': '1', 'hash': 'mod2'}, [['ins 10', 'ins 15', 'ins 20', 'itb', 'itn', 'itn', 'itn'], ['del 15']])]
