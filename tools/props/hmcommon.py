"""program generators for the Harris-Michael containers (C08, C09)"""
def hm_program(rng, nthreads, nops, keys=(1, 2, 3, 5, 8), iter_ops=False, is_map=True):
    upd = ['ins', 'insget', 'del', 'del', 'has', 'find'] + (['getins', 'getlazy'] if is_map else [])
    prog = []
    for t in range(nthreads):
        ops = []
        for _ in range(nops):
            if iter_ops and rng.random() < 0.5:
                r = rng.random()
                if r < 0.2: ops.append('itb')
                elif r < 0.35: ops.append('itf %d' % rng.choice(keys))
                elif r < 0.8: ops.append('itn')
                elif r < 0.9: ops.append('ite')
                else: ops.append('trav')
            else:
                ops.append('%s %d' % (rng.choice(upd), rng.choice(keys)))
        prog.append(ops)
    return prog

CONFIGS = [{'c': 'set'}, {'c': 'map', 'buckets': '1', 'memo': '0'}, {'c': 'map', 'buckets': '1', 'memo': '1', 'hash': 'const'},
           {'c': 'map', 'buckets': '2', 'memo': '1', 'hash': 'mod2'}, {'c': 'map', 'buckets': '8', 'memo': '0'}, {'c': 'map', 'buckets': '2', 'memo': '0', 'hash': 'const'},
           {'c': 'map', 'buckets': '1', 'memo': '1', 'hash': 'rev'}, {'c': 'map', 'buckets': '2', 'memo': '1', 'hash': 'rev'}]   # rev: hash order opposite to key order inside a bucket
RECL_QUICK = [('HPs<6>', '_hp'), ('EBR', '_ebr'), ('LFRC', '_lfrc')]
RECL_ALL = RECL_QUICK + [('HEs<6>', '_he'), ('NEBR', '_nebr'), ('DEBRA', '_debra'), ('QSBR', '_qsbr'), ('STAMP', '_stamp'), ('HPd<2>', '_hpd')]
def harnesses(tier):
    return [('hm', ('XV_RECL=%s' % r,), False, sfx) for r, sfx in (RECL_ALL if tier == 'thorough' else RECL_QUICK)]
