"""C12 - chase_work_stealing_deque hands out every pushed item exactly once (DESIGN.md section 5, C12)"""
import xvlib as X
from xvlib import log
from props.common import *

HARNESSES = [('chase', (), False, '')]
ASSUMPTIONS = [
    'SC interleavings only in this check (weak-memory executions are C03)',
    'top/bottom are modelled as 64-bit wrapping counters; theorems about the index layer assume indices below 2^63 and capacity <= 2^30',
]
THEOREM_NOTES = {}

def seq_program(rng, n, cap):
    """single owner thread that also steals: advances top/bottom far beyond the capacity"""
    ops, v, size = [], 1, 0
    for _ in range(n):
        r = rng.random()
        if r < 0.55:
            ops.append('push %d' % v); v += 1; size += 1
        elif r < 0.8:
            ops.append('steal'); size = max(0, size - 1)
        else:
            ops.append('pop'); size = max(0, size - 1)
    return ops

def conc_program(rng, nthieves, nowner, nsteal, prefix_cycles):
    owner, v = [], 1
    for _ in range(prefix_cycles):   # advance indices: push/pop pairs leave the deque empty but move bottom? (pop restores) -> use push;steal by owner
        owner += ['push %d' % v, 'steal']; v += 1
    for _ in range(nowner):
        if rng.random() < 0.6:
            owner.append('push %d' % v); v += 1
        else:
            owner.append('pop')
    return [owner] + [['steal'] * nsteal for _ in range(nthieves)]

def classify(ctx, harness, f):
    """names the shape of a failing execution so that known findings are matched by what actually happens"""
    (st, det), out = X.replay_case(harness, f['case'], ctx['wd'], ('--trace',))
    lines = X.trace_lines(out)
    # a thief loaded capacity c inside try_steal, the owner published a larger capacity before the thief's CAS on top succeeded
    pending = {}   # tid -> capacity seen in the current steal
    insteal = {}
    pat = 'other'
    for l in lines:
        w = l.split()
        t = w[0]
        if w[1] == 'inv':
            insteal[t] = (w[2] == 'steal'); pending.pop(t, None)
        elif w[1] == 'LD' and w[2] == 'capacity' and w[3] == 'acq' and insteal.get(t):
            pending[t] = int(w[4])
        elif w[1] == 'ST' and w[2] == 'capacity':
            for k in list(pending):
                if k != t and int(w[4]) > pending[k]:
                    pending[k] = -1          # capacity changed under a steal in flight
        elif w[1] == 'RMW' and w[2] == 'top' and insteal.get(t) and pending.get(t) == -1:
            pat = 'steal-overlaps-grow'
    cfg = X.parse_case_text(f['case'])[0]
    return {'pattern': pat, 'container': cfg.get('container', 'growing')}

def overlap_program(cap, offset, nthieves):
    """owner fills the deque to capacity at index offset `offset`, then keeps pushing (grow); thieves steal meanwhile"""
    owner, v = [], 1
    for _ in range(offset):
        owner += ['push %d' % v, 'steal']; v += 1
    for _ in range(2 * cap + 1):
        owner.append('push %d' % v); v += 1
    return [owner] + [['steal'] for _ in range(nthieves)]

def run(ctx):
    rng, tier, H = ctx['rng'], ctx['tier'], ctx['H']['chase']
    thorough = tier == 'thorough'
    run_corpus(ctx, H, 'C12')
    cfgs = [{'container': 'growing', 'capacity': '2'}, {'container': 'growing', 'capacity': '4'}, {'container': 'fixed', 'capacity': '2'}, {'container': 'fixed', 'capacity': '4'}]
    # ---- correspondence: sequential index-advancing programs + small concurrent programs
    cases = []
    for cfg in cfgs:
        for k in range(6 if thorough else 3):
            cases.append((cfg, [seq_program(rng, 30 + 10 * k, int(cfg['capacity']))]))
        for k in range(8 if thorough else 4):
            cases.append((cfg, conc_program(rng, 1 + k % 2, 3 + k % 3, 2, rng.choice([0, 1, 3, 5]))))
    st = do_correspondence(ctx, 'chase', H, cases, 12 if thorough else 5, 'chase', classify=classify)
    tie = tie_broken_sig(st, 'chase')
    # ---- standing search on the implementation
    jobs = []
    n = 4000 if thorough else 600
    for cfg in cfgs:
        for k in range(4 if thorough else 2):
            jobs.append((cfg, [seq_program(rng, 60, int(cfg['capacity']))], 'opseq', 1, ctx['seed'] + k, ()))
        for k in range(6 if thorough else 3):
            prog = conc_program(rng, 1 + k % 3 if thorough else 1 + k % 2, 4, 2, rng.choice([0, 2, 4]))
            jobs.append((cfg, prog, 'dfs', n, ctx['seed'], ('--pb', '2')))
            jobs.append((cfg, prog, 'random', n // 2, ctx['seed'] + k, ()))
            jobs.append((cfg, prog, 'pct', n // 2, ctx['seed'] + k, ('--depth', '3')))
    for cap in (2, 4):
        for off in ((0, 2, 3) if thorough else (2,)):
            jobs.append(({'container': 'growing', 'capacity': str(cap)}, overlap_program(cap, off, 1), 'dfs', 6000 if thorough else 1500, ctx['seed'], ('--pb', '2')))
    do_search(ctx, H, jobs, 'chase', classify=classify)
    if tie and not ctx['V'].violations:
        # the model and the code disagree (e.g. on a memory order) and SC interleavings show no failure: look for a failing
        # execution among the weak executions the C++ model permits (the machine of C03)
        wj = []
        for prog in ([['push 1', 'push 2', 'pop', 'pop'], ['steal', 'steal']], [['push 1', 'push 2', 'push 3', 'pop', 'pop'], ['steal', 'steal'], ['steal']], [['push 1', 'pop', 'push 2', 'pop'], ['steal'], ['steal']]):
            for c in ('fixed', 'growing'):
                wj.append(({'container': c, 'capacity': '4', 'weak': '16'}, prog, 'random', 1500, ctx['seed'], ()))
                wj.append(({'container': c, 'capacity': '4', 'weak': '16'}, prog, 'pct', 800, ctx['seed'], ('--depth', '3')))
        do_search(ctx, H, wj, 'chase-weak', classify=classify)
    return tie

def replay(sig, V, wd):
    hs = X.build_harnesses(HARNESSES)
    (st, det), out = X.replay_case(hs['chase'][0], sig['case'], wd, ('--trace',))
    print(out[-3000:])
    print('REPLAY status=%d %s' % (st, det))
    return 1 if st != 0 else 0
