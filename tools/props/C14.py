"""C14 - seqlock::load returns exactly some stored value (DESIGN.md section 5, C14)"""
import re
import xvlib as X
from xvlib import log
from props.common import *

HARNESSES = [('seqlock', (), False, '')]
ASSUMPTIONS = [
    'SC interleavings only in this check (the fences of seqlock are covered by C03)',
    'the update functor is an arbitrary pure function in the theorems; the harness uses one family of functors (add d to the value id)',
]
SIZES = [9, 12, 16, 20, 24, 40]
SLOTS = [1, 2, 3, 4, 8]

def normalizer(size):
    """padding bytes of the last word are never part of T: mask them in both traces"""
    words = (size + 7) // 8
    stride = 8 * words
    tail = size % 8
    def norm(lines):
        if tail == 0:
            return lines
        out = []
        for l in lines:
            m = re.match(r'^(T\d+ (?:LD|ST) data(?:\+(\d+))? rlx )(\d+)$', l)
            if m:
                off = int(m.group(2) or 0)
                if off % stride == 8 * (words - 1):
                    l = m.group(1) + str(int(m.group(3)) & ((1 << (8 * tail)) - 1))
            out.append(l)
        return out
    return norm

def program(rng, nthreads, nops, readers_only_from=2):
    prog = []
    for t in range(nthreads):
        ops = []
        for _ in range(nops):
            r = rng.random()
            if t >= readers_only_from or r < 0.4:
                ops.append('load')
            elif r < 0.7:
                ops.append('store %d' % rng.randint(1, 200))
            else:
                ops.append('update %d' % rng.randint(1, 9))
        prog.append(ops)
    return prog

def run(ctx):
    rng, tier, H = ctx['rng'], ctx['tier'], ctx['H']['seqlock']
    thorough = tier == 'thorough'
    run_corpus(ctx, H, 'C14')
    tie = None
    # ---- correspondence, per size (normalisation depends on it)
    for size in SIZES:
        cases = []
        for slots in SLOTS if thorough else rng.sample(SLOTS, 3):
            cfg = {'slots': str(slots), 'size': str(size)}
            for k in range(3 if thorough else 2):
                cases.append((cfg, program(rng, 2 + k % 2, 3, 1 + k % 2)))
        st = do_correspondence(ctx, 'seqlock', H, cases, 8 if thorough else 4, 'seqlock-size%d' % size, normalize=normalizer(size))
        tie = tie or tie_broken_sig(st, 'seqlock')
    # ---- search
    jobs = []
    n = 3000 if thorough else 400
    for size in SIZES:
        for slots in SLOTS if thorough else rng.sample(SLOTS, 2):
            cfg = {'slots': str(slots), 'size': str(size)}
            prog = program(rng, 3, 3, 2)
            jobs.append((cfg, prog, 'random', n, ctx['seed'], ()))
            jobs.append((cfg, prog, 'pct', n, ctx['seed'], ('--depth', '3')))
            jobs.append((cfg, program(rng, 2, 2, 1), 'dfs', n * 2, ctx['seed'], ('--pb', '2')))
            jobs.append((cfg, [['store 7', 'load', 'update 3', 'load', 'store 9', 'load']], 'opseq', 1, ctx['seed'], ()))
    # arithmetic boundaries of the version counter: start just below 2^32 / 2^31 (ver0 = number of stores already done), every slot
    # count incl. the ones that do not divide 2^32
    for ver0 in ('4294967294', '2147483646'):
        for slots in (1, 2, 3, 4):
            cfg = {'slots': str(slots), 'size': '24', 'ver0': ver0}
            jobs.append((cfg, [['store 1', 'load', 'store 2', 'load', 'update 3', 'load', 'store 7', 'load', 'store 9', 'load']], 'opseq', 1, ctx['seed'], ()))
            jobs.append((cfg, [['store 1', 'store 2', 'update 1', 'store 5'], ['load', 'load', 'load'], ['load', 'load']], 'random', n // 2, ctx['seed'], ()))
    do_search(ctx, H, jobs, 'seqlock')
    return tie

def replay(sig, V, wd):
    hs = X.build_harnesses(HARNESSES)
    (st, det), out = X.replay_case(hs['seqlock'][0], sig['case'], wd, ('--trace',))
    print(out[-3000:])
    print('REPLAY status=%d %s' % (st, det))
    return 1 if st != 0 else 0
