"""C09 - Harris-Michael iterators stay valid and weakly consistent under updates"""
import xvlib as X
from xvlib import log
from props.common import *
from props.hmcommon import *

_base_harnesses = harnesses
def harnesses(tier):
    return _base_harnesses(tier) + [('hm', ('XV_RECL=GC',), False, '_gc'), ('hmm', ('XV_RECL=GC',), False, '_gc')]
HARNESSES = harnesses('quick')
PROPERTY_FILES = ['Properties_C09', 'Properties_C09_hmm']
THEOREM_NOTES = {
    'scope': 'the theorems are about the list model of C08 extended with the iterator operations of harris_michael_list_based_set (begin, find-as-iterator, operator++ with its retry loop, operator*, reset, erase(iterator)), one iterator per thread, over a reclaimer that never reuses a referenced node (that is where C01 is used): every node an iterator step touches is allocated and in the chain or retired; every yielded node was linked by a recorded insert and reachable when the iterator moved onto it; yielded keys never decrease and a key is yielded again only through a different node re-inserted between the two yields; a traversal from begin() (find k) that reaches end has yielded every key (> k) that was in the abstract set in every state of the traversal; erase(iterator) marks exactly the node it stands on and returns end / a greater key / a re-inserted equal key; operator++ terminates solo within 4*|chain|+8 steps. Three over-strong formalisations are refuted with schedules replayed on the code (a yielded element may already have been logically erased by a still-running erase; keys are not STRICTLY increasing across a re-insertion; the successor returned by erase may carry an equal re-inserted key): they concern the fixed linearization points of the model, not the black-box property, which only speaks about calls that have returned. harris_michael_hash_map iterators (bucket transitions), iterator copies and the real reclaimers are covered by the search only',
}
ASSUMPTIONS = [
    'SC interleavings only; iterator oracles: no access to reclaimed memory (xvrt quarantine), every yielded key was inserted, no key yielded twice in one traversal unless re-inserted, erase(iterator) linearizes as an erase of the referenced key, final traversal duplicate-free',
    'completeness (every element present throughout and ahead is yielded) is checked only in the final quiescent traversal against the linearized history',
]
def replay(sig, V, wd):
    hs = X.build_harnesses(harnesses('thorough'))
    (st, det), out = X.replay_case(hs[sig.get('harness', 'hm_hp')][0], sig['case'], wd, ('--trace',))
    print(out[-3000:]); print('REPLAY status=%d %s' % (st, det))
    return 1 if st != 0 else 0

def run(ctx):
    rng, tier = ctx['rng'], ctx['tier']
    thorough = tier == 'thorough'
    Hs = ctx['H']
    n = 2000 if thorough else 250
    run_corpus(ctx, Hs['hm_hp'], 'C09')
    # ---- tie: the list + iterator model (Model/HmlItDefs.v) reproduces the implementation's traces
    Hgc = Hs.pop('hm_gc')
    fixed = [[['ins 10', 'ins 20', 'ins 30', 'itb', 'itn', 'itn', 'itn'], ['del 20', 'ins 25']],
             [['ins 10', 'ins 30', 'itf 10', 'ite', 'itd', 'itn', 'itr'], ['ins 20', 'del 30', 'ins 30']],
             [['ins 10', 'itb', 'itd', 'itn'], ['del 10', 'ins 10'], ['ins 5', 'itf 5', 'ite']]]
    def itprog():
        t1 = ['ins %d' % k for k in rng.sample([10, 20, 30, 40], 3)] + [rng.choice(['itb', 'itf %d' % rng.choice([10, 20, 30])])] + [rng.choice(['itn', 'itn', 'itd', 'ite']) for _ in range(3)] + ['itr']
        others = [[('%s %d' % (rng.choice(['ins', 'del', 'del', 'has']), rng.choice([10, 15, 20, 30, 35]))) for _ in range(3)] for _ in range(1 + rng.randint(0, 1))]
        return [t1] + others
    cases = [({'c': 'set'}, p) for p in fixed] + [({'c': 'set'}, itprog()) for _ in range(8 if thorough else 4)]
    st = do_correspondence(ctx, 'hmlit', Hgc, cases, 10 if thorough else 6, 'harris_michael_list_iterators')
    tie = tie_broken_sig(st, 'hmlit')
    # ---- tie: the hash map model with iterators across buckets (Model/HmmDefs.v)
    Hmm = Hs.pop('hmm_gc')
    mcases = list(HMM_FIXED) + [hmm_model_program(rng) for _ in range(8 if thorough else 4)]
    stm = do_correspondence(ctx, 'hmm', Hmm, mcases, 10 if thorough else 6, 'harris_michael_hash_map_iterators')
    tie = tie or tie_broken_sig(stm, 'hmm')
    for name, H in sorted(Hs.items()):
        jobs = []
        for cfg in (CONFIGS if thorough else rng.sample(CONFIGS, 4)):
            is_map = cfg['c'] == 'map'
            # a traversing thread + 1..2 updaters; all positions at which the current element is erased / a node is inserted behind it
            trav = ['ins 10', 'ins 20', 'ins 30', 'itb', 'itn', 'itn', 'itn', 'itn']
            jobs.append((cfg, [trav, ['ins 15']], 'prefix', 60, ctx['seed'], ()))
            jobs.append((cfg, [trav, ['del 20', 'ins 20']], 'prefix', 60, ctx['seed'], ()))
            jobs.append((cfg, [trav, ['del 10', 'del 20', 'del 30']], 'dfs', n, ctx['seed'], ('--pb', '2')))
            jobs.append((cfg, [['ins 10', 'ins 20', 'ins 30', 'itf 20', 'ite', 'itn', 'itd'], ['del 20', 'ins 25', 'del 30']], 'dfs', n, ctx['seed'], ('--pb', '2')))
            gen = lambda: hm_program(rng, 2 + rng.randint(0, 1), 4, iter_ops=True, is_map=is_map)
            jobs.append((cfg, gen(), 'random', n, ctx['seed'], ()))
            jobs.append((cfg, gen(), 'pct', n, ctx['seed'], ('--depth', '3')))
            jobs.append((dict(cfg, aba='1'), gen(), 'random', n, ctx['seed'] + 1, ()))
        # the iterator returned by erase(iterator) stands on the successor: another thread erases (and, with the eager reclaimers,
        # reclaims) that successor at every point of the erase; the returned iterator is then dereferenced and advanced (always both containers)
        for cfg in ({'c': 'set'}, {'c': 'map', 'buckets': '1', 'memo': '0'}, {'c': 'map', 'buckets': '1', 'memo': '1', 'hash': 'const'}):
            jobs.append((cfg, [['ins 10', 'ins 20', 'ins 30', 'ins 40', 'itf 20', 'ite', 'itd', 'itn', 'itd'], ['del 30']], 'prefix', 300, ctx['seed'], ()))
            jobs.append((cfg, [['ins 10', 'ins 20', 'itb', 'ite', 'itd', 'itn'], ['del 20', 'ins 20']], 'prefix', 200, ctx['seed'], ()))
        # memoized hash that is not monotone in the key inside one bucket (mod2 / rev): the element the iterator stands on is erased, the
        # re-location by (hash, key) must not skip elements ahead (repaired defect 51d54d4)
        for cfg in ({'c': 'map', 'buckets': '1', 'memo': '1', 'hash': 'mod2'}, {'c': 'map', 'buckets': '1', 'memo': '1', 'hash': 'rev'}, {'c': 'map', 'buckets': '2', 'memo': '1', 'hash': 'rev'}):
            trav = ['ins 10', 'ins 15', 'ins 20', 'ins 25', 'itb', 'itn', 'itn', 'itn', 'itn']
            for upd in (['del 15'], ['del 10'], ['del 20'], ['del 25', 'del 15']):
                jobs.append((cfg, [trav, upd], 'prefix', 80, ctx['seed'], ()))
            jobs.append((cfg, [['ins 10', 'ins 15', 'ins 20', 'ins 25', 'itf 15', 'ite', 'itd', 'itn', 'itn'], ['del 15']], 'prefix', 80, ctx['seed'], ()))
        # erase(iterator) on the LAST element of a bucket taking its slow path (another thread inserted right in front of the element, erased
        # its predecessor or the element itself): the returned iterator must move on into the next non-empty bucket
        for cfg in ({'c': 'map', 'buckets': '2', 'memo': '0', 'hash': 'mod2'}, {'c': 'map', 'buckets': '2', 'memo': '1', 'hash': 'mod2'}, {'c': 'map', 'buckets': '8', 'memo': '0'}):
            for upd in (['ins 14'], ['del 10'], ['del 20'], ['ins 14', 'del 10']):
                jobs.append((cfg, [['ins 10', 'ins 20', 'ins 15', 'ins 41', 'itb', 'itn', 'ite', 'itd', 'itn', 'itn', 'itn'], upd], 'prefix', 150, ctx['seed'], ()))
        # completeness across buckets: the element the iterator stands on is erased (it is the last of its bucket), later buckets hold
        # elements that stay for the whole traversal and must still be yielded
        for cfg in ({'c': 'map', 'buckets': '8', 'memo': '0'}, {'c': 'map', 'buckets': '2', 'memo': '1', 'hash': 'mod2'}, {'c': 'set'}):
            trav = ['ins 10', 'ins 20', 'ins 30', 'ins 41', 'itb', 'itn', 'itn', 'itn', 'itn', 'itn']
            for upd in (['del 10'], ['del 20'], ['del 41', 'del 10'], ['del 30']):
                jobs.append((cfg, [trav, upd], 'prefix', 80, ctx['seed'], ()))
            jobs.append((cfg, [['ins 10', 'ins 20', 'ins 30', 'ins 41', 'trav'], ['del 20'], ['del 10']], 'dfs', n, ctx['seed'], ('--pb', '2')))
            jobs.append((cfg, [['ins 10', 'ins 20', 'ins 30', 'itb', 'del 10', 'itn', 'itn', 'itn']], 'opseq', 1, ctx['seed'], ()))
        # an iterator whose neighbourhood is rebuilt under it: the thread inserts right before / erases around the position, erases
        # through the iterator (fallback find), erases the predecessor and churns (so that scans run), then uses the iterator again,
        # while another thread erases neighbours: every node the iterator still refers to (prev, cur) must stay protected
        def neighbourhood():
            x = rng.choice([30, 40]); y = rng.choice([20, 35, 25]); z = rng.choice([10, 20, 30])
            t1 = ['ins 10', 'ins 30', 'ins 40', 'itf %d' % x, 'ins %d' % y, rng.choice(['ite', 'itn']), 'del %d' % z, 'ins 50', 'del 50', rng.choice(['ite', 'itn', 'itd']), 'itd']
            t2 = ['del %d' % rng.choice([y, 10, 30])] + (['del %d' % rng.choice([y, 20, 40])] if rng.random() < 0.5 else [])
            return [t1, t2]
        for cfg in ({'c': 'set'}, {'c': 'map', 'buckets': '1', 'memo': '0'}):
            jobs.append((cfg, [['ins 10', 'ins 30', 'ins 40', 'itf 30', 'ins 20', 'ite', 'del 10', 'ins 50', 'del 50', 'ite', 'itd'], ['del 20']], 'prefix', 400, ctx['seed'], ()))
            for k in range(6 if thorough else 3):
                prog = neighbourhood()
                jobs.append((cfg, prog, 'prefix', 400, ctx['seed'] + k, ()))
                jobs.append((cfg, prog, 'dfs', n, ctx['seed'] + k, ('--pb', '2')))
        do_search(ctx, H, jobs, name, classify=lambda c, h, f, name=name: {'harness': name})
    return tie
