"""C09 - Harris-Michael iterators stay valid and weakly consistent under updates"""
import xvlib as X
from xvlib import log
from props.common import *
from props.hmcommon import *

HARNESSES = harnesses('quick')
LEVEL = 'exploration'
ASSUMPTIONS = [
    'SC interleavings only; iterator oracles: no access to reclaimed memory (xvrt quarantine), every yielded key was inserted, no key yielded twice in one traversal unless re-inserted, erase(iterator) linearizes as an erase of the referenced key, final traversal duplicate-free',
    'completeness (every element present throughout and ahead is yielded) is checked only in the final quiescent traversal against the linearized history',
]
def replay(sig, V, wd):
    hs = X.build_harnesses(harnesses('thorough'))
    (st, det), out = X.replay_case(hs[sig.get('harness', 'hm_hp')][0], sig['case'], wd, ('--trace',))
    print(out[-3000:]); print('REPLAY status=%d %s' % (st, det))
    return 1 if st != 0 else 0

def run(ctx):
    rng, tier = ctx['rng'], ctx['tier']
    thorough = tier == 'thorough'
    Hs = ctx['H']
    n = 2000 if thorough else 250
    for name, H in sorted(Hs.items()):
        jobs = []
        for cfg in (CONFIGS if thorough else rng.sample(CONFIGS, 4)):
            is_map = cfg['c'] == 'map'
            # a traversing thread + 1..2 updaters; all positions at which the current element is erased / a node is inserted behind it
            trav = ['ins 10', 'ins 20', 'ins 30', 'itb', 'itn', 'itn', 'itn', 'itn']
            jobs.append((cfg, [trav, ['ins 15']], 'prefix', 60, ctx['seed'], ()))
            jobs.append((cfg, [trav, ['del 20', 'ins 20']], 'prefix', 60, ctx['seed'], ()))
            jobs.append((cfg, [trav, ['del 10', 'del 20', 'del 30']], 'dfs', n, ctx['seed'], ('--pb', '2')))
            jobs.append((cfg, [['ins 10', 'ins 20', 'ins 30', 'itf 20', 'ite', 'itn', 'itd'], ['del 20', 'ins 25', 'del 30']], 'dfs', n, ctx['seed'], ('--pb', '2')))
            gen = lambda: hm_program(rng, 2 + rng.randint(0, 1), 4, iter_ops=True, is_map=is_map)
            jobs.append((cfg, gen(), 'random', n, ctx['seed'], ()))
            jobs.append((cfg, gen(), 'pct', n, ctx['seed'], ('--depth', '3')))
            jobs.append((dict(cfg, aba='1'), gen(), 'random', n, ctx['seed'] + 1, ()))
        # completeness across buckets: the element the iterator stands on is erased (it is the last of its bucket), later buckets hold
        # elements that stay for the whole traversal and must still be yielded
        for cfg in ({'c': 'map', 'buckets': '8', 'memo': '0'}, {'c': 'map', 'buckets': '2', 'memo': '1', 'hash': 'mod2'}, {'c': 'set'}):
            trav = ['ins 10', 'ins 20', 'ins 30', 'ins 41', 'itb', 'itn', 'itn', 'itn', 'itn', 'itn']
            for upd in (['del 10'], ['del 20'], ['del 41', 'del 10'], ['del 30']):
                jobs.append((cfg, [trav, upd], 'prefix', 80, ctx['seed'], ()))
            jobs.append((cfg, [['ins 10', 'ins 20', 'ins 30', 'ins 41', 'trav'], ['del 20'], ['del 10']], 'dfs', n, ctx['seed'], ('--pb', '2')))
            jobs.append((cfg, [['ins 10', 'ins 20', 'ins 30', 'itb', 'del 10', 'itn', 'itn', 'itn']], 'opseq', 1, ctx['seed'], ()))
        do_search(ctx, H, jobs, name, classify=lambda c, h, f, name=name: {'harness': name})
    return None
