"""C16 - lock-free operations finish in bounded solo steps from every reachable state"""
import xvlib as X
from xvlib import log
from props.common import *
from props.qcommon import queue_program
import props.reclcommon as rc
from props.hmcommon import hm_program
from props.vhmcommon import vhm_program
from props import C14 as c14, C13 as c13, C12 as c12

LEVEL = 'exploration'
def harnesses(tier):
    hs = [('chase', (), False, ''), ('seqlock', (), False, ''), ('lr', (), False, ''), ('vyu', (), False, ''),
          ('uq', ('XV_RECL=HPs<3>',), False, '_hp'), ('uq', ('XV_RECL=EBR',), False, '_ebr'), ('hm', ('XV_RECL=HPs<6>',), False, '_hp'),
          ('vhm', ('XV_RECL=HPs<6>',), False, '_hp')]
    hs += rc.harnesses('thorough', only=['_hp', '_ebr', '_stamp', '_lfrc', '_qsbr', '_he'] if tier != 'thorough' else None)
    if tier == 'thorough':
        hs += [('uq', ('XV_RECL=STAMP',), False, '_stamp'), ('uq', ('XV_RECL=LFRC', 'XV_NO_KF'), False, '_lfrc'), ('hm', ('XV_RECL=EBR',), False, '_ebr'), ('vhm', ('XV_RECL=EBR',), False, '_ebr')]
    return hs
HARNESSES = harnesses('quick')
ASSUMPTIONS = [
    'reachable intermediate states = prefixes (random length) of random schedules of small programs; then one thread that is inside, or about to start, an operation documented lock-free runs alone; it must return within 5000 of its own atomic steps (the other threads stay stopped mid-operation)',
    'operations excluded as documented: strong vyukov_bounded operations, seqlock store/update and load with one slot, left_right update, vyukov_hash_map writers and iterators, nikolaev_bounded_queue with as many threads as slots',
    'a thread that keeps re-reading the same locations without any write to them is reported as waiting (spin detection) without exhausting the budget',
]
def replay(sig, V, wd):
    hs = X.build_harnesses(harnesses('thorough'))
    (st, det), out = X.replay_case(hs[sig.get('harness', 'chase')][0], sig['case'], wd, ('--trace',))
    print(out[-3000:]); print('REPLAY status=%d %s' % (st, det))
    return 1 if st != 0 else 0

def run(ctx):
    rng, tier, Hs = ctx['rng'], ctx['tier'], ctx['H']
    thorough = tier == 'thorough'
    n = 1500 if thorough else 250
    def go(name, jobs):
        do_search(ctx, Hs[name], [(cfg, prog, 'solo', n, ctx['seed'] + i, ()) for i, (cfg, prog) in enumerate(jobs)], name, classify=lambda c, h, f, name=name: {'harness': name})
    go('chase', [({'container': c, 'capacity': str(k)}, c12.conc_program(rng, 2, 5, 3, 1)) for c in ('growing', 'fixed') for k in (2, 4)])
    go('seqlock', [({'slots': str(s), 'size': '24'}, c14.program(rng, 3, 3, 1)) for s in (2, 3, 8)])
    go('lr', [({'x': '1'}, c13.program(rng, 1, 2, 3)) for _ in range(3)])
    go('vyu', [({'q': 'vyu', 'cap': '2', 'elem': 'int'}, queue_program(rng, 3, 4, ('push', 'pushw'), ('pop', 'popw'))), ({'q': 'nikb', 'cap': '4', 'elem': 'int', 'retries': '0'}, queue_program(rng, 3, 4)), ({'q': 'nikb', 'cap': '8', 'elem': 'obj', 'retries': '2'}, queue_program(rng, 3, 4))])
    for name in [k for k in Hs if k.startswith('uq_')]:
        jobs = [({'q': q, 'elem': e, 'epn': ep, 'retries': rt, 'k': '2', 'segs': '2'}, queue_program(rng, 3, 4)) for q, e, ep, rt in (('ms', 'int', '2', '0'), ('ram', 'ptr', '1', '0'), ('ram', 'ptr', '2', '2'), ('nik', 'int', '2', '1'), ('kfb', 'ptr', '2', '0'))]
        if 'lfrc' not in name:
            jobs.append(({'q': 'kf', 'elem': 'ptr', 'k': '2'}, queue_program(rng, 3, 4)))
        go(name, jobs)
    for name in [k for k in Hs if k.startswith('hm_')]:
        go(name, [({'c': 'set'}, hm_program(rng, 3, 4, iter_ops=True, is_map=False)), ({'c': 'map', 'buckets': '2', 'memo': '1', 'hash': 'mod2'}, hm_program(rng, 3, 4, iter_ops=True))])
    for name in [k for k in Hs if k.startswith('vhm_')]:
        go(name, [({'mode': m, 'cap': '64', 'hash': 'const', 'init': '1.2.3.4.5'}, [['get 4', 'get 5', 'get 9'], ['del 2', 'ins 6 66', 'ext 1'], ['get 3', 'get 6']]) for m in ('ll', 'ss')])
    for name in [k for k in Hs if k.startswith('recl_')]:
        K = rc.K_of(name)
        mh = 0 if K == 1 else ((K - 1) if K else None)
        go(name, [({'cells': '2', 'slots': '3', 'flushes': '40'}, rc.client_program(rng, 3, 4, maxheld=mh, guard_ops=(K is None or K >= 3))) for _ in range(2)])
    return None
