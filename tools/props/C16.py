"""C16 - lock-free operations finish in bounded solo steps from every reachable state"""
import xvlib as X
from xvlib import log
from props.common import *
from props.qcommon import queue_program
import props.reclcommon as rc
from props.hmcommon import hm_program
from props.vhmcommon import vhm_program
from props import C14 as c14, C13 as c13, C12 as c12

def harnesses(tier):
    hs = [('chase', (), False, ''), ('seqlock', (), False, ''), ('lr', (), False, ''), ('vyu', (), False, ''), ('uq', ('XV_RECL=GC',), False, '_gc'),
          ('uq', ('XV_RECL=HPs<3>',), False, '_hp'), ('uq', ('XV_RECL=EBR',), False, '_ebr'), ('hm', ('XV_RECL=HPs<6>',), False, '_hp'),
          ('vhm', ('XV_RECL=HPs<6>',), False, '_hp')]
    hs += rc.harnesses('thorough', only=['_hp', '_ebr', '_stamp', '_lfrc', '_qsbr', '_he'] if tier != 'thorough' else None)
    if tier == 'thorough':
        hs += [('uq', ('XV_RECL=STAMP',), False, '_stamp'), ('uq', ('XV_RECL=LFRC', 'XV_NO_KF'), False, '_lfrc'), ('hm', ('XV_RECL=EBR',), False, '_ebr'), ('vhm', ('XV_RECL=EBR',), False, '_ebr')]
    return hs
HARNESSES = harnesses('quick')
PROPERTY_FILES = ['Properties_C16', 'Properties_C16_models']
THEOREM_NOTES = {
    'scope': 'solo-termination theorems hold for the five step-level models (chase deque both policies, left_right read, vyukov weak operations, michael_scott push/pop over the GC reclaimer, seqlock load with slots > 1) for every reachable state, with explicit bounds; the *_blocking theorems exhibit the documented exceptions; all other containers and the reclaimers are covered by the solo search only',
    'bounds used as tie': 'chase fixed 8, michael_scott (GC) 12, left_right read 7, vyukov weak 5, seqlock load 2*words+4: the implementation is run solo with exactly these budgets',
}
ASSUMPTIONS = [
    'reachable intermediate states = prefixes (random length) of random schedules of small programs; then one thread that is inside, or about to start, an operation documented lock-free runs alone; it must return within 5000 of its own atomic steps (the other threads stay stopped mid-operation)',
    'operations excluded as documented: strong vyukov_bounded operations, seqlock store/update and load with one slot, left_right update, vyukov_hash_map writers and iterators, nikolaev_bounded_queue with as many threads as slots',
    'a thread that keeps re-reading the same locations without any write to them is reported as waiting (spin detection) without exhausting the budget',
]
def replay(sig, V, wd):
    hs = X.build_harnesses(harnesses('thorough'))
    (st, det), out = X.replay_case(hs[sig.get('harness', 'chase')][0], sig['case'], wd, ('--trace',))
    print(out[-3000:]); print('REPLAY status=%d %s' % (st, det))
    return 1 if st != 0 else 0

def run(ctx):
    rng, tier, Hs = ctx['rng'], ctx['tier'], ctx['H']
    thorough = tier == 'thorough'
    n = 1500 if thorough else 250
    def go(name, jobs):
        js = [(cfg, prog, 'solo', n, ctx['seed'] + i, ()) for i, (cfg, prog) in enumerate(jobs)]
        # systematic part: every other thread stopped after j whole operations + k steps, then the thread runs alone
        js += [(cfg, prog, 'solosweep', 60 if thorough else 30, ctx['seed'] + i, ()) for i, (cfg, prog) in enumerate(jobs)]
        do_search(ctx, Hs[name], js, name, classify=lambda c, h, f, name=name: {'harness': name})
    # ---- tie 1: the five models the theorems are about still reproduce the implementation's traces
    tie = None
    def corr(model, hname, cases, per, label, **kw):
        nonlocal tie
        st = do_correspondence(ctx, model, Hs[hname], cases, per, label, **kw)
        tie = tie or tie_broken_sig(st, model)
    corr('chase', 'chase', [({'container': c, 'capacity': str(k)}, c12.conc_program(rng, 1 + j % 2, 3, 2, rng.choice([0, 1, 3]))) for c in ('growing', 'fixed') for k in (2, 4) for j in range(2)], 4, 'chase')
    corr('msq', 'uq_gc', [({'q': 'ms', 'elem': 'int'}, queue_program(rng, 2 + k % 2, 3)) for k in range(4)], 4, 'michael_scott')
    corr('vyu', 'vyu', [({'q': 'vyu', 'cap': '2', 'elem': 'int'}, queue_program(rng, 2 + k % 2, 4, ('push', 'pushw'), ('pop', 'popw'))) for k in range(4)], 4, 'vyukov')
    corr('lr', 'lr', [({'x': '1'}, c13.program(rng, 1 + k % 2, 1 + k % 2, 2)) for k in range(4)], 4, 'left_right')
    corr('seqlock', 'seqlock', [({'slots': str(sl), 'size': '24'}, c14.program(rng, 2, 3, 1)) for sl in (2, 3)], 4, 'seqlock', normalize=c14.normalizer(24))
    # ---- tie 2: the proved bounds hold on the implementation: solo runs with exactly the proved budget
    bound_findings = []
    def gob(name, jobs, budget, label):
        before = len(ctx['V'].violations)
        js = [(cfg, prog, 'solo', n, ctx['seed'] + 100 + i, ('--solo-budget', str(budget))) for i, (cfg, prog) in enumerate(jobs)]
        fs, agg = X.search(Hs[name], js, ctx['wd'])
        c = ctx['cov'].setdefault('bound_runs', {}); c[label] = {'budget': budget, 'executions': agg['executions'], 'exceeded': len(fs)}
        ctx['cov']['evaluations'] = ctx['cov'].get('evaluations', 0) + agg['executions']
        log('solo-bound[%s]: budget %d, %d executions, %d exceed the proved bound' % (label, budget, agg['executions'], len(fs)))
        for f in fs[:1]:
            bound_findings.append({'kind': 'solo-bound', 'detail': '%s: the implementation needs more than the %d solo steps proved for the model (%s)' % (label, budget, f['detail']), 'case': f['case'], 'harness': name})
    gob('chase', [({'container': 'fixed', 'capacity': str(k)}, c12.conc_program(rng, 2, 5, 3, 1)) for k in (2, 4)], 8, 'chase-fixed')
    gob('uq_gc', [({'q': 'ms', 'elem': 'int'}, queue_program(rng, 3, 4)) for _ in range(2)], 12, 'michael_scott-gc')
    gob('lr', [({'x': '1'}, c13.program(rng, 1, 2, 3)) for _ in range(2)], 7, 'left_right-read')
    gob('vyu', [({'q': 'vyu', 'cap': '2', 'elem': 'int'}, queue_program(rng, 3, 4, ('pushw',), ('popw',))) for _ in range(2)], 5, 'vyukov-weak')
    gob('seqlock', [({'slots': str(sl), 'size': '24'}, c14.program(rng, 3, 3, 1)) for sl in (2, 3)], 10, 'seqlock-load')
    if bound_findings and not tie:
        tie = bound_findings[0]
    go('chase', [({'container': c, 'capacity': str(k)}, c12.conc_program(rng, 2, 5, 3, 1)) for c in ('growing', 'fixed') for k in (2, 4)])
    go('seqlock', [({'slots': str(s), 'size': '24'}, c14.program(rng, 3, 3, 1)) for s in (2, 3, 8)])
    go('lr', [({'x': '1'}, c13.program(rng, 1, 2, 3)) for _ in range(3)])
    go('vyu', [({'q': 'vyu', 'cap': '2', 'elem': 'int'}, queue_program(rng, 3, 4, ('push', 'pushw'), ('pop', 'popw'))), ({'q': 'nikb', 'cap': '4', 'elem': 'int', 'retries': '0'}, queue_program(rng, 3, 4)), ({'q': 'nikb', 'cap': '8', 'elem': 'obj', 'retries': '2'}, queue_program(rng, 3, 4))])
    for name in [k for k in Hs if k.startswith('uq_')]:
        jobs = [({'q': q, 'elem': e, 'epn': ep, 'retries': rt, 'k': '2', 'segs': '2'}, queue_program(rng, 3, 4)) for q, e, ep, rt in (('ms', 'int', '2', '0'), ('ram', 'ptr', '1', '0'), ('ram', 'ptr', '2', '2'), ('nik', 'int', '2', '1'), ('kfb', 'ptr', '2', '0'))]
        if 'lfrc' not in name:
            jobs.append(({'q': 'kf', 'elem': 'ptr', 'k': '2'}, queue_program(rng, 3, 4)))
        go(name, jobs)
    for name in [k for k in Hs if k.startswith('hm_')]:
        go(name, [({'c': 'set'}, hm_program(rng, 3, 4, iter_ops=True, is_map=False)), ({'c': 'map', 'buckets': '2', 'memo': '1', 'hash': 'mod2'}, hm_program(rng, 3, 4, iter_ops=True))])
    for name in [k for k in Hs if k.startswith('vhm_')]:
        go(name, [({'mode': m, 'cap': '64', 'hash': 'const', 'init': '1.2.3.4.5'}, [['get 4', 'get 5', 'get 9'], ['del 2', 'ins 6 66', 'ext 1'], ['get 3', 'get 6']]) for m in ('ll', 'ss')])
        # readers looking for exactly the key whose slot an eraser (stopped inside its delete-marker window) is overwriting
        go(name, [({'mode': m, 'cap': '64', 'hash': 'const', 'init': '1.2.3.4.5'}, [['get 2', 'get 1', 'get 2'], ['del 2', 'ext 1', 'ins 2 77', 'del 2'], ['get 1', 'get 2', 'get 1']]) for m in ('ll', 'ss')])
    for name in [k for k in Hs if k.startswith('recl_')]:
        K = rc.K_of(name)
        mh = 0 if K == 1 else ((K - 1) if K else None)
        go(name, [({'cells': '2', 'slots': '3', 'flushes': '40'}, rc.client_program(rng, 3, 4, maxheld=mh, guard_ops=(K is None or K >= 3))) for _ in range(2)])
    return tie
