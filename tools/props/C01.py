"""C01 - safe memory reclamation: no object is destroyed while a guard_ptr protects it"""
import xvlib as X
from xvlib import log
from props.common import *
import props.reclcommon as rc
from props.reclcommon import client_program, K_of

LEVEL = 'exploration'
def harnesses(tier):
    return rc.harnesses(tier)
HARNESSES = harnesses('quick')
ASSUMPTIONS = [
    'SC interleavings only in this check (fences / weak executions: C03)',
    'oracle: a guarded node must be alive whenever it is dereferenced through a guard (canary + xvrt quarantine: any access to freed memory, any double free); the client follows the documented protocol (unlink, then reclaim once; guards stay on their thread)',
]
def replay(sig, V, wd):
    hs = X.build_harnesses(rc.harnesses('thorough'))
    (st, det), out = X.replay_case(hs[sig.get('harness', 'recl_hp')][0], sig['case'], wd, ('--trace',))
    print(out[-3000:]); print('REPLAY status=%d %s' % (st, det))
    return 1 if st != 0 else 0

def run(ctx):
    rng, tier = ctx['rng'], ctx['tier']
    thorough = tier == 'thorough'
    Hs = ctx['H']
    n = 1500 if thorough else 200
    for name, H in sorted(Hs.items()):
        K = K_of(name)
        jobs = []
        for k in range(4 if thorough else 2):
            slots = 3
            mh = (K - 1) if K else None     # stay below the slot limit (limits are C18)
            if K == 1: mh = 0
            cfg = {'cells': str(1 + k % 2), 'slots': str(slots), 'flushes': '40'}
            gen = lambda: client_program(rng, 2 + rng.randint(0, 2 if thorough else 1), 4, cells=1 + k % 2, slots=slots, maxheld=mh, guard_ops=(K is None or K >= 3))
            jobs.append((cfg, gen(), 'random', n, ctx['seed'] + k, ()))
            jobs.append((cfg, gen(), 'pct', n, ctx['seed'] + k, ('--depth', '3')))
            jobs.append((cfg, client_program(rng, 2, 3, cells=1, slots=slots, maxheld=mh, guard_ops=False, regions=False), 'dfs', 2 * n, ctx['seed'], ('--pb', '2')))
            jobs.append((dict(cfg, aba='1'), gen(), 'random', n, ctx['seed'] + 7 + k, ()))
        # retire+scan landing inside another thread's acquire: reader paused at every step, writer unlinks+retires
        jobs.append(({'cells': '1', 'slots': '3', 'flushes': '40'}, [['read 0', 'hold 0 0', 'deref 0'], ['repl 0', 'repl 0']], 'prefix', 60, ctx['seed'], ()))
        # a reader that keeps a guard, a thread that only enters/leaves regions (epoch advancer / scanner), and a thread that retires and exits
        tcfg = {'cells': '1', 'slots': '3', 'flushes': '40'}
        hold = ['hold 0 0', 'deref 0', 'deref 0', 'deref 0'] if K != 1 else ['read 0', 'read 0', 'read 0']
        for prog in ([hold, ['read 0'] * 4, ['repl 0']], [hold, ['repl 0', 'repl 0'], ['read 0', 'repl 0']], [hold, ['read 0'] * 3, ['repl 0'], ['repl 0', 'read 0']]):
            jobs.append((tcfg, prog, 'phase3', 400, ctx['seed'], ()))
            jobs.append((tcfg, prog, 'pct', 3 * n, ctx['seed'] + 1, ('--depth', '4')))
        do_search(ctx, H, jobs, name, classify=lambda c, h, f, name=name: {'harness': name})
    return None
