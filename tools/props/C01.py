"""C01 - safe memory reclamation: no object is destroyed while a guard_ptr protects it"""
import xvlib as X
from xvlib import log
from props.common import *
import props.reclcommon as rc
from props.reclcommon import client_program, K_of

PROPERTY_FILES = ['Properties_C01_ebr', 'Properties_C01_hp', 'Properties_C01_qsbr', 'Properties_C01_lfrc', 'Properties_C01_he', 'Properties_C01_gebr', 'Properties_C01_stamp']
THEOREM_NOTES = {
    'scope': 'the theorems are about a step-level model of epoch_based<> (generic_epoch_based with its default traits: critical-region entry/exit, global epoch update scanning the thread block list, three retire lists, orphan hand-over at thread exit and adoption, guard_ptr acquire/reset/reclaim) driven by the generic client of harness/h_recl.cpp, for any number of threads, cells, guard slots, programs and schedules: a guarded node is never freed and no dereference hits a destroyed node (C01), the epoch window argument, a retired node is in exactly one place and freed at most once also across thread exit (C02), and seven solo flush operations free everything at quiescence. Tied to the code by trace correspondence (harness/h_ebr.cpp). and of hazard_pointer<static_strategy<3>> (record list, slot free list, acquire with publish + fence + re-validation, retire, scan with adoption of abandoned nodes, thread exit): a node protected by a validated guard is in a hazard slot and never freed, exactly-once bookkeeping across thread exit, and (partial: from the start of the scan) the flush frees everything at quiescence; tied by trace correspondence (harness/h_hp.cpp); and of quiescent_state_based (regions, quiescent states, epoch advance, orphans with their target epoch, thread exit with the repaired target computation): guarded nodes never freed, the epoch window, an orphan created at epoch g is freed only at g+2 (the wrong target g+1 is refuted), exactly-once across orphan hand-over, four solo flush operations free everything when every other record is released (with an idle registered thread nothing is freed: refuted as stated, that is the documented QSBR behaviour); tied by trace correspondence (harness/h_qsbr.cpp). acquire_if_equal, guard copies / moves, the dynamic strategy and the other reclaimers (hazard_eras, NEBR/DEBRA and the other generic_epoch_based configurations, stamp_it, LFRC) are covered by the search only',
}
def harnesses(tier):
    # _lfrctl: lock_free_ref_count with a thread-local free list (another allocation path for recycled nodes) is part of the quick tier
    return rc.harnesses(tier) + ([] if tier == 'thorough' else rc.harnesses('thorough', only=['_lfrctl'])) + rc.MODEL_HARNESSES + rc.gebr_harnesses(tier)
HARNESSES = harnesses('quick')
ASSUMPTIONS = [
    'SC interleavings only in this check (fences / weak executions: C03)',
    'oracle: a guarded node must be alive whenever it is dereferenced through a guard (canary + xvrt quarantine: any access to freed memory, any double free); the client follows the documented protocol (unlink, then reclaim once; guards stay on their thread)',
]
def replay(sig, V, wd):
    hs = X.build_harnesses(rc.harnesses('thorough'))
    (st, det), out = X.replay_case(hs[sig.get('harness', 'recl_hp')][0], sig['case'], wd, ('--trace',))
    print(out[-3000:]); print('REPLAY status=%d %s' % (st, det))
    return 1 if st != 0 else 0

def run(ctx):
    rng, tier = ctx['rng'], ctx['tier']
    thorough = tier == 'thorough'
    Hs = ctx['H']
    n = 1500 if thorough else 200
    tie = rc.model_ties(ctx, do_correspondence, tie_broken_sig)
    if 'recl_he' in Hs:
        run_corpus(ctx, Hs['recl_he'], 'C01')
    for name, H in sorted(Hs.items()):
        K = K_of(name)
        jobs = []
        for k in range(4 if thorough else 2):
            slots = 3
            mh = (K - 1) if K else None     # stay below the slot limit (limits are C18)
            if K == 1: mh = 0
            cfg = {'cells': str(1 + k % 2), 'slots': str(slots), 'flushes': '40'}
            gen = lambda: client_program(rng, 2 + rng.randint(0, 2 if thorough else 1), 4, cells=1 + k % 2, slots=slots, maxheld=mh, guard_ops=(K is None or K >= 3))
            jobs.append((cfg, gen(), 'random', n, ctx['seed'] + k, ()))
            jobs.append((cfg, gen(), 'pct', n, ctx['seed'] + k, ('--depth', '3')))
            jobs.append((cfg, client_program(rng, 2, 3, cells=1, slots=slots, maxheld=mh, guard_ops=False, regions=False), 'dfs', 2 * n, ctx['seed'], ('--pb', '2')))
            jobs.append((dict(cfg, aba='1'), gen(), 'random', n, ctx['seed'] + 7 + k, ()))
        # acquire_if_equal while the object is retired, freed and a NEW object is created at the same address (eager reuse, aba=1):
        # the guard must protect the object it returns (identity oracle of the harness); repaired defect e472eee (hazard_eras)
        if True:
            acfg = {'cells': '2', 'slots': '3', 'flushes': '40', 'aba': '1'}
            aprog = [['read 1', 'holdeq 0 0', 'deref 0', 'deref 0'], ['repl 0', 'repl 0', 'repl 0', 'repl 0']]
            jobs.append((acfg, aprog, 'random', 2 * n, ctx['seed'], ()))
            jobs.append((acfg, aprog, 'pct', 2 * n, ctx['seed'], ('--depth', '3')))
            jobs.append((acfg, [['holdeq 0 0', 'deref 0', 'holdeq 0 1', 'deref 1', 'deref 0'], ['repl 0', 'repl 0', 'repl 0'], ['repl 0', 'repl 0']], 'random', 2 * n, ctx['seed'] + 1, ()))
        if 'lfrc' in name:
            # a node is unlinked, destroyed, taken from the (global or thread-local) free list and published again while a reader sits between
            # its load and its reference-count increment: the stale increment must survive the re-initialisation of the node
            rprog = [['read 0', 'hold 0 0', 'deref 0', 'deref 0'], ['repl 0', 'repl 0', 'repl 0', 'repl 0']]
            jobs.append(({'cells': '1', 'slots': '3', 'flushes': '40'}, rprog, 'prefix', 200, ctx['seed'], ()))
            jobs.append(({'cells': '1', 'slots': '3', 'flushes': '40'}, rprog, 'dfs', 3 * n, ctx['seed'], ('--pb', '2')))
            jobs.append(({'cells': '1', 'slots': '3', 'flushes': '40'}, [['hold 0 0', 'deref 0', 'drop 0', 'hold 0 1', 'deref 1'], ['repl 0', 'repl 0', 'repl 0'], ['read 0', 'repl 0']], 'random', 3 * n, ctx['seed'], ()))
        # retire+scan landing inside another thread's acquire: reader paused at every step, writer unlinks+retires
        jobs.append(({'cells': '1', 'slots': '3', 'flushes': '40'}, [['read 0', 'hold 0 0', 'deref 0'], ['repl 0', 'repl 0']], 'prefix', 60, ctx['seed'], ()))
        # a reader that keeps a guard, a thread that only enters/leaves regions (epoch advancer / scanner), and a thread that retires and exits
        tcfg = {'cells': '1', 'slots': '3', 'flushes': '40'}; tcfg2 = {'cells': '2', 'slots': '3', 'flushes': '40'}
        hold = ['hold 0 0', 'deref 0', 'deref 0', 'deref 0'] if K != 1 else ['read 0', 'read 0', 'read 0']
        for prog in ([hold, ['read 0'] * 4, ['repl 0']], [hold, ['repl 0', 'repl 0'], ['read 0', 'repl 0']], [hold, ['read 0'] * 3, ['repl 0'], ['repl 0', 'read 0']]):
            jobs.append((tcfg, prog, 'phase3', 400, ctx['seed'], ()))
            jobs.append((tcfg, prog, 'pct', 3 * n, ctx['seed'] + 1, ('--depth', '4')))
        # guards that share protection state (copies, guards taken in the same era) and are then re-targeted one by one while the
        # object of the other one is retired: each guard must keep protecting its own object
        if K is None or K >= 2:
            for acq in ('holdeq 1 1', 'hold 1 1'):
                jobs.append((tcfg2, [['hold 0 0', 'copy 0 1', 'repl 0', 'repl 1', acq, 'repl 1', 'repl 1', 'repl 1', 'deref 0', 'deref 1']], 'opseq', 1, ctx['seed'], ()))
                jobs.append((tcfg2, [['hold 0 0', 'hold 0 1', 'repl 1', acq, 'repl 0', 'repl 1', 'repl 1', 'deref 0', 'deref 1']], 'opseq', 1, ctx['seed'], ()))
                jobs.append((tcfg2, [['hold 0 0', 'copy 0 1', 'repl 1', acq, 'deref 0', 'deref 1', 'deref 0'], ['repl 0', 'repl 1', 'repl 0']], 'random', n, ctx['seed'], ()))
        do_search(ctx, H, jobs, name, classify=lambda c, h, f, name=name: {'harness': name})
    return tie
