"""C08 - Harris-Michael list set and hash map are linearizable sets/maps"""
import xvlib as X
from xvlib import log
from props.common import *
from props.hmcommon import *

_base_harnesses = harnesses
def harnesses(tier):
    # _sk: keys of a type whose move constructor empties its source (std::string inside)
    return _base_harnesses(tier) + [('hm', ('XV_RECL=GC',), False, '_gc'), ('hmm', ('XV_RECL=GC',), False, '_gc'), ('hm', ('XV_RECL=HPs<6>', 'XV_STRKEY'), False, '_hp_sk')]
HARNESSES = harnesses('quick')
PROPERTY_FILES = ['Properties_C08', 'Properties_C08_hmm']
THEOREM_NOTES = {
    'scope': 'the theorems are about a step-level model of harris_michael_list_based_set (emplace / emplace_or_get, erase(key), contains / find incl. helping and restarts) over a reclaimer whose guards are single loads and that never reuses nodes (what C01 provides): list structure, abstraction (abstract set = keys of unmarked reachable nodes), linearization points, every returned result equals the sequential answer at a state inside the call, exactly one of racing erases succeeds, conservation at quiescence - for any number of threads, programs and schedules. harris_michael_hash_map with one bucket produces the same traces; multi-bucket maps, get_or_emplace(_lazy), operator[], erase(iterator) and the real reclaimers (ABA with reuse) are covered by the search only',
}
ASSUMPTIONS = [
    'SC interleavings only in this check; linearizability of every explored history is decided exactly (set/map specification incl. a final membership probe of every key)',
    'the reuse-allocator mode (--aba: a freed node is handed out again by the next allocation of the same size) is used to look for ABA; in the default mode freed nodes are quarantined and every access to them is a violation',
]
def replay(sig, V, wd):
    hs = X.build_harnesses(harnesses('thorough'))
    (st, det), out = X.replay_case(hs[sig.get('harness', 'hm_hp')][0], sig['case'], wd, ('--trace',))
    print(out[-3000:]); print('REPLAY status=%d %s' % (st, det))
    return 1 if st != 0 else 0

def run(ctx):
    rng, tier = ctx['rng'], ctx['tier']
    thorough = tier == 'thorough'
    Hs = ctx['H']
    run_corpus(ctx, Hs['hm_hp'], 'C08')
    n = 2000 if thorough else 250
    # ---- tie: the list model (Model/HmlDefs.v) reproduces the implementation's traces (set over the GC reclaimer)
    Hgc = Hs.pop('hm_gc')
    cases = []
    for k in range(12 if thorough else 6):
        nk = 1 + k % 4
        cases.append(({'c': 'set'}, [[('%s %d' % (rng.choice(['ins', 'ins', 'del', 'del', 'has']), rng.randrange(nk))) for _ in range(3 + k % 2)] for _ in range(2 + k % 2)]))
    st = do_correspondence(ctx, 'hml', Hgc, cases, 10 if thorough else 6, 'harris_michael_list')
    tie = tie_broken_sig(st, 'hml')
    # ---- tie: the hash map model (Model/HmmDefs.v; buckets 1/2/4, memoize_hash on/off, hash id/mod2/rev/const)
    Hmm = Hs.pop('hmm_gc')
    mcases = [c for c in HMM_FIXED[:2]] + [hmm_model_program(rng, iterators=False) for _ in range(8 if thorough else 4)]
    stm = do_correspondence(ctx, 'hmm', Hmm, mcases, 10 if thorough else 6, 'harris_michael_hash_map')
    tie = tie or tie_broken_sig(stm, 'hmm')
    for name, H in sorted(Hs.items()):
        jobs = []
        for cfg in (CONFIGS if thorough else rng.sample(CONFIGS[:-2], 3) + [rng.choice(CONFIGS[-2:])]):
            is_map = cfg['c'] == 'map'
            gen = lambda: hm_program(rng, 2 + rng.randint(0, 1), 3, is_map=is_map)
            jobs.append((cfg, gen(), 'random', n, ctx['seed'], ()))
            jobs.append((cfg, gen(), 'pct', n, ctx['seed'], ('--depth', '3')))
            jobs.append((cfg, gen(), 'dfs', n, ctx['seed'], ('--pb', '2')))
            jobs.append((dict(cfg, aba='1'), gen(), 'random', n, ctx['seed'] + 1, ()))
            jobs.append((dict(cfg, aba='1'), [['ins 1', 'ins 10', 'ins 20', ('getins 5' if is_map else 'insget 5'), 'has 3', 'has 5'], ['del 10', 'ins 3', 'has 3']], 'random', 2 * n, ctx['seed'], ()))
            jobs.append((cfg, [hm_program(rng, 1, 24, keys=tuple(range(1, 9)), is_map=is_map)[0]], 'opseq', 1, ctx['seed'], ()))
        if name.endswith('_sk'):
            # racing insertions of the SAME key through every entry point that may retry after a failed install CAS
            for cfg in ({'c': 'map', 'buckets': '1', 'memo': '0'}, {'c': 'map', 'buckets': '2', 'memo': '1', 'hash': 'mod2'}, {'c': 'set'}):
                for a, b in (('getins 5', 'ins 5'), ('getlazy 5', 'getins 5'), ('insget 5', 'getlazy 5'), ('getins 5', 'getins 5')):
                    jobs.append((cfg, [['ins 3', a, 'has 5', 'del 5', 'has 5'], [b, 'has 5']], 'dfs', n, ctx['seed'], ('--pb', '2')))
                    jobs.append((cfg, [[a, 'del 5', 'has 5'], [b], ['ins 4', 'del 4']], 'random', n, ctx['seed'], ()))
        do_search(ctx, H, jobs, name, classify=lambda c, h, f, name=name: {'harness': name})
    return tie
