"""C05 - vyukov_bounded and nikolaev_bounded queues are linearizable bounded FIFOs"""
import xvlib as X
from xvlib import log
from props.common import *
from props.qcommon import *

HARNESSES = [('vyu', (), False, '')]
ASSUMPTIONS = [
    'SC interleavings only in this check (release/acquire hand-off of cells: C03)',
    'nikolaev_bounded_queue: concurrent linearizability is explored, not proved; fullness is relaxed by the number of threads (every other operation in progress may occupy a slot), as the property states',
    'compare_exchange_weak is executed as a strong CAS by xvrt (no spurious failures)',
]

def replay(sig, V, wd):
    hs = X.build_harnesses(HARNESSES)
    (st, det), out = X.replay_case(hs['vyu'][0], sig['case'], wd, ('--trace',))
    print(out[-3000:]); print('REPLAY status=%d %s' % (st, det))
    return 1 if st != 0 else 0

def run(ctx):
    rng, tier, H = ctx['rng'], ctx['tier'], ctx['H']['vyu']
    thorough = tier == 'thorough'
    run_corpus(ctx, H, 'C05')
    # ---- correspondence (vyukov): strong + weak mixes, capacities 2,4,8, wrap-arounds
    cases = []
    for cap in (2, 4, 8):
        cfg = {'q': 'vyu', 'cap': str(cap), 'elem': 'int'}
        for k in range(6 if thorough else 3):
            cases.append((cfg, queue_program(rng, 2 + k % 2, 4 + 2 * (k % 3), ('push', 'push', 'pushw'), ('pop', 'pop', 'popw'))))
        cases.append((cfg, [queue_program(rng, 1, 6 * cap, ('push', 'pushw'), ('pop', 'popw'))[0]]))   # several wrap-arounds, sequential
    st = do_correspondence(ctx, 'vyu', H, cases, 10 if thorough else 5, 'vyukov')
    tie = tie_broken_sig(st, 'vyu')
    # ---- search
    jobs = []
    n = 3000 if thorough else 400
    for cap in (2, 4) + ((8,) if thorough else ()):
        for elem in ('int', 'obj'):
            cfg = {'q': 'vyu', 'cap': str(cap), 'elem': elem}
            jobs += std_search_jobs(rng, cfg, ctx['seed'], n, thorough, lambda: queue_program(rng, 3, 3, ('push', 'push', 'pushw'), ('pop', 'tpop', 'popw')))
            jobs.append((cfg, [queue_program(rng, 1, 5 * cap, ('push', 'pushw'), ('pop', 'popw', 'tpop'))[0]], 'opseq', 1, ctx['seed'], ()))
    for cap in (1, 2, 3, 4, 5) + ((8,) if thorough else ()):
        for retries in (0, 2):
            cfg = {'q': 'nikb', 'cap': str(cap), 'elem': rng.choice(['int', 'obj']), 'retries': str(retries)}
            jobs += std_search_jobs(rng, cfg, ctx['seed'], n, thorough, lambda: queue_program(rng, 3, 3, ('push',), ('pop', 'tpop')))
            jobs.append((cfg, [queue_program(rng, 1, 6 * cap + 4, ('push',), ('pop', 'tpop'))[0]], 'opseq', 1, ctx['seed'], ()))
    do_search(ctx, H, jobs, 'bounded-queues')
    return tie
