"""C05 - vyukov_bounded and nikolaev_bounded queues are linearizable bounded FIFOs"""
import re, os
import xvlib as X
from xvlib import log
from props.common import *
from props.qcommon import *

HARNESSES = [('vyu', (), False, '')]
PROPERTY_FILES = ['Properties_C05', 'Properties_C05_nikb']
ASSUMPTIONS = [
    'SC interleavings only in this check (release/acquire hand-off of cells: C03)',
    'nikolaev_bounded_queue: concurrent linearizability is explored, not proved; fullness is relaxed by the number of threads (every other operation in progress may occupy a slot), as the property states',
    'compare_exchange_weak is executed as a strong CAS by xvrt (no spurious failures)',
]

def replay(sig, V, wd):
    hs = X.build_harnesses(HARNESSES)
    (st, det), out = X.replay_case(hs['vyu'][0], sig['case'], wd, ('--trace',))
    print(out[-3000:]); print('REPLAY status=%d %s' % (st, det))
    return 1 if st != 0 else 0

def classify(ctx, harness, f):
    """pattern 'threshold-exhausted-by-delayed-poppers' (known finding): nikolaev_bounded_queue, a value accepted by a try_push is
    not delivered (later try_pop answers 'empty') AND at least 3*capacity try_pop calls that answered 'empty' overlap that try_push in
    the history - the delayed threshold decrements of SCQ, possible only with more concurrent poppers than the algorithm assumes"""
    out = {'pattern': 'other'}
    case = f.get('case', '')
    m = re.search(r'^cfg [^\n]*q=nikb', case); mc = re.search(r'cap=(\d+)', case.split('\n')[0])
    if not m or not mc or not ('lost' in f.get('detail', '') or 'not linearizable' in f.get('detail', '')):
        return out
    cap = 1
    while cap < int(mc.group(1)): cap *= 2
    (st, det), txt = X.replay_case(harness, case, ctx['wd'], ())
    hist = []
    for l in txt.splitlines():
        mm = re.match(r'HIST T(\d+) (\w+)(?: (\S+))? -> (\S+) \[(\d+),(\d+)\]', l)
        if mm: hist.append((mm.group(2), mm.group(4), int(mm.group(5)), int(mm.group(6))))
    for name, res, a, b in hist:
        if name == 'push' and res == 'ok':
            n = sum(1 for n2, r2, a2, b2 in hist if n2 in ('pop', 'tpop') and r2 == 'empty' and a2 < b and b2 > a)
            if n >= 3 * cap:
                out['pattern'] = 'threshold-exhausted-by-delayed-poppers'
    return out

def run(ctx):
    rng, tier, H = ctx['rng'], ctx['tier'], ctx['H']['vyu']
    thorough = tier == 'thorough'
    run_corpus(ctx, H, 'C05')
    # the recorded schedule of the known finding (classified like any search finding; reported again if it stops matching the pattern)
    kf = os.path.join(X.VERIF, 'corpus', 'C05', 'nikb-threshold-delayed-poppers.known')
    if os.path.exists(kf):
        txt = open(kf).read()
        (st0, det0), _ = X.replay_case(H, txt, ctx['wd'])
        if st0 != 0:
            report_impl(ctx, st0, det0, txt, classify(ctx, H, {'case': txt, 'detail': det0}))
    # ---- correspondence (vyukov): strong + weak mixes, capacities 2,4,8, wrap-arounds
    cases = []
    for cap in (2, 4, 8):
        cfg = {'q': 'vyu', 'cap': str(cap), 'elem': 'int'}
        for k in range(6 if thorough else 3):
            cases.append((cfg, queue_program(rng, 2 + k % 2, 4 + 2 * (k % 3), ('push', 'push', 'pushw'), ('pop', 'pop', 'popw'))))
        cases.append((cfg, [queue_program(rng, 1, 6 * cap, ('push', 'pushw'), ('pop', 'popw'))[0]]))   # several wrap-arounds, sequential
    st = do_correspondence(ctx, 'vyu', H, cases, 10 if thorough else 5, 'vyukov')
    tie = tie_broken_sig(st, 'vyu')
    # ---- correspondence (nikolaev_bounded_queue, Model/NikbDefs.v): capacities 1..8 (rounded up), pop_retries 0 / 2
    ncases = [({'q': 'nikb', 'elem': 'int', 'retries': '0', 'cap': '2'}, [['push 100', 'pop'], ['push 1', 'pop', 'push 2', 'pop', 'push 3', 'pop', 'push 4'], ['pop'], ['pop', 'pop']]),
              ({'q': 'nikb', 'elem': 'int', 'retries': '0', 'cap': '1'}, [['push 1', 'pop', 'push 7', 'pop'], ['pop'], ['pop'], ['pop']])]
    for k in range(10 if thorough else 5):
        cfgn = {'q': 'nikb', 'elem': 'int', 'retries': rng.choice(['0', '2']), 'cap': str(rng.choice([1, 2, 3, 4, 8]))}
        ncases.append((cfgn, queue_program(rng, rng.choice([2, 3, 3, 4]), rng.randint(1, 6), ('push',), ('pop', 'tpop'))))
    stn = do_correspondence(ctx, 'nikb', H, ncases, 10 if thorough else 5, 'nikolaev_bounded')
    tie = tie or tie_broken_sig(stn, 'nikb')
    # ---- search
    jobs = []
    n = 3000 if thorough else 400
    for cap in (2, 4) + ((8,) if thorough else ()):
        for elem in ('int', 'obj'):
            cfg = {'q': 'vyu', 'cap': str(cap), 'elem': elem}
            jobs += std_search_jobs(rng, cfg, ctx['seed'], n, thorough, lambda: queue_program(rng, 3, 3, ('push', 'push', 'pushw'), ('pop', 'tpop', 'popw')))
            jobs.append((cfg, [queue_program(rng, 1, 5 * cap, ('push', 'pushw'), ('pop', 'popw', 'tpop'))[0]], 'opseq', 1, ctx['seed'], ()))
    for cap in (1, 2, 3, 4, 5) + ((8,) if thorough else ()):
        for retries in (0, 2):
            cfg = {'q': 'nikb', 'cap': str(cap), 'elem': rng.choice(['int', 'obj']), 'retries': str(retries)}
            jobs += std_search_jobs(rng, cfg, ctx['seed'], n, thorough, lambda: queue_program(rng, 3, 3, ('push',), ('pop', 'tpop')))
            jobs.append((cfg, [queue_program(rng, 1, 6 * cap + 4, ('push',), ('pop', 'tpop'))[0]], 'opseq', 1, ctx['seed'], ()))
    # more poppers than the SCQ threshold assumes (capacity 1, three poppers delayed right before their threshold decrement): known finding
    jobs.append(({'q': 'nikb', 'cap': '1', 'elem': 'int', 'retries': '0'}, [['push 1', 'pop', 'push 7', 'pop'], ['pop'], ['pop'], ['pop']], 'pct', n, ctx['seed'], ('--depth', '4')))
    do_search(ctx, H, jobs, 'bounded-queues', classify=classify)
    return tie
