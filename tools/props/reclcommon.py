"""shared by C01, C02, C15, C17, C18: reclaimer harness variants and client program generators"""
# (alias, suffix, extra defines, static K or None)
VARIANTS_QUICK = [('HPs<3>', '_hp', (), 3), ('HPs<1>', '_hp1', (), 1), ('HPd<1>', '_hpd', (), None), ('HEs<3>', '_he', (), 3), ('EBR', '_ebr', (), None),
                  ('QSBR', '_qsbr', (), None), ('STAMP', '_stamp', (), None), ('LFRC', '_lfrc', ('XV_DEFAULT_DELETER',), None)]
VARIANTS_ALL = VARIANTS_QUICK + [('HPs<2>', '_hp2', (), 2), ('HEs<1>', '_he1', (), 1), ('HEd<1>', '_hed', (), None), ('NEBR', '_nebr', (), None), ('DEBRA', '_debra', (), None),
                                 ('EBR0', '_ebr0', (), None), ('EBR100', '_ebr100', ('XV_FLUSH_FACTOR=30',), None), ('GEBR_lazy', '_glazy', (), None), ('GEBR_n2', '_gn2', (), None),
                                 ('GEBR_aband', '_gab', (), None), ('GEBR_thresh', '_gth', (), None), ('GEBR_t0', '_gt0', (), None), ('LFRCtl', '_lfrctl', ('XV_DEFAULT_DELETER',), None)]
def variants(tier):
    return VARIANTS_ALL if tier == 'thorough' else VARIANTS_QUICK
def harnesses(tier, only=None):
    return [('recl', ('XV_RECL=%s' % a,) + tuple(d), False, sfx) for a, sfx, d, k in variants(tier) if only is None or sfx in only]
def K_of(name, tier='thorough'):
    for a, sfx, d, k in VARIANTS_ALL:
        if 'recl' + sfx == name:
            return k
    return None

def client_program(rng, nthreads, nops, cells=2, slots=3, maxheld=None, guard_ops=True, regions=True):
    """protocol-conforming client: publish/replace, guarded reads, persistent guards, guard algebra, regions"""
    prog = []
    for t in range(nthreads):
        ops, held = [], [False] * slots
        for _ in range(nops):
            r = rng.random()
            c = rng.randrange(cells); k = rng.randrange(slots); j = rng.randrange(slots)
            if r < 0.25: ops.append('repl %d' % c)
            elif r < 0.30: ops.append('clear %d' % c)
            elif r < 0.42: ops.append('read %d' % c)
            elif r < 0.50: ops.append('readeq %d' % c)
            elif r < 0.65:
                if maxheld is not None and sum(held) >= maxheld and not held[k]:
                    ops.append('read %d' % c)
                else:
                    ops.append('%s %d %d' % (rng.choice(['hold', 'hold', 'holdeq']), c, k)); held[k] = True
            elif r < 0.75: ops.append('deref %d' % k)
            elif r < 0.82: ops.append('drop %d' % k); held[k] = False
            elif guard_ops and r < 0.94:
                g = rng.choice(['copy', 'move', 'swap', 'self', 'cctor', 'mctor'])
                if g in ('copy', 'move', 'swap'):
                    if g == 'copy' and maxheld is not None and held[k] and not held[j] and sum(held) >= maxheld:
                        ops.append('deref %d' % k)
                    else:
                        ops.append('%s %d %d' % (g, k, j))
                        if g == 'copy': held[j] = held[k]
                        elif g == 'move' and k != j: held[j] = held[k]; held[k] = False
                        elif g == 'swap': held[k], held[j] = held[j], held[k]
                else:
                    ops.append('%s %d' % (g, k))
            elif regions: ops.append(rng.choice(['enter', 'leave']))
            else: ops.append('read %d' % c)
        prog.append(ops)
    return prog

# ---------------------------------------------------------------------------------------------------------------
# step-level reclaimer models (Model/EbrDefs.v, Model/HpDefs.v) and their trace correspondence (C01, C02)
# ---------------------------------------------------------------------------------------------------------------
MODEL_HARNESSES = [('ebr', (), False, ''), ('hp', ('XV_RECL=HPs<3>',), False, ''), ('qsbr', ('XV_RECL=QSBR',), False, ''), ('lfrc', ('XV_RECL=LFRC', 'XV_DEFAULT_DELETER'), False, ''), ('he', (), False, ''), ('stamp', ('XV_RECL=STAMP',), False, '')]

GEBR_ALIASES = {'EBR': '_ebr', 'NEBR': '_nebr', 'DEBRA': '_debra', 'EBR0': '_ebr0', 'GEBR_lazy': '_glazy', 'GEBR_n2': '_gn2', 'GEBR_aband': '_gab', 'GEBR_thresh': '_gth', 'GEBR_t0': '_gt0'}
GEBR_QUICK = ['NEBR', 'DEBRA', 'GEBR_thresh', 'GEBR_n2']
def gebr_harnesses(tier):
    """harness/h_gebr.cpp: the generic client for one generic_epoch_based configuration with named statics (model Model/GebrDefs.v)"""
    return [('gebr', ('XV_RECL=%s' % a,), False, GEBR_ALIASES[a]) for a in (sorted(GEBR_ALIASES) if tier == 'thorough' else GEBR_QUICK)]
def gebr_model_program(rng, recl):
    nth = rng.choice([2, 3, 3]); ncells = rng.choice([1, 2, 2]); nslots = rng.choice([1, 2, 3])
    prog = []
    for _ in range(nth):
        ops = []
        for _ in range(rng.randint(1, 7)):
            k = rng.random(); c = rng.randrange(ncells); s_ = rng.randrange(nslots)
            if k < 0.3: ops.append('repl %d' % c)
            elif k < 0.38: ops.append('clear %d' % c)
            elif k < 0.62: ops.append('read %d' % c)
            elif k < 0.80: ops.append('hold %d %d' % (c, s_))
            elif k < 0.92: ops.append('drop %d' % s_)
            else: ops.append('deref %d' % s_)
        for _ in range(rng.choice([0, 0, 1, 1, 2])):   # enter/leave always paired
            i = rng.randrange(len(ops) + 1); ops.insert(i, 'enter'); ops.insert(rng.randrange(i + 1, len(ops) + 1), 'leave')
        prog.append(ops)
    return ({'cells': str(ncells), 'slots': str(nslots), 'flushes': '40', 'recl': recl}, prog)
GEBR_FIXED = {
 'GEBR_n2': ({'cells': '1', 'slots': '2', 'flushes': '40', 'recl': 'GEBR_n2'}, [['enter', 'repl 0', 'leave'], ['clear 0', 'enter', 'leave', 'read 0', 'hold 0 1'], ['drop 0', 'deref 0', 'repl 0', 'enter', 'leave']]),
 'GEBR_thresh': ({'cells': '1', 'slots': '1', 'flushes': '40', 'recl': 'GEBR_thresh'}, [['repl 0', 'enter', 'repl 0', 'read 0', 'leave', 'repl 0', 'read 0', 'deref 0'], ['enter', 'drop 0', 'enter', 'leave', 'leave'], ['read 0', 'deref 0', 'enter', 'leave', 'repl 0', 'read 0', 'repl 0']]),
 'GEBR_aband': ({'cells': '2', 'slots': '2', 'flushes': '40', 'recl': 'GEBR_aband'}, [['hold 0 0', 'drop 1', 'hold 1 1', 'drop 0', 'repl 0', 'enter', 'leave', 'deref 1'], ['repl 0', 'hold 1 1', 'repl 1', 'enter', 'read 1', 'leave'], ['repl 1', 'repl 0', 'repl 1', 'repl 1', 'repl 1', 'clear 0', 'hold 0 0', 'enter', 'leave']]),
}

def model_program(rng, with_exit, regions=False):
    nth = rng.choice([2, 3, 3]); ncells = rng.choice([1, 2, 2]); nslots = rng.choice([1, 2, 3])
    prog = []
    for _ in range(nth):
        ops = []
        for _ in range(rng.randint(1, 6)):
            k = rng.random(); c = rng.randrange(ncells); s = rng.randrange(nslots)
            if k < 0.3: ops.append('repl %d' % c)
            elif k < 0.38: ops.append('clear %d' % c)
            elif k < 0.65: ops.append('read %d' % c)
            elif k < 0.82: ops.append('hold %d %d' % (c, s))
            elif k < 0.92: ops.append('drop %d' % s)
            else: ops.append('deref %d' % s)
        if regions and rng.random() < 0.4:
            i = rng.randrange(len(ops) + 1); ops.insert(i, 'enter'); ops.insert(rng.randrange(i + 1, len(ops) + 1), 'leave')
        if with_exit: ops.append('exit')
        prog.append(ops)
    return ({'cells': str(ncells), 'slots': str(nslots), 'flushes': '12'}, prog)

EBR_FIXED = [
    ({'cells': '2', 'slots': '3', 'flushes': '8'}, [['repl 0', 'repl 0', 'read 1', 'repl 1'], ['hold 0 1', 'read 0', 'deref 1', 'drop 1', 'repl 0']]),
    ({'cells': '2', 'slots': '3', 'flushes': '12'}, [['repl 0'], ['repl 1'], ['read 0'] * 8, ['read 1'] * 8]),
    ({'cells': '2', 'slots': '3', 'flushes': '8'}, [['read 0'], ['read 0', 'read 1'], ['read 0', 'read 1']]),
]
QSBR_FIXED = [
    ({'cells': '2', 'slots': '3', 'flushes': '12'}, [['hold 1 0', 'repl 0'], ['read 0', 'read 0', 'read 0'], ['hold 1 1', 'repl 1']]),
    ({'cells': '2', 'slots': '3', 'flushes': '12'}, [['repl 0', 'repl 1'], ['hold 0 0', 'deref 0', 'read 1', 'drop 0'], ['enter', 'read 0', 'repl 0', 'leave']]),
]
LFRC_FIXED = [
    # recycled-node race: a stale unvalidated increment on a node that is destroyed, pushed, popped and published again
    ({'cells': '1', 'slots': '2', 'flushes': '2'}, [['read 0', 'read 0'], ['repl 0', 'repl 0', 'repl 0'], ['hold 0 0', 'deref 0', 'drop 0']]),
    ({'cells': '2', 'slots': '2', 'flushes': '2'}, [['hold 0 0', 'read 1', 'drop 0'], ['repl 0', 'repl 1', 'clear 0'], ['read 0', 'repl 1']]),
]
HE_FIXED = [
    # guards sharing one slot (same era), re-targeting with shared-slot release / set_era on the own slot, scan racing with acquisition
    ({'cells': '2', 'slots': '3', 'flushes': '2'}, [['hold 0 0', 'hold 0 1', 'repl 0', 'hold 1 0', 'hold 0 1', 'drop 0', 'drop 1', 'exit'], ['read 0', 'repl 1', 'clear 0', 'repl 0', 'exit']]),
    ({'cells': '1', 'slots': '3', 'flushes': '2'}, [['hold 0 0', 'hold 0 1', 'deref 0', 'hold 0 0', 'deref 1', 'hold 0 2', 'read 0', 'drop 1', 'deref 0', 'exit'], ['repl 0', 'repl 0', 'repl 0', 'exit'], ['repl 0', 'read 0', 'repl 0', 'exit']]),
    ({'cells': '2', 'slots': '3', 'flushes': '2'}, [['hold 0 0', 'hold 1 1', 'hold 0 2', 'read 1', 'hold 1 0', 'read 0', 'exit'], ['repl 1', 'repl 1', 'repl 1', 'repl 1', 'exit']]),
]
HP_FIXED = [
    ({'cells': '2', 'slots': '3', 'flushes': '2'}, [['hold 0 0', 'hold 1 1', 'hold 0 2', 'read 0', 'repl 1', 'drop 1', 'repl 1', 'exit'], ['repl 0', 'repl 1', 'exit'], ['repl 1', 'clear 0', 'clear 0', 'exit']]),
    ({'cells': '2', 'slots': '3', 'flushes': '2'}, [['hold 0 0', 'deref 0', 'deref 0', 'exit'], ['repl 0', 'repl 0', 'exit']]),
]

def model_ties(ctx, do_correspondence, tie_broken_sig):
    """trace correspondence of the EBR and HP models; returns the first broken tie or None"""
    rng, thorough, Hs = ctx['rng'], ctx['tier'] == 'thorough', ctx['H']
    tie = None
    k = 10 if thorough else 5
    if 'ebr' in Hs:
        cases = EBR_FIXED + [model_program(rng, False) for _ in range(k)]
        st = do_correspondence(ctx, 'ebr', Hs.pop('ebr'), cases, 8 if thorough else 4, 'epoch_based')
        tie = tie or tie_broken_sig(st, 'ebr')
    if 'qsbr' in Hs:
        cases = QSBR_FIXED + [model_program(rng, False, regions=True) for _ in range(k)]
        st = do_correspondence(ctx, 'qsbr', Hs.pop('qsbr'), cases, 8 if thorough else 4, 'quiescent_state_based')
        tie = tie or tie_broken_sig(st, 'qsbr')
    if 'lfrc' in Hs:
        cases = LFRC_FIXED + [model_program(rng, False) for _ in range(k)]
        st = do_correspondence(ctx, 'lfrc', Hs.pop('lfrc'), cases, 8 if thorough else 4, 'lock_free_ref_count')
        tie = tie or tie_broken_sig(st, 'lfrc')
    for alias, sfx in sorted(GEBR_ALIASES.items()):
        hn = 'gebr' + sfx
        if hn in Hs:
            cases = ([GEBR_FIXED[alias]] if alias in GEBR_FIXED else []) + [gebr_model_program(rng, alias) for _ in range(4 if thorough else 2)]
            st = do_correspondence(ctx, 'gebr', Hs.pop(hn), cases, 6 if thorough else 4, 'generic_epoch_based[%s]' % alias)
            tie = tie or tie_broken_sig(st, 'gebr')
    if 'stamp' in Hs:
        def stamp_model_program():
            nth = rng.choice([2, 3, 3]); ncells = rng.choice([1, 2, 2]); nslots = rng.choice([1, 2, 3])
            prog = []
            for _ in range(nth):
                ops = []
                for _ in range(rng.randint(1, 6)):
                    kk = rng.random(); c = rng.randrange(ncells); s_ = rng.randrange(nslots)
                    if kk < 0.3: ops.append('repl %d' % c)
                    elif kk < 0.38: ops.append('clear %d' % c)
                    elif kk < 0.62: ops.append('read %d' % c)
                    elif kk < 0.78: ops.append('hold %d %d' % (c, s_))
                    elif kk < 0.88: ops.append('drop %d' % s_)
                    elif kk < 0.93: ops.append('deref %d' % s_)
                    else: ops.append(rng.choice(['enter', 'leave']))
                if rng.random() < 0.4:
                    i = rng.randrange(len(ops) + 1); ops.insert(i, 'enter'); ops.insert(rng.randrange(i + 1, len(ops) + 1), 'leave')
                prog.append(ops)
            return ({'cells': str(ncells), 'slots': str(nslots), 'flushes': '4'}, prog)
        sfixed = [({'cells': '2', 'slots': '3', 'flushes': '2'}, [['hold 0 0', 'drop 0', 'read 1'], ['repl 0']]),
                  ({'cells': '1', 'slots': '1', 'flushes': '2'}, [['read 0'] * 6] * 3)]
        cases = sfixed + [stamp_model_program() for _ in range(k)]
        st = do_correspondence(ctx, 'stamp', Hs.pop('stamp'), cases, 8 if thorough else 4, 'stamp_it')
        tie = tie or tie_broken_sig(st, 'stamp')
    if 'he' in Hs:
        cases = HE_FIXED + [model_program(rng, True) for _ in range(k)]
        for cfg, prog in cases: cfg['flushes'] = '2'
        st = do_correspondence(ctx, 'he', Hs.pop('he'), cases, 8 if thorough else 4, 'hazard_eras')
        tie = tie or tie_broken_sig(st, 'he')
    if 'hp' in Hs:
        cases = HP_FIXED + [model_program(rng, True) for _ in range(k)]
        for cfg, prog in cases: cfg['flushes'] = '2'
        st = do_correspondence(ctx, 'hp', Hs.pop('hp'), cases, 8 if thorough else 4, 'hazard_pointer')
        tie = tie or tie_broken_sig(st, 'hp')
    return tie
