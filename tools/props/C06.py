"""C06 - Kirsch k-FIFO queues conserve elements with at most k-1 overtaking"""
import os
import xvlib as X
from xvlib import log
from props.common import *
from props.qcommon import *

RECL_QUICK = [('HPs<3>', '_hp'), ('EBR', '_ebr')]
RECL_ALL = RECL_QUICK + [('HEs<3>', '_he'), ('NEBR', '_nebr'), ('DEBRA', '_debra'), ('QSBR', '_qsbr'), ('STAMP', '_stamp')]
def harnesses(tier):
    return [('uq', ('XV_RECL=%s' % r,), False, sfx) for r, sfx in (RECL_ALL if tier == 'thorough' else RECL_QUICK)] + [('uq', ('XV_RECL=GC',), False, '_gc')]
HARNESSES = harnesses('quick')
PROPERTY_FILES = ['Properties_C06', 'Properties_C06_kfb', 'Properties_C06_kfq']
THEOREM_NOTES = {
    'scope': 'proved on a step-level model of kirsch_bounded_kfifo_queue (any k >= 1, any segment count >= 1, random start offsets as oracle values) tied by trace correspondence: conservation (no value popped twice, only pushed values, a value whose push returned true is never stranded outside the head..tail region, at quiescence stored ++ popped is a permutation of the committed values), pops take from the head segment (the part of the k-relaxation that is true of single steps), the empty verdict (no committed value stored at the instant of the re-check - stronger than fewer than k), the true weaker full verdict, slot history / tags, the generated (index, tag) word, solo termination with an explicit bound. The premature-full known finding is reproduced as a refuted lemma with a schedule that replays on the code. k-FIFO linearizability of whole histories and the unbounded kirsch_kfifo_queue are covered by the search with the exact k-FIFO oracle',
}
ASSUMPTIONS = [
    'SC interleavings only in this check; concurrent k-relaxation is explored with an exact k-FIFO linearizability check of every explored history, not proved',
    'the random start index (utils::random) is a recorded choice supplied through the XENIUM_VERIF_HOOKS hook',
    'configurations with k*num_segments > 2^16 are covered by the marked_idx theorem (index field is 32 bits wide) and, in the thorough tier / after a broken proof, by a 65k-operation regression run',
]

def replay(sig, V, wd):
    hs = X.build_harnesses(harnesses('thorough'))
    (st, det), out = X.replay_case(hs[sig.get('harness', 'uq_hp')][0], sig['case'], wd, ('--trace', '--max-steps', '20000000', '--spin', '100000'))
    print(out[-3000:]); print('REPLAY status=%d %s' % (st, det))
    return 1 if st != 0 else 0

def classify_for(name):
    def classify(ctx, harness, f):
        """pattern 'premature-full-after-rollback': the history is linearizable once 'full' answers are accepted
        unconditionally AND some try_push took its own insertion back (committed() rollback) in this execution"""
        out = {'harness': name, 'pattern': 'other'}
        if 'not linearizable' not in f.get('detail', '') or 'q=kfb' not in f.get('case', ''):
            return out
        (st, det), txt = X.replay_case(harness, f['case'], ctx['wd'], ('--trace',))
        rolled = False
        for l in X.trace_lines(txt):
            w = l.split()
            if len(w) >= 6 and w[1] == 'RMW' and w[3] == 'rlx' and w[4].startswith('&') and not w[5].startswith('&'):
                rolled = True
        relaxed = f['case'].replace('cfg ', 'cfg relaxfull=1 ', 1)
        (st2, det2), _ = X.replay_case(harness, relaxed, ctx['wd'], ())
        if rolled and st2 == 0:
            out['pattern'] = 'premature-full-after-rollback'
        return out
    return classify

def big_corpus(ctx, H):
    d = os.path.join(X.VERIF, 'corpus', 'C06', 'thorough')
    for f in sorted(os.listdir(d)):
        txt = open(os.path.join(d, f)).read()
        (st, det), out = X.replay_case(H, txt, ctx['wd'], ('--max-steps', '20000000', '--spin', '100000'))
        log('regression %s: status %d' % (f, st))
        if st != 0:
            report_impl(ctx, st, det, txt[:300] + ' ... (corpus/C06/thorough/%s)' % f, {'corpus': f})

def kfb_correspondence(ctx, harness, cases, per_case, model='kfb', label='kirsch_bounded', nchoices=80):
    """xvlib.correspondence with a recorded `choices` line (the random start offsets) in every case file"""
    import hashlib, concurrent.futures as cf
    wd, driver, rng = ctx['wd'], ctx['driver'], ctx['rng']
    jobs = []; cov = 0
    for ci, (cfg, prog) in enumerate(cases):
        choices = [rng.randrange(0, 200) for _ in range(nchoices)]
        base = wd.write(X.case_text(cfg, prog, None, choices))
        scheds, c = X.model_schedules(driver, model, base, per_case, ctx['seed'] * 7919 + 13 + ci)
        cov = max(cov, c)
        for s_ in scheds: jobs.append((cfg, prog, s_, choices))
    st = {'cases': len(jobs), 'programs': len(cases), 'steps': 0, 'mismatches': [], 'impl_violations': [], 'model_pcs_covered': cov, 'distinct': 0, 'samples': []}
    def one(job):
        cfg, prog, s_, choices = job
        txt = X.case_text(cfg, prog, s_, choices)
        return X.correspond_one(driver, model, harness, wd.write(txt)), txt
    with cf.ThreadPoolExecutor(max_workers=X.NPROC) as ex:
        for (same, diff, n, ist, idet), txt in ex.map(one, jobs):
            st['steps'] += n
            if not same: st['mismatches'].append({'case': txt, 'step': diff[0], 'model': diff[1], 'impl': diff[2]})
            if ist != 0: st['impl_violations'].append({'case': txt, 'status': ist, 'detail': idet})
            if len(st['samples']) < 2: st['samples'].append({'case': txt, 'agree': same, 'trace_lines': n})
    st['distinct'] = len(set(hashlib.sha1(X.case_text(c, p, s_, ch).encode()).hexdigest() for c, p, s_, ch in jobs))
    c = ctx['cov'].setdefault('correspondence', {})
    c[label] = {k: st[k] for k in ('cases', 'programs', 'steps', 'model_pcs_covered', 'distinct')}
    c[label]['mismatches'] = len(st['mismatches'])
    ctx['cov']['samples'] += st['samples'][:1]
    ctx['cov']['traces_validated_against_impl'] = ctx['cov'].get('traces_validated_against_impl', 0) + st['cases'] - len(st['mismatches'])
    log('correspondence[%s]: %d cases (%d programs), %d trace lines, %d mismatches, %d impl violations' % (label, st['cases'], st['programs'], st['steps'], len(st['mismatches']), len(st['impl_violations'])))
    for v in st['impl_violations'][:2]:
        f = dict(v); extra = classify_for('uq_gc')(ctx, harness, f) if 'classify_for' in globals() else None
        report_impl(ctx, v['status'], v['detail'], v['case'], extra)
    return st

def run(ctx):
    rng, tier = ctx['rng'], ctx['tier']
    thorough = tier == 'thorough'
    Hs = ctx['H']
    run_corpus(ctx, Hs['uq_hp'], 'C06')
    if thorough or ctx['proof_broken']:
        big_corpus(ctx, Hs['uq_hp'])     # targeted search after a broken proof obligation (index width)
    n = 2500 if thorough else 300
    # ---- tie: the bounded k-FIFO model reproduces the implementation's traces (recorded random start offsets included)
    Hgc = Hs.pop('uq_gc')
    cases = []
    for (k, segs) in [(1, 1), (1, 3), (2, 2), (2, 3), (3, 2)]:
        for i in range(2 if thorough else 1):
            cfgm = {'q': 'kfb', 'elem': 'ptr', 'k': str(k), 'segs': str(segs)}
            prog = queue_program(rng, 2 + (i + k) % 2, 3 + i, pushy=0.6)
            cases.append((cfgm, prog))
    st = kfb_correspondence(ctx, Hgc, cases, 8 if thorough else 4)
    tie = tie_broken_sig(st, 'kfb')
    # ---- tie: the unbounded k-FIFO model (Model/KfqDefs.v)
    qcases = [({'q': 'kf', 'elem': 'ptr', 'k': '1'}, [['pop'], ['push 1'], ['push 2']]),
              ({'q': 'kf', 'elem': 'ptr', 'k': '1'}, [['push 1', 'push 2'], ['push 3', 'pop']]),
              ({'q': 'kf', 'elem': 'ptr', 'k': '1'}, [['push 1'], ['pop'], ['pop']])]
    for i in range(8 if thorough else 4):
        k = rng.choice([1, 1, 2, 2, 3])
        qcases.append(({'q': 'kf', 'elem': 'ptr', 'k': str(k)}, queue_program(rng, rng.choice([2, 2, 3]), rng.randint(2, 4), pushy=rng.choice([0.45, 0.6, 0.75]))))
    stq = kfb_correspondence(ctx, Hgc, qcases, 8 if thorough else 4, model='kfq', label='kirsch_unbounded', nchoices=120)
    tie = tie or tie_broken_sig(stq, 'kfq')
    for name, H in sorted(Hs.items()):
        jobs = []
        for (k, segs) in [(1, 1), (1, 3), (2, 2), (3, 2)] + ([(4, 3), (2, 1)] if thorough else []):
            cfgb = {'q': 'kfb', 'elem': rng.choice(['ptr', 'uptr']), 'k': str(k), 'segs': str(segs)}
            if name == 'uq_hp':    # the bounded queue does not use a reclaimer: one harness is enough
                jobs += std_search_jobs(rng, cfgb, ctx['seed'], n, thorough, lambda: queue_program(rng, 2 + rng.randint(0, 1), 3))
                jobs.append((cfgb, [queue_program(rng, 1, 4 * k * segs + 6)[0]], 'opseq', 3, ctx['seed'], ()))
            cfg = {'q': 'kf', 'elem': rng.choice(['ptr', 'uptr']), 'k': str(k)}
            jobs += std_search_jobs(rng, cfg, ctx['seed'], n, thorough, lambda: queue_program(rng, 2 + rng.randint(0, 1), 3))
            jobs.append((cfg, [queue_program(rng, 1, 4 * k + 8)[0]], 'opseq', 3, ctx['seed'], ()))
        if name == 'uq_hp':
            # long enough to wrap the ring while pushers and poppers are delayed inside their operations (3-4 segments, k = 2):
            # the wrap-around cases of in_valid_region / not_in_valid_region
            for segs in (3, 4):
                cfgw = {'q': 'kfb', 'elem': 'ptr', 'k': '2', 'segs': str(segs)}
                for i in range(3 if thorough else 2):
                    prog = [['push %d' % v for v in range(1, 7)] + ['pop', 'pop'], ['pop'] * 5 + ['push 7', 'pop'], ['push 8', 'push 9', 'pop']]
                    if i: prog = queue_program(rng, 3, 7, pushy=0.55)
                    jobs.append((cfgw, prog, 'pct', 4 * n, ctx['seed'] + i, ('--depth', '3')))
                    jobs.append((cfgw, prog, 'random', 2 * n, ctx['seed'] + i, ()))
        do_search(ctx, H, jobs, name, classify=classify_for(name))
    return tie
