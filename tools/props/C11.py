"""C11 - vyukov_hash_map iterators: exclusive traversal, erase(iterator), no lost locks"""
import xvlib as X
from xvlib import log
from props.common import *
from props.vhmcommon import *

_base_harnesses = harnesses
def harnesses(tier):
    return _base_harnesses(tier) + [('vhm', ('XV_RECL=GC',), False, '_gc')]
HARNESSES = harnesses('quick')
PROPERTY_FILES = ['Properties_C11_vhm', 'Properties_C11']
THEOREM_NOTES = {
    'scope': 'the theorems are about a step-level model of ONE bucket of vyukov_hash_map<long, long> (constant hash, no grow): 3 array slots + extension items with their free list and lock, bucket.state = the word GENERATED from the source (lock bit, version, item count, delete marker), emplace / get_or_emplace / erase / extract / lock-free try_get_value plus the iterator operations find-as-iterator / begin / ++ / * / erase(iterator) / reset, for any number of threads, programs and schedules: lock discipline, structure when unlocked (abstract map = array pairs + chain pairs, keys distinct), chain and free list disjoint, the version rule (every step bumps the version or preserves what a reader may be standing on), writers linearize at the store that makes the change visible with the sequential result, and the main theorem: every completed try_get_value(k) has an instant inside the call at which the abstract map agreed with its answer (never absent for a key present throughout, never a value of another key); a positioned iterator holds the bucket lock exclusively also between operations, erase(iterator) removes exactly the current pair, reset and a completed traversal leave every bucket unlocked. Hypothesis of the reader theorems: fewer than 2^27 version bumps (the 27-bit version field can wrap). Tied to the code by trace correspondence (mode ll, GC reclaimer, extension-bucket offset probed per run). Multi-bucket maps, grow, non-trivial key/value storage modes and the real reclaimers are covered by the search only',
}
ASSUMPTIONS = [
    'SC interleavings only; iterator threads follow the documented rules (one iterator per thread, no other operation while it is positioned)',
    'a lost bucket lock shows up as an operation that never returns (spin detection / step budget, also in the final single-threaded traversal)',
]
def replay(sig, V, wd):
    hs = X.build_harnesses(harnesses('thorough'))
    (st, det), out = X.replay_case(hs[sig.get('harness', 'vhm_hp')][0], sig['case'], wd, ('--trace',))
    print(out[-3000:]); print('REPLAY status=%d %s' % (st, det))
    return 1 if st != 0 else 0

def run(ctx):
    rng, tier = ctx['rng'], ctx['tier']
    thorough = tier == 'thorough'
    Hs = ctx['H']
    run_corpus(ctx, Hs['vhm_hp'], 'C11')
    # ---- tie: the one-bucket model reproduces the implementation's traces
    Hgc = Hs.pop('vhm_gc')
    cases = list(VHMIT_FIXED) + [vhm_model_program(rng, iterators=True) for _ in range(8 if thorough else 4)]
    st = vhm_correspondence(ctx, 'vhmit', Hgc, cases, 8 if thorough else 5, 'vyukov_hash_map bucket + iterators')
    tie = tie_broken_sig(st, 'vhmit')
    n = 1500 if thorough else 200
    for name, H in sorted(Hs.items()):
        jobs = []
        for mode in (MODES if thorough else rng.sample(MODES, 3)):
            for cap, hsh, init in [(64, 'const', '1.2.3.4.5'), (2, 'mod2', '1.2.3.4.5.6.7.8'), (8, 'id', '1.2.3.9.17'), (1, 'id', '1.2')]:
                cfg = {'mode': mode, 'cap': str(cap), 'hash': hsh, 'init': init}
                # single-threaded sequences of begin/find/++/erase/reset mixed with ordinary operations
                seq = vhm_program(rng, 2, 9, keys=(1, 2, 3, 4, 5, 9), iter_thread=0)
                jobs.append((cfg, [seq[0] + seq[1] + ['trav']], 'opseq', 1, ctx['seed'], ()))
                if hsh == 'id' and cap >= 8:   # begin() and find(3) lock different buckets (one iterator per bucket at a time)
                    jobs.append((cfg, [['itb', 'itm 3', 'itr', 'ins 1 7', 'ins 65 8', 'ins 2 9', 'trav']], 'opseq', 1, ctx['seed'], ()))
                # one iterating/erasing thread against lock-free readers and writers
                for key in (2, 4):
                    jobs.append((cfg, [['itf %d' % key, 'ite', 'itr'], ['get 4'], ['get 5']], 'prefix', 90, ctx['seed'], ()))
                if hsh == 'const':
                    # erase(iterator) of an extension item (head / middle of the chain 6 -> 5 -> 4) while lock-free readers walk the chain
                    # towards a key behind it: the version bump must survive the iterator leaving the bucket
                    cfg6 = dict(cfg, init='1.2.3.4.5.6')
                    for key in (5, 6):
                        jobs.append((cfg6, [['itf %d' % key, 'ite', 'itr'], ['get 4'], ['get 4', 'get 5']], 'prefix', 120, ctx['seed'], ()))
                        jobs.append((cfg6, [['itf %d' % key, 'ite', 'itn', 'itr'], ['get 4', 'get 4'], ['get %d' % key]], 'dfs', n, ctx['seed'], ('--pb', '2')))
                    # erase(iterator) of every position reached by ++ from begin(): array slots, first / middle / last extension item
                    cfg7 = dict(cfg, init='1.2.3.4.5.6.7')
                    for j in range(7):
                        jobs.append((cfg7, [['itb'] + ['itn'] * j + ['ite', 'itn', 'ite', 'itr', 'trav']], 'opseq', 1, ctx['seed'], ()))
                if hsh == 'const' and cap == 64:
                    # version written back by the iterator on release (see C10): reader paused across release + removal + re-insertion
                    jobs.append((dict(cfg, cap='128', init='1.2.3.4'), [['itf 1', 'ite', 'itr', 'del 2', 'ins 6 60'], ['get 3']], 'dfs', 5000, ctx['seed'], ('--pb', '2')))
                jobs.append((cfg, vhm_program(rng, 3, 3, iter_thread=0), 'random', n, ctx['seed'], ()))
                jobs.append((cfg, vhm_program(rng, 3, 3, iter_thread=0), 'pct', n, ctx['seed'], ('--depth', '3')))
        do_search(ctx, H, jobs, name, classify=lambda c, h, f, name=name: {'harness': name})
    return tie
