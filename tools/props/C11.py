"""C11 - vyukov_hash_map iterators: exclusive traversal, erase(iterator), no lost locks"""
import xvlib as X
from xvlib import log
from props.common import *
from props.vhmcommon import *

HARNESSES = harnesses('quick')
LEVEL = 'exploration'
ASSUMPTIONS = [
    'SC interleavings only; iterator threads follow the documented rules (one iterator per thread, no other operation while it is positioned)',
    'a lost bucket lock shows up as an operation that never returns (spin detection / step budget, also in the final single-threaded traversal)',
]
def replay(sig, V, wd):
    hs = X.build_harnesses(harnesses('thorough'))
    (st, det), out = X.replay_case(hs[sig.get('harness', 'vhm_hp')][0], sig['case'], wd, ('--trace',))
    print(out[-3000:]); print('REPLAY status=%d %s' % (st, det))
    return 1 if st != 0 else 0

def run(ctx):
    rng, tier = ctx['rng'], ctx['tier']
    thorough = tier == 'thorough'
    Hs = ctx['H']
    run_corpus(ctx, Hs['vhm_hp'], 'C11')
    n = 1500 if thorough else 200
    for name, H in sorted(Hs.items()):
        jobs = []
        for mode in (MODES if thorough else rng.sample(MODES, 3)):
            for cap, hsh, init in [(64, 'const', '1.2.3.4.5'), (2, 'mod2', '1.2.3.4.5.6.7.8'), (8, 'id', '1.2.3.9.17'), (1, 'id', '1.2')]:
                cfg = {'mode': mode, 'cap': str(cap), 'hash': hsh, 'init': init}
                # single-threaded sequences of begin/find/++/erase/reset mixed with ordinary operations
                seq = vhm_program(rng, 2, 9, keys=(1, 2, 3, 4, 5, 9), iter_thread=0)
                jobs.append((cfg, [seq[0] + seq[1] + ['trav']], 'opseq', 1, ctx['seed'], ()))
                if hsh == 'id' and cap >= 8:   # begin() and find(3) lock different buckets (one iterator per bucket at a time)
                    jobs.append((cfg, [['itb', 'itm 3', 'itr', 'ins 1 7', 'ins 65 8', 'ins 2 9', 'trav']], 'opseq', 1, ctx['seed'], ()))
                # one iterating/erasing thread against lock-free readers and writers
                for key in (2, 4):
                    jobs.append((cfg, [['itf %d' % key, 'ite', 'itr'], ['get 4'], ['get 5']], 'prefix', 90, ctx['seed'], ()))
                if hsh == 'const':
                    # erase(iterator) of an extension item (head / middle of the chain 6 -> 5 -> 4) while lock-free readers walk the chain
                    # towards a key behind it: the version bump must survive the iterator leaving the bucket
                    cfg6 = dict(cfg, init='1.2.3.4.5.6')
                    for key in (5, 6):
                        jobs.append((cfg6, [['itf %d' % key, 'ite', 'itr'], ['get 4'], ['get 4', 'get 5']], 'prefix', 120, ctx['seed'], ()))
                        jobs.append((cfg6, [['itf %d' % key, 'ite', 'itn', 'itr'], ['get 4', 'get 4'], ['get %d' % key]], 'dfs', n, ctx['seed'], ('--pb', '2')))
                jobs.append((cfg, vhm_program(rng, 3, 3, iter_thread=0), 'random', n, ctx['seed'], ()))
                jobs.append((cfg, vhm_program(rng, 3, 3, iter_thread=0), 'pct', n, ctx['seed'], ('--depth', '3')))
        do_search(ctx, H, jobs, name, classify=lambda c, h, f, name=name: {'harness': name})
    return None
