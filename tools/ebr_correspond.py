#!/usr/bin/env python3
"""Trace correspondence of the epoch based reclamation model (coq/Model/EbrDefs.v) with the real code.

    ebr_correspond.py <driver> [--programs N] [--scheds K] [--seed S] [--harness /verif/build/h_ebr]

<driver> must contain the `ebr` instance (see the block in the final report / ocaml/driver.ml).  For N random client
programs (2-4 threads, ops repl/clear/read/hold/drop/deref on 1-3 cells, 1-3 guard slots) plus the fixed programs below,
K complete random schedules each are generated from the model (`driver ebr gen`), replayed on the harness and compared
line by line (xvlib.correspond_one).  The harness h_ebr names the reclaimer's statics; for build/h_recl_ebr (raw
addresses) pass --harness /verif/build/h_recl_ebr: the addresses are then named by their offset from the thread block
list head (the first static touched in every execution)."""
import sys, os, re, random, argparse
sys.path.insert(0, os.path.dirname(os.path.abspath(__file__)))
import xvlib as X

FIXED = [
    ({'cells': '2', 'slots': '3', 'flushes': '8'}, ['repl 0; repl 0; read 1; repl 1', 'hold 0 1; read 0; deref 1; drop 1; repl 0']),
    ({'cells': '2', 'slots': '3', 'flushes': '8'}, ['repl 0; repl 0; repl 0; repl 0', 'repl 0; read 0; repl 0', 'hold 0 0; hold 1 1; hold 0 1; drop 0']),
    ({'cells': '2', 'slots': '3', 'flushes': '8'}, ['clear 0; repl 0; clear 1; read 1; hold 1 2; repl 1; hold 1 2', 'hold 0 0; hold 0 0; hold 1 0; deref 0; drop 0; drop 0; deref 0']),
    ({'cells': '2', 'slots': '3', 'flushes': '12'}, ['repl 0', 'repl 1', 'read 0; read 0; read 0; read 0; read 0; read 0; read 0; read 0', 'read 1; read 1; read 1; read 1; read 1; read 1; read 1; read 1']),
    ({'cells': '2', 'slots': '3', 'flushes': '12'}, ['repl 0; repl 0; repl 1', 'repl 1; read 0; repl 0', 'read 0; read 0; read 0; read 0; read 0; read 0; read 0; read 0; repl 0', 'read 1; read 1; read 1; read 1; read 1; repl 1; read 1; read 1', 'read 1; repl 0']),
    ({'cells': '2', 'slots': '3', 'flushes': '8'}, ['read 0', 'read 0; read 1', 'read 0; read 1']),
]

def random_program(r):
    nth = r.choice([2, 3, 3, 4]); ncells = r.choice([1, 2, 2, 3]); nslots = r.choice([1, 2, 3])
    prog = []
    for _ in range(nth):
        ops = []
        for _ in range(r.randint(1, 7)):
            k = r.random(); c = r.randrange(ncells); s = r.randrange(nslots)
            if k < 0.3: ops.append('repl %d' % c)
            elif k < 0.38: ops.append('clear %d' % c)
            elif k < 0.65: ops.append('read %d' % c)
            elif k < 0.82: ops.append('hold %d %d' % (c, s))
            elif k < 0.92: ops.append('drop %d' % s)
            else: ops.append('deref %d' % s)
        prog.append('; '.join(ops))
    return ({'cells': str(ncells), 'slots': str(nslots), 'flushes': '12'}, prog)

def normalize_statics(lines):
    base = None
    for l in lines:
        m = re.search(r'\?0x([0-9a-f]+)', l)
        if m: base = int(m.group(1), 16); break
    names = {0: 'tbl_head', 0x80: 'global_epoch', -0x20: 'orphan0', -0x18: 'orphan1', -0x10: 'orphan2'}
    if base is None: return lines
    return [re.sub(r'\?0x([0-9a-f]+)', lambda m: names.get(int(m.group(1), 16) - base, m.group(0)), l) for l in lines]

if __name__ == '__main__':
    ap = argparse.ArgumentParser()
    ap.add_argument('driver'); ap.add_argument('--programs', type=int, default=20); ap.add_argument('--scheds', type=int, default=10)
    ap.add_argument('--seed', type=int, default=1); ap.add_argument('--harness', default='/verif/build/h_ebr')
    a = ap.parse_args()
    r = random.Random(a.seed)
    cases = list(FIXED) + [random_program(r) for _ in range(a.programs)]
    cases = [(cfg, [[o.strip() for o in p.split(';')] if isinstance(p, str) else p for p in prog]) for cfg, prog in cases]
    wd = X.Workdir()
    norm = normalize_statics if 'h_recl' in a.harness else None
    st = X.correspondence(a.driver, 'ebr', a.harness, cases, wd, a.scheds, a.seed, normalize=norm)
    print('programs=%d schedules=%d trace_lines=%d mismatches=%d impl_violations=%d model_pcs_covered=%d' %
          (st['programs'], st['cases'], st['steps'], len(st['mismatches']), len(st['impl_violations']), st['model_pcs_covered']))
    for m in st['mismatches'][:3]: print('MISMATCH', m)
    for m in st['impl_violations'][:3]: print('IMPL', m['status'], m['detail'])
    wd.close()
    sys.exit(1 if st['mismatches'] else 0)
