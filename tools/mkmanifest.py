#!/usr/bin/env python3
"""writes MANIFEST.json from the table below (kept in one place so it stays valid)"""
import json, os
V = os.path.abspath(os.path.join(os.path.dirname(__file__), '..'))
CLAIMED = {
 'C12': dict(
   text='Machine-checked theorems (Coq 8.16.1) about the index layer generated from the C++ source by tools/cxx2gallina.py and about a hand-written step-level model of try_push/try_pop/try_steal/grow; the model is tied to the code on every run by comparing, line by line, the atomic-access traces of the extracted model and of the real code under the xvrt scheduler on the same (program, schedule); a schedule search on the implementation with a conservation + linearizability oracle looks for concrete failing inputs.',
   note='Trusted: Coq kernel, translator, extraction (ExtrOcamlBasic), xvrt/harness for the tie. Proved for the model, not for the C++ code; SC interleavings only (weak memory: C03). Known finding C12-steal-overlaps-grow is reported as KNOWN-FINDING.',
   technique='Coq proof over generated + hand-written model; model/implementation trace correspondence; schedule search for failing inputs', design='5/C12'),
}
CLAIMED['C14'] = dict(
   text='Machine-checked theorems (Coq 8.16.1): the word count generated from seqlock.hpp covers every byte of T for all sizes; a step-level model of load/store/update (any number of readers and writers, any slot count, any word count, arbitrary update functor) with invariant theorems about atomicity of load. The model is tied to the code on every run by line-by-line comparison of atomic-access traces (model vs real code under xvrt) for sizes 9..40 bytes and 1..8 slots; a schedule search with a byte-exact atomic-register linearizability oracle looks for concrete failing inputs.',
   note='Trusted: Coq kernel, translator, extraction, xvrt/harness for the tie. Proved for the model; SC interleavings only (fences 6/7: C03). Misaligned T is outside the model (the storage is word aligned after the fix).',
   technique='Coq proof over generated word arithmetic + step-level model; trace correspondence; schedule search', design='5/C14')
CLAIMED['C13'] = dict(
   text='Machine-checked theorems (Coq 8.16.1) on a step-level model of left_right read/update (arrive/depart counters, indicator switch, version toggle, two waits, mutex): writer mutual exclusion; a read functor never runs on the instance being modified (for every number of threads below 2^64, every program and schedule); reads never return a mixture; every update is applied exactly once to both instances in the same order; read values are prefix sums of the update sequence. The model is tied to left_right.hpp on every run by line-by-line comparison of traces (atomic accesses, mutex operations, yields, functor steps) of the extracted model and the real code under xvrt; a schedule search (random, PCT, preemption-bounded DFS) with mixture / exactly-once / linearizability oracles looks for failing inputs.',
   note='Trusted: Coq kernel, extraction, xvrt/harness for the tie. Proved for the model with T={x,y} and additive functors; SC interleavings only (seq_cst reasoning under weak memory: C03). std::mutex modelled as atomic lock/unlock.',
   technique='Coq invariant proof over step-level model; trace correspondence; schedule search', design='5/C13')
CLAIMED['C05'] = dict(
   text='Step-level Coq model of vyukov_bounded_queue (strong and weak push/pop) tied to the code by trace correspondence on every run (capacities 2,4,8, wrap-arounds, strong/weak mixes); invariant theorems about ticket order and full/empty verdicts (Proof/VyukovInv.v when present); SCQ index arithmetic generated from nikolaev_scq.hpp. nikolaev_bounded_queue and all element kinds are covered by a schedule search with a bounded-FIFO linearizability oracle and an ownership census.',
   note='Trusted: Coq kernel, translator, extraction, xvrt/harness. Proved for the vyukov model only; nikolaev_bounded concurrent behaviour is explored, not proved. SC only.',
   technique='Coq proof over step-level model + generated index arithmetic; trace correspondence; schedule search', design='5/C05')
CLAIMED['C04'] = dict(
   text='Machine-checked theorems (Coq 8.16.1) on a step-level model of michael_scott_queue: chain invariant, FIFO conservation (dequeued ++ queued = enqueued, in linearization order) for any number of threads and every schedule, value of a successful pop, emptiness linearization point, no ABA on head. The model (over a reclaimer that never reuses a referenced node) is tied to michael_scott_queue.hpp on every run by trace correspondence. ramalhete_queue and nikolaev_queue (and michael_scott with the real reclaimers HP/EBR/LFRC..., small nodes, pop_retries 0..2) are covered by a schedule search with an exact FIFO linearizability check, conservation and use-after-free / double-free oracles; SCQ index arithmetic is generated from the source and proved (Proof/ScqIndex.v).',
   note='Trusted: Coq kernel, translator, extraction, xvrt/harness. Proved for the michael_scott model only; ramalhete/nikolaev concurrent linearizability is explored, not proved. SC only.',
   technique='Coq invariant proof over step-level model; trace correspondence; schedule search with linearizability oracle', design='5/C04')
CLAIMED['C06'] = dict(
   text='Machine-checked theorems about the head/tail (index, tag) word of kirsch_bounded_kfifo_queue generated from the source (round trip, 32-bit index field); both k-FIFO queues are covered by a schedule search (random, PCT, preemption-bounded DFS, all k/segment shapes incl. k=1 and one segment, recorded random start index) with an exact k-FIFO linearizability check (strict FIFO emptiness for sequential histories), conservation, and allocator oracles; configurations above 2^16 slots by a 65k-operation regression in the thorough tier or when the proof breaks.',
   note='Trusted: Coq kernel, translator, xvrt/harness. The proof part covers the index word only; conservation and the k-relaxation are explored, not proved. Known finding C06-kfb-full-after-own-rollback.',
   technique='Coq proof over generated index arithmetic; schedule search with k-FIFO linearizability oracle', design='5/C06')
CLAIMED['C07'] = dict(
   text='Machine-checked theorem about ramalhete_queue node destructor generated from the source: for every node size and every (pop_idx, push_idx) ticket state it destroys exactly the entries of the tickets in [pop, min(push, max)) once each; all queues x owning element kinds (Obj, unique_ptr) x small nodes x destruction with elements inside are covered by a schedule search whose ownership census uses tracked heap tokens (double destruction = double free, leak = live token).',
   note='Trusted: Coq kernel, translator, xvrt/harness. Proved for the generated destructor loop; the other destructors and roll-back paths are explored, not proved.',
   technique='Coq proof over generated destructor; schedule search with ownership census', design='5/C07')
for _p, _t in (('C09', 'Harris-Michael iterators'), ('C10', 'vyukov_hash_map'), ('C11', 'vyukov_hash_map iterators')):
    CLAIMED[_p] = dict(
       text='%s: the deciding part so far is a schedule search over the real code (random, PCT, preemption-bounded DFS, prefix sweeps, sequential op sequences; quarantine and reuse allocator modes; several reclaimers) with exact oracles: linearizability of every explored history against the set/map specification, final traversal and lock-free probes, iterator yield rules, use-after-free / double-free / lost-lock detection. The Coq obligations of this property are still placeholders (a monotonicity / positivity lemma); the structural theorems over a list/bucket model are work in progress.' % _t,
       note='Exploration with exact oracles, not a proof: the Coq part does not yet carry the property. SC interleavings only.',
       technique='schedule search with exact linearizability and memory oracles (Coq model pending)', design='5/' + _p, level='exploration')
CLAIMED['C15'] = dict(
   text='Machine-checked theorems (Coq 8.16.1) about marked_ptr generated from marked_ptr.hpp and utils.hpp, generic in MarkBits (1..32) and MaxUpperMarkBits: get/mark round trip, representation equality = (pointer, trimmed mark) equality, bit layout, rotate round trip - for all marks and all canonical pointers. The generated functions are also run against the compiled C++ for 14 instantiations on every run. The guard_ptr algebra (copy/move/swap/self-assignment/double reset, acquire / acquire_if_equal snapshot rules) is explored for every reclaimer with bounded random single-thread sequences and a concurrently replacing thread.',
   note='Trusted: Coq kernel, translator (mitigated by the differential run). The guard algebra part is exploration, not proof.',
   technique='Coq proof over generated marked_ptr arithmetic + differential run; schedule search for the guard algebra', design='5/C15')
for _p, _t in (('C01', 'safe reclamation'), ('C02', 'retired objects destroyed exactly once')):
    CLAIMED[_p] = dict(
       text='%s: decided so far by a schedule search over the real reclaimers (8 configurations in the quick tier, 20 in the thorough tier: static/dynamic HP and HE with K=1..3, EBR/NEBR/DEBRA and four further generic_epoch_based configurations, QSBR, Stamp-it, LFRC with and without thread-local free list) driven by a generic protocol-conforming client; strategies: random, PCT, preemption-bounded DFS, sequential generations, and a three-party phase sweep (holder / scanner-or-epoch-advancer / retire-and-exit); oracles: guarded node alive on every dereference, quarantine allocator (use-after-free, double free), census after a public-API flush, slot-exhaustion rules, bookkeeping growth. The Coq obligations of this property are still placeholders; the reclaimer models are work in progress.' % _t,
       note='Exploration with exact oracles, not a proof yet. SC interleavings only (fences: C03).',
       technique='schedule search with memory-safety / census / slot oracles (Coq model pending)', design='5/' + _p, level='exploration')
CLAIMED['C16'] = dict(
   text='Machine-checked solo-termination theorems (Coq 8.16.1, Conc/Solo.v: a thread that runs alone from ANY reachable state - all other threads stopped at arbitrary points inside their operations - finishes within an explicit bound, and none of its steps is disabled) for the five step-level models that are tied to the code by trace correspondence: chase deque try_push/try_pop/try_steal (fixed: 8 steps; growing: 12 + 2*capacity), left_right read (exactly 7), vyukov weak push/pop (5), michael_scott push/pop (12), seqlock load with slots > 1 (2*words + 4); the documented exceptions (strong vyukov operations, seqlock store/update and single-slot load, left_right update) are proved blocking from concrete reachable states, which shows the notion is not vacuous; thread_block_list acquire (2*records+5) is in C17. The implementation is run solo with exactly the proved budgets. All other lock-free operations (remaining queues, Harris-Michael containers and iterators, vyukov_hash_map::try_get_value, guard operations of all reclaimers) are decided by the solo search on the real code: random prefixes and a systematic sweep (thread a stopped after j operations + k steps, thread b alone), 5000-step budget, waiting detection.',
   note='Proved for the five models only; the other operations are explored, not proved. SC interleavings. Trusted: Coq kernel, extraction, xvrt/harness.',
   technique='Coq solo-termination proofs over step-level models + trace correspondence + proved budgets run on the implementation; solo-run search', design='0.2/C16')
CLAIMED['C17'] = dict(
   text='Machine-checked theorems (Coq 8.16.1) on a step-level model of thread_block_list (the per-thread record list every reclaimer shares): a record is never owned by two threads, records are never removed or duplicated, the number of records never exceeds the peak number of threads that were registering or registered at the same time (three stronger natural bounds are refuted by a concrete schedule that was replayed on the real code), a free record is reused, acquire terminates solo. Tied to thread_block_list.hpp by trace correspondence (harness/h_tbl.cpp). What each reclaimer does with its record (retire lists, slot blocks, hand-over at exit) is decided by the search: sequential generations of identical threads must not increase the number of live bookkeeping blocks between 6 and 12 generations (incl. a many-guards generation), overlapping generations run with the C01/C02 oracles.',
   note='Proved for the record list; per-reclaimer bookkeeping is explored. SC interleavings. Trusted: Coq kernel, extraction, xvrt/harness.',
   technique='Coq invariant proof over step-level model + trace correspondence; growth measurement and schedule search on the reclaimers', design='0.2/C17')
CLAIMED['C18'] = dict(
   text='Machine-checked theorems (Coq 8.16.1) on an executable model of the hazard pointer / hazard era slot pool and the guard_ptr operations on top of it, for every K >= 1, every number of guards and every operation sequence: the free list is exactly the unheld slots, guards hold distinct slots, a guard has a slot iff its pointer is non-null, an acquisition throws iff K slots are held by guards with non-null pointers and then leaves every other guard unchanged and the asking guard empty, reset / move / copy slot accounting, no leak after all resets, the dynamic strategy never throws (hazard eras: reference-counted shared slots). Tied to the code by a differential run on every check: random operation sequences on the model (vm_compute) and on the real guard_ptrs, comparing outcomes, slot indices, protected sets and free lists line by line. Three defects the proofs exposed were repaired in /repo. The multi-threaded side (scans see the protected objects, exhaustion under concurrent retirement) is covered by the search.',
   note='Sequential per-thread core proved; concurrent behaviour explored. Trusted: Coq kernel (vm_compute for the differential), harness.',
   technique='Coq proof over executable slot-pool/guard model + differential run against the real guard_ptrs; schedule search', design='0.2/C18')
CLAIMED['C08'] = dict(
   text='Machine-checked theorems (Coq 8.16.1) on a step-level model of harris_michael_list_based_set (emplace / emplace_or_get, erase(key), contains / find with helping and restarts) over a reclaimer that never reuses a referenced node: list structure (sorted, duplicate free, marks and next pointers of marked nodes frozen, retired = unlinked and marked), abstraction (abstract set = keys of unmarked reachable nodes), linearization points, every returned result equals the sequential-set answer at a state inside the call, exactly one of racing erases of a node succeeds, conservation at quiescence - for any number of threads, programs and schedules. Tied to the code by trace correspondence (GC reclaimer instance; harris_michael_hash_map with one bucket gives identical traces). Multi-bucket maps, get_or_emplace(_lazy), erase(iterator), hash memoization and the real reclaimers (ABA under reuse) are decided by the search with an exact linearizability oracle.',
   note='Proved for the list-based set model; the hash map wrappers and real reclaimers are explored. SC interleavings. Trusted: Coq kernel, extraction, xvrt/harness.',
   technique='Coq linearizability-style invariant proof over step-level model + trace correspondence; schedule search with exact linearizability oracle', design='0.2/C08')
CLAIMED['C03'] = dict(
   text='C++ memory model. Proved: (1) a theorem over a table GENERATED on every run from the numbered synchronisation annotations of all headers and the memory orders at the annotated statements (every site at least as strong as annotated, every pair release->acquire or sc<->sc, TSan variant); (2) the meta-theory of the view-based weak-memory machine the exploration runs on (well-formedness, coherence, message passing via acquire / fences / release sequences, store buffering excluded only by seq_cst fences, SC executions included, litmus non-vacuity); (3) for seqlock - the structure whose correctness rests on fences - load atomicity, update on the latest generation and writer exclusion on EVERY execution of the weak machine, any number of threads / words / slots, instantiated with the memory orders GENERATED from seqlock.hpp, with machine-checked counter-example executions for every weakened site. Decided by exploration for everything else: the real code of every container and reclaimer runs under rt/xvrt in weak mode (stale reads within a window, views, C++11 release sequences) and race mode (happens-before over plain accesses) with the SC oracles (conservation, happens-before-ordered linearizability, UAF, torn values, livelock).',
   note='Whole-algorithm robustness is proved for seqlock only and explored elsewhere (no load buffering, staleness window W=16 quick / 64 thorough). Known finding C03-kfb-weak-lost-element. Trusted: Coq kernel, the two generators, xvrt.',
   technique='Coq theorems (generated sync table, weak-memory machine meta-theory, seqlock on the weak machine with generated orders); weak-memory / race exploration of the real code', design='0.2/C03')
NOT_YET = {}
props = [json.loads(l) for l in open(os.path.join(V, 'properties.jsonl'))]
checks, na = [], []
for p in props:
    pid = p['id']
    if pid in CLAIMED:
        c = CLAIMED[pid]
        checks.append({
          'property_id': pid,
          'quick_cmd': 'python3 tools/check.py %s --tier quick' % pid,
          'thorough_cmd': 'python3 tools/check.py %s --tier thorough' % pid,
          'evidence_file': 'evidence/%s.json' % pid,
          'replay_cmd_template': 'python3 tools/check.py %s --replay {path}' % pid,
          'engine': 'xv',
          'level_claimed': {'category': c.get('level', 'proof'), 'text': c['text'], 'design_ref': 'DESIGN.md section ' + c['design']},
          'level_note': c['note'],
          'technique': c['technique'],
        })
    else:
        na.append({'property_id': pid, 'reason': NOT_YET.get(pid, 'check not built yet in this round of work (planned: Coq model + correspondence as described in DESIGN.md section 5); not claimed until its check exists')})
m = {
 'version': 1,
 'setup_cmd': 'bash tools/build.sh',
 'hooks': {'guard': 'XENIUM_VERIF_HOOKS', 'enable': 'harness TUs are compiled with -DXENIUM_VERIF_HOOKS (g++ -fsanitize=thread -U__SANITIZE_THREAD__, linked against rt/xvrt.o instead of libtsan)',
           'baseline_off_cmd': 'cmake --build /repo/_build --target gtest -j16 && ctest --test-dir /repo/_build -j8 --timeout 900', 'source_commits': ['6225813'], 'add_only': True},
 'engines': [{'name': 'xv', 'path': 'tools/check.py', 'serves_properties': sorted(CLAIMED), 'kind_free_text': 'Coq 8.16.1 proofs over generated and hand-written models + model/implementation trace correspondence under a TSan-interface runtime (rt/xvrt) + schedule search for failing inputs'}],
 'checks': checks,
 'notes': 'See DESIGN.md. Every check regenerates coq/gen from /repo, rebuilds its Coq cone (full .vo), rebuilds its harness against the current /repo tree, runs correspondence and search, and writes evidence/<id>.json.',
 'not_applicable': na,
}
json.dump(m, open(os.path.join(V, 'MANIFEST.json'), 'w'), indent=1)
print('claimed', sorted(CLAIMED), 'not claimed', [x['property_id'] for x in na])
