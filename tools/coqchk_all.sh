#!/bin/bash
# Re-checks every compiled property file (and everything it depends on) with Coq's independent checker and prints the
# axioms the whole development relies on.  Needs the .vo files (bash tools/build.sh).  Output: evidence/coqchk.txt
cd "$(dirname "$0")/../coq" || exit 2
mods=$(ls Properties/*.v | sed 's|Properties/\(.*\)\.v|XV.Properties.\1|' | tr '\n' ' ')
timeout 3600 coqchk -o -silent -Q . XV $mods > ../evidence/coqchk.txt 2>&1
rc=$?
tail -14 ../evidence/coqchk.txt
exit $rc
