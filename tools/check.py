#!/usr/bin/env python3
"""check.py <property> [--tier quick|thorough] [--replay path]   (cwd anywhere; honours VERIF_SEED, VERIF_TIER)

Decides one property (DESIGN.md section 7):
  1. regenerate coq/gen from /repo, rebuild Properties_<id>.vo (all proof obligations), scan for forbidden constructs
  2. rebuild the harness(es) against /repo's current working tree and the extracted model driver
  3. correspondence model <-> implementation (corpus, model-generated schedules, random programs)
  4. standing search on the implementation with the property's oracles
  5. verdict: KNOWN-FINDING / VIOLATION lines, evidence/<id>.json, exit code
"""
import argparse, importlib, json, os, random, re, sys, time
sys.path.insert(0, os.path.dirname(os.path.abspath(__file__)))
import xvlib as X
from xvlib import log


def corpus_cases(pid):
    d = os.path.join(X.VERIF, 'corpus', pid)
    out = []
    if os.path.isdir(d):
        for f in sorted(os.listdir(d)):
            if f.endswith('.case'):
                out.append((f, open(os.path.join(d, f)).read()))
    return out


def run_property(pid, tier, seed, replay=None):
    mod = importlib.import_module('props.' + pid)
    V = X.Verdict(pid, tier, seed)
    wd = X.Workdir()
    cov = {'obligations': 0, 'discharged': 0, 'checker_cmd': 'cd coq && coq_makefile -f _CoqProject <all .v> -o Makefile && make -k -j16 Properties/Properties_%s.vo  (coqc 8.16.1, full .vo build)' % pid,
           'trusted_base': list(X.TRUSTED_BASE_COMMON) + list(getattr(mod, 'TRUSTED_EXTRA', [])), 'theorems': {}, 'samples': []}
    try:
        if replay:
            sig = json.load(open(replay))
            return mod.replay(sig, V, wd)

        # ---- 1. Coq
        ok_gen, gen_msg = X.regenerate_gen()
        log('translator:', gen_msg.replace('\n', ' | ')[:400])
        cq = X.coq_property(pid, files=getattr(mod, 'PROPERTY_FILES', None))
        cov['obligations'] = len(cq['theorems']) + len(getattr(mod, 'COMPUTED_OBLIGATIONS', []))
        cov['discharged'] = len(cq['proved']) + (len(getattr(mod, 'COMPUTED_OBLIGATIONS', [])) if cq['proved'] else 0)
        cov['theorems'] = {t: cq['assumptions'].get(t, 'NOT PROVED') for t in cq['theorems']}
        cov['coq_build_s'] = cq.get('build_s')
        cov['theorem_notes'] = dict(getattr(mod, 'THEOREM_NOTES', {}))
        try:   # one source of truth for what the theorems cover: the claim text of MANIFEST.json (tools/mkmanifest.py)
            mf = json.load(open(os.path.join(X.VERIF, 'MANIFEST.json')))
            cov['theorem_notes']['scope'] = [c for c in mf['checks'] if c['property_id'] == pid][0]['level_claimed']['text']
        except Exception:
            pass
        log('coq: %d/%d theorems of %s check (%.0fs)' % (len(cq['proved']), len(cq['theorems']), ', '.join(os.path.basename(f) for f in cq.get('files', [])), cq.get('build_s', 0)))
        proof_broken = None
        if cq['forbidden']:
            log('FORBIDDEN constructs found: %s' % cq['forbidden'][:5])
            print('CHECK-BROKEN forbidden constructs in the Coq development: %s' % cq['forbidden'][:5])
            V.finish('proof', cov, ['check broken: forbidden constructs'])
            return 2
        if not ok_gen:
            proof_broken = {'kind': 'translator', 'detail': 'tools/cxx2gallina.py could not translate the current source: ' + gen_msg[-600:]}
        elif cq['failed']:
            proof_broken = {'kind': 'proof-obligation', 'detail': '%s no longer checks; first error: %s' % (', '.join(os.path.basename(f) for f in cq.get('files', [])), cq.get('first_error', '?')), 'theorems': cq['failed']}

        # ---- 2. builds
        specs = mod.harnesses(tier) if hasattr(mod, 'harnesses') else mod.HARNESSES
        hs = X.build_harnesses(specs)
        bad = {k: v[1] for k, v in hs.items() if v[0] is None}
        if bad:
            # the harness does not compile against the current tree: the tie cannot be checked
            k0 = sorted(bad)[0]
            V.report({'kind': 'harness-build', 'detail': 'harness %s does not compile against the current /repo tree: %s' % (k0, bad[k0][-800:]), 'case': ''}, no_input=True)
            return V.finish('proof', cov, [])
        H = {k: v[0] for k, v in hs.items()}
        driver, derr = X.build_driver()
        if driver is None:
            print('CHECK-BROKEN model driver does not build: ' + derr[-500:])
            V.finish('proof', cov, ['check broken: driver build'])
            return 2

        ctx = {'V': V, 'wd': wd, 'H': H, 'driver': driver, 'tier': tier, 'seed': seed, 'cov': cov, 'rng': random.Random(seed), 'proof_broken': proof_broken, 'pid': pid}

        # ---- 3+4. correspondence and search (property specific)
        tie_broken = mod.run(ctx)   # returns None or a signature dict describing a broken tie with no concrete failing input

        # ---- 5. proof / tie broken but nothing concrete found
        concrete = bool(V.violations) or bool(V.known_hits and ctx.get('known_explains_break'))
        if proof_broken and not V.violations:
            if not (V.known_hits and ctx.get('known_explains_break')):
                # targeted search already ran inside mod.run (it always runs); nothing new found
                V.report(dict(proof_broken, case=''), no_input=True)
        if tie_broken and not V.violations:
            V.report(tie_broken, no_input=True)
        assumptions = getattr(mod, 'ASSUMPTIONS', [])
        cov.setdefault('rule', 'programs come from per-property generators seeded by VERIF_SEED; schedules from random / PCT / preemption-bounded DFS / prefix sweeps over the real code under xvrt; a case counts as distinct when its (program, schedule, choices) differs, and as non-trivial when at least two threads (or a multi-operation sequence) actually interleave')
        cov.setdefault('evaluations', 0); cov.setdefault('distinct_nontrivial', 0)
        return V.finish(getattr(mod, 'LEVEL', 'proof'), cov, assumptions)
    finally:
        wd.close()


def main():
    ap = argparse.ArgumentParser()
    ap.add_argument('pid')
    ap.add_argument('--tier', default=os.environ.get('VERIF_TIER', 'quick'))
    ap.add_argument('--replay')
    a = ap.parse_args()
    seed = int(os.environ.get('VERIF_SEED', '1'))
    tier = a.tier if a.tier in ('quick', 'thorough') else 'quick'
    t0 = time.time()
    rc = run_property(a.pid, tier, seed, a.replay)
    log('%s tier=%s seed=%d done in %.0fs rc=%d' % (a.pid, tier, seed, time.time() - t0, rc))
    sys.exit(rc)


if __name__ == '__main__':
    main()
