"""xvlib - shared machinery of the /verif checks (see DESIGN.md section 7).

A check (tools/check.py <ID>) is assembled from these stages:
  coq_stage      regenerate coq/gen/*.v from /repo, build the property's Coq cone (full .vo), collect
                 theorem status + Print Assumptions, scan for forbidden constructs
  build_harness  compile harness/h_<x>.cpp against /repo's working tree with the xvrt runtime
  correspondence run the extracted model and the implementation on the same (program, schedule) and diff
  search         schedule exploration of the implementation with the property's oracles
  verdict        known findings / VIOLATION lines / evidence file
"""
import concurrent.futures as cf
import hashlib, json, os, random, re, shutil, subprocess, sys, tempfile, time

VERIF = os.path.abspath(os.path.join(os.path.dirname(__file__), '..'))
REPO = os.environ.get('XV_REPO', '/repo')
BUILD = os.path.join(VERIF, 'build')
COQ = os.path.join(VERIF, 'coq')
NPROC = int(os.environ.get('XV_NPROC', '16'))
FORBIDDEN = re.compile(r'\b(Admitted|admit|Axiom|Parameter|Conjecture|Unset Guard|bypass_check|type-in-type|impredicative-set|Admit Obligations)\b')

def sh(cmd, timeout=600, cwd=None, env=None, input=None):
    try:
        r = subprocess.run(cmd, shell=isinstance(cmd, str), cwd=cwd, env=env, capture_output=True, text=True, timeout=timeout, input=input)
        return r.returncode, r.stdout, r.stderr
    except subprocess.TimeoutExpired as e:
        return -9, (e.stdout or b'').decode() if isinstance(e.stdout, bytes) else (e.stdout or ''), 'TIMEOUT'

def log(*a):
    print('[check]', *a, flush=True)

# ------------------------------------------------------------------------------------------------
# Coq
# ------------------------------------------------------------------------------------------------
def regenerate_gen():
    """runs the translator; returns (ok, message)"""
    os.makedirs(os.path.join(COQ, 'gen'), exist_ok=True)
    rc, out, err = sh([sys.executable, os.path.join(VERIF, 'tools', 'cxx2gallina.py'), os.path.join(COQ, 'gen')], timeout=600)
    st_ok = True
    msg = out.strip()
    if os.path.exists(os.path.join(VERIF, 'tools', 'synctable.py')):
        rc2, out2, err2 = sh([sys.executable, os.path.join(VERIF, 'tools', 'synctable.py'), os.path.join(COQ, 'gen')], timeout=300)
        st_ok = rc2 == 0
        msg += '\n' + out2.strip() + err2.strip()
    if os.path.exists(os.path.join(VERIF, 'tools', 'seqlockorders.py')):
        rc3, out3, err3 = sh([sys.executable, os.path.join(VERIF, 'tools', 'seqlockorders.py'), os.path.join(COQ, 'gen')], timeout=60)
        st_ok = st_ok and rc3 == 0
        msg += '\n' + out3.strip() + err3.strip()
    if os.path.exists(os.path.join(VERIF, 'tools', 'vyukovorders.py')):
        rc4, out4, err4 = sh([sys.executable, os.path.join(VERIF, 'tools', 'vyukovorders.py'), os.path.join(COQ, 'gen')], timeout=60)
        st_ok = st_ok and rc4 == 0
        msg += '\n' + out4.strip() + err4.strip()
    return rc == 0 and st_ok, msg + err.strip()

def coq_files():
    out = []
    for d, _, fs in os.walk(COQ):
        for f in fs:
            if f.endswith('.v'):
                out.append(os.path.relpath(os.path.join(d, f), COQ))
    return sorted(out)

def coq_makefile():
    files = coq_files()
    listing = '\n'.join(files)
    stamp = os.path.join(COQ, '.files.stamp')
    if not os.path.exists(os.path.join(COQ, 'Makefile')) or not os.path.exists(stamp) or open(stamp).read() != listing:
        sh(['coq_makefile', '-f', '_CoqProject'] + files + ['-o', 'Makefile'], cwd=COQ)
        open(stamp, 'w').write(listing)

def coq_build(targets, timeout=3000):
    """make -k the given .vo targets (relative to coq/). Returns (ok, log)"""
    coq_makefile()
    rc, out, err = sh(['make', '-k', '-j%d' % NPROC] + targets, cwd=COQ, timeout=timeout)
    return rc == 0, out + err

def coq_property(pid, timeout=3000, files=None):
    """Build Properties_<pid>.vo (and the further property files of this property); return dict with theorems, proved,
    assumptions, errors.  Each property file is built by its own make call so that the Print Assumptions blocks in the
    output can be attributed to its theorems in order."""
    rels = ['Properties/%s.v' % f for f in (files or ['Properties_%s' % pid])]
    res = {'file': rels[0], 'files': rels, 'theorems': [], 'proved': [], 'failed': [], 'assumptions': {}, 'log': '', 'forbidden': [], 'build_s': 0.0}
    # forbidden constructs anywhere in the development (comments stripped)
    # every committed file of the development is scanned (untracked files are work in progress and are not
    # part of any build target until they are committed and imported)
    rc_, tracked, _ = sh(['git', 'ls-files', 'coq'], cwd=VERIF)
    tracked = set(os.path.relpath(x, 'coq') for x in tracked.split()) if rc_ == 0 and tracked.strip() else None
    for f in coq_files():
        if tracked is not None and f not in tracked and not f.startswith('gen/'):
            continue
        txt = open(os.path.join(COQ, f)).read()
        txt = re.sub(r'\(\*.*?\*\)', '', txt, flags=re.S)
        for m in FORBIDDEN.finditer(txt):
            res['forbidden'].append('%s: %s' % (f, m.group(0)))
    for rel in rels:
        src = open(os.path.join(COQ, rel)).read()
        ths = re.findall(r'^\s*(?:Theorem|Corollary)\s+([A-Za-z0-9_\']+)', src, re.M)
        res['theorems'] += ths
        vo = rel[:-2] + '.vo'
        try:
            os.remove(os.path.join(COQ, vo))
        except FileNotFoundError:
            pass
        t0 = time.time()
        ok, lg = coq_build([vo], timeout)
        res['log'] += lg[-6000:]
        res['build_s'] = round(res['build_s'] + time.time() - t0, 1)
        if ok and os.path.exists(os.path.join(COQ, vo)):
            res['proved'] += ths
            # Print Assumptions output: "Closed under the global context" or "Axioms:" blocks, in order
            blocks = re.split(r'(?=Closed under the global context|Axioms:)', lg)
            blocks = [b for b in blocks if b.startswith('Closed under') or b.startswith('Axioms:')]
            blocks = blocks[-len(ths):] if ths else []
            for name, b in zip(ths, blocks):
                if b.startswith('Closed'):
                    res['assumptions'][name] = 'Closed under the global context'
                else:
                    ax = re.findall(r'^([A-Za-z0-9_\.\']+)\s*:', b, re.M)
                    res['assumptions'][name] = 'Axioms: ' + ', '.join(ax)
        else:
            # which theorems of the property file fail?  The property file only contains `exact lemma`, so a
            # failure is a failing dependency: report the first error
            m = re.search(r'File "\./([^"]+)", line (\d+).*?\n(Error:.*?)(?:\n\n|\Z)', lg, re.S)
            res['failed'] += ths
            if 'first_error' not in res:
                res['first_error'] = (m.group(1) + ':' + m.group(2) + ' ' + m.group(3)[:600]) if m else lg[-800:]
    return res

# ------------------------------------------------------------------------------------------------
# builds
# ------------------------------------------------------------------------------------------------
def build_rt():
    os.makedirs(BUILD, exist_ok=True)
    src = os.path.join(VERIF, 'rt', 'xvrt.cpp')
    obj = os.path.join(BUILD, 'xvrt.o')
    if not os.path.exists(obj) or os.path.getmtime(obj) < max(os.path.getmtime(src), os.path.getmtime(os.path.join(VERIF, 'rt', 'xvrt.hpp'))):
        rc, out, err = sh(['g++', '-std=c++17', '-O1', '-g', '-c', src, '-o', obj], timeout=300)
        if rc != 0:
            raise RuntimeError('xvrt build failed: ' + err[-2000:])
    return obj

def build_harness(name, defines=(), tsan_orders=False, suffix=''):
    """compile harness/h_<name>.cpp against the CURRENT /repo tree. Always rebuilt (the sources under /repo may have changed)."""
    obj_rt = build_rt()
    src = os.path.join(VERIF, 'harness', 'h_%s.cpp' % name)
    out = os.path.join(BUILD, 'h_%s%s' % (name, suffix))
    obj = out + '.o'
    flags = ['-std=c++17', '-O1', '-g', '-fsanitize=thread', '-DNDEBUG', '-DXENIUM_VERIF_HOOKS', '-I' + REPO, '-I' + os.path.join(VERIF, 'harness')]
    if not tsan_orders:
        flags.append('-U__SANITIZE_THREAD__')
    flags += ['-D' + d for d in defines]
    rc, o, e = sh(['g++'] + flags + ['-c', src, '-o', obj], timeout=600)
    if rc != 0:
        return None, e[-3000:]
    rc, o, e = sh(['g++', obj, obj_rt, '-o', out, '-lpthread', '-ldl'], timeout=300)
    if rc != 0:
        return None, e[-3000:]
    return out, ''

def build_harnesses(specs):
    """specs: list of (name, defines, tsan_orders, suffix); parallel; returns {name+suffix: (path, err)}"""
    build_rt()
    res = {}
    with cf.ThreadPoolExecutor(max_workers=NPROC) as ex:
        futs = {ex.submit(build_harness, *s): s for s in specs}
        for f in cf.as_completed(futs):
            s = futs[f]
            res[s[0] + s[3]] = f.result()
    return res

def build_driver():
    """extraction (part of the Coq build: Extract/Extract.vo writes one .ml per Coq module into coq/) + ocamlopt"""
    vo = os.path.join(COQ, 'Extract', 'Extract.vo')
    try:
        os.remove(vo)   # force re-extraction from the current models
    except FileNotFoundError:
        pass
    ok, lg = coq_build(['Extract/Extract.vo'])
    oc = os.path.join(VERIF, 'ocaml')
    gen = os.path.join(oc, 'gen')
    os.makedirs(gen, exist_ok=True)
    moved = False
    for f in os.listdir(COQ):
        if f.endswith('.ml') or f.endswith('.mli'):
            new = open(os.path.join(COQ, f)).read()
            dst = os.path.join(gen, f)
            if not os.path.exists(dst) or open(dst).read() != new:
                open(dst, 'w').write(new)
                moved = True
            os.remove(os.path.join(COQ, f))
    if not ok or not os.path.exists(os.path.join(gen, 'Lts.ml')):
        return None, 'extraction failed: ' + lg[-2000:]
    drv = os.path.join(BUILD, 'driver')
    srcs = sorted(os.path.join('gen', f) for f in os.listdir(gen) if f.endswith('.ml') or f.endswith('.mli'))
    newest = max(os.path.getmtime(os.path.join(oc, s)) for s in srcs + ['driver.ml'])
    if moved or not os.path.exists(drv) or os.path.getmtime(drv) < newest:
        rc, o, e = sh(['ocamlfind', 'ocamldep', '-sort', '-I', 'gen'] + srcs, cwd=oc, timeout=120)
        order = o.split()
        rc, o, e = sh(['ocamlfind', 'ocamlopt', '-w', '-a', '-I', 'gen'] + order + ['driver.ml', '-o', drv], cwd=oc, timeout=600)
        if rc != 0:
            return None, e[-3000:]
    return drv, ''

# ------------------------------------------------------------------------------------------------
# cases
# ------------------------------------------------------------------------------------------------
def case_text(cfg, prog, sched=None, choices=None, prefix=None):
    s = 'cfg ' + ' '.join('%s=%s' % kv for kv in sorted(cfg.items())) + '\n'
    for i, ops in enumerate(prog):
        s += 'thread %d: %s\n' % (i + 1, '; '.join(ops))
    if sched:
        s += 'sched ' + ' '.join(map(str, sched)) + '\n'
    if choices:
        s += 'choices ' + ' '.join(map(str, choices)) + '\n'
    if prefix:
        s += 'prefix ' + ' '.join('%d %d' % p for p in prefix) + '\n'
    return s

def parse_case_text(txt):
    cfg, prog, sched, choices = {}, [], [], []
    for line in txt.splitlines():
        line = line.strip()
        if line.startswith('cfg'):
            for kv in line.split()[1:]:
                k, v = kv.split('=', 1); cfg[k] = v
        elif line.startswith('thread'):
            head, rest = line.split(':', 1)
            t = int(head.split()[1])
            while len(prog) < t: prog.append([])
            prog[t - 1] = [o.strip() for o in rest.split(';') if o.strip()]
        elif line.startswith('sched'):
            sched = list(map(int, line.split()[1:]))
        elif line.startswith('choices'):
            choices = list(map(int, line.split()[1:]))
    return cfg, prog, sched, choices

class Workdir:
    def __init__(self):
        self.d = tempfile.mkdtemp(prefix='xvchk')
        self.n = 0
    def path(self, suffix='.case'):
        self.n += 1
        return os.path.join(self.d, 'c%06d%s' % (self.n, suffix))
    def write(self, text, suffix='.case'):
        p = self.path(suffix)
        open(p, 'w').write(text)
        return p
    def close(self):
        shutil.rmtree(self.d, ignore_errors=True)

# ------------------------------------------------------------------------------------------------
# correspondence
# ------------------------------------------------------------------------------------------------
def model_schedules(driver, model, case_path, n, seed):
    rc, out, err = sh([driver, model, 'gen', case_path, str(n), str(seed)], timeout=120)
    scheds = [list(map(int, l.split()[1:])) for l in out.splitlines() if l.startswith('SCHED')]
    cov = re.search(r'COVERED (\d+)', out)
    return scheds, int(cov.group(1)) if cov else 0

def trace_lines(out, drop_main=True, drop_alloc=False):
    ls = []
    for l in out.splitlines():
        if not l.startswith('TRACE '):
            continue
        l = l[6:]
        if drop_main and l.startswith('T0 '):
            continue
        if drop_alloc and (' ALLOC ' in l or ' FREE ' in l):
            continue
        ls.append(l)
    return ls

def correspond_one(driver, model, harness, case_path, extra_h=(), drop_alloc=False, normalize=None):
    """returns (same, first_diff, nsteps, model_lines, impl_lines)"""
    rc1, mo, me = sh([driver, model, 'run', case_path], timeout=60)
    # the schedule comes from the model, where a waiting thread may take any number of consecutive re-read steps: the runtime's
    # spin detection (which would stop scheduling such a thread and make the replay diverge) is switched off for these runs
    rc2, io, ie = sh([harness, 'run', case_path, '--trace', '--spin', '1000000'] + list(extra_h), timeout=60)
    ml, il = trace_lines(mo, drop_alloc=drop_alloc), trace_lines(io, drop_alloc=drop_alloc)
    if normalize:
        ml, il = normalize(ml), normalize(il)
    res = re.search(r'^RESULT (\d+) ?(.*)$', io, re.M)
    impl_status = int(res.group(1)) if res else -1
    impl_detail = res.group(2) if res else (ie[-300:] or 'no RESULT line (rc=%d)' % rc2)
    mend = re.search(r'MODEL-END skipped=(\d+) ops_left=(\d+)', mo)
    n = min(len(ml), len(il))
    diff = None
    for i in range(n):
        if ml[i] != il[i]:
            diff = (i, ml[i], il[i]); break
    if diff is None and len(ml) != len(il):
        diff = (n, ml[n] if n < len(ml) else '<end of model trace>', il[n] if n < len(il) else '<end of implementation trace>')
    if diff is None and mend and (mend.group(1) != '0'):
        diff = (n, 'model skipped %s schedule entries' % mend.group(1), '')
    if rc1 != 0 and diff is None:
        diff = (0, 'model driver failed: ' + me[-200:], '')
    return diff is None, diff, len(il), impl_status, impl_detail

def correspondence(driver, model, harness, cases, wd, scheds_per_case, seed, extra_h=(), drop_alloc=False, normalize=None, max_workers=NPROC):
    """cases: list of (cfg, prog). Returns dict(stats)."""
    jobs = []
    total_cov = 0
    for ci, (cfg, prog) in enumerate(cases):
        base = wd.write(case_text(cfg, prog))
        scheds, cov = model_schedules(driver, model, base, scheds_per_case, seed + ci)
        total_cov = max(total_cov, cov)
        for s in scheds:
            jobs.append((cfg, prog, s, wd.write(case_text(cfg, prog, s))))
    stats = {'cases': len(jobs), 'programs': len(cases), 'steps': 0, 'mismatches': [], 'impl_violations': [], 'model_pcs_covered': total_cov, 'distinct': 0, 'samples': []}
    seen = set()
    with cf.ThreadPoolExecutor(max_workers=max_workers) as ex:
        futs = {ex.submit(correspond_one, driver, model, harness, j[3], extra_h, drop_alloc, normalize): j for j in jobs}
        for f in cf.as_completed(futs):
            cfg, prog, s, path = futs[f]
            same, diff, n, ist, idet = f.result()
            stats['steps'] += n
            key = hashlib.sha1((case_text(cfg, prog, s)).encode()).hexdigest()
            if key not in seen and len(s) > 1:
                seen.add(key)
            if not same:
                stats['mismatches'].append({'case': case_text(cfg, prog, s), 'step': diff[0], 'model': diff[1], 'impl': diff[2]})
            if ist not in (0,):
                stats['impl_violations'].append({'case': case_text(cfg, prog, s), 'status': ist, 'detail': idet})
            if len(stats['samples']) < 2:
                stats['samples'].append({'case': case_text(cfg, prog, s), 'agree': same, 'trace_lines': n})
    stats['distinct'] = len(seen)
    return stats

# ------------------------------------------------------------------------------------------------
# search on the implementation
# ------------------------------------------------------------------------------------------------
def explore_one(harness, case_path, strategy, n, seed, extra=()):
    cmd = [harness, 'explore', case_path, '--strategy', strategy, '--n', str(n), '--seed', str(seed), '--maxfound', '4'] + list(extra)
    rc, out, err = sh(cmd, timeout=1800)
    found = []
    for m in re.finditer(r'FOUND status=(\d+) detail=([^\n]*)\nCASE-BEGIN\n(.*?)CASE-END', out, re.S):
        found.append({'status': int(m.group(1)), 'detail': m.group(2).strip(), 'case': m.group(3)})
    ex = re.search(r'EXPLORED strategy=(\S+) executions=(\d+) distinct_schedules=(\d+) steps=(\d+) timeouts=(\d+) stale_reads=(\d+)', out)
    st = {'executions': int(ex.group(2)) if ex else 0, 'distinct': int(ex.group(3)) if ex else 0, 'steps': int(ex.group(4)) if ex else 0, 'timeouts': int(ex.group(5)) if ex else 0, 'stale': int(ex.group(6)) if ex else 0,
          'exhaustive': 'exhaustive' in out}
    if rc not in (0, 1) and not found and not ex:
        st['error'] = (err or out)[-300:]
    return found, st

def search(harness, jobs, wd, max_workers=NPROC, stop_after=None):
    """jobs: list of (cfg, prog, strategy, n, seed, extra). Returns (findings, stats)"""
    findings, agg = [], {'executions': 0, 'distinct': 0, 'steps': 0, 'timeouts': 0, 'stale': 0, 'jobs': len(jobs), 'exhaustive_jobs': 0, 'errors': []}
    with cf.ThreadPoolExecutor(max_workers=max_workers) as ex:
        futs = {}
        for (cfg, prog, strat, n, seed, extra) in jobs:
            p = wd.write(case_text(cfg, prog))
            futs[ex.submit(explore_one, harness, p, strat, n, seed, extra)] = (cfg, prog, strat)
        for f in cf.as_completed(futs):
            found, st = f.result()
            for k in ('executions', 'distinct', 'steps', 'timeouts', 'stale'):
                agg[k] += st[k]
            if st.get('exhaustive'):
                agg['exhaustive_jobs'] += 1
            if 'error' in st:
                agg['errors'].append(st['error'])
            for fd in found:
                fd['strategy'] = futs[f][2]
                findings.append(fd)
    return findings, agg

def replay_case(harness, case_txt, wd, extra=()):
    p = wd.write(case_txt)
    rc, out, err = sh([harness, 'run', p] + list(extra), timeout=120)
    res = re.search(r'^RESULT (\d+) ?(.*)$', out, re.M)
    return (int(res.group(1)), res.group(2)) if res else (-1, 'no result rc=%d %s' % (rc, err[-200:])), out

# ------------------------------------------------------------------------------------------------
# known findings, verdict, evidence
# ------------------------------------------------------------------------------------------------
def load_known():
    p = os.path.join(VERIF, 'known_findings.json')
    if not os.path.exists(p):
        return {'findings': [], 'fixed': []}
    return json.load(open(p))

def match_known(pid, signature, known):
    """signature: dict(kind=..., detail=..., case=...) ; a known finding matches if its 'match' regexes all match"""
    for k in known.get('findings', []):
        if k.get('property') != pid:
            continue
        ok = True
        for field, rx in k.get('match', {}).items():
            if not re.search(rx, str(signature.get(field, '')), re.S):
                ok = False; break
        if ok:
            return k
    return None

class Verdict:
    def __init__(self, pid, tier, seed):
        self.pid, self.tier, self.seed = pid, tier, seed
        self.t0 = time.time()
        self.violations = []   # (replay_path, text)
        self.known_hits = []
        self.known = load_known()
        self.replay_dir = os.path.join(VERIF, 'evidence', 'replay')
        os.makedirs(self.replay_dir, exist_ok=True)
        self.n = 0
        self.coverage = {}
        self.assumptions = []

    def report(self, signature, no_input=False):
        """signature: kind, detail, case (text), plus free fields. Decides known / new."""
        k = match_known(self.pid, signature, self.known)
        if k and not no_input:
            if k['id'] not in [h['id'] for h in self.known_hits]:
                self.known_hits.append(k)
                print('KNOWN-FINDING: property=%s %s' % (self.pid, k['what']), flush=True)
            return False
        self.n += 1
        path = os.path.join(self.replay_dir, '%s-%d.json' % (self.pid, self.n))
        json.dump(signature, open(path, 'w'), indent=1)
        rel = os.path.relpath(path, VERIF)
        self.violations.append(rel)
        print('VIOLATION property=%s replay=%s%s' % (self.pid, rel, ' no-failing-input-found' if no_input else ''), flush=True)
        print('  ' + str(signature.get('kind')) + ': ' + str(signature.get('detail'))[:500], flush=True)
        return True

    def finish(self, level, coverage, assumptions):
        # every listed finding of this property is announced on every run (reproduced in this run or not)
        for k in self.known.get('findings', []):
            if k.get('property') == self.pid and k['id'] not in [h['id'] for h in self.known_hits]:
                print('KNOWN-FINDING: property=%s %s (listed in known_findings.json; not reproduced by this run)' % (self.pid, k['what']), flush=True)
        ev = {
            'property_id': self.pid, 'tier': self.tier, 'seed': self.seed, 'level': level,
            'coverage': coverage, 'assumptions': assumptions, 'wall_s': round(time.time() - self.t0, 1),
            'violations': len(self.violations),
            'known_findings_seen': [k['id'] for k in self.known_hits],
        }
        os.makedirs(os.path.join(VERIF, 'evidence'), exist_ok=True)
        json.dump(ev, open(os.path.join(VERIF, 'evidence', '%s.json' % self.pid), 'w'), indent=1)
        return 1 if self.violations else 0

TRUSTED_BASE_COMMON = [
    'Coq 8.16.1 kernel (coqc, full .vo build); vm_compute used for finite computations; native_compute not used',
    'no Axiom/Parameter/Admitted in the development (scanned on every run); axioms per theorem as printed by Print Assumptions (listed under theorems)',
    'extraction: ExtrOcamlBasic only (bool, option, unit, prod, list, sumbool -> OCaml); N/positive/nat/Z stay extracted datatypes; ocaml/driver.ml (parsing/printing) is trusted glue',
    'tools/cxx2gallina.py (clang 14 AST -> Gallina) trusted to render the AST faithfully; tools/xvlib.py orchestration',
    'rt/xvrt (scheduler/tracer/allocator), harness/*.cpp, g++ -fsanitize=thread instrumentation: trusted for correspondence and search only; no theorem depends on them',
    'hand-written models in coq/Model/*.v are tied to the C++ code only by trace correspondence on the explored (program, schedule) cases',
]
