#!/usr/bin/env python3
"""vyukovorders - read the memory order written at every atomic access site of do_try_push / do_try_pop in
   xenium/vyukov_bounded_queue.hpp and emit it as the `orders` record of WM/VyukovWM.v (coq/gen/VyukovOrders.v).
   The weak-memory theorems of WM/VyukovWMProof.v are instantiated with this record (Proof/VyukovOrdersOk.v), so a
   weakened order in the source makes `orders_ok gen_orders = true` fail.

   usage: vyukovorders.py [OUTDIR]      (OUTDIR defaults to ../coq/gen; the source tree is $XV_REPO or /repo)

   The generator fails (exit 1, nothing written) if the sequence of atomic accesses in the two functions is not
   exactly the one the model has a program point for."""
import os, re, sys
REPO = os.environ.get('XV_REPO', '/repo')
ORD = {'relaxed': 'Rlx', 'consume': 'Rlx', 'acquire': 'Acq', 'release': 'Rel', 'acq_rel': 'AcqRel', 'seq_cst': 'SC'}
# failure order of a compare_exchange given with ONE order ([atomics.types.operations]): acq_rel -> acquire, release -> relaxed
CAS_FAIL = {'Rlx': 'Rlx', 'Acq': 'Acq', 'Rel': 'Rlx', 'AcqRel': 'Acq', 'SC': 'SC'}
OPS = r'load|store|exchange|compare_exchange_weak|compare_exchange_strong|fetch_add|fetch_sub|fetch_and|fetch_or|fetch_xor|wait|notify_one|notify_all'

# the access sites of the model, in source order: (object, kind, field(s))
PUSH = [('enqueue_pos', 'load', 'o_push_enq_load'), ('sequence', 'load', 'o_push_seq_load'),
        ('enqueue_pos', 'cas', ('o_push_cas', 'o_push_cas_fail')), ('enqueue_pos', 'load', 'o_push_enq_reload_w'),
        ('enqueue_pos', 'load', 'o_push_enq_reload'), ('dequeue_pos', 'load', 'o_push_deq_load'),
        ('sequence', 'store', 'o_push_seq_store')]
POP = [('dequeue_pos', 'load', 'o_pop_deq_load'), ('sequence', 'load', 'o_pop_seq_load'),
       ('dequeue_pos', 'cas', ('o_pop_cas', 'o_pop_cas_fail')), ('dequeue_pos', 'load', 'o_pop_deq_reload_w'),
       ('dequeue_pos', 'load', 'o_pop_deq_reload'), ('enqueue_pos', 'load', 'o_pop_enq_load'),
       ('sequence', 'store', 'o_pop_seq_store')]
FIELDS = ['o_push_enq_load', 'o_push_seq_load', 'o_push_cas', 'o_push_cas_fail', 'o_push_enq_reload_w', 'o_push_enq_reload',
          'o_push_deq_load', 'o_push_seq_store', 'o_pop_deq_load', 'o_pop_seq_load', 'o_pop_cas', 'o_pop_cas_fail',
          'o_pop_deq_reload_w', 'o_pop_deq_reload', 'o_pop_enq_load', 'o_pop_seq_store']

class Shape(Exception):
    pass

def strip_comments(src):
    src = re.sub(r'/\*.*?\*/', lambda m: re.sub(r'[^\n]', ' ', m.group(0)), src, flags=re.S)
    return re.sub(r'//[^\n]*', '', src)

def balanced(src, i, open_ch, close_ch):
    """src[i-1] is open_ch; returns the index just after the matching close_ch"""
    depth = 1
    while depth and i < len(src):
        depth += {open_ch: 1, close_ch: -1}.get(src[i], 0); i += 1
    if depth:
        raise Shape('unbalanced %s' % open_ch)
    return i

def body(src, name):
    ms = list(re.finditer(r'\b%s\s*\([^()]*\)\s*\{' % name, src))   # the definition: the calls carry template arguments
    if len(ms) != 1:
        raise Shape('%d definitions of %s found, expected 1' % (len(ms), name))
    return src[ms[0].end():balanced(src, ms[0].end(), '{', '}')]

def accesses(b, fn):
    res = []
    if re.search(r'THREAD_FENCE|atomic_thread_fence|atomic_signal_fence', b):
        raise Shape('%s contains a fence; the model has no fence site' % fn)
    for m in re.finditer(r'\b(\w+)\s*(?:\.|->)\s*(%s)\s*\(' % OPS, b):
        obj, op = m.group(1), m.group(2)
        args = b[m.end():balanced(b, m.end(), '(', ')') - 1]
        mos = re.findall(r'memory_order(?:_|::)(\w+)', args)
        for x in mos:
            if x not in ORD:
                raise Shape('%s: unknown memory order %s' % (fn, x))
        mos = [ORD[x] for x in mos]
        line = b.count('\n', 0, m.start())
        if op in ('load', 'store'):
            if len(mos) > 1: raise Shape('%s: %s.%s with %d orders' % (fn, obj, op, len(mos)))
            res.append((obj, op, (mos or ['SC'])[0], line))         # no order argument = seq_cst
        elif op.startswith('compare_exchange'):
            if len(mos) > 2: raise Shape('%s: %s.%s with %d orders' % (fn, obj, op, len(mos)))
            succ = (mos or ['SC'])[0]
            res.append((obj, 'cas', (succ, mos[1] if len(mos) == 2 else CAS_FAIL[succ]), line))
        else:
            raise Shape('%s: unexpected atomic operation %s.%s' % (fn, obj, op))
    return res

def table(src, fn, sites):
    acc = accesses(body(src, fn), fn)
    got = [(o, k) for o, k, _, _ in acc]
    want = [(o, k) for o, k, _ in sites]
    if got != want:
        raise Shape('%s: atomic accesses %s, the model expects %s' % (fn, got, want))
    f = {}
    for (o, k, fld), (_, _, mo, _) in zip(sites, acc):
        if k == 'cas':
            f[fld[0]], f[fld[1]] = mo
        else:
            f[fld] = mo
    return f

def main():
    outdir = sys.argv[1] if len(sys.argv) > 1 else os.path.join(os.path.dirname(os.path.abspath(__file__)), '..', 'coq', 'gen')
    path = os.path.join(REPO, 'xenium', 'vyukov_bounded_queue.hpp')
    try:
        src = strip_comments(open(path, encoding='utf-8', errors='replace').read().replace('\r\n', '\n').replace('\r', '\n'))
        if not re.search(r'if\s+(constexpr\s*)?\(\s*Weak\s*\)', body(src, 'do_try_push')) or \
           not re.search(r'if\s+(constexpr\s*)?\(\s*Weak\s*\)', body(src, 'do_try_pop')):
            raise Shape('the `if (Weak)` branch was not found')
        f = table(src, 'do_try_push', PUSH)
        f.update(table(src, 'do_try_pop', POP))
        missing = [k for k in FIELDS if k not in f]
        if missing:
            raise Shape('sites not found: %s' % missing)
    except (Shape, OSError) as e:
        print('vyukovorders: unexpected shape of %s: %s' % (path, e)); return 1
    text = ('(* GENERATED by tools/vyukovorders.py from xenium/vyukov_bounded_queue.hpp of /repo -- do not edit *)\n'
            'From XV Require Import WM.View WM.VyukovWM.\n'
            'Definition gen_orders : orders := {| ' + '; '.join('%s := %s' % (k, f[k]) for k in FIELDS) + ' |}.\n')
    p = os.path.join(outdir, 'VyukovOrders.v')
    if not os.path.exists(p) or open(p).read() != text:
        open(p, 'w').write(text)
    print('generated VyukovOrders.v (%s)' % ' '.join(f[k] for k in FIELDS))
    return 0

if __name__ == '__main__':
    sys.exit(main())
