#!/usr/bin/env python3
"""synctable - extract the author's numbered synchronisation annotations
     // (n) - this release-store synchronizes-with the acquire-load (m)
   together with the memory orders actually written at the annotated statement from every xenium
   header, and write them as a Coq table (coq/gen/SyncTable.v).  Proof/SyncTableOk.v checks by
   computation that every annotated site has an order at least as strong as its annotation demands and
   that every declared pair is release-class -> acquire-class (or seq_cst <-> seq_cst)."""
import os, re, sys, json, hashlib

REPO = os.environ.get('XV_REPO', '/repo')
ORD = {'relaxed': 0, 'consume': 1, 'acquire': 2, 'release': 3, 'acq_rel': 4, 'seq_cst': 5}
# claim classes: 0 none/any, 2 acquire, 3 release, 4 acq_rel (release/acquire), 5 seq_cst
def claim_class(txt):
    t = txt.lower().replace('_', '-')
    if 'this ' in t:
        t = t.split('this ', 1)[1]
    head = t.split('synchronizes')[0].split('enforces')[0]
    if 'seq-cst' in head: return 5
    if 'acq-rel' in head or 'release/acquire' in head: return 4
    if 'acquire' in head: return 2
    if 'release' in head or 'releas' in head: return 3
    return 0

def headers():
    out = []
    for d, _, fs in os.walk(os.path.join(REPO, 'xenium')):
        for f in fs:
            if f.endswith('.hpp'):
                out.append(os.path.relpath(os.path.join(d, f), REPO))
    return sorted(out)

def statement_after(lines, i):
    """the code statement that follows the comment block starting at line i (0-based): returns (text, first code line no)"""
    j = i
    while j < len(lines) and lines[j].strip().startswith('//'):
        j += 1
    start = j
    depth = 0
    buf = ''
    while j < len(lines) and j < start + 12:
        l = lines[j]
        l = re.sub(r'//.*$', '', l)
        buf += l + ' '
        depth += l.count('(') - l.count(')')
        if depth <= 0 and (';' in l or '{' in l):
            break
        j += 1
    return buf, start + 1

def orders_of(stmt):
    """(production success order, failure order or -1, tsan success order or -1, is_fence, uses_param)"""
    is_fence = 'THREAD_FENCE' in stmt or 'atomic_thread_fence' in stmt
    toks = []
    tsan = -1
    s = stmt
    m = re.search(r'TSAN_MEMORY_ORDER\(\s*std::memory_order_(\w+)\s*,\s*std::memory_order_(\w+)\s*\)', s)
    if m:
        tsan = ORD[m.group(1)]
        s = s.replace(m.group(0), 'std::memory_order_' + m.group(2))
    for m in re.finditer(r'memory_order_(relaxed|consume|acquire|release|acq_rel|seq_cst)', s):
        toks.append(ORD[m.group(1)])
    uses_param = bool(re.search(r'[(,]\s*(order|memory_order)\s*[),]', s)) and not toks
    succ = toks[0] if toks else -1
    fail = toks[1] if len(toks) > 1 else -1
    return succ, fail, tsan, is_fence, uses_param, toks, ('?' in s)

def parse():
    sites = []
    for fi, f in enumerate(headers()):
        lines = open(os.path.join(REPO, f)).read().split('\n')
        i = 0
        while i < len(lines):
            m = re.match(r'\s*// \((\d+)\) - (.*)$', lines[i])
            if not m:
                i += 1; continue
            num = int(m.group(1))
            text = m.group(2)
            j = i + 1
            while j < len(lines) and re.match(r'\s*//\s{2,}\S', lines[j]) and not re.match(r'\s*// \(\d+\) - ', lines[j]):
                # continuation lines of the same annotation are indented ("//       and ...")
                if re.search(r'\(\d+', lines[j]) or 'synchroniz' in lines[j] or 'order with' in lines[j] or lines[j].strip().startswith('//   '):
                    text += ' ' + lines[j].strip().lstrip('/').strip()
                    j += 1
                else:
                    break
            stmt, codeline = statement_after(lines, i)
            succ, fail, tsan, is_fence, uses_param, toks, cond = orders_of(stmt)
            # targets with the class the annotation expects of them: "... the acquire-load (3, 4) and the seq-cst-load (6)"
            targets = []
            rest = text
            if 'synchroniz' in rest: rest = rest.split('synchroniz', 1)[1]
            elif 'order with' in rest: rest = rest.split('order with', 1)[1]
            last_cls = 0
            for mm in re.finditer(r'((?:the\s+)?[A-Za-z_\-/ ]*?)\(([\d,\s]+)\)', rest):
                words = mm.group(1)
                c = claim_class(words + ' synchronizes') if words.strip() else last_cls
                if c == 0: c = last_cls
                last_cls = c
                for n in re.findall(r'\d+', mm.group(2)):
                    targets.append((int(n), c))
            total = 'total order' in text
            sites.append({'file': f, 'fid': fi, 'num': num, 'line': i + 1, 'codeline': codeline, 'claim': claim_class(text), 'total': total,
                          'succ': succ, 'fail': fail, 'tsan': tsan, 'fence': is_fence, 'param': uses_param, 'targets': targets, 'text': text[:160],
                          'orders': toks, 'cond': cond, 'reload': 'reload' in text})
            i = j
    return sites

def main():
    outdir = sys.argv[1] if len(sys.argv) > 1 else os.path.join(os.path.dirname(os.path.abspath(__file__)), '..', 'coq', 'gen')
    sites = parse()
    files = sorted(set(s['file'] for s in sites))
    lines = ['(* GENERATED by tools/synctable.py from the xenium headers of /repo -- do not edit. %d annotated sites in %d files *)' % (len(sites), len(files)),
             'From Coq Require Import NArith List Bool.', 'Import ListNotations.', 'Local Open Scope N_scope.',
             '(** memory orders: 0 relaxed 1 consume 2 acquire 3 release 4 acq_rel 5 seq_cst; 9 = none written (fence-less plain statement or caller supplied order) *)',
             'Record site := mkSite { s_file : N; s_num : N; s_line : N; s_claim : N; s_total : bool; s_succ : N; s_fail : N; s_tsan : N; s_fence : bool; s_param : bool; s_cond : bool; s_reload : bool; s_orders : list N; s_targets : list (N * N) }.',
             'Definition sites : list site := [']
    rows = []
    for s in sites:
        o = lambda v: 9 if v < 0 else v
        b = lambda v: 'true' if v else 'false'
        rows.append('  mkSite %d %d %d %d %s %d %d %d %s %s %s %s [%s] [%s]' % (s['fid'], s['num'], s['line'], s['claim'], b(s['total']), o(s['succ']), o(s['fail']), o(s['tsan']),
                    b(s['fence']), b(s['param']), b(s['cond']), b(s['reload']), '; '.join(map(str, s['orders'])), '; '.join('(%d, %d)' % t for t in s['targets'])))
    lines.append(';\n'.join(rows))
    lines.append('].')
    lines.append('(* files: ' + '; '.join('%d=%s' % (s['fid'], s['file']) for s in {s['fid']: s for s in sites}.values()) + ' *)')
    text = '\n'.join(lines) + '\n'
    p = os.path.join(outdir, 'SyncTable.v')
    if not os.path.exists(p) or open(p).read() != text:
        open(p, 'w').write(text)
    json.dump(sites, open(os.path.join(outdir, 'SyncTable.meta.json'), 'w'), indent=1)
    print('generated SyncTable.v (%d sites, %d files)' % (len(sites), len(files)))

if __name__ == '__main__':
    main()
