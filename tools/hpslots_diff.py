#!/usr/bin/env python3
"""C18 differential run: the Coq model of the hazard pointer slot pool + guard_ptr layer (coq/Model/HpSlotsDefs.v,
evaluated inside Coq with vm_compute) against the REAL xenium::reclamation::hazard_pointer guard_ptrs
(harness/h_hpslots.cpp) on random single-thread guard operation sequences.

With --he the same is done for hazard_eras: coq/Model/HeSlotsDefs.v against harness/h_heslots.cpp (additional operation
"tick" = era_clock.fetch_add(1), which is what guard_ptr::reclaim does).

usage: tools/hpslots_diff.py <seed> <ncases> [--he] [--keep] [--verbose]
exit status 0 = all sequences agree line by line, 1 = a difference (the first one is printed), 2 = build problem."""
import os, random, re, shutil, subprocess, sys, tempfile, time

VERIF = os.path.dirname(os.path.dirname(os.path.abspath(__file__)))
REPO = os.environ.get('XENIUM_REPO', os.environ.get('XV_REPO', '/repo'))
COQ = os.path.join(VERIF, 'coq')

def sh(cmd, cwd=None, inp=None, timeout=300):
    p = subprocess.run(cmd, cwd=cwd, input=inp, stdout=subprocess.PIPE, stderr=subprocess.PIPE, text=True, timeout=timeout)
    return p.returncode, p.stdout, p.stderr

# ---------------------------------------------------------------------------------------------------------------
# case generation.  An op is a tuple (name, args...) with the harness names.
# ---------------------------------------------------------------------------------------------------------------
def gen_case(rng, he=False):
    K = rng.randint(1, 4)
    dyn = rng.random() < 0.4
    G = min(8, K + rng.randint(1, 4)) if not dyn else rng.randint(3, 8)
    nobj = 4
    ops = []
    def g():
        if rng.random() < 0.02: return G + rng.randint(0, 2)          # rarely an invalid guard index
        return rng.randrange(G)
    def val():
        if rng.random() < 0.12: return (0, 1 if rng.random() < 0.5 else 0)   # nullptr, sometimes a marked nullptr
        return (rng.randint(1, nobj), 1 if rng.random() < 0.15 else 0)
    def two():
        a = g()
        b = a if rng.random() < 0.12 else g()                          # self assignment / self swap
        return a, b
    def ctor_pair():
        a, b = two()
        if a == b and rng.random() < 0.9: b = (a + 1) % G
        return a, b
    n = rng.randint(6, 28)
    style = rng.random()
    if style < 0.35:
        # fill beyond the available slots, then release one and go on
        order = list(range(G)); rng.shuffle(order)
        for x in order[:min(G, K + 2)]:
            v, m = rng.randint(1, nobj), 0
            ops.append(rng.choice([('acq', x, v, m), ('ctor', x, v, m), ('acqeq', x, v, m, v, m)]))
        ops.append(('reset', rng.choice(order[:min(G, K)])))
    while len(ops) < n:
        r = rng.random()
        if r < 0.24: ops.append(('acq', g()) + val())
        elif r < 0.32:
            v, m = val()
            e = (v, m) if rng.random() < 0.7 else val()
            ops.append(('acqeq', g(), v, m) + e)
        elif r < 0.44: ops.append(('reset', g()))
        elif r < 0.50: ops.append(('ctor', g()) + val())
        elif r < 0.60: ops.append(('cctor',) + ctor_pair())
        elif r < 0.68: ops.append(('mctor',) + ctor_pair())
        elif r < 0.79: ops.append(('cassign',) + two())
        elif r < 0.88: ops.append(('massign',) + two())
        elif r < 0.97: ops.append(('swap',) + two())
        else: ops.append(('exit',))
        if he and rng.random() < 0.22: ops.append(('tick',))
    return {'K': K, 'dyn': dyn, 'G': G, 'ops': ops}

# hand-written sequences that are always part of the run (the Examples / refuted lemmas of Proof/HpSlots.v among them)
FIXED = [
    # former counter-example (repaired): a guard on a marked null pointer must not take a slot: K=1, the next acquire succeeds
    {'K': 1, 'dyn': False, 'G': 2, 'ops': [('acq', 0, 0, 1), ('acq', 1, 5, 0), ('reset', 0), ('acq', 1, 5, 0)]},
    {'K': 1, 'dyn': False, 'G': 2, 'ops': [('acqeq', 0, 0, 1, 0, 1), ('ctor', 1, 5, 0), ('cctor', 1, 0), ('cassign', 1, 0), ('acq', 1, 5, 0)]},
    # exhaustion and recovery, copy/move/swap/self assignment
    {'K': 2, 'dyn': False, 'G': 3, 'ops': [('acq', 0, 1, 0), ('acq', 1, 2, 0), ('acq', 2, 3, 0), ('cctor', 2, 0), ('reset', 0), ('cctor', 2, 1), ('cassign', 0, 1),
                                            ('cassign', 1, 1), ('massign', 2, 2), ('swap', 0, 2), ('swap', 1, 1), ('massign', 0, 1), ('mctor', 1, 0), ('cassign', 2, 0)]},
    {'K': 3, 'dyn': False, 'G': 4, 'ops': [('acq', 0, 1, 0), ('cctor', 1, 0), ('ctor', 2, 5, 1), ('massign', 3, 1), ('swap', 0, 3), ('acq', 1, 2, 0),
                                            ('reset', 0), ('reset', 1), ('reset', 2), ('reset', 3), ('acq', 3, 1, 0), ('acq', 2, 1, 0), ('acq', 1, 1, 0), ('acq', 0, 1, 0)]},
    # repeated acquire/release on the last free slot
    {'K': 1, 'dyn': False, 'G': 2, 'ops': [('acq', 1, 3, 0), ('reset', 1)] * 12},
    # dynamic growth 1,2,3,4,6,9, thread exit and adoption of the grown control block, growth after that
    {'K': 1, 'dyn': True, 'G': 8, 'ops': [('acq', i, 1, 0) for i in range(8)] + [('exit',)] + [('acq', i, 2, 0) for i in range(8)] + [('reset', 3), ('exit',), ('exit',), ('acq', 0, 1, 0)]},
    {'K': 2, 'dyn': True, 'G': 8, 'ops': [('ctor', i, 1 + i % 4, 0) for i in range(7)] + [('reset', 2), ('reset', 5), ('cctor', 7, 0), ('exit',), ('acq', 0, 1, 0), ('cctor', 1, 0)]},
    # invalid operations
    {'K': 2, 'dyn': False, 'G': 2, 'ops': [('acq', 2, 1, 0), ('cctor', 0, 0), ('mctor', 1, 1), ('swap', 0, 5), ('acq', 0, 1, 0)]},
]

FIXED_HE = [
    # copies share the era slot: K=1 holds any number of guards on one era
    {'K': 1, 'dyn': False, 'G': 4, 'ops': [('acq', 0, 1, 0), ('cctor', 1, 0), ('cassign', 2, 1), ('acq', 3, 2, 0), ('reset', 0), ('reset', 1), ('reset', 2), ('reset', 3)]},
    # the era advances: a shared guard that re-acquires needs a slot of its own; after the throw the guard is empty (repaired)
    {'K': 1, 'dyn': False, 'G': 3, 'ops': [('acq', 0, 1, 0), ('cctor', 1, 0), ('tick',), ('acq', 1, 2, 0), ('reset', 1), ('acq', 0, 3, 0), ('acqeq', 0, 3, 0, 3, 0)]},
    {'K': 1, 'dyn': False, 'G': 3, 'ops': [('acq', 0, 1, 0), ('cctor', 1, 0), ('tick',), ('acqeq', 1, 2, 0, 2, 0), ('reset', 1), ('reset', 0), ('acq', 1, 2, 0)]},
    # acquire of a null pointer releases the era (repaired)
    {'K': 1, 'dyn': False, 'G': 2, 'ops': [('acq', 0, 0, 0), ('acq', 1, 5, 0), ('tick',), ('acq', 1, 5, 0), ('ctor', 1, 5, 0)]},
    # the two former counter-examples of Proof/HeSlots.v (repaired): guard empty after a throw; a guard on nullptr holds no era
    {'K': 1, 'dyn': False, 'G': 2, 'ops': [('acq', 0, 1, 0), ('cctor', 1, 0), ('tick',), ('acq', 1, 2, 0), ('reset', 0)]},
    {'K': 1, 'dyn': False, 'G': 2, 'ops': [('acq', 0, 0, 0), ('tick',), ('acq', 1, 5, 0)]},
    # last_hazard_era cache
    {'K': 3, 'dyn': False, 'G': 5, 'ops': [('acq', 0, 1, 0), ('acq', 1, 2, 0), ('tick',), ('acq', 2, 1, 0), ('acq', 0, 1, 0), ('acq', 3, 1, 0), ('reset', 2), ('reset', 3), ('acq', 4, 1, 0), ('tick',), ('acqeq', 1, 2, 0, 2, 0), ('acq', 2, 2, 0)]},
    {'K': 1, 'dyn': True, 'G': 8, 'ops': [x for i in range(8) for x in (('acq', i, 1, 0), ('tick',))] + [('exit',)] + [x for i in range(8) for x in (('ctor', i, 2, 0), ('tick',))] + [('reset', 3), ('exit',), ('exit',), ('acq', 0, 1, 0)]},
    {'K': 2, 'dyn': False, 'G': 2, 'ops': [('acq', 2, 1, 0), ('cctor', 0, 0), ('mctor', 1, 1), ('swap', 0, 5), ('acq', 0, 1, 0)]},
]

COQ_NAME = {'acq': 'GAcquire', 'acqeq': 'GAcquireIfEqual', 'reset': 'GReset', 'ctor': 'GCtorPtr', 'cctor': 'GCopyCtor',
            'mctor': 'GMoveCtor', 'cassign': 'GCopyAssign', 'massign': 'GMoveAssign', 'swap': 'GSwap', 'exit': 'GExit'}

def case_text(i, c):
    s = 'case %d K=%d dyn=%d G=%d\n' % (i, c['K'], 1 if c['dyn'] else 0, c['G'])
    for op in c['ops']:
        s += ' '.join(map(str, op)) + '\n'
    return s + 'end\n'

def coq_ops(c, he):
    def one(op):
        if op[0] == 'tick': return 'HTick'
        t = ' '.join([COQ_NAME[op[0]]] + [str(a) for a in op[1:]])
        return ('HOp (%s)' % t) if he else t
    return '[' + '; '.join(one(op) for op in c['ops']) + ']'

def coq_file(cases, he):
    s = 'From Coq Require Import List String. Import ListNotations.\nFrom XV Require Import Model.HpSlotsDefs%s.\n' % (' Model.HeSlotsDefs' if he else '')
    for c in cases:
        s += 'Eval vm_compute in %s {| cK := %d; cDyn := %s; cG := %d |} %s.\n' % (
            'show_hrun' if he else 'show_run', c['K'], 'true' if c['dyn'] else 'false', c['G'], coq_ops(c, he))
    return s

# ---------------------------------------------------------------------------------------------------------------
def ensure_model(he):
    prev = 0
    for m in (['HpSlotsDefs', 'HeSlotsDefs'] if he else ['HpSlotsDefs']):
        v = os.path.join(COQ, 'Model', m + '.v'); vo = v + 'o'
        if not os.path.exists(vo) or os.path.getmtime(vo) < max(os.path.getmtime(v), prev):
            rc, o, e = sh(['coqc', '-Q', '.', 'XV', '-w', '-notation-overridden', 'Model/%s.v' % m], cwd=COQ)
            if rc != 0:
                print('cannot compile Model/%s.v:\n' % m + (e or o)[-2000:]); sys.exit(2)
        prev = os.path.getmtime(vo)

def build_harness(wd, he):
    name = 'h_heslots' if he else 'h_hpslots'
    exe = os.path.join(wd, name)
    rc, o, e = sh(['g++', '-std=c++17', '-O1', '-g', '-I' + REPO, os.path.join(VERIF, 'harness', name + '.cpp'), '-o', exe, '-lpthread'])
    if rc != 0:
        print('harness/%s.cpp does not compile against %s:\n%s' % (name, REPO, e[-3000:])); sys.exit(2)
    return exe

def run_impl(exe, cases):
    inp = ''.join(case_text(i, c) for i, c in enumerate(cases))
    rc, out, err = sh([exe], inp=inp, timeout=240)
    res, cur = {}, None
    for l in out.splitlines():
        if l.startswith('case '):
            cur = int(l.split()[1]); res[cur] = []
        elif cur is not None:
            res[cur].append(l)
    return [res.get(i, ['<no output>']) for i in range(len(cases))]

def run_model(wd, cases, he):
    open(os.path.join(wd, 'HpSlotsCases.v'), 'w').write(coq_file(cases, he))
    rc, out, err = sh(['coqc', '-Q', COQ, 'XV', 'HpSlotsCases.v'], cwd=wd, timeout=600)
    if rc != 0:
        print('model evaluation failed:\n' + (err or out)[-3000:]); sys.exit(2)
    blocks = re.findall(r'=\s*"(.*?)"%string\s*:\s*string', out, re.S)
    if len(blocks) != len(cases):
        print('model evaluation: %d results for %d cases' % (len(blocks), len(cases))); sys.exit(2)
    return [b.split('\n') if b != '' else [] for b in blocks]

def main():
    args = [a for a in sys.argv[1:] if not a.startswith('--')]
    if len(args) != 2:
        print(__doc__); return 2
    seed, n = int(args[0]), int(args[1])
    keep, verbose, he = '--keep' in sys.argv, '--verbose' in sys.argv, '--he' in sys.argv
    rng = random.Random(seed)
    cases = (FIXED_HE if he else FIXED) + [gen_case(rng, he) for _ in range(n)]
    wd = tempfile.mkdtemp(prefix='hpslots_')
    t0 = time.time()
    try:
        ensure_model(he)
        exe = build_harness(wd, he)
        impl = run_impl(exe, cases)
        model = run_model(wd, cases, he)
        nops = nexh = ngrow = 0
        for i, c in enumerate(cases):
            mo, im = model[i], impl[i]
            for j in range(max(len(mo), len(im))):
                a = mo[j] if j < len(mo) else '<missing>'
                b = im[j] if j < len(im) else '<missing>'
                if a != b:
                    print('DIFFERENCE in case %d at operation %d (%s)' % (i, j, ' '.join(map(str, c['ops'][j])) if j < len(c['ops']) else '-'))
                    print('  model : ' + a); print('  impl  : ' + b)
                    print('case:\n' + case_text(i, c))
                    return 1
            nops += len(mo)
            nexh += sum(1 for l in mo if l.startswith('exhausted'))
            if c['dyn'] and mo and ('total=%d' % c['K']) not in mo[-1].split(): ngrow += 1
            if verbose:
                print(case_text(i, c) + '\n'.join(mo))
        print(('heslots' if he else 'hpslots') + ' differential: seed %d, %d fixed + %d random sequences (%d operations, %d exhausted outcomes, %d dynamic sequences that grew the pool): model and implementation agree on every line (%.1fs)'
              % (seed, len(FIXED_HE if he else FIXED), n, nops, nexh, ngrow, time.time() - t0))
        return 0
    finally:
        if keep: print('kept ' + wd)
        else: shutil.rmtree(wd, ignore_errors=True)

if __name__ == '__main__':
    sys.exit(main())
