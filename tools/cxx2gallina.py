#!/usr/bin/env python3
"""cxx2gallina - translate small C++ leaf functions of xenium to Gallina (tie "T" of DESIGN.md).

For every unit of the table UNITS it writes a tiny translation unit that includes the header from
/repo and explicitly instantiates the template, dumps clang's AST as JSON (whole TU, so that the
*instantiated* members with fully resolved types are present) and translates the requested
functions into Gallina definitions over N with explicit wrap-around (XV.Base.Word).

Supported subset: integer/bool literals, parameters, locals, (static constexpr) members, template
parameters (kept symbolic), + - * / % & | ^ ~ ! << >> comparisons && || ?:, casts (with truncation
and sign extension), compound assignment, ++/--, if/else, early return, for/while loops with
break (-> Fixpoint on explicit fuel, None when exhausted), calls to other translated functions,
atomic load/store/plain access of designated members (-> fields of a state record) and of
array-of-array cells (-> functional memory).  Anything else raises Untranslatable: the caller reports
the tie as broken, nothing is skipped silently.
"""
import json, os, subprocess, sys, tempfile, hashlib, re

REPO = os.environ.get('XV_REPO', '/repo')

class Untranslatable(Exception):
    pass

# ------------------------------------------------------------------------------------------------
def clang_ast(tu_text, extra_flags=()):
    with tempfile.TemporaryDirectory(prefix='xvtx') as d:
        p = os.path.join(d, 'tu.cpp')
        open(p, 'w').write(tu_text)
        cmd = ['clang++', '-std=c++17', '-DNDEBUG', '-I' + REPO, '-fsyntax-only', '-Xclang', '-ast-dump=json', *extra_flags, p]
        r = subprocess.run(cmd, capture_output=True, text=True, timeout=300)
        if r.returncode != 0:
            raise Untranslatable('clang failed: ' + r.stderr[-2000:])
        return json.loads(r.stdout)

def walk(n, path=()):
    yield n, path
    for c in n.get('inner', []) or []:
        if isinstance(c, dict):
            yield from walk(c, path + (n,))

def qtype(n):
    t = n.get('type', {})
    return t.get('desugaredQualType', t.get('qualType', ''))

INT_TYPES = {
    'unsigned long': (64, False), 'long': (64, True), 'unsigned long long': (64, False), 'long long': (64, True),
    'unsigned int': (32, False), 'int': (32, True), 'unsigned short': (16, False), 'short': (16, True),
    'unsigned char': (8, False), 'signed char': (8, True), 'char': (8, True), 'bool': (1, False), '_Bool': (1, False),
    'unsigned __int128': (128, False), '__int128': (128, True),
}

def int_type(qt):
    q = re.sub(r'\bconst\b', '', qt)
    q = re.sub(r'\bvolatile\b', '', q).strip()
    q = re.sub(r'\s+', ' ', q).replace('* ', '*').strip()
    q = re.sub(r'\s*&$', '', q).strip()
    if q in INT_TYPES:
        return INT_TYPES[q]
    if q.endswith('*'):
        return (64, False)  # pointers are 64-bit words
    if q.startswith('std::atomic<') or q.startswith('std::__atomic_base<') or q.startswith('atomic<'):
        inner = q[q.index('<') + 1:q.rindex('>')]
        return int_type(inner)
    if q.startswith('enum '):
        return (32, False)
    return None

class Ctx:
    def __init__(self, unit, fname):
        self.unit = unit
        self.fname = fname
        self.counter = {}
        self.loops = []       # emitted auxiliary Fixpoints
        self.params = []      # symbolic template parameters used
        self.consts = []      # static constexpr members used (name)
        self.state_fields = unit.get('state', {})   # member name -> gallina field
        self.mem_member = unit.get('mem')            # name of the array-of-array member
        self.uses_state = False
        self.uses_mem = False

    def fresh(self, base):
        base = re.sub(r'[^A-Za-z0-9_]', '_', base)
        if base in ('end', 'at', 'in', 'let', 'match', 'with', 'fun', 'if', 'then', 'else', 'return', 'as', 'fix', 'for', 'forall', 'exists', 'Type', 'Prop', 'Set', 'using', 'where', 'mod'):
            base = base + '_v'
        if base.startswith('_'):
            base = 'x' + base
        k = self.counter.get(base, 0)
        self.counter[base] = k + 1
        return base if k == 0 else f'{base}_{k}'

def wlit(w):
    return str(w)

class Tr:
    """translator for one function"""
    def __init__(self, ctx, known_funcs, call_map):
        self.c = ctx
        self.known = known_funcs
        self.call_map = call_map

    # -------- expressions: return (gallina string, (width, signed)) ; bool has width 1 and is a Coq bool
    def expr(self, n, env):
        k = n['kind']
        inner = [c for c in (n.get('inner') or []) if isinstance(c, dict)]
        if k == 'ExprWithCleanups' and len(inner) == 1:
            return self.expr(inner[0], env)
        if k in ('ParenExpr', 'ConstantExpr', 'ExprWithCleanups', 'MaterializeTemporaryExpr', 'CXXBindTemporaryExpr', 'CXXFunctionalCastExpr') and len(inner) == 1 and k != 'CXXFunctionalCastExpr':
            return self.expr(inner[0], env)
        if k == 'SubstNonTypeTemplateParmExpr':
            # keep the template parameter symbolic
            pname = None
            for c in inner:
                if c['kind'] == 'NonTypeTemplateParmDecl':
                    pname = c.get('name')
            val, ty = self.expr([c for c in inner if c['kind'] != 'NonTypeTemplateParmDecl'][-1], env)
            if pname and pname in self.c.unit.get('symbolic_params', []):
                if pname not in self.c.params:
                    self.c.params.append(pname)
                return ('P_' + pname, ty)
            return (val, ty)
        if k == 'IntegerLiteral':
            ty = int_type(qtype(n))
            return (n['value'], ty)
        if k == 'CXXBoolLiteralExpr':
            return ('true' if n['value'] else 'false', (1, False))
        if k == 'CXXNullPtrLiteralExpr' or k == 'GNUNullExpr':
            return ('0', (64, False))
        if k == 'DeclRefExpr':
            ref = n['referencedDecl']
            name = ref.get('name')
            if ref['kind'] in ('ParmVarDecl', 'VarDecl'):
                if name in env:
                    return (env[name], int_type(qtype(n)) or int_type(ref.get('type', {}).get('qualType', '')))
                # static constexpr member / namespace constant
                if name in self.c.unit.get('symbolic_constants', []):
                    if name not in self.c.params:
                        self.c.params.append(name)
                    return ('P_' + name, int_type(qtype(n)))
                cn = self.c.unit.get('constants', {})
                if name in cn:
                    if name not in self.c.consts:
                        self.c.consts.append(name)
                    return ('C_' + name, int_type(qtype(n)))
                raise Untranslatable(f'{self.c.fname}: reference to unknown variable {name}')
            if ref['kind'] == 'NonTypeTemplateParmDecl':
                if name not in self.c.params:
                    self.c.params.append(name)
                return ('P_' + name, int_type(qtype(n)))
            if ref['kind'] == 'EnumConstantDecl':
                return ('0', (32, False))
            raise Untranslatable(f'{self.c.fname}: DeclRefExpr to {ref["kind"]} {name}')
        if k == 'MemberExpr':
            name = n.get('name')
            if name in self.c.state_fields:
                self.c.uses_state = True
                key = 'this.' + name
                if key not in env:
                    raise Untranslatable(f'{self.c.fname}: member {name} not in environment')
                return (env[key], int_type(qtype(n)))
            cn = self.c.unit.get('constants', {})
            if name in cn:
                if name not in self.c.consts:
                    self.c.consts.append(name)
                return ('C_' + name, int_type(qtype(n)))
            raise Untranslatable(f'{self.c.fname}: member {name} is not declared as state/constant in the unit table')
        if k in ('ImplicitCastExpr', 'CStyleCastExpr', 'CXXStaticCastExpr', 'CXXFunctionalCastExpr', 'CXXReinterpretCastExpr'):
            ck = n.get('castKind')
            sub = inner[-1]
            if ck in ('LValueToRValue', 'NoOp', 'FunctionToPointerDecay', 'ArrayToPointerDecay', 'UncheckedDerivedToBase', 'DerivedToBase', 'BitCast', 'ConstructorConversion', 'UserDefinedConversion'):
                return self.expr(sub, env)
            if ck in ('IntegralCast', 'PointerToIntegral', 'IntegralToPointer'):
                e, ty = self.expr(sub, env)
                to = int_type(qtype(n))
                if to is None or ty is None:
                    raise Untranslatable(f'{self.c.fname}: cast with unknown type {qtype(n)}')
                return (self.cast(e, ty, to), to)
            if ck == 'IntegralToBoolean' or ck == 'PointerToBoolean':
                e, ty = self.expr(sub, env)
                return (f'(n2b {e})', (1, False))
            if ck == 'NullToPointer':
                return ('0', (64, False))
            if ck == 'ToVoid':
                return ('tt', None)
            raise Untranslatable(f'{self.c.fname}: cast kind {ck}')
        if k == 'UnaryOperator':
            op = n['opcode']
            if op in ('++', '--'):
                raise Untranslatable(f'{self.c.fname}: ++/-- used as a value')
            e, ty = self.expr(inner[0], env)
            if op == '~':
                return (f'(wnot {ty[0]} {e})', ty)
            if op == '!':
                return (f'(negb {self.as_bool(e, ty)})', (1, False))
            if op == '-':
                return (f'(wneg {ty[0]} {e})', ty)
            if op == '+':
                return (e, ty)
            raise Untranslatable(f'{self.c.fname}: unary {op}')
        if k == 'BinaryOperator':
            op = n['opcode']
            if op == '=' or op == ',':
                raise Untranslatable(f'{self.c.fname}: assignment used as a value')
            a, ta = self.expr(inner[0], env)
            b, tb = self.expr(inner[1], env)
            rt = int_type(qtype(n))
            return self.binop(op, a, ta, b, tb, rt)
        if k == 'ConditionalOperator':
            c_, tc = self.expr(inner[0], env)
            a, ta = self.expr(inner[1], env)
            b, tb = self.expr(inner[2], env)
            return (f'(if {self.as_bool(c_, tc)} then {a} else {b})', ta)
        if k == 'CallExpr':
            callee = inner[0]
            fname = None
            for m, _ in walk(callee):
                if m.get('kind') == 'DeclRefExpr':
                    fname = m['referencedDecl'].get('name')
            args = [self.expr(a, env) for a in inner[1:] if a['kind'] != 'CXXDefaultArgExpr']
            rt = int_type(qtype(n))
            if fname in self.call_map:
                return (f'({self.call_map[fname]} ' + ' '.join(a for a, _ in args) + ')', rt)
            if fname in self.known:
                return (f'({self.known[fname]} ' + ' '.join(a for a, _ in args) + ')', rt)
            raise Untranslatable(f'{self.c.fname}: call to untranslated function {fname}')
        if k == 'CXXMemberCallExpr':
            me = inner[0]
            mname = me.get('name')
            obj = [c for c in (me.get('inner') or [])][0]
            if mname == 'load' or (mname or '').startswith('operator ') and mname not in ('operator=', 'operator()'):
                # atomic load or implicit conversion of std::atomic<T> to T
                return self.read_lvalue(obj, env)
            if mname == 'get' and self.strip(obj)['kind'] in ('CXXMemberCallExpr', 'ArraySubscriptExpr', 'MemberExpr', 'MaterializeTemporaryExpr', 'CXXBindTemporaryExpr'):
                # marked_ptr::get() of a loaded cell: the cell's content (marks are not modelled here)
                return self.expr(self.strip(obj), env)
            if mname in self.known_member_calls():
                args = [self.expr(a, env) for a in inner[1:] if a['kind'] != 'CXXDefaultArgExpr']
                return (f'({self.known[mname]} ' + ' '.join(a for a, _ in args) + ')', int_type(qtype(n)))
            cm = self.c.unit.get('member_calls', {})
            if mname in cm:  # e.g. capacity() -> read of a state field
                return self.read_field(cm[mname], env, int_type(qtype(n)))
            raise Untranslatable(f'{self.c.fname}: member call {mname}')
        if k == 'ArraySubscriptExpr':
            return self.read_lvalue(n, env)
        if k == 'CXXThisExpr':
            raise Untranslatable(f'{self.c.fname}: bare this')
        if k == 'CXXConstructExpr' and len(inner) == 1:
            return self.expr(inner[0], env)
        if k == 'UnaryExprOrTypeTraitExpr':
            if n.get('name') != 'sizeof':
                raise Untranslatable(f'{self.c.fname}: {n.get("name")} is not supported')
            at = n.get('argType', {})
            aq = at.get('desugaredQualType', at.get('qualType', ''))
            it = int_type(aq)
            if it is not None and not aq.strip().endswith('*') or (it is not None and aq.strip().endswith('*')):
                return (str(max(1, it[0] // 8)), (64, False))
            # sizeof of a class type: symbolic parameter (declared in the unit table)
            for sub, pname in self.c.unit.get('sizeof_params', {}).items():
                if sub in aq or sub in at.get('qualType', ''):
                    if pname not in self.c.params:
                        self.c.params.append(pname)
                    return ('P_' + pname, (64, False))
            raise Untranslatable(f'{self.c.fname}: sizeof({aq}) is not declared in sizeof_params')
        raise Untranslatable(f'{self.c.fname}: expression kind {k}')

    def known_member_calls(self):
        return set(self.known.keys())

    def as_bool(self, e, ty):
        if ty is not None and ty[0] == 1:
            return e
        return f'(n2b {e})'

    def as_int(self, e, ty):
        if ty is not None and ty[0] == 1:
            return f'(b2n {e})'
        return e

    def cast(self, e, frm, to):
        if re.fullmatch(r'\d+', e) and frm[0] != 1 and to[0] != 1 and int(e) < 2 ** (min(frm[0], to[0]) - 1):
            return e  # small non-negative literal: value preserved by every integral conversion
        if frm[0] == 1 and to[0] != 1:
            return f'(b2n {e})'
        if to[0] == 1:
            return f'(n2b {e})'
        if to[0] < frm[0]:
            return f'(wrap {to[0]} {e})'
        if to[0] > frm[0] and frm[1]:
            return f'(sext {frm[0]} {to[0]} {e})'
        return e

    def binop(self, op, a, ta, b, tb, rt):
        if op in ('&&', '||'):
            f = 'andb' if op == '&&' else 'orb'
            return (f'({f} {self.as_bool(a, ta)} {self.as_bool(b, tb)})', (1, False))
        if op in ('==', '!=', '<', '<=', '>', '>='):
            if ta and ta[0] == 1 and tb and tb[0] == 1 and op in ('==', '!='):
                e = f'(Bool.eqb {a} {b})'
                return (e if op == '==' else f'(negb {e})', (1, False))
            a, b = self.as_int(a, ta), self.as_int(b, tb)
            signed = ta is not None and ta[1] and ta[0] != 1
            w = ta[0] if ta else 64
            if op == '==': return (f'({a} =? {b})', (1, False))
            if op == '!=': return (f'(negb ({a} =? {b}))', (1, False))
            if signed:
                m = {'<': f'(slt {w} {a} {b})', '<=': f'(sle {w} {a} {b})', '>': f'(slt {w} {b} {a})', '>=': f'(sle {w} {b} {a})'}
            else:
                m = {'<': f'({a} <? {b})', '<=': f'({a} <=? {b})', '>': f'({b} <? {a})', '>=': f'({b} <=? {a})'}
            return (m[op], (1, False))
        if rt is None:
            rt = ta
        w, s = rt
        a, b = self.as_int(a, ta), self.as_int(b, tb)
        if op == '+': return (f'(wadd {w} {a} {b})', rt)
        if op == '-': return (f'(wsub {w} {a} {b})', rt)
        if op == '*': return (f'(wmul {w} {a} {b})', rt)
        if op == '/': return ((f'(sdiv {w} {a} {b})' if s else f'(wdiv {a} {b})'), rt)
        if op == '%': return ((f'(srem {w} {a} {b})' if s else f'(wmod {a} {b})'), rt)
        if op == '&': return (f'(N.land {a} {b})', rt)
        if op == '|': return (f'(N.lor {a} {b})', rt)
        if op == '^': return (f'(N.lxor {a} {b})', rt)
        if op == '<<': return (f'(wshl {w} {a} {b})', rt)
        if op == '>>': return ((f'(sshr {w} {a} {b})' if s else f'(wshr {a} {b})'), rt)
        raise Untranslatable(f'{self.c.fname}: binary {op}')

    # -------- lvalues
    def strip(self, n):
        while n['kind'] in ('ImplicitCastExpr', 'ParenExpr') and n.get('inner'):
            n = n['inner'][-1]
        return n

    def lvalue(self, n, env):
        """returns ('var', key) | ('mem', bexpr, iexpr)"""
        n = self.strip(n)
        k = n['kind']
        if k == 'DeclRefExpr':
            return ('var', n['referencedDecl']['name'])
        if k == 'MemberExpr':
            name = n.get('name')
            if name in self.c.state_fields:
                self.c.uses_state = True
                return ('var', 'this.' + name)
            raise Untranslatable(f'{self.c.fname}: write to member {name} not declared as state')
        if k == 'ArraySubscriptExpr':
            base, idx = n['inner'][0], n['inner'][1]
            b = self.strip(base)
            if b['kind'] == 'ArraySubscriptExpr':
                bb = self.strip(b['inner'][0])
                if bb['kind'] == 'MemberExpr' and bb.get('name') == self.c.mem_member:
                    self.c.uses_mem = True
                    be, _ = self.expr(b['inner'][1], env)
                    ie, _ = self.expr(idx, env)
                    return ('mem', be, ie)
            if b['kind'] == 'MemberExpr' and b.get('name') == self.c.unit.get('mem1'):
                self.c.uses_mem = True
                ie, _ = self.expr(idx, env)
                return ('mem', '0', ie)
            raise Untranslatable(f'{self.c.fname}: array access outside the designated memory member')
        raise Untranslatable(f'{self.c.fname}: lvalue kind {k}')

    def read_lvalue(self, n, env):
        lv = self.lvalue(n, env)
        if lv[0] == 'var':
            if lv[1] not in env:
                raise Untranslatable(f'{self.c.fname}: read of {lv[1]} before definition')
            return (env[lv[1]], int_type(qtype(self.strip(n))) or (64, False))
        return (f'(mget {env["$mem"]} {lv[1]} {lv[2]})', (64, False))

    def read_field(self, field, env, ty):
        self.c.uses_state = True
        return (env['this.' + field], ty)

    # -------- statements (CPS): returns gallina term; k(env) produces the continuation term
    def assigned_vars(self, n, declared=None):
        """variables (env keys) assigned inside n that were declared outside it"""
        out = []
        local = set()
        def visit(m):
            k = m.get('kind')
            if not k:
                return
            if k == 'VarDecl':
                local.add(m['name'])
            tgt = None
            if k == 'BinaryOperator' and m.get('opcode') == '=':
                tgt = m['inner'][0]
            elif k == 'CompoundAssignOperator':
                tgt = m['inner'][0]
            elif k == 'UnaryOperator' and m.get('opcode') in ('++', '--'):
                tgt = m['inner'][0]
            elif k == 'CXXMemberCallExpr':
                me = m['inner'][0]
                if me.get('name') == 'store':
                    tgt = me['inner'][0]
            elif k == 'CallExpr':
                fn_ = None
                for mm, _ in walk(m['inner'][0]):
                    if mm.get('kind') == 'DeclRefExpr':
                        fn_ = mm['referencedDecl'].get('name')
                if fn_ in self.c.unit.get('effect_calls', {}) and '$mem' not in local and '$mem' not in out:
                    out.append('$mem')
            if tgt is not None:
                t = self.strip(tgt)
                key = None
                if t['kind'] == 'DeclRefExpr':
                    key = t['referencedDecl']['name']
                elif t['kind'] == 'MemberExpr' and t.get('name') in self.c.state_fields:
                    key = 'this.' + t['name']
                elif t['kind'] == 'ArraySubscriptExpr':
                    key = '$mem'
                if key and key not in local and key not in out:
                    out.append(key)
            for c in m.get('inner') or []:
                if isinstance(c, dict):
                    visit(c)
        visit(n)
        return out

    def has_return(self, n):
        return any(m.get('kind') == 'ReturnStmt' for m, _ in walk(n))

    def has_break(self, n):
        # breaks belonging to this statement (not to nested loops)
        def visit(m):
            if not m.get('kind'):
                return False
            if m['kind'] == 'BreakStmt':
                return True
            if m['kind'] in ('ForStmt', 'WhileStmt', 'DoStmt'):
                return False
            return any(visit(c) for c in (m.get('inner') or []) if isinstance(c, dict))
        return visit(n)

    def assign(self, lv, value, env):
        """returns (binding text, new env)"""
        env = dict(env)
        if lv[0] == 'var':
            nm = self.c.fresh(lv[1].replace('this.', 'f_'))
            env[lv[1]] = nm
            return (f'let {nm} := {value} in\n', env)
        nm = self.c.fresh('mem')
        old = env['$mem']
        env['$mem'] = nm
        return (f'let {nm} := mset {old} {lv[1]} {lv[2]} {value} in\n', env)

    def stmts(self, lst, env, k):
        if not lst:
            return k(env)
        n, rest = lst[0], lst[1:]
        kind = n['kind']
        inner = [c for c in (n.get('inner') or []) if isinstance(c, dict)]
        cont = lambda e: self.stmts(rest, e, k)
        if kind == 'CompoundStmt':
            # scoping: names declared inside shadow; we simply continue with the resulting env restricted to outer keys
            outer_keys = set(env.keys())
            return self.stmts(inner, env, lambda e: cont({kk: vv for kk, vv in e.items() if kk in outer_keys}))
        if kind == 'NullStmt':
            return cont(env)
        if kind == 'ExprWithCleanups' and len(inner) == 1:
            return self.stmts([inner[0]] + rest, env, k)
        if kind == 'DeclStmt':
            txt = ''
            e2 = dict(env)
            for d in inner:
                if d['kind'] != 'VarDecl':
                    continue
                init = [c for c in (d.get('inner') or []) if isinstance(c, dict)]
                if init:
                    if init[0]['kind'] == 'CXXNewExpr':
                        v = '0'
                    else:
                        v, _ = self.expr(init[0], e2)
                else:
                    v = '0'
                nm = self.c.fresh(d['name'])
                txt += f'let {nm} := {v} in\n'
                e2[d['name']] = nm
            return txt + cont(e2)
        if kind == 'ReturnStmt':
            if not inner:
                return self.ret(None, env)
            r = self.strip(inner[0])
            if r['kind'] == 'ArraySubscriptExpr' and self.c.mem_member:
                lv = self.lvalue(r, env)
                if lv[0] == 'mem':
                    return self.ret(f'({lv[1]}, {lv[2]})', env)
            v, ty = self.expr(inner[0], env)
            return self.ret(v, env)
        if kind in ('ParenExpr', 'CXXStaticCastExpr') :
            return cont(env)  # (void)0 from assert under NDEBUG
        if kind == 'BinaryOperator' and n.get('opcode') == '=':
            rhs = self.strip(inner[1])
            if rhs['kind'] == 'CXXNewExpr':
                return cont(env)   # allocation of a bucket: no effect on the functional memory
            v, _ = self.expr(inner[1], env)
            lv = self.lvalue(inner[0], env)
            txt, e2 = self.assign(lv, v, env)
            return txt + cont(e2)
        if kind == 'CompoundAssignOperator':
            op = n['opcode'][:-1]
            lv = self.lvalue(inner[0], env)
            cur, tcur = self.read_lvalue(inner[0], env)
            b, tb = self.expr(inner[1], env)
            rt = int_type(n.get('computeResultType', {}).get('desugaredQualType', n.get('computeResultType', {}).get('qualType', ''))) or tcur
            lt = int_type(qtype(n)) or tcur
            cur2 = self.cast(cur, tcur, rt) if tcur != rt else cur
            v, _ = self.binop(op, cur2, rt, b, tb, rt)
            if lt != rt:
                v = self.cast(v, rt, lt)
            txt, e2 = self.assign(lv, v, env)
            return txt + cont(e2)
        if kind == 'UnaryOperator' and n.get('opcode') in ('++', '--'):
            lv = self.lvalue(inner[0], env)
            cur, tcur = self.read_lvalue(inner[0], env)
            f = 'wadd' if n['opcode'] == '++' else 'wsub'
            txt, e2 = self.assign(lv, f'({f} {tcur[0]} {cur} 1)', env)
            return txt + cont(e2)
        if kind == 'CallExpr':
            callee = inner[0]
            fname = None
            for m, _ in walk(callee):
                if m.get('kind') == 'DeclRefExpr':
                    fname = m['referencedDecl'].get('name')
            eff = self.c.unit.get('effect_calls', {})
            if fname in eff:
                # the call consumes one memory cell: count it (cell value += 1)
                cellnode = None
                for m, _ in walk(n):
                    if m.get('kind') == 'ArraySubscriptExpr':
                        cellnode = m; break
                if cellnode is None:
                    raise Untranslatable(f'{self.c.fname}: effect call {fname} without a cell argument')
                lv = self.lvalue(cellnode, env)
                cur, _ = self.read_lvalue(cellnode, env)
                txt, e2 = self.assign(lv, f'(wadd 64 {cur} 1)', env)
                return txt + cont(e2)
            raise Untranslatable(f'{self.c.fname}: call statement {fname}')
        if kind == 'CXXMemberCallExpr':
            me = inner[0]
            if me.get('name') == 'store':
                obj = me['inner'][0]
                v, _ = self.expr(inner[1], env)
                lv = self.lvalue(obj, env)
                txt, e2 = self.assign(lv, v, env)
                return txt + cont(e2)
            raise Untranslatable(f'{self.c.fname}: member call statement {me.get("name")}')
        if kind == 'IfStmt' and n.get('isConstexpr'):
            # `if constexpr`: the instantiation keeps one branch only (the other is a NullStmt); the generated
            # code is valid for instantiations that take the same branch (recorded in the meta data)
            raw = [c for c in (n.get('inner') or []) if isinstance(c, dict)]
            branches = raw[1:]
            live = [b for b in branches if b.get('kind') and b.get('kind') != 'NullStmt']
            self.c.constexpr_assumptions = getattr(self.c, 'constexpr_assumptions', []) + [self.expr(raw[0], env)[0]]
            if len(live) == 1:
                return self.stmts([live[0]] + rest, env, k)
            if not live:
                return cont(env)
        if kind == 'IfStmt':
            cond, tc = self.expr(inner[0], env)
            cond = self.as_bool(cond, tc)
            then = inner[1]
            els = inner[2] if len(inner) > 2 else None
            if self.has_return(then) or (els is not None and self.has_return(els)) or self.has_break(then) or (els is not None and self.has_break(els)):
                # early exit: duplicate the continuation (functions are small)
                t = self.stmts([then], env, cont)
                e = self.stmts([els], env, cont) if els is not None else cont(env)
                return f'if {cond} then (\n{t}) else (\n{e})'
            av = self.assigned_vars(then) + ([v for v in self.assigned_vars(els) if v not in self.assigned_vars(then)] if els is not None else [])
            av = [v for v in av if v in env]
            if not av:
                return cont(env)
            tup = lambda e: '(' + ', '.join(e[v] for v in av) + ')' if len(av) > 1 else e[av[0]]
            t = self.stmts([then], env, tup)
            e = self.stmts([els], env, tup) if els is not None else tup(env)
            e2 = dict(env)
            names = []
            for v in av:
                nm = self.c.fresh(v.replace('this.', 'f_').replace('$', ''))
                e2[v] = nm
                names.append(nm)
            pat = "'(" + ', '.join(names) + ')' if len(names) > 1 else names[0]
            return f'let {pat} := (if {cond} then (\n{t}) else (\n{e})) in\n' + cont(e2)
        if kind in ('ForStmt', 'WhileStmt'):
            if kind == 'ForStmt':
                # clang JSON: init, condvar(None/{}), cond, inc, body -- null entries appear as {} in "inner"
                raw = n.get('inner') or []
                init, cond_n, inc, body = raw[0], raw[2], raw[3], raw[4]
            else:
                raw = n.get('inner') or []
                init, cond_n, inc, body = {}, raw[0] if len(raw) == 2 else raw[1], {}, raw[-1]
            if self.has_return(body):
                raise Untranslatable(f'{self.c.fname}: return inside a loop')
            def after_init(e_init):
                carried = []
                for part in (body, inc):
                    if part and part.get('kind'):
                        for v in self.assigned_vars(part):
                            if v in e_init and v not in carried:
                                carried.append(v)
                # everything else read inside the loop is a loop constant: passed as extra arguments
                lname = self.c.fresh(self.c.fname + '_loop')
                consts = [v for v in e_init if v not in carried]
                e_loop = {}
                cargs, kargs = [], []
                for v in carried:
                    nm = self.c.fresh('l_' + v.replace('this.', 'f_').replace('$', ''))
                    e_loop[v] = nm; cargs.append(nm)
                for v in consts:
                    nm = self.c.fresh('c_' + v.replace('this.', 'f_').replace('$', ''))
                    e_loop[v] = nm; kargs.append(nm)
                tup = lambda e: 'Some (' + ', '.join(e[v] for v in carried) + ')' if len(carried) > 1 else f'Some {e[carried[0]]}'
                self.break_k = getattr(self, 'break_k', [])
                self.break_k.append(tup)
                def rec(e):
                    return f'{lname} fuel_ ' + ' '.join(e[v] for v in consts) + ' ' + ' '.join(e[v] for v in carried)
                def after_body(e):
                    if inc and inc.get('kind'):
                        return self.stmts([inc], e, rec)
                    return rec(e)
                body_t = self.stmts([body], e_loop, after_body)
                self.break_k.pop()
                if cond_n and cond_n.get('kind'):
                    cnd, tcnd = self.expr(cond_n, e_loop)
                    cnd = self.as_bool(cnd, tcnd)
                else:
                    cnd = 'true'
                used = body_t + cnd
                fix = f'Fixpoint {lname} (fuel : nat) ' + ' '.join(f'({a} : {"mem_t" if "mem" in a and a.startswith(("c_mem","l_mem")) else "N"})' for a in kargs + cargs) + ' {struct fuel} :=\n  match fuel with O => None | S fuel_ =>\n  if ' + cnd + ' then (\n' + body_t + ')\n  else ' + tup(e_loop) + '\n  end.'
                self.c.loops.append(fix)
                e2 = dict(e_init)
                names = []
                for v in carried:
                    nm = self.c.fresh(v.replace('this.', 'f_').replace('$', ''))
                    e2[v] = nm; names.append(nm)
                pat = "(" + ', '.join(names) + ')' if len(names) > 1 else names[0]
                call = f'{lname} fuel ' + ' '.join(e_init[v] for v in consts) + ' ' + ' '.join(e_init[v] for v in carried)
                self.c.uses_fuel = True
                return f'match {call} with None => None | Some {pat} =>\n' + cont(e2) + '\nend'
            if init and init.get('kind'):
                outer = set(env.keys())
                return self.stmts([init], env, after_init)
            return after_init(env)
        if kind == 'BreakStmt':
            return self.break_k[-1](env)
        raise Untranslatable(f'{self.c.fname}: statement kind {kind}')

    def ret(self, v, env):
        parts = []
        if v is not None:
            parts.append(v)
        for f in self.c.out_state:
            parts.append(env[f])
        r = '(' + ', '.join(parts) + ')' if len(parts) != 1 else parts[0]
        if not parts:
            r = 'tt'
        return f'Some {r}' if self.c.partial else r


def find_function(ast, unit, fname):
    """locate the instantiated (or plain) function definition"""
    cands = []
    for n, path in walk(ast):
        if n.get('kind') in ('FunctionDecl', 'CXXMethodDecl', 'CXXConstructorDecl', 'CXXDestructorDecl') and n.get('name') == fname:
            if not any(isinstance(c, dict) and c.get('kind') == 'CompoundStmt' for c in n.get('inner') or []):
                continue
            kinds = [p.get('kind') for p in path]
            dependent = ('ClassTemplateDecl' in kinds and 'ClassTemplateSpecializationDecl' not in kinds) or 'ClassTemplatePartialSpecializationDecl' in kinds
            if 'FunctionTemplateDecl' in kinds:
                # instantiations of function templates are children of the FunctionTemplateDecl after the pattern
                tmpl = [p for p in path if p.get('kind') == 'FunctionTemplateDecl'][-1]
                fds = [c for c in tmpl.get('inner') or [] if isinstance(c, dict) and c.get('kind') in ('FunctionDecl', 'CXXMethodDecl')]
                dependent = bool(fds) and n is fds[0] and len(fds) > 1
                if len(fds) == 1:
                    dependent = True
            cls = unit.get('class')
            if cls and not any(p.get('name') == cls for p in path):
                continue
            cands.append((dependent, n))
    want = unit.get('param_types', {}).get(fname)
    nd = [n for d, n in cands if not d]
    if want:
        nd = [n for n in nd if want in n.get('type', {}).get('qualType', '')] or nd
    if nd:
        return nd[min(unit.get('pick', 0), len(nd) - 1)]
    if cands:
        return cands[0][1]
    raise Untranslatable(f'function {fname} not found in the AST of {unit["name"]}')


def translate_function(ast, unit, fname, known, call_map, out):
    fn = find_function(ast, unit, fname)
    ctx = Ctx(unit, fname)
    gname = unit.get('rename', {}).get(fname, fname)
    gname = re.sub(r'[^A-Za-z0-9_]', '_', gname)
    params = [c for c in fn.get('inner') or [] if isinstance(c, dict) and c.get('kind') == 'ParmVarDecl']
    body = [c for c in fn['inner'] if isinstance(c, dict) and c.get('kind') == 'CompoundStmt'][0]
    tr = Tr(ctx, known, call_map)
    env = {}
    gparams = []
    for p in params:
        nm = ctx.fresh(p.get('name', 'arg'))
        env[p.get('name', nm)] = nm
        gparams.append(nm)
    state_in = []
    for m, gfield in unit.get('state', {}).items():
        nm = ctx.fresh('f_' + m)
        env['this.' + m] = nm
        state_in.append((m, nm))
    if unit.get('mem') or unit.get('mem1'):
        env['$mem'] = ctx.fresh('mem')
    # which state does the function modify?  (returned alongside the value)
    assigned = tr.assigned_vars(body)
    ctx.out_state = [v for v in assigned if v.startswith('this.') or v == '$mem']
    ctx.partial = any(m.get('kind') in ('ForStmt', 'WhileStmt') for m, _ in walk(body))
    ctx.uses_fuel = False
    term = tr.stmts([body], env, lambda e: tr.ret(None, e))
    # which state inputs are actually used?
    used_state = [(m, nm) for m, nm in state_in if re.search(r'\b' + re.escape(nm) + r'\b', term + ' '.join(ctx.loops))]
    uses_mem = '$mem' in env and re.search(r'\b' + re.escape(env['$mem']) + r'\b', term + ' '.join(ctx.loops))
    for ap in unit.get('always_params', []):
        if ap not in ctx.params:
            ctx.params.append(ap)
    sig = ''
    for p in ctx.params:
        sig += f' (P_{p} : N)'
    if ctx.partial:
        sig += ' (fuel : nat)'
    for m, nm in used_state:
        sig += f' ({nm} : N)'
    if uses_mem:
        sig += f' ({env["$mem"]} : mem_t)'
    for g in gparams:
        sig += f' ({g} : N)'
    for l in ctx.loops:
        # loops need the symbolic parameters too (signature and recursive call)
        lp = ''.join(f' (P_{p} : N)' for p in ctx.params)
        if lp:
            lname_ = re.match(r'Fixpoint (\S+)', l).group(1)
            l = l.replace('(fuel : nat)', lp.strip() + ' (fuel : nat)', 1)
            l = l.replace(f'{lname_} fuel_ ', f'{lname_} ' + ' '.join('P_' + p for p in ctx.params) + ' fuel_ ')
        out.append(l)
    text = f'Definition {gname}{sig} :=\n{term}.'
    if ctx.params:
        # pass symbolic parameters to loop calls
        for l in ctx.loops:
            lname = re.match(r'Fixpoint (\S+)', l).group(1)
            text = text.replace(f'{lname} fuel ', f'{lname} ' + ' '.join('P_' + p for p in ctx.params) + ' fuel ')
    out.append(text)
    meta = {'name': gname, 'cxx': fname, 'params': gparams, 'template_params': ctx.params, 'state_in': [m for m, _ in used_state], 'uses_mem': bool(uses_mem),
            'state_out': ctx.out_state, 'partial': ctx.partial, 'consts': ctx.consts}
    return meta


def translate_constant(ast, unit, cname, known, call_map, out):
    """static constexpr data member -> Definition C_name (symbolic in the template params)"""
    for n, path in walk(ast):
        if n.get('kind') == 'VarDecl' and n.get('name') == cname and any(p.get('kind') == 'ClassTemplateSpecializationDecl' or p.get('kind') == 'CXXRecordDecl' for p in path):
            kinds = [p.get('kind') for p in path]
            if 'ClassTemplateDecl' in kinds and 'ClassTemplateSpecializationDecl' not in kinds:
                continue
            cls = unit.get('const_class', unit.get('class'))
            clss = cls if isinstance(cls, (list, tuple)) else [cls]
            if cls and not any(p.get('name') in clss for p in path):
                continue
            init = [c for c in n.get('inner') or [] if isinstance(c, dict)]
            if not init:
                continue
            ctx = Ctx(unit, 'C_' + cname)
            tr = Tr(ctx, known, call_map)
            v, ty = tr.expr(init[0], {})
            return v, ctx.params, ctx.consts
    raise Untranslatable(f'constant {cname} not found')


PRELUDE = '''(* GENERATED by tools/cxx2gallina.py from %(src)s -- do not edit.  sha256(source)=%(sha)s *)
From Coq Require Import NArith ZArith Bool.
From XV Require Import Base.Word.
Local Open Scope N_scope.
Definition mem_t := N -> N -> N.
Definition mget (m : mem_t) (b i : N) : N := m b i.
Definition mset (m : mem_t) (b i v : N) : mem_t := fun b' i' => if andb (b' =? b) (i' =? i) then v else m b' i'.
'''

def generate(unit):
    """returns (coq_text, meta)"""
    ast = clang_ast(unit['tu'])
    out = []
    known = dict(unit.get('known', {}))
    call_map = dict(unit.get('call_map', {}))
    metas = []
    # constants first (in dependency order as listed)
    const_defs = []
    for cname in unit.get('constants', {}):
        v, params, consts = translate_constant(ast, unit, cname, known, call_map, out)
        const_defs.append((cname, v, params, consts))
    # constants depending on symbolic params become functions of them; record the param lists
    cparams = {}
    for cname, v, params, consts in const_defs:
        allp = list(params)
        for cc in consts:
            for p in cparams.get(cc, []):
                if p not in allp:
                    allp.append(p)
        cparams[cname] = allp
        body = v
        for cc in consts:
            body = re.sub(r'\bC_' + cc + r'\b', '(C_' + cc + ''.join(' P_' + p for p in cparams[cc]) + ')' if cparams[cc] else 'C_' + cc, body)
        out.append(f'Definition C_{cname}' + ''.join(f' (P_{p} : N)' for p in allp) + f' : N := {body}.')
    for fname in unit['functions']:
        tmp = []
        meta = translate_function(ast, unit, fname, known, call_map, tmp)
        # constants used: expand with their parameter lists; add those params to the function
        text = '\n'.join(tmp)
        extra = []
        for cc in meta['consts']:
            for p in cparams.get(cc, []):
                if p not in meta['template_params'] and p not in extra:
                    extra.append(p)
            text = re.sub(r'\bC_' + cc + r'\b(?! *\()', ('(C_' + cc + ''.join(' P_' + p for p in cparams[cc]) + ')') if cparams.get(cc) else 'C_' + cc, text)
        if extra:
            gn = meta['name']
            text = text.replace(f'Definition {gn}', f'Definition {gn}' + ''.join(f' (P_{p} : N)' for p in extra), 1)
            meta['template_params'] = extra + meta['template_params']
        out.append(text)
        # later functions call this one with its template params applied
        gn = meta['name']
        known[fname] = gn + ''.join(' P_' + p for p in meta['template_params']) + (' fuel' if meta['partial'] else '')
        metas.append(meta)
    src = unit['source']
    sha = hashlib.sha256(open(os.path.join(REPO, src), 'rb').read()).hexdigest()[:16]
    return PRELUDE % {'src': src, 'sha': sha} + unit.get('prelude', '') + '\n\n' + '\n\n'.join(out) + '\n', metas


if __name__ == '__main__':
    import importlib.util
    here = os.path.dirname(os.path.abspath(__file__))
    spec = importlib.util.spec_from_file_location('units', os.path.join(here, 'units.py'))
    units = importlib.util.module_from_spec(spec); spec.loader.exec_module(units)
    outdir = sys.argv[1] if len(sys.argv) > 1 else os.path.join(here, '..', 'coq', 'gen')
    only = sys.argv[2:]
    ok = True
    for u in units.UNITS:
        if only and u['name'] not in only:
            continue
        try:
            text, metas = generate(u)
            p = os.path.join(outdir, u['name'] + '.v')
            old = open(p).read() if os.path.exists(p) else None
            if old != text:
                open(p, 'w').write(text)
            json.dump(metas, open(os.path.join(outdir, u['name'] + '.meta.json'), 'w'), indent=1)
            print(f'generated {u["name"]}.v ({len(metas)} functions)')
        except Untranslatable as e:
            ok = False
            print(f'UNTRANSLATABLE {u["name"]}: {e}')
    sys.exit(0 if ok else 3)
