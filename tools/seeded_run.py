#!/usr/bin/env python3
"""seeded_run.py <seeded-id> [check ids ...] [--tier T] [--seeds 1,2] [--inplace]
   default (isolated): copies /verif (without build output) and /repo's HEAD to /tmp/vseed/<id>/, applies
   seeded/<id>/patch.diff to the repo copy, runs the given checks there (XV_REPO points at the copy), copies the
   results back into seeded/<id>/ and removes the scratch copy - nothing in /repo or /verif/build is touched, so it
   can run while other work uses them.
   --inplace: the way the checks are used for real: git -C /repo apply, run, git -C /repo checkout -- . (always)."""
import sys, os, subprocess, json, re, time
V = os.path.dirname(os.path.dirname(os.path.abspath(__file__)))
REPO = '/repo'

def sh(cmd, **kw):
    return subprocess.run(cmd, capture_output=True, text=True, **kw)

def main():
    args = [a for a in sys.argv[1:] if not a.startswith('--')]
    inplace = '--inplace' in sys.argv
    tier = 'quick'; seeds = ['1']
    for i, a in enumerate(sys.argv):
        if a == '--tier': tier = sys.argv[i + 1]
        if a == '--seeds': seeds = sys.argv[i + 1].split(',')
    args = [a for a in args if a not in (tier,) and a not in (','.join(seeds),)]
    sid = args[0]
    d = os.path.join(V, 'seeded', sid)
    meta = json.load(open(os.path.join(d, 'meta.json'))) if os.path.exists(os.path.join(d, 'meta.json')) else {}
    checks = args[1:] or [meta.get('property_id', sid[:3])]
    import shutil
    vroot, repo = V, REPO
    scratch = None
    if inplace:
        st = sh(['git', '-C', REPO, 'status', '--porcelain', '--untracked-files=no'])
        if st.stdout.strip():
            print('refusing: /repo has uncommitted changes:\n' + st.stdout); return 2
        r = sh(['git', '-C', REPO, 'apply', os.path.join(d, 'patch.diff')])
    else:
        scratch = os.path.join('/tmp/vseed', sid)
        shutil.rmtree(scratch, ignore_errors=True)
        os.makedirs(scratch)
        vroot, repo = os.path.join(scratch, 'verif'), os.path.join(scratch, 'repo')
        sh(['rsync', '-a', '--exclude', 'build', '--exclude', '.git', '--exclude', 'evidence/replay', '--exclude', 'seeded', V + '/', vroot + '/'])
        os.makedirs(repo)
        sh('git -C %s archive HEAD | tar -x -C %s' % (REPO, repo), shell=True)
        sh(['git', 'init', '-q'], cwd=repo)
        r = sh(['git', 'apply', os.path.join(d, 'patch.diff')], cwd=repo)
    if r.returncode != 0:
        print('patch does not apply: ' + r.stderr); return 2
    results = {}
    try:
        for c in checks:
            for sd in seeds:
                t0 = time.time()
                env = dict(os.environ, VERIF_SEED=sd, VERIF_TIER=tier, XV_REPO=repo)
                p = sh([sys.executable, os.path.join(vroot, 'tools', 'check.py'), c, '--tier', tier], cwd=vroot, env=env)
                viol = [l for l in p.stdout.splitlines() if l.startswith('VIOLATION')]
                detail = [l.strip() for l in p.stdout.splitlines() if l.startswith('  ')][:3]
                known = [l[:120] for l in p.stdout.splitlines() if l.startswith('KNOWN-FINDING')]
                results['%s@%s' % (c, sd)] = {'rc': p.returncode, 'violations': viol, 'detail': detail, 'known': len(known), 'wall_s': round(time.time() - t0)}
                print('%s seed=%s rc=%d %s %s' % (c, sd, p.returncode, viol[:2], detail[:2]), flush=True)
                # keep the first replay file of a detection next to the seeded change
                if viol:
                    m = re.search(r'replay=(\S+)', viol[0])
                    if m and os.path.exists(os.path.join(vroot, m.group(1))):
                        dst = os.path.join(d, 'detected_by_%s.replay.json' % c)
                        if not os.path.exists(dst):
                            open(dst, 'w').write(open(os.path.join(vroot, m.group(1))).read())
    finally:
        if inplace:
            sh(['git', '-C', REPO, 'checkout', '--', '.'])
        elif scratch:
            shutil.rmtree(scratch, ignore_errors=True)
    json.dump(results, open(os.path.join(d, 'check_results.json'), 'w'), indent=1)
    return 0

if __name__ == '__main__':
    sys.exit(main())
