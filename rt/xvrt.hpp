// xvrt - a replacement for the compiler's ThreadSanitizer runtime interface.
//
// The harness translation units are compiled with `g++ -fsanitize=thread -U__SANITIZE_THREAD__ -c`
// and linked WITHOUT libtsan against xvrt.o, which defines the `__tsan_*` entry points.  Every
// std::atomic operation (with its memory orders), every fence and every plain load/store of the
// unmodified xenium headers therefore goes through this runtime, which provides
//   * a deterministic scheduler (one logical thread runs at a time; every atomic access, fence,
//     mutex operation and yield is a scheduling point),
//   * a tracer (one record per atomic access / fence, canonical location names),
//   * a quarantine allocator (use-after-free / double-free oracle; optional eager reuse for ABA),
//   * a vector-clock race detector and an optional view-based weak-memory mode (C03).
#pragma once
#include <cstddef>
#include <cstdint>
#include <functional>
#include <string>
#include <vector>

namespace xv {

enum Kind : uint8_t { K_LOAD = 0, K_STORE, K_RMW, K_CASF, K_FENCE, K_LOCK, K_UNLOCK, K_YIELD, K_EV, K_ALLOC, K_FREE, K_CHOICE };
enum Status : int {
  S_OK = 0,
  S_UAF = 1,        // access to quarantined (freed) memory
  S_DOUBLE_FREE = 2,
  S_RACE = 3,       // conflicting plain accesses without happens-before
  S_DEADLOCK = 4,   // every unfinished thread is blocked/spinning
  S_STEPLIMIT = 5,  // execution exceeded max_steps
  S_CRASH = 6,      // signal / exception escaped
  S_ORACLE = 7,     // harness oracle (lincheck, census ...) failed
  S_SOLO = 8        // solo run exceeded its bound (C16)
};

struct Rec {
  int32_t tid;
  uint8_t kind;
  uint8_t mo;       // memory order (success order for RMW/CAS)
  uint8_t mo2;      // failure order for CAS
  uint8_t size;
  uintptr_t addr;
  uint64_t v1;      // value loaded / stored / old value
  uint64_t v2;      // new value (RMW) / expected (CASF)
  std::string text; // K_EV lines
};

struct Config {
  bool trace = false;       // record Rec's
  bool aba = false;         // eager LIFO reuse of freed blocks instead of quarantine
  bool weak = false;        // view-based weak memory mode
  bool race = false;        // vector clock race detection on plain accesses (heap + named ranges)
  int weak_window = 16;     // staleness window W
  long max_steps = 200000;  // per execution
  int spin_limit = 64;      // consecutive non-modifying atomic ops before a thread counts as spinning
  uint64_t seed = 1;
  bool stop_on_violation = true;
};

// --- scheduling strategies -------------------------------------------------------------------
struct Scheduler {
  virtual ~Scheduler() {}
  // step: global step index, cur: thread that is about to execute an atomic op (or -1 at thread
  // start / end), enabled: bitmask of runnable logical threads. Returns the tid to run next.
  virtual int pick(long step, int cur, uint32_t enabled) = 0;
  // a nondeterministic choice made by the code under test (utils::random hook, spurious CAS failure)
  virtual uint64_t choice(uint64_t n) { return 0; }
};

struct ReplaySched : Scheduler {  // explicit list of tids, then non-preemptive lowest-id fallback
  std::vector<int> sched; size_t pos = 0; std::vector<uint64_t> choices; size_t cpos = 0;
  bool diverged = false;  // a scheduled thread was not enabled
  int pick(long, int cur, uint32_t enabled) override;
  uint64_t choice(uint64_t n) override;
};
struct RandomSched : Scheduler {  // uniform random with a switch probability
  uint64_t s; unsigned switch_pct;
  RandomSched(uint64_t seed, unsigned pct = 30) : s(seed * 0x9E3779B97F4A7C15ull + 1), switch_pct(pct) {}
  uint64_t next();
  int pick(long, int cur, uint32_t enabled) override;
  uint64_t choice(uint64_t n) override { return n ? next() % n : 0; }
};
struct PctSched : Scheduler {  // PCT (Burckhardt et al.): random priorities + d-1 change points
  uint64_t s; int depth; long est_len; std::vector<int> prio; std::vector<long> change; int low = 0;
  PctSched(uint64_t seed, int nthreads, int depth, long est_len);
  uint64_t next();
  int pick(long step, int cur, uint32_t enabled) override;
  uint64_t choice(uint64_t n) override { return n ? next() % n : 0; }
};
struct PrefixSched : Scheduler {  // "A runs k steps, then B..." : list of (tid, count); then fallback
  std::vector<std::pair<int, long>> segs; size_t seg = 0; long used = 0;
  int pick(long, int cur, uint32_t enabled) override;
};

struct Result {
  int status = S_OK;
  std::string detail;
  std::vector<int> schedule;        // tid chosen at every scheduling point
  std::vector<uint32_t> enabled;    // enabled mask at every scheduling point
  std::vector<uint64_t> choices;    // recorded nondeterministic choices
  std::vector<long> thread_steps;   // atomic steps per logical thread
  long steps = 0;
};

// --- API used by harnesses (all called from the main thread unless stated otherwise) -------------
void reset(const Config& cfg);                      // start a fresh execution (tracking on)
int spawn(std::function<void()> body);              // new logical thread, ids 1,2,...; starts when run() is called
Result run(Scheduler& s);                           // run all spawned threads to completion
void finish();                                      // stop tracking (after final drain / destruction)
void name_range(const void* p, size_t n, const char* name);
void event(const std::string& line);                // K_EV record, any thread
void yield_point();                                 // explicit scheduling point (operation START)
bool at_boundary(int tid);                          // thread is at an operation START (or has not started)
void step_point();                                  // scheduling point for a harness-level step (e.g. one plain access of a functor)
void clock_snapshot(uint32_t out[16]);               // happens-before vector clock of the calling logical thread (race/weak mode)
int self();                                         // logical tid (0 = main)
uint64_t choose(uint64_t n);                        // recorded nondeterministic choice in [0,n)
void fail(int status, const std::string& detail);   // harness oracle reports a violation
const std::vector<Rec>& trace();
std::string fmt_rec(const Rec& r);                  // canonical one-line rendering
std::string sym_addr(uintptr_t a);                  // canonical name of an address ("?0x.." if unknown)
std::string sym_val(uint64_t v, unsigned size);     // canonical rendering of a value (pointer -> name)
int status();                                       // current violation status (S_OK if none)
std::string detail();
long live_tracked_blocks();                         // number of tracked heap blocks not yet freed
long tracked_allocs();
long live_blocks_by_threads();                        // live tracked blocks that were allocated by logical threads (not by the main thread)                              // number of tracked allocations so far
void set_solo(int tid, long budget);
int solo_thread();                                 // 0 if not in solo mode
[[noreturn]] void end_execution();                  // stop the whole execution now (solo runs: the other threads stay stopped mid-operation)                // from now on only `tid` is scheduled (C16)
bool is_freed(const void* p);                       // p lies in a quarantined block
uint64_t step_count();
const Result& partial_result();                      // schedule/choices recorded so far (for aborted executions)
struct Quiet { Quiet(); ~Quiet(); };                // RAII: allocations/accesses made by harness bookkeeping are not tracked
void set_abort_handler(std::function<void()> f);   // called (then _exit) when an execution is aborted
// weak mode / race detector statistics
struct WStats { long stale_reads = 0, loads = 0, race_checks = 0; };
WStats wstats();

}  // namespace xv
