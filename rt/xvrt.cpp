// xvrt.cpp - see xvrt.hpp.  Compiled WITHOUT -fsanitize=thread.
#include "xvrt.hpp"

#include <dlfcn.h>
#include <pthread.h>
#include <sched.h>
#include <semaphore.h>
#include <unistd.h>

#include <algorithm>
#include <cstdio>
#include <cstdlib>
#include <cstring>
#include <map>
#include <new>
#include <thread>

namespace xv {
namespace {

constexpr int MAXT = 16;

thread_local int tl_tid = -1;  // logical tid of this OS thread (-1: not managed)
thread_local int tl_in_rt = 0; // re-entrancy guard (allocations made by the runtime itself)
struct RtGuard { RtGuard() { ++tl_in_rt; } ~RtGuard() { --tl_in_rt; } };

struct Block { uintptr_t base; size_t size; int id; bool freed; int free_tid; size_t key; int alloc_tid; };
struct Range { uintptr_t base; size_t n; std::string name; };

struct VC { uint32_t c[MAXT] = {0}; void join(const VC& o) { for (int i = 0; i < MAXT; i++) if (o.c[i] > c[i]) c[i] = o.c[i]; }
  bool leq(const VC& o) const { for (int i = 0; i < MAXT; i++) if (c[i] > o.c[i]) return false; return true; } };

// weak memory: one message per store
typedef std::map<uintptr_t, long> View;   // location -> timestamp of the newest message known
static void vjoin(View& a, const View& b) { for (auto& kv : b) { long& x = a[kv.first]; if (kv.second > x) x = kv.second; } }
// one message per store: value, timestamp (= position in modification order), happens-before clock and view it releases
struct RelHead { VC rel; View relview; };
// heads: for every thread h, the join of what the release operations of h that head a release sequence containing this message released
struct Msg { uint64_t val; long ts; long step; VC rel; View relview; bool has_rel; int tid; std::map<int, RelHead> heads; };
struct ALoc { std::vector<Msg> msgs; };
struct PlainShadow { VC w; int wt = -1; uint32_t wclk = 0; VC r; bool any = false; };

struct Th {
  std::function<void()> body;
  std::thread th;
  sem_t sem;
  bool started = false, finished = false, spinning = false;
  bool at_start = true;  // waiting at an operation START
  bool skip_decision = false;  // the decision that started this thread already selected its first step
  int mutex_wait = 0;  // blocked on a mutex
  const void* waiting_mutex = nullptr;
  int ro = 0;  // consecutive non-modifying atomic ops
  std::vector<uintptr_t> watch;
  long steps = 0;
  // race detector / weak mode
  VC vc;        // happens-before clock
  VC acq_pend;  // joined at the next acquire fence
  VC rel_fence; // snapshot at the last release fence
  bool has_rel_fence = false;
  View view;        // weak mode: what this thread must at least see (per location timestamp)
  View acq_view;    // joined into view at the next acquire fence
  View rel_view;    // snapshot of view at the last release fence
};

struct G {
  Config cfg;
  bool active = false;   // tracking on
  bool running = false;  // scheduler on (inside run())
  std::map<uintptr_t, Block> blocks;
  std::vector<Range> ranges;
  std::map<size_t, std::vector<void*>> freelists;  // aba mode
  int next_block = 0;
  long live = 0;
  Th* th[MAXT] = {nullptr};
  int nth = 0;  // logical threads are 1..nth
  int current = 0;
  sem_t main_sem;
  Scheduler* sched = nullptr;
  Result res;
  std::vector<Rec> trace;
  long steps = 0;
  int status = S_OK;
  std::string detail;
  int solo = 0; long solo_budget = 0; long solo_used = 0;
  std::function<void()> abort_handler;
  std::map<const void*, int> mutex_owner;
  // race / weak
  std::map<uintptr_t, ALoc> alocs;
  std::map<uintptr_t, PlainShadow> shadow;
  View sc_view;     // global view exchanged by seq_cst fences / accesses (visibility only, no happens-before)
  long ts = 0;
  WStats ws;
  uint64_t wrng = 1;
};
G* g = nullptr;
G& gg() { if (!g) { RtGuard r; g = new G(); } return *g; }

const char* mo_name(int mo) {
  switch (mo) { case 0: return "rlx"; case 1: return "cns"; case 2: return "acq"; case 3: return "rel"; case 4: return "acqrel"; case 5: return "sc"; }
  return "?";
}

Block* find_block(uintptr_t a) {
  auto& b = gg().blocks;
  auto it = b.upper_bound(a);
  if (it == b.begin()) return nullptr;
  --it;
  if (a < it->second.base + it->second.size) return &it->second;
  // allow one-past-the-end style sentinel addresses only for exact end (not treated as inside)
  return nullptr;
}

void set_status(int st, const std::string& d) {
  G& G_ = gg();
  if (G_.status == S_OK) { G_.status = st; G_.detail = d; }
}

[[noreturn]] void abort_execution() {
  G& G_ = gg();
  G_.res.status = G_.status; G_.res.detail = G_.detail; G_.res.steps = G_.steps;
  tl_in_rt++;
  if (G_.abort_handler) G_.abort_handler();
  fflush(stdout);
  _exit(G_.status == S_OK ? 0 : 10 + G_.status);
}

void check_access(uintptr_t a, size_t n, bool write, bool atomic) {
  G& G_ = gg();
  Block* b = find_block(a);
  if (b && b->freed) {
    char buf[256];
    snprintf(buf, sizeof buf, "%s%s of %zu bytes at h%d+%zu (freed by T%d) by T%d at step %ld", atomic ? "atomic " : "plain ",
             write ? "write" : "read", n, b->id, (size_t)(a - b->base), b->free_tid, tl_tid, G_.steps);
    set_status(S_UAF, buf);
    if (G_.cfg.stop_on_violation) abort_execution();
  }
}

uint32_t enabled_mask() {
  G& G_ = gg();
  uint32_t m = 0;
  for (int i = 1; i <= G_.nth; i++) {
    Th* t = G_.th[i];
    if (t->finished || t->spinning || t->mutex_wait) continue;
    if (G_.solo && i != G_.solo) continue;
    m |= 1u << i;
  }
  return m;
}

void hand_over(int me, int next) {
  G& G_ = gg();
  G_.current = next;
  if (next == 0) sem_post(&G_.main_sem); else sem_post(&G_.th[next]->sem);
  if (me > 0 && !G_.th[me]->finished) { while (sem_wait(&G_.th[me]->sem) != 0) {} }
}

int choose_next(int me, uint32_t en) {
  G& G_ = gg();
  int next = G_.sched->pick(G_.steps, me, en);
  if (next <= 0 || next > G_.nth || !(en & (1u << next))) {
    // scheduler returned something not enabled: lowest enabled
    next = 0;
    for (int i = 1; i <= G_.nth; i++) if (en & (1u << i)) { next = i; break; }
  }
  return next;
}

void deadlock() {
  G& G_ = gg();
  std::string d = G_.solo ? "solo run: the thread waits for a stopped thread:" : "no runnable thread:";
  for (int i = 1; i <= G_.nth; i++) {
    Th* t = G_.th[i];
    if (t->finished) continue;
    if (G_.solo && i != G_.solo) continue;   // the other threads are stopped on purpose
    d += " T" + std::to_string(i) + (t->spinning ? "(spinning" : "(mutex");
    if (t->spinning) for (auto a : t->watch) { d += " " + sym_addr(a); if (d.size() > 400) break; }
    d += ")";
  }
  set_status(G_.solo ? S_SOLO : S_DEADLOCK, d);
  abort_execution();
}

// called by a logical thread that is about to perform an atomic step
void sched_point() {
  G& G_ = gg();
  int me = tl_tid;
  if (!G_.running && me == 0 && G_.active && !tl_in_rt) {
    // single-threaded phases (setup / final drain) still have a step budget: a spin on a lock that was
    // never released would otherwise hang the process
    if (++G_.steps > G_.cfg.max_steps) { RtGuard rg2; set_status(S_STEPLIMIT, "execution exceeded step limit in the single-threaded phase (a lock is still held or an operation does not terminate)"); abort_execution(); }
    return;
  }
  if (!G_.running || me <= 0) return;
  RtGuard rg;
  G_.steps++;
  G_.th[me]->steps++;
  if (G_.solo == me) { if (++G_.solo_used > G_.solo_budget) { set_status(S_SOLO, "solo thread T" + std::to_string(me) + " did not finish within " + std::to_string(G_.solo_budget) + " steps"); abort_execution(); } }
  if (G_.steps > G_.cfg.max_steps) { set_status(S_STEPLIMIT, "execution exceeded step limit"); abort_execution(); }
  if (G_.th[me]->skip_decision) { G_.th[me]->skip_decision = false; return; }
  uint32_t en = enabled_mask();
  if (en == 0) deadlock();
  int next = choose_next(me, en);
  G_.res.schedule.push_back(next);
  G_.res.enabled.push_back(en);
  if (next != me) hand_over(me, next);
}

void note_progress(int me, bool modifying, uintptr_t addr) {
  G& G_ = gg();
  if (me <= 0 || !G_.running) return;
  Th* t = G_.th[me];
  if (modifying) {
    t->ro = 0; t->watch.clear();
    // wake spinners watching this location
    for (int i = 1; i <= G_.nth; i++) {
      Th* o = G_.th[i];
      // a write to a location another thread has been polling changes that thread's environment: its
      // read-only streak starts over (it counts as spinning only if nobody wrote what it reads)
      if (i != me && std::find(o->watch.begin(), o->watch.end(), addr) != o->watch.end()) { o->spinning = false; o->ro = 0; o->watch.clear(); }
    }
  } else {
    // only RE-reads of a location already polled in this streak count: a long read-only scan over
    // distinct locations (rehashing, traversals) is progress, a loop over the same locations is not
    // (a traversal that re-reads a few fixed words - block pointer, era clock, bucket state - at every element it visits
    //  is still making progress as long as it keeps reaching locations it has not read before: a new location restarts the count)
    if (addr && std::find(t->watch.begin(), t->watch.end(), addr) == t->watch.end()) { if (t->watch.size() < 4096) { t->watch.push_back(addr); t->ro = 0; } else t->ro++; }
    else t->ro++;
    if (t->ro >= G_.cfg.spin_limit) t->spinning = true;  // takes effect at the next scheduling point
  }
}

void thread_finished(int me) {
  G& G_ = gg();
  RtGuard rg;
  G_.th[me]->finished = true;
  uint32_t en = enabled_mask();
  bool all = true;
  for (int i = 1; i <= G_.nth; i++) if (!G_.th[i]->finished) all = false;
  if (all || (G_.solo == me)) { G_.current = 0; sem_post(&G_.main_sem); return; }
  if (en == 0) deadlock();
  int next = choose_next(-1, en);
  G_.res.schedule.push_back(next);
  G_.res.enabled.push_back(en);
  G_.current = next;
  sem_post(&G_.th[next]->sem);
}

struct Sentinel { int tid = -1; ~Sentinel() { if (tid > 0) { thread_finished(tid); tl_tid = -1; } } };
thread_local Sentinel tl_sentinel;

void trampoline(int tid) {
  G& G_ = gg();
  tl_sentinel.tid = tid;  // constructed first => destroyed after every thread_local created by the body
  tl_tid = tid;
  while (sem_wait(&G_.th[tid]->sem) != 0) {}
  G_.th[tid]->started = true;
  G_.th[tid]->skip_decision = true;
  try {
    G_.th[tid]->body();
  } catch (const std::exception& e) {
    set_status(S_CRASH, std::string("uncaught exception in T") + std::to_string(tid) + ": " + e.what());
    abort_execution();
  } catch (...) {
    set_status(S_CRASH, "uncaught exception in T" + std::to_string(tid));
    abort_execution();
  }
  // thread_local destructors (reclaimer thread_data) run after this returns, still under the baton;
  // the sentinel's destructor marks the thread finished.
}

// ---------------------------------------------------------------------------------------------
// happens-before clocks (race detector) and weak mode
// ---------------------------------------------------------------------------------------------
bool is_acq(int mo) { return mo == 1 || mo == 2 || mo == 4 || mo == 5; }
bool is_rel(int mo) { return mo == 3 || mo == 4 || mo == 5; }

VC& tvc(int me) { return gg().th[me]->vc; }
static VC main_vc;
VC& clock_of(int me) { return me > 0 ? tvc(me) : main_vc; }

uint64_t wnext() { G& G_ = gg(); G_.wrng ^= G_.wrng << 13; G_.wrng ^= G_.wrng >> 7; G_.wrng ^= G_.wrng << 17; return G_.wrng; }

// Happens-before (vector clocks, used for the race check) follows the C++ rules only: release/acquire
// on the same message, C++11 release sequences (RMWs of any thread and later stores of the releasing thread),
// fence-fence/fence-atomic synchronisation through a message.  seq_cst fences and accesses create NO happens-before by themselves; they only constrain
// which messages later loads may read (views), as in view-based operational models.
static View main_view;
View& view_of(int me) { return me > 0 ? gg().th[me]->view : main_view; }

// A store (or the write part of an RMW) appends a message at the end of the modification order.
void hb_store(int me, uintptr_t a, uint64_t val, int mo, bool rmw, const Msg* read_from) {
  G& G_ = gg();
  if (!(G_.cfg.race || G_.cfg.weak)) return;
  ALoc& L = G_.alocs[a];
  Msg m; m.val = val; m.ts = ++G_.ts; m.step = G_.steps; m.tid = me; m.has_rel = false;
  VC& c = clock_of(me);
  View& vw = view_of(me);
  if (me >= 0 && me < MAXT) c.c[me]++;
  vw[a] = m.ts;
  if (mo == 5) { vjoin(vw, G_.sc_view); G_.sc_view = vw; }
  // C++11 release sequences ([intro.races] up to C++17, the standard xenium is written against): the sequence headed
  // by a release operation A continues through later stores of A's own thread and through RMWs of any thread, as long
  // as they are contiguous in the modification order.  mo = execution order here, so the predecessor is the last message.
  const Msg* pred = L.msgs.empty() ? nullptr : &L.msgs.back();
  if (pred) {
    if (rmw) m.heads = pred->heads;
    else { auto h = pred->heads.find(me); if (h != pred->heads.end()) m.heads[me] = h->second; }
  }
  (void)read_from;
  bool own = false; VC ownrel; View ownview;
  if (is_rel(mo)) { ownrel = c; ownview = vw; own = true; }
  else if (me > 0 && G_.th[me]->has_rel_fence) { ownrel = G_.th[me]->rel_fence; ownview = G_.th[me]->rel_view; ownview[a] = m.ts; own = true; }
  if (own) { RelHead& h = m.heads[me]; h.rel.join(ownrel); vjoin(h.relview, ownview); }
  for (auto& kv : m.heads) { m.rel.join(kv.second.rel); vjoin(m.relview, kv.second.relview); m.has_rel = true; }
  if (m.has_rel) m.relview[a] = m.ts;
  L.msgs.push_back(m);
  // everything the thread does AFTER this store gets a new epoch: an acquirer of this message is ordered after the accesses
  // sequenced before the store only (FastTrack: L := C_t; C_t[t]++)
  if (me >= 0 && me < MAXT) c.c[me]++;
}

// A load picks a message; returns pointer to the message read (nullptr if the location has no history).
const Msg* hb_load(int me, uintptr_t a, int mo, bool must_latest, uint64_t cur_val, uint64_t* out) {
  G& G_ = gg();
  *out = cur_val;
  if (!(G_.cfg.race || G_.cfg.weak)) return nullptr;
  auto it = G_.alocs.find(a);
  if (it == G_.alocs.end() || it->second.msgs.empty()) return nullptr;
  ALoc& L = it->second;
  View& vw = view_of(me);
  if (L.msgs.back().val != cur_val) {
    // the location was re-initialised by a non-atomic write since its last atomic store (an object constructed in reused
    // memory, e.g. a node taken from a reclaimer's free list): the old history does not describe this object; start over
    // with one initialisation message that carries no synchronisation (whoever reads it must be ordered by other means)
    Msg im; im.val = cur_val; im.ts = ++G_.ts; im.step = G_.steps; im.tid = -1; im.has_rel = false;
    L.msgs.clear(); L.msgs.push_back(im);
  }
  if (mo == 5) vjoin(vw, G_.sc_view);
  size_t idx = L.msgs.size() - 1;
  if (G_.cfg.weak && !must_latest && me > 0) {
    // candidates: messages not older than the thread's view of a, and not overwritten more than W steps ago
    long minview = 0; auto v = vw.find(a); if (v != vw.end()) minview = v->second;
    size_t lo = idx;
    while (lo > 0) {
      const Msg& prev = L.msgs[lo - 1];
      const Msg& over = L.msgs[lo];  // the message that overwrote prev
      if (prev.ts < minview) break;
      if (G_.steps - over.step > G_.cfg.weak_window) break;
      lo--;
    }
    if (lo < idx) { size_t pick = lo + (size_t)(wnext() % (idx - lo + 1)); if (pick != idx) G_.ws.stale_reads++; idx = pick; }
  }
  G_.ws.loads++;
  const Msg& m = L.msgs[idx];
  *out = m.val;
  { long& x = vw[a]; if (m.ts > x) x = m.ts; }
  VC& c = clock_of(me);
  if (m.has_rel) {
    if (is_acq(mo)) { c.join(m.rel); vjoin(vw, m.relview); }
    else if (me > 0) { G_.th[me]->acq_pend.join(m.rel); vjoin(G_.th[me]->acq_view, m.relview); }
  }
  if (mo == 5) G_.sc_view = vw;
  return &L.msgs[idx];
}

void hb_fence(int me, int mo) {
  G& G_ = gg();
  if (!(G_.cfg.race || G_.cfg.weak) || me <= 0) return;
  Th* t = G_.th[me];
  if (is_acq(mo)) { t->vc.join(t->acq_pend); vjoin(t->view, t->acq_view); }
  if (mo == 5) { vjoin(t->view, G_.sc_view); G_.sc_view = t->view; }
  if (is_rel(mo)) { t->vc.c[me]++; t->rel_fence = t->vc; t->rel_view = t->view; t->has_rel_fence = true; t->vc.c[me]++; }
}

void hb_refresh_view(int, uintptr_t) {}

void race_plain(uintptr_t a, size_t n, bool write) {
  G& G_ = gg();
  if (!G_.cfg.race || !G_.active) return;
  int me = tl_tid; if (me < 0 || me >= MAXT) return;
  // only heap blocks and named ranges are checked (stack and harness globals are thread-private here)
  bool tracked = find_block(a) != nullptr;
  if (!tracked) { for (auto& r : G_.ranges) if (a >= r.base && a < r.base + r.n) { tracked = true; break; } }
  if (!tracked) return;
  G_.ws.race_checks++;
  VC& c = clock_of(me);
  uintptr_t w0 = a & ~(uintptr_t)7, w1 = (a + (n ? n - 1 : 0)) & ~(uintptr_t)7;
  for (uintptr_t w = w0; w <= w1; w += 8) {
    PlainShadow& s = G_.shadow[w];
    bool bad = false; int other = -1;
    if (s.wt >= 0 && s.wt != me && s.wclk > c.c[s.wt]) { bad = true; other = s.wt; }
    if (write && !bad) for (int i = 0; i < MAXT; i++) if (i != me && s.r.c[i] > c.c[i]) { bad = true; other = i; break; }
    if (bad) {
      char buf[256];
      snprintf(buf, sizeof buf, "data race: plain %s of %s by T%d conflicts with earlier plain access by T%d (no happens-before)", write ? "write" : "read", sym_addr(a).c_str(), me, other);
      set_status(S_RACE, buf);
      if (G_.cfg.stop_on_violation) abort_execution();
    }
    if (write) { s.wt = me; s.wclk = c.c[me] ? c.c[me] : (c.c[me] = 1); s.r = VC(); }
    else { if (!c.c[me]) c.c[me] = 1; s.r.c[me] = c.c[me]; }
  }
}

void shadow_clear(uintptr_t a, size_t n) {
  G& G_ = gg();
  if (!(G_.cfg.race || G_.cfg.weak)) return;
  auto lo = G_.shadow.lower_bound(a & ~(uintptr_t)7);
  while (lo != G_.shadow.end() && lo->first < a + n) lo = G_.shadow.erase(lo);
  auto l2 = G_.alocs.lower_bound(a);
  while (l2 != G_.alocs.end() && l2->first < a + n) l2 = G_.alocs.erase(l2);
}

// ---------------------------------------------------------------------------------------------
// atomic operations
// ---------------------------------------------------------------------------------------------
template <class T> uint64_t rd(const volatile void* p) { return (uint64_t) __atomic_load_n((const volatile T*)p, __ATOMIC_SEQ_CST); }

void record(int kind, uintptr_t addr, unsigned size, int mo, int mo2, uint64_t v1, uint64_t v2) {
  G& G_ = gg();
  if (!G_.cfg.trace || !G_.active) return;
  RtGuard rg;
  Rec r; r.tid = tl_tid; r.kind = (uint8_t)kind; r.mo = (uint8_t)mo; r.mo2 = (uint8_t)mo2; r.size = (uint8_t)size; r.addr = addr; r.v1 = v1; r.v2 = v2;
  G_.trace.push_back(std::move(r));
}

template <class T> T do_load(const volatile T* a, int mo) {
  G& G_ = gg();
  if (!G_.active || tl_tid < 0 || tl_in_rt) return __atomic_load_n(a, __ATOMIC_SEQ_CST);
  sched_point();
  RtGuard rg;
  check_access((uintptr_t)a, sizeof(T), false, true);
  uint64_t cur = (uint64_t)__atomic_load_n(a, __ATOMIC_SEQ_CST), out = cur;
  hb_refresh_view(tl_tid, (uintptr_t)a);
  hb_load(tl_tid, (uintptr_t)a, mo, false, cur, &out);
  record(K_LOAD, (uintptr_t)a, sizeof(T), mo, 0, out, 0);
  note_progress(tl_tid, false, (uintptr_t)a);
  return (T)out;
}
template <class T> void do_store(volatile T* a, T v, int mo) {
  G& G_ = gg();
  if (!G_.active || tl_tid < 0 || tl_in_rt) { __atomic_store_n(a, v, __ATOMIC_SEQ_CST); return; }
  sched_point();
  RtGuard rg;
  check_access((uintptr_t)a, sizeof(T), true, true);
  __atomic_store_n(a, v, __ATOMIC_SEQ_CST);
  hb_store(tl_tid, (uintptr_t)a, (uint64_t)v, mo, false, nullptr);
  record(K_STORE, (uintptr_t)a, sizeof(T), mo, 0, (uint64_t)v, 0);
  note_progress(tl_tid, true, (uintptr_t)a);
}
template <class T, class F> T do_rmw(volatile T* a, int mo, F f) {
  G& G_ = gg();
  if (!G_.active || tl_tid < 0 || tl_in_rt) { T o = __atomic_load_n(a, __ATOMIC_SEQ_CST); __atomic_store_n(a, f(o), __ATOMIC_SEQ_CST); return o; }
  sched_point();
  RtGuard rg;
  check_access((uintptr_t)a, sizeof(T), true, true);
  T old = __atomic_load_n(a, __ATOMIC_SEQ_CST);
  uint64_t out;
  const Msg* m = hb_load(tl_tid, (uintptr_t)a, mo, true, (uint64_t)old, &out);
  Msg copy; if (m) copy = *m;
  T nv = f(old);
  __atomic_store_n(a, nv, __ATOMIC_SEQ_CST);
  hb_store(tl_tid, (uintptr_t)a, (uint64_t)nv, mo, true, m ? &copy : nullptr);
  record(K_RMW, (uintptr_t)a, sizeof(T), mo, 0, (uint64_t)old, (uint64_t)nv);
  note_progress(tl_tid, true, (uintptr_t)a);
  return old;
}
template <class T> int do_cas(volatile T* a, T* c, T v, int mo, int fmo, bool weak) {
  G& G_ = gg();
  if (!G_.active || tl_tid < 0 || tl_in_rt) { return __atomic_compare_exchange_n(a, c, v, false, __ATOMIC_SEQ_CST, __ATOMIC_SEQ_CST); }
  sched_point();
  RtGuard rg;
  check_access((uintptr_t)a, sizeof(T), true, true);
  T old = __atomic_load_n(a, __ATOMIC_SEQ_CST);
  (void)weak;
  if (old == *c) {
    uint64_t out;
    const Msg* m = hb_load(tl_tid, (uintptr_t)a, mo, true, (uint64_t)old, &out);
    Msg copy; if (m) copy = *m;
    __atomic_store_n(a, v, __ATOMIC_SEQ_CST);
    hb_store(tl_tid, (uintptr_t)a, (uint64_t)v, mo, true, m ? &copy : nullptr);
    record(K_RMW, (uintptr_t)a, sizeof(T), mo, fmo, (uint64_t)old, (uint64_t)v);
    note_progress(tl_tid, true, (uintptr_t)a);
    return 1;
  }
  // failed CAS = a load with the failure order (reads the latest value: conservative in weak mode)
  uint64_t out;
  hb_load(tl_tid, (uintptr_t)a, fmo, true, (uint64_t)old, &out);
  record(K_CASF, (uintptr_t)a, sizeof(T), mo, fmo, (uint64_t)old, (uint64_t)*c);
  *c = old;
  note_progress(tl_tid, false, (uintptr_t)a);
  return 0;
}
void do_fence(int mo) {
  G& G_ = gg();
  if (!G_.active || tl_tid < 0 || tl_in_rt) { __atomic_thread_fence(__ATOMIC_SEQ_CST); return; }
  sched_point();
  RtGuard rg;
  hb_fence(tl_tid, mo);
  record(K_FENCE, 0, 0, mo, 0, 0, 0);
}

void plain(uintptr_t a, size_t n, bool write) {
  G& G_ = gg();
  if (!G_.active || tl_tid < 0 || tl_in_rt) return;
  RtGuard rg;
  check_access(a, n, write, false);
  race_plain(a, n, write);
}

// ---------------------------------------------------------------------------------------------
// allocator
// ---------------------------------------------------------------------------------------------
void* xalloc(size_t n, size_t al) {
  if (n == 0) n = 1;
  G* G_ = g;
  bool track = G_ && G_->active && tl_tid >= 0 && !tl_in_rt;
  if (!track) {
    void* p = al > 16 ? aligned_alloc(al, (n + al - 1) / al * al) : malloc(n);
    return p;
  }
  RtGuard rg;
  void* p = nullptr;
  size_t key = n * 131 + al;
  if (G_->cfg.aba) {
    auto& fl = G_->freelists[key];
    if (!fl.empty()) { p = fl.back(); fl.pop_back(); }
  }
  if (!p) p = al > 16 ? aligned_alloc(al, (n + al - 1) / al * al) : malloc(n < 8 ? 8 : n);
  if (!p) return nullptr;
  memset(p, 0xCD, n);
  Block b; b.base = (uintptr_t)p; b.size = n; b.id = G_->next_block++; b.freed = false; b.free_tid = -1; b.key = key; b.alloc_tid = tl_tid;
  G_->blocks[b.base] = b;
  G_->live++;
  shadow_clear(b.base, n);
  if (G_->cfg.trace) { Rec r; r.tid = tl_tid; r.kind = K_ALLOC; r.mo = r.mo2 = 0; r.size = 0; r.addr = b.base; r.v1 = n; r.v2 = b.id; G_->trace.push_back(r); }
  // allocation synchronises nothing; but a fresh block's plain state is empty
  return p;
}

void xfree(void* p) {
  if (!p) return;
  G* G_ = g;
  if (!G_) { free(p); return; }
  if (tl_in_rt) {  // runtime-internal memory is never tracked
    free(p); return;
  }
  RtGuard rg;
  auto it = G_->blocks.find((uintptr_t)p);
  if (it == G_->blocks.end()) {
    Block* in = find_block((uintptr_t)p);
    if (in && G_->active) { set_status(S_DOUBLE_FREE, "free of interior pointer into h" + std::to_string(in->id)); abort_execution(); }
    free(p); return;
  }
  Block& b = it->second;
  if (b.freed) {
    set_status(S_DOUBLE_FREE, "double free of h" + std::to_string(b.id) + " by T" + std::to_string(tl_tid) + " (first freed by T" + std::to_string(b.free_tid) + ")");
    if (G_->cfg.stop_on_violation) abort_execution();
    return;
  }
  if (!G_->active) { G_->blocks.erase(it); free(p); return; }
  if (G_->cfg.trace) { Rec r; r.tid = tl_tid; r.kind = K_FREE; r.mo = r.mo2 = 0; r.size = 0; r.addr = b.base; r.v1 = b.size; r.v2 = b.id; G_->trace.push_back(r); }
  G_->live--;
  if (G_->cfg.aba) {  // eager LIFO reuse: the next allocation of the same size gets this block
    G_->freelists[b.key].push_back(p);
    G_->blocks.erase(it);
    return;
  }
  b.freed = true; b.free_tid = tl_tid;
  memset(p, 0xDD, b.size);  // poison: stale readers see garbage deterministically
}

}  // namespace

// ---------------------------------------------------------------------------------------------
// schedulers
// ---------------------------------------------------------------------------------------------
static int lowest(uint32_t en) { for (int i = 1; i < 32; i++) if (en & (1u << i)) return i; return 0; }

int ReplaySched::pick(long, int cur, uint32_t enabled) {
  if (pos < sched.size()) {
    int t = sched[pos++];
    if (enabled & (1u << t)) return t;
    diverged = true;
  }
  if (cur > 0 && (enabled & (1u << cur))) return cur;
  return lowest(enabled);
}
uint64_t ReplaySched::choice(uint64_t n) { if (cpos < choices.size()) { uint64_t c = choices[cpos++]; return n ? c % n : 0; } return 0; }

uint64_t RandomSched::next() { s ^= s << 13; s ^= s >> 7; s ^= s << 17; return s; }
int RandomSched::pick(long, int cur, uint32_t enabled) {
  if (cur > 0 && (enabled & (1u << cur)) && (next() % 100) >= switch_pct) return cur;
  int cnt = __builtin_popcount(enabled);
  int k = (int)(next() % cnt);
  for (int i = 1; i < 32; i++) if (enabled & (1u << i)) { if (k-- == 0) return i; }
  return lowest(enabled);
}

PctSched::PctSched(uint64_t seed, int nthreads, int d, long len) : s(seed * 0x2545F4914F6CDD1Dull + 7), depth(d), est_len(len) {
  prio.resize(nthreads + 1);
  for (int i = 1; i <= nthreads; i++) prio[i] = d + i;  // base priorities d+1..d+n, randomly permuted
  for (int i = nthreads; i > 1; i--) { int j = 1 + (int)(next() % i); std::swap(prio[i], prio[j]); }
  for (int i = 0; i + 1 < d; i++) change.push_back(1 + (long)(next() % (len > 1 ? len : 1)));
}
uint64_t PctSched::next() { s ^= s << 13; s ^= s >> 7; s ^= s << 17; return s; }
int PctSched::pick(long step, int cur, uint32_t enabled) {
  for (size_t i = 0; i < change.size(); i++) if (change[i] == step && cur > 0 && cur < (int)prio.size()) prio[cur] = depth - 1 - (int)i;  // lower than all base priorities
  int best = 0;
  for (int i = 1; i < (int)prio.size(); i++) if ((enabled & (1u << i)) && (best == 0 || prio[i] > prio[best])) best = i;
  return best ? best : lowest(enabled);
}

int PrefixSched::pick(long, int cur, uint32_t enabled) {
  while (seg < segs.size()) {
    int t = segs[seg].first;
    if (used < segs[seg].second && (enabled & (1u << t))) { used++; return t; }
    seg++; used = 0;
  }
  if (cur > 0 && (enabled & (1u << cur))) return cur;
  return lowest(enabled);
}

// ---------------------------------------------------------------------------------------------
// public API
// ---------------------------------------------------------------------------------------------

void reset(const Config& cfg) {
  G& G_ = gg();
  RtGuard rg;
  G_.cfg = cfg;
  G_.wrng = cfg.seed * 0x9E3779B97F4A7C15ull + 12345;
  G_.active = true;
  G_.running = false;
  G_.steps = 0; G_.status = S_OK; G_.detail.clear();
  G_.trace.clear(); G_.res = Result();
  G_.nth = 0; G_.solo = 0;
  tl_tid = 0;
  sem_init(&G_.main_sem, 0, 0);
}

int spawn(std::function<void()> body) {
  G& G_ = gg();
  RtGuard rg;
  int id = ++G_.nth;
  Th* t = new Th();
  t->body = std::move(body);
  sem_init(&t->sem, 0, 0);
  // a new thread starts with the spawner's (main's) knowledge
  t->vc = main_vc; if (id < MAXT) t->vc.c[id] = 1;
  t->view = main_view;
  G_.th[id] = t;
  return id;
}

Result run(Scheduler& s) {
  G& G_ = gg();
  {
    RtGuard rg;
    G_.sched = &s;
    main_vc.c[0]++;
    for (int i = 1; i <= G_.nth; i++) { G_.th[i]->vc.join(main_vc); vjoin(G_.th[i]->view, main_view); G_.th[i]->th = std::thread(trampoline, i); }
    G_.running = true;
    uint32_t en = enabled_mask();
    if (en) {
      int first = choose_next(-1, en);
      G_.res.schedule.push_back(first);
      G_.res.enabled.push_back(en);
      G_.current = first;
      sem_post(&G_.th[first]->sem);
      while (sem_wait(&G_.main_sem) != 0) {}
    }
    G_.running = false;
    if (!G_.solo) for (int i = 1; i <= G_.nth; i++) { G_.th[i]->th.join(); main_vc.join(G_.th[i]->vc); vjoin(main_view, G_.th[i]->view); }
    G_.res.status = G_.status; G_.res.detail = G_.detail; G_.res.steps = G_.steps;
    G_.res.thread_steps.assign(1, 0);
    for (int i = 1; i <= G_.nth; i++) G_.res.thread_steps.push_back(G_.th[i]->steps);
  }
  return G_.res;
}

void finish() { gg().active = false; }
void name_range(const void* p, size_t n, const char* name) { RtGuard rg; gg().ranges.push_back(Range{(uintptr_t)p, n, name}); }
void event(const std::string& line) {
  G& G_ = gg();
  // an event marks an operation boundary: the thread made progress
  if (tl_tid > 0 && G_.running) { G_.th[tl_tid]->ro = 0; G_.th[tl_tid]->watch.clear(); }
  if (!G_.cfg.trace || !G_.active) return;
  RtGuard rg;
  Rec r; r.tid = tl_tid; r.kind = K_EV; r.mo = r.mo2 = 0; r.size = 0; r.addr = 0; r.v1 = r.v2 = 0; r.text = line;
  G_.trace.push_back(std::move(r));
}
void yield_point() {
  G& G_ = gg();
  if (!G_.active || tl_tid <= 0 || !G_.running) return;
  G_.th[tl_tid]->at_start = true;
  sched_point();
  G_.th[tl_tid]->at_start = false;
  record(K_YIELD, 0, 0, 0, 0, 0, 0);
  // a START is progress
  G_.th[tl_tid]->ro = 0; G_.th[tl_tid]->watch.clear();
}
void step_point() { G& G_ = gg(); if (!G_.active || tl_tid <= 0 || !G_.running) return; sched_point(); G_.th[tl_tid]->ro = 0; G_.th[tl_tid]->watch.clear(); }
bool at_boundary(int tid) { G& G_ = gg(); return tid <= 0 || tid > G_.nth || G_.th[tid]->at_start || G_.th[tid]->finished; }
void clock_snapshot(uint32_t out[16]) { VC& c = clock_of(tl_tid < 0 ? 0 : tl_tid); for (int i = 0; i < MAXT; i++) out[i] = c.c[i]; }
int self() { return tl_tid; }
uint64_t choose(uint64_t n) {
  G& G_ = gg();
  RtGuard rg;
  uint64_t c = G_.sched ? G_.sched->choice(n) : 0;
  G_.res.choices.push_back(c);
  if (G_.cfg.trace) { Rec r; r.tid = tl_tid; r.kind = K_CHOICE; r.mo = r.mo2 = 0; r.size = 0; r.addr = 0; r.v1 = c; r.v2 = n; G_.trace.push_back(r); }
  return c;
}
void fail(int st, const std::string& d) { RtGuard rg; set_status(st, d); }
const std::vector<Rec>& trace() { return gg().trace; }
int status() { return gg().status; }
std::string detail() { return gg().detail; }
long live_tracked_blocks() { return gg().live; }
long tracked_allocs() { return gg().next_block; }
long live_blocks_by_threads() { long n = 0; for (auto& kv : gg().blocks) if (!kv.second.freed && kv.second.alloc_tid > 0) n++; return n; }
uint64_t step_count() { return (uint64_t)gg().steps; }
const Result& partial_result() { return gg().res; }
WStats wstats() { return gg().ws; }
void set_solo(int tid, long budget) { G& G_ = gg(); G_.solo = tid; G_.solo_budget = budget; G_.solo_used = 0; }
int solo_thread() { return gg().solo; }
void end_execution() { abort_execution(); }
bool is_freed(const void* p) { Block* b = find_block((uintptr_t)p); return b && b->freed; }
Quiet::Quiet() { ++tl_in_rt; }
Quiet::~Quiet() { --tl_in_rt; }
void set_abort_handler(std::function<void()> f) { RtGuard rg; gg().abort_handler = std::move(f); }

std::string sym_addr(uintptr_t a) {
  G& G_ = gg();
  char buf[128];
  for (auto it = G_.ranges.rbegin(); it != G_.ranges.rend(); ++it)
    if (a >= it->base && a < it->base + it->n) {
      if (a == it->base) return it->name;
      snprintf(buf, sizeof buf, "%s+%zu", it->name.c_str(), (size_t)(a - it->base));
      return buf;
    }
  Block* b = find_block(a);
  if (b) { snprintf(buf, sizeof buf, "h%d+%zu", b->id, (size_t)(a - b->base)); return buf; }
  snprintf(buf, sizeof buf, "?%#lx", (unsigned long)a);
  return buf;
}

std::string sym_val(uint64_t v, unsigned size) {
  if (size == 8 && v > 0xFFFF) {
    uint64_t p = v & 0x0000FFFFFFFFFFFFull;
    uint64_t up = v >> 48;
    G& G_ = gg();
    bool known = find_block(p) != nullptr;
    if (!known) for (auto& r : G_.ranges) if (p >= r.base && p < r.base + r.n) { known = true; break; }
    if (known) { std::string s = "&" + sym_addr(p); if (up) s += "^" + std::to_string(up); return s; }
  }
  return std::to_string(v);
}

std::string fmt_rec(const Rec& r) {
  char buf[512];
  std::string t = "T" + std::to_string(r.tid) + " ";
  switch (r.kind) {
    case K_LOAD: snprintf(buf, sizeof buf, "LD %s %s %s", sym_addr(r.addr).c_str(), mo_name(r.mo), sym_val(r.v1, r.size).c_str()); break;
    case K_STORE: snprintf(buf, sizeof buf, "ST %s %s %s", sym_addr(r.addr).c_str(), mo_name(r.mo), sym_val(r.v1, r.size).c_str()); break;
    case K_RMW: snprintf(buf, sizeof buf, "RMW %s %s %s %s", sym_addr(r.addr).c_str(), mo_name(r.mo), sym_val(r.v1, r.size).c_str(), sym_val(r.v2, r.size).c_str()); break;
    case K_CASF: snprintf(buf, sizeof buf, "CASF %s %s/%s %s %s", sym_addr(r.addr).c_str(), mo_name(r.mo), mo_name(r.mo2), sym_val(r.v1, r.size).c_str(), sym_val(r.v2, r.size).c_str()); break;
    case K_FENCE: snprintf(buf, sizeof buf, "FENCE %s", mo_name(r.mo)); break;
    case K_LOCK: snprintf(buf, sizeof buf, "LOCK %s", sym_addr(r.addr).c_str()); break;
    case K_UNLOCK: snprintf(buf, sizeof buf, "UNLOCK %s", sym_addr(r.addr).c_str()); break;
    case K_YIELD: snprintf(buf, sizeof buf, r.addr ? "SCHED_YIELD" : "YIELD"); break;
    case K_ALLOC: snprintf(buf, sizeof buf, "ALLOC h%lu %lu", (unsigned long)r.v2, (unsigned long)r.v1); break;
    case K_FREE: snprintf(buf, sizeof buf, "FREE h%lu", (unsigned long)r.v2); break;
    case K_CHOICE: snprintf(buf, sizeof buf, "CHOICE %lu %lu", (unsigned long)r.v1, (unsigned long)r.v2); break;
    case K_EV: return t + r.text;
    default: snprintf(buf, sizeof buf, "?");
  }
  return t + buf;
}

}  // namespace xv

// ---------------------------------------------------------------------------------------------
// pthread mutex / sched_yield interposition (left_right's writer mutex, polite spin loops)
// ---------------------------------------------------------------------------------------------
namespace xv {
namespace {
typedef int (*mutex_fn)(pthread_mutex_t*);
mutex_fn real_lock = nullptr, real_unlock = nullptr, real_trylock = nullptr;
int (*real_yield)() = nullptr;
__attribute__((constructor)) void resolve_real() {
  real_lock = (mutex_fn)dlsym(RTLD_NEXT, "pthread_mutex_lock");
  real_unlock = (mutex_fn)dlsym(RTLD_NEXT, "pthread_mutex_unlock");
  real_trylock = (mutex_fn)dlsym(RTLD_NEXT, "pthread_mutex_trylock");
  real_yield = (int (*)())dlsym(RTLD_NEXT, "sched_yield");
}
bool managed() { return g && g->active && g->running && tl_tid > 0 && !tl_in_rt; }

int model_lock(pthread_mutex_t* m, bool try_only) {
  G& G_ = gg();
  int me = tl_tid;
  sched_point();
  RtGuard rg;
  while (G_.mutex_owner.count(m) && G_.mutex_owner[m] != 0) {
    if (try_only) { record(K_LOCK, (uintptr_t)m, 0, 0, 0, 0, 0); return 16 /*EBUSY*/; }
    Th* t = G_.th[me];
    t->mutex_wait = 1; t->waiting_mutex = m;
    uint32_t en = enabled_mask();
    if (en == 0) deadlock();
    int next = choose_next(me, en);
    G_.res.schedule.push_back(next);
    G_.res.enabled.push_back(en);
    hand_over(me, next);
  }
  G_.mutex_owner[m] = me;
  // lock acquisition synchronises with the previous unlock
  if (G_.cfg.race || G_.cfg.weak) { ALoc& L = G_.alocs[(uintptr_t)m]; if (!L.msgs.empty() && L.msgs.back().has_rel) { clock_of(me).join(L.msgs.back().rel); vjoin(view_of(me), L.msgs.back().relview); } }
  record(K_LOCK, (uintptr_t)m, 0, 0, 0, 0, 0);
  G_.th[me]->ro = 0; G_.th[me]->watch.clear();
  return 0;
}
int model_unlock(pthread_mutex_t* m) {
  G& G_ = gg();
  int me = tl_tid;
  sched_point();
  RtGuard rg;
  G_.mutex_owner[m] = 0;
  if (G_.cfg.race || G_.cfg.weak) { ALoc& L = G_.alocs[(uintptr_t)m]; Msg ms; ms.val = 0; ms.ts = ++G_.ts; ms.step = G_.steps; ms.tid = me; ms.has_rel = true; clock_of(me).c[me]++; ms.rel = clock_of(me); ms.relview = view_of(me); L.msgs.push_back(ms); clock_of(me).c[me]++; }
  for (int i = 1; i <= G_.nth; i++) if (G_.th[i]->mutex_wait && G_.th[i]->waiting_mutex == m) { G_.th[i]->mutex_wait = 0; G_.th[i]->waiting_mutex = nullptr; }
  record(K_UNLOCK, (uintptr_t)m, 0, 0, 0, 0, 0);
  G_.th[me]->ro = 0; G_.th[me]->watch.clear();
  return 0;
}
}  // namespace
}  // namespace xv

extern "C" int pthread_mutex_lock(pthread_mutex_t* m) {
  if (xv::managed()) return xv::model_lock(m, false);
  if (!xv::real_lock) xv::resolve_real();
  return xv::real_lock(m);
}
extern "C" int pthread_mutex_trylock(pthread_mutex_t* m) {
  if (xv::managed()) return xv::model_lock(m, true);
  if (!xv::real_trylock) xv::resolve_real();
  return xv::real_trylock(m);
}
extern "C" int pthread_mutex_unlock(pthread_mutex_t* m) {
  if (xv::managed()) return xv::model_unlock(m);
  if (!xv::real_unlock) xv::resolve_real();
  return xv::real_unlock(m);
}
extern "C" int sched_yield() {
  if (xv::managed()) {
    xv::sched_point();
    xv::RtGuard rg;
    xv::record(xv::K_YIELD, 1, 0, 0, 0, 0, 0);   // addr=1 marks sched_yield (START has addr 0)
    xv::note_progress(xv::tl_tid, false, 0);
    return 0;
  }
  if (!xv::real_yield) xv::resolve_real();
  return xv::real_yield ? xv::real_yield() : 0;
}

// ---------------------------------------------------------------------------------------------
// global allocation functions
// ---------------------------------------------------------------------------------------------
void* operator new(std::size_t n) { void* p = xv::xalloc(n, 0); if (!p) throw std::bad_alloc(); return p; }
void* operator new[](std::size_t n) { void* p = xv::xalloc(n, 0); if (!p) throw std::bad_alloc(); return p; }
void* operator new(std::size_t n, const std::nothrow_t&) noexcept { return xv::xalloc(n, 0); }
void* operator new[](std::size_t n, const std::nothrow_t&) noexcept { return xv::xalloc(n, 0); }
void* operator new(std::size_t n, std::align_val_t a) { void* p = xv::xalloc(n, (size_t)a); if (!p) throw std::bad_alloc(); return p; }
void* operator new[](std::size_t n, std::align_val_t a) { void* p = xv::xalloc(n, (size_t)a); if (!p) throw std::bad_alloc(); return p; }
void* operator new(std::size_t n, std::align_val_t a, const std::nothrow_t&) noexcept { return xv::xalloc(n, (size_t)a); }
void* operator new[](std::size_t n, std::align_val_t a, const std::nothrow_t&) noexcept { return xv::xalloc(n, (size_t)a); }
void operator delete(void* p) noexcept { xv::xfree(p); }
void operator delete[](void* p) noexcept { xv::xfree(p); }
void operator delete(void* p, std::size_t) noexcept { xv::xfree(p); }
void operator delete[](void* p, std::size_t) noexcept { xv::xfree(p); }
void operator delete(void* p, const std::nothrow_t&) noexcept { xv::xfree(p); }
void operator delete[](void* p, const std::nothrow_t&) noexcept { xv::xfree(p); }
void operator delete(void* p, std::align_val_t) noexcept { xv::xfree(p); }
void operator delete[](void* p, std::align_val_t) noexcept { xv::xfree(p); }
void operator delete(void* p, std::size_t, std::align_val_t) noexcept { xv::xfree(p); }
void operator delete[](void* p, std::size_t, std::align_val_t) noexcept { xv::xfree(p); }
void operator delete(void* p, std::align_val_t, const std::nothrow_t&) noexcept { xv::xfree(p); }
void operator delete[](void* p, std::align_val_t, const std::nothrow_t&) noexcept { xv::xfree(p); }

// ---------------------------------------------------------------------------------------------
// the compiler's TSan interface
// ---------------------------------------------------------------------------------------------
using namespace xv;
typedef unsigned char a8; typedef unsigned short a16; typedef unsigned int a32; typedef unsigned long long a64;

extern "C" {
void __tsan_init() {}
void __tsan_func_entry(void*) {}
void __tsan_func_exit() {}
void __tsan_vptr_update(void** p, void*) { plain((uintptr_t)p, 8, true); }
void __tsan_vptr_read(void** p) { plain((uintptr_t)p, 8, false); }
void __tsan_read1(void* a) { plain((uintptr_t)a, 1, false); }
void __tsan_read2(void* a) { plain((uintptr_t)a, 2, false); }
void __tsan_read4(void* a) { plain((uintptr_t)a, 4, false); }
void __tsan_read8(void* a) { plain((uintptr_t)a, 8, false); }
void __tsan_read16(void* a) { plain((uintptr_t)a, 16, false); }
void __tsan_write1(void* a) { plain((uintptr_t)a, 1, true); }
void __tsan_write2(void* a) { plain((uintptr_t)a, 2, true); }
void __tsan_write4(void* a) { plain((uintptr_t)a, 4, true); }
void __tsan_write8(void* a) { plain((uintptr_t)a, 8, true); }
void __tsan_write16(void* a) { plain((uintptr_t)a, 16, true); }
void __tsan_unaligned_read2(void* a) { plain((uintptr_t)a, 2, false); }
void __tsan_unaligned_read4(void* a) { plain((uintptr_t)a, 4, false); }
void __tsan_unaligned_read8(void* a) { plain((uintptr_t)a, 8, false); }
void __tsan_unaligned_read16(void* a) { plain((uintptr_t)a, 16, false); }
void __tsan_unaligned_write2(void* a) { plain((uintptr_t)a, 2, true); }
void __tsan_unaligned_write4(void* a) { plain((uintptr_t)a, 4, true); }
void __tsan_unaligned_write8(void* a) { plain((uintptr_t)a, 8, true); }
void __tsan_unaligned_write16(void* a) { plain((uintptr_t)a, 16, true); }
void __tsan_read_range(void* a, unsigned long n) { plain((uintptr_t)a, n, false); }
void __tsan_write_range(void* a, unsigned long n) { plain((uintptr_t)a, n, true); }

#define XV_ATOMIC(N, T)                                                                                                  \
  T __tsan_atomic##N##_load(const volatile T* a, int mo) { return do_load<T>(a, mo); }                                   \
  void __tsan_atomic##N##_store(volatile T* a, T v, int mo) { do_store<T>(a, v, mo); }                                   \
  T __tsan_atomic##N##_exchange(volatile T* a, T v, int mo) { return do_rmw<T>(a, mo, [v](T) { return v; }); }           \
  T __tsan_atomic##N##_fetch_add(volatile T* a, T v, int mo) { return do_rmw<T>(a, mo, [v](T o) { return (T)(o + v); }); } \
  T __tsan_atomic##N##_fetch_sub(volatile T* a, T v, int mo) { return do_rmw<T>(a, mo, [v](T o) { return (T)(o - v); }); } \
  T __tsan_atomic##N##_fetch_and(volatile T* a, T v, int mo) { return do_rmw<T>(a, mo, [v](T o) { return (T)(o & v); }); } \
  T __tsan_atomic##N##_fetch_or(volatile T* a, T v, int mo) { return do_rmw<T>(a, mo, [v](T o) { return (T)(o | v); }); }  \
  T __tsan_atomic##N##_fetch_xor(volatile T* a, T v, int mo) { return do_rmw<T>(a, mo, [v](T o) { return (T)(o ^ v); }); } \
  T __tsan_atomic##N##_fetch_nand(volatile T* a, T v, int mo) { return do_rmw<T>(a, mo, [v](T o) { return (T) ~(o & v); }); } \
  int __tsan_atomic##N##_compare_exchange_strong(volatile T* a, T* c, T v, int mo, int fmo) { return do_cas<T>(a, c, v, mo, fmo, false); } \
  int __tsan_atomic##N##_compare_exchange_weak(volatile T* a, T* c, T v, int mo, int fmo) { return do_cas<T>(a, c, v, mo, fmo, true); }    \
  T __tsan_atomic##N##_compare_exchange_val(volatile T* a, T c, T v, int mo, int fmo) { do_cas<T>(a, &c, v, mo, fmo, false); return c; }

XV_ATOMIC(8, a8)
XV_ATOMIC(16, a16)
XV_ATOMIC(32, a32)
XV_ATOMIC(64, a64)

void __tsan_atomic_thread_fence(int mo) { do_fence(mo); }
void __tsan_atomic_signal_fence(int) {}
}
