(** * WM.VyukovWM : xenium::vyukov_bounded_queue (xenium/vyukov_bounded_queue.hpp) as a program over the
      view-based weak-memory machine of WM/View.v  (property C03)

    DEFINITIONS ONLY (plus the [reflexivity] facts about the order instances).
    The proofs are in WM/VyukovWMProof.v.

    Shared locations: [enqueue_pos] ([enqL] = 0), [dequeue_pos] ([deqL] = 1) and, for every cell [i] of the
    ring, [cells[i].sequence] ([seqL i] = 2 + 2 i) and [cells[i].data] ([valL i] = 3 + 2 i).
    [cap] = the number of cells ([index_mask + 1]); the source requires a power of two >= 2, the proofs need
    only [2 <= cap] (the cell of position [pos] is [pos mod cap], which is [pos & index_mask] for a power of two).

    INITIAL STATE: the queue has been constructed and the construction happens-before every operation
    (the constructor's relaxed stores are not part of the protocol): the initial message of
    [cells[i].sequence] holds [i], those of [enqueue_pos], [dequeue_pos] hold 0, every view is bottom.

    Any number of threads.  Each thread is a small state machine ([pc]); an idle thread may start
    try_push_strong(v) / try_push_weak(v) / try_pop_strong() / try_pop_weak() at any time, any number of
    times.  EVERY program step is exactly one step of the machine ([View.step]), labelled with the access the
    C++ code performs at that program point.  The memory order of every ATOMIC access is a field of the
    record [orders] (one field per access site; success and failure order of the CASes separately).
    The accesses to [cells[i].data] are PLAIN (non-atomic) in the source: they are modelled as relaxed
    accesses (the weakest order of the machine), and VyukovWMProof proves that they are race free
    (every conflicting pair is ordered by happens-before).  Line 276 (construct the element) is one
    relaxed store, lines 311-313 (move the element out, destroy it) are one relaxed load.

    Ghost state (never read by the program): [g_push] (the value of every push ticket, appended at the
    successful CAS on enqueue_pos), [g_pop] (ticket and value of every pop, appended when the value is
    read), [g_own] (the thread between the successful CAS and the final store on a cell),
    [g_rview] (the view of the last thread that read the value slot of a cell, at its read).

    Positions are unbounded naturals (no wrap-around of the 64-bit [size_t]: 2^64 operations). *)

Require Import List NArith Arith Bool.
Import ListNotations.
Require Import XV.WM.View.

(** ** Memory orders of the atomic access sites of do_try_push / do_try_pop *)

Record orders := {
  (* --- do_try_push<Weak> --- *)
  o_push_enq_load      : ord;  (* 252  enqueue_pos.load                                  *)
  o_push_seq_load      : ord;  (* 256  c->sequence.load                       (3)        *)
  o_push_cas           : ord;  (* 258  enqueue_pos.compare_exchange_weak, success order  *)
  o_push_cas_fail      : ord;  (* 258  enqueue_pos.compare_exchange_weak, failure order  *)
  o_push_enq_reload_w  : ord;  (* 266  enqueue_pos.load     (Weak)                       *)
  o_push_enq_reload    : ord;  (* 268  enqueue_pos.load     (!Weak, pos2)                *)
  o_push_deq_load      : ord;  (* 269  dequeue_pos.load     (!Weak)                      *)
  o_push_seq_store     : ord;  (* 278  c->sequence.store(pos + 1)             (4)        *)
  (* --- do_try_pop<Weak> --- *)
  o_pop_deq_load       : ord;  (* 285  dequeue_pos.load                                  *)
  o_pop_seq_load       : ord;  (* 289  c->sequence.load                       (1)        *)
  o_pop_cas            : ord;  (* 292  dequeue_pos.compare_exchange_weak, success order  *)
  o_pop_cas_fail       : ord;  (* 292  dequeue_pos.compare_exchange_weak, failure order  *)
  o_pop_deq_reload_w   : ord;  (* 300  dequeue_pos.load     (Weak)                       *)
  o_pop_deq_reload     : ord;  (* 302  dequeue_pos.load     (!Weak, pos2)                *)
  o_pop_enq_load       : ord;  (* 303  enqueue_pos.load     (!Weak)                      *)
  o_pop_seq_store      : ord   (* 316  c->sequence.store(pos + index_mask + 1) (2)       *)
}.

(** what vyukov_bounded_queue.hpp really uses *)
Definition xenium_orders : orders := {|
  o_push_enq_load := Rlx; o_push_seq_load := Acq; o_push_cas := Rlx; o_push_cas_fail := Rlx;
  o_push_enq_reload_w := Rlx; o_push_enq_reload := Rlx; o_push_deq_load := Rlx; o_push_seq_store := Rel;
  o_pop_deq_load := Rlx; o_pop_seq_load := Acq; o_pop_cas := Rlx; o_pop_cas_fail := Rlx;
  o_pop_deq_reload_w := Rlx; o_pop_deq_reload := Rlx; o_pop_enq_load := Rlx; o_pop_seq_store := Rel
|}.

(** ** The conditions on the orders
    - the load of the cell sequence in try_pop (1) is acquire and the store of the cell sequence in
      try_push (4) is release   [the element written by the push is visible to the pop];
    - the load of the cell sequence in try_push (3) is acquire and the store of the cell sequence in
      try_pop (2) is release    [the pop's read of the element happens-before the next lap's write].
    The twelve accesses to enqueue_pos / dequeue_pos (including both CASes) are unconstrained. *)

Definition orders_ok_mp (o : orders) : bool :=
  is_acq (o_pop_seq_load o) && is_rel (o_push_seq_store o).
Definition orders_ok_reuse (o : orders) : bool :=
  is_acq (o_push_seq_load o) && is_rel (o_pop_seq_store o).
Definition orders_ok (o : orders) : bool := orders_ok_mp o && orders_ok_reuse o.

Lemma xenium_orders_ok : orders_ok xenium_orders = true.
Proof. reflexivity. Qed.

(** ** Locations *)

Definition enqL : loc := 0.
Definition deqL : loc := 1.
Definition seqL (i : nat) : loc := 2 + 2 * i.
Definition valL (i : nat) : loc := 3 + 2 * i.

(** ** Program counters *)

(** [pos] = the local variable [pos]; [v] = the value to push; [w] = the template parameter [Weak];
    [mq] (ghost) = the message of the cell sequence the local [seq] was read from;
    the [option msg] of the failure states (ghost) = the message of the opposite position read at 269 / 303 *)
Inductive pc :=
| Idle
(* do_try_push<w>(v) *)
| PSeq   (w : bool) (v : val) (pos : nat)            (* next: 256 *)
| PCas   (w : bool) (v : val) (pos : nat)            (* seq == pos; next: 258 *)
| PEnqW  (v : val)                                   (* Weak, seq > pos; next: 266 *)
| PEnq2  (v : val) (pos : nat) (mq : msg)            (* !Weak, seq != pos; next: 268 *)
| PDeq   (v : val) (pos : nat) (mq : msg)            (* !Weak, pos2 == pos; next: 269 *)
| PWrite (v : val) (pos : nat)                       (* CAS succeeded; next: 276 (plain write of the element) *)
| PStore (v : val) (pos : nat)                       (* next: 278 *)
| PDone  (v : val) (pos : nat)                       (* returned true *)
| PFull  (w : bool) (pos : nat) (mq : msg) (md : option msg)   (* returned false *)
(* do_try_pop<w>() *)
| QSeq   (w : bool) (pos : nat)                      (* next: 289 *)
| QCas   (w : bool) (pos : nat)                      (* seq == pos + 1; next: 292 *)
| QDeqW                                              (* Weak, seq > pos + 1; next: 300 *)
| QDeq2  (pos : nat) (mq : msg)                      (* !Weak; next: 302 *)
| QEnq   (pos : nat) (mq : msg)                      (* !Weak, pos2 == pos; next: 303 *)
| QRead  (pos : nat)                                 (* CAS succeeded; next: 311-313 (plain read / destroy) *)
| QStore (pos : nat) (m : msg)                       (* [m] = the message the element was read from; next: 316 *)
| QDone  (pos : nat) (m : msg)                       (* returned [m_val m] *)
| QEmpty (w : bool) (pos : nat) (mq : msg) (me : option msg).  (* returned emptyFunc() *)

(** a thread that is not inside an operation *)
Definition is_idle (p : pc) : bool :=
  match p with Idle | PDone _ _ | PFull _ _ _ _ | QDone _ _ | QEmpty _ _ _ _ => true | _ => false end.

(** ** Program state *)

Record pstate := {
  ms      : state;                 (* the weak-memory machine *)
  pcs     : tid -> pc;
  g_push  : list val;              (* ghost: g_push[p] = the value of push ticket p *)
  g_pop   : list (nat * val);      (* ghost: (ticket, value returned) of the pops, in the order of their reads *)
  g_own   : nat -> option tid;     (* ghost: the thread that owns cell i (between its CAS and its sequence store) *)
  g_rview : nat -> view            (* ghost: the view of the last reader of cells[i].data at its read *)
}.

Definition upd_pc (f : tid -> pc) (t : tid) (p : pc) : tid -> pc :=
  fun t' => if Nat.eqb t' t then p else f t'.

Definition upd_cell {A : Type} (f : nat -> A) (i : nat) (x : A) : nat -> A :=
  fun i' => if Nat.eqb i' i then x else f i'.

(** the initial machine: the constructed queue *)
Definition init_val (l : loc) : val :=
  if Nat.even l && Nat.leb 2 l then N.of_nat (Nat.div2 l - 1) else 0%N.

Definition minit : state :=
  {| memory := fun l => [ {| m_val := init_val l; m_ts := 0; m_view := vbot |} ];
     threads := fun _ => init_tstate;
     scview := vbot |}.

Section Program.

Variable cap : nat.      (* number of cells, >= 2 *)
Variable o : orders.

Definition cellof (pos : nat) : nat := pos mod cap.   (* pos & index_mask *)
Definition lapof  (pos : nat) : nat := pos / cap.

Definition pinit : pstate :=
  {| ms := minit; pcs := fun _ => Idle; g_push := []; g_pop := [];
     g_own := fun _ => None; g_rview := fun _ => vbot |}.

(** only the machine and one pc change *)
Definition set_pc (s : pstate) (M' : state) (t : tid) (p : pc) : pstate :=
  {| ms := M'; pcs := upd_pc (pcs s) t p;
     g_push := g_push s; g_pop := g_pop s; g_own := g_own s; g_rview := g_rview s |}.

(** lines 257-273, after the load of the cell sequence that read [m] *)
Definition after_pseq (w : bool) (v : val) (pos : nat) (m : msg) : pc :=
  if N.eqb (m_val m) (N.of_nat pos) then PCas w v pos
  else if w then (if N.ltb (m_val m) (N.of_nat pos) then PFull true pos m None else PEnqW v)
  else PEnq2 v pos m.

(** lines 290-308 *)
Definition after_qseq (w : bool) (pos : nat) (m : msg) : pc :=
  if N.eqb (m_val m) (N.of_nat (pos + 1)) then QCas w pos
  else if w then (if N.ltb (m_val m) (N.of_nat (pos + 1)) then QEmpty true pos m None else QDeqW)
  else QDeq2 pos m.

(** [pstep s t lab s'] : thread [t] performs the access [lab] *)
Inductive pstep : pstate -> tid -> label -> pstate -> Prop :=
(* ---- do_try_push ---- *)
| ps_push_start : forall s t w v m M',      (* 252; an idle thread calls try_push *)
    is_idle (pcs s t) = true ->
    step (ms s) t (LLoad enqL (o_push_enq_load o) m) M' ->
    pstep s t (LLoad enqL (o_push_enq_load o) m) (set_pc s M' t (PSeq w v (N.to_nat (m_val m))))
| ps_push_seq : forall s t w v pos m M',    (* 256 *)
    pcs s t = PSeq w v pos ->
    step (ms s) t (LLoad (seqL (cellof pos)) (o_push_seq_load o) m) M' ->
    pstep s t (LLoad (seqL (cellof pos)) (o_push_seq_load o) m) (set_pc s M' t (after_pseq w v pos m))
| ps_push_cas_ok : forall s t w v pos M',   (* 258, success: the RMW reads the LAST message of enqueue_pos, which holds pos *)
    pcs s t = PCas w v pos ->
    m_val (last_msg (memory (ms s) enqL)) = N.of_nat pos ->
    step (ms s) t (LRmw enqL (o_push_cas o) (N.of_nat (pos + 1))) M' ->
    pstep s t (LRmw enqL (o_push_cas o) (N.of_nat (pos + 1)))
          {| ms := M'; pcs := upd_pc (pcs s) t (PWrite v pos);
             g_push := g_push s ++ [v]; g_pop := g_pop s;
             g_own := upd_cell (g_own s) (cellof pos) (Some t); g_rview := g_rview s |}
| ps_push_cas_fail : forall s t w v pos m M',  (* 258, failure (also spuriously); pos := the value read *)
    pcs s t = PCas w v pos ->
    step (ms s) t (LLoad enqL (o_push_cas_fail o) m) M' ->
    pstep s t (LLoad enqL (o_push_cas_fail o) m) (set_pc s M' t (PSeq w v (N.to_nat (m_val m))))
| ps_push_enq_w : forall s t v m M',        (* 266 *)
    pcs s t = PEnqW v ->
    step (ms s) t (LLoad enqL (o_push_enq_reload_w o) m) M' ->
    pstep s t (LLoad enqL (o_push_enq_reload_w o) m) (set_pc s M' t (PSeq true v (N.to_nat (m_val m))))
| ps_push_enq2 : forall s t v pos mq m M',  (* 268 *)
    pcs s t = PEnq2 v pos mq ->
    step (ms s) t (LLoad enqL (o_push_enq_reload o) m) M' ->
    pstep s t (LLoad enqL (o_push_enq_reload o) m)
          (set_pc s M' t (if N.eqb (m_val m) (N.of_nat pos) then PDeq v pos mq
                          else PSeq false v (N.to_nat (m_val m))))
| ps_push_deq : forall s t v pos mq m M',   (* 269: dequeue_pos + index_mask + 1 == pos *)
    pcs s t = PDeq v pos mq ->
    step (ms s) t (LLoad deqL (o_push_deq_load o) m) M' ->
    pstep s t (LLoad deqL (o_push_deq_load o) m)
          (set_pc s M' t (if N.eqb (m_val m + N.of_nat cap) (N.of_nat pos) then PFull false pos mq (Some m)
                          else PSeq false v pos))
| ps_push_write : forall s t v pos M',      (* 276: plain write of the element *)
    pcs s t = PWrite v pos ->
    step (ms s) t (LStore (valL (cellof pos)) Rlx v) M' ->
    pstep s t (LStore (valL (cellof pos)) Rlx v) (set_pc s M' t (PStore v pos))
| ps_push_store : forall s t v pos M',        (* 278 *)
    pcs s t = PStore v pos ->
    step (ms s) t (LStore (seqL (cellof pos)) (o_push_seq_store o) (N.of_nat (pos + 1))) M' ->
    pstep s t (LStore (seqL (cellof pos)) (o_push_seq_store o) (N.of_nat (pos + 1)))
          {| ms := M'; pcs := upd_pc (pcs s) t (PDone v pos);
             g_push := g_push s; g_pop := g_pop s;
             g_own := upd_cell (g_own s) (cellof pos) None; g_rview := g_rview s |}
(* ---- do_try_pop ---- *)
| ps_pop_start : forall s t w m M',         (* 285; an idle thread calls try_pop *)
    is_idle (pcs s t) = true ->
    step (ms s) t (LLoad deqL (o_pop_deq_load o) m) M' ->
    pstep s t (LLoad deqL (o_pop_deq_load o) m) (set_pc s M' t (QSeq w (N.to_nat (m_val m))))
| ps_pop_seq : forall s t w pos m M',       (* 289 *)
    pcs s t = QSeq w pos ->
    step (ms s) t (LLoad (seqL (cellof pos)) (o_pop_seq_load o) m) M' ->
    pstep s t (LLoad (seqL (cellof pos)) (o_pop_seq_load o) m) (set_pc s M' t (after_qseq w pos m))
| ps_pop_cas_ok : forall s t w pos M',      (* 292, success *)
    pcs s t = QCas w pos ->
    m_val (last_msg (memory (ms s) deqL)) = N.of_nat pos ->
    step (ms s) t (LRmw deqL (o_pop_cas o) (N.of_nat (pos + 1))) M' ->
    pstep s t (LRmw deqL (o_pop_cas o) (N.of_nat (pos + 1)))
          {| ms := M'; pcs := upd_pc (pcs s) t (QRead pos);
             g_push := g_push s; g_pop := g_pop s;
             g_own := upd_cell (g_own s) (cellof pos) (Some t); g_rview := g_rview s |}
| ps_pop_cas_fail : forall s t w pos m M',  (* 292, failure *)
    pcs s t = QCas w pos ->
    step (ms s) t (LLoad deqL (o_pop_cas_fail o) m) M' ->
    pstep s t (LLoad deqL (o_pop_cas_fail o) m) (set_pc s M' t (QSeq w (N.to_nat (m_val m))))
| ps_pop_deq_w : forall s t m M',           (* 300 *)
    pcs s t = QDeqW ->
    step (ms s) t (LLoad deqL (o_pop_deq_reload_w o) m) M' ->
    pstep s t (LLoad deqL (o_pop_deq_reload_w o) m) (set_pc s M' t (QSeq true (N.to_nat (m_val m))))
| ps_pop_deq2 : forall s t pos mq m M',     (* 302 *)
    pcs s t = QDeq2 pos mq ->
    step (ms s) t (LLoad deqL (o_pop_deq_reload o) m) M' ->
    pstep s t (LLoad deqL (o_pop_deq_reload o) m)
          (set_pc s M' t (if N.eqb (m_val m) (N.of_nat pos) then QEnq pos mq
                          else QSeq false (N.to_nat (m_val m))))
| ps_pop_enq : forall s t pos mq m M',      (* 303: enqueue_pos == pos *)
    pcs s t = QEnq pos mq ->
    step (ms s) t (LLoad enqL (o_pop_enq_load o) m) M' ->
    pstep s t (LLoad enqL (o_pop_enq_load o) m)
          (set_pc s M' t (if N.eqb (m_val m) (N.of_nat pos) then QEmpty false pos mq (Some m)
                          else QSeq false pos))
| ps_pop_read : forall s t pos m M',        (* 311-313: plain read of the element (move out, destroy) *)
    pcs s t = QRead pos ->
    step (ms s) t (LLoad (valL (cellof pos)) Rlx m) M' ->
    pstep s t (LLoad (valL (cellof pos)) Rlx m)
          {| ms := M'; pcs := upd_pc (pcs s) t (QStore pos m);
             g_push := g_push s; g_pop := g_pop s ++ [(pos, m_val m)];
             g_own := g_own s;
             g_rview := upd_cell (g_rview s) (cellof pos) (cur (threads M' t)) |}
| ps_pop_store : forall s t pos m M',       (* 316 *)
    pcs s t = QStore pos m ->
    step (ms s) t (LStore (seqL (cellof pos)) (o_pop_seq_store o) (N.of_nat (pos + cap))) M' ->
    pstep s t (LStore (seqL (cellof pos)) (o_pop_seq_store o) (N.of_nat (pos + cap)))
          {| ms := M'; pcs := upd_pc (pcs s) t (QDone pos m);
             g_push := g_push s; g_pop := g_pop s;
             g_own := upd_cell (g_own s) (cellof pos) None; g_rview := g_rview s |}.

Inductive preach : pstate -> Prop :=
| preach_init : preach pinit
| preach_step : forall s t lab s', preach s -> pstep s t lab s' -> preach s'.

(** executions with their trace of machine events *)
Inductive ptrace : pstate -> list event -> pstate -> Prop :=
| ptrace_nil  : forall s, ptrace s [] s
| ptrace_cons : forall s t lab s' tr s'',
    pstep s t lab s' -> ptrace s' tr s'' -> ptrace s ((t, lab) :: tr) s''.

(** ** Executable form (for the concrete executions: non-vacuity and necessity results).
    VyukovWMProof.pexec_sound: every [pexec] step is a [pstep]. *)

Inductive choice :=
| CPush (w : bool) (v : val) (i : nat)  (* an idle thread calls try_push; line 252 reads message i of enqueue_pos *)
| CPop  (w : bool) (i : nat)            (* an idle thread calls try_pop; line 285 reads message i of dequeue_pos *)
| CRd   (i : nat)                       (* the pending load (or the failing CAS) reads message i *)
| CCas                                  (* the pending CAS succeeds *)
| CGo.                                  (* the pending store *)

Definition with_load (M : state) (t : tid) (l : loc) (od : ord) (i : nat)
           (k : msg -> state -> pstate) : option (label * pstate) :=
  match exec_load M t l od i with
  | Some (m, M') => Some (LLoad l od m, k m M')
  | None => None
  end.

Definition pexec (s : pstate) (t : tid) (c : choice) : option (label * pstate) :=
  let M := ms s in
  match c with
  | CPush w v i =>
      if is_idle (pcs s t)
      then with_load M t enqL (o_push_enq_load o) i
             (fun m M' => set_pc s M' t (PSeq w v (N.to_nat (m_val m))))
      else None
  | CPop w i =>
      if is_idle (pcs s t)
      then with_load M t deqL (o_pop_deq_load o) i
             (fun m M' => set_pc s M' t (QSeq w (N.to_nat (m_val m))))
      else None
  | CRd i =>
      match pcs s t with
      | PSeq w v pos =>
          with_load M t (seqL (cellof pos)) (o_push_seq_load o) i
            (fun m M' => set_pc s M' t (after_pseq w v pos m))
      | PCas w v pos =>
          with_load M t enqL (o_push_cas_fail o) i
            (fun m M' => set_pc s M' t (PSeq w v (N.to_nat (m_val m))))
      | PEnqW v =>
          with_load M t enqL (o_push_enq_reload_w o) i
            (fun m M' => set_pc s M' t (PSeq true v (N.to_nat (m_val m))))
      | PEnq2 v pos mq =>
          with_load M t enqL (o_push_enq_reload o) i
            (fun m M' => set_pc s M' t (if N.eqb (m_val m) (N.of_nat pos) then PDeq v pos mq
                                        else PSeq false v (N.to_nat (m_val m))))
      | PDeq v pos mq =>
          with_load M t deqL (o_push_deq_load o) i
            (fun m M' => set_pc s M' t (if N.eqb (m_val m + N.of_nat cap) (N.of_nat pos)
                                        then PFull false pos mq (Some m) else PSeq false v pos))
      | QSeq w pos =>
          with_load M t (seqL (cellof pos)) (o_pop_seq_load o) i
            (fun m M' => set_pc s M' t (after_qseq w pos m))
      | QCas w pos =>
          with_load M t deqL (o_pop_cas_fail o) i
            (fun m M' => set_pc s M' t (QSeq w (N.to_nat (m_val m))))
      | QDeqW =>
          with_load M t deqL (o_pop_deq_reload_w o) i
            (fun m M' => set_pc s M' t (QSeq true (N.to_nat (m_val m))))
      | QDeq2 pos mq =>
          with_load M t deqL (o_pop_deq_reload o) i
            (fun m M' => set_pc s M' t (if N.eqb (m_val m) (N.of_nat pos) then QEnq pos mq
                                        else QSeq false (N.to_nat (m_val m))))
      | QEnq pos mq =>
          with_load M t enqL (o_pop_enq_load o) i
            (fun m M' => set_pc s M' t (if N.eqb (m_val m) (N.of_nat pos) then QEmpty false pos mq (Some m)
                                        else QSeq false pos))
      | QRead pos =>
          with_load M t (valL (cellof pos)) Rlx i
            (fun m M' => {| ms := M'; pcs := upd_pc (pcs s) t (QStore pos m);
                            g_push := g_push s; g_pop := g_pop s ++ [(pos, m_val m)];
                            g_own := g_own s;
                            g_rview := upd_cell (g_rview s) (cellof pos) (cur (threads M' t)) |})
      | _ => None
      end
  | CCas =>
      match pcs s t with
      | PCas w v pos =>
          if N.eqb (m_val (last_msg (memory M enqL))) (N.of_nat pos)
          then Some (LRmw enqL (o_push_cas o) (N.of_nat (pos + 1)),
                     {| ms := do_rmw M t enqL (o_push_cas o) (N.of_nat (pos + 1));
                        pcs := upd_pc (pcs s) t (PWrite v pos);
                        g_push := g_push s ++ [v]; g_pop := g_pop s;
                        g_own := upd_cell (g_own s) (cellof pos) (Some t); g_rview := g_rview s |})
          else None
      | QCas w pos =>
          if N.eqb (m_val (last_msg (memory M deqL))) (N.of_nat pos)
          then Some (LRmw deqL (o_pop_cas o) (N.of_nat (pos + 1)),
                     {| ms := do_rmw M t deqL (o_pop_cas o) (N.of_nat (pos + 1));
                        pcs := upd_pc (pcs s) t (QRead pos);
                        g_push := g_push s; g_pop := g_pop s;
                        g_own := upd_cell (g_own s) (cellof pos) (Some t); g_rview := g_rview s |})
          else None
      | _ => None
      end
  | CGo =>
      match pcs s t with
      | PWrite v pos =>
          Some (LStore (valL (cellof pos)) Rlx v,
                set_pc s (do_store M t (valL (cellof pos)) Rlx v) t (PStore v pos))
      | PStore v pos =>
          Some (LStore (seqL (cellof pos)) (o_push_seq_store o) (N.of_nat (pos + 1)),
                {| ms := do_store M t (seqL (cellof pos)) (o_push_seq_store o) (N.of_nat (pos + 1));
                   pcs := upd_pc (pcs s) t (PDone v pos);
                   g_push := g_push s; g_pop := g_pop s;
                   g_own := upd_cell (g_own s) (cellof pos) None; g_rview := g_rview s |})
      | QStore pos m =>
          Some (LStore (seqL (cellof pos)) (o_pop_seq_store o) (N.of_nat (pos + cap)),
                {| ms := do_store M t (seqL (cellof pos)) (o_pop_seq_store o) (N.of_nat (pos + cap));
                   pcs := upd_pc (pcs s) t (QDone pos m);
                   g_push := g_push s; g_pop := g_pop s;
                   g_own := upd_cell (g_own s) (cellof pos) None; g_rview := g_rview s |})
      | _ => None
      end
  end.

Fixpoint prun (s : pstate) (cs : list (tid * choice)) : option (list event * pstate) :=
  match cs with
  | [] => Some ([], s)
  | (t, c) :: cs' =>
      match pexec s t c with
      | Some (lab, s') =>
          match prun s' cs' with
          | Some (tr, s'') => Some ((t, lab) :: tr, s'')
          | None => None
          end
      | None => None
      end
  end.

End Program.

(** ** Observers *)

(** the value a completed pop returned, with its ticket *)
Definition pop_result (s : pstate) (t : tid) : option (nat * val) :=
  match pcs s t with QDone pos m => Some (pos, m_val m) | _ => None end.

(** the operation of thread [t] has failed (try_push returned false / try_pop returned emptyFunc()) *)
Definition has_failed (p : pc) : bool :=
  match p with PFull _ _ _ _ | QEmpty _ _ _ _ => true | _ => false end.

(** a printable summary of a machine event: for a load the value and timestamp of the message read *)
Inductive esig :=
| SLoad  (t : tid) (l : loc) (o : ord) (v : val) (k : ts)
| SStore (t : tid) (l : loc) (o : ord) (v : val)
| SRmw   (t : tid) (l : loc) (o : ord) (v : val)
| SFence (t : tid) (o : ord).
Arguments SLoad (t l)%nat o v%N k%nat.
Arguments SStore (t l)%nat o v%N.
Arguments SRmw (t l)%nat o v%N.
Arguments SFence t%nat o.
Definition sig_of (e : event) : esig :=
  match e with
  | (t, LLoad l o m)  => SLoad t l o (m_val m) (m_ts m)
  | (t, LStore l o v) => SStore t l o v
  | (t, LRmw l o v)   => SRmw t l o v
  | (t, LFence o)     => SFence t o
  end.

(** ** Order instances that violate [orders_ok] in exactly one conjunct (necessity results) *)

Definition set_push_seq_load (x : ord) (o : orders) : orders :=
  {| o_push_enq_load := o_push_enq_load o; o_push_seq_load := x; o_push_cas := o_push_cas o;
     o_push_cas_fail := o_push_cas_fail o; o_push_enq_reload_w := o_push_enq_reload_w o;
     o_push_enq_reload := o_push_enq_reload o; o_push_deq_load := o_push_deq_load o;
     o_push_seq_store := o_push_seq_store o;
     o_pop_deq_load := o_pop_deq_load o; o_pop_seq_load := o_pop_seq_load o; o_pop_cas := o_pop_cas o;
     o_pop_cas_fail := o_pop_cas_fail o; o_pop_deq_reload_w := o_pop_deq_reload_w o;
     o_pop_deq_reload := o_pop_deq_reload o; o_pop_enq_load := o_pop_enq_load o;
     o_pop_seq_store := o_pop_seq_store o |}.
Definition set_push_seq_store (x : ord) (o : orders) : orders :=
  {| o_push_enq_load := o_push_enq_load o; o_push_seq_load := o_push_seq_load o; o_push_cas := o_push_cas o;
     o_push_cas_fail := o_push_cas_fail o; o_push_enq_reload_w := o_push_enq_reload_w o;
     o_push_enq_reload := o_push_enq_reload o; o_push_deq_load := o_push_deq_load o;
     o_push_seq_store := x;
     o_pop_deq_load := o_pop_deq_load o; o_pop_seq_load := o_pop_seq_load o; o_pop_cas := o_pop_cas o;
     o_pop_cas_fail := o_pop_cas_fail o; o_pop_deq_reload_w := o_pop_deq_reload_w o;
     o_pop_deq_reload := o_pop_deq_reload o; o_pop_enq_load := o_pop_enq_load o;
     o_pop_seq_store := o_pop_seq_store o |}.
Definition set_pop_seq_load (x : ord) (o : orders) : orders :=
  {| o_push_enq_load := o_push_enq_load o; o_push_seq_load := o_push_seq_load o; o_push_cas := o_push_cas o;
     o_push_cas_fail := o_push_cas_fail o; o_push_enq_reload_w := o_push_enq_reload_w o;
     o_push_enq_reload := o_push_enq_reload o; o_push_deq_load := o_push_deq_load o;
     o_push_seq_store := o_push_seq_store o;
     o_pop_deq_load := o_pop_deq_load o; o_pop_seq_load := x; o_pop_cas := o_pop_cas o;
     o_pop_cas_fail := o_pop_cas_fail o; o_pop_deq_reload_w := o_pop_deq_reload_w o;
     o_pop_deq_reload := o_pop_deq_reload o; o_pop_enq_load := o_pop_enq_load o;
     o_pop_seq_store := o_pop_seq_store o |}.
Definition set_pop_seq_store (x : ord) (o : orders) : orders :=
  {| o_push_enq_load := o_push_enq_load o; o_push_seq_load := o_push_seq_load o; o_push_cas := o_push_cas o;
     o_push_cas_fail := o_push_cas_fail o; o_push_enq_reload_w := o_push_enq_reload_w o;
     o_push_enq_reload := o_push_enq_reload o; o_push_deq_load := o_push_deq_load o;
     o_push_seq_store := o_push_seq_store o;
     o_pop_deq_load := o_pop_deq_load o; o_pop_seq_load := o_pop_seq_load o; o_pop_cas := o_pop_cas o;
     o_pop_cas_fail := o_pop_cas_fail o; o_pop_deq_reload_w := o_pop_deq_reload_w o;
     o_pop_deq_reload := o_pop_deq_reload o; o_pop_enq_load := o_pop_enq_load o;
     o_pop_seq_store := x |}.

Lemma weak_instances_not_ok :
  orders_ok (set_push_seq_load Rlx xenium_orders) = false /\
  orders_ok (set_push_seq_store Rlx xenium_orders) = false /\
  orders_ok (set_pop_seq_load Rlx xenium_orders) = false /\
  orders_ok (set_pop_seq_store Rlx xenium_orders) = false.
Proof. repeat split. Qed.
