(** * WM.ViewLemmas : basic guarantees of the view machine of WM/View.v *)

Require Import List NArith Arith Lia Bool.
Import ListNotations.
Require Import XV.WM.View.

(** ** Views *)

Lemma upd_same : forall v l k, upd v l k l = k.
Proof. intros; unfold upd; now rewrite Nat.eqb_refl. Qed.

Lemma upd_other : forall v l k l', l' <> l -> upd v l k l' = v l'.
Proof.
  intros; unfold upd. destruct (Nat.eqb_spec l' l); [contradiction|reflexivity].
Qed.

Lemma vjoin_l : forall v1 v2 l, v1 l <= vjoin v1 v2 l.
Proof. intros; unfold vjoin; lia. Qed.

Lemma vjoin_r : forall v1 v2 l, v2 l <= vjoin v1 v2 l.
Proof. intros; unfold vjoin; lia. Qed.

Lemma vjoin_lub : forall v1 v2 l k, v1 l <= k -> v2 l <= k -> vjoin v1 v2 l <= k.
Proof. intros; unfold vjoin; lia. Qed.

Lemma vle_refl : forall v, vle v v.
Proof. intros v l; lia. Qed.

Lemma vle_trans : forall a b c, vle a b -> vle b c -> vle a c.
Proof. intros a b c H1 H2 l; specialize (H1 l); specialize (H2 l); lia. Qed.

Lemma sc_pre_ge : forall o sc c l, c l <= sc_pre o sc c l.
Proof. intros; unfold sc_pre, vjoin; destruct (is_sc o); lia. Qed.

Lemma sc_pre_sc : forall sc c l, sc l <= sc_pre SC sc c l.
Proof. intros; unfold sc_pre, vjoin; simpl; lia. Qed.

Lemma sc_pre_lub : forall o sc c l k, c l <= k -> sc l <= k -> sc_pre o sc c l <= k.
Proof. intros; unfold sc_pre, vjoin; destruct (is_sc o); lia. Qed.

Lemma upd_thr_same : forall th t x, upd_thr th t x t = x.
Proof. intros; unfold upd_thr; now rewrite Nat.eqb_refl. Qed.

Lemma upd_thr_other : forall th t x t', t' <> t -> upd_thr th t x t' = th t'.
Proof.
  intros; unfold upd_thr. destruct (Nat.eqb_spec t' t); [contradiction|reflexivity].
Qed.

Lemma upd_mem_same : forall mm l ms, upd_mem mm l ms l = ms.
Proof. intros; unfold upd_mem; now rewrite Nat.eqb_refl. Qed.

Lemma upd_mem_other : forall mm l ms l', l' <> l -> upd_mem mm l ms l' = mm l'.
Proof.
  intros; unfold upd_mem. destruct (Nat.eqb_spec l' l); [contradiction|reflexivity].
Qed.

(** ** Message lists *)

Lemma last_msg_app : forall ms m, last_msg (ms ++ [m]) = m.
Proof. intros; unfold last_msg; apply last_last. Qed.

Lemma last_ts_app : forall ms m, last_ts (ms ++ [m]) = m_ts m.
Proof. intros; unfold last_ts; now rewrite last_msg_app. Qed.

Lemma last_msg_in : forall ms, ms <> [] -> In (last_msg ms) ms.
Proof.
  unfold last_msg. induction ms as [|a r IH]; intros H; [congruence|].
  destruct r as [|b r']; [left; reflexivity|].
  right. change (In (last (b :: r') init_msg) (b :: r')). apply IH; discriminate.
Qed.

Lemma incr_ts_le_last : forall ms m, incr_ts ms -> In m ms -> m_ts m <= last_ts ms.
Proof.
  unfold last_ts, last_msg.
  induction ms as [|a r IH]; intros m Hs Hin; [inversion Hin|].
  destruct Hs as [Ha Hr]. destruct r as [|b r'].
  - destruct Hin as [->|[]]. simpl; lia.
  - change (m_ts m <= m_ts (last (b :: r') init_msg)).
    destruct Hin as [->|Hin].
    + assert (Hl : In (last_msg (b :: r')) (b :: r')) by (apply last_msg_in; discriminate).
      apply Ha in Hl. unfold last_msg in Hl. lia.
    + apply IH; assumption.
Qed.

Lemma incr_ts_app : forall ms m,
  incr_ts ms -> (forall m', In m' ms -> m_ts m' < m_ts m) -> incr_ts (ms ++ [m]).
Proof.
  induction ms as [|a r IH]; intros m Hs Hlt; simpl.
  - split; [intros ? []|exact I].
  - destruct Hs as [Ha Hr]. split.
    + intros m' Hin. apply in_app_or in Hin. destruct Hin as [Hin|[<-|[]]].
      * now apply Ha.
      * apply Hlt; now left.
    + apply IH; [assumption|]. intros m' Hin; apply Hlt; now right.
Qed.

Lemma incr_ts_inj : forall ms m m',
  incr_ts ms -> In m ms -> In m' ms -> m_ts m = m_ts m' -> m = m'.
Proof.
  induction ms as [|a r IH]; intros m m' Hs H1 H2 He; [inversion H1|].
  destruct Hs as [Ha Hr]. destruct H1 as [<-|H1], H2 as [<-|H2].
  - reflexivity.
  - apply Ha in H2; lia.
  - apply Ha in H1; lia.
  - now apply IH.
Qed.

(** ** Shape of the memory after each operation *)

Lemma memory_do_load : forall s t l o m, memory (do_load s t l o m) = memory s.
Proof. reflexivity. Qed.

Lemma memory_do_fence : forall s t o, memory (do_fence s t o) = memory s.
Proof. reflexivity. Qed.

Definition new_msg (e : view) (s : state) (t : tid) (l : loc) (o : ord) (v : val) : msg :=
  last_msg (memory (do_store_with e s t l o v) l).

Lemma memory_store_same : forall e s t l o v,
  memory (do_store_with e s t l o v) l = memory s l ++ [new_msg e s t l o v].
Proof.
  intros. unfold new_msg. simpl. rewrite upd_mem_same. now rewrite last_msg_app.
Qed.

Lemma memory_store_other : forall e s t l o v l',
  l' <> l -> memory (do_store_with e s t l o v) l' = memory s l'.
Proof. intros. simpl. now rewrite upd_mem_other. Qed.

Lemma new_msg_ts : forall e s t l o v,
  m_ts (new_msg e s t l o v) = S (last_ts (memory s l)).
Proof. intros. unfold new_msg. simpl. rewrite upd_mem_same, last_msg_app. reflexivity. Qed.

Lemma new_msg_val : forall e s t l o v, m_val (new_msg e s t l o v) = v.
Proof. intros. unfold new_msg. simpl. rewrite upd_mem_same, last_msg_app. reflexivity. Qed.

Lemma new_msg_view : forall e s t l o v l',
  m_view (new_msg e s t l o v) l' =
  Nat.max ((if is_rel o then upd (read_view s t o) l (S (last_ts (memory s l)))
            else upd (rel (threads s t)) l (S (last_ts (memory s l)))) l') (e l').
Proof. intros. unfold new_msg. simpl. rewrite upd_mem_same, last_msg_app. reflexivity. Qed.

Lemma last_ts_store : forall e s t l o v l',
  last_ts (memory (do_store_with e s t l o v) l') =
  if Nat.eqb l' l then S (last_ts (memory s l)) else last_ts (memory s l').
Proof.
  intros. destruct (Nat.eqb_spec l' l) as [->|Hn].
  - rewrite memory_store_same, last_ts_app. apply new_msg_ts.
  - now rewrite memory_store_other.
Qed.

Lemma in_memory_store : forall e s t l o v l' m,
  In m (memory (do_store_with e s t l o v) l') <->
  In m (memory s l') \/ (l' = l /\ m = new_msg e s t l o v).
Proof.
  intros. destruct (Nat.eqb_spec l' l) as [->|Hn].
  - rewrite memory_store_same. rewrite in_app_iff. simpl. intuition.
  - rewrite memory_store_other by assumption. intuition.
Qed.

(** thread components after each operation *)

Lemma threads_store_same : forall e s t l o v,
  threads (do_store_with e s t l o v) t =
  {| cur := upd (read_view s t o) l (S (last_ts (memory s l)));
     acq := acq (threads s t); rel := rel (threads s t) |}.
Proof. intros. simpl. now rewrite upd_thr_same. Qed.

Lemma threads_store_other : forall e s t l o v t',
  t' <> t -> threads (do_store_with e s t l o v) t' = threads s t'.
Proof. intros. simpl. now rewrite upd_thr_other. Qed.

Lemma threads_load_other : forall s t l o m t',
  t' <> t -> threads (do_load s t l o m) t' = threads s t'.
Proof. intros. simpl. now rewrite upd_thr_other. Qed.

Lemma threads_fence_other : forall s t o t',
  t' <> t -> threads (do_fence s t o) t' = threads s t'.
Proof. intros. simpl. now rewrite upd_thr_other. Qed.

(** ** 1. Well-formedness is an invariant *)

Lemma wf_init : wf init.
Proof.
  constructor; simpl; intros; try (unfold vbot; lia).
  - discriminate.
  - split; [intros ? []|exact I].
  - destruct H as [<-|[]]. unfold last_ts, last_msg; simpl. unfold vbot; lia.
  - destruct H as [<-|[]]. reflexivity.
Qed.

Lemma wf_read_view : forall s t o l,
  wf s -> read_view s t o l <= last_ts (memory s l).
Proof.
  intros. unfold read_view. apply sc_pre_lub; [apply wf_cur|apply wf_sc]; assumption.
Qed.

Lemma wf_in_ts : forall s l m, wf s -> In m (memory s l) -> m_ts m <= last_ts (memory s l).
Proof. intros. apply incr_ts_le_last; [apply wf_sorted|]; assumption. Qed.

Lemma wf_last_in : forall s l, wf s -> In (last_msg (memory s l)) (memory s l).
Proof. intros. apply last_msg_in. now apply wf_nonempty. Qed.

(** the new cur of a loading thread *)
Lemma cur_do_load : forall s t l o m l',
  cur (threads (do_load s t l o m) t) l' =
  (if is_acq o
   then vjoin (upd (read_view s t o) l (Nat.max (read_view s t o l) (m_ts m))) (m_view m)
   else upd (read_view s t o) l (Nat.max (read_view s t o l) (m_ts m))) l'.
Proof. intros. simpl. rewrite upd_thr_same. simpl. destruct (is_acq o); reflexivity. Qed.

Lemma cur_do_load_bound : forall s t l o m l',
  wf s -> In m (memory s l) ->
  cur (threads (do_load s t l o m) t) l' <= last_ts (memory s l').
Proof.
  intros s t l o m l' W Hin. rewrite cur_do_load.
  assert (B : upd (read_view s t o) l (Nat.max (read_view s t o l) (m_ts m)) l'
              <= last_ts (memory s l')).
  { unfold upd. destruct (Nat.eqb_spec l' l) as [->|Hn].
    - pose proof (wf_read_view s t o l W). pose proof (wf_in_ts s l m W Hin). lia.
    - now apply wf_read_view. }
  destruct (is_acq o); [|exact B].
  apply vjoin_lub; [exact B|]. eapply wf_msg; eassumption.
Qed.

Lemma wf_do_load : forall s t l o m,
  wf s -> In m (memory s l) -> wf (do_load s t l o m).
Proof.
  intros s t l o m W Hin.
  assert (C := cur_do_load_bound s t l o m).
  constructor; intros; rewrite ?memory_do_load in *.
  - apply (wf_nonempty s W).
  - apply (wf_sorted s W).
  - destruct (Nat.eq_dec t0 t) as [->|Hn].
    + now apply C.
    + rewrite threads_load_other by assumption. now apply wf_cur.
  - destruct (Nat.eq_dec t0 t) as [->|Hn].
    + simpl. rewrite upd_thr_same. simpl. destruct (is_acq o).
      * now apply wf_acq.
      * apply vjoin_lub; [now apply wf_acq|]. eapply wf_msg; eassumption.
    + rewrite threads_load_other by assumption. now apply wf_acq.
  - destruct (Nat.eq_dec t0 t) as [->|Hn].
    + rewrite cur_do_load. simpl. rewrite upd_thr_same. simpl.
      pose proof (wf_rel s W t l0) as R.
      pose proof (sc_pre_ge o (scview s) (cur (threads s t)) l0) as P.
      fold (read_view s t o) in P.
      assert (B : rel (threads s t) l0 <=
                  upd (read_view s t o) l (Nat.max (read_view s t o l) (m_ts m)) l0).
      { unfold upd. destruct (Nat.eqb_spec l0 l) as [->|Hn]; lia. }
      destruct (is_acq o); [unfold vjoin; lia|exact B].
    + rewrite threads_load_other by assumption. now apply wf_rel.
  - simpl. unfold sc_post. destruct (is_sc o).
    + specialize (C l0 W Hin). simpl in C. rewrite upd_thr_same in C. exact C.
    + now apply wf_sc.
  - simpl in *. eapply wf_msg; eassumption.
  - simpl in *. eapply wf_msg_self; eassumption.
Qed.

Lemma wf_do_store_with : forall e s t l o v,
  wf s ->
  (forall l', e l' <= last_ts (memory s l')) ->
  wf (do_store_with e s t l o v).
Proof.
  intros e s t l o v W He.
  assert (RV := fun l' => wf_read_view s t o l' W).
  constructor; intros.
  - destruct (Nat.eq_dec l0 l) as [->|Hn].
    + rewrite memory_store_same. intros Hc. apply app_eq_nil in Hc. destruct Hc; discriminate.
    + rewrite memory_store_other by assumption. now apply wf_nonempty.
  - destruct (Nat.eq_dec l0 l) as [->|Hn].
    + rewrite memory_store_same. apply incr_ts_app; [now apply wf_sorted|].
      intros m' Hin. rewrite new_msg_ts. pose proof (wf_in_ts s l m' W Hin). lia.
    + rewrite memory_store_other by assumption. now apply wf_sorted.
  - rewrite last_ts_store. destruct (Nat.eq_dec t0 t) as [->|Hn].
    + rewrite threads_store_same. simpl. unfold upd.
      destruct (Nat.eqb_spec l0 l); [lia|apply RV].
    + rewrite threads_store_other by assumption.
      pose proof (wf_cur s W t0 l0). pose proof (wf_cur s W t0 l).
      destruct (Nat.eqb_spec l0 l) as [->|]; lia.
  - rewrite last_ts_store.
    assert (A : acq (threads (do_store_with e s t l o v) t0) l0 = acq (threads s t0) l0).
    { destruct (Nat.eq_dec t0 t) as [->|Hn].
      - now rewrite threads_store_same.
      - now rewrite threads_store_other. }
    rewrite A. pose proof (wf_acq s W t0 l0).
    destruct (Nat.eqb_spec l0 l) as [->|]; lia.
  - destruct (Nat.eq_dec t0 t) as [->|Hn].
    + rewrite threads_store_same. simpl.
      pose proof (wf_rel s W t l0). pose proof (wf_cur s W t l0).
      pose proof (sc_pre_ge o (scview s) (cur (threads s t)) l0) as P.
      fold (read_view s t o) in P. specialize (RV l0).
      unfold upd. destruct (Nat.eqb_spec l0 l) as [->|]; lia.
    + rewrite threads_store_other by assumption. now apply wf_rel.
  - rewrite last_ts_store. simpl. unfold sc_post. destruct (is_sc o).
    + unfold upd. destruct (Nat.eqb_spec l0 l); [lia|apply RV].
    + pose proof (wf_sc s W l0). destruct (Nat.eqb_spec l0 l) as [->|]; lia.
  - rewrite last_ts_store. apply in_memory_store in H. destruct H as [H|[-> ->]].
    + pose proof (wf_msg s W l0 m l' H). destruct (Nat.eqb_spec l' l) as [->|]; lia.
    + rewrite new_msg_view. specialize (He l'). specialize (RV l').
      pose proof (wf_rel s W t l'). pose proof (wf_cur s W t l').
      unfold upd. destruct (is_rel o); destruct (Nat.eqb_spec l' l) as [->|]; lia.
  - apply in_memory_store in H. destruct H as [H|[-> ->]].
    + now apply (wf_msg_self s W).
    + rewrite new_msg_view, new_msg_ts. specialize (He l).
      destruct (is_rel o); rewrite upd_same; lia.
Qed.

Lemma wf_do_store : forall s t l o v, wf s -> wf (do_store s t l o v).
Proof.
  intros. unfold do_store. apply wf_do_store_with; [assumption|].
  intros; unfold vbot; lia.
Qed.

Lemma wf_do_rmw : forall s t l o v, wf s -> wf (do_rmw s t l o v).
Proof.
  intros s t l o v W. unfold do_rmw.
  apply wf_do_store_with.
  - apply wf_do_load; [assumption|now apply wf_last_in].
  - intros l'. rewrite memory_do_load. eapply wf_msg; [assumption|].
    apply wf_last_in; assumption.
Qed.

Lemma cur_do_fence : forall s t o l,
  cur (threads (do_fence s t o) t) l =
  sc_pre o (scview s)
         (if is_acq o then vjoin (cur (threads s t)) (acq (threads s t))
          else cur (threads s t)) l.
Proof. intros. simpl. rewrite upd_thr_same. reflexivity. Qed.

Lemma cur_do_fence_bound : forall s t o l,
  wf s -> cur (threads (do_fence s t o) t) l <= last_ts (memory s l).
Proof.
  intros s t o l W. rewrite cur_do_fence.
  apply sc_pre_lub; [|now apply wf_sc].
  destruct (is_acq o); [apply vjoin_lub; [now apply wf_cur|now apply wf_acq]|now apply wf_cur].
Qed.

Lemma cur_do_fence_ge : forall s t o l,
  cur (threads s t) l <= cur (threads (do_fence s t o) t) l.
Proof.
  intros. rewrite cur_do_fence.
  etransitivity; [|apply sc_pre_ge]. destruct (is_acq o); [apply vjoin_l|lia].
Qed.

Lemma wf_do_fence : forall s t o, wf s -> wf (do_fence s t o).
Proof.
  intros s t o W.
  assert (C := fun l => cur_do_fence_bound s t o l W).
  constructor; intros; rewrite ?memory_do_fence in *.
  - apply (wf_nonempty s W).
  - apply (wf_sorted s W).
  - destruct (Nat.eq_dec t0 t) as [->|Hn].
    + apply C.
    + rewrite threads_fence_other by assumption. now apply wf_cur.
  - destruct (Nat.eq_dec t0 t) as [->|Hn].
    + simpl. rewrite upd_thr_same. simpl. now apply wf_acq.
    + rewrite threads_fence_other by assumption. now apply wf_acq.
  - destruct (Nat.eq_dec t0 t) as [->|Hn].
    + pose proof (cur_do_fence_ge s t o l) as G. pose proof (wf_rel s W t l) as R.
      simpl in *. rewrite upd_thr_same in *. simpl in *.
      destruct (is_rel o); lia.
    + rewrite threads_fence_other by assumption. now apply wf_rel.
  - simpl. unfold sc_post. destruct (is_sc o).
    + specialize (C l). simpl in C. rewrite upd_thr_same in C. exact C.
    + now apply wf_sc.
  - simpl in *. eapply wf_msg; eassumption.
  - simpl in *. eapply wf_msg_self; eassumption.
Qed.

Lemma wf_step : forall s t lab s', wf s -> step s t lab s' -> wf s'.
Proof.
  intros s t lab s' W St. destruct St.
  - destruct H. now apply wf_do_load.
  - now apply wf_do_store.
  - now apply wf_do_rmw.
  - now apply wf_do_fence.
Qed.

Theorem wf_reachable : forall s, reachable s -> wf s.
Proof.
  induction 1; [apply wf_init|eapply wf_step; eassumption].
Qed.

Lemma reachable_steps : forall s s', reachable s -> steps s s' -> reachable s'.
Proof.
  intros s s' R St. induction St; [assumption|].
  apply IHSt. eapply reach_step; eassumption.
Qed.

Lemma wf_steps : forall s s', wf s -> steps s s' -> wf s'.
Proof.
  intros s s' W St. induction St; [assumption|]. apply IHSt. eapply wf_step; eassumption.
Qed.

Lemma steps_trans : forall a b c, steps a b -> steps b c -> steps a c.
Proof.
  intros a b c H1 H2. induction H1; [assumption|]. eapply steps_cons; eauto.
Qed.

Lemma steps_one : forall s t lab s', step s t lab s' -> steps s s'.
Proof. intros. eapply steps_cons; [eassumption|apply steps_refl]. Qed.

(** unfolded, readable form of item 1 *)
Corollary wf_reachable_unfolded : forall s, reachable s ->
  (forall l, memory s l <> [] /\ incr_ts (memory s l)) /\
  (forall t l, cur (threads s t) l <= last_ts (memory s l)) /\
  (forall t l, acq (threads s t) l <= last_ts (memory s l)) /\
  (forall t l, rel (threads s t) l <= cur (threads s t) l) /\
  (forall l, scview s l <= last_ts (memory s l)) /\
  (forall l m, In m (memory s l) ->
     m_ts m <= last_ts (memory s l) /\ m_view m l = m_ts m /\
     forall l', m_view m l' <= last_ts (memory s l')).
Proof.
  intros s R. apply wf_reachable in R.
  repeat split; intros.
  - now apply wf_nonempty.
  - now apply wf_sorted.
  - now apply wf_cur.
  - now apply wf_acq.
  - now apply wf_rel.
  - now apply wf_sc.
  - now apply wf_in_ts.
  - now apply (wf_msg_self s R).
  - eapply wf_msg; eassumption.
Qed.

(** ** 2. Monotonicity *)

Record mono (s s' : state) : Prop := {
  mono_cur  : forall t l, cur (threads s t) l <= cur (threads s' t) l;
  mono_acq  : forall t l, acq (threads s t) l <= acq (threads s' t) l;
  mono_rel  : forall t l, rel (threads s t) l <= rel (threads s' t) l;
  mono_sc   : forall l, scview s l <= scview s' l;
  mono_mem  : forall l m, In m (memory s l) -> In m (memory s' l);
  mono_last : forall l, last_ts (memory s l) <= last_ts (memory s' l)
}.

Lemma mono_refl : forall s, mono s s.
Proof. intros; constructor; intros; auto. Qed.

Lemma mono_trans : forall a b c, mono a b -> mono b c -> mono a c.
Proof.
  intros a b c [] []. constructor; intros; eauto using Nat.le_trans.
Qed.

Lemma read_view_ge_cur : forall s t o l, cur (threads s t) l <= read_view s t o l.
Proof. intros. unfold read_view. apply sc_pre_ge. Qed.

Lemma read_view_ge_sc : forall s t o l,
  is_sc o = true -> scview s l <= read_view s t o l.
Proof. intros s t o l E. unfold read_view, sc_pre. rewrite E. apply vjoin_r. Qed.

Lemma scview_do_load : forall s t l o m l',
  scview (do_load s t l o m) l' =
  sc_post o (scview s) (cur (threads (do_load s t l o m) t)) l'.
Proof. intros. simpl. rewrite upd_thr_same. reflexivity. Qed.

Lemma scview_store : forall e s t l o v l',
  scview (do_store_with e s t l o v) l' =
  sc_post o (scview s) (cur (threads (do_store_with e s t l o v) t)) l'.
Proof. intros. simpl. rewrite upd_thr_same. reflexivity. Qed.

Lemma scview_do_fence : forall s t o l',
  scview (do_fence s t o) l' =
  sc_post o (scview s) (cur (threads (do_fence s t o) t)) l'.
Proof. intros. simpl. rewrite upd_thr_same. reflexivity. Qed.

Lemma cur_do_load_ge : forall s t l o m l',
  read_view s t o l' <= cur (threads (do_load s t l o m) t) l'.
Proof.
  intros. rewrite cur_do_load.
  assert (B : read_view s t o l' <=
              upd (read_view s t o) l (Nat.max (read_view s t o l) (m_ts m)) l').
  { unfold upd. destruct (Nat.eqb_spec l' l) as [->|]; lia. }
  destruct (is_acq o); [unfold vjoin; lia|exact B].
Qed.

Lemma cur_do_load_ge_ts : forall s t l o m,
  m_ts m <= cur (threads (do_load s t l o m) t) l.
Proof.
  intros. rewrite cur_do_load.
  assert (B : m_ts m <=
              upd (read_view s t o) l (Nat.max (read_view s t o l) (m_ts m)) l).
  { rewrite upd_same. lia. }
  destruct (is_acq o); [unfold vjoin; lia|exact B].
Qed.

Lemma mono_do_load : forall s t l o m, mono s (do_load s t l o m).
Proof.
  intros. constructor; intros; rewrite ?memory_do_load; auto.
  - destruct (Nat.eq_dec t0 t) as [->|Hn].
    + etransitivity; [apply read_view_ge_cur|apply cur_do_load_ge].
    + rewrite threads_load_other by assumption. lia.
  - destruct (Nat.eq_dec t0 t) as [->|Hn].
    + simpl. rewrite upd_thr_same. simpl. destruct (is_acq o); [lia|apply vjoin_l].
    + rewrite threads_load_other by assumption. lia.
  - destruct (Nat.eq_dec t0 t) as [->|Hn].
    + simpl. rewrite upd_thr_same. simpl. lia.
    + rewrite threads_load_other by assumption. lia.
  - rewrite scview_do_load. unfold sc_post. destruct (is_sc o) eqn:E; [|lia].
    etransitivity; [apply (read_view_ge_sc s t o l0 E)|apply cur_do_load_ge].
Qed.

Lemma cur_store_ge : forall e s t l o v l',
  wf s -> read_view s t o l' <= cur (threads (do_store_with e s t l o v) t) l'.
Proof.
  intros e s t l o v l' W. rewrite threads_store_same. simpl.
  pose proof (wf_read_view s t o l W).
  unfold upd. destruct (Nat.eqb_spec l' l) as [->|]; lia.
Qed.

Lemma cur_store_ts : forall e s t l o v,
  cur (threads (do_store_with e s t l o v) t) l = S (last_ts (memory s l)).
Proof. intros. rewrite threads_store_same. simpl. apply upd_same. Qed.

Lemma mono_do_store_with : forall e s t l o v,
  wf s -> mono s (do_store_with e s t l o v).
Proof.
  intros e s t l o v W. constructor; intros.
  - destruct (Nat.eq_dec t0 t) as [->|Hn].
    + etransitivity; [apply read_view_ge_cur|now apply cur_store_ge].
    + rewrite threads_store_other by assumption. lia.
  - destruct (Nat.eq_dec t0 t) as [->|Hn].
    + rewrite threads_store_same. simpl. lia.
    + rewrite threads_store_other by assumption. lia.
  - destruct (Nat.eq_dec t0 t) as [->|Hn].
    + rewrite threads_store_same. simpl. lia.
    + rewrite threads_store_other by assumption. lia.
  - rewrite scview_store. unfold sc_post. destruct (is_sc o) eqn:E; [|lia].
    etransitivity; [apply (read_view_ge_sc s t o l0 E)|now apply cur_store_ge].
  - apply in_memory_store. now left.
  - rewrite last_ts_store. destruct (Nat.eqb_spec l0 l) as [->|]; lia.
Qed.

Lemma mono_do_fence : forall s t o, wf s -> mono s (do_fence s t o).
Proof.
  intros s t o W. constructor; intros; rewrite ?memory_do_fence; auto.
  - destruct (Nat.eq_dec t0 t) as [->|Hn].
    + apply cur_do_fence_ge.
    + rewrite threads_fence_other by assumption. lia.
  - destruct (Nat.eq_dec t0 t) as [->|Hn].
    + simpl. rewrite upd_thr_same. simpl. lia.
    + rewrite threads_fence_other by assumption. lia.
  - destruct (Nat.eq_dec t0 t) as [->|Hn].
    + pose proof (cur_do_fence_ge s t o l) as G. pose proof (wf_rel s W t l).
      simpl in *. rewrite upd_thr_same in *. simpl in *.
      destruct (is_rel o); lia.
    + rewrite threads_fence_other by assumption. lia.
  - simpl. unfold sc_post, sc_pre. destruct (is_sc o); [apply vjoin_r|lia].
Qed.

Lemma mono_step : forall s t lab s', wf s -> step s t lab s' -> mono s s'.
Proof.
  intros s t lab s' W St. destruct St.
  - apply mono_do_load.
  - now apply mono_do_store_with.
  - unfold do_rmw. eapply mono_trans; [apply mono_do_load|].
    apply mono_do_store_with. apply wf_do_load; [assumption|now apply wf_last_in].
  - now apply mono_do_fence.
Qed.

Lemma mono_steps : forall s s', wf s -> steps s s' -> mono s s'.
Proof.
  intros s s' W St. induction St; [apply mono_refl|].
  eapply mono_trans; [eapply mono_step; eassumption|].
  apply IHSt. eapply wf_step; eassumption.
Qed.

(** a step of any thread never decreases any thread's [cur], nor [scview] *)
Theorem view_monotone : forall s t lab s',
  reachable s -> step s t lab s' ->
  (forall t' l, cur (threads s t') l <= cur (threads s' t') l) /\
  (forall l, scview s l <= scview s' l).
Proof.
  intros s t lab s' R St. apply wf_reachable in R.
  pose proof (mono_step s t lab s' R St) as M.
  split; intros; [apply (mono_cur _ _ M)|apply (mono_sc _ _ M)].
Qed.

Theorem view_monotone_steps : forall s s',
  reachable s -> steps s s' ->
  (forall t' l, cur (threads s t') l <= cur (threads s' t') l) /\
  (forall l, scview s l <= scview s' l).
Proof.
  intros s s' R St. apply wf_reachable in R.
  pose proof (mono_steps s s' R St) as M.
  split; intros; [apply (mono_cur _ _ M)|apply (mono_sc _ _ M)].
Qed.

(** also [acq], [rel] never decrease and memory only grows *)
Theorem view_monotone_full : forall s s', reachable s -> steps s s' -> mono s s'.
Proof. intros. apply mono_steps; [now apply wf_reachable|assumption]. Qed.

(** ** Inversion of labelled steps *)

Lemma step_load_inv : forall s t l o m s',
  step s t (LLoad l o m) s' -> can_read s t l o m /\ s' = do_load s t l o m.
Proof. intros. inversion H; subst. split; [assumption|reflexivity]. Qed.

Lemma step_store_inv : forall s t l o v s',
  step s t (LStore l o v) s' -> s' = do_store s t l o v.
Proof. intros. inversion H; subst. reflexivity. Qed.

Lemma step_rmw_inv : forall s t l o v s',
  step s t (LRmw l o v) s' -> s' = do_rmw s t l o v.
Proof. intros. inversion H; subst. reflexivity. Qed.

Lemma step_fence_inv : forall s t o s',
  step s t (LFence o) s' -> s' = do_fence s t o.
Proof. intros. inversion H; subst. reflexivity. Qed.

Lemma step_apply : forall s t lab s',
  step s t lab s' <-> enabled s t lab /\ s' = apply s t lab.
Proof.
  intros; split.
  - intros H; destruct H; simpl; auto.
  - intros [E ->]. destruct lab; simpl in *; constructor; assumption.
Qed.

(** the executable load agrees with the relation *)
Lemma exec_load_step : forall s t l o i m s',
  exec_load s t l o i = Some (m, s') -> step s t (LLoad l o m) s'.
Proof.
  unfold exec_load. intros s t l o i m s' H.
  destruct (nth_error (memory s l) i) as [m0|] eqn:E; [|discriminate].
  destruct (Nat.leb_spec (read_view s t o l) (m_ts m0)); [|discriminate].
  inversion H; subst. constructor. split; [eapply nth_error_In; eassumption|assumption].
Qed.

Lemma step_exec_load : forall s t l o m s',
  step s t (LLoad l o m) s' -> exists i, exec_load s t l o i = Some (m, s').
Proof.
  intros s t l o m s' H. apply step_load_inv in H. destruct H as [[Hin Hle] ->].
  apply In_nth_error in Hin. destruct Hin as [i Hi]. exists i.
  unfold exec_load. rewrite Hi.
  destruct (Nat.leb_spec (read_view s t o l) (m_ts m)); [reflexivity|lia].
Qed.

(** ** 3. Read-read coherence *)

(** a load reads a message at least as new as the thread's view ... *)
Lemma load_reads_ge_cur : forall s t l o m s',
  step s t (LLoad l o m) s' -> cur (threads s t) l <= m_ts m.
Proof.
  intros. apply step_load_inv in H. destruct H as [[_ Hle] _].
  etransitivity; [apply read_view_ge_cur|exact Hle].
Qed.

(** ... and afterwards the thread's view includes the message read *)
Lemma load_cur_ge : forall s t l o m s',
  step s t (LLoad l o m) s' -> m_ts m <= cur (threads s' t) l.
Proof.
  intros. apply step_load_inv in H. destruct H as [_ ->]. apply cur_do_load_ge_ts.
Qed.

(** in fact, exactly the message read *)
Lemma load_cur_eq : forall s t l o m s',
  reachable s -> step s t (LLoad l o m) s' -> cur (threads s' t) l = m_ts m.
Proof.
  intros s t l o m s' R H. apply wf_reachable in R.
  apply step_load_inv in H. destruct H as [[Hin Hle] ->].
  rewrite cur_do_load. pose proof (wf_msg_self s R l m Hin) as E.
  destruct (is_acq o); unfold vjoin; rewrite upd_same; lia.
Qed.

(** the thread's view bounds all its later loads *)
Lemma cur_bounds_loads : forall s t l k s' o m s'',
  reachable s -> k <= cur (threads s t) l ->
  steps s s' -> step s' t (LLoad l o m) s'' -> k <= m_ts m.
Proof.
  intros s t l k s' o m s'' R Hk St Ld.
  pose proof (mono_cur _ _ (view_monotone_full s s' R St) t l).
  pose proof (load_reads_ge_cur _ _ _ _ _ _ Ld). lia.
Qed.

Theorem coherence_rr_forever : forall s t l o m s1 s2,
  reachable s -> step s t (LLoad l o m) s1 -> steps s1 s2 ->
  m_ts m <= cur (threads s2 t) l.
Proof.
  intros s t l o m s1 s2 R Ld St.
  assert (R1 : reachable s1) by (eapply reach_step; eassumption).
  pose proof (mono_cur _ _ (view_monotone_full s1 s2 R1 St) t l).
  pose proof (load_cur_ge _ _ _ _ _ _ Ld). lia.
Qed.

Theorem coherence_rr : forall s t l o m s1 s2 o' m' s3,
  reachable s ->
  step s t (LLoad l o m) s1 -> steps s1 s2 -> step s2 t (LLoad l o' m') s3 ->
  m_ts m <= m_ts m'.
Proof.
  intros s t l o m s1 s2 o' m' s3 R Ld St Ld'.
  assert (R1 : reachable s1) by (eapply reach_step; eassumption).
  eapply cur_bounds_loads; [exact R1| |exact St|exact Ld'].
  eapply load_cur_ge; eassumption.
Qed.

(** ** 4. Write-read coherence *)

(** what a store does to memory: exactly one new last message *)
Lemma store_new_message : forall s t l o v s',
  step s t (LStore l o v) s' ->
  exists mk, memory s' l = memory s l ++ [mk] /\
             m_ts mk = S (last_ts (memory s l)) /\ m_val mk = v /\
             (forall l', l' <> l -> memory s' l' = memory s l') /\
             cur (threads s' t) l = m_ts mk.
Proof.
  intros. apply step_store_inv in H. subst. unfold do_store.
  exists (new_msg vbot s t l o v). split; [apply memory_store_same|].
  split; [apply new_msg_ts|]. split; [apply new_msg_val|].
  split; [intros; now apply memory_store_other|].
  rewrite cur_store_ts, new_msg_ts. reflexivity.
Qed.

(** the same for an RMW; the new message immediately follows the one read *)
Lemma rmw_new_message : forall s t l o v s',
  step s t (LRmw l o v) s' ->
  exists mk, memory s' l = memory s l ++ [mk] /\
             m_ts mk = S (last_ts (memory s l)) /\ m_val mk = v /\
             (forall l', l' <> l -> memory s' l' = memory s l') /\
             cur (threads s' t) l = m_ts mk.
Proof.
  intros. apply step_rmw_inv in H. subst. unfold do_rmw.
  set (s1 := do_load s t l o (last_msg (memory s l))).
  exists (new_msg (m_view (last_msg (memory s l))) s1 t l o v).
  split; [exact (memory_store_same _ s1 t l o v)|].
  split; [rewrite new_msg_ts; reflexivity|]. split; [apply new_msg_val|].
  split; [intros l' Hn; exact (memory_store_other _ s1 t l o v l' Hn)|].
  rewrite cur_store_ts, new_msg_ts. reflexivity.
Qed.

Theorem coherence_wr : forall s t l o v s1 s2 o' m s3,
  reachable s ->
  step s t (LStore l o v) s1 -> steps s1 s2 -> step s2 t (LLoad l o' m) s3 ->
  S (last_ts (memory s l)) <= m_ts m.
Proof.
  intros s t l o v s1 s2 o' m s3 R St Sts Ld.
  assert (R1 : reachable s1) by (eapply reach_step; eassumption).
  destruct (store_new_message _ _ _ _ _ _ St) as (mk & _ & Hts & _ & _ & Hc).
  eapply cur_bounds_loads; [exact R1| |exact Sts|exact Ld]. lia.
Qed.

Theorem coherence_wr_rmw : forall s t l o v s1 s2 o' m s3,
  reachable s ->
  step s t (LRmw l o v) s1 -> steps s1 s2 -> step s2 t (LLoad l o' m) s3 ->
  S (last_ts (memory s l)) <= m_ts m.
Proof.
  intros s t l o v s1 s2 o' m s3 R St Sts Ld.
  assert (R1 : reachable s1) by (eapply reach_step; eassumption).
  destruct (rmw_new_message _ _ _ _ _ _ St) as (mk & _ & Hts & _ & _ & Hc).
  eapply cur_bounds_loads; [exact R1| |exact Sts|exact Ld]. lia.
Qed.

(** after a store of t to l, [cur t l] is at least the new timestamp forever *)
Lemma store_cur_forever : forall s t l o v s1 s2,
  reachable s -> step s t (LStore l o v) s1 -> steps s1 s2 ->
  S (last_ts (memory s l)) <= cur (threads s2 t) l.
Proof.
  intros s t l o v s1 s2 R St Sts.
  assert (R1 : reachable s1) by (eapply reach_step; eassumption).
  destruct (store_new_message _ _ _ _ _ _ St) as (mk & _ & Hts & _ & _ & Hc).
  pose proof (mono_cur _ _ (view_monotone_full s1 s2 R1 Sts) t l). lia.
Qed.

(** ** 5. Message passing (release store / acquire load) *)

(** messages of a location are identified by their timestamp *)
Lemma msg_unique_ts : forall s l m m',
  reachable s -> In m (memory s l) -> In m' (memory s l) -> m_ts m = m_ts m' -> m = m'.
Proof.
  intros s l m m' R. apply wf_reachable in R.
  apply incr_ts_inj. now apply wf_sorted.
Qed.

(** an acquire load joins the whole view of the message into [cur] *)
Lemma acquire_load_view : forall s t y o my s',
  step s t (LLoad y o my) s' -> is_acq o = true ->
  forall l, m_view my l <= cur (threads s' t) l.
Proof.
  intros s t y o my s' Ld A l. apply step_load_inv in Ld. destruct Ld as [_ ->].
  rewrite cur_do_load, A. apply vjoin_r.
Qed.

(** item 5, state form *)
Theorem message_passing : forall s t2 y o my s' x kx,
  reachable s -> In my (memory s y) -> kx <= m_view my x ->
  step s t2 (LLoad y o my) s' -> is_acq o = true ->
  kx <= cur (threads s' t2) x.
Proof.
  intros s t2 y o my s' x kx _ _ Hk Ld A.
  pose proof (acquire_load_view _ _ _ _ _ _ Ld A x). lia.
Qed.

(** ... hence every later load of x by t2 reads timestamp >= kx *)
Corollary message_passing_loads : forall s t2 y o my s' x kx s'' o' m s''',
  reachable s -> kx <= m_view my x ->
  step s t2 (LLoad y o my) s' -> is_acq o = true ->
  steps s' s'' -> step s'' t2 (LLoad x o' m) s''' ->
  kx <= m_ts m.
Proof.
  intros s t2 y o my s' x kx s'' o' m s''' R Hk Ld A Sts Ld'.
  assert (R1 : reachable s') by (eapply reach_step; eassumption).
  eapply cur_bounds_loads; [exact R1| |exact Sts|exact Ld'].
  pose proof (acquire_load_view _ _ _ _ _ _ Ld A x). lia.
Qed.

(** the view of a release store's message includes the storing thread's cur *)
Lemma release_store_view : forall s t1 y o v s',
  reachable s -> step s t1 (LStore y o v) s' -> is_rel o = true ->
  forall l, cur (threads s t1) l <= m_view (last_msg (memory s' y)) l.
Proof.
  intros s t1 y o v s' R St A l. apply wf_reachable in R.
  apply step_store_inv in St. subst. unfold do_store.
  fold (new_msg vbot s t1 y o v). rewrite new_msg_view, A.
  pose proof (read_view_ge_cur s t1 o l). pose proof (wf_read_view s t1 o y R).
  unfold upd. destruct (Nat.eqb_spec l y) as [->|]; lia.
Qed.

Lemma release_rmw_view : forall s t1 y o v s',
  reachable s -> step s t1 (LRmw y o v) s' -> is_rel o = true ->
  forall l, cur (threads s t1) l <= m_view (last_msg (memory s' y)) l.
Proof.
  intros s t1 y o v s' R St A l. apply wf_reachable in R.
  apply step_rmw_inv in St. subst. unfold do_rmw.
  set (mr := last_msg (memory s y)). set (s1 := do_load s t1 y o mr).
  fold (new_msg (m_view mr) s1 t1 y o v). rewrite new_msg_view, A.
  assert (W1 : wf s1) by (apply wf_do_load; [assumption|now apply wf_last_in]).
  pose proof (mono_cur _ _ (mono_do_load s t1 y o mr) t1 l).
  pose proof (read_view_ge_cur s1 t1 o l). pose proof (wf_read_view s1 t1 o y W1).
  fold s1 in H.
  unfold upd. destruct (Nat.eqb_spec l y) as [->|]; lia.
Qed.

(** the last message after a store is the new one *)
Lemma store_last_msg : forall s t l o v s',
  step s t (LStore l o v) s' ->
  In (last_msg (memory s' l)) (memory s' l) /\
  m_ts (last_msg (memory s' l)) = S (last_ts (memory s l)) /\
  m_val (last_msg (memory s' l)) = v.
Proof.
  intros. destruct (store_new_message _ _ _ _ _ _ H) as (mk & E & Hts & Hv & _).
  rewrite E, last_msg_app. split; [|split; assumption].
  apply in_or_app; right; now left.
Qed.

(** item 5, end to end (the MP litmus test):
    t1: x :=ox vx ; ... ; y :=rel vy      t2: r1 := y.load(acq) reading t1's message ; ... ; r2 := x.load
    then r2 does not read a message older than t1's store to x *)
Theorem message_passing_litmus :
  forall s0 t1 x ox vx s1 s2 y oy vy s3 s4 t2 o my s5 s6 o' m s7,
  reachable s0 ->
  step s0 t1 (LStore x ox vx) s1 -> steps s1 s2 ->
  step s2 t1 (LStore y oy vy) s3 -> is_rel oy = true -> steps s3 s4 ->
  step s4 t2 (LLoad y o my) s5 -> is_acq o = true ->
  m_ts my = S (last_ts (memory s2 y)) ->
  steps s5 s6 -> step s6 t2 (LLoad x o' m) s7 ->
  S (last_ts (memory s0 x)) <= m_ts m.
Proof.
  intros s0 t1 x ox vx s1 s2 y oy vy s3 s4 t2 o my s5 s6 o' m s7
         R0 Sx S12 Sy Arel S34 Ly Aacq Hts S56 Lx.
  assert (R1 : reachable s1) by (eapply reach_step; eassumption).
  assert (R2 : reachable s2) by (eapply reachable_steps; eassumption).
  assert (R3 : reachable s3) by (eapply reach_step; eassumption).
  assert (R4 : reachable s4) by (eapply reachable_steps; eassumption).
  pose proof (store_cur_forever _ _ _ _ _ _ _ R0 Sx S12) as Kx.
  pose proof (release_store_view _ _ _ _ _ _ R2 Sy Arel x) as V.
  destruct (store_last_msg _ _ _ _ _ _ Sy) as (In3 & Ts3 & _).
  pose proof (mono_mem _ _ (view_monotone_full s3 s4 R3 S34) y _ In3) as In4.
  pose proof (step_load_inv _ _ _ _ _ _ Ly) as [[Inmy _] _].
  assert (E : my = last_msg (memory s3 y)).
  { apply (msg_unique_ts s4 y); [exact R4|assumption|assumption|lia]. }
  eapply message_passing_loads; [exact R4| |exact Ly|exact Aacq|exact S56|exact Lx].
  rewrite E. lia.
Qed.

(** ** 9. The SC interleaving semantics is included in the weak one *)

Lemma can_read_last : forall s t l o,
  wf s -> can_read s t l o (last_msg (memory s l)).
Proof.
  intros s t l o W. split; [now apply wf_last_in|]. now apply wf_read_view.
Qed.

Theorem sc_refines : forall s t lab s',
  reachable s -> sc_step s t lab s' -> step s t lab s'.
Proof.
  intros s t lab s' R H. apply wf_reachable in R.
  inversion H; subst; constructor. apply can_read_last; assumption.
Qed.

Theorem sc_reachable_reachable : forall s, sc_reachable s -> reachable s.
Proof.
  induction 1; [constructor|].
  apply (reach_step s t lab s'); [assumption|]. apply sc_refines; assumption.
Qed.

(** safety properties of all weak executions hold for all SC executions *)
Corollary sc_safety : forall (P : state -> Prop),
  (forall s, reachable s -> P s) -> forall s, sc_reachable s -> P s.
Proof. intros P H s R. apply H. now apply sc_reachable_reachable. Qed.

(** an RMW is always enabled in the weak semantics too: it reads the last message,
    which every thread is allowed to read *)
Lemma rmw_load_enabled : forall s t l o,
  reachable s -> can_read s t l o (last_msg (memory s l)).
Proof. intros. apply can_read_last. now apply wf_reachable. Qed.

(** ** 6. Message passing through fences *)

Lemma fence_rel_snapshot : forall s t o s',
  step s t (LFence o) s' -> is_rel o = true ->
  forall l, cur (threads s t) l <= rel (threads s' t) l.
Proof.
  intros s t o s' F A l. apply step_fence_inv in F. subst.
  pose proof (cur_do_fence_ge s t o l) as G.
  simpl in *. rewrite upd_thr_same in *. simpl in *. rewrite A. exact G.
Qed.

Lemma fence_acq_join : forall s t o s',
  step s t (LFence o) s' -> is_acq o = true ->
  forall l, acq (threads s t) l <= cur (threads s' t) l.
Proof.
  intros s t o s' F A l. apply step_fence_inv in F. subst.
  rewrite cur_do_fence, A. etransitivity; [|apply sc_pre_ge]. apply vjoin_r.
Qed.

(** every store's message carries at least the thread's [rel] view *)
Lemma store_view_ge_rel : forall s t y o v s',
  reachable s -> step s t (LStore y o v) s' ->
  forall l, rel (threads s t) l <= m_view (last_msg (memory s' y)) l.
Proof.
  intros s t y o v s' R St l. apply wf_reachable in R.
  apply step_store_inv in St. subst. unfold do_store.
  fold (new_msg vbot s t y o v). rewrite new_msg_view.
  pose proof (wf_rel s R t l). pose proof (wf_rel s R t y).
  pose proof (read_view_ge_cur s t o l). pose proof (wf_read_view s t o y R).
  unfold upd. destruct (is_rel o); destruct (Nat.eqb_spec l y) as [->|]; lia.
Qed.

(** a relaxed load remembers the message view in [acq] *)
Lemma relaxed_load_view : forall s t y o my s',
  step s t (LLoad y o my) s' ->
  forall l, m_view my l <= Nat.max (cur (threads s' t) l) (acq (threads s' t) l).
Proof.
  intros s t y o my s' Ld l. apply step_load_inv in Ld. destruct Ld as [_ ->].
  rewrite cur_do_load. simpl. rewrite upd_thr_same. simpl.
  destruct (is_acq o); unfold vjoin; lia.
Qed.

(** receiver side, state form *)
Theorem message_passing_fences_recv : forall s t2 y o my s1 s2 fo s3 x kx,
  reachable s -> kx <= m_view my x ->
  step s t2 (LLoad y o my) s1 -> steps s1 s2 ->
  step s2 t2 (LFence fo) s3 -> is_acq fo = true ->
  kx <= cur (threads s3 t2) x.
Proof.
  intros s t2 y o my s1 s2 fo s3 x kx R Hk Ld Sts F A.
  assert (R1 : reachable s1) by (eapply reach_step; eassumption).
  assert (R2 : reachable s2) by (eapply reachable_steps; eassumption).
  pose proof (relaxed_load_view _ _ _ _ _ _ Ld x) as V.
  pose proof (view_monotone_full s1 s2 R1 Sts) as M.
  pose proof (mono_cur _ _ M t2 x). pose proof (mono_acq _ _ M t2 x).
  pose proof (fence_acq_join _ _ _ _ F A x).
  pose proof (mono_cur _ _ (mono_step _ _ _ _ (wf_reachable _ R2) F) t2 x).
  lia.
Qed.

(** sender side, state form *)
Theorem message_passing_fences_send : forall s t1 fo s1 s2 y oy vy s3 x kx,
  reachable s -> kx <= cur (threads s t1) x ->
  step s t1 (LFence fo) s1 -> is_rel fo = true -> steps s1 s2 ->
  step s2 t1 (LStore y oy vy) s3 ->
  kx <= m_view (last_msg (memory s3 y)) x.
Proof.
  intros s t1 fo s1 s2 y oy vy s3 x kx R Hk F A Sts St.
  assert (R1 : reachable s1) by (eapply reach_step; eassumption).
  assert (R2 : reachable s2) by (eapply reachable_steps; eassumption).
  pose proof (fence_rel_snapshot _ _ _ _ F A x).
  pose proof (mono_rel _ _ (view_monotone_full s1 s2 R1 Sts) t1 x).
  pose proof (store_view_ge_rel _ _ _ _ _ _ R2 St x). lia.
Qed.

(** item 6, end to end:
    t1: x := vx ; fence(rel) ; y :=rlx vy     t2: r1 := y.load(rlx) reading t1's message ; fence(acq) ; r2 := x.load *)
Theorem message_passing_fences :
  forall s0 t1 x ox vx s1 s2 f1 s3 s4 y oy vy s5 s6 t2 o my s7 s8 f2 s9,
  reachable s0 ->
  step s0 t1 (LStore x ox vx) s1 -> steps s1 s2 ->
  step s2 t1 (LFence f1) s3 -> is_rel f1 = true -> steps s3 s4 ->
  step s4 t1 (LStore y oy vy) s5 -> steps s5 s6 ->
  step s6 t2 (LLoad y o my) s7 -> m_ts my = S (last_ts (memory s4 y)) -> steps s7 s8 ->
  step s8 t2 (LFence f2) s9 -> is_acq f2 = true ->
  S (last_ts (memory s0 x)) <= cur (threads s9 t2) x.
Proof.
  intros s0 t1 x ox vx s1 s2 f1 s3 s4 y oy vy s5 s6 t2 o my s7 s8 f2 s9
         R0 Sx S12 F1 A1 S34 Sy S56 Ly Hts S78 F2 A2.
  assert (R1 : reachable s1) by (eapply reach_step; eassumption).
  assert (R2 : reachable s2) by (eapply reachable_steps; eassumption).
  assert (R3 : reachable s3) by (eapply reach_step; eassumption).
  assert (R4 : reachable s4) by (eapply reachable_steps; eassumption).
  assert (R5 : reachable s5) by (eapply reach_step; eassumption).
  assert (R6 : reachable s6) by (eapply reachable_steps; eassumption).
  pose proof (store_cur_forever _ _ _ _ _ _ _ R0 Sx S12) as Kx.
  pose proof (message_passing_fences_send _ _ _ _ _ _ _ _ _ _ _ R2 Kx F1 A1 S34 Sy) as V.
  destruct (store_last_msg _ _ _ _ _ _ Sy) as (In5 & Ts5 & _).
  pose proof (mono_mem _ _ (view_monotone_full s5 s6 R5 S56) y _ In5) as In6.
  pose proof (step_load_inv _ _ _ _ _ _ Ly) as [[Inmy _] _].
  assert (E : my = last_msg (memory s5 y)).
  { apply (msg_unique_ts s6 y); [exact R6|assumption|assumption|lia]. }
  eapply message_passing_fences_recv; [exact R6| |exact Ly|exact S78|exact F2|exact A2].
  rewrite E. exact V.
Qed.

Corollary message_passing_fences_loads :
  forall s0 t1 x ox vx s1 s2 f1 s3 s4 y oy vy s5 s6 t2 o my s7 s8 f2 s9 s10 o' m s11,
  reachable s0 ->
  step s0 t1 (LStore x ox vx) s1 -> steps s1 s2 ->
  step s2 t1 (LFence f1) s3 -> is_rel f1 = true -> steps s3 s4 ->
  step s4 t1 (LStore y oy vy) s5 -> steps s5 s6 ->
  step s6 t2 (LLoad y o my) s7 -> m_ts my = S (last_ts (memory s4 y)) -> steps s7 s8 ->
  step s8 t2 (LFence f2) s9 -> is_acq f2 = true ->
  steps s9 s10 -> step s10 t2 (LLoad x o' m) s11 ->
  S (last_ts (memory s0 x)) <= m_ts m.
Proof.
  intros s0 t1 x ox vx s1 s2 f1 s3 s4 y oy vy s5 s6 t2 o my s7 s8 f2 s9 s10 o' m s11
         R0 Sx S12 F1 A1 S34 Sy S56 Ly Hts S78 F2 A2 S910 Lx.
  pose proof (message_passing_fences _ _ _ _ _ _ _ _ _ _ _ _ _ _ _ _ _ _ _ _ _ _
                R0 Sx S12 F1 A1 S34 Sy S56 Ly Hts S78 F2 A2) as K.
  assert (R9 : reachable s9).
  { eapply reach_step; [|exact F2]. eapply reachable_steps; [|exact S78].
    eapply reach_step; [|exact Ly]. eapply reachable_steps; [|exact S56].
    eapply reach_step; [|exact Sy]. eapply reachable_steps; [|exact S34].
    eapply reach_step; [|exact F1]. eapply reachable_steps; [|exact S12].
    eapply reach_step; [exact R0|exact Sx]. }
  eapply cur_bounds_loads; [exact R9|exact K|exact S910|exact Lx].
Qed.

(** ** 8. Store buffering with SC fences *)

Lemma sc_fence_views : forall s t s',
  step s t (LFence SC) s' ->
  forall l, cur (threads s t) l <= cur (threads s' t) l /\
            scview s l <= cur (threads s' t) l /\
            scview s' l = cur (threads s' t) l.
Proof.
  intros s t s' F l. apply step_fence_inv in F. subst.
  split; [apply cur_do_fence_ge|]. split.
  - rewrite cur_do_fence. apply sc_pre_sc.
  - rewrite scview_do_fence. reflexivity.
Qed.

(** if t1's SC fence is executed before t2's SC fence, then after its fence t2
    sees everything t1 saw before its fence *)
Lemma sb_ordered : forall sa t1 sa' sb t2 sb' x kx,
  reachable sa -> kx <= cur (threads sa t1) x ->
  step sa t1 (LFence SC) sa' -> steps sa' sb -> step sb t2 (LFence SC) sb' ->
  kx <= cur (threads sb' t2) x.
Proof.
  intros sa t1 sa' sb t2 sb' x kx R Hk F1 Sts F2.
  assert (R1 : reachable sa') by (eapply reach_step; eassumption).
  destruct (sc_fence_views _ _ _ F1 x) as (A1 & _ & A3).
  destruct (sc_fence_views _ _ _ F2 x) as (_ & B2 & _).
  pose proof (mono_sc _ _ (view_monotone_full sa' sb R1 Sts) x). lia.
Qed.

(** *** traces *)

Lemma run_app : forall a b s, run s (a ++ b) = run (run s a) b.
Proof. induction a as [|[t lab] a IH]; intros; simpl; [reflexivity|apply IH]. Qed.

Lemma valid_app : forall a b s, valid s (a ++ b) <-> valid s a /\ valid (run s a) b.
Proof.
  induction a as [|[t lab] a IH]; intros; simpl; [tauto|]. rewrite IH. tauto.
Qed.

Lemma valid_steps : forall tr s, valid s tr -> steps s (run s tr).
Proof.
  induction tr as [|[t lab] tr IH]; intros s V; simpl; [apply steps_refl|].
  destruct V as [E V]. apply (steps_cons s t lab (apply s t lab)); [|apply IH; exact V].
  apply step_apply. split; [assumption|reflexivity].
Qed.

Lemma valid_firstn : forall tr s n, valid s tr -> valid s (firstn n tr).
Proof.
  intros tr s n V. rewrite <- (firstn_skipn n tr) in V. apply valid_app in V. tauto.
Qed.

Lemma valid_skipn : forall tr s n, valid s tr -> valid (state_at s tr n) (skipn n tr).
Proof.
  intros tr s n V. rewrite <- (firstn_skipn n tr) in V. apply valid_app in V.
  unfold state_at. tauto.
Qed.

Lemma state_at_0 : forall s tr, state_at s tr 0 = s.
Proof. reflexivity. Qed.

Lemma state_at_cons : forall s t lab tr n,
  state_at s ((t, lab) :: tr) (S n) = state_at (apply s t lab) tr n.
Proof. reflexivity. Qed.

Lemma state_at_end : forall s tr, state_at s tr (length tr) = run s tr.
Proof. intros. unfold state_at. now rewrite firstn_all. Qed.

Lemma state_at_steps : forall tr s i j,
  valid s tr -> i <= j -> steps (state_at s tr i) (state_at s tr j).
Proof.
  induction tr as [|[t lab] tr IH]; intros s i j V Hij.
  - unfold state_at. rewrite !firstn_nil. apply steps_refl.
  - destruct i as [|i].
    + rewrite state_at_0. unfold state_at. apply valid_steps. now apply valid_firstn.
    + destruct j as [|j]; [lia|]. rewrite !state_at_cons.
      destruct V as [_ V]. apply IH; [assumption|lia].
Qed.

Lemma state_at_step : forall tr s i t lab,
  valid s tr -> nth_error tr i = Some (t, lab) ->
  step (state_at s tr i) t lab (state_at s tr (S i)).
Proof.
  induction tr as [|[t0 lab0] tr IH]; intros s i t lab V Hn.
  - destruct i; discriminate.
  - destruct i as [|i].
    + simpl in Hn. inversion Hn; subst. destruct V as [E _].
      rewrite state_at_0. unfold state_at. simpl.
      apply step_apply. split; [assumption|reflexivity].
    + simpl in Hn. destruct V as [_ V]. rewrite !state_at_cons. now apply IH.
Qed.

Lemma state_at_reachable : forall s tr i,
  reachable s -> valid s tr -> reachable (state_at s tr i).
Proof.
  intros s tr i R V. eapply reachable_steps; [exact R|].
  rewrite <- (state_at_0 s tr) at 1. apply state_at_steps; [assumption|lia].
Qed.

Lemma state_at_mono : forall s tr i j,
  reachable s -> valid s tr -> i <= j -> mono (state_at s tr i) (state_at s tr j).
Proof.
  intros. apply view_monotone_full.
  - now apply state_at_reachable.
  - now apply state_at_steps.
Qed.

(** after position i of a store by t to x, cur t x >= its timestamp *)
Lemma trace_store_cur : forall s tr i t x o v n,
  reachable s -> valid s tr -> nth_error tr i = Some (t, LStore x o v) -> i < n ->
  S (last_ts (memory (state_at s tr i) x)) <= cur (threads (state_at s tr n) t) x.
Proof.
  intros s tr i t x o v n R V Hn Hlt.
  pose proof (state_at_step _ _ _ _ _ V Hn) as St.
  eapply store_cur_forever; [now apply state_at_reachable|exact St|].
  apply state_at_steps; [assumption|lia].
Qed.

(** a load at position r by t of x reads at least cur t x of any earlier position *)
Lemma trace_load_bound : forall s tr n r t x o m k,
  reachable s -> valid s tr -> nth_error tr r = Some (t, LLoad x o m) -> n <= r ->
  k <= cur (threads (state_at s tr n) t) x -> k <= m_ts m.
Proof.
  intros s tr n r t x o m k R V Hn Hle Hk.
  pose proof (state_at_step _ _ _ _ _ V Hn) as Ld.
  eapply cur_bounds_loads; [apply (state_at_reachable s tr n R V)|exact Hk| |exact Ld].
  now apply state_at_steps.
Qed.

Lemma sb_ordered_trace : forall s tr t1 t2 x o1 v1 i1 j1 j2 n,
  reachable s -> valid s tr ->
  nth_error tr i1 = Some (t1, LStore x o1 v1) ->
  nth_error tr j1 = Some (t1, LFence SC) -> i1 < j1 ->
  nth_error tr j2 = Some (t2, LFence SC) -> j1 <= j2 -> j2 < n ->
  S (last_ts (memory (state_at s tr i1) x)) <= cur (threads (state_at s tr n) t2) x.
Proof.
  intros s tr t1 t2 x o1 v1 i1 j1 j2 n R V Hs Hf1 Hlt Hf2 Hle Hn.
  destruct (Nat.eq_dec j1 j2) as [E|NE].
  - subst j2. rewrite Hf1 in Hf2. inversion Hf2; subst t2.
    eapply trace_store_cur; [assumption|assumption|exact Hs|lia].
  - pose proof (trace_store_cur s tr i1 t1 x o1 v1 j1 R V Hs Hlt) as K.
    pose proof (state_at_step _ _ _ _ _ V Hf1) as F1.
    pose proof (state_at_step _ _ _ _ _ V Hf2) as F2.
    assert (Sts : steps (state_at s tr (S j1)) (state_at s tr j2))
      by (apply state_at_steps; [assumption|lia]).
    pose proof (sb_ordered _ _ _ _ _ _ _ _ (state_at_reachable s tr j1 R V) K F1 Sts F2) as K2.
    pose proof (mono_cur _ _ (state_at_mono s tr (S j2) n R V Hn) t2 x). lia.
Qed.

(** item 8 on states: after both fences, one of the threads sees the other's store *)
Theorem store_buffering_sc_fences :
  forall s tr t1 t2 x y o1 v1 o2 v2 i1 j1 i2 j2 n,
  reachable s -> valid s tr ->
  nth_error tr i1 = Some (t1, LStore x o1 v1) ->
  nth_error tr j1 = Some (t1, LFence SC) -> i1 < j1 ->
  nth_error tr i2 = Some (t2, LStore y o2 v2) ->
  nth_error tr j2 = Some (t2, LFence SC) -> i2 < j2 ->
  j1 < n -> j2 < n ->
  S (last_ts (memory (state_at s tr i2) y)) <= cur (threads (state_at s tr n) t1) y \/
  S (last_ts (memory (state_at s tr i1) x)) <= cur (threads (state_at s tr n) t2) x.
Proof.
  intros s tr t1 t2 x y o1 v1 o2 v2 i1 j1 i2 j2 n R V Hs1 Hf1 L1 Hs2 Hf2 L2 N1 N2.
  destruct (Nat.le_ge_cases j1 j2) as [Hle|Hle].
  - right. eapply sb_ordered_trace; eassumption.
  - left. eapply sb_ordered_trace; eassumption.
Qed.

(** item 8, the SB litmus test: not both loads read a message older than the
    other thread's store *)
Theorem store_buffering_sc_fences_loads :
  forall s tr t1 t2 x y o1 v1 o2 v2 i1 j1 r1 ol1 m1 i2 j2 r2 ol2 m2,
  reachable s -> valid s tr ->
  nth_error tr i1 = Some (t1, LStore x o1 v1) ->
  nth_error tr j1 = Some (t1, LFence SC) -> i1 < j1 ->
  nth_error tr r1 = Some (t1, LLoad y ol1 m1) -> j1 < r1 ->
  nth_error tr i2 = Some (t2, LStore y o2 v2) ->
  nth_error tr j2 = Some (t2, LFence SC) -> i2 < j2 ->
  nth_error tr r2 = Some (t2, LLoad x ol2 m2) -> j2 < r2 ->
  S (last_ts (memory (state_at s tr i2) y)) <= m_ts m1 \/
  S (last_ts (memory (state_at s tr i1) x)) <= m_ts m2.
Proof.
  intros s tr t1 t2 x y o1 v1 o2 v2 i1 j1 r1 ol1 m1 i2 j2 r2 ol2 m2
         R V Hs1 Hf1 L1 Hl1 Lr1 Hs2 Hf2 L2 Hl2 Lr2.
  destruct (Nat.le_ge_cases j1 j2) as [Hle|Hle].
  - right. eapply (trace_load_bound s tr r2 r2); [assumption|assumption|exact Hl2|lia|].
    eapply sb_ordered_trace; eassumption.
  - left. eapply (trace_load_bound s tr r1 r1); [assumption|assumption|exact Hl1|lia|].
    eapply sb_ordered_trace; eassumption.
Qed.

(** ** 10. SC accesses are totally ordered *)

Lemma sc_store_scview : forall s t x v s',
  step s t (LStore x SC v) s' -> scview s' x = S (last_ts (memory s x)).
Proof.
  intros. apply step_store_inv in H. subst. unfold do_store.
  rewrite scview_store. unfold sc_post. change (is_sc SC) with true. cbv iota.
  apply cur_store_ts.
Qed.

Theorem sc_accesses_total_order : forall s t1 x v s1 s2 t2 m s3,
  reachable s ->
  step s t1 (LStore x SC v) s1 -> steps s1 s2 -> step s2 t2 (LLoad x SC m) s3 ->
  S (last_ts (memory s x)) <= m_ts m.
Proof.
  intros s t1 x v s1 s2 t2 m s3 R St Sts Ld.
  assert (R1 : reachable s1) by (eapply reach_step; eassumption).
  pose proof (sc_store_scview _ _ _ _ _ St) as E.
  pose proof (mono_sc _ _ (view_monotone_full s1 s2 R1 Sts) x) as M.
  apply step_load_inv in Ld. destruct Ld as [[_ Hle] _].
  pose proof (read_view_ge_sc s2 t2 SC x eq_refl). lia.
Qed.

(** the same for an SC RMW as the writer *)
Theorem sc_accesses_total_order_rmw : forall s t1 x v s1 s2 t2 m s3,
  reachable s ->
  step s t1 (LRmw x SC v) s1 -> steps s1 s2 -> step s2 t2 (LLoad x SC m) s3 ->
  S (last_ts (memory s x)) <= m_ts m.
Proof.
  intros s t1 x v s1 s2 t2 m s3 R St Sts Ld.
  assert (R1 : reachable s1) by (eapply reach_step; eassumption).
  assert (E : scview s1 x = S (last_ts (memory s x))).
  { apply step_rmw_inv in St. subst. unfold do_rmw.
    rewrite scview_store. unfold sc_post. change (is_sc SC) with true. cbv iota.
    rewrite cur_store_ts. reflexivity. }
  pose proof (mono_sc _ _ (view_monotone_full s1 s2 R1 Sts) x) as M.
  apply step_load_inv in Ld. destruct Ld as [[_ Hle] _].
  pose proof (read_view_ge_sc s2 t2 SC x eq_refl). lia.
Qed.

(** ** 7. Release sequences *)

(** an RMW's message carries the view of the message it read *)
Lemma rmw_view_ge_read : forall s t y o v,
  forall l, m_view (last_msg (memory s y)) l <=
            m_view (last_msg (memory (do_rmw s t y o v) y)) l.
Proof.
  intros. unfold do_rmw.
  set (mr := last_msg (memory s y)). set (s1 := do_load s t y o mr).
  fold (new_msg (m_view mr) s1 t y o v). rewrite new_msg_view. lia.
Qed.

Lemma rs_from_reachable : forall y my s m, rs_from y my s m -> reachable s.
Proof.
  induction 1; [assumption| |].
  - eapply reach_step; [eassumption|apply step_rmw].
  - eapply reach_step; eassumption.
Qed.

Theorem release_sequence : forall y my s m',
  rs_from y my s m' ->
  In m' (memory s y) /\ forall l, m_view my l <= m_view m' l.
Proof.
  induction 1.
  - split; [assumption|intros; lia].
  - destruct IHrs_from as [_ IH]. split.
    + apply last_msg_in. unfold do_rmw. rewrite memory_store_same.
      intros Hc. apply app_eq_nil in Hc. destruct Hc; discriminate.
    + intros l. etransitivity; [apply IH|apply rmw_view_ge_read].
  - destruct IHrs_from as [Hin IH]. split; [|assumption].
    apply rs_from_reachable in H.
    apply (mono_mem _ _ (mono_step _ _ _ _ (wf_reachable _ H) H0)). assumption.
Qed.

(** hence an acquire load of any message of the release sequence synchronises
    with the writer of its head *)
Corollary release_sequence_mp : forall y my s m' t2 o s' x kx,
  rs_from y my s m' -> kx <= m_view my x ->
  step s t2 (LLoad y o m') s' -> is_acq o = true ->
  kx <= cur (threads s' t2) x.
Proof.
  intros y my s m' t2 o s' x kx RS Hk Ld A.
  destruct (release_sequence _ _ _ _ RS) as [_ V].
  pose proof (acquire_load_view _ _ _ _ _ _ Ld A x). specialize (V x). lia.
Qed.

(** ** Sanity: the machine really is weak (the guarantees above are not vacuous)

    Locations x = 0, y = 1; threads 1 and 2. *)

(** store buffering WITHOUT fences: both loads may read the initial messages *)
Example sb_relaxed_allowed :
  valid init [ (1, LStore 0 Rlx 1%N); (2, LStore 1 Rlx 1%N);
               (1, LLoad 1 Rlx init_msg); (2, LLoad 0 Rlx init_msg) ].
Proof.
  simpl. unfold can_read. simpl. repeat split; auto.
Qed.

(** ... even with release stores and acquire loads *)
Example sb_relacq_allowed :
  valid init [ (1, LStore 0 Rel 1%N); (2, LStore 1 Rel 1%N);
               (1, LLoad 1 Acq init_msg); (2, LLoad 0 Acq init_msg) ].
Proof.
  simpl. unfold can_read. simpl. repeat split; auto.
Qed.

(** message passing with a RELAXED load of the flag: the stale x may be read *)
Example mp_relaxed_allowed :
  let s2 := run init [ (1, LStore 0 Rlx 1%N); (1, LStore 1 Rel 1%N) ] in
  valid s2 [ (2, LLoad 1 Rlx (last_msg (memory s2 1))); (2, LLoad 0 Rlx init_msg) ] /\
  m_val (last_msg (memory s2 1)) = 1%N.
Proof.
  simpl. unfold can_read. simpl. repeat split; auto.
Qed.

(** ... but not with an acquire load (instance of [message_passing]) *)
Example mp_acquire_forbidden :
  let s2 := run init [ (1, LStore 0 Rlx 1%N); (1, LStore 1 Rel 1%N) ] in
  ~ valid s2 [ (2, LLoad 1 Acq (last_msg (memory s2 1))); (2, LLoad 0 Rlx init_msg) ].
Proof.
  simpl. unfold can_read. simpl. intros (_ & (_ & H) & _).
  vm_compute in H. lia.
Qed.
