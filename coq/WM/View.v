(** * WM.View : a view-based operational weak-memory machine (property C03)

    Release/acquire + fences + seq_cst.  The machine generates a subset of the
    RC11-consistent executions: there is no load buffering (a thread only reads
    messages that already exist) and the modification order of a location is
    the order in which the stores are executed (a store always appends).

    This file contains DEFINITIONS ONLY (all of them executable, except the
    step relations which are thin wrappers around the executable functions).
    The theorems are in WM/ViewLemmas.v. *)

Require Import List NArith Arith Bool.
Import ListNotations.

(** ** Basic types *)

Definition loc := nat.
Definition val := N.
Definition ts  := nat.
Definition tid := nat.

Inductive ord := Rlx | Acq | Rel | AcqRel | SC.

Definition is_acq (o : ord) : bool :=
  match o with Acq | AcqRel | SC => true | _ => false end.
Definition is_rel (o : ord) : bool :=
  match o with Rel | AcqRel | SC => true | _ => false end.
Definition is_sc (o : ord) : bool :=
  match o with SC => true | _ => false end.

(** ** Views *)

Definition view := loc -> ts.

Definition vbot : view := fun _ => 0.
Definition vjoin (v1 v2 : view) : view := fun l => Nat.max (v1 l) (v2 l).
Definition vle (v1 v2 : view) : Prop := forall l, v1 l <= v2 l.
Definition upd (v : view) (l : loc) (k : ts) : view :=
  fun l' => if Nat.eqb l' l then k else v l'.

(** ** Messages and memory *)

Record msg := { m_val : val; m_ts : ts; m_view : view }.

Definition mem := loc -> list msg.

Definition init_msg : msg := {| m_val := 0%N; m_ts := 0; m_view := vbot |}.

(** last message / last timestamp of a (non-empty) message list *)
Definition last_msg (ms : list msg) : msg := last ms init_msg.
Definition last_ts (ms : list msg) : ts := m_ts (last_msg ms).

Definition upd_mem (mm : mem) (l : loc) (ms : list msg) : mem :=
  fun l' => if Nat.eqb l' l then ms else mm l'.

(** ** Thread and global state *)

Record tstate := { cur : view; acq : view; rel : view }.

Record state := { memory : mem; threads : tid -> tstate; scview : view }.

Definition upd_thr (th : tid -> tstate) (t : tid) (x : tstate) : tid -> tstate :=
  fun t' => if Nat.eqb t' t then x else th t'.

Definition init_tstate : tstate := {| cur := vbot; acq := vbot; rel := vbot |}.

Definition init : state :=
  {| memory := fun _ => [init_msg];
     threads := fun _ => init_tstate;
     scview := vbot |}.

(** ** Labels *)

Inductive label :=
| LLoad  (l : loc) (o : ord) (m : msg)      (* read message m of l *)
| LStore (l : loc) (o : ord) (v : val)
| LRmw   (l : loc) (o : ord) (vnew : val)   (* reads the last message of l *)
| LFence (o : ord).

(** ** Executable transition functions *)

(** seq_cst accesses/fences first join the global SC view into cur ... *)
Definition sc_pre (o : ord) (sc c : view) : view :=
  if is_sc o then vjoin c sc else c.
(** ... and afterwards publish cur as the new global SC view *)
Definition sc_post (o : ord) (sc c : view) : view :=
  if is_sc o then c else sc.

(** the view with which thread t, doing an access of order o, looks at memory *)
Definition read_view (s : state) (t : tid) (o : ord) : view :=
  sc_pre o (scview s) (cur (threads s t)).

(** enabling condition of a load *)
Definition can_read (s : state) (t : tid) (l : loc) (o : ord) (m : msg) : Prop :=
  In m (memory s l) /\ read_view s t o l <= m_ts m.

Definition do_load (s : state) (t : tid) (l : loc) (o : ord) (m : msg) : state :=
  let T  := threads s t in
  let c0 := read_view s t o in
  let c1 := upd c0 l (Nat.max (c0 l) (m_ts m)) in
  let c2 := if is_acq o then vjoin c1 (m_view m) else c1 in
  let a2 := if is_acq o then acq T else vjoin (acq T) (m_view m) in
  {| memory  := memory s;
     threads := upd_thr (threads s) t {| cur := c2; acq := a2; rel := rel T |};
     scview  := sc_post o (scview s) c2 |}.

(** store whose message view additionally joins [extra]
    ([vbot] for a plain store, the view of the read message for an RMW) *)
Definition do_store_with (extra : view)
           (s : state) (t : tid) (l : loc) (o : ord) (v : val) : state :=
  let T  := threads s t in
  let c0 := read_view s t o in
  let k  := S (last_ts (memory s l)) in
  let c1 := upd c0 l k in
  let r1 := upd (rel T) l k in
  let mv := vjoin (if is_rel o then c1 else r1) extra in
  let m  := {| m_val := v; m_ts := k; m_view := mv |} in
  {| memory  := upd_mem (memory s) l (memory s l ++ [m]);
     threads := upd_thr (threads s) t {| cur := c1; acq := acq T; rel := rel T |};
     scview  := sc_post o (scview s) c1 |}.

Definition do_store : state -> tid -> loc -> ord -> val -> state :=
  do_store_with vbot.

Definition do_rmw (s : state) (t : tid) (l : loc) (o : ord) (vnew : val) : state :=
  let m := last_msg (memory s l) in
  do_store_with (m_view m) (do_load s t l o m) t l o vnew.

Definition do_fence (s : state) (t : tid) (o : ord) : state :=
  let T  := threads s t in
  let c1 := if is_acq o then vjoin (cur T) (acq T) else cur T in
  let c2 := sc_pre o (scview s) c1 in
  let r2 := if is_rel o then c2 else rel T in
  {| memory  := memory s;
     threads := upd_thr (threads s) t {| cur := c2; acq := acq T; rel := r2 |};
     scview  := sc_post o (scview s) c2 |}.

(** the (deterministic, given the label) effect of a label *)
Definition apply (s : state) (t : tid) (lab : label) : state :=
  match lab with
  | LLoad l o m  => do_load s t l o m
  | LStore l o v => do_store s t l o v
  | LRmw l o v   => do_rmw s t l o v
  | LFence o     => do_fence s t o
  end.

Definition enabled (s : state) (t : tid) (lab : label) : Prop :=
  match lab with
  | LLoad l o m => can_read s t l o m
  | _ => True
  end.

(** executable load: the read choice is the index [i] of the message in the
    modification order of [l] *)
Definition exec_load (s : state) (t : tid) (l : loc) (o : ord) (i : nat)
  : option (msg * state) :=
  match nth_error (memory s l) i with
  | Some m => if Nat.leb (read_view s t o l) (m_ts m)
              then Some (m, do_load s t l o m) else None
  | None => None
  end.

(** the value returned by an RMW / the value of the message a load reads *)
Definition rmw_reads (s : state) (l : loc) : msg := last_msg (memory s l).

(** ** The weak step relation *)

Inductive step : state -> tid -> label -> state -> Prop :=
| step_load  : forall s t l o m,
    can_read s t l o m -> step s t (LLoad l o m) (do_load s t l o m)
| step_store : forall s t l o v,
    step s t (LStore l o v) (do_store s t l o v)
| step_rmw   : forall s t l o v,
    step s t (LRmw l o v) (do_rmw s t l o v)
| step_fence : forall s t o,
    step s t (LFence o) (do_fence s t o).

Inductive reachable : state -> Prop :=
| reach_init : reachable init
| reach_step : forall s t lab s', reachable s -> step s t lab s' -> reachable s'.

(** reflexive-transitive closure (any threads, any labels) *)
Inductive steps : state -> state -> Prop :=
| steps_refl : forall s, steps s s
| steps_cons : forall s t lab s' s'', step s t lab s' -> steps s' s'' -> steps s s''.

(** ** Traces (executable): run a list of events, validity of a trace *)

Definition event := (tid * label)%type.

Fixpoint run (s : state) (tr : list event) : state :=
  match tr with
  | [] => s
  | (t, lab) :: tr' => run (apply s t lab) tr'
  end.

Fixpoint valid (s : state) (tr : list event) : Prop :=
  match tr with
  | [] => True
  | (t, lab) :: tr' => enabled s t lab /\ valid (apply s t lab) tr'
  end.

(** state after the first [i] events of a trace *)
Definition state_at (s : state) (tr : list event) (i : nat) : state :=
  run s (firstn i tr).

(** ** SC (interleaving) semantics: loads read the last message *)

Inductive sc_step : state -> tid -> label -> state -> Prop :=
| sc_step_load  : forall s t l o,
    sc_step s t (LLoad l o (last_msg (memory s l)))
            (do_load s t l o (last_msg (memory s l)))
| sc_step_store : forall s t l o v,
    sc_step s t (LStore l o v) (do_store s t l o v)
| sc_step_rmw   : forall s t l o v,
    sc_step s t (LRmw l o v) (do_rmw s t l o v)
| sc_step_fence : forall s t o,
    sc_step s t (LFence o) (do_fence s t o).

Inductive sc_reachable : state -> Prop :=
| sc_reach_init : sc_reachable init
| sc_reach_step : forall s t lab s',
    sc_reachable s -> sc_step s t lab s' -> sc_reachable s'.

(** ** Well-formedness (the invariant proved in ViewLemmas.wf_reachable) *)

(** timestamps strictly increasing along the list *)
Fixpoint incr_ts (ms : list msg) : Prop :=
  match ms with
  | [] => True
  | m :: r => (forall m', In m' r -> m_ts m < m_ts m') /\ incr_ts r
  end.

Record wf (s : state) : Prop := {
  wf_nonempty : forall l, memory s l <> [];
  wf_sorted   : forall l, incr_ts (memory s l);
  wf_cur      : forall t l, cur (threads s t) l <= last_ts (memory s l);
  wf_acq      : forall t l, acq (threads s t) l <= last_ts (memory s l);
  wf_rel      : forall t l, rel (threads s t) l <= cur (threads s t) l;
  wf_sc       : forall l, scview s l <= last_ts (memory s l);
  wf_msg      : forall l m l', In m (memory s l) ->
                               m_view m l' <= last_ts (memory s l');
  wf_msg_self : forall l m, In m (memory s l) -> m_view m l = m_ts m
}.

(** ** Release sequences: [rs_from y my s m] : in state [s], message [m] of
    location [y] is [my] itself or was written by an RMW that read a message
    of the release sequence headed by [my]. *)

Inductive rs_from (y : loc) (my : msg) : state -> msg -> Prop :=
| rs_base  : forall s, reachable s -> In my (memory s y) -> rs_from y my s my
| rs_rmw   : forall s t o v,
    rs_from y my s (last_msg (memory s y)) ->
    rs_from y my (do_rmw s t y o v) (last_msg (memory (do_rmw s t y o v) y))
| rs_other : forall s m t lab s',
    rs_from y my s m -> step s t lab s' -> rs_from y my s' m.
