(** * WM.SeqlockWM : the seqlock protocol of xenium/seqlock.hpp (slots = 1) as a program
      over the view-based weak-memory machine of WM/View.v  (properties C03 / C14)

    DEFINITIONS ONLY (plus the two [reflexivity] facts about the order instances).
    The proofs are in WM/SeqlockWMProof.v.

    Shared locations: the sequence word [_seq] (location [seqL] = 0) and the [W] data
    words of the single slot [_data[0]] (locations [dL 0 .. dL (W-1)] = 1 .. W);  W >= 1 arbitrary.

    Any number of threads.  Each thread is a small state machine ([pc]); an idle thread may
    start [load()], [store(v)] or [update(f)] at any time, any number of times.  EVERY program
    step is exactly one step of the machine ([View.step]), labelled with the access / fence the
    C++ code performs at that program point, with the memory order taken from the record
    [orders] (one field per atomic access / fence site of load / store / update for slots = 1).

    Values: the k-th successful lock acquisition (k = 1, 2, ...) starts GENERATION k; generation 0
    is the initial content (all words 0, the initial messages of the machine).  A [store(v)]
    writes word i of v to data word i; an [update(f)] writes [f] applied to the words it read.
    Ghost state: [g_hist] (the complete value of every generation), [g_gen] (the generation of
    every data message, indexed by word and timestamp), [g_cur] (generations started so far),
    [g_owner] (the lock holder).  Ghost state is never read by the program.

    The sequence counter is an unbounded [N] (no wrap-around of the 64-bit word: 2^63 stores). *)

Require Import List NArith Arith Bool.
Import ListNotations.
Require Import XV.WM.View.

(** ** Memory orders of the access / fence sites (slots = 1) *)

Record orders := {
  (* --- seqlock::load --- *)
  o_load_seq1         : ord;  (* (1) seqlock.hpp:158  _seq.load                 in load()                  *)
  o_load_seq_spin     : ord;  (* (2) seqlock.hpp:167  _seq.load                 in load(), while pending   *)
  o_data_load         : ord;  (*     seqlock.hpp:240  psrc->load                in read_data()             *)
  o_fence_after_data  : ord;  (* (6) seqlock.hpp:243  XENIUM_THREAD_FENCE       in read_data()             *)
  o_load_seq2         : ord;  (* (3) seqlock.hpp:179  _seq.load                 in load()                  *)
  (* --- acquire_lock / store_data / release_lock (store, update) --- *)
  o_lock_load         : ord;  (*     seqlock.hpp:210  _seq.load                 in acquire_lock()          *)
  o_lock_spin_load    : ord;  (*     seqlock.hpp:213  _seq.load                 in acquire_lock(), pending *)
  o_lock_cas          : ord;  (* (4) seqlock.hpp:218  compare_exchange_weak, success order                 *)
  o_lock_cas_fail     : ord;  (*     seqlock.hpp:218  compare_exchange_weak, failure order                 *)
  o_fence_before_data : ord;  (* (7) seqlock.hpp:260  XENIUM_THREAD_FENCE       in store_data()            *)
  o_data_store        : ord;  (*     seqlock.hpp:266  pdest->store              in store_data()            *)
  o_unlock_store      : ord   (* (5) seqlock.hpp:230  _seq.store                in release_lock()          *)
}.
(** ([update] uses the sites of acquire_lock, read_data, store_data, release_lock; the
    [_seq.load] of seqlock.hpp:226 is inside an [assert] and not part of the protocol.
    A fence site with order [Rlx] is a fence that does nothing - see [SeqlockWMProof.fence_rlx_noop].) *)

(** what seqlock.hpp really uses *)
Definition xenium_orders : orders := {|
  o_load_seq1         := Acq;   (* 158: std::memory_order_acquire *)
  o_load_seq_spin     := Acq;   (* 167: std::memory_order_acquire *)
  o_data_load         := Rlx;   (* 240: std::memory_order_relaxed *)
  o_fence_after_data  := Acq;   (* 243: XENIUM_THREAD_FENCE(std::memory_order_acquire) *)
  o_load_seq2         := Acq;   (* 179: std::memory_order_acquire *)
  o_lock_load         := Rlx;   (* 210: std::memory_order_relaxed *)
  o_lock_spin_load    := Rlx;   (* 213: std::memory_order_relaxed *)
  o_lock_cas          := Acq;   (* 218: success std::memory_order_acquire *)
  o_lock_cas_fail     := Rlx;   (* 218: failure std::memory_order_relaxed *)
  o_fence_before_data := Rel;   (* 260: XENIUM_THREAD_FENCE(std::memory_order_release) *)
  o_data_store        := Rlx;   (* 266: std::memory_order_relaxed *)
  o_unlock_store      := Rel    (* 230: std::memory_order_release *)
|}.

(** ** The conditions on the orders

    [orders_ok_load] - what the proof of "load is never torn" needs (each conjunct is shown to be
    NECESSARY by a counterexample execution in SeqlockWMProof.v):
    - the three loads of [_seq] in load() are acquire: (1) 158, (2) 167, (3) 179
      (each of them can deliver the sequence value the copy is validated against; there is no
      fence between them and the data loads);
    - the data loads are acquire OR the fence after them is acquire: (6) 243;
    - the fence before the data stores is release OR the data stores are release: (7) 260;
    - the unlocking store is release: (5) 230.
    [orders_ok_update] - additionally needed for "update reads the latest value":
    - the locking CAS is acquire: (4) 218.
    (In the machine of View.v the modification order of a location is the execution order of the
    stores, so (4) is not needed to order the data stores of consecutive writers; in full C++11 it
    is needed for that, too.)
    The orders of 210, 213 and the failure order of 218 are unconstrained. *)

Definition orders_ok_load (o : orders) : bool :=
  is_acq (o_load_seq1 o) && is_acq (o_load_seq_spin o) && is_acq (o_load_seq2 o)
  && (is_acq (o_data_load o) || is_acq (o_fence_after_data o))
  && (is_rel (o_fence_before_data o) || is_rel (o_data_store o))
  && is_rel (o_unlock_store o).

Definition orders_ok_update (o : orders) : bool := is_acq (o_lock_cas o).

Definition orders_ok (o : orders) : bool := orders_ok_load o && orders_ok_update o.

Lemma xenium_orders_ok : orders_ok xenium_orders = true.
Proof. reflexivity. Qed.

(** ** Locations *)

Definition seqL : loc := 0.
Definition dL (i : nat) : loc := S i.

(** [is_write_pending] of seqlock.hpp:142, [(seq & 1) != 0] *)
Definition is_write_pending (q : val) : bool := N.odd q.

(** ** Program counters *)

Inductive wop :=
| WStore  (v : list val)                    (* store(v)  : v = the words of the new value *)
| WUpdate (f : list val -> list val).       (* update(f) : f maps the words read to the new words *)

(** Ghost components of the reader states: [c0] = the reader's view of [_seq] when load() was
    called; [mq] = the message of [_seq] the local variable [seq] was read from ([seq] = [m_val mq]);
    [buf] = the messages the words of [buffer] were read from ([buffer] = [map m_val buf]). *)
Inductive pc :=
| Idle
(* load() *)
| RdSpin  (c0 : ts)                                  (* seq is odd; next: 167 *)
| RdData  (c0 : ts) (mq : msg) (buf : list msg)      (* next: 240, word [length buf] *)
| RdFence (c0 : ts) (mq : msg) (buf : list msg)      (* next: 243 *)
| RdSeq2  (c0 : ts) (mq : msg) (buf : list msg)      (* next: 179 *)
| RdDone  (c0 : ts) (mq : msg) (buf : list msg)      (* load() has returned [map m_val buf] *)
(* store(v) / update(f) *)
| WrSpin   (w : wop)                                 (* seq is odd; next: 213 *)
| WrCas    (w : wop) (q : val)                       (* seq = q is even; next: 218 *)
| WrRead   (f : list val -> list val) (q : val) (buf : list msg)   (* update: next 240, word [length buf] *)
| WrRFence (f : list val -> list val) (q : val) (buf : list msg)   (* update: next 243 *)
| WrFence  (v : list val) (q : val)                  (* next: 260 *)
| WrData   (v : list val) (q : val) (i : nat)        (* next: 266, word i *)
| WrUnlock (q : val).                                (* next: 230, stores q + 2 *)

(** a thread that is not inside an operation *)
Definition is_idle (p : pc) : bool :=
  match p with Idle | RdDone _ _ _ => true | _ => false end.

(** the thread holds the lock (between the successful CAS and the unlocking store) *)
Definition locked (p : pc) : bool :=
  match p with
  | WrRead _ _ _ | WrRFence _ _ _ | WrFence _ _ | WrData _ _ _ | WrUnlock _ => true
  | _ => false
  end.

(** ** Program state *)

Record pstate := {
  ms      : state;                 (* the weak-memory machine *)
  pcs     : tid -> pc;
  g_hist  : list (list val);       (* ghost: g_hist[k] = the W words of generation k *)
  g_gen   : nat -> ts -> nat;      (* ghost: generation of the message of data word i with timestamp k *)
  g_cur   : nat;                   (* ghost: number of generations started (lock acquisitions) *)
  g_owner : option tid             (* ghost: the lock holder *)
}.

Definition upd_pc (f : tid -> pc) (t : tid) (p : pc) : tid -> pc :=
  fun t' => if Nat.eqb t' t then p else f t'.

Definition upd_gen (g : nat -> ts -> nat) (i : nat) (k : ts) (x : nat) : nat -> ts -> nat :=
  fun i' k' => if Nat.eqb i' i && Nat.eqb k' k then x else g i' k'.

Section Program.

Variable W : nat.        (* number of data words, >= 1 *)
Variable o : orders.

(** the W words of a value (missing words are 0, surplus words are ignored) *)
Definition norm (v : list val) : list val := map (fun i => nth i v 0%N) (seq 0 W).

Definition pinit : pstate :=
  {| ms := init; pcs := fun _ => Idle;
     g_hist := [norm []]; g_gen := fun _ _ => 0; g_cur := 0; g_owner := None |}.

(** only the machine and one pc change *)
Definition set_pc (s : pstate) (M' : state) (t : tid) (p : pc) : pstate :=
  {| ms := M'; pcs := upd_pc (pcs s) t p;
     g_hist := g_hist s; g_gen := g_gen s; g_cur := g_cur s; g_owner := g_owner s |}.

(** load(): after a load of [_seq] that read [m] (lines 165-169) *)
Definition rd_after_seq (c0 : ts) (m : msg) : pc :=
  if is_write_pending (m_val m) then RdSpin c0 else RdData c0 m [].

(** acquire_lock(): after a load of [_seq] that read [m] (lines 211-214) *)
Definition wr_after_seq (w : wop) (m : msg) : pc :=
  if is_write_pending (m_val m) then WrSpin w else WrCas w (m_val m).

(** [pstep s t lab s'] : thread [t] performs the access [lab] *)
Inductive pstep : pstate -> tid -> label -> pstate -> Prop :=
(* ---- load() ---- *)
| ps_rd_seq1 : forall s t m M',        (* 158; an idle thread calls load() *)
    is_idle (pcs s t) = true ->
    step (ms s) t (LLoad seqL (o_load_seq1 o) m) M' ->
    pstep s t (LLoad seqL (o_load_seq1 o) m)
          (set_pc s M' t (rd_after_seq (cur (threads (ms s) t) seqL) m))
| ps_rd_spin : forall s t c0 m M',     (* 167 *)
    pcs s t = RdSpin c0 ->
    step (ms s) t (LLoad seqL (o_load_seq_spin o) m) M' ->
    pstep s t (LLoad seqL (o_load_seq_spin o) m) (set_pc s M' t (rd_after_seq c0 m))
| ps_rd_data : forall s t c0 mq buf m M',   (* 240 *)
    pcs s t = RdData c0 mq buf ->
    step (ms s) t (LLoad (dL (length buf)) (o_data_load o) m) M' ->
    pstep s t (LLoad (dL (length buf)) (o_data_load o) m)
          (set_pc s M' t (if Nat.eqb (S (length buf)) W
                          then RdFence c0 mq (buf ++ [m]) else RdData c0 mq (buf ++ [m])))
| ps_rd_fence : forall s t c0 mq buf M',    (* 243 *)
    pcs s t = RdFence c0 mq buf ->
    step (ms s) t (LFence (o_fence_after_data o)) M' ->
    pstep s t (LFence (o_fence_after_data o)) (set_pc s M' t (RdSeq2 c0 mq buf))
| ps_rd_seq2 : forall s t c0 mq buf m M',   (* 179-183: seq2 - seq < 1, i.e. seq2 = seq, else retry with seq := seq2 *)
    pcs s t = RdSeq2 c0 mq buf ->
    step (ms s) t (LLoad seqL (o_load_seq2 o) m) M' ->
    pstep s t (LLoad seqL (o_load_seq2 o) m)
          (set_pc s M' t (if N.eqb (m_val m) (m_val mq)
                          then RdDone c0 mq buf else rd_after_seq c0 m))
(* ---- store(v) / update(f) ---- *)
| ps_wr_load : forall s t w m M',      (* 210; an idle thread calls store / update *)
    is_idle (pcs s t) = true ->
    step (ms s) t (LLoad seqL (o_lock_load o) m) M' ->
    pstep s t (LLoad seqL (o_lock_load o) m) (set_pc s M' t (wr_after_seq w m))
| ps_wr_spin : forall s t w m M',      (* 213 *)
    pcs s t = WrSpin w ->
    step (ms s) t (LLoad seqL (o_lock_spin_load o) m) M' ->
    pstep s t (LLoad seqL (o_lock_spin_load o) m) (set_pc s M' t (wr_after_seq w m))
| ps_wr_cas_ok : forall s t w q M',    (* 218, success: an RMW reads the LAST message of _seq, which holds q *)
    pcs s t = WrCas w q ->
    m_val (last_msg (memory (ms s) seqL)) = q ->
    step (ms s) t (LRmw seqL (o_lock_cas o) (q + 1)%N) M' ->
    pstep s t (LRmw seqL (o_lock_cas o) (q + 1)%N)
          {| ms := M';
             pcs := upd_pc (pcs s) t (match w with
                                      | WStore v => WrFence v q
                                      | WUpdate f => WrRead f q []
                                      end);
             g_hist := g_hist s; g_gen := g_gen s;
             g_cur := S (g_cur s); g_owner := Some t |}
| ps_wr_cas_fail : forall s t w q m M',   (* 218, failure (also spuriously: compare_exchange_weak); seq := value read *)
    pcs s t = WrCas w q ->
    step (ms s) t (LLoad seqL (o_lock_cas_fail o) m) M' ->
    pstep s t (LLoad seqL (o_lock_cas_fail o) m) (set_pc s M' t (wr_after_seq w m))
| ps_wr_read : forall s t f q buf m M',   (* update: 240 *)
    pcs s t = WrRead f q buf ->
    step (ms s) t (LLoad (dL (length buf)) (o_data_load o) m) M' ->
    pstep s t (LLoad (dL (length buf)) (o_data_load o) m)
          (set_pc s M' t (if Nat.eqb (S (length buf)) W
                          then WrRFence f q (buf ++ [m]) else WrRead f q (buf ++ [m])))
| ps_wr_rfence : forall s t f q buf M',   (* update: 243, then func(data) *)
    pcs s t = WrRFence f q buf ->
    step (ms s) t (LFence (o_fence_after_data o)) M' ->
    pstep s t (LFence (o_fence_after_data o)) (set_pc s M' t (WrFence (f (map m_val buf)) q))
| ps_wr_fence : forall s t v q M',        (* 260; the value of the new generation is now determined *)
    pcs s t = WrFence v q ->
    step (ms s) t (LFence (o_fence_before_data o)) M' ->
    pstep s t (LFence (o_fence_before_data o))
          {| ms := M'; pcs := upd_pc (pcs s) t (WrData v q 0);
             g_hist := g_hist s ++ [norm v]; g_gen := g_gen s;
             g_cur := g_cur s; g_owner := g_owner s |}
| ps_wr_data : forall s t v q i M',       (* 266 *)
    pcs s t = WrData v q i ->
    step (ms s) t (LStore (dL i) (o_data_store o) (nth i v 0%N)) M' ->
    pstep s t (LStore (dL i) (o_data_store o) (nth i v 0%N))
          {| ms := M';
             pcs := upd_pc (pcs s) t (if Nat.eqb (S i) W then WrUnlock q else WrData v q (S i));
             g_hist := g_hist s;
             g_gen := upd_gen (g_gen s) i (S (last_ts (memory (ms s) (dL i)))) (g_cur s);
             g_cur := g_cur s; g_owner := g_owner s |}
| ps_wr_unlock : forall s t q M',         (* 230: _seq.store(seq + 1) with seq = q + 1 *)
    pcs s t = WrUnlock q ->
    step (ms s) t (LStore seqL (o_unlock_store o) (q + 2)%N) M' ->
    pstep s t (LStore seqL (o_unlock_store o) (q + 2)%N)
          {| ms := M'; pcs := upd_pc (pcs s) t Idle;
             g_hist := g_hist s; g_gen := g_gen s; g_cur := g_cur s; g_owner := None |}.

Inductive preach : pstate -> Prop :=
| preach_init : preach pinit
| preach_step : forall s t lab s', preach s -> pstep s t lab s' -> preach s'.

(** executions with their trace of machine events *)
Inductive ptrace : pstate -> list event -> pstate -> Prop :=
| ptrace_nil  : forall s, ptrace s [] s
| ptrace_cons : forall s t lab s' tr s'',
    pstep s t lab s' -> ptrace s' tr s'' -> ptrace s ((t, lab) :: tr) s''.

(** ** Executable form (used for the concrete executions: non-vacuity and necessity results)

    A [choice] resolves the nondeterminism of one step of one thread: which operation an idle
    thread starts, and which message (number [i] in the modification order of the location) a
    load reads.  [pexec] returns the label and the successor state, or [None] if the choice does
    not fit the program point or the machine does not allow the read ([View.exec_load]).
    SeqlockWMProof.pexec_sound: every [pexec] step is a [pstep]. *)

Inductive choice :=
| CLoad  (i : nat)             (* an idle thread calls load(); line 158 reads message i of _seq *)
| CWrite (w : wop) (i : nat)   (* an idle thread calls store / update; line 210 reads message i *)
| CRd    (i : nat)             (* the pending load (or the failing CAS) reads message i *)
| CCas                         (* the pending CAS succeeds *)
| CGo.                         (* the pending fence / store *)

Definition with_load (M : state) (t : tid) (l : loc) (od : ord) (i : nat)
           (k : msg -> state -> pstate) : option (label * pstate) :=
  match exec_load M t l od i with
  | Some (m, M') => Some (LLoad l od m, k m M')
  | None => None
  end.

Definition pexec (s : pstate) (t : tid) (c : choice) : option (label * pstate) :=
  let M := ms s in
  match c with
  | CLoad i =>
      if is_idle (pcs s t)
      then with_load M t seqL (o_load_seq1 o) i
             (fun m M' => set_pc s M' t (rd_after_seq (cur (threads M t) seqL) m))
      else None
  | CWrite w i =>
      if is_idle (pcs s t)
      then with_load M t seqL (o_lock_load o) i (fun m M' => set_pc s M' t (wr_after_seq w m))
      else None
  | CRd i =>
      match pcs s t with
      | RdSpin c0 =>
          with_load M t seqL (o_load_seq_spin o) i (fun m M' => set_pc s M' t (rd_after_seq c0 m))
      | RdData c0 mq buf =>
          with_load M t (dL (length buf)) (o_data_load o) i
            (fun m M' => set_pc s M' t (if Nat.eqb (S (length buf)) W
                                        then RdFence c0 mq (buf ++ [m]) else RdData c0 mq (buf ++ [m])))
      | RdSeq2 c0 mq buf =>
          with_load M t seqL (o_load_seq2 o) i
            (fun m M' => set_pc s M' t (if N.eqb (m_val m) (m_val mq)
                                        then RdDone c0 mq buf else rd_after_seq c0 m))
      | WrSpin w =>
          with_load M t seqL (o_lock_spin_load o) i (fun m M' => set_pc s M' t (wr_after_seq w m))
      | WrCas w q =>
          with_load M t seqL (o_lock_cas_fail o) i (fun m M' => set_pc s M' t (wr_after_seq w m))
      | WrRead f q buf =>
          with_load M t (dL (length buf)) (o_data_load o) i
            (fun m M' => set_pc s M' t (if Nat.eqb (S (length buf)) W
                                        then WrRFence f q (buf ++ [m]) else WrRead f q (buf ++ [m])))
      | _ => None
      end
  | CCas =>
      match pcs s t with
      | WrCas w q =>
          if N.eqb (m_val (last_msg (memory M seqL))) q
          then Some (LRmw seqL (o_lock_cas o) (q + 1)%N,
                     {| ms := do_rmw M t seqL (o_lock_cas o) (q + 1)%N;
                        pcs := upd_pc (pcs s) t (match w with
                                                 | WStore v => WrFence v q
                                                 | WUpdate f => WrRead f q []
                                                 end);
                        g_hist := g_hist s; g_gen := g_gen s;
                        g_cur := S (g_cur s); g_owner := Some t |})
          else None
      | _ => None
      end
  | CGo =>
      match pcs s t with
      | RdFence c0 mq buf =>
          Some (LFence (o_fence_after_data o),
                set_pc s (do_fence M t (o_fence_after_data o)) t (RdSeq2 c0 mq buf))
      | WrRFence f q buf =>
          Some (LFence (o_fence_after_data o),
                set_pc s (do_fence M t (o_fence_after_data o)) t (WrFence (f (map m_val buf)) q))
      | WrFence v q =>
          Some (LFence (o_fence_before_data o),
                {| ms := do_fence M t (o_fence_before_data o);
                   pcs := upd_pc (pcs s) t (WrData v q 0);
                   g_hist := g_hist s ++ [norm v]; g_gen := g_gen s;
                   g_cur := g_cur s; g_owner := g_owner s |})
      | WrData v q i =>
          Some (LStore (dL i) (o_data_store o) (nth i v 0%N),
                {| ms := do_store M t (dL i) (o_data_store o) (nth i v 0%N);
                   pcs := upd_pc (pcs s) t (if Nat.eqb (S i) W then WrUnlock q else WrData v q (S i));
                   g_hist := g_hist s;
                   g_gen := upd_gen (g_gen s) i (S (last_ts (memory M (dL i)))) (g_cur s);
                   g_cur := g_cur s; g_owner := g_owner s |})
      | WrUnlock q =>
          Some (LStore seqL (o_unlock_store o) (q + 2)%N,
                {| ms := do_store M t seqL (o_unlock_store o) (q + 2)%N;
                   pcs := upd_pc (pcs s) t Idle;
                   g_hist := g_hist s; g_gen := g_gen s; g_cur := g_cur s; g_owner := None |})
      | _ => None
      end
  end.

Fixpoint prun (s : pstate) (cs : list (tid * choice)) : option (list event * pstate) :=
  match cs with
  | [] => Some ([], s)
  | (t, c) :: cs' =>
      match pexec s t c with
      | Some (lab, s') =>
          match prun s' cs' with
          | Some (tr, s'') => Some ((t, lab) :: tr, s'')
          | None => None
          end
      | None => None
      end
  end.

(** ** What a completed load returns *)

(** the words returned and (ghost) the generations of the messages they were read from *)
Definition ret_vals (buf : list msg) : list val := map m_val buf.
Definition ret_gens (s : pstate) (buf : list msg) : list nat :=
  map (fun jm => g_gen s (fst jm) (m_ts (snd jm))) (combine (seq 0 (length buf)) buf).

(** observers for the concrete executions *)
Definition done_vals (s : pstate) (t : tid) : option (list val) :=
  match pcs s t with RdDone _ _ buf => Some (ret_vals buf) | _ => None end.
Definition done_gens (s : pstate) (t : tid) : option (list nat) :=
  match pcs s t with RdDone _ _ buf => Some (ret_gens s buf) | _ => None end.
(** the generations of the words an update() has read when it applies its functor *)
Definition upd_gens (s : pstate) (t : tid) : option (list nat) :=
  match pcs s t with WrRFence _ _ buf => Some (ret_gens s buf) | _ => None end.

End Program.

(** a printable summary of a machine event: for a load the value and timestamp of the message read *)
Inductive esig :=
| SLoad  (t : tid) (l : loc) (o : ord) (v : val) (k : ts)
| SStore (t : tid) (l : loc) (o : ord) (v : val)
| SRmw   (t : tid) (l : loc) (o : ord) (v : val)
| SFence (t : tid) (o : ord).
Arguments SLoad (t l)%nat o v%N k%nat.
Arguments SStore (t l)%nat o v%N.
Arguments SRmw (t l)%nat o v%N.
Arguments SFence t%nat o.
Definition sig_of (e : event) : esig :=
  match e with
  | (t, LLoad l o m)  => SLoad t l o (m_val m) (m_ts m)
  | (t, LStore l o v) => SStore t l o v
  | (t, LRmw l o v)   => SRmw t l o v
  | (t, LFence o)     => SFence t o
  end.

(** ** Order instances that violate [orders_ok_load] in exactly one conjunct
       (used for the necessity results [weak_*_torn] in SeqlockWMProof.v) *)

Definition set_fence_after_data (x : ord) (o : orders) : orders :=
  {| o_load_seq1 := o_load_seq1 o; o_load_seq_spin := o_load_seq_spin o; o_data_load := o_data_load o;
     o_fence_after_data := x; o_load_seq2 := o_load_seq2 o;
     o_lock_load := o_lock_load o; o_lock_spin_load := o_lock_spin_load o; o_lock_cas := o_lock_cas o;
     o_lock_cas_fail := o_lock_cas_fail o; o_fence_before_data := o_fence_before_data o;
     o_data_store := o_data_store o; o_unlock_store := o_unlock_store o |}.
Definition set_load_seq1 (x : ord) (o : orders) : orders :=
  {| o_load_seq1 := x; o_load_seq_spin := o_load_seq_spin o; o_data_load := o_data_load o;
     o_fence_after_data := o_fence_after_data o; o_load_seq2 := o_load_seq2 o;
     o_lock_load := o_lock_load o; o_lock_spin_load := o_lock_spin_load o; o_lock_cas := o_lock_cas o;
     o_lock_cas_fail := o_lock_cas_fail o; o_fence_before_data := o_fence_before_data o;
     o_data_store := o_data_store o; o_unlock_store := o_unlock_store o |}.
Definition set_load_seq_spin (x : ord) (o : orders) : orders :=
  {| o_load_seq1 := o_load_seq1 o; o_load_seq_spin := x; o_data_load := o_data_load o;
     o_fence_after_data := o_fence_after_data o; o_load_seq2 := o_load_seq2 o;
     o_lock_load := o_lock_load o; o_lock_spin_load := o_lock_spin_load o; o_lock_cas := o_lock_cas o;
     o_lock_cas_fail := o_lock_cas_fail o; o_fence_before_data := o_fence_before_data o;
     o_data_store := o_data_store o; o_unlock_store := o_unlock_store o |}.
Definition set_load_seq2 (x : ord) (o : orders) : orders :=
  {| o_load_seq1 := o_load_seq1 o; o_load_seq_spin := o_load_seq_spin o; o_data_load := o_data_load o;
     o_fence_after_data := o_fence_after_data o; o_load_seq2 := x;
     o_lock_load := o_lock_load o; o_lock_spin_load := o_lock_spin_load o; o_lock_cas := o_lock_cas o;
     o_lock_cas_fail := o_lock_cas_fail o; o_fence_before_data := o_fence_before_data o;
     o_data_store := o_data_store o; o_unlock_store := o_unlock_store o |}.
Definition set_fence_before_data (x : ord) (o : orders) : orders :=
  {| o_load_seq1 := o_load_seq1 o; o_load_seq_spin := o_load_seq_spin o; o_data_load := o_data_load o;
     o_fence_after_data := o_fence_after_data o; o_load_seq2 := o_load_seq2 o;
     o_lock_load := o_lock_load o; o_lock_spin_load := o_lock_spin_load o; o_lock_cas := o_lock_cas o;
     o_lock_cas_fail := o_lock_cas_fail o; o_fence_before_data := x;
     o_data_store := o_data_store o; o_unlock_store := o_unlock_store o |}.
Definition set_unlock_store (x : ord) (o : orders) : orders :=
  {| o_load_seq1 := o_load_seq1 o; o_load_seq_spin := o_load_seq_spin o; o_data_load := o_data_load o;
     o_fence_after_data := o_fence_after_data o; o_load_seq2 := o_load_seq2 o;
     o_lock_load := o_lock_load o; o_lock_spin_load := o_lock_spin_load o; o_lock_cas := o_lock_cas o;
     o_lock_cas_fail := o_lock_cas_fail o; o_fence_before_data := o_fence_before_data o;
     o_data_store := o_data_store o; o_unlock_store := x |}.
Definition set_lock_cas (x : ord) (o : orders) : orders :=
  {| o_load_seq1 := o_load_seq1 o; o_load_seq_spin := o_load_seq_spin o; o_data_load := o_data_load o;
     o_fence_after_data := o_fence_after_data o; o_load_seq2 := o_load_seq2 o;
     o_lock_load := o_lock_load o; o_lock_spin_load := o_lock_spin_load o; o_lock_cas := x;
     o_lock_cas_fail := o_lock_cas_fail o; o_fence_before_data := o_fence_before_data o;
     o_data_store := o_data_store o; o_unlock_store := o_unlock_store o |}.

(** the instance of the main refutation: xenium's orders with the fence of read_data (6) removed *)
Definition weak_orders : orders := set_fence_after_data Rlx xenium_orders.

Lemma weak_orders_not_ok : orders_ok_load weak_orders = false.
Proof. reflexivity. Qed.
