(** * WM.SeqlockWMSlots : the seqlock protocol of xenium/seqlock.hpp for slots > 1, as a program
      over the view-based weak-memory machine of WM/View.v  (properties C03 / C14)

    DEFINITIONS ONLY.  The proofs are in WM/SeqlockWMSlotsProof.v.  The single-slot configuration
    (with its wait loop, line 165-168) is WM/SeqlockWM.v; this file models the [else] branch of the
    [if constexpr (slots == 1)] of load() (lines 170-174).  The memory orders are the record
    [SeqlockWM.orders] (the site [o_load_seq_spin], line 167, does not occur for slots > 1).

    Shared locations: [_seq] ([seqL] = 0) and the W words of each of the K slots
    ([dLs idx i] = 1 + idx * W + i).  Generation g (the g-th successful lock acquisition; generation 0 =
    the initial content of slot 0) lives in slot [g mod K]; [_seq] = 2g when generation g is complete
    and 2g+1 while generation g+1 is being written into slot [(g+1) mod K].

    The words of the slots 1 .. K-1 are uninitialised until they are first written (in the machine:
    the initial messages, value 0); the theorem shows that a load never returns them.

    The sequence counter is an unbounded [N] (no wrap-around of the 64-bit word); the subtraction
    [seq2 - seq] of line 180 is the truncated subtraction of [N] - SeqlockWMSlotsProof shows
    [seq <= seq2] whenever it is evaluated, so it never truncates (and the unsigned C++
    subtraction never wraps). *)

Require Import List NArith Arith Bool.
Import ListNotations.
Require Import XV.WM.View XV.WM.SeqlockWM.

(** what the proof of "load is never torn" needs for slots > 1:
    - the two loads of [_seq] in load() are acquire: (1) 158, (3) 179;
    - the data loads are acquire OR the fence after them is acquire: (6) 243;
    - the fence before the data stores is release OR the data stores are release: (7) 260;
    - the unlocking store is release: (5) 230;
    and for "update reads the latest value" additionally the acquire CAS (4) 218. *)
Definition orders_ok_load_slots (o : orders) : bool :=
  is_acq (o_load_seq1 o) && is_acq (o_load_seq2 o)
  && (is_acq (o_data_load o) || is_acq (o_fence_after_data o))
  && (is_rel (o_fence_before_data o) || is_rel (o_data_store o))
  && is_rel (o_unlock_store o).

Definition orders_ok_slots (o : orders) : bool := orders_ok_load_slots o && orders_ok_update o.

Lemma xenium_orders_ok_slots : orders_ok_slots xenium_orders = true.
Proof. reflexivity. Qed.

(** ** Program counters (slots > 1) *)

(** Ghost components of the reader states as in SeqlockWM: [c0] = the view of [_seq] at the call,
    [mq] = the message of [_seq] the local [seq] was taken from, [buf] = the messages read. *)
Inductive pc :=
| Idle
(* load() *)
| RdData  (c0 : ts) (mq : msg) (buf : list msg)      (* next: 240, word [length buf] of slot (seq>>1)%K *)
| RdFence (c0 : ts) (mq : msg) (buf : list msg)      (* next: 243 *)
| RdSeq2  (c0 : ts) (mq : msg) (buf : list msg)      (* next: 179 *)
| RdDone  (c0 : ts) (mq : msg) (buf : list msg)      (* load() has returned [map m_val buf] *)
(* store(v) / update(f) *)
| WrSpin   (w : wop)                                 (* seq is odd; next: 213 *)
| WrCas    (w : wop) (q : val)                       (* seq = q is even; next: 218 *)
| WrRead   (f : list val -> list val) (q : val) (buf : list msg)   (* update: next 240 *)
| WrRFence (f : list val -> list val) (q : val) (buf : list msg)   (* update: next 243 *)
| WrFence  (v : list val) (q : val)                  (* next: 260 *)
| WrData   (v : list val) (q : val) (i : nat)        (* next: 266, word i *)
| WrUnlock (q : val).                                (* next: 230, stores q + 2 *)

Definition is_idle (p : pc) : bool :=
  match p with Idle | RdDone _ _ _ => true | _ => false end.

Definition locked (p : pc) : bool :=
  match p with
  | WrRead _ _ _ | WrRFence _ _ _ | WrFence _ _ | WrData _ _ _ | WrUnlock _ => true
  | _ => false
  end.

Record pstate := {
  ms      : state;
  pcs     : tid -> pc;
  g_hist  : list (list val);            (* ghost: g_hist[k] = the W words of generation k *)
  g_gen   : nat -> nat -> ts -> nat;    (* ghost: generation of the message of word i of slot idx with timestamp k *)
  g_cur   : nat;                        (* ghost: number of generations started *)
  g_owner : option tid                  (* ghost: the lock holder *)
}.

Definition upd_pc (f : tid -> pc) (t : tid) (p : pc) : tid -> pc :=
  fun t' => if Nat.eqb t' t then p else f t'.

Definition upd_gen (g : nat -> nat -> ts -> nat) (idx i : nat) (k : ts) (x : nat)
  : nat -> nat -> ts -> nat :=
  fun idx' i' k' => if Nat.eqb idx' idx && Nat.eqb i' i && Nat.eqb k' k then x else g idx' i' k'.

(** a load of message number [i] of [l], if the machine allows it *)
Definition with_load_k {A : Type} (M : state) (t : tid) (l : loc) (od : ord) (i : nat)
           (k : msg -> state -> A) : option (label * A) :=
  match exec_load M t l od i with
  | Some (m, M') => Some (LLoad l od m, k m M')
  | None => None
  end.

Section Program.

Variable K : nat.        (* number of slots (the model is the code for K >= 2) *)
Variable W : nat.        (* number of data words per slot, >= 1 *)
Variable o : orders.

Definition dLs (idx i : nat) : loc := S (idx * W + i).

(** [seq >> 1] *)
Definition half (q : val) : nat := N.to_nat (q / 2)%N.
(** load(), lines 171-173: [seq >>= 1; idx = seq % slots; seq <<= 1] *)
Definition rd_slot (q : val) : nat := half q mod K.
Definition rd_base (q : val) : val := (2 * (q / 2))%N.
(** load(), line 180: [seq2 - seq < 2 * slots - 1] *)
Definition accept (q2 q : val) : bool := (q2 - rd_base q <? 2 * N.of_nat K - 1)%N.
(** update(), line 193: [(seq >> 1) % slots] with seq = q + 1 *)
Definition upd_slot (q : val) : nat := half (q + 1)%N mod K.
(** store(), line 203: [((seq >> 1) + 1) % slots]; update(), line 196: [(idx + 1) % slots] *)
Definition wr_slot (q : val) : nat := (half (q + 1)%N + 1) mod K.

Definition norm (v : list val) : list val := map (fun i => nth i v 0%N) (seq 0 W).

Definition pinit : pstate :=
  {| ms := init; pcs := fun _ => Idle;
     g_hist := [norm []]; g_gen := fun _ _ _ => 0; g_cur := 0; g_owner := None |}.

Definition set_pc (s : pstate) (M' : state) (t : tid) (p : pc) : pstate :=
  {| ms := M'; pcs := upd_pc (pcs s) t p;
     g_hist := g_hist s; g_gen := g_gen s; g_cur := g_cur s; g_owner := g_owner s |}.

Definition wr_after_seq (w : wop) (m : msg) : pc :=
  if is_write_pending (m_val m) then WrSpin w else WrCas w (m_val m).

Inductive pstep : pstate -> tid -> label -> pstate -> Prop :=
(* ---- load() ---- *)
| ps_rd_seq1 : forall s t m M',        (* 158 *)
    is_idle (pcs s t) = true ->
    step (ms s) t (LLoad seqL (o_load_seq1 o) m) M' ->
    pstep s t (LLoad seqL (o_load_seq1 o) m)
          (set_pc s M' t (RdData (cur (threads (ms s) t) seqL) m []))
| ps_rd_data : forall s t c0 mq buf m M',   (* 240 on _data[(seq>>1) % slots] *)
    pcs s t = RdData c0 mq buf ->
    step (ms s) t (LLoad (dLs (rd_slot (m_val mq)) (length buf)) (o_data_load o) m) M' ->
    pstep s t (LLoad (dLs (rd_slot (m_val mq)) (length buf)) (o_data_load o) m)
          (set_pc s M' t (if Nat.eqb (S (length buf)) W
                          then RdFence c0 mq (buf ++ [m]) else RdData c0 mq (buf ++ [m])))
| ps_rd_fence : forall s t c0 mq buf M',    (* 243 *)
    pcs s t = RdFence c0 mq buf ->
    step (ms s) t (LFence (o_fence_after_data o)) M' ->
    pstep s t (LFence (o_fence_after_data o)) (set_pc s M' t (RdSeq2 c0 mq buf))
| ps_rd_seq2 : forall s t c0 mq buf m M',   (* 179-183 *)
    pcs s t = RdSeq2 c0 mq buf ->
    step (ms s) t (LLoad seqL (o_load_seq2 o) m) M' ->
    pstep s t (LLoad seqL (o_load_seq2 o) m)
          (set_pc s M' t (if accept (m_val m) (m_val mq)
                          then RdDone c0 mq buf else RdData c0 m []))
(* ---- store(v) / update(f) ---- *)
| ps_wr_load : forall s t w m M',      (* 210 *)
    is_idle (pcs s t) = true ->
    step (ms s) t (LLoad seqL (o_lock_load o) m) M' ->
    pstep s t (LLoad seqL (o_lock_load o) m) (set_pc s M' t (wr_after_seq w m))
| ps_wr_spin : forall s t w m M',      (* 213 *)
    pcs s t = WrSpin w ->
    step (ms s) t (LLoad seqL (o_lock_spin_load o) m) M' ->
    pstep s t (LLoad seqL (o_lock_spin_load o) m) (set_pc s M' t (wr_after_seq w m))
| ps_wr_cas_ok : forall s t w q M',    (* 218, success *)
    pcs s t = WrCas w q ->
    m_val (last_msg (memory (ms s) seqL)) = q ->
    step (ms s) t (LRmw seqL (o_lock_cas o) (q + 1)%N) M' ->
    pstep s t (LRmw seqL (o_lock_cas o) (q + 1)%N)
          {| ms := M';
             pcs := upd_pc (pcs s) t (match w with
                                      | WStore v => WrFence v q
                                      | WUpdate f => WrRead f q []
                                      end);
             g_hist := g_hist s; g_gen := g_gen s;
             g_cur := S (g_cur s); g_owner := Some t |}
| ps_wr_cas_fail : forall s t w q m M',   (* 218, failure (also spuriously) *)
    pcs s t = WrCas w q ->
    step (ms s) t (LLoad seqL (o_lock_cas_fail o) m) M' ->
    pstep s t (LLoad seqL (o_lock_cas_fail o) m) (set_pc s M' t (wr_after_seq w m))
| ps_wr_read : forall s t f q buf m M',   (* update: 240 on _data[(seq>>1) % slots] *)
    pcs s t = WrRead f q buf ->
    step (ms s) t (LLoad (dLs (upd_slot q) (length buf)) (o_data_load o) m) M' ->
    pstep s t (LLoad (dLs (upd_slot q) (length buf)) (o_data_load o) m)
          (set_pc s M' t (if Nat.eqb (S (length buf)) W
                          then WrRFence f q (buf ++ [m]) else WrRead f q (buf ++ [m])))
| ps_wr_rfence : forall s t f q buf M',   (* update: 243, then func(data) *)
    pcs s t = WrRFence f q buf ->
    step (ms s) t (LFence (o_fence_after_data o)) M' ->
    pstep s t (LFence (o_fence_after_data o)) (set_pc s M' t (WrFence (f (map m_val buf)) q))
| ps_wr_fence : forall s t v q M',        (* 260 *)
    pcs s t = WrFence v q ->
    step (ms s) t (LFence (o_fence_before_data o)) M' ->
    pstep s t (LFence (o_fence_before_data o))
          {| ms := M'; pcs := upd_pc (pcs s) t (WrData v q 0);
             g_hist := g_hist s ++ [norm v]; g_gen := g_gen s;
             g_cur := g_cur s; g_owner := g_owner s |}
| ps_wr_data : forall s t v q i M',       (* 266 on _data[((seq>>1)+1) % slots] *)
    pcs s t = WrData v q i ->
    step (ms s) t (LStore (dLs (wr_slot q) i) (o_data_store o) (nth i v 0%N)) M' ->
    pstep s t (LStore (dLs (wr_slot q) i) (o_data_store o) (nth i v 0%N))
          {| ms := M';
             pcs := upd_pc (pcs s) t (if Nat.eqb (S i) W then WrUnlock q else WrData v q (S i));
             g_hist := g_hist s;
             g_gen := upd_gen (g_gen s) (wr_slot q) i
                              (S (last_ts (memory (ms s) (dLs (wr_slot q) i)))) (g_cur s);
             g_cur := g_cur s; g_owner := g_owner s |}
| ps_wr_unlock : forall s t q M',         (* 230 *)
    pcs s t = WrUnlock q ->
    step (ms s) t (LStore seqL (o_unlock_store o) (q + 2)%N) M' ->
    pstep s t (LStore seqL (o_unlock_store o) (q + 2)%N)
          {| ms := M'; pcs := upd_pc (pcs s) t Idle;
             g_hist := g_hist s; g_gen := g_gen s; g_cur := g_cur s; g_owner := None |}.

Inductive preach : pstate -> Prop :=
| preach_init : preach pinit
| preach_step : forall s t lab s', preach s -> pstep s t lab s' -> preach s'.

Inductive ptrace : pstate -> list event -> pstate -> Prop :=
| ptrace_nil  : forall s, ptrace s [] s
| ptrace_cons : forall s t lab s' tr s'',
    pstep s t lab s' -> ptrace s' tr s'' -> ptrace s ((t, lab) :: tr) s''.

(** ** Executable form (see SeqlockWM.pexec) *)

Definition pexec (s : pstate) (t : tid) (c : choice) : option (label * pstate) :=
  let M := ms s in
  match c with
  | CLoad i =>
      if is_idle (pcs s t)
      then with_load_k M t seqL (o_load_seq1 o) i
             (fun m M' => set_pc s M' t (RdData (cur (threads M t) seqL) m []))
      else None
  | CWrite w i =>
      if is_idle (pcs s t)
      then with_load_k M t seqL (o_lock_load o) i (fun m M' => set_pc s M' t (wr_after_seq w m))
      else None
  | CRd i =>
      match pcs s t with
      | RdData c0 mq buf =>
          with_load_k M t (dLs (rd_slot (m_val mq)) (length buf)) (o_data_load o) i
            (fun m M' => set_pc s M' t (if Nat.eqb (S (length buf)) W
                                        then RdFence c0 mq (buf ++ [m]) else RdData c0 mq (buf ++ [m])))
      | RdSeq2 c0 mq buf =>
          with_load_k M t seqL (o_load_seq2 o) i
            (fun m M' => set_pc s M' t (if accept (m_val m) (m_val mq)
                                        then RdDone c0 mq buf else RdData c0 m []))
      | WrSpin w =>
          with_load_k M t seqL (o_lock_spin_load o) i (fun m M' => set_pc s M' t (wr_after_seq w m))
      | WrCas w q =>
          with_load_k M t seqL (o_lock_cas_fail o) i (fun m M' => set_pc s M' t (wr_after_seq w m))
      | WrRead f q buf =>
          with_load_k M t (dLs (upd_slot q) (length buf)) (o_data_load o) i
            (fun m M' => set_pc s M' t (if Nat.eqb (S (length buf)) W
                                        then WrRFence f q (buf ++ [m]) else WrRead f q (buf ++ [m])))
      | _ => None
      end
  | CCas =>
      match pcs s t with
      | WrCas w q =>
          if N.eqb (m_val (last_msg (memory M seqL))) q
          then Some (LRmw seqL (o_lock_cas o) (q + 1)%N,
                     {| ms := do_rmw M t seqL (o_lock_cas o) (q + 1)%N;
                        pcs := upd_pc (pcs s) t (match w with
                                                 | WStore v => WrFence v q
                                                 | WUpdate f => WrRead f q []
                                                 end);
                        g_hist := g_hist s; g_gen := g_gen s;
                        g_cur := S (g_cur s); g_owner := Some t |})
          else None
      | _ => None
      end
  | CGo =>
      match pcs s t with
      | RdFence c0 mq buf =>
          Some (LFence (o_fence_after_data o),
                set_pc s (do_fence M t (o_fence_after_data o)) t (RdSeq2 c0 mq buf))
      | WrRFence f q buf =>
          Some (LFence (o_fence_after_data o),
                set_pc s (do_fence M t (o_fence_after_data o)) t (WrFence (f (map m_val buf)) q))
      | WrFence v q =>
          Some (LFence (o_fence_before_data o),
                {| ms := do_fence M t (o_fence_before_data o);
                   pcs := upd_pc (pcs s) t (WrData v q 0);
                   g_hist := g_hist s ++ [norm v]; g_gen := g_gen s;
                   g_cur := g_cur s; g_owner := g_owner s |})
      | WrData v q i =>
          Some (LStore (dLs (wr_slot q) i) (o_data_store o) (nth i v 0%N),
                {| ms := do_store M t (dLs (wr_slot q) i) (o_data_store o) (nth i v 0%N);
                   pcs := upd_pc (pcs s) t (if Nat.eqb (S i) W then WrUnlock q else WrData v q (S i));
                   g_hist := g_hist s;
                   g_gen := upd_gen (g_gen s) (wr_slot q) i
                                    (S (last_ts (memory M (dLs (wr_slot q) i)))) (g_cur s);
                   g_cur := g_cur s; g_owner := g_owner s |})
      | WrUnlock q =>
          Some (LStore seqL (o_unlock_store o) (q + 2)%N,
                {| ms := do_store M t seqL (o_unlock_store o) (q + 2)%N;
                   pcs := upd_pc (pcs s) t Idle;
                   g_hist := g_hist s; g_gen := g_gen s; g_cur := g_cur s; g_owner := None |})
      | _ => None
      end
  end.

Fixpoint prun (s : pstate) (cs : list (tid * choice)) : option (list event * pstate) :=
  match cs with
  | [] => Some ([], s)
  | (t, c) :: cs' =>
      match pexec s t c with
      | Some (lab, s') =>
          match prun s' cs' with
          | Some (tr, s'') => Some ((t, lab) :: tr, s'')
          | None => None
          end
      | None => None
      end
  end.

(** ** What a completed load returns *)

Definition ret_vals (buf : list msg) : list val := map m_val buf.
(** the generations of the messages read, which are words 0 .. of slot [idx] *)
Definition ret_gens (s : pstate) (idx : nat) (buf : list msg) : list nat :=
  map (fun jm => g_gen s idx (fst jm) (m_ts (snd jm))) (combine (seq 0 (length buf)) buf).

Definition done_vals (s : pstate) (t : tid) : option (list val) :=
  match pcs s t with RdDone _ _ buf => Some (ret_vals buf) | _ => None end.
Definition done_gens (s : pstate) (t : tid) : option (list nat) :=
  match pcs s t with
  | RdDone _ mq buf => Some (ret_gens s (rd_slot (m_val mq)) buf)
  | _ => None
  end.

End Program.
