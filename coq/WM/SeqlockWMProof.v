(** * WM.SeqlockWMProof : over the weak-memory machine, seqlock::load (slots = 1) never returns a
      torn value; update reads the latest value; the conditions on the memory orders are necessary.

    The model is in WM/SeqlockWM.v, the machine in WM/View.v, its meta-theory in WM/ViewLemmas.v. *)

Require Import List NArith Arith Lia Bool.
Import ListNotations.
Require Import XV.WM.View XV.WM.ViewLemmas XV.WM.SeqlockWM.

(** ** Small facts *)

Lemma even_of_nat : forall k, N.odd (N.of_nat k) = false -> exists h, k = 2 * h.
Proof.
  intros k H. destruct (Nat.Even_or_Odd k) as [[h ->]|[h ->]]; [eauto|].
  replace (N.of_nat (2 * h + 1)) with (1 + 2 * N.of_nat h)%N in H by lia.
  rewrite N.odd_add_mul_2 in H. discriminate.
Qed.

Lemma odd_of_nat_double : forall h, N.odd (N.of_nat (2 * h)) = false.
Proof.
  intros. replace (N.of_nat (2 * h)) with (0 + 2 * N.of_nat h)%N by lia.
  now rewrite N.odd_add_mul_2.
Qed.

Lemma dL_seqL : forall i, dL i <> seqL.
Proof. discriminate. Qed.

Lemma dL_inj : forall i j, dL i = dL j -> i = j.
Proof. intros i j H; now injection H. Qed.

Lemma nth_error_snoc : forall (A : Type) (l : list A) (x : A) j y,
  nth_error (l ++ [x]) j = Some y ->
  (j < length l /\ nth_error l j = Some y) \/ (j = length l /\ y = x).
Proof.
  intros A l x j y H. destruct (Nat.lt_ge_cases j (length l)) as [Hl|Hl].
  - left. split; [assumption|]. now rewrite nth_error_app1 in H.
  - right. rewrite nth_error_app2 in H by assumption.
    destruct (j - length l) as [|n] eqn:E.
    + simpl in H. inversion H. split; [lia|reflexivity].
    + simpl in H. destruct n; discriminate.
Qed.

Lemma nth_error_lt : forall (A : Type) (l : list A) j y, nth_error l j = Some y -> j < length l.
Proof. intros. apply nth_error_Some. congruence. Qed.

(** a relaxed fence does nothing (a fence site whose order is [Rlx] = no fence) *)
Lemma fence_rlx_noop : forall s t,
  memory (do_fence s t Rlx) = memory s /\ scview (do_fence s t Rlx) = scview s /\
  forall t', threads (do_fence s t Rlx) t' = threads s t'.
Proof.
  intros. split; [reflexivity|]. split; [reflexivity|]. intros t'. simpl. unfold upd_thr.
  destruct (Nat.eqb_spec t' t) as [->|]; [|reflexivity]. destruct (threads s t); reflexivity.
Qed.

(** ** What the machine steps do (packaged from ViewLemmas) *)

Lemma in_snoc : forall (m mk : msg) ms, In m (ms ++ [mk]) <-> In m ms \/ m = mk.
Proof. intros. rewrite in_app_iff. simpl. intuition. Qed.

Lemma store_facts : forall M t l od v M',
  reachable M -> step M t (LStore l od v) M' ->
  exists mk, memory M' l = memory M l ++ [mk] /\ m_ts mk = S (last_ts (memory M l)) /\
    m_val mk = v /\
    (forall l', l' <> l -> memory M' l' = memory M l') /\
    cur (threads M' t) l = m_ts mk /\
    (is_rel od = true -> forall l', cur (threads M t) l' <= m_view mk l') /\
    (forall l', rel (threads M t) l' <= m_view mk l').
Proof.
  intros M t l od v M' R St.
  destruct (store_new_message _ _ _ _ _ _ St) as (mk & E & Hts & Hv & Ho & Hc).
  exists mk. repeat split; try assumption.
  - intros A l'. pose proof (release_store_view _ _ _ _ _ _ R St A l') as V.
    now rewrite E, last_msg_app in V.
  - intros l'. pose proof (store_view_ge_rel _ _ _ _ _ _ R St l') as V.
    now rewrite E, last_msg_app in V.
Qed.

Lemma rmw_facts : forall M t l od v M',
  reachable M -> step M t (LRmw l od v) M' ->
  exists mk, memory M' l = memory M l ++ [mk] /\ m_ts mk = S (last_ts (memory M l)) /\
    m_val mk = v /\
    (forall l', l' <> l -> memory M' l' = memory M l') /\
    cur (threads M' t) l = m_ts mk /\
    (forall l', m_view (last_msg (memory M l)) l' <= m_view mk l') /\
    (is_acq od = true -> forall l', m_view (last_msg (memory M l)) l' <= cur (threads M' t) l').
Proof.
  intros M t l od v M' R St.
  destruct (rmw_new_message _ _ _ _ _ _ St) as (mk & E & Hts & Hv & Ho & Hc).
  exists mk. repeat split; try assumption.
  - intros l'. apply step_rmw_inv in St. subst M'.
    pose proof (rmw_view_ge_read M t l od v l') as V. now rewrite E, last_msg_app in V.
  - intros A l'. apply step_rmw_inv in St. subst M'. unfold do_rmw.
    set (mr := last_msg (memory M l)). set (s1 := do_load M t l od mr).
    assert (Ld : step M t (LLoad l od mr) s1).
    { constructor. now apply rmw_load_enabled. }
    pose proof (acquire_load_view _ _ _ _ _ _ Ld A l') as V.
    assert (W1 : wf s1) by (apply wf_reachable; eapply reach_step; eassumption).
    pose proof (mono_cur _ _ (mono_do_store_with (m_view mr) s1 t l od v W1) t l'). lia.
Qed.

Section Proof.

Variable W : nat.
Hypothesis W_pos : 1 <= W.
Variable o : orders.

Notation pstep := (pstep W o).
Notation preach := (preach W o).
Notation ptrace := (ptrace W o).
Notation pinit := (pinit W).
Notation norm := (norm W).

(** ** The invariant *)

Definition Lseq (M : state) : ts := last_ts (memory M seqL).
Definition Dl (M : state) (i : nat) : ts := last_ts (memory M (dL i)).

(** the component of the reader's views that the acquire fence (6) / the acquire data loads
    will have brought into [cur] before the second load of [_seq] *)
Definition need (M : state) (t : tid) : ts :=
  if is_acq (o_data_load o) then cur (threads M t) seqL
  else Nat.max (cur (threads M t) seqL) (acq (threads M t) seqL).

Definition rd_inv (M : state) (t : tid) (c0 : ts) (mq : msg) (buf : list msg) : Prop :=
  In mq (memory M seqL) /\ N.odd (m_val mq) = false /\
  c0 <= m_ts mq /\ m_ts mq <= cur (threads M t) seqL /\
  (* the acquire load of mq has made every generation completed at mq visible *)
  (forall i g, i < W -> 2 * g <= m_ts mq -> g <= cur (threads M t) (dL i)) /\
  (* hence no word read is older *)
  (forall j m, nth_error buf j = Some m -> In m (memory M (dL j)) /\ m_ts mq <= 2 * m_ts m).

Definition thr_inv (M : state) (t : tid) (p : pc) : Prop :=
  match p with
  | RdSpin c0 => c0 <= cur (threads M t) seqL
  | RdData c0 mq buf =>
      rd_inv M t c0 mq buf /\ length buf < W /\
      (forall j m, nth_error buf j = Some m -> 2 * m_ts m <= S (need M t))
  | RdFence c0 mq buf =>
      rd_inv M t c0 mq buf /\ length buf = W /\
      (forall j m, nth_error buf j = Some m -> 2 * m_ts m <= S (need M t))
  | RdSeq2 c0 mq buf =>
      rd_inv M t c0 mq buf /\ length buf = W /\
      (* the lock acquisition of the generation of every word read is in the reader's view *)
      (forall j m, nth_error buf j = Some m -> 2 * m_ts m <= S (cur (threads M t) seqL))
  | RdDone c0 mq buf =>
      In mq (memory M seqL) /\ c0 <= m_ts mq /\ length buf = W /\
      exists h, m_ts mq = 2 * h /\
                forall j m, nth_error buf j = Some m -> In m (memory M (dL j)) /\ m_ts m = h
  | WrCas w q => N.odd q = false
  | _ => True
  end.

(** the lock holder *)
Definition upd_inv (s : pstate) (t : tid) (buf : list msg) : Prop :=
  is_acq (o_lock_cas o) = true ->
  (forall i, i < W -> g_cur s - 1 <= cur (threads (ms s) t) (dL i)) /\
  (forall j m, nth_error buf j = Some m -> In m (memory (ms s) (dL j)) /\ m_ts m = g_cur s - 1).

Definition holder_inv (s : pstate) (t : tid) (p : pc) : Prop :=
  let M := ms s in let G := g_cur s in
  Lseq M <= cur (threads M t) seqL /\
  match p with
  | WrRead f q buf =>
      N.of_nat (Lseq M) = (q + 1)%N /\ (forall i, i < W -> Dl M i = G - 1) /\
      length (g_hist s) = G /\ upd_inv s t buf /\ length buf < W
  | WrRFence f q buf =>
      N.of_nat (Lseq M) = (q + 1)%N /\ (forall i, i < W -> Dl M i = G - 1) /\
      length (g_hist s) = G /\ upd_inv s t buf /\ length buf = W
  | WrFence v q =>
      N.of_nat (Lseq M) = (q + 1)%N /\ (forall i, i < W -> Dl M i = G - 1) /\
      length (g_hist s) = G
  | WrData v q j =>
      N.of_nat (Lseq M) = (q + 1)%N /\ j < W /\
      (forall i, i < W -> Dl M i = if Nat.ltb i j then G else G - 1) /\
      length (g_hist s) = S G /\ nth G (g_hist s) [] = norm v /\
      (forall i, i < j -> G <= cur (threads M t) (dL i)) /\
      (is_rel (o_data_store o) = false -> Lseq M <= rel (threads M t) seqL)
  | WrUnlock q =>
      N.of_nat (Lseq M) = (q + 1)%N /\ (forall i, i < W -> Dl M i = G) /\
      length (g_hist s) = S G /\ (forall i, i < W -> G <= cur (threads M t) (dL i))
  | _ => False
  end.

Record inv (s : pstate) : Prop := {
  i_reach : reachable (ms s);
  (* the messages of _seq: value = timestamp; the message with timestamp 2g (the unlock of
     generation g) or 2g+1 (the next lock) carries the data stores of generation g *)
  i_seq_val : forall m, In m (memory (ms s) seqL) -> m_val m = N.of_nat (m_ts m);
  i_seq_view : forall m i g, In m (memory (ms s) seqL) -> i < W ->
                             2 * g <= m_ts m -> g <= m_view m (dL i);
  i_cur : match g_owner s with
          | None => Lseq (ms s) = 2 * g_cur s
          | Some _ => S (Lseq (ms s)) = 2 * g_cur s
          end;
  (* the messages of the data words: timestamp = generation; the message of generation g >= 1
     carries the lock acquisition (timestamp 2g-1 of _seq) of its writer *)
  i_data_gen : forall i m, i < W -> In m (memory (ms s) (dL i)) -> g_gen s i (m_ts m) = m_ts m;
  i_data_view : forall i m, i < W -> In m (memory (ms s) (dL i)) ->
                            2 * m_ts m <= S (m_view m seqL);
  i_data_val : forall i m, i < W -> In m (memory (ms s) (dL i)) ->
                           m_val m = nth i (nth (m_ts m) (g_hist s) []) 0%N;
  i_hist_len : forall v, In v (g_hist s) -> length v = W;
  (* the lock *)
  i_owner : forall t, locked (pcs s t) = true <-> g_owner s = Some t;
  i_unlocked : g_owner s = None ->
               (forall i, i < W -> Dl (ms s) i = g_cur s) /\ length (g_hist s) = S (g_cur s);
  i_locked : forall t, g_owner s = Some t -> holder_inv s t (pcs s t);
  i_thr : forall t, thr_inv (ms s) t (pcs s t)
}.

Lemma norm_length : forall v, length (norm v) = W.
Proof. intros. unfold norm, SeqlockWM.norm. now rewrite map_length, seq_length. Qed.

Lemma norm_nth : forall v i, i < W -> nth i (norm v) 0%N = nth i v 0%N.
Proof.
  intros v i Hi. unfold norm, SeqlockWM.norm.
  rewrite (nth_indep _ 0%N (nth 0 v 0%N)) by (now rewrite map_length, seq_length).
  change (nth 0 v 0%N) with ((fun i => nth i v 0%N) 0).
  rewrite map_nth. rewrite seq_nth by assumption. reflexivity.
Qed.

Lemma inv_init : inv pinit.
Proof.
  constructor; simpl.
  - constructor.
  - intros m [<-|[]]. reflexivity.
  - intros m i g [<-|[]] _ H. simpl in H. lia.
  - reflexivity.
  - intros i m _ [<-|[]]. reflexivity.
  - intros i m _ [<-|[]]. simpl. lia.
  - intros i m Hi [<-|[]]. simpl. now rewrite norm_nth; [destruct i|].
  - intros v [<-|[]]. apply norm_length.
  - intros t. split; discriminate.
  - intros _. split; reflexivity.
  - discriminate.
  - intros t. exact Logic.I.
Qed.

(** ** Stability of the per-thread invariants under machine steps *)

Lemma need_mono : forall M M' t, mono M M' -> need M t <= need M' t.
Proof.
  intros M M' t Mo. unfold need.
  pose proof (mono_cur _ _ Mo t seqL). pose proof (mono_acq _ _ Mo t seqL).
  destruct (is_acq (o_data_load o)); lia.
Qed.

Lemma rd_inv_mono : forall M M' t c0 mq buf,
  mono M M' -> rd_inv M t c0 mq buf -> rd_inv M' t c0 mq buf.
Proof.
  intros M M' t c0 mq buf Mo (A & B & C & D & E & F).
  repeat split; try assumption.
  - now apply (mono_mem _ _ Mo).
  - pose proof (mono_cur _ _ Mo t seqL). lia.
  - intros i g Hi Hg. pose proof (mono_cur _ _ Mo t (dL i)). specialize (E i g Hi Hg). lia.
  - apply (mono_mem _ _ Mo). now apply (F j m).
  - now apply (F j m).
Qed.

Lemma thr_inv_mono : forall M M' t p, mono M M' -> thr_inv M t p -> thr_inv M' t p.
Proof.
  intros M M' t p Mo H. pose proof (need_mono M M' t Mo) as N.
  pose proof (mono_cur _ _ Mo t seqL) as C.
  destruct p; simpl in *; try exact Logic.I; try assumption.
  - lia.
  - destruct H as (A & B & D). split; [eapply rd_inv_mono; eassumption|]. split; [assumption|].
    intros j m Hj. specialize (D j m Hj). lia.
  - destruct H as (A & B & D). split; [eapply rd_inv_mono; eassumption|]. split; [assumption|].
    intros j m Hj. specialize (D j m Hj). lia.
  - destruct H as (A & B & D). split; [eapply rd_inv_mono; eassumption|]. split; [assumption|].
    intros j m Hj. specialize (D j m Hj). lia.
  - destruct H as (A & B & D & h & E & F). split; [now apply (mono_mem _ _ Mo)|].
    split; [assumption|]. split; [assumption|]. exists h. split; [assumption|].
    intros j m Hj. destruct (F j m Hj). split; [now apply (mono_mem _ _ Mo)|assumption].
Qed.


(** ** Steps that change neither the memory nor the ghost state (loads, fences of non-holders
       and the data loads of update) *)

Lemma upd_pc_same : forall f t p, upd_pc f t p t = p.
Proof. intros; unfold upd_pc; now rewrite Nat.eqb_refl. Qed.

Lemma upd_pc_other : forall f t p t', t' <> t -> upd_pc f t p t' = f t'.
Proof. intros; unfold upd_pc. destruct (Nat.eqb_spec t' t); [contradiction|reflexivity]. Qed.

Lemma holder_inv_frame : forall s s' t p,
  mono (ms s) (ms s') -> memory (ms s') = memory (ms s) ->
  g_hist s' = g_hist s -> g_cur s' = g_cur s ->
  holder_inv s t p -> holder_inv s' t p.
Proof.
  intros s s' t p Mo Hm Hh Hc [A B].
  assert (C : forall l, cur (threads (ms s) t) l <= cur (threads (ms s') t) l)
    by (intros; apply (mono_cur _ _ Mo)).
  assert (U : forall buf, upd_inv s t buf -> upd_inv s' t buf).
  { intros buf U Acq. destruct (U Acq) as [U1 U2]. rewrite Hc, Hm. split.
    - intros i Hi. specialize (U1 i Hi). specialize (C (dL i)). lia.
    - exact U2. }
  unfold holder_inv, Lseq, Dl in *. rewrite Hm, Hh, Hc.
  split; [specialize (C seqL); lia|].
  destruct p; try contradiction.
  - destruct B as (B1 & B2 & B3 & B4 & B5). auto 10.
  - destruct B as (B1 & B2 & B3 & B4 & B5). auto 10.
  - assumption.
  - destruct B as (B1 & B2 & B3 & B4 & B5 & B6 & B7). repeat (split; [assumption|]). split.
    + intros i0 Hi. specialize (B6 i0 Hi). specialize (C (dL i0)). lia.
    + intros Hr. specialize (B7 Hr). pose proof (mono_rel _ _ Mo t seqL). lia.
  - destruct B as (B1 & B2 & B3 & B4). repeat (split; [assumption|]).
    intros i Hi. specialize (B4 i Hi). specialize (C (dL i)). lia.
Qed.

Lemma owner_of_locked : forall s t, inv s -> locked (pcs s t) = true -> g_owner s = Some t.
Proof. intros s t I H. now apply (i_owner s I). Qed.

Lemma inv_quiet : forall s t M' p',
  inv s -> mono (ms s) M' -> memory M' = memory (ms s) -> reachable M' ->
  locked p' = locked (pcs s t) ->
  thr_inv M' t p' ->
  (g_owner s = Some t -> holder_inv (set_pc s M' t p') t p') ->
  inv (set_pc s M' t p').
Proof.
  intros s t M' p' I Mo Hm R' Hl Ht Hh.
  constructor; unfold set_pc; cbn [ms pcs g_hist g_gen g_cur g_owner]; unfold Lseq, Dl; rewrite ?Hm.
  - exact R'.
  - apply (i_seq_val s I).
  - apply (i_seq_view s I).
  - apply (i_cur s I).
  - apply (i_data_gen s I).
  - apply (i_data_view s I).
  - apply (i_data_val s I).
  - apply (i_hist_len s I).
  - intros t0. destruct (Nat.eq_dec t0 t) as [->|Hn].
    + rewrite upd_pc_same, Hl. apply (i_owner s I).
    + rewrite upd_pc_other by assumption. apply (i_owner s I).
  - apply (i_unlocked s I).
  - intros t0 Ho. destruct (Nat.eq_dec t0 t) as [->|Hn].
    + rewrite upd_pc_same. apply (Hh Ho).
    + rewrite upd_pc_other by assumption.
      apply (holder_inv_frame s); try reflexivity; try assumption.
      now apply (i_locked s I).
  - intros t0. destruct (Nat.eq_dec t0 t) as [->|Hn].
    + now rewrite upd_pc_same.
    + rewrite upd_pc_other by assumption. apply (thr_inv_mono (ms s)); [assumption|apply (i_thr s I)].
Qed.

Lemma inv_quiet_unlocked : forall s t M' p',
  inv s -> mono (ms s) M' -> memory M' = memory (ms s) -> reachable M' ->
  locked (pcs s t) = false -> locked p' = false ->
  thr_inv M' t p' ->
  inv (set_pc s M' t p').
Proof.
  intros s t M' p' I Mo Hm R' Hl Hl' Ht. apply inv_quiet; try assumption; [congruence|].
  intros Ho. apply (i_owner s I) in Ho. congruence.
Qed.

Lemma idle_unlocked : forall p, is_idle p = true -> locked p = false.
Proof. destruct p; simpl; congruence. Qed.

Lemma rd_after_seq_unlocked : forall c0 m, locked (rd_after_seq c0 m) = false.
Proof. intros; unfold rd_after_seq; destruct (is_write_pending (m_val m)); reflexivity. Qed.

Lemma wr_after_seq_unlocked : forall w m, locked (wr_after_seq w m) = false.
Proof. intros; unfold wr_after_seq; destruct (is_write_pending (m_val m)); reflexivity. Qed.

(** facts about a load step *)
Lemma load_facts : forall M t l od m M',
  reachable M -> step M t (LLoad l od m) M' ->
  reachable M' /\ mono M M' /\ memory M' = memory M /\ In m (memory M l) /\
  cur (threads M t) l <= m_ts m /\ m_ts m <= cur (threads M' t) l.
Proof.
  intros M t l od m M' R St.
  split; [eapply reach_step; eassumption|].
  split; [apply (mono_step _ _ _ _ (wf_reachable _ R) St)|].
  pose proof (load_reads_ge_cur _ _ _ _ _ _ St). pose proof (load_cur_ge _ _ _ _ _ _ St).
  destruct (step_load_inv _ _ _ _ _ _ St) as [[Hin _] ->]. auto.
Qed.

Lemma fence_facts : forall M t od M',
  reachable M -> step M t (LFence od) M' ->
  reachable M' /\ mono M M' /\ memory M' = memory M.
Proof.
  intros M t od M' R St.
  split; [eapply reach_step; eassumption|].
  split; [apply (mono_step _ _ _ _ (wf_reachable _ R) St)|].
  apply step_fence_inv in St. now subst.
Qed.

(** ** The conditions on the orders, unpacked *)

Definition ok_load : Prop :=
  is_acq (o_load_seq1 o) = true /\ is_acq (o_load_seq_spin o) = true /\
  is_acq (o_load_seq2 o) = true /\
  (is_acq (o_data_load o) = true \/ is_acq (o_fence_after_data o) = true) /\
  (is_rel (o_fence_before_data o) = true \/ is_rel (o_data_store o) = true) /\
  is_rel (o_unlock_store o) = true.

Lemma orders_ok_load_spec : orders_ok_load o = true -> ok_load.
Proof.
  unfold orders_ok_load, ok_load. rewrite !andb_true_iff, !orb_true_iff. tauto.
Qed.

(** ** The reader's steps *)

(** after an ACQUIRE load of [_seq] (sites (1), (2), (3)) *)
Lemma rd_after_seq_ok : forall s t c0 od m M',
  inv s -> is_acq od = true -> c0 <= cur (threads (ms s) t) seqL ->
  step (ms s) t (LLoad seqL od m) M' ->
  thr_inv M' t (rd_after_seq c0 m).
Proof.
  intros s t c0 od m M' I A C St.
  destruct (load_facts _ _ _ _ _ _ (i_reach s I) St) as (R' & Mo & Hm & Hin & Hlo & Hhi).
  unfold rd_after_seq, is_write_pending. destruct (N.odd (m_val m)) eqn:E; simpl.
  - pose proof (mono_cur _ _ Mo t seqL). lia.
  - split; [|split; [lia|intros j m0 Hj; destruct j; discriminate]].
    unfold rd_inv. rewrite Hm.
    split; [assumption|]. split; [assumption|]. split; [lia|]. split; [assumption|]. split.
    + intros i g Hi Hg. pose proof (i_seq_view s I m i g Hin Hi Hg).
      pose proof (acquire_load_view _ _ _ _ _ _ St A (dL i)). lia.
    + intros j m0 Hj; destruct j; discriminate.
Qed.

(** after a data load (240) by a reader *)
Lemma rd_data_ok : forall s t c0 mq buf m M',
  inv s -> rd_inv (ms s) t c0 mq buf -> length buf < W ->
  (forall j m0, nth_error buf j = Some m0 -> 2 * m_ts m0 <= S (need (ms s) t)) ->
  step (ms s) t (LLoad (dL (length buf)) (o_data_load o) m) M' ->
  rd_inv M' t c0 mq (buf ++ [m]) /\
  (forall j m0, nth_error (buf ++ [m]) j = Some m0 -> 2 * m_ts m0 <= S (need M' t)).
Proof.
  intros s t c0 mq buf m M' I RI Hlen Hneed St.
  destruct (load_facts _ _ _ _ _ _ (i_reach s I) St) as (R' & Mo & Hm & Hin & Hlo & Hhi).
  pose proof (rd_inv_mono _ _ _ _ _ _ Mo RI) as (A' & B' & C' & D' & E' & F').
  destruct RI as (A & B & C & D & E & F).
  split.
  - unfold rd_inv. repeat (split; [assumption|]).
    intros j m0 Hj. apply nth_error_snoc in Hj. destruct Hj as [[_ Hj]|[-> ->]].
    + now apply F'.
    + rewrite Hm. split; [assumption|].
      destruct (even_of_nat (m_ts mq)) as [h Hh].
      { rewrite <- (i_seq_val s I mq A). exact B. }
      specialize (E (length buf) h Hlen). lia.
  - intros j m0 Hj. apply nth_error_snoc in Hj. destruct Hj as [[_ Hj]|[-> ->]].
    + specialize (Hneed j m0 Hj). pose proof (need_mono _ _ t Mo). lia.
    + pose proof (i_data_view s I (length buf) m Hlen Hin) as V.
      unfold need. destruct (is_acq (o_data_load o)) eqn:Ad.
      * pose proof (acquire_load_view _ _ _ _ _ _ St Ad seqL). lia.
      * pose proof (relaxed_load_view _ _ _ _ _ _ St seqL). lia.
Qed.

Lemma step_rd_seq1 : forall s t m M',
  ok_load -> inv s -> is_idle (pcs s t) = true ->
  step (ms s) t (LLoad seqL (o_load_seq1 o) m) M' ->
  inv (set_pc s M' t (rd_after_seq (cur (threads (ms s) t) seqL) m)).
Proof.
  intros s t m M' Ok I Hi St.
  destruct (load_facts _ _ _ _ _ _ (i_reach s I) St) as (R' & Mo & Hm & _).
  apply inv_quiet_unlocked; try assumption.
  - now apply idle_unlocked.
  - apply rd_after_seq_unlocked.
  - destruct Ok as (O1 & _). exact (rd_after_seq_ok s t _ _ m M' I O1 (le_n _) St).
Qed.

Lemma step_rd_spin : forall s t c0 m M',
  ok_load -> inv s -> pcs s t = RdSpin c0 ->
  step (ms s) t (LLoad seqL (o_load_seq_spin o) m) M' ->
  inv (set_pc s M' t (rd_after_seq c0 m)).
Proof.
  intros s t c0 m M' Ok I Hpc St.
  destruct (load_facts _ _ _ _ _ _ (i_reach s I) St) as (R' & Mo & Hm & _).
  pose proof (i_thr s I t) as T. rewrite Hpc in T. simpl in T.
  apply inv_quiet_unlocked; try assumption.
  - now rewrite Hpc.
  - apply rd_after_seq_unlocked.
  - destruct Ok as (_ & O2 & _). exact (rd_after_seq_ok s t _ _ m M' I O2 T St).
Qed.

Lemma step_rd_data : forall s t c0 mq buf m M',
  inv s -> pcs s t = RdData c0 mq buf ->
  step (ms s) t (LLoad (dL (length buf)) (o_data_load o) m) M' ->
  inv (set_pc s M' t (if Nat.eqb (S (length buf)) W
                      then RdFence c0 mq (buf ++ [m]) else RdData c0 mq (buf ++ [m]))).
Proof.
  intros s t c0 mq buf m M' I Hpc St.
  destruct (load_facts _ _ _ _ _ _ (i_reach s I) St) as (R' & Mo & Hm & _).
  pose proof (i_thr s I t) as T. rewrite Hpc in T. simpl in T. destruct T as (RI & Hlen & Hneed).
  destruct (rd_data_ok _ _ _ _ _ _ _ I RI Hlen Hneed St) as [RI' Hneed'].
  assert (Hl : length (buf ++ [m]) = S (length buf)) by (rewrite app_length; simpl; lia).
  apply inv_quiet_unlocked; try assumption.
  - now rewrite Hpc.
  - destruct (Nat.eqb (S (length buf)) W); reflexivity.
  - destruct (Nat.eqb_spec (S (length buf)) W); simpl; (split; [assumption|split; [lia|assumption]]).
Qed.

Lemma step_rd_fence : forall s t c0 mq buf M',
  ok_load -> inv s -> pcs s t = RdFence c0 mq buf ->
  step (ms s) t (LFence (o_fence_after_data o)) M' ->
  inv (set_pc s M' t (RdSeq2 c0 mq buf)).
Proof.
  intros s t c0 mq buf M' Ok I Hpc St.
  destruct (fence_facts _ _ _ _ (i_reach s I) St) as (R' & Mo & Hm).
  pose proof (i_thr s I t) as T. rewrite Hpc in T. simpl in T. destruct T as (RI & Hlen & Hneed).
  apply inv_quiet_unlocked; try assumption.
  - now rewrite Hpc.
  - reflexivity.
  - simpl. split; [eapply rd_inv_mono; eassumption|]. split; [assumption|].
    intros j m Hj. specialize (Hneed j m Hj). unfold need in Hneed.
    pose proof (mono_cur _ _ Mo t seqL) as Mc.
    destruct (is_acq (o_data_load o)) eqn:Ad; [lia|].
    destruct Ok as (_ & _ & _ & [Ok|Ok] & _); [congruence|].
    pose proof (fence_acq_join _ _ _ _ St Ok seqL). lia.
Qed.

Lemma step_rd_seq2 : forall s t c0 mq buf m M',
  ok_load -> inv s -> pcs s t = RdSeq2 c0 mq buf ->
  step (ms s) t (LLoad seqL (o_load_seq2 o) m) M' ->
  inv (set_pc s M' t (if N.eqb (m_val m) (m_val mq)
                      then RdDone c0 mq buf else rd_after_seq c0 m)).
Proof.
  intros s t c0 mq buf m M' Ok I Hpc St.
  destruct (load_facts _ _ _ _ _ _ (i_reach s I) St) as (R' & Mo & Hm & Hin & Hlo & Hhi).
  pose proof (i_thr s I t) as T. rewrite Hpc in T. simpl in T. destruct T as (RI & Hlen & Hb).
  apply inv_quiet_unlocked; try assumption.
  - now rewrite Hpc.
  - destruct (N.eqb (m_val m) (m_val mq)); [reflexivity|apply rd_after_seq_unlocked].
  - destruct (N.eqb_spec (m_val m) (m_val mq)) as [Ev|_].
    + destruct RI as (A & B & C & D & E & F). simpl. rewrite Hm.
      split; [assumption|]. split; [assumption|]. split; [assumption|].
      rewrite (i_seq_val s I m Hin), (i_seq_val s I mq A) in Ev.
      apply Nat2N.inj in Ev.
      destruct (even_of_nat (m_ts mq)) as [h Hh].
      { rewrite <- (i_seq_val s I mq A). exact B. }
      exists h. split; [assumption|].
      intros j m0 Hj. destruct (F j m0 Hj) as [F1 F2]. specialize (Hb j m0 Hj).
      split; [assumption|lia].
    + destruct RI as (A & B & C & D & E & F).
      destruct Ok as (_ & _ & O3 & _).
      apply (rd_after_seq_ok s t c0 _ m M' I O3); [lia|exact St].
Qed.

(** ** The writer's steps before it holds the lock *)

Lemma wr_after_seq_ok : forall M t w m, thr_inv M t (wr_after_seq w m).
Proof.
  intros. unfold wr_after_seq, is_write_pending.
  destruct (N.odd (m_val m)) eqn:E; simpl; [exact Logic.I|exact E].
Qed.

Lemma step_wr_seq : forall s t w od m M',
  inv s -> locked (pcs s t) = false ->
  step (ms s) t (LLoad seqL od m) M' ->
  inv (set_pc s M' t (wr_after_seq w m)).
Proof.
  intros s t w od m M' I Hl St.
  destruct (load_facts _ _ _ _ _ _ (i_reach s I) St) as (R' & Mo & Hm & _).
  apply inv_quiet_unlocked; try assumption.
  - apply wr_after_seq_unlocked.
  - apply wr_after_seq_ok.
Qed.


(** ** The lock holder's steps *)

Lemma Lseq_eq : forall M M', memory M' = memory M -> Lseq M' = Lseq M.
Proof. intros M M' H. unfold Lseq. now rewrite H. Qed.

Lemma holder_G_pos : forall s t, inv s -> g_owner s = Some t -> 1 <= g_cur s.
Proof. intros s t I Ho. pose proof (i_cur s I) as C. rewrite Ho in C. lia. Qed.

(** update: a data load (240) under the lock *)
Lemma step_wr_read : forall s t f q buf m M',
  inv s -> pcs s t = WrRead f q buf ->
  step (ms s) t (LLoad (dL (length buf)) (o_data_load o) m) M' ->
  inv (set_pc s M' t (if Nat.eqb (S (length buf)) W
                      then WrRFence f q (buf ++ [m]) else WrRead f q (buf ++ [m]))).
Proof.
  intros s t f q buf m M' I Hpc St.
  pose proof (i_reach s I) as R.
  destruct (load_facts _ _ _ _ _ _ R St) as (R' & Mo & Hm & Hin & Hlo & Hhi).
  assert (Ho : g_owner s = Some t) by (apply owner_of_locked; [assumption|now rewrite Hpc]).
  pose proof (i_locked s I t Ho) as H. rewrite Hpc in H.
  destruct H as (A & Q & D & Hh & U & Len).
  assert (Hl : length (buf ++ [m]) = S (length buf)) by (rewrite app_length; simpl; lia).
  apply inv_quiet; try assumption.
  - rewrite Hpc. destruct (Nat.eqb (S (length buf)) W); reflexivity.
  - destruct (Nat.eqb (S (length buf)) W); exact Logic.I.
  - intros _.
    assert (U' : upd_inv (set_pc s M' t (WrRead f q (buf ++ [m]))) t (buf ++ [m])).
    { intros Acq. destruct (U Acq) as [U1 U2]. unfold set_pc; cbn [ms g_cur]. rewrite Hm. split.
      - intros i Hi. specialize (U1 i Hi). pose proof (mono_cur _ _ Mo t (dL i)). lia.
      - intros j m0 Hj. apply nth_error_snoc in Hj. destruct Hj as [[_ Hj]|[-> ->]].
        + now apply U2.
        + split; [assumption|]. specialize (U1 (length buf) Len).
          pose proof (wf_in_ts _ _ _ (wf_reachable _ R) Hin) as B.
          specialize (D (length buf) Len). unfold Dl in D. lia. }
    assert (A' : Lseq M' <= cur (threads M' t) seqL).
    { rewrite (Lseq_eq _ _ Hm). pose proof (mono_cur _ _ Mo t seqL). lia. }
    destruct (Nat.eqb_spec (S (length buf)) W);
      (split; [exact A'|]); cbn [ms g_cur g_hist set_pc]; unfold Dl; rewrite (Lseq_eq _ _ Hm), Hm;
      (split; [assumption|]); (split; [assumption|]); (split; [assumption|]);
      (split; [exact U'|lia]).
Qed.

(** update: the fence (243) after the data loads, then func(data) *)
Lemma step_wr_rfence : forall s t f q buf M',
  inv s -> pcs s t = WrRFence f q buf ->
  step (ms s) t (LFence (o_fence_after_data o)) M' ->
  inv (set_pc s M' t (WrFence (f (map m_val buf)) q)).
Proof.
  intros s t f q buf M' I Hpc St.
  destruct (fence_facts _ _ _ _ (i_reach s I) St) as (R' & Mo & Hm).
  assert (Ho : g_owner s = Some t) by (apply owner_of_locked; [assumption|now rewrite Hpc]).
  pose proof (i_locked s I t Ho) as H. rewrite Hpc in H.
  destruct H as (A & Q & D & Hh & U & Len).
  apply inv_quiet; try assumption.
  - now rewrite Hpc.
  - exact Logic.I.
  - intros _. split.
    + cbn [ms set_pc]. rewrite (Lseq_eq _ _ Hm). pose proof (mono_cur _ _ Mo t seqL). lia.
    + cbn [ms g_cur g_hist set_pc]. unfold Dl. rewrite (Lseq_eq _ _ Hm), Hm. auto.
Qed.

(** the successful CAS (218) *)
Lemma step_wr_cas_ok : forall s t w q M',
  inv s -> pcs s t = WrCas w q ->
  m_val (last_msg (memory (ms s) seqL)) = q ->
  step (ms s) t (LRmw seqL (o_lock_cas o) (q + 1)%N) M' ->
  inv {| ms := M';
         pcs := upd_pc (pcs s) t (match w with
                                  | WStore v => WrFence v q
                                  | WUpdate f => WrRead f q []
                                  end);
         g_hist := g_hist s; g_gen := g_gen s;
         g_cur := S (g_cur s); g_owner := Some t |}.
Proof.
  intros s t w q M' I Hpc Hq St.
  pose proof (i_reach s I) as R. pose proof (wf_reachable _ R) as Wf.
  assert (R' : reachable M') by (eapply reach_step; eassumption).
  pose proof (mono_step _ _ _ _ Wf St) as Mo.
  destruct (rmw_facts _ _ _ _ _ _ R St) as (mk & E & Hts & Hv & Hoth & Hc & Hrd & Hacq).
  set (ml := last_msg (memory (ms s) seqL)) in *.
  assert (Inl : In ml (memory (ms s) seqL)) by (apply wf_last_in; assumption).
  assert (Tl : m_ts ml = Lseq (ms s)) by reflexivity.
  pose proof (i_thr s I t) as T. rewrite Hpc in T. simpl in T.
  pose proof (i_seq_val s I ml Inl) as Vl.
  destruct (even_of_nat (Lseq (ms s))) as [h Hh].
  { rewrite <- Tl, <- Vl, Hq. exact T. }
  assert (Own : g_owner s = None).
  { destruct (g_owner s) eqn:Eo; [|reflexivity]. pose proof (i_cur s I) as C. rewrite Eo in C. lia. }
  pose proof (i_cur s I) as C. rewrite Own in C.
  destruct (i_unlocked s I Own) as [UD UH].
  assert (L' : Lseq M' = S (Lseq (ms s))).
  { unfold Lseq. rewrite E, last_ts_app, Hts. reflexivity. }
  assert (Dm : forall i, memory M' (dL i) = memory (ms s) (dL i)).
  { intros i. apply Hoth. apply dL_seqL. }
  assert (Nl : forall t0, t0 <> t -> locked (pcs s t0) = false).
  { intros t0 _. destruct (locked (pcs s t0)) eqn:El; [|reflexivity].
    apply (i_owner s I) in El. congruence. }
  constructor; cbn [ms pcs g_hist g_gen g_cur g_owner].
  - exact R'.
  - intros m Hin. rewrite E in Hin. apply in_snoc in Hin. destruct Hin as [Hin| ->].
    + now apply (i_seq_val s I).
    + rewrite Hv, Hts. fold (Lseq (ms s)). rewrite <- Tl. rewrite <- Hq, Vl. lia.
  - intros m i g Hin Hi Hg. rewrite E in Hin. apply in_snoc in Hin. destruct Hin as [Hin| ->].
    + now apply (i_seq_view s I).
    + rewrite Hts in Hg. fold (Lseq (ms s)) in Hg.
      assert (Hg' : 2 * g <= m_ts ml) by lia.
      pose proof (i_seq_view s I ml i g Inl Hi Hg'). specialize (Hrd (dL i)). lia.
  - lia.
  - intros i m Hi Hin. rewrite Dm in Hin. now apply (i_data_gen s I).
  - intros i m Hi Hin. rewrite Dm in Hin. now apply (i_data_view s I i).
  - intros i m Hi Hin. rewrite Dm in Hin. now apply (i_data_val s I).
  - apply (i_hist_len s I).
  - intros t0. destruct (Nat.eq_dec t0 t) as [->|Hn].
    + rewrite upd_pc_same. destruct w; simpl; tauto.
    + rewrite upd_pc_other by assumption. rewrite (Nl t0 Hn). split; [discriminate|congruence].
  - discriminate.
  - intros t0 Ho. injection Ho as <-. rewrite upd_pc_same.
    assert (A' : Lseq M' <= cur (threads M' t) seqL) by (rewrite Hc, Hts, L'; apply le_n).
    assert (Q' : N.of_nat (Lseq M') = (q + 1)%N).
    { rewrite L', <- Hq, Vl, Tl. lia. }
    assert (D' : forall i, i < W -> Dl M' i = S (g_cur s) - 1).
    { intros i Hi. specialize (UD i Hi). unfold Dl in *. rewrite Dm. lia. }
    destruct w; (split; [exact A'|]); cbn [ms g_cur g_hist].
    + auto.
    + split; [assumption|]. split; [assumption|]. split; [assumption|]. split; [|simpl; lia].
      intros Acq. cbn [ms g_cur]. split.
      * intros i Hi. assert (Hg : 2 * g_cur s <= m_ts ml) by lia.
        pose proof (i_seq_view s I ml i (g_cur s) Inl Hi Hg). specialize (Hacq Acq (dL i)). lia.
      * intros j m0 Hj. destruct j; discriminate.
  - intros t0. destruct (Nat.eq_dec t0 t) as [->|Hn].
    + rewrite upd_pc_same. destruct w; exact Logic.I.
    + rewrite upd_pc_other by assumption. apply (thr_inv_mono (ms s)); [assumption|apply (i_thr s I)].
Qed.

(** the release fence (260) before the data stores *)
Lemma step_wr_fence : forall s t v q M',
  ok_load -> inv s -> pcs s t = WrFence v q ->
  step (ms s) t (LFence (o_fence_before_data o)) M' ->
  inv {| ms := M'; pcs := upd_pc (pcs s) t (WrData v q 0);
         g_hist := g_hist s ++ [norm v]; g_gen := g_gen s;
         g_cur := g_cur s; g_owner := g_owner s |}.
Proof.
  intros s t v q M' Ok I Hpc St.
  pose proof (i_reach s I) as R.
  destruct (fence_facts _ _ _ _ R St) as (R' & Mo & Hm).
  assert (Ho : g_owner s = Some t) by (apply owner_of_locked; [assumption|now rewrite Hpc]).
  pose proof (holder_G_pos s t I Ho) as Gp.
  pose proof (i_locked s I t Ho) as H. rewrite Hpc in H.
  destruct H as (A & Q & D & Hh).
  constructor; cbn [ms pcs g_hist g_gen g_cur g_owner]; unfold Dl; rewrite ?(Lseq_eq _ _ Hm), ?Hm.
  - exact R'.
  - apply (i_seq_val s I).
  - apply (i_seq_view s I).
  - apply (i_cur s I).
  - apply (i_data_gen s I).
  - apply (i_data_view s I).
  - intros i m Hi Hin. rewrite (i_data_val s I i m Hi Hin).
    pose proof (wf_in_ts _ _ _ (wf_reachable _ R) Hin) as B.
    specialize (D i Hi). unfold Dl in D. rewrite app_nth1 by lia. reflexivity.
  - intros v0 Hin. apply in_app_or in Hin. destruct Hin as [Hin|[<-|[]]].
    + now apply (i_hist_len s I).
    + apply norm_length.
  - intros t0. destruct (Nat.eq_dec t0 t) as [->|Hn].
    + rewrite upd_pc_same. simpl. rewrite Ho. tauto.
    + rewrite upd_pc_other by assumption. apply (i_owner s I).
  - intros Hc. congruence.
  - intros t0 Ho'. assert (t0 = t) by congruence. subst t0. rewrite upd_pc_same.
    split; cbn [ms g_cur g_hist]; unfold Dl; rewrite ?(Lseq_eq _ _ Hm), ?Hm.
    + pose proof (mono_cur _ _ Mo t seqL). lia.
    + split; [assumption|]. split; [lia|]. split; [intros i Hi; simpl; now apply D|].
      split; [rewrite app_length; simpl; lia|].
      split; [rewrite app_nth2 by lia; rewrite Hh, Nat.sub_diag; reflexivity|].
      split; [intros i Hi; lia|].
      intros Hr. destruct Ok as (_ & _ & _ & _ & [Of|Od] & _); [|congruence].
      pose proof (fence_rel_snapshot _ _ _ _ St Of seqL). lia.
  - intros t0. destruct (Nat.eq_dec t0 t) as [->|Hn].
    + rewrite upd_pc_same. exact Logic.I.
    + rewrite upd_pc_other by assumption. apply (thr_inv_mono (ms s)); [assumption|apply (i_thr s I)].
Qed.

(** a data store (266) *)
Lemma step_wr_data : forall s t v q j M',
  inv s -> pcs s t = WrData v q j ->
  step (ms s) t (LStore (dL j) (o_data_store o) (nth j v 0%N)) M' ->
  inv {| ms := M';
         pcs := upd_pc (pcs s) t (if Nat.eqb (S j) W then WrUnlock q else WrData v q (S j));
         g_hist := g_hist s;
         g_gen := upd_gen (g_gen s) j (S (last_ts (memory (ms s) (dL j)))) (g_cur s);
         g_cur := g_cur s; g_owner := g_owner s |}.
Proof.
  intros s t v q j M' I Hpc St.
  pose proof (i_reach s I) as R. pose proof (wf_reachable _ R) as Wf.
  assert (R' : reachable M') by (eapply reach_step; eassumption).
  pose proof (mono_step _ _ _ _ Wf St) as Mo.
  destruct (store_facts _ _ _ _ _ _ R St) as (mk & E & Hts & Hv & Hoth & Hc & Hrel & Hrl).
  assert (Ho : g_owner s = Some t) by (apply owner_of_locked; [assumption|now rewrite Hpc]).
  pose proof (holder_G_pos s t I Ho) as Gp.
  pose proof (i_cur s I) as C. rewrite Ho in C.
  pose proof (i_locked s I t Ho) as H. rewrite Hpc in H.
  destruct H as (A & Q & Hj & D & Hh & Hn & Hcd & Hr).
  assert (Dj : last_ts (memory (ms s) (dL j)) = g_cur s - 1).
  { specialize (D j Hj). rewrite Nat.ltb_irrefl in D. exact D. }
  assert (Tk : m_ts mk = g_cur s) by lia.
  assert (Sm : memory M' seqL = memory (ms s) seqL) by (apply Hoth; intros X; discriminate).
  assert (Ls : Lseq M' = Lseq (ms s)) by (unfold Lseq; now rewrite Sm).
  assert (Dm : forall i, i <> j -> memory M' (dL i) = memory (ms s) (dL i)).
  { intros i Hi. apply Hoth. intros X. apply dL_inj in X. contradiction. }
  assert (Dl' : forall i, i < W -> Dl M' i = if Nat.ltb i (S j) then g_cur s else g_cur s - 1).
  { intros i Hi. unfold Dl. destruct (Nat.eq_dec i j) as [->|Hne].
    - rewrite E, last_ts_app, Tk. destruct (Nat.ltb_spec j (S j)); [reflexivity|lia].
    - rewrite Dm by assumption. specialize (D i Hi). unfold Dl in D. rewrite D.
      destruct (Nat.ltb_spec i j), (Nat.ltb_spec i (S j)); try reflexivity; lia. }
  constructor; cbn [ms pcs g_hist g_gen g_cur g_owner]; rewrite ?Ls, ?Sm.
  - exact R'.
  - apply (i_seq_val s I).
  - apply (i_seq_view s I).
  - rewrite Ho. exact C.
  - intros i m Hi Hin. unfold upd_gen. destruct (Nat.eq_dec i j) as [->|Hne].
    + rewrite Nat.eqb_refl. simpl. rewrite E in Hin. apply in_snoc in Hin.
      destruct Hin as [Hin| ->].
      * pose proof (wf_in_ts _ _ _ Wf Hin) as B.
        destruct (Nat.eqb_spec (m_ts m) (S (last_ts (memory (ms s) (dL j))))); [lia|].
        now apply (i_data_gen s I).
      * rewrite Hts, Nat.eqb_refl. lia.
    + rewrite Dm in Hin by assumption.
      destruct (Nat.eqb_spec i j); [contradiction|]. simpl. now apply (i_data_gen s I).
  - intros i m Hi Hin. destruct (Nat.eq_dec i j) as [->|Hne].
    + rewrite E in Hin. apply in_snoc in Hin. destruct Hin as [Hin| ->].
      * now apply (i_data_view s I j).
      * destruct (is_rel (o_data_store o)) eqn:Er.
        -- specialize (Hrel eq_refl seqL). lia.
        -- specialize (Hrl seqL). specialize (Hr eq_refl). lia.
    + rewrite Dm in Hin by assumption. now apply (i_data_view s I i).
  - intros i m Hi Hin. destruct (Nat.eq_dec i j) as [->|Hne].
    + rewrite E in Hin. apply in_snoc in Hin. destruct Hin as [Hin| ->].
      * now apply (i_data_val s I j).
      * rewrite Hv, Tk, Hn. now rewrite norm_nth.
    + rewrite Dm in Hin by assumption. now apply (i_data_val s I i).
  - apply (i_hist_len s I).
  - intros t0. destruct (Nat.eq_dec t0 t) as [->|Hne].
    + rewrite upd_pc_same, Ho. destruct (Nat.eqb (S j) W); simpl; tauto.
    + rewrite upd_pc_other by assumption. apply (i_owner s I).
  - intros Hc'. congruence.
  - intros t0 Ho'. assert (t0 = t) by congruence. subst t0. rewrite upd_pc_same.
    assert (A' : Lseq M' <= cur (threads M' t) seqL).
    { rewrite Ls. pose proof (mono_cur _ _ Mo t seqL). lia. }
    assert (Cd : forall i, i < S j -> g_cur s <= cur (threads M' t) (dL i)).
    { intros i Hi. destruct (Nat.eq_dec i j) as [->|Hne]; [lia|].
      assert (Hi' : i < j) by lia. specialize (Hcd i Hi').
      pose proof (mono_cur _ _ Mo t (dL i)). lia. }
    destruct (Nat.eqb_spec (S j) W) as [Ew|Ew]; (split; [exact A'|]); cbn [ms g_cur g_hist]; rewrite Ls.
    + split; [assumption|]. split.
      * intros i Hi. rewrite (Dl' i Hi). destruct (Nat.ltb_spec i (S j)); [reflexivity|lia].
      * split; [assumption|]. intros i Hi. apply Cd. lia.
    + split; [assumption|]. split; [lia|]. split; [exact Dl'|]. split; [assumption|].
      split; [assumption|]. split; [exact Cd|].
      intros Er. specialize (Hr Er). pose proof (mono_rel _ _ Mo t seqL). lia.
  - intros t0. destruct (Nat.eq_dec t0 t) as [->|Hne].
    + rewrite upd_pc_same. destruct (Nat.eqb (S j) W); exact Logic.I.
    + rewrite upd_pc_other by assumption. apply (thr_inv_mono (ms s)); [assumption|apply (i_thr s I)].
Qed.

(** the unlocking release store (230) *)
Lemma step_wr_unlock : forall s t q M',
  ok_load -> inv s -> pcs s t = WrUnlock q ->
  step (ms s) t (LStore seqL (o_unlock_store o) (q + 2)%N) M' ->
  inv {| ms := M'; pcs := upd_pc (pcs s) t Idle;
         g_hist := g_hist s; g_gen := g_gen s; g_cur := g_cur s; g_owner := None |}.
Proof.
  intros s t q M' Ok I Hpc St.
  pose proof (i_reach s I) as R. pose proof (wf_reachable _ R) as Wf.
  assert (R' : reachable M') by (eapply reach_step; eassumption).
  pose proof (mono_step _ _ _ _ Wf St) as Mo.
  destruct (store_facts _ _ _ _ _ _ R St) as (mk & E & Hts & Hv & Hoth & Hc & Hrel & Hrl).
  assert (Ho : g_owner s = Some t) by (apply owner_of_locked; [assumption|now rewrite Hpc]).
  pose proof (i_cur s I) as C. rewrite Ho in C.
  pose proof (i_locked s I t Ho) as H. rewrite Hpc in H.
  destruct H as (A & Q & D & Hh & Hcd).
  assert (Orel : is_rel (o_unlock_store o) = true) by apply Ok.
  assert (L' : Lseq M' = S (Lseq (ms s))).
  { unfold Lseq. rewrite E, last_ts_app, Hts. reflexivity. }
  assert (Dm : forall i, memory M' (dL i) = memory (ms s) (dL i)).
  { intros i. apply Hoth. apply dL_seqL. }
  constructor; cbn [ms pcs g_hist g_gen g_cur g_owner].
  - exact R'.
  - intros m Hin. rewrite E in Hin. apply in_snoc in Hin. destruct Hin as [Hin| ->].
    + now apply (i_seq_val s I).
    + rewrite Hv, Hts. fold (Lseq (ms s)). lia.
  - intros m i g Hin Hi Hg. rewrite E in Hin. apply in_snoc in Hin. destruct Hin as [Hin| ->].
    + now apply (i_seq_view s I).
    + rewrite Hts in Hg. fold (Lseq (ms s)) in Hg.
      specialize (Hcd i Hi). specialize (Hrel Orel (dL i)). lia.
  - lia.
  - intros i m Hi Hin. rewrite Dm in Hin. now apply (i_data_gen s I).
  - intros i m Hi Hin. rewrite Dm in Hin. now apply (i_data_view s I i).
  - intros i m Hi Hin. rewrite Dm in Hin. now apply (i_data_val s I).
  - apply (i_hist_len s I).
  - intros t0. destruct (Nat.eq_dec t0 t) as [->|Hn].
    + rewrite upd_pc_same. simpl. split; discriminate.
    + rewrite upd_pc_other by assumption. split; [|discriminate].
      intros Hl. apply (i_owner s I) in Hl. congruence.
  - intros _. split; [|exact Hh]. intros i Hi. unfold Dl. rewrite Dm. now apply D.
  - discriminate.
  - intros t0. destruct (Nat.eq_dec t0 t) as [->|Hn].
    + rewrite upd_pc_same. exact Logic.I.
    + rewrite upd_pc_other by assumption. apply (thr_inv_mono (ms s)); [assumption|apply (i_thr s I)].
Qed.

(** ** The invariant holds in every reachable state *)

Lemma inv_step : forall s t lab s',
  orders_ok_load o = true -> inv s -> pstep s t lab s' -> inv s'.
Proof.
  intros s t lab s' Ok I St. apply orders_ok_load_spec in Ok.
  destruct St.
  - now apply step_rd_seq1.
  - eapply step_rd_spin; eassumption.
  - eapply step_rd_data; eassumption.
  - eapply step_rd_fence; eassumption.
  - eapply step_rd_seq2; eassumption.
  - eapply step_wr_seq; [assumption|now apply idle_unlocked|eassumption].
  - eapply step_wr_seq; [assumption|now rewrite H|eassumption].
  - eapply step_wr_cas_ok; eassumption.
  - eapply step_wr_seq; [assumption|now rewrite H|eassumption].
  - eapply step_wr_read; eassumption.
  - eapply step_wr_rfence; eassumption.
  - eapply step_wr_fence; eassumption.
  - eapply step_wr_data; eassumption.
  - eapply step_wr_unlock; eassumption.
Qed.

Theorem inv_preach : forall s, orders_ok_load o = true -> preach s -> inv s.
Proof.
  intros s Ok R. induction R; [apply inv_init|eapply inv_step; eassumption].
Qed.


(** ** MAIN THEOREM: a load is never torn *)

Lemma in_combine_seq : forall (A : Type) (l : list A) a j x,
  In (j, x) (combine (seq a (length l)) l) -> a <= j /\ nth_error l (j - a) = Some x.
Proof.
  induction l as [|y l IH]; simpl; intros a j x H; [contradiction|].
  destruct H as [H|H].
  - inversion H; subst. split; [lia|]. now rewrite Nat.sub_diag.
  - apply IH in H. destruct H as [H1 H2]. split; [lia|].
    replace (j - a) with (S (j - S a)) by lia. exact H2.
Qed.

Lemma all_eq_repeat : forall (h : nat) l, (forall x, In x l -> x = h) -> l = repeat h (length l).
Proof.
  induction l as [|y l IH]; intros H; simpl; [reflexivity|].
  rewrite (H y) by now left. f_equal. apply IH. intros x Hx. apply H. now right.
Qed.

Lemma ret_gens_length : forall s buf, length (ret_gens s buf) = length buf.
Proof.
  intros. unfold ret_gens. rewrite map_length, combine_length, seq_length. apply Nat.min_id.
Qed.

Lemma ret_gens_same : forall s buf h,
  (forall j m, nth_error buf j = Some m -> g_gen s j (m_ts m) = h) ->
  ret_gens s buf = repeat h (length buf).
Proof.
  intros s buf h H. rewrite <- (ret_gens_length s buf). apply all_eq_repeat.
  intros x Hx. unfold ret_gens in Hx. apply in_map_iff in Hx. destruct Hx as ([j m] & <- & Hin).
  apply in_combine_seq in Hin. destruct Hin as [_ Hn]. rewrite Nat.sub_0_r in Hn.
  simpl. now apply H.
Qed.

Lemma hist_length_bound : forall s, inv s ->
  g_cur s <= length (g_hist s) /\ (g_owner s = None -> length (g_hist s) = S (g_cur s)).
Proof.
  intros s I. split; [|apply (i_unlocked s I)].
  destruct (g_owner s) as [t0|] eqn:Eo.
  - pose proof (i_locked s I t0 Eo) as H. destruct H as [_ H].
    destruct (pcs s t0); try contradiction; decompose [and] H; lia.
  - destruct (i_unlocked s I Eo) as [_ H]. lia.
Qed.

(** For every completed load (thread [t] is at [RdDone c0 mq buf]: load() was called when the
    thread's view of [_seq] was [c0], it validated its copy against the message [mq] of [_seq],
    the W words it returns were read from the messages [buf]) there is ONE generation [h] with:
    - the load returns exactly W words and every one of them carries generation [h]
      ([g_gen], [ret_gens]) - the value is not torn;
    - the words returned are exactly the value of generation [h] ([g_hist]);
    - generation [h] exists: its store had started ([h <= g_cur]) and in fact was complete
      ([2 * h] = timestamp of its unlocking store <= last timestamp of [_seq]) at the end of the load;
    - [c0 <= 2 * h]: generation [h] is not older than any store whose unlocking store (timestamp
      [2 * k]) was in the reader's view of [_seq] when load() was called ([2 * k <= c0] gives
      [k <= h]) - in particular not older than any store that happens-before the call. *)
Theorem seqlock_load_atomic_wm : forall s t c0 mq buf,
  orders_ok_load o = true -> preach s -> pcs s t = RdDone c0 mq buf ->
  exists h,
    length buf = W /\
    (forall j m, nth_error buf j = Some m ->
       g_gen s j (m_ts m) = h /\ m_val m = nth j (nth h (g_hist s) []) 0%N) /\
    ret_gens s buf = repeat h W /\
    ret_vals buf = nth h (g_hist s) [] /\
    h < length (g_hist s) /\ h <= g_cur s /\ 2 * h <= last_ts (memory (ms s) seqL) /\
    m_ts mq = 2 * h /\
    c0 <= 2 * h.
Proof.
  intros s t c0 mq buf Ok R Hpc. pose proof (inv_preach s Ok R) as I.
  pose proof (i_thr s I t) as T. rewrite Hpc in T. simpl in T.
  destruct T as (Inq & Hc0 & Hlen & h & Hh & F).
  pose proof (wf_in_ts _ _ _ (wf_reachable _ (i_reach s I)) Inq) as Bq. fold (Lseq (ms s)) in Bq.
  destruct (hist_length_bound s I) as [HL1 HL2].
  assert (Hcur : h <= g_cur s /\ h < length (g_hist s)).
  { pose proof (i_cur s I) as C. destruct (g_owner s) eqn:Eo.
    - split; lia.
    - specialize (HL2 eq_refl). split; lia. }
  assert (G : forall j m, nth_error buf j = Some m ->
                g_gen s j (m_ts m) = h /\ m_val m = nth j (nth h (g_hist s) []) 0%N).
  { intros j m Hj. destruct (F j m Hj) as [Hin Hts].
    assert (Hjw : j < W) by (rewrite <- Hlen; eapply nth_error_lt; eassumption).
    split.
    - rewrite (i_data_gen s I j m Hjw Hin). exact Hts.
    - rewrite (i_data_val s I j m Hjw Hin), Hts. reflexivity. }
  exists h. split; [assumption|]. split; [exact G|]. split.
  { rewrite <- Hlen. apply ret_gens_same. intros j m Hj. now apply G. }
  split.
  { assert (Lh : length (nth h (g_hist s) []) = W).
    { apply (i_hist_len s I). apply nth_In. lia. }
    unfold ret_vals. apply (nth_ext _ _ 0%N 0%N).
    - rewrite map_length. etransitivity; [exact Hlen|symmetry; exact Lh].
    - intros j Hj. rewrite map_length in Hj.
      destruct (nth_error buf j) as [m|] eqn:En; [|apply nth_error_None in En; lia].
      rewrite (nth_error_nth _ _ 0%N (map_nth_error m_val _ _ En)).
      now apply G. }
  unfold Lseq in Bq. repeat split; lia.
Qed.

(** the writers are mutually exclusive ... *)
Theorem seqlock_writers_exclusive_wm : forall s t1 t2,
  orders_ok_load o = true -> preach s ->
  locked (pcs s t1) = true -> locked (pcs s t2) = true -> t1 = t2.
Proof.
  intros s t1 t2 Ok R H1 H2. pose proof (inv_preach s Ok R) as I.
  apply (i_owner s I) in H1. apply (i_owner s I) in H2. congruence.
Qed.

(** ... and update() applies its functor to the LATEST value: when the functor is applied
    (thread at [WrRFence f q buf]), the W words read carry generation [g_cur - 1], the last
    complete one, and are exactly its value (no lost update).  Needs the acquire CAS (4). *)
Theorem seqlock_update_reads_latest_wm : forall s t f q buf,
  orders_ok o = true -> preach s -> pcs s t = WrRFence f q buf ->
  1 <= g_cur s /\ length (g_hist s) = g_cur s /\ length buf = W /\
  (forall j m, nth_error buf j = Some m -> g_gen s j (m_ts m) = g_cur s - 1) /\
  ret_gens s buf = repeat (g_cur s - 1) W /\
  ret_vals buf = nth (g_cur s - 1) (g_hist s) [].
Proof.
  intros s t f q buf Ok R Hpc. unfold orders_ok in Ok. apply andb_true_iff in Ok.
  destruct Ok as [Ok Oku]. pose proof (inv_preach s Ok R) as I.
  assert (Ho : g_owner s = Some t) by (apply owner_of_locked; [assumption|now rewrite Hpc]).
  pose proof (holder_G_pos s t I Ho) as Gp.
  pose proof (i_locked s I t Ho) as H. rewrite Hpc in H.
  destruct H as (A & Q & D & Hh & U & Len). destruct (U Oku) as [U1 U2].
  assert (G : forall j m, nth_error buf j = Some m -> g_gen s j (m_ts m) = g_cur s - 1).
  { intros j m Hj. destruct (U2 j m Hj) as [Hin Hts].
    assert (Hjw : j < W) by (rewrite <- Len; eapply nth_error_lt; eassumption).
    now rewrite (i_data_gen s I j m Hjw Hin). }
  split; [assumption|]. split; [assumption|]. split; [assumption|]. split; [exact G|]. split.
  { rewrite <- Len. now apply ret_gens_same. }
  assert (Lh : length (nth (g_cur s - 1) (g_hist s) []) = W).
  { apply (i_hist_len s I). apply nth_In. lia. }
  unfold ret_vals. apply (nth_ext _ _ 0%N 0%N).
  - rewrite map_length. etransitivity; [exact Len|symmetry; exact Lh].
  - intros j Hj. rewrite map_length in Hj.
    destruct (nth_error buf j) as [m|] eqn:En; [|apply nth_error_None in En; lia].
    rewrite (nth_error_nth _ _ 0%N (map_nth_error m_val _ _ En)).
    destruct (U2 j m En) as [Hin Hts].
    assert (Hjw : j < W) by lia.
    now rewrite (i_data_val s I j m Hjw Hin), Hts.
Qed.

(** a thread's own store is in its view afterwards: the unlocking store of generation [g_cur s]
    sets the thread's view of [_seq] to [2 * g_cur s]; views only grow ([ViewLemmas.mono]), so
    every later load() of this thread starts with [c0 >= 2 * g_cur s] and therefore (main
    theorem, [c0 <= 2 * h]) returns a generation [h >= g_cur s].  The same holds for every thread
    that has acquired a message carrying this view (that is what "happens-before" means in the machine). *)
Lemma seqlock_own_store_in_view_wm : forall s t q lab s',
  orders_ok_load o = true -> preach s -> pcs s t = WrUnlock q -> pstep s t lab s' ->
  cur (threads (ms s') t) seqL = 2 * g_cur s /\ g_cur s' = g_cur s.
Proof.
  intros s t q lab s' Ok R Hpc St. pose proof (inv_preach s Ok R) as I.
  assert (Ho : g_owner s = Some t) by (apply owner_of_locked; [assumption|now rewrite Hpc]).
  pose proof (i_cur s I) as C. rewrite Ho in C.
  destruct St; try (rewrite Hpc in *; discriminate). cbn [ms g_cur]. split; [|reflexivity].
  destruct (store_facts _ _ _ _ _ _ (i_reach s I) H0) as (mk & _ & Hts & _ & _ & Hc & _).
  fold (Lseq (ms s)) in Hts. lia.
Qed.

(** ** The executable form is sound *)

Lemma with_load_sound : forall M t l od i k lab s',
  with_load M t l od i k = Some (lab, s') ->
  exists m M', lab = LLoad l od m /\ s' = k m M' /\ step M t (LLoad l od m) M'.
Proof.
  unfold with_load. intros M t l od i k lab s' H.
  destruct (exec_load M t l od i) as [[m M']|] eqn:E; [|discriminate].
  inversion H; subst. exists m, M'. split; [reflexivity|]. split; [reflexivity|].
  eapply exec_load_step; eassumption.
Qed.

Lemma pexec_sound : forall s t c lab s', pexec W o s t c = Some (lab, s') -> pstep s t lab s'.
Proof.
  intros s t c lab s' H. unfold pexec in H. destruct c.
  - destruct (is_idle (pcs s t)) eqn:Ei; [|discriminate].
    apply with_load_sound in H. destruct H as (m & M' & -> & -> & St). now apply ps_rd_seq1.
  - destruct (is_idle (pcs s t)) eqn:Ei; [|discriminate].
    apply with_load_sound in H. destruct H as (m & M' & -> & -> & St). now apply ps_wr_load.
  - destruct (pcs s t) eqn:Ep; try discriminate;
      apply with_load_sound in H; destruct H as (m & M' & -> & -> & St).
    + eapply ps_rd_spin; eassumption.
    + eapply ps_rd_data; eassumption.
    + eapply ps_rd_seq2; eassumption.
    + eapply ps_wr_spin; eassumption.
    + eapply ps_wr_cas_fail; eassumption.
    + eapply ps_wr_read; eassumption.
  - destruct (pcs s t) eqn:Ep; try discriminate.
    destruct (N.eqb_spec (m_val (last_msg (memory (ms s) seqL))) q) as [Eq|]; [|discriminate].
    inversion H; subst. eapply ps_wr_cas_ok; [eassumption|reflexivity|constructor].
  - destruct (pcs s t) eqn:Ep; try discriminate; inversion H; subst.
    + eapply ps_rd_fence; [eassumption|constructor].
    + eapply ps_wr_rfence; [eassumption|constructor].
    + eapply ps_wr_fence; [eassumption|constructor].
    + eapply ps_wr_data; [eassumption|constructor].
    + eapply ps_wr_unlock; [eassumption|constructor].
Qed.

Lemma prun_sound : forall cs s tr s', prun W o s cs = Some (tr, s') -> ptrace s tr s'.
Proof.
  induction cs as [|[t c] cs IH]; intros s tr s' H; simpl in H.
  - inversion H; subst. constructor.
  - destruct (pexec W o s t c) as [[lab s1]|] eqn:E; [|discriminate].
    destruct (prun W o s1 cs) as [[tr1 s2]|] eqn:E2; [|discriminate].
    inversion H; subst. econstructor; [eapply pexec_sound; eassumption|now apply IH].
Qed.

Lemma pstep_step : forall s t lab s', pstep s t lab s' -> step (ms s) t lab (ms s').
Proof. intros s t lab s' H. destruct H; assumption. Qed.

(** the trace of a program execution is a valid trace of the machine *)
Lemma ptrace_valid : forall s tr s', ptrace s tr s' -> valid (ms s) tr /\ ms s' = run (ms s) tr.
Proof.
  induction 1 as [|s t lab s1 tr s2 St _ [IH1 IH2]]; simpl; [auto|].
  apply pstep_step in St. apply step_apply in St. destruct St as [En Eq].
  rewrite <- Eq. auto.
Qed.

Lemma ptrace_preach : forall s tr s', preach s -> ptrace s tr s' -> preach s'.
Proof.
  intros s tr s' R H. induction H; [assumption|]. apply IHptrace. eapply preach_step; eassumption.
Qed.

End Proof.

(** ** Concrete executions *)

(** "in some execution of the program with orders [od] (W words), whose machine trace has the
    summary [sg], thread [t] completes a load() that returns the words [vs] carrying the
    generations [gs]" *)
Definition exec_load_returns (Wn : nat) (od : orders) (sg : list esig) (t : tid)
           (gs : list nat) (vs : list val) : Prop :=
  exists tr s c0 mq buf,
    preach Wn od s /\ ptrace Wn od (pinit Wn) tr s /\
    valid init tr /\ ms s = run init tr /\ map sig_of tr = sg /\
    pcs s t = RdDone c0 mq buf /\ ret_gens s buf = gs /\ ret_vals buf = vs.

(** the same for the words an update() applies its functor to; [gc] = generations started *)
Definition exec_update_reads (Wn : nat) (od : orders) (sg : list esig) (t : tid)
           (gc : nat) (gs : list nat) : Prop :=
  exists tr s f q buf,
    preach Wn od s /\ ptrace Wn od (pinit Wn) tr s /\
    valid init tr /\ ms s = run init tr /\ map sig_of tr = sg /\
    pcs s t = WrRFence f q buf /\ g_cur s = gc /\ ret_gens s buf = gs.

Arguments exec_load_returns Wn%nat od sg t%nat gs%nat vs%N.
Arguments exec_update_reads Wn%nat od sg t%nat gc%nat gs%nat.

Lemma exec_witness : forall Wn od cs tr s,
  prun Wn od (pinit Wn) cs = Some (tr, s) ->
  preach Wn od s /\ ptrace Wn od (pinit Wn) tr s /\ valid init tr /\ ms s = run init tr.
Proof.
  intros Wn od cs tr s H. apply prun_sound in H.
  split; [eapply ptrace_preach; [constructor|eassumption]|]. split; [assumption|].
  apply ptrace_valid in H. exact H.
Qed.

Lemma exec_load_returns_by_computation : forall Wn od cs sg t gs vs,
  match prun Wn od (pinit Wn) cs with
  | Some (tr, s) => map sig_of tr = sg /\ done_gens s t = Some gs /\ done_vals s t = Some vs
  | None => False
  end -> exec_load_returns Wn od sg t gs vs.
Proof.
  intros Wn od cs sg t gs vs H.
  destruct (prun Wn od (pinit Wn) cs) as [[tr s]|] eqn:E; [|contradiction].
  destruct H as (H1 & H2 & H3). destruct (exec_witness _ _ _ _ _ E) as (R & P & V & M).
  unfold done_gens in H2. unfold done_vals in H3.
  destruct (pcs s t) eqn:Ep; try discriminate.
  exists tr, s, c0, mq, buf. inversion H2. inversion H3. auto 10.
Qed.

Lemma exec_update_reads_by_computation : forall Wn od cs sg t gc gs,
  match prun Wn od (pinit Wn) cs with
  | Some (tr, s) => map sig_of tr = sg /\ upd_gens s t = Some gs /\ g_cur s = gc
  | None => False
  end -> exec_update_reads Wn od sg t gc gs.
Proof.
  intros Wn od cs sg t gc gs H.
  destruct (prun Wn od (pinit Wn) cs) as [[tr s]|] eqn:E; [|contradiction].
  destruct H as (H1 & H2 & H3). destruct (exec_witness _ _ _ _ _ E) as (R & P & V & M).
  unfold upd_gens in H2.
  destruct (pcs s t) eqn:Ep; try discriminate.
  exists tr, s, f, q, buf. inversion H2. auto 10.
Qed.

Local Open Scope N_scope.

(** thread 1: store({7,8}) *)
Definition st78 : wop := WStore [7; 8].
Definition full_store : list (tid * choice) :=
  [(1%nat, CWrite st78 0); (1%nat, CCas); (1%nat, CGo); (1%nat, CGo); (1%nat, CGo); (1%nat, CGo)].

(** *** NON-VACUITY (a): with xenium's orders, 2 words: thread 1 stores {7,8}, thread 3 updates it
    to {8,9} (functor: +1 on every word), thread 2 loads and obtains generation 2 = {8,9} *)
Example xenium_load_completes :
  exec_load_returns 2 xenium_orders
    [ SLoad 1 0 Rlx 0 0; SRmw 1 0 Acq 1; SFence 1 Rel; SStore 1 1 Rlx 7; SStore 1 2 Rlx 8;
      SStore 1 0 Rel 2;
      SLoad 3 0 Rlx 2 2; SRmw 3 0 Acq 3; SLoad 3 1 Rlx 7 1; SLoad 3 2 Rlx 8 1; SFence 3 Acq;
      SFence 3 Rel; SStore 3 1 Rlx 8; SStore 3 2 Rlx 9; SStore 3 0 Rel 4;
      SLoad 2 0 Acq 4 4; SLoad 2 1 Rlx 8 2; SLoad 2 2 Rlx 9 2; SFence 2 Acq; SLoad 2 0 Acq 4 4 ]
    2 [2; 2]%nat [8; 9].
Proof.
  apply (exec_load_returns_by_computation 2 xenium_orders
    (full_store ++
     [(3%nat, CWrite (WUpdate (map (N.add 1))) 2); (3%nat, CCas); (3%nat, CRd 1); (3%nat, CRd 1);
      (3%nat, CGo); (3%nat, CGo); (3%nat, CGo); (3%nat, CGo); (3%nat, CGo);
      (2%nat, CLoad 4); (2%nat, CRd 2); (2%nat, CRd 2); (2%nat, CGo); (2%nat, CRd 4)])).
  vm_compute. repeat split.
Qed.

(** a load that overlaps a store retries: thread 2 reads word 0 old and word 1 new, the fence (6)
    makes the second load of _seq see the lock, the load retries and returns generation 1 *)
Example xenium_load_retries :
  exec_load_returns 2 xenium_orders
    [ SLoad 1 0 Rlx 0 0; SLoad 2 0 Acq 0 0; SRmw 1 0 Acq 1; SFence 1 Rel;
      SStore 1 1 Rlx 7; SStore 1 2 Rlx 8;
      SLoad 2 1 Rlx 0 0; SLoad 2 2 Rlx 8 1; SFence 2 Acq; SLoad 2 0 Acq 1 1;
      SStore 1 0 Rel 2;
      SLoad 2 0 Acq 2 2; SLoad 2 1 Rlx 7 1; SLoad 2 2 Rlx 8 1; SFence 2 Acq; SLoad 2 0 Acq 2 2 ]
    2 [1; 1]%nat [7; 8].
Proof.
  apply (exec_load_returns_by_computation 2 xenium_orders
    [(1%nat, CWrite st78 0); (2%nat, CLoad 0); (1%nat, CCas); (1%nat, CGo); (1%nat, CGo); (1%nat, CGo);
     (2%nat, CRd 0); (2%nat, CRd 1); (2%nat, CGo); (2%nat, CRd 1);
     (1%nat, CGo);
     (2%nat, CRd 2); (2%nat, CRd 1); (2%nat, CRd 1); (2%nat, CGo); (2%nat, CRd 2)]).
  vm_compute. repeat split.
Qed.

(** *** NECESSITY (b): every conjunct of [orders_ok] is needed - for each of them, the orders of
    xenium with that one site weakened to relaxed admit an execution of the machine in which
    load() returns word 0 of generation 0 together with word 1 of generation 1: {0,8}, a value
    that was never stored.  Program: W = 2, thread 1 does store({7,8}), thread 2 does load(). *)

(** the schedule / read choices of the main refutation *)
Definition cs_overlap : list (tid * choice) :=
  [(1%nat, CWrite st78 0); (2%nat, CLoad 0); (1%nat, CCas); (1%nat, CGo); (1%nat, CGo); (1%nat, CGo);
   (2%nat, CRd 0); (2%nat, CRd 1); (2%nat, CGo); (2%nat, CRd 0)].

(** (6) the acquire fence of read_data (243) missing / relaxed: the reader's second load of _seq
    may still read the old sequence value although word 1 was read from the concurrent store *)
Theorem weak_orders_torn :
  exec_load_returns 2 weak_orders
    [ SLoad 1 0 Rlx 0 0;          (* T1 210: seq = 0 *)
      SLoad 2 0 Acq 0 0;          (* T2 158: seq = 0 *)
      SRmw 1 0 Acq 1;             (* T1 218: lock, _seq = 1 *)
      SFence 1 Rel;               (* T1 260 *)
      SStore 1 1 Rlx 7;           (* T1 266: word 0 := 7 *)
      SStore 1 2 Rlx 8;           (* T1 266: word 1 := 8 *)
      SLoad 2 1 Rlx 0 0;          (* T2 240: word 0 = 0 (generation 0) *)
      SLoad 2 2 Rlx 8 1;          (* T2 240: word 1 = 8 (generation 1) *)
      SFence 2 Rlx;               (* T2 243: no fence *)
      SLoad 2 0 Acq 0 0 ]         (* T2 179: seq2 = 0 = seq: accepted *)
    2 [0; 1]%nat [0; 8].
Proof.
  apply (exec_load_returns_by_computation 2 weak_orders cs_overlap). vm_compute. repeat split.
Qed.

(** the machine rejects these read choices under xenium's orders (after the acquire fence the
    old message of _seq is no longer readable) *)
Example xenium_orders_reject_overlap : prun 2 xenium_orders (pinit 2) cs_overlap = None.
Proof. vm_compute. reflexivity. Qed.

(** hence the conclusion of the main theorem is FALSE for [weak_orders] *)
Theorem weak_orders_refute_atomicity :
  ~ (forall s t c0 mq buf, preach 2 weak_orders s -> pcs s t = RdDone c0 mq buf ->
       exists h, ret_gens s buf = repeat h 2).
Proof.
  intros H. destruct weak_orders_torn as (tr & s & c0 & mq & buf & R & _ & _ & _ & _ & Hpc & Hg & _).
  destruct (H s 2%nat c0 mq buf R Hpc) as [h Hh]. rewrite Hg in Hh. simpl in Hh.
  inversion Hh. lia.
Qed.

(** (1) the first load of _seq (158) relaxed: it may read the new sequence value without
    acquiring the data stores *)
Theorem weak_load_seq1_torn :
  exec_load_returns 2 (set_load_seq1 Rlx xenium_orders)
    [ SLoad 1 0 Rlx 0 0; SRmw 1 0 Acq 1; SFence 1 Rel; SStore 1 1 Rlx 7; SStore 1 2 Rlx 8;
      SStore 1 0 Rel 2;
      SLoad 2 0 Rlx 2 2; SLoad 2 1 Rlx 0 0; SLoad 2 2 Rlx 8 1; SFence 2 Acq; SLoad 2 0 Acq 2 2 ]
    2 [0; 1]%nat [0; 8].
Proof.
  apply (exec_load_returns_by_computation 2 _
    (full_store ++ [(2%nat, CLoad 2); (2%nat, CRd 0); (2%nat, CRd 1); (2%nat, CGo); (2%nat, CRd 2)])).
  vm_compute. repeat split.
Qed.

(** (2) the load of _seq in the wait loop (167) relaxed *)
Theorem weak_load_seq_spin_torn :
  exec_load_returns 2 (set_load_seq_spin Rlx xenium_orders)
    [ SLoad 1 0 Rlx 0 0; SRmw 1 0 Acq 1; SLoad 2 0 Acq 1 1;
      SFence 1 Rel; SStore 1 1 Rlx 7; SStore 1 2 Rlx 8; SStore 1 0 Rel 2;
      SLoad 2 0 Rlx 2 2; SLoad 2 1 Rlx 0 0; SLoad 2 2 Rlx 8 1; SFence 2 Acq; SLoad 2 0 Acq 2 2 ]
    2 [0; 1]%nat [0; 8].
Proof.
  apply (exec_load_returns_by_computation 2 _
    [(1%nat, CWrite st78 0); (1%nat, CCas); (2%nat, CLoad 1);
     (1%nat, CGo); (1%nat, CGo); (1%nat, CGo); (1%nat, CGo);
     (2%nat, CRd 2); (2%nat, CRd 0); (2%nat, CRd 1); (2%nat, CGo); (2%nat, CRd 2)]).
  vm_compute. repeat split.
Qed.

(** (3) the second load of _seq (179) relaxed: after a failed validation its value becomes the
    new [seq] of the retry *)
Theorem weak_load_seq2_torn :
  exec_load_returns 2 (set_load_seq2 Rlx xenium_orders)
    [ SLoad 2 0 Acq 0 0; SLoad 2 1 Rlx 0 0; SLoad 2 2 Rlx 0 0; SFence 2 Acq;
      SLoad 1 0 Rlx 0 0; SRmw 1 0 Acq 1; SFence 1 Rel; SStore 1 1 Rlx 7; SStore 1 2 Rlx 8;
      SStore 1 0 Rel 2;
      SLoad 2 0 Rlx 2 2;
      SLoad 2 1 Rlx 0 0; SLoad 2 2 Rlx 8 1; SFence 2 Acq; SLoad 2 0 Rlx 2 2 ]
    2 [0; 1]%nat [0; 8].
Proof.
  apply (exec_load_returns_by_computation 2 _
    ([(2%nat, CLoad 0); (2%nat, CRd 0); (2%nat, CRd 0); (2%nat, CGo)] ++ full_store ++
     [(2%nat, CRd 2); (2%nat, CRd 0); (2%nat, CRd 1); (2%nat, CGo); (2%nat, CRd 2)])).
  vm_compute. repeat split.
Qed.

(** (7) the release fence of store_data (260) missing / relaxed (data stores relaxed) *)
Theorem weak_fence_before_data_torn :
  exec_load_returns 2 (set_fence_before_data Rlx xenium_orders)
    [ SLoad 1 0 Rlx 0 0; SLoad 2 0 Acq 0 0; SRmw 1 0 Acq 1; SFence 1 Rlx;
      SStore 1 1 Rlx 7; SStore 1 2 Rlx 8;
      SLoad 2 1 Rlx 0 0; SLoad 2 2 Rlx 8 1; SFence 2 Acq; SLoad 2 0 Acq 0 0 ]
    2 [0; 1]%nat [0; 8].
Proof.
  apply (exec_load_returns_by_computation 2 _ cs_overlap). vm_compute. repeat split.
Qed.

(** (5) the unlocking store (230) relaxed *)
Theorem weak_unlock_store_torn :
  exec_load_returns 2 (set_unlock_store Rlx xenium_orders)
    [ SLoad 1 0 Rlx 0 0; SRmw 1 0 Acq 1; SFence 1 Rel; SStore 1 1 Rlx 7; SStore 1 2 Rlx 8;
      SStore 1 0 Rlx 2;
      SLoad 2 0 Acq 2 2; SLoad 2 1 Rlx 0 0; SLoad 2 2 Rlx 8 1; SFence 2 Acq; SLoad 2 0 Acq 2 2 ]
    2 [0; 1]%nat [0; 8].
Proof.
  apply (exec_load_returns_by_computation 2 _
    (full_store ++ [(2%nat, CLoad 2); (2%nat, CRd 0); (2%nat, CRd 1); (2%nat, CGo); (2%nat, CRd 2)])).
  vm_compute. repeat split.
Qed.

(** (4) the locking CAS (218) relaxed: update() of thread 2, after the complete store of
    thread 1 (2 generations started), applies its functor to the words of generation 0 *)
Theorem weak_lock_cas_stale_update :
  exec_update_reads 2 (set_lock_cas Rlx xenium_orders)
    [ SLoad 1 0 Rlx 0 0; SRmw 1 0 Rlx 1; SFence 1 Rel; SStore 1 1 Rlx 7; SStore 1 2 Rlx 8;
      SStore 1 0 Rel 2;
      SLoad 2 0 Rlx 2 2; SRmw 2 0 Rlx 3; SLoad 2 1 Rlx 0 0; SLoad 2 2 Rlx 0 0 ]
    2 2%nat [0; 0]%nat.
Proof.
  apply (exec_update_reads_by_computation 2 _
    (full_store ++ [(2%nat, CWrite (WUpdate (map (N.add 1))) 2); (2%nat, CCas);
                    (2%nat, CRd 0); (2%nat, CRd 0)])).
  vm_compute. repeat split.
Qed.

(** ** Summary theorem (the form used in Properties/Properties_C03_seqlock.v) *)

Local Close Scope N_scope.

Theorem seqlock_weak_atomic : forall W o, 1 <= W -> orders_ok o = true ->
  forall s, preach W o s ->
  (* load() is never torn, returns a complete, current-enough generation *)
  (forall t c0 mq buf, pcs s t = RdDone c0 mq buf ->
     exists h,
       length buf = W /\
       (forall j m, nth_error buf j = Some m ->
          g_gen s j (m_ts m) = h /\ m_val m = nth j (nth h (g_hist s) []) 0%N) /\
       ret_gens s buf = repeat h W /\
       ret_vals buf = nth h (g_hist s) [] /\
       (h < length (g_hist s))%nat /\ (h <= g_cur s)%nat /\
       (2 * h <= last_ts (memory (ms s) seqL))%nat /\
       m_ts mq = (2 * h)%nat /\
       (c0 <= 2 * h)%nat) /\
  (* update() applies its functor to the latest generation *)
  (forall t f q buf, pcs s t = WrRFence f q buf ->
     (1 <= g_cur s)%nat /\ length (g_hist s) = g_cur s /\ length buf = W /\
     (forall j m, nth_error buf j = Some m -> g_gen s j (m_ts m) = (g_cur s - 1)%nat) /\
     ret_gens s buf = repeat (g_cur s - 1)%nat W /\
     ret_vals buf = nth (g_cur s - 1)%nat (g_hist s) []) /\
  (* writers are mutually exclusive *)
  (forall t1 t2, locked (pcs s t1) = true -> locked (pcs s t2) = true -> t1 = t2).
Proof.
  intros W o HW Ok s R.
  assert (Okl : orders_ok_load o = true).
  { unfold orders_ok in Ok. apply andb_true_iff in Ok. tauto. }
  split; [|split].
  - intros t c0 mq buf Hpc. exact (seqlock_load_atomic_wm W HW o s t c0 mq buf Okl R Hpc).
  - intros t f q buf Hpc. exact (seqlock_update_reads_latest_wm W HW o s t f q buf Ok R Hpc).
  - intros t1 t2. exact (seqlock_writers_exclusive_wm W HW o s t1 t2 Okl R).
Qed.

(** ** Tie to the generated code: the model's [is_write_pending] is the function generated from
       seqlock.hpp:142 (gen/SeqlockGen.v, regenerated from the C++ source on every run) *)
Require XV.gen.SeqlockGen.
Lemma is_write_pending_generated : forall q,
  SeqlockWM.is_write_pending q = XV.gen.SeqlockGen.is_write_pending q.
Proof.
  intros q. unfold SeqlockWM.is_write_pending, XV.gen.SeqlockGen.is_write_pending.
  destruct q as [|p]; [reflexivity|]. destruct p; reflexivity.
Qed.
