(** * WM.VyukovWMProof : over the weak-memory machine, xenium::vyukov_bounded_queue passes every element
      from its push to exactly one pop (message passing), its plain accesses are race free, failures are
      justified by the messages read; the conditions on the memory orders are necessary.

    The model is in WM/VyukovWM.v, the machine in WM/View.v, its meta-theory in WM/ViewLemmas.v. *)

Require Import List NArith Arith Lia Bool.
Import ListNotations.
Require Import XV.WM.View XV.WM.ViewLemmas XV.WM.VyukovWM.

(** ** Arithmetic of tickets: ticket [p] lives in cell [p mod cap] on lap [p / cap] *)

Lemma decomp_unique : forall cap i k i' k', i < cap -> i' < cap ->
  i + k * cap = i' + k' * cap -> i = i' /\ k = k'.
Proof.
  intros cap i k i' k' Hi Hi' H.
  assert (E1 : i = (i + k * cap) mod cap) by (apply (Nat.mod_unique _ _ k); [assumption|lia]).
  assert (E2 : i' = (i + k * cap) mod cap) by (apply (Nat.mod_unique _ _ k'); [assumption|lia]).
  assert (E3 : k = (i + k * cap) / cap) by (apply (Nat.div_unique _ _ _ i); [assumption|lia]).
  assert (E4 : k' = (i + k * cap) / cap) by (apply (Nat.div_unique _ _ _ i'); [assumption|lia]).
  split; congruence.
Qed.

Lemma mul_lt_cancel : forall cap k k', k * cap < k' * cap -> k < k'.
Proof.
  intros cap k k' H. destruct (Nat.lt_ge_cases k k') as [L|L]; [assumption|].
  pose proof (Nat.mul_le_mono_r _ _ cap L). lia.
Qed.

Lemma mul_le_cancel : forall cap k k', 0 < cap -> k * cap <= k' * cap -> k <= k'.
Proof.
  intros cap k k' Hc H. destruct (Nat.le_gt_cases k k') as [L|L]; [assumption|].
  assert (S k' <= k) by lia. pose proof (Nat.mul_le_mono_r _ _ cap H0). lia.
Qed.

Lemma pos_decomp : forall cap p, 0 < cap -> p = cellof cap p + lapof cap p * cap.
Proof. intros. unfold cellof, lapof. pose proof (Nat.div_mod p cap). lia. Qed.

Lemma cellof_lt : forall cap p, 0 < cap -> cellof cap p < cap.
Proof. intros. unfold cellof. apply Nat.mod_upper_bound. lia. Qed.

Lemma cell_lap_of : forall cap i k, i < cap ->
  cellof cap (i + k * cap) = i /\ lapof cap (i + k * cap) = k.
Proof.
  intros cap i k Hi. assert (Hc : 0 < cap) by lia.
  pose proof (pos_decomp cap (i + k * cap) Hc) as E.
  pose proof (cellof_lt cap (i + k * cap) Hc) as L.
  destruct (decomp_unique cap _ _ _ _ L Hi (eq_sym E)). auto.
Qed.

Lemma parity : forall n, (exists k, n = 2 * k) \/ (exists k, n = 2 * k + 1).
Proof.
  intros n. destruct (Nat.Even_or_Odd n) as [[k ->]|[k ->]]; [left|right]; exists k; lia.
Qed.

(** ** Locations *)

Lemma seqL_inj : forall i j, seqL i = seqL j -> i = j.
Proof. unfold seqL; intros; lia. Qed.
Lemma valL_inj : forall i j, valL i = valL j -> i = j.
Proof. unfold valL; intros; lia. Qed.
Lemma seqL_valL : forall i j, seqL i <> valL j.
Proof. unfold seqL, valL; intros; lia. Qed.
Lemma seqL_enqL : forall i, seqL i <> enqL.
Proof. unfold seqL, enqL; intros; lia. Qed.
Lemma seqL_deqL : forall i, seqL i <> deqL.
Proof. unfold seqL, deqL; intros; lia. Qed.
Lemma valL_enqL : forall i, valL i <> enqL.
Proof. unfold valL, enqL; intros; lia. Qed.
Lemma valL_deqL : forall i, valL i <> deqL.
Proof. unfold valL, deqL; intros; lia. Qed.
Lemma enqL_deqL : enqL <> deqL.
Proof. discriminate. Qed.

Lemma init_val_seqL : forall i, init_val (seqL i) = N.of_nat i.
Proof.
  intros i. unfold init_val, seqL.
  replace (2 + 2 * i) with (2 * (S i)) by lia.
  rewrite Nat.even_mul. simpl (Nat.even 2). simpl orb.
  destruct (Nat.leb_spec 2 (2 * S i)); [|lia]. simpl andb. cbv iota.
  rewrite Nat.div2_double. f_equal. lia.
Qed.

Lemma init_val_enqL : init_val enqL = 0%N.
Proof. reflexivity. Qed.
Lemma init_val_deqL : init_val deqL = 0%N.
Proof. reflexivity. Qed.

(** ** The initial machine state is well formed; machine facts from [wf] *)

Lemma wf_minit : wf minit.
Proof.
  constructor; simpl; intros; try (unfold vbot; lia).
  - discriminate.
  - split; [intros ? []|exact Logic.I].
  - destruct H as [<-|[]]. unfold last_ts, last_msg; simpl. unfold vbot; lia.
  - destruct H as [<-|[]]. reflexivity.
Qed.

Lemma in_snoc : forall (m mk : msg) l, In m (l ++ [mk]) <-> In m l \/ m = mk.
Proof. intros. rewrite in_app_iff. simpl. intuition. Qed.

Lemma load_facts : forall M t l od m M',
  wf M -> step M t (LLoad l od m) M' ->
  wf M' /\ mono M M' /\ memory M' = memory M /\ In m (memory M l) /\
  cur (threads M t) l <= m_ts m /\ m_ts m <= cur (threads M' t) l.
Proof.
  intros M t l od m M' Wf St.
  split; [eapply wf_step; eassumption|].
  split; [apply (mono_step _ _ _ _ Wf St)|].
  pose proof (load_reads_ge_cur _ _ _ _ _ _ St). pose proof (load_cur_ge _ _ _ _ _ _ St).
  destruct (step_load_inv _ _ _ _ _ _ St) as [[Hin _] ->]. auto.
Qed.

Lemma store_facts : forall M t l od v M',
  wf M -> step M t (LStore l od v) M' ->
  wf M' /\ mono M M' /\
  exists mk, memory M' l = memory M l ++ [mk] /\ m_ts mk = S (last_ts (memory M l)) /\
    m_val mk = v /\
    (forall l', l' <> l -> memory M' l' = memory M l') /\
    cur (threads M' t) l = m_ts mk /\
    (is_rel od = true -> forall l', cur (threads M t) l' <= m_view mk l').
Proof.
  intros M t l od v M' Wf St.
  split; [eapply wf_step; eassumption|].
  split; [apply (mono_step _ _ _ _ Wf St)|].
  destruct (store_new_message _ _ _ _ _ _ St) as (mk & E & Hts & Hv & Ho & Hc).
  exists mk. repeat split; try assumption.
  intros A l'. apply step_store_inv in St. subst M'. unfold do_store in *.
  rewrite memory_store_same in E. apply app_inj_tail in E. destruct E as [_ <-].
  rewrite new_msg_view, A.
  pose proof (read_view_ge_cur M t od l'). pose proof (wf_read_view M t od l Wf).
  unfold upd. destruct (Nat.eqb_spec l' l) as [->|]; lia.
Qed.

Lemma rmw_facts : forall M t l od v M',
  wf M -> step M t (LRmw l od v) M' ->
  wf M' /\ mono M M' /\
  exists mk, memory M' l = memory M l ++ [mk] /\ m_ts mk = S (last_ts (memory M l)) /\
    m_val mk = v /\
    (forall l', l' <> l -> memory M' l' = memory M l').
Proof.
  intros M t l od v M' Wf St.
  split; [eapply wf_step; eassumption|].
  split; [apply (mono_step _ _ _ _ Wf St)|].
  destruct (rmw_new_message _ _ _ _ _ _ St) as (mk & E & Hts & Hv & Ho & Hc).
  exists mk. auto.
Qed.

Lemma upd_pc_same : forall f t p, upd_pc f t p t = p.
Proof. intros; unfold upd_pc; now rewrite Nat.eqb_refl. Qed.
Lemma upd_pc_other : forall f t p t', t' <> t -> upd_pc f t p t' = f t'.
Proof. intros; unfold upd_pc. destruct (Nat.eqb_spec t' t); [contradiction|reflexivity]. Qed.
Lemma upd_cell_same : forall (A : Type) (f : nat -> A) i x, upd_cell f i x i = x.
Proof. intros; unfold upd_cell; now rewrite Nat.eqb_refl. Qed.
Lemma upd_cell_other : forall (A : Type) (f : nat -> A) i x i', i' <> i -> upd_cell f i x i' = f i'.
Proof. intros; unfold upd_cell. destruct (Nat.eqb_spec i' i); [contradiction|reflexivity]. Qed.

Lemma vle_mono_r : forall a b c, vle a b -> (forall l, b l <= c l) -> vle a c.
Proof. intros a b c H1 H2 l. specialize (H1 l). specialize (H2 l). lia. Qed.

Lemma nth_snoc_lt : forall (l : list val) x p, p < length l -> nth p (l ++ [x]) 0%N = nth p l 0%N.
Proof. intros. now apply app_nth1. Qed.
Lemma nth_snoc_eq : forall (l : list val) x, nth (length l) (l ++ [x]) 0%N = x.
Proof. intros. rewrite app_nth2 by lia. now rewrite Nat.sub_diag. Qed.

Lemma enqL_valL : forall i, enqL <> valL i.
Proof. unfold valL, enqL; intros; lia. Qed.
Lemma deqL_valL : forall i, deqL <> valL i.
Proof. unfold valL, deqL; intros; lia. Qed.
Lemma enqL_seqL : forall i, enqL <> seqL i.
Proof. unfold seqL, enqL; intros; lia. Qed.
Lemma deqL_seqL : forall i, deqL <> seqL i.
Proof. unfold seqL, deqL; intros; lia. Qed.
Lemma valL_seqL : forall i j, valL i <> seqL j.
Proof. unfold seqL, valL; intros; lia. Qed.

Section Proof.

Variable cap : nat.
Hypothesis cap_ge : 2 <= cap.
Variable o : orders.

Notation cellof := (cellof cap).
Notation lapof := (lapof cap).
Notation pstep := (pstep cap o).
Notation preach := (preach cap o).
Notation ptrace := (ptrace cap o).

(** ** The invariant *)

(** last timestamps: [E] = number of push tickets issued, [D] = number of pop tickets issued *)
Definition E (M : state) : ts := last_ts (memory M enqL).
Definition D (M : state) : ts := last_ts (memory M deqL).
Definition Ls (M : state) (i : nat) : ts := last_ts (memory M (seqL i)).
Definition Lv (M : state) (i : nat) : ts := last_ts (memory M (valL i)).

(** the cell a thread owns *)
Definition holds (p : pc) : option nat :=
  match p with
  | PWrite _ pos | PStore _ pos | QRead pos | QStore pos _ => Some (cellof pos)
  | _ => None
  end.

Definition thr_inv (M : state) (rv : nat -> view) (t : tid) (p : pc) : Prop :=
  match p with
  | PSeq w v pos => pos <= E M
  | PCas w v pos =>
      pos <= E M /\ 2 * lapof pos <= Ls M (cellof pos) /\
      lapof pos <= cur (threads M t) (valL (cellof pos)) /\
      (Ls M (cellof pos) = 2 * lapof pos -> vle (rv (cellof pos)) (cur (threads M t)))
  | PEnq2 v pos mq | PDeq v pos mq =>
      pos <= E M /\ In mq (memory M (seqL (cellof pos))) /\ m_val mq <> N.of_nat pos
  | PFull w pos mq md =>
      pos <= E M /\ In mq (memory M (seqL (cellof pos))) /\
      match md with
      | None => w = true /\ (m_val mq < N.of_nat pos)%N
      | Some d => w = false /\ m_val mq <> N.of_nat pos /\
                  In d (memory M deqL) /\ (m_val d + N.of_nat cap = N.of_nat pos)%N
      end
  | QSeq w pos => pos <= D M
  | QCas w pos =>
      pos <= D M /\ 2 * lapof pos + 1 <= Ls M (cellof pos) /\
      lapof pos + 1 <= cur (threads M t) (valL (cellof pos))
  | QDeq2 pos mq | QEnq pos mq =>
      pos <= D M /\ In mq (memory M (seqL (cellof pos))) /\ m_val mq <> N.of_nat (pos + 1)
  | QEmpty w pos mq me =>
      pos <= D M /\ In mq (memory M (seqL (cellof pos))) /\
      match me with
      | None => w = true /\ (m_val mq < N.of_nat (pos + 1))%N
      | Some e => w = false /\ m_val mq <> N.of_nat (pos + 1) /\
                  In e (memory M enqL) /\ m_val e = N.of_nat pos
      end
  | _ => True
  end.

(** the owner of a cell; [Lv = cur] of the owner is the race freedom of its plain access *)
Definition holder_inv (s : pstate) (t : tid) (p : pc) : Prop :=
  let M := ms s in
  match p with
  | PWrite v pos =>
      pos < E M /\ Ls M (cellof pos) = 2 * lapof pos /\ Lv M (cellof pos) = lapof pos /\
      lapof pos <= cur (threads M t) (valL (cellof pos)) /\
      vle (g_rview s (cellof pos)) (cur (threads M t)) /\
      nth pos (g_push s) 0%N = v
  | PStore v pos =>
      pos < E M /\ Ls M (cellof pos) = 2 * lapof pos /\ Lv M (cellof pos) = lapof pos + 1 /\
      lapof pos + 1 <= cur (threads M t) (valL (cellof pos)) /\
      nth pos (g_push s) 0%N = v
  | QRead pos =>
      pos < D M /\ pos < E M /\ Ls M (cellof pos) = 2 * lapof pos + 1 /\
      Lv M (cellof pos) = lapof pos + 1 /\
      lapof pos + 1 <= cur (threads M t) (valL (cellof pos))
  | QStore pos m =>
      pos < D M /\ pos < E M /\ Ls M (cellof pos) = 2 * lapof pos + 1 /\
      Lv M (cellof pos) = lapof pos + 1 /\
      lapof pos + 1 <= cur (threads M t) (valL (cellof pos)) /\
      vle (g_rview s (cellof pos)) (cur (threads M t)) /\
      In m (memory M (valL (cellof pos))) /\ m_ts m = lapof pos + 1 /\
      In (pos, m_val m) (g_pop s)
  | _ => False
  end.

Definition cell_inv (s : pstate) (i : nat) : Prop :=
  match g_own s i with
  | Some t => holder_inv s t (pcs s t)
  | None => forall k,
      (Ls (ms s) i = 2 * k -> E (ms s) <= i + k * cap /\ Lv (ms s) i = k) /\
      (Ls (ms s) i = 2 * k + 1 -> D (ms s) <= i + k * cap /\ Lv (ms s) i = k + 1)
  end.

(** the pop with ticket [p] has read its element *)
Definition qstore_at (s : pstate) (p : nat) : Prop :=
  match g_own s (cellof p) with
  | Some t => match pcs s t with QStore p' _ => p' = p | _ => False end
  | None => False
  end.
Definition pop_done (s : pstate) (p : nat) : Prop :=
  2 * lapof p + 2 <= Ls (ms s) (cellof p) \/ qstore_at s p.
(** the pop with ticket [p] is about to read its element *)
Definition qread_at (s : pstate) (p : nat) : Prop :=
  match g_own s (cellof p) with
  | Some t => pcs s t = QRead p
  | None => False
  end.

Definition done_inv (s : pstate) (p : pc) : Prop :=
  match p with
  | PDone v pos => pos < length (g_push s) /\ nth pos (g_push s) 0%N = v
  | QDone pos m => In (pos, m_val m) (g_pop s)
  | _ => True
  end.

Record inv (s : pstate) : Prop := {
  i_wf : wf (ms s);
  (* enqueue_pos / dequeue_pos: value = timestamp (every write is a successful CAS, +1) *)
  i_enq_val : forall m, In m (memory (ms s) enqL) -> m_val m = N.of_nat (m_ts m);
  i_deq_val : forall m, In m (memory (ms s) deqL) -> m_val m = N.of_nat (m_ts m);
  (* the sequence of cell i: the message with timestamp 2k holds i + k cap (free for push ticket
     i + k cap), the one with timestamp 2k+1 holds i + k cap + 1 (holds the element of that ticket) *)
  i_seq_val : forall i m k, i < cap -> In m (memory (ms s) (seqL i)) ->
      (m_ts m = 2 * k -> m_val m = N.of_nat (i + k * cap)) /\
      (m_ts m = 2 * k + 1 -> m_val m = N.of_nat (i + k * cap + 1));
  (* ... and carries the writes to the value slot made so far *)
  i_seq_view : forall i m k, i < cap -> In m (memory (ms s) (seqL i)) ->
      2 * k <= m_ts m + 1 -> k <= m_view m (valL i);
  (* ... and, if it is the latest message and frees the cell, the view of the reader of the slot *)
  i_seq_rview : forall i m k, i < cap -> In m (memory (ms s) (seqL i)) ->
      m_ts m = 2 * k -> Ls (ms s) i = 2 * k -> vle (g_rview s i) (m_view m);
  (* the value slot of cell i: the message with timestamp j+1 is the element of push ticket i + j cap *)
  i_val_val : forall i m j, i < cap -> In m (memory (ms s) (valL i)) -> m_ts m = S j ->
      i + j * cap < length (g_push s) /\ m_val m = nth (i + j * cap) (g_push s) 0%N;
  i_push_len : length (g_push s) = E (ms s);
  i_bounds : forall i k, i < cap ->
      (2 * k + 1 <= Ls (ms s) i -> i + k * cap < E (ms s)) /\
      (2 * k + 2 <= Ls (ms s) i -> i + k * cap < D (ms s)) /\
      (i + k * cap < E (ms s) -> 2 * k <= Ls (ms s) i) /\
      (i + k * cap < D (ms s) -> 2 * k + 1 <= Ls (ms s) i);
  i_owner : forall t i, holds (pcs s t) = Some i <-> g_own s i = Some t;
  i_cell : forall i, i < cap -> cell_inv s i;
  (* the pops *)
  i_pop_in : forall p v, In (p, v) (g_pop s) ->
      p < D (ms s) /\ p < length (g_push s) /\ v = nth p (g_push s) 0%N /\ pop_done s p;
  i_pop_nodup : NoDup (map fst (g_pop s));
  i_pop_all : forall p, p < D (ms s) -> In p (map fst (g_pop s)) \/ qread_at s p;
  i_done : forall t, done_inv s (pcs s t);
  i_thr : forall t, thr_inv (ms s) (g_rview s) t (pcs s t)
}.

Lemma cap_pos : 0 < cap.
Proof. lia. Qed.

Lemma inv_init : inv (pinit).
Proof.
  constructor; simpl.
  - apply wf_minit.
  - intros m [<-|[]]. reflexivity.
  - intros m [<-|[]]. reflexivity.
  - intros i m k Hi [<-|[]]. simpl. rewrite init_val_seqL. split; intros H; [|lia].
    assert (k = 0) by lia. subst. f_equal. lia.
  - intros i m k Hi [<-|[]]. simpl. intros H. unfold vbot. lia.
  - intros i m k Hi [<-|[]] _ _. intros l. simpl. unfold vbot. lia.
  - intros i m j Hi [<-|[]]. simpl. discriminate.
  - reflexivity.
  - intros i k Hi. unfold Ls, E, D, last_ts, last_msg. simpl. repeat split; intros; lia.
  - intros t i. split; discriminate.
  - intros i Hi. unfold cell_inv. simpl. intros k. unfold Ls, Lv, E, D, last_ts, last_msg. simpl.
    split; intros; lia.
  - intros p v [].
  - constructor.
  - intros p H. unfold D, last_ts, last_msg in H. simpl in H. lia.
  - intros t. exact Logic.I.
  - intros t. exact Logic.I.
Qed.

(** ** Monotonicity of the per-thread facts *)

Lemma mono_E : forall M M', mono M M' -> E M <= E M'.
Proof. intros. apply (mono_last _ _ H). Qed.
Lemma mono_D : forall M M', mono M M' -> D M <= D M'.
Proof. intros. apply (mono_last _ _ H). Qed.
Lemma mono_Ls : forall M M' i, mono M M' -> Ls M i <= Ls M' i.
Proof. intros. apply (mono_last _ _ H). Qed.

Lemma thr_inv_mono : forall M M' rv t p, mono M M' -> thr_inv M rv t p -> thr_inv M' rv t p.
Proof.
  intros M M' rv t p Mo H.
  pose proof (mono_E _ _ Mo) as HE. pose proof (mono_D _ _ Mo) as HD.
  assert (HC : forall l, cur (threads M t) l <= cur (threads M' t) l) by (intros; apply (mono_cur _ _ Mo)).
  assert (HM : forall l m, In m (memory M l) -> In m (memory M' l)) by (apply (mono_mem _ _ Mo)).
  destruct p; simpl in *; try exact Logic.I.
  - lia.
  - destruct H as (A & B & C & F). pose proof (mono_Ls _ _ (cellof pos) Mo) as L.
    split; [lia|]. split; [lia|]. split; [specialize (HC (valL (cellof pos))); lia|].
    intros Heq. apply (vle_mono_r _ (cur (threads M t))); [apply F; lia|exact HC].
  - destruct H as (A & B & C). split; [lia|]. split; [now apply HM|assumption].
  - destruct H as (A & B & C). split; [lia|]. split; [now apply HM|assumption].
  - destruct H as (A & B & C). split; [lia|]. split; [now apply HM|].
    destruct md as [d|]; [|assumption]. destruct C as (C1 & C2 & C3 & C4).
    split; [assumption|]. split; [assumption|]. split; [now apply HM|assumption].
  - lia.
  - destruct H as (A & B & C). pose proof (mono_Ls _ _ (cellof pos) Mo) as L.
    split; [lia|]. split; [lia|]. specialize (HC (valL (cellof pos))); lia.
  - destruct H as (A & B & C). split; [lia|]. split; [now apply HM|assumption].
  - destruct H as (A & B & C). split; [lia|]. split; [now apply HM|assumption].
  - destruct H as (A & B & C). split; [lia|]. split; [now apply HM|].
    destruct me as [e|]; [|assumption]. destruct C as (C1 & C2 & C3 & C4).
    split; [assumption|]. split; [assumption|]. split; [now apply HM|assumption].
Qed.

(** the reader view of a cell changes only while the cell sequence is odd *)
Lemma thr_inv_rv : forall M rv rv' t p,
  (forall i, rv' i = rv i \/ exists k, Ls M i = 2 * k + 1) ->
  thr_inv M rv t p -> thr_inv M rv' t p.
Proof.
  intros M rv rv' t p Hrv H. destruct p; simpl in *; try assumption.
  destruct H as (A & B & C & F). repeat (split; [assumption|]).
  intros Heq. destruct (Hrv (cellof pos)) as [->|[k Hk]]; [now apply F|lia].
Qed.

(** frame for the owners: another thread moves, memory and ghost state unchanged *)
Lemma holder_inv_frame : forall s s' t p,
  mono (ms s) (ms s') -> memory (ms s') = memory (ms s) ->
  g_push s' = g_push s -> g_pop s' = g_pop s -> g_rview s' = g_rview s ->
  holder_inv s t p -> holder_inv s' t p.
Proof.
  intros s s' t p Mo Hm Hp Hq Hr H.
  assert (HC : forall l, cur (threads (ms s) t) l <= cur (threads (ms s') t) l)
    by (intros; apply (mono_cur _ _ Mo)).
  unfold holder_inv, E, D, Ls, Lv in *. rewrite Hm, Hp, Hq, Hr.
  destruct p; try contradiction.
  - destruct H as (A & B & C & F & G & K). repeat (split; [assumption|]).
    split; [specialize (HC (valL (cellof pos))); lia|].
    split; [|assumption]. apply (vle_mono_r _ _ _ G HC).
  - destruct H as (A & B & C & F & G). repeat (split; [assumption|]).
    split; [specialize (HC (valL (cellof pos))); lia|assumption].
  - destruct H as (A & A' & B & C & F). repeat (split; [assumption|]).
    specialize (HC (valL (cellof pos))); lia.
  - destruct H as (A & A' & B & C & F & G & K). repeat (split; [assumption|]).
    split; [specialize (HC (valL (cellof pos))); lia|].
    split; [|assumption]. apply (vle_mono_r _ _ _ G HC).
Qed.

Lemma not_owner : forall s t i, inv s -> holds (pcs s t) = None -> g_own s i <> Some t.
Proof.
  intros s t i I H Ho. apply (i_owner s I) in Ho. congruence.
Qed.

(** ** Steps that change neither the memory nor the ghost state (all loads except the pop's read) *)

Lemma inv_quiet : forall s t M' p',
  inv s -> mono (ms s) M' -> memory M' = memory (ms s) -> wf M' ->
  holds (pcs s t) = None -> holds p' = None ->
  thr_inv M' (g_rview s) t p' -> done_inv s p' ->
  inv (set_pc s M' t p').
Proof.
  intros s t M' p' I Mo Hm Wf' Hh Hh' Ht Hd.
  assert (NO : forall i, g_own s i <> Some t) by (intros; now apply not_owner).
  constructor; unfold set_pc; cbn [ms pcs g_push g_pop g_own g_rview];
    unfold E, D, Ls, Lv; rewrite ?Hm.
  - exact Wf'.
  - apply (i_enq_val s I).
  - apply (i_deq_val s I).
  - apply (i_seq_val s I).
  - apply (i_seq_view s I).
  - apply (i_seq_rview s I).
  - apply (i_val_val s I).
  - apply (i_push_len s I).
  - apply (i_bounds s I).
  - intros t0 i. destruct (Nat.eq_dec t0 t) as [->|Hn].
    + rewrite upd_pc_same, Hh'. split; [discriminate|]. intros Ho. now apply NO in Ho.
    + rewrite upd_pc_other by assumption. apply (i_owner s I).
  - intros i Hi. pose proof (i_cell s I i Hi) as C. unfold cell_inv in *.
    cbn [ms pcs g_push g_pop g_own g_rview].
    destruct (g_own s i) as [t0|] eqn:Eo.
    + assert (t0 <> t) by (intros ->; now apply (NO i)).
      rewrite upd_pc_other by assumption.
      apply (holder_inv_frame s); try reflexivity; assumption.
    + unfold E, D, Ls, Lv in *. cbn [ms]. rewrite Hm. exact C.
  - intros p v Hin. destruct (i_pop_in s I p v Hin) as (A & B & C & F).
    repeat (split; [assumption|]). unfold pop_done, qstore_at, Ls in *.
    cbn [ms pcs g_own]. rewrite Hm.
    destruct F as [F|F]; [now left|right].
    destruct (g_own s (cellof p)) as [t0|] eqn:Eo; [|contradiction].
    assert (t0 <> t) by (intros ->; now apply (NO (cellof p))).
    now rewrite upd_pc_other.
  - apply (i_pop_nodup s I).
  - intros p Hp. destruct (i_pop_all s I p Hp) as [A|A]; [now left|right].
    unfold qread_at in *. cbn [pcs g_own].
    destruct (g_own s (cellof p)) as [t0|] eqn:Eo; [|contradiction].
    assert (t0 <> t) by (intros ->; now apply (NO (cellof p))).
    now rewrite upd_pc_other.
  - intros t0. destruct (Nat.eq_dec t0 t) as [->|Hn].
    + rewrite upd_pc_same. destruct p'; try exact Logic.I; exact Hd.
    + rewrite upd_pc_other by assumption. pose proof (i_done s I t0) as X.
      destruct (pcs s t0); try exact Logic.I; exact X.
  - intros t0. destruct (Nat.eq_dec t0 t) as [->|Hn].
    + now rewrite upd_pc_same.
    + rewrite upd_pc_other by assumption.
      apply (thr_inv_mono (ms s)); [assumption|apply (i_thr s I)].
Qed.

Lemma idle_holds : forall p, is_idle p = true -> holds p = None.
Proof. destruct p; simpl; congruence. Qed.

(** ** Reading the messages of a cell sequence *)

(** the timestamp of a message of the cell sequence from its value *)
Lemma seq_val_even : forall s i m k, inv s -> i < cap -> In m (memory (ms s) (seqL i)) ->
  m_val m = N.of_nat (i + k * cap) -> m_ts m = 2 * k.
Proof.
  intros s i m k I Hi Hin Hv.
  destruct (parity (m_ts m)) as [[k' Hk]|[k' Hk]].
  - destruct (i_seq_val s I i m k' Hi Hin) as [A _]. specialize (A Hk). rewrite A in Hv.
    apply Nat2N.inj in Hv. destruct (decomp_unique cap i k' i k Hi Hi Hv). lia.
  - destruct (i_seq_val s I i m k' Hi Hin) as [_ A]. specialize (A Hk). rewrite A in Hv.
    apply Nat2N.inj in Hv. exfalso.
    destruct (Nat.eq_dec (i + 1) cap) as [Ec|Nc].
    + assert (H0 : 0 + (k' + 1) * cap = i + k * cap) by lia.
      destruct (decomp_unique cap 0 (k' + 1) i k cap_pos Hi H0). lia.
    + assert (H0 : (i + 1) + k' * cap = i + k * cap) by lia.
      assert (Hi' : i + 1 < cap) by lia.
      destruct (decomp_unique cap (i + 1) k' i k Hi' Hi H0). lia.
Qed.

Lemma seq_val_odd : forall s i m k, inv s -> i < cap -> In m (memory (ms s) (seqL i)) ->
  m_val m = N.of_nat (i + k * cap + 1) -> m_ts m = 2 * k + 1.
Proof.
  intros s i m k I Hi Hin Hv.
  destruct (parity (m_ts m)) as [[k' Hk]|[k' Hk]].
  - destruct (i_seq_val s I i m k' Hi Hin) as [A _]. specialize (A Hk). rewrite A in Hv.
    apply Nat2N.inj in Hv. exfalso.
    destruct (Nat.eq_dec (i + 1) cap) as [Ec|Nc].
    + assert (H0 : i + k' * cap = 0 + (k + 1) * cap) by lia.
      destruct (decomp_unique cap i k' 0 (k + 1) Hi cap_pos H0). lia.
    + assert (H0 : i + k' * cap = (i + 1) + k * cap) by lia.
      assert (Hi' : i + 1 < cap) by lia.
      destruct (decomp_unique cap i k' (i + 1) k Hi Hi' H0). lia.
  - destruct (i_seq_val s I i m k' Hi Hin) as [_ A]. specialize (A Hk). rewrite A in Hv.
    apply Nat2N.inj in Hv.
    assert (H0 : i + k' * cap = i + k * cap) by lia.
    destruct (decomp_unique cap i k' i k Hi Hi H0). lia.
Qed.

(** a smaller value is an older message *)
Lemma seq_val_lt_even : forall s i m k, inv s -> i < cap -> In m (memory (ms s) (seqL i)) ->
  (m_val m < N.of_nat (i + k * cap))%N -> m_ts m < 2 * k.
Proof.
  intros s i m k I Hi Hin Hv.
  destruct (parity (m_ts m)) as [[k' Hk]|[k' Hk]].
  - destruct (i_seq_val s I i m k' Hi Hin) as [A _]. specialize (A Hk). rewrite A in Hv.
    assert (H0 : k' * cap < k * cap) by lia. apply mul_lt_cancel in H0. lia.
  - destruct (i_seq_val s I i m k' Hi Hin) as [_ A]. specialize (A Hk). rewrite A in Hv.
    assert (H0 : k' * cap < k * cap) by lia. apply mul_lt_cancel in H0. lia.
Qed.

Lemma seq_val_lt_odd : forall s i m k, inv s -> i < cap -> In m (memory (ms s) (seqL i)) ->
  (m_val m < N.of_nat (i + k * cap + 1))%N -> m_ts m <= 2 * k.
Proof.
  intros s i m k I Hi Hin Hv.
  destruct (parity (m_ts m)) as [[k' Hk]|[k' Hk]].
  - destruct (i_seq_val s I i m k' Hi Hin) as [A _]. specialize (A Hk). rewrite A in Hv.
    assert (H0 : k' * cap <= k * cap) by lia. apply mul_le_cancel in H0; lia.
  - destruct (i_seq_val s I i m k' Hi Hin) as [_ A]. specialize (A Hk). rewrite A in Hv.
    assert (H0 : k' * cap < k * cap) by lia. apply mul_lt_cancel in H0. lia.
Qed.


(** ** The conditions on the orders, unpacked *)

Definition ok_orders : Prop :=
  is_acq (o_pop_seq_load o) = true /\ is_rel (o_push_seq_store o) = true /\
  is_acq (o_push_seq_load o) = true /\ is_rel (o_pop_seq_store o) = true.

Lemma orders_ok_spec : orders_ok o = true -> ok_orders.
Proof.
  unfold orders_ok, orders_ok_mp, orders_ok_reuse, ok_orders. rewrite !andb_true_iff. tauto.
Qed.

(** ** The quiet steps *)

Lemma load_quiet : forall s t l od m M' p',
  inv s -> holds (pcs s t) = None -> holds p' = None ->
  step (ms s) t (LLoad l od m) M' ->
  thr_inv M' (g_rview s) t p' -> done_inv s p' ->
  inv (set_pc s M' t p').
Proof.
  intros s t l od m M' p' I Hh Hh' St Ht Hd.
  destruct (load_facts _ _ _ _ _ _ (i_wf s I) St) as (Wf' & Mo & Hm & _).
  now apply inv_quiet.
Qed.

Lemma enq_read : forall s m, inv s -> In m (memory (ms s) enqL) ->
  N.to_nat (m_val m) = m_ts m /\ m_ts m <= E (ms s).
Proof.
  intros s m I Hin. rewrite (i_enq_val s I m Hin), Nat2N.id. split; [reflexivity|].
  apply wf_in_ts; [apply (i_wf s I)|assumption].
Qed.

Lemma deq_read : forall s m, inv s -> In m (memory (ms s) deqL) ->
  N.to_nat (m_val m) = m_ts m /\ m_ts m <= D (ms s).
Proof.
  intros s m I Hin. rewrite (i_deq_val s I m Hin), Nat2N.id. split; [reflexivity|].
  apply wf_in_ts; [apply (i_wf s I)|assumption].
Qed.

(** a load of enqueue_pos that sets [pos] (252, 258 failure, 266, 268 with pos2 != pos) *)
Lemma step_to_pseq : forall s t od m M' w v,
  inv s -> holds (pcs s t) = None ->
  step (ms s) t (LLoad enqL od m) M' ->
  inv (set_pc s M' t (PSeq w v (N.to_nat (m_val m)))).
Proof.
  intros s t od m M' w v I Hh St.
  destruct (load_facts _ _ _ _ _ _ (i_wf s I) St) as (Wf' & Mo & Hm & Hin & _).
  eapply load_quiet; try eassumption; try reflexivity.
  simpl. destruct (enq_read s m I Hin) as [-> H]. unfold E in *. now rewrite Hm.
Qed.

Lemma step_to_qseq : forall s t od m M' w,
  inv s -> holds (pcs s t) = None ->
  step (ms s) t (LLoad deqL od m) M' ->
  inv (set_pc s M' t (QSeq w (N.to_nat (m_val m)))).
Proof.
  intros s t od m M' w I Hh St.
  destruct (load_facts _ _ _ _ _ _ (i_wf s I) St) as (Wf' & Mo & Hm & Hin & _).
  eapply load_quiet; try eassumption; try reflexivity.
  simpl. destruct (deq_read s m I Hin) as [-> H]. unfold D in *. now rewrite Hm.
Qed.

(** 256: the acquire load of the cell sequence in try_push (3) *)
Lemma step_push_seq : forall s t w v pos m M',
  ok_orders -> inv s -> pcs s t = PSeq w v pos ->
  step (ms s) t (LLoad (seqL (cellof pos)) (o_push_seq_load o) m) M' ->
  inv (set_pc s M' t (after_pseq w v pos m)).
Proof.
  intros s t w v pos m M' Ok I Hpc St.
  destruct (load_facts _ _ _ _ _ _ (i_wf s I) St) as (Wf' & Mo & Hm & Hin & _).
  pose proof (i_thr s I t) as T. rewrite Hpc in T. simpl in T.
  assert (Hi : cellof pos < cap) by (apply cellof_lt, cap_pos).
  assert (HE : pos <= E M') by (unfold E in *; now rewrite Hm).
  eapply load_quiet; try eassumption.
  - now rewrite Hpc.
  - unfold after_pseq. destruct (N.eqb _ _); [reflexivity|].
    destruct w; [destruct (N.ltb _ _)|]; reflexivity.
  - unfold after_pseq. destruct (N.eqb_spec (m_val m) (N.of_nat pos)) as [Ev|Nv].
    + (* seq == pos *)
      rewrite (pos_decomp cap pos cap_pos) in Ev at 1.
      pose proof (seq_val_even s _ m _ I Hi Hin Ev) as Hts.
      pose proof (wf_in_ts _ _ _ (i_wf s I) Hin) as Hle.
      destruct Ok as (_ & _ & Oa & _).
      pose proof (acquire_load_view _ _ _ _ _ _ St Oa) as AV.
      simpl. unfold Ls. rewrite Hm. fold (Ls (ms s) (cellof pos)).
      split; [assumption|]. split; [unfold Ls; lia|]. split.
      * assert (Hk : 2 * lapof pos <= m_ts m + 1) by lia.
        pose proof (i_seq_view s I _ m _ Hi Hin Hk). specialize (AV (valL (cellof pos))). lia.
      * intros HL. apply (vle_mono_r _ (m_view m)); [|exact AV].
        apply (i_seq_rview s I _ m (lapof pos)); assumption.
    + destruct w.
      * destruct (N.ltb_spec (m_val m) (N.of_nat pos)); simpl; [|exact Logic.I].
        rewrite Hm. auto.
      * simpl. rewrite Hm. auto.
  - unfold after_pseq. destruct (N.eqb _ _); [exact Logic.I|].
    destruct w; [destruct (N.ltb _ _)|]; exact Logic.I.
Qed.

(** 289: the acquire load of the cell sequence in try_pop (1) *)
Lemma step_pop_seq : forall s t w pos m M',
  ok_orders -> inv s -> pcs s t = QSeq w pos ->
  step (ms s) t (LLoad (seqL (cellof pos)) (o_pop_seq_load o) m) M' ->
  inv (set_pc s M' t (after_qseq w pos m)).
Proof.
  intros s t w pos m M' Ok I Hpc St.
  destruct (load_facts _ _ _ _ _ _ (i_wf s I) St) as (Wf' & Mo & Hm & Hin & _).
  pose proof (i_thr s I t) as T. rewrite Hpc in T. simpl in T.
  assert (Hi : cellof pos < cap) by (apply cellof_lt, cap_pos).
  assert (HD : pos <= D M') by (unfold D in *; now rewrite Hm).
  eapply load_quiet; try eassumption.
  - now rewrite Hpc.
  - unfold after_qseq. destruct (N.eqb _ _); [reflexivity|].
    destruct w; [destruct (N.ltb _ _)|]; reflexivity.
  - unfold after_qseq. destruct (N.eqb_spec (m_val m) (N.of_nat (pos + 1))) as [Ev|Nv].
    + rewrite (pos_decomp cap pos cap_pos) in Ev at 1.
      pose proof (seq_val_odd s _ m _ I Hi Hin Ev) as Hts.
      pose proof (wf_in_ts _ _ _ (i_wf s I) Hin) as Hle.
      destruct Ok as (Oa & _).
      pose proof (acquire_load_view _ _ _ _ _ _ St Oa) as AV.
      simpl. unfold Ls. rewrite Hm.
      split; [assumption|]. split; [lia|].
      assert (Hk : 2 * (lapof pos + 1) <= m_ts m + 1) by lia.
      pose proof (i_seq_view s I _ m _ Hi Hin Hk). specialize (AV (valL (cellof pos))). lia.
    + destruct w.
      * destruct (N.ltb_spec (m_val m) (N.of_nat (pos + 1))); simpl; [|exact Logic.I].
        rewrite Hm. auto.
      * simpl. rewrite Hm. auto.
  - unfold after_qseq. destruct (N.eqb _ _); [exact Logic.I|].
    destruct w; [destruct (N.ltb _ _)|]; exact Logic.I.
Qed.

(** 268 / 269 / 302 / 303 *)
Lemma step_push_enq2 : forall s t v pos mq m M',
  inv s -> pcs s t = PEnq2 v pos mq ->
  step (ms s) t (LLoad enqL (o_push_enq_reload o) m) M' ->
  inv (set_pc s M' t (if N.eqb (m_val m) (N.of_nat pos) then PDeq v pos mq
                      else PSeq false v (N.to_nat (m_val m)))).
Proof.
  intros s t v pos mq m M' I Hpc St.
  destruct (N.eqb (m_val m) (N.of_nat pos)).
  - destruct (load_facts _ _ _ _ _ _ (i_wf s I) St) as (Wf' & Mo & Hm & Hin & _).
    pose proof (i_thr s I t) as T. rewrite Hpc in T.
    eapply load_quiet; try eassumption; try reflexivity; [now rewrite Hpc|].
    apply (thr_inv_mono (ms s)); assumption.
  - eapply step_to_pseq; [assumption|now rewrite Hpc|eassumption].
Qed.

Lemma step_push_deq : forall s t v pos mq m M',
  inv s -> pcs s t = PDeq v pos mq ->
  step (ms s) t (LLoad deqL (o_push_deq_load o) m) M' ->
  inv (set_pc s M' t (if N.eqb (m_val m + N.of_nat cap) (N.of_nat pos) then PFull false pos mq (Some m)
                      else PSeq false v pos)).
Proof.
  intros s t v pos mq m M' I Hpc St.
  destruct (load_facts _ _ _ _ _ _ (i_wf s I) St) as (Wf' & Mo & Hm & Hin & _).
  pose proof (i_thr s I t) as T. rewrite Hpc in T.
  pose proof (thr_inv_mono _ _ _ _ _ Mo T) as T'. simpl in T'. destruct T' as (A & B & C).
  eapply load_quiet; try eassumption.
  - now rewrite Hpc.
  - destruct (N.eqb _ _); reflexivity.
  - destruct (N.eqb_spec (m_val m + N.of_nat cap) (N.of_nat pos)) as [Ev|Nv]; simpl.
    + rewrite <- Hm in Hin. auto 8.
    + assumption.
  - destruct (N.eqb _ _); exact Logic.I.
Qed.

Lemma step_pop_deq2 : forall s t pos mq m M',
  inv s -> pcs s t = QDeq2 pos mq ->
  step (ms s) t (LLoad deqL (o_pop_deq_reload o) m) M' ->
  inv (set_pc s M' t (if N.eqb (m_val m) (N.of_nat pos) then QEnq pos mq
                      else QSeq false (N.to_nat (m_val m)))).
Proof.
  intros s t pos mq m M' I Hpc St.
  destruct (N.eqb (m_val m) (N.of_nat pos)).
  - destruct (load_facts _ _ _ _ _ _ (i_wf s I) St) as (Wf' & Mo & Hm & Hin & _).
    pose proof (i_thr s I t) as T. rewrite Hpc in T.
    eapply load_quiet; try eassumption; try reflexivity; [now rewrite Hpc|].
    apply (thr_inv_mono (ms s)); assumption.
  - eapply step_to_qseq; [assumption|now rewrite Hpc|eassumption].
Qed.

Lemma step_pop_enq : forall s t pos mq m M',
  inv s -> pcs s t = QEnq pos mq ->
  step (ms s) t (LLoad enqL (o_pop_enq_load o) m) M' ->
  inv (set_pc s M' t (if N.eqb (m_val m) (N.of_nat pos) then QEmpty false pos mq (Some m)
                      else QSeq false pos)).
Proof.
  intros s t pos mq m M' I Hpc St.
  destruct (load_facts _ _ _ _ _ _ (i_wf s I) St) as (Wf' & Mo & Hm & Hin & _).
  pose proof (i_thr s I t) as T. rewrite Hpc in T.
  pose proof (thr_inv_mono _ _ _ _ _ Mo T) as T'. simpl in T'. destruct T' as (A & B & C).
  eapply load_quiet; try eassumption.
  - now rewrite Hpc.
  - destruct (N.eqb _ _); reflexivity.
  - destruct (N.eqb_spec (m_val m) (N.of_nat pos)) as [Ev|Nv]; simpl.
    + rewrite <- Hm in Hin. auto 8.
    + assumption.
  - destruct (N.eqb _ _); exact Logic.I.
Qed.

(** ** Frame lemmas for the steps that write *)

Lemma holder_inv_gen : forall s s' t p,
  holder_inv s t p ->
  E (ms s) <= E (ms s') -> D (ms s) <= D (ms s') ->
  (forall i, holds p = Some i ->
     Ls (ms s') i = Ls (ms s) i /\ Lv (ms s') i = Lv (ms s) i /\ g_rview s' i = g_rview s i /\
     forall m, In m (memory (ms s) (valL i)) -> In m (memory (ms s') (valL i))) ->
  (forall l, cur (threads (ms s) t) l <= cur (threads (ms s') t) l) ->
  (forall q, q < E (ms s) -> nth q (g_push s') 0%N = nth q (g_push s) 0%N) ->
  (forall x, In x (g_pop s) -> In x (g_pop s')) ->
  holder_inv s' t p.
Proof.
  intros s s' t p H HE HD Hc HC Hp Hq.
  unfold holder_inv in *. destruct p; try contradiction; simpl in Hc;
    destruct (Hc _ eq_refl) as (L1 & L2 & L3 & L4); rewrite L1, L2, ?L3.
  - destruct H as (A & B & C & F & G & K). split; [lia|]. repeat (split; [assumption|]).
    split; [specialize (HC (valL (cellof pos))); lia|].
    split; [apply (vle_mono_r _ _ _ G HC)|]. rewrite Hp; assumption.
  - destruct H as (A & B & C & F & G). split; [lia|]. repeat (split; [assumption|]).
    split; [specialize (HC (valL (cellof pos))); lia|]. rewrite Hp; assumption.
  - destruct H as (A & A' & B & C & F). split; [lia|]. split; [lia|]. repeat (split; [assumption|]).
    specialize (HC (valL (cellof pos))); lia.
  - destruct H as (A & A' & B & C & F & G & K & K1 & K2). split; [lia|]. split; [lia|].
    repeat (split; [assumption|]).
    split; [specialize (HC (valL (cellof pos))); lia|].
    split; [apply (vle_mono_r _ _ _ G HC)|]. split; [now apply L4|]. split; [assumption|now apply Hq].
Qed.

Lemma pop_done_frame : forall s s' p,
  pop_done s p ->
  Ls (ms s) (cellof p) <= Ls (ms s') (cellof p) ->
  (forall t' m, g_own s (cellof p) = Some t' -> pcs s t' = QStore p m ->
     g_own s' (cellof p) = Some t' /\ pcs s' t' = QStore p m) ->
  pop_done s' p.
Proof.
  intros s s' p [H|H] HL Hf; [left; lia|right].
  unfold qstore_at in *. destruct (g_own s (cellof p)) as [t'|] eqn:Eo; [|contradiction].
  destruct (pcs s t') eqn:Ep; try contradiction. subst pos.
  destruct (Hf t' m eq_refl Ep) as [-> ->]. reflexivity.
Qed.

Lemma qread_at_frame : forall s s' p,
  qread_at s p ->
  (forall t', g_own s (cellof p) = Some t' -> pcs s t' = QRead p ->
     g_own s' (cellof p) = Some t' /\ pcs s' t' = QRead p) ->
  qread_at s' p.
Proof.
  intros s s' p H Hf. unfold qread_at in *.
  destruct (g_own s (cellof p)) as [t'|] eqn:Eo; [|contradiction].
  destruct (Hf t' eq_refl H) as [-> ->]. reflexivity.
Qed.

Lemma done_inv_mono : forall s s' p,
  done_inv s p ->
  (forall q, q < length (g_push s) ->
     q < length (g_push s') /\ nth q (g_push s') 0%N = nth q (g_push s) 0%N) ->
  (forall x, In x (g_pop s) -> In x (g_pop s')) ->
  done_inv s' p.
Proof.
  intros s s' p H Hp Hq. destruct p; simpl in *; try exact Logic.I.
  - destruct H as [A B]. destruct (Hp pos A) as [A' B']. split; [assumption|congruence].
  - now apply Hq.
Qed.

Lemma owner_same_holds : forall s t p' (g : nat -> option tid) (f : tid -> pc),
  inv s -> holds p' = holds (pcs s t) ->
  (forall i, g i = g_own s i) -> f = upd_pc (pcs s) t p' ->
  forall t0 i, holds (f t0) = Some i <-> g i = Some t0.
Proof.
  intros s t p' g f I Hh Hg -> t0 i. rewrite Hg.
  destruct (Nat.eq_dec t0 t) as [->|Hn].
  - rewrite upd_pc_same, Hh. apply (i_owner s I).
  - rewrite upd_pc_other by assumption. apply (i_owner s I).
Qed.

Lemma nodup_snoc : forall (l : list nat) x, NoDup l -> ~ In x l -> NoDup (l ++ [x]).
Proof.
  induction l as [|a l IH]; simpl; intros x H Hn.
  - constructor; [intros []|constructor].
  - inversion H; subst. constructor.
    + intro Hin. apply in_app_or in Hin. destruct Hin as [Hin|[->|[]]]; [contradiction|].
      apply Hn. now left.
    + apply IH; [assumption|]. intro. apply Hn. now right.
Qed.

(** the owner of a cell *)
Lemma owner_of : forall s t i, inv s -> holds (pcs s t) = Some i -> g_own s i = Some t.
Proof. intros s t i I H. now apply (i_owner s I). Qed.

Lemma holder_of : forall s t i, inv s -> i < cap -> holds (pcs s t) = Some i ->
  holder_inv s t (pcs s t).
Proof.
  intros s t i I Hi H. pose proof (i_cell s I i Hi) as C. unfold cell_inv in C.
  now rewrite (owner_of s t i I H) in C.
Qed.

(** another owner owns another cell *)
Lemma other_owner : forall s t t' i i', inv s ->
  holds (pcs s t) = Some i -> g_own s i' = Some t' -> t' <> t -> i' <> i.
Proof.
  intros s t t' i i' I H Ho Hn ->. rewrite (owner_of s t i I H) in Ho. congruence.
Qed.

(** ** The steps that write *)

(** 258: the successful CAS on enqueue_pos: the thread becomes the owner of the cell *)
Lemma step_push_cas_ok : forall s t w v pos M',
  inv s -> pcs s t = PCas w v pos ->
  m_val (last_msg (memory (ms s) enqL)) = N.of_nat pos ->
  step (ms s) t (LRmw enqL (o_push_cas o) (N.of_nat (pos + 1))) M' ->
  inv {| ms := M'; pcs := upd_pc (pcs s) t (PWrite v pos);
         g_push := g_push s ++ [v]; g_pop := g_pop s;
         g_own := upd_cell (g_own s) (cellof pos) (Some t); g_rview := g_rview s |}.
Proof.
  intros s t w v pos M' I Hpc Hq St.
  pose proof (i_wf s I) as Wf.
  destruct (rmw_facts _ _ _ _ _ _ Wf St) as (Wf' & Mo & mk & Em & Hts & Hv & Hoth).
  pose proof (cellof_lt cap pos cap_pos) as Hi0.
  pose proof (pos_decomp cap pos cap_pos) as Hpos.
  pose proof (i_thr s I t) as T. rewrite Hpc in T. simpl in T. destruct T as (T1 & T2 & T3 & T4).
  set (i0 := cellof pos) in *. set (k0 := lapof pos) in *.
  assert (Hh : holds (pcs s t) = None) by now rewrite Hpc.
  assert (HEp : E (ms s) = pos).
  { pose proof (i_enq_val s I _ (wf_last_in _ enqL Wf)) as V. rewrite Hq in V.
    apply Nat2N.inj in V. unfold E, last_ts. now rewrite <- V. }
  assert (HE' : E M' = S (E (ms s))) by (unfold E; rewrite Em, last_ts_app, Hts; reflexivity).
  assert (HD' : D M' = D (ms s)) by (unfold D; rewrite Hoth by discriminate; reflexivity).
  assert (HLs' : forall i, Ls M' i = Ls (ms s) i)
    by (intros; unfold Ls; rewrite Hoth by apply seqL_enqL; reflexivity).
  assert (HLv' : forall i, Lv M' i = Lv (ms s) i)
    by (intros; unfold Lv; rewrite Hoth by apply valL_enqL; reflexivity).
  assert (HLs0 : Ls (ms s) i0 = 2 * k0).
  { destruct (i_bounds s I i0 k0 Hi0) as (A & _).
    destruct (Nat.le_gt_cases (2 * k0 + 1) (Ls (ms s) i0)) as [L|L]; [specialize (A L)|]; lia. }
  assert (Hown0 : g_own s i0 = None).
  { destruct (g_own s i0) as [t'|] eqn:Eo; [|reflexivity]. exfalso.
    pose proof (i_cell s I i0 Hi0) as C. unfold cell_inv in C. rewrite Eo in C.
    pose proof (proj2 (i_owner s I t' i0) Eo) as Hh'.
    pose proof (pos_decomp cap) as PD.
    destruct (pcs s t') eqn:Ep; try contradiction; simpl in Hh'; injection Hh' as Hc;
      simpl in C; rewrite Hc in C; specialize (PD pos0 cap_pos); rewrite Hc in PD.
    - destruct C as (A & B & _). assert (lapof pos0 = k0) by lia. lia.
    - destruct C as (A & B & _). assert (lapof pos0 = k0) by lia. lia.
    - destruct C as (_ & _ & B & _). lia.
    - destruct C as (_ & _ & B & _). lia. }
  assert (HC : forall t0 l, cur (threads (ms s) t0) l <= cur (threads M' t0) l)
    by (intros; apply (mono_cur _ _ Mo)).
  assert (Hlen : length (g_push s) = pos) by (rewrite (i_push_len s I); exact HEp).
  assert (Hpush : forall q, q < length (g_push s) ->
            q < length (g_push s ++ [v]) /\ nth q (g_push s ++ [v]) 0%N = nth q (g_push s) 0%N).
  { intros q Hq'. rewrite app_length. split; [lia|now apply nth_snoc_lt]. }
  constructor; cbn [ms pcs g_push g_pop g_own g_rview].
  - exact Wf'.
  - intros m Hin. rewrite Em in Hin. apply in_snoc in Hin. destruct Hin as [Hin| ->].
    + now apply (i_enq_val s I).
    + rewrite Hv, Hts. fold (E (ms s)). rewrite HEp. f_equal. lia.
  - intros m Hin. rewrite Hoth in Hin by discriminate. now apply (i_deq_val s I).
  - intros i m k Hi Hin. rewrite Hoth in Hin by apply seqL_enqL. now apply (i_seq_val s I).
  - intros i m k Hi Hin. rewrite Hoth in Hin by apply seqL_enqL. now apply (i_seq_view s I).
  - intros i m k Hi Hin. rewrite Hoth in Hin by apply seqL_enqL. rewrite HLs'.
    now apply (i_seq_rview s I).
  - intros i m j Hi Hin Hj. rewrite Hoth in Hin by apply valL_enqL.
    destruct (i_val_val s I i m j Hi Hin Hj) as [A B].
    destruct (Hpush _ A) as [A' B']. split; [assumption|congruence].
  - rewrite app_length, HE', (i_push_len s I). simpl. lia.
  - intros i k Hi. rewrite HE', HD', HLs'. destruct (i_bounds s I i k Hi) as (A & B & C & F).
    split; [intros H; specialize (A H); lia|]. split; [assumption|]. split; [|assumption].
    intros H. destruct (Nat.eq_dec (i + k * cap) pos) as [Ep|Np].
    + rewrite Hpos in Ep. destruct (decomp_unique cap i k i0 k0 Hi Hi0 Ep) as [-> ->]. exact T2.
    + apply C. lia.
  - intros t0 i. destruct (Nat.eq_dec t0 t) as [->|Hn].
    + rewrite upd_pc_same. simpl. fold i0. destruct (Nat.eq_dec i i0) as [->|Ni].
      * rewrite upd_cell_same. tauto.
      * rewrite upd_cell_other by assumption. split; [congruence|].
        intros Ho. now apply (not_owner s t i I Hh) in Ho.
    + rewrite upd_pc_other by assumption. destruct (Nat.eq_dec i i0) as [->|Ni].
      * rewrite upd_cell_same. split; [|congruence].
        intros H. apply (i_owner s I) in H. congruence.
      * rewrite upd_cell_other by assumption. apply (i_owner s I).
  - intros i Hi. unfold cell_inv. cbn [ms pcs g_push g_pop g_own g_rview].
    destruct (Nat.eq_dec i i0) as [->|Ni].
    + rewrite upd_cell_same, upd_pc_same. simpl. fold i0 k0. rewrite HE', HLs', HLv'.
      pose proof (i_cell s I i0 Hi0) as C. unfold cell_inv in C. rewrite Hown0 in C.
      destruct (C k0) as [[_ C2] _]; [assumption|].
      split; [lia|]. split; [assumption|]. split; [assumption|].
      split; [specialize (HC t (valL i0)); lia|].
      split; [apply (vle_mono_r _ _ _ (T4 HLs0)), HC|].
      rewrite <- Hlen. apply nth_snoc_eq.
    + rewrite upd_cell_other by assumption.
      pose proof (i_cell s I i Hi) as C. unfold cell_inv in C.
      destruct (g_own s i) as [t'|] eqn:Eo.
      * assert (t' <> t) by (intros ->; now apply (not_owner s t i I Hh)).
        rewrite upd_pc_other by assumption.
        apply (holder_inv_gen s); cbn [ms pcs g_push g_pop g_own g_rview];
          [assumption|lia|lia| |intros l; apply HC| |auto].
        -- intros i' _. rewrite HLs', HLv'. repeat (split; [reflexivity|]).
           intros m Hin. now rewrite Hoth by apply valL_enqL.
        -- intros q Hq'. apply Hpush. now rewrite (i_push_len s I).
      * intros k. rewrite HE', HD', HLs', HLv'. destruct (C k) as [C1 C2]. split; [|assumption].
        intros H. destruct (C1 H) as [C3 C4]. split; [|assumption].
        destruct (Nat.eq_dec (i + k * cap) pos) as [Ep|Np]; [|lia].
        rewrite Hpos in Ep. destruct (decomp_unique cap i k i0 k0 Hi Hi0 Ep) as [-> ->]. contradiction.
  - intros p v0 Hin. destruct (i_pop_in s I p v0 Hin) as (A & B & C & F).
    rewrite HD'. destruct (Hpush _ B) as [B1 B2]. split; [assumption|]. split; [assumption|].
    split; [congruence|].
    apply (pop_done_frame s); cbn [ms pcs g_own]; [assumption|rewrite HLs'; lia|].
    intros t' m Ho Hp'. assert (Nc : cellof p <> i0) by (intros Ec; rewrite Ec in Ho; congruence).
    assert (Nt : t' <> t) by (intros ->; congruence).
    rewrite upd_cell_other, upd_pc_other by assumption. auto.
  - apply (i_pop_nodup s I).
  - intros p Hp. rewrite HD' in Hp. destruct (i_pop_all s I p Hp) as [A|A]; [now left|right].
    apply (qread_at_frame s); cbn [pcs g_own]; [assumption|].
    intros t' Ho Hp'. assert (Nc : cellof p <> i0) by (intros Ec; rewrite Ec in Ho; congruence).
    assert (Nt : t' <> t) by (intros ->; congruence).
    rewrite upd_cell_other, upd_pc_other by assumption. auto.
  - intros t0. destruct (Nat.eq_dec t0 t) as [->|Hn].
    + rewrite upd_pc_same. exact Logic.I.
    + rewrite upd_pc_other by assumption.
      apply (done_inv_mono s); cbn [g_push g_pop]; [apply (i_done s I)|exact Hpush|auto].
  - intros t0. destruct (Nat.eq_dec t0 t) as [->|Hn].
    + rewrite upd_pc_same. exact Logic.I.
    + rewrite upd_pc_other by assumption.
      apply (thr_inv_mono (ms s)); [assumption|apply (i_thr s I)].
Qed.

(** 276: the plain write of the element *)
Lemma step_push_write : forall s t v pos M',
  inv s -> pcs s t = PWrite v pos ->
  step (ms s) t (LStore (valL (cellof pos)) Rlx v) M' ->
  inv (set_pc s M' t (PStore v pos)).
Proof.
  intros s t v pos M' I Hpc St.
  pose proof (i_wf s I) as Wf.
  destruct (store_facts _ _ _ _ _ _ Wf St) as (Wf' & Mo & mk & Em & Hts & Hv & Hoth & Hcur & _).
  pose proof (cellof_lt cap pos cap_pos) as Hi0.
  pose proof (pos_decomp cap pos cap_pos) as Hpos.
  assert (Hh : holds (pcs s t) = Some (cellof pos)) by now rewrite Hpc.
  pose proof (holder_of s t _ I Hi0 Hh) as H. rewrite Hpc in H. simpl in H.
  destruct H as (A & B & C & F & G & K).
  set (i0 := cellof pos) in *. set (k0 := lapof pos) in *.
  assert (HE' : E M' = E (ms s)) by (unfold E; rewrite Hoth by apply enqL_valL; reflexivity).
  assert (HD' : D M' = D (ms s)) by (unfold D; rewrite Hoth by apply deqL_valL; reflexivity).
  assert (HLs' : forall i, Ls M' i = Ls (ms s) i)
    by (intros; unfold Ls; rewrite Hoth by apply seqL_valL; reflexivity).
  assert (HLv0 : Lv M' i0 = k0 + 1).
  { unfold Lv. rewrite Em, last_ts_app, Hts. fold (Lv (ms s) i0). lia. }
  assert (HLv' : forall i, i <> i0 -> Lv M' i = Lv (ms s) i).
  { intros i Ni. unfold Lv. rewrite Hoth; [reflexivity|]. intros X. apply valL_inj in X. contradiction. }
  assert (HC : forall t0 l, cur (threads (ms s) t0) l <= cur (threads M' t0) l)
    by (intros; apply (mono_cur _ _ Mo)).
  assert (Own : g_own s i0 = Some t) by (now apply owner_of).
  constructor; unfold set_pc; cbn [ms pcs g_push g_pop g_own g_rview].
  - exact Wf'.
  - intros m Hin. rewrite Hoth in Hin by apply enqL_valL. now apply (i_enq_val s I).
  - intros m Hin. rewrite Hoth in Hin by apply deqL_valL. now apply (i_deq_val s I).
  - intros i m k Hi Hin. rewrite Hoth in Hin by apply seqL_valL. now apply (i_seq_val s I).
  - intros i m k Hi Hin. rewrite Hoth in Hin by apply seqL_valL. now apply (i_seq_view s I).
  - intros i m k Hi Hin. rewrite Hoth in Hin by apply seqL_valL. rewrite HLs'.
    now apply (i_seq_rview s I).
  - intros i m j Hi Hin Hj. destruct (Nat.eq_dec i i0) as [->|Ni].
    + rewrite Em in Hin. apply in_snoc in Hin. destruct Hin as [Hin| ->].
      * now apply (i_val_val s I).
      * assert (j = k0) by (fold (Lv (ms s) i0) in Hts; lia). subst j.
        rewrite <- Hpos, Hv, (i_push_len s I). split; [assumption|now symmetry].
    + rewrite Hoth in Hin by (intros X; apply valL_inj in X; contradiction).
      now apply (i_val_val s I).
  - rewrite HE'. apply (i_push_len s I).
  - intros i k Hi. rewrite HE', HD', HLs'. now apply (i_bounds s I).
  - apply (owner_same_holds s t (PStore v pos)); try reflexivity; [assumption|now rewrite Hpc].
  - intros i Hi. unfold cell_inv. cbn [ms pcs g_push g_pop g_own g_rview].
    destruct (Nat.eq_dec i i0) as [->|Ni].
    + rewrite Own, upd_pc_same. simpl. fold i0 k0. rewrite HE', HLs', HLv0.
      repeat (split; [assumption || reflexivity|]). split; [|assumption].
      rewrite Hcur, Hts. fold (Lv (ms s) i0). lia.
    + pose proof (i_cell s I i Hi) as Cc. unfold cell_inv in Cc.
      destruct (g_own s i) as [t'|] eqn:Eo.
      * assert (t' <> t) by (intros ->; apply Ni; apply (i_owner s I) in Eo; congruence).
        rewrite upd_pc_other by assumption.
        apply (holder_inv_gen s); cbn [ms pcs g_push g_pop g_own g_rview];
          [assumption|lia|lia| |intros l; apply HC|auto|auto].
        intros i' Hi'. assert (i' = i).
        { apply (i_owner s I) in Eo. congruence. } subst i'.
        rewrite HLs', HLv' by assumption. repeat (split; [reflexivity|]).
        intros m Hin. rewrite Hoth; [assumption|]. intros X. apply valL_inj in X. contradiction.
      * intros k. rewrite HE', HD', HLs', HLv' by assumption. apply Cc.
  - intros p v0 Hin. destruct (i_pop_in s I p v0 Hin) as (A1 & B1 & C1 & F1).
    rewrite HD'. repeat (split; [assumption|]).
    apply (pop_done_frame s); cbn [ms pcs g_own]; [assumption|rewrite HLs'; lia|].
    intros t' m Ho Hp'. assert (Nt : t' <> t) by (intros ->; congruence).
    rewrite upd_pc_other by assumption. auto.
  - apply (i_pop_nodup s I).
  - intros p Hp. rewrite HD' in Hp. destruct (i_pop_all s I p Hp) as [A1|A1]; [now left|right].
    apply (qread_at_frame s); cbn [pcs g_own]; [assumption|].
    intros t' Ho Hp'. assert (Nt : t' <> t) by (intros ->; congruence).
    rewrite upd_pc_other by assumption. auto.
  - intros t0. destruct (Nat.eq_dec t0 t) as [->|Hn].
    + rewrite upd_pc_same. exact Logic.I.
    + rewrite upd_pc_other by assumption. pose proof (i_done s I t0) as X.
      destruct (pcs s t0); try exact Logic.I; exact X.
  - intros t0. destruct (Nat.eq_dec t0 t) as [->|Hn].
    + rewrite upd_pc_same. exact Logic.I.
    + rewrite upd_pc_other by assumption.
      apply (thr_inv_mono (ms s)); [assumption|apply (i_thr s I)].
Qed.

(** 278: the release store of the cell sequence in try_push (4): publishes the element *)
Lemma step_push_store : forall s t v pos M',
  ok_orders -> inv s -> pcs s t = PStore v pos ->
  step (ms s) t (LStore (seqL (cellof pos)) (o_push_seq_store o) (N.of_nat (pos + 1))) M' ->
  inv {| ms := M'; pcs := upd_pc (pcs s) t (PDone v pos);
         g_push := g_push s; g_pop := g_pop s;
         g_own := upd_cell (g_own s) (cellof pos) None; g_rview := g_rview s |}.
Proof.
  intros s t v pos M' Ok I Hpc St.
  pose proof (i_wf s I) as Wf.
  destruct (store_facts _ _ _ _ _ _ Wf St) as (Wf' & Mo & mk & Em & Hts & Hv & Hoth & Hcur & Hrel).
  destruct Ok as (_ & Orel & _). specialize (Hrel Orel).
  pose proof (cellof_lt cap pos cap_pos) as Hi0.
  pose proof (pos_decomp cap pos cap_pos) as Hpos.
  assert (Hh : holds (pcs s t) = Some (cellof pos)) by now rewrite Hpc.
  pose proof (holder_of s t _ I Hi0 Hh) as H. rewrite Hpc in H. simpl in H.
  destruct H as (A & B & C & F & K).
  set (i0 := cellof pos) in *. set (k0 := lapof pos) in *.
  assert (HE' : E M' = E (ms s)) by (unfold E; rewrite Hoth by apply enqL_seqL; reflexivity).
  assert (HD' : D M' = D (ms s)) by (unfold D; rewrite Hoth by apply deqL_seqL; reflexivity).
  assert (HLv' : forall i, Lv M' i = Lv (ms s) i)
    by (intros; unfold Lv; rewrite Hoth by apply valL_seqL; reflexivity).
  assert (Htk : m_ts mk = 2 * k0 + 1) by (fold (Ls (ms s) i0) in Hts; lia).
  assert (HLs0 : Ls M' i0 = 2 * k0 + 1) by (unfold Ls; rewrite Em, last_ts_app; exact Htk).
  assert (HLs' : forall i, i <> i0 -> Ls M' i = Ls (ms s) i).
  { intros i Ni. unfold Ls. rewrite Hoth; [reflexivity|]. intros X. apply seqL_inj in X. contradiction. }
  assert (HLsm : forall i, Ls (ms s) i <= Ls M' i) by (intros; now apply mono_Ls).
  assert (HC : forall t0 l, cur (threads (ms s) t0) l <= cur (threads M' t0) l)
    by (intros; apply (mono_cur _ _ Mo)).
  assert (Own : g_own s i0 = Some t) by (now apply owner_of).
  assert (Hseq : forall i, i <> i0 -> memory M' (seqL i) = memory (ms s) (seqL i)).
  { intros i Ni. apply Hoth. intros X. apply seqL_inj in X. contradiction. }
  constructor; cbn [ms pcs g_push g_pop g_own g_rview].
  - exact Wf'.
  - intros m Hin. rewrite Hoth in Hin by apply enqL_seqL. now apply (i_enq_val s I).
  - intros m Hin. rewrite Hoth in Hin by apply deqL_seqL. now apply (i_deq_val s I).
  - intros i m k Hi Hin. destruct (Nat.eq_dec i i0) as [->|Ni].
    + rewrite Em in Hin. apply in_snoc in Hin. destruct Hin as [Hin| ->].
      * now apply (i_seq_val s I).
      * rewrite Htk, Hv. split; intros Hk; [lia|]. assert (k = k0) by lia. subst k. f_equal. lia.
    + rewrite Hseq in Hin by assumption. now apply (i_seq_val s I).
  - intros i m k Hi Hin Hk. destruct (Nat.eq_dec i i0) as [->|Ni].
    + rewrite Em in Hin. apply in_snoc in Hin. destruct Hin as [Hin| ->].
      * now apply (i_seq_view s I).
      * rewrite Htk in Hk. specialize (Hrel (valL i0)). lia.
    + rewrite Hseq in Hin by assumption. now apply (i_seq_view s I).
  - intros i m k Hi Hin Hk HL. destruct (Nat.eq_dec i i0) as [->|Ni].
    + lia.
    + rewrite Hseq in Hin by assumption. rewrite HLs' in HL by assumption.
      now apply (i_seq_rview s I i m k).
  - intros i m j Hi Hin. rewrite Hoth in Hin by apply valL_seqL. now apply (i_val_val s I).
  - rewrite HE'. apply (i_push_len s I).
  - intros i k Hi. rewrite HE', HD'. destruct (i_bounds s I i k Hi) as (A1 & B1 & C1 & F1).
    destruct (Nat.eq_dec i i0) as [->|Ni].
    + rewrite HLs0. split.
      * intros Hk. destruct (Nat.eq_dec k k0) as [->|Nk]; [lia|]. apply A1. lia.
      * split; [intros Hk; apply B1; lia|]. split; intros Hk; [specialize (C1 Hk)|specialize (F1 Hk)]; lia.
    + rewrite HLs' by assumption. auto.
  - intros t0 i. destruct (Nat.eq_dec i i0) as [->|Ni].
    + rewrite upd_cell_same. split; [|discriminate]. intros Hx.
      destruct (Nat.eq_dec t0 t) as [->|Hn].
      * rewrite upd_pc_same in Hx. discriminate.
      * rewrite upd_pc_other in Hx by assumption. apply (i_owner s I) in Hx. congruence.
    + rewrite upd_cell_other by assumption. destruct (Nat.eq_dec t0 t) as [->|Hn].
      * rewrite upd_pc_same. simpl. split; [discriminate|]. intros Ho.
        apply (i_owner s I) in Ho. congruence.
      * rewrite upd_pc_other by assumption. apply (i_owner s I).
  - intros i Hi. unfold cell_inv. cbn [ms pcs g_push g_pop g_own g_rview].
    destruct (Nat.eq_dec i i0) as [->|Ni].
    + rewrite upd_cell_same. intros k. rewrite HLs0, HD', HLv'. split; [lia|].
      intros Hk. assert (k = k0) by lia. subst k. split; [|assumption].
      destruct (i_bounds s I i0 k0 Hi0) as (_ & _ & _ & F1).
      destruct (Nat.le_gt_cases (D (ms s)) (i0 + k0 * cap)) as [L|L]; [assumption|].
      specialize (F1 L). lia.
    + rewrite upd_cell_other by assumption.
      pose proof (i_cell s I i Hi) as Cc. unfold cell_inv in Cc.
      destruct (g_own s i) as [t'|] eqn:Eo.
      * assert (t' <> t) by (intros ->; apply Ni; apply (i_owner s I) in Eo; congruence).
        rewrite upd_pc_other by assumption.
        apply (holder_inv_gen s); cbn [ms pcs g_push g_pop g_own g_rview];
          [assumption|lia|lia| |intros l; apply HC|auto|auto].
        intros i' Hi'. assert (i' = i).
        { apply (i_owner s I) in Eo. congruence. } subst i'.
        rewrite HLs', HLv' by assumption. repeat (split; [reflexivity|]).
        intros m Hin. now rewrite Hoth by apply valL_seqL.
      * intros k. rewrite HE', HD', HLv', HLs' by assumption. apply Cc.
  - intros p v0 Hin. destruct (i_pop_in s I p v0 Hin) as (A1 & B1 & C1 & F1).
    rewrite HD'. repeat (split; [assumption|]).
    apply (pop_done_frame s); cbn [ms pcs g_own]; [assumption|apply HLsm|].
    intros t' m Ho Hp'. assert (Nt : t' <> t) by (intros ->; congruence).
    assert (Nc : cellof p <> i0) by (intros Ec; rewrite Ec in Ho; congruence).
    rewrite upd_cell_other, upd_pc_other by assumption. auto.
  - apply (i_pop_nodup s I).
  - intros p Hp. rewrite HD' in Hp. destruct (i_pop_all s I p Hp) as [A1|A1]; [now left|right].
    apply (qread_at_frame s); cbn [pcs g_own]; [assumption|].
    intros t' Ho Hp'. assert (Nt : t' <> t) by (intros ->; congruence).
    assert (Nc : cellof p <> i0) by (intros Ec; rewrite Ec in Ho; congruence).
    rewrite upd_cell_other, upd_pc_other by assumption. auto.
  - intros t0. destruct (Nat.eq_dec t0 t) as [->|Hn].
    + rewrite upd_pc_same. simpl. rewrite (i_push_len s I). auto.
    + rewrite upd_pc_other by assumption. pose proof (i_done s I t0) as X.
      destruct (pcs s t0); try exact Logic.I; exact X.
  - intros t0. destruct (Nat.eq_dec t0 t) as [->|Hn].
    + rewrite upd_pc_same. exact Logic.I.
    + rewrite upd_pc_other by assumption.
      apply (thr_inv_mono (ms s)); [assumption|apply (i_thr s I)].
Qed.

(** 292: the successful CAS on dequeue_pos *)
Lemma step_pop_cas_ok : forall s t w pos M',
  inv s -> pcs s t = QCas w pos ->
  m_val (last_msg (memory (ms s) deqL)) = N.of_nat pos ->
  step (ms s) t (LRmw deqL (o_pop_cas o) (N.of_nat (pos + 1))) M' ->
  inv {| ms := M'; pcs := upd_pc (pcs s) t (QRead pos);
         g_push := g_push s; g_pop := g_pop s;
         g_own := upd_cell (g_own s) (cellof pos) (Some t); g_rview := g_rview s |}.
Proof.
  intros s t w pos M' I Hpc Hq St.
  pose proof (i_wf s I) as Wf.
  destruct (rmw_facts _ _ _ _ _ _ Wf St) as (Wf' & Mo & mk & Em & Hts & Hv & Hoth).
  pose proof (cellof_lt cap pos cap_pos) as Hi0.
  pose proof (pos_decomp cap pos cap_pos) as Hpos.
  pose proof (i_thr s I t) as T. rewrite Hpc in T. simpl in T. destruct T as (T1 & T2 & T3).
  set (i0 := cellof pos) in *. set (k0 := lapof pos) in *.
  assert (Hh : holds (pcs s t) = None) by now rewrite Hpc.
  assert (HDp : D (ms s) = pos).
  { pose proof (i_deq_val s I _ (wf_last_in _ deqL Wf)) as V. rewrite Hq in V.
    apply Nat2N.inj in V. unfold D, last_ts. now rewrite <- V. }
  assert (HD' : D M' = S (D (ms s))) by (unfold D; rewrite Em, last_ts_app, Hts; reflexivity).
  assert (HE' : E M' = E (ms s)) by (unfold E; rewrite Hoth by discriminate; reflexivity).
  assert (HLs' : forall i, Ls M' i = Ls (ms s) i)
    by (intros; unfold Ls; rewrite Hoth by apply seqL_deqL; reflexivity).
  assert (HLv' : forall i, Lv M' i = Lv (ms s) i)
    by (intros; unfold Lv; rewrite Hoth by apply valL_deqL; reflexivity).
  assert (HLs0 : Ls (ms s) i0 = 2 * k0 + 1).
  { destruct (i_bounds s I i0 k0 Hi0) as (_ & B & _).
    destruct (Nat.le_gt_cases (2 * k0 + 2) (Ls (ms s) i0)) as [L|L]; [specialize (B L)|]; lia. }
  assert (HposE : pos < E (ms s)).
  { destruct (i_bounds s I i0 k0 Hi0) as (A & _). rewrite Hpos. apply A. lia. }
  assert (Hown0 : g_own s i0 = None).
  { destruct (g_own s i0) as [t'|] eqn:Eo; [|reflexivity]. exfalso.
    pose proof (i_cell s I i0 Hi0) as C. unfold cell_inv in C. rewrite Eo in C.
    pose proof (proj2 (i_owner s I t' i0) Eo) as Hh'.
    pose proof (pos_decomp cap) as PD.
    destruct (pcs s t') eqn:Ep; try contradiction; simpl in Hh'; injection Hh' as Hc;
      simpl in C; rewrite Hc in C; specialize (PD pos0 cap_pos); rewrite Hc in PD.
    - destruct C as (_ & B & _). lia.
    - destruct C as (_ & B & _). lia.
    - destruct C as (A & _ & B & _). assert (lapof pos0 = k0) by lia. lia.
    - destruct C as (A & _ & B & _). assert (lapof pos0 = k0) by lia. lia. }
  assert (HC : forall t0 l, cur (threads (ms s) t0) l <= cur (threads M' t0) l)
    by (intros; apply (mono_cur _ _ Mo)).
  constructor; cbn [ms pcs g_push g_pop g_own g_rview].
  - exact Wf'.
  - intros m Hin. rewrite Hoth in Hin by discriminate. now apply (i_enq_val s I).
  - intros m Hin. rewrite Em in Hin. apply in_snoc in Hin. destruct Hin as [Hin| ->].
    + now apply (i_deq_val s I).
    + rewrite Hv, Hts. fold (D (ms s)). rewrite HDp. f_equal. lia.
  - intros i m k Hi Hin. rewrite Hoth in Hin by apply seqL_deqL. now apply (i_seq_val s I).
  - intros i m k Hi Hin. rewrite Hoth in Hin by apply seqL_deqL. now apply (i_seq_view s I).
  - intros i m k Hi Hin. rewrite Hoth in Hin by apply seqL_deqL. rewrite HLs'.
    now apply (i_seq_rview s I).
  - intros i m j Hi Hin. rewrite Hoth in Hin by apply valL_deqL. now apply (i_val_val s I).
  - rewrite HE'. apply (i_push_len s I).
  - intros i k Hi. rewrite HE', HD', HLs'. destruct (i_bounds s I i k Hi) as (A & B & C & F).
    split; [assumption|]. split; [intros H; specialize (B H); lia|]. split; [assumption|].
    intros H. destruct (Nat.eq_dec (i + k * cap) pos) as [Ep|Np].
    + rewrite Hpos in Ep. destruct (decomp_unique cap i k i0 k0 Hi Hi0 Ep) as [-> ->]. exact T2.
    + apply F. lia.
  - intros t0 i. destruct (Nat.eq_dec t0 t) as [->|Hn].
    + rewrite upd_pc_same. simpl. fold i0. destruct (Nat.eq_dec i i0) as [->|Ni].
      * rewrite upd_cell_same. tauto.
      * rewrite upd_cell_other by assumption. split; [congruence|].
        intros Ho. now apply (not_owner s t i I Hh) in Ho.
    + rewrite upd_pc_other by assumption. destruct (Nat.eq_dec i i0) as [->|Ni].
      * rewrite upd_cell_same. split; [|congruence].
        intros H. apply (i_owner s I) in H. congruence.
      * rewrite upd_cell_other by assumption. apply (i_owner s I).
  - intros i Hi. unfold cell_inv. cbn [ms pcs g_push g_pop g_own g_rview].
    destruct (Nat.eq_dec i i0) as [->|Ni].
    + rewrite upd_cell_same, upd_pc_same. unfold holder_inv. cbn [ms]. fold i0 k0.
      rewrite HE', HD', HLs', HLv'.
      pose proof (i_cell s I i0 Hi0) as C. unfold cell_inv in C. rewrite Hown0 in C.
      destruct (C k0) as [_ [_ C2]]; [assumption|].
      split; [lia|]. split; [assumption|]. split; [assumption|]. split; [assumption|].
      specialize (HC t (valL i0)); lia.
    + rewrite upd_cell_other by assumption.
      pose proof (i_cell s I i Hi) as C. unfold cell_inv in C.
      destruct (g_own s i) as [t'|] eqn:Eo.
      * assert (t' <> t) by (intros ->; now apply (not_owner s t i I Hh)).
        rewrite upd_pc_other by assumption.
        apply (holder_inv_gen s); cbn [ms pcs g_push g_pop g_own g_rview];
          [assumption|lia|lia| |intros l; apply HC|auto|auto].
        intros i' _. rewrite HLs', HLv'. repeat (split; [reflexivity|]).
        intros m Hin. now rewrite Hoth by apply valL_deqL.
      * intros k. rewrite HE', HD', HLs', HLv'. destruct (C k) as [C1 C2]. split; [assumption|].
        intros H. destruct (C2 H) as [C3 C4]. split; [|assumption].
        destruct (Nat.eq_dec (i + k * cap) pos) as [Ep|Np]; [|lia].
        rewrite Hpos in Ep. destruct (decomp_unique cap i k i0 k0 Hi Hi0 Ep) as [-> ->]. contradiction.
  - intros p v0 Hin. destruct (i_pop_in s I p v0 Hin) as (A & B & C & F).
    rewrite HD'. split; [lia|]. split; [assumption|]. split; [assumption|].
    apply (pop_done_frame s); cbn [ms pcs g_own]; [assumption|rewrite HLs'; lia|].
    intros t' m Ho Hp'. assert (Nc : cellof p <> i0) by (intros Ec; rewrite Ec in Ho; congruence).
    assert (Nt : t' <> t) by (intros ->; congruence).
    rewrite upd_cell_other, upd_pc_other by assumption. auto.
  - apply (i_pop_nodup s I).
  - intros p Hp. rewrite HD' in Hp. destruct (Nat.eq_dec p pos) as [->|Np].
    + right. unfold qread_at. cbn [pcs g_own]. fold i0. now rewrite upd_cell_same, upd_pc_same.
    + assert (Hp' : p < D (ms s)) by lia.
      destruct (i_pop_all s I p Hp') as [A|A]; [now left|right].
      apply (qread_at_frame s); cbn [pcs g_own]; [assumption|].
      intros t' Ho Hp''. assert (Nc : cellof p <> i0) by (intros Ec; rewrite Ec in Ho; congruence).
      assert (Nt : t' <> t) by (intros ->; congruence).
      rewrite upd_cell_other, upd_pc_other by assumption. auto.
  - intros t0. destruct (Nat.eq_dec t0 t) as [->|Hn].
    + rewrite upd_pc_same. exact Logic.I.
    + rewrite upd_pc_other by assumption. pose proof (i_done s I t0) as X.
      destruct (pcs s t0); try exact Logic.I; exact X.
  - intros t0. destruct (Nat.eq_dec t0 t) as [->|Hn].
    + rewrite upd_pc_same. exact Logic.I.
    + rewrite upd_pc_other by assumption.
      apply (thr_inv_mono (ms s)); [assumption|apply (i_thr s I)].
Qed.

(** 311-313: the plain read (move out, destroy) of the element *)
Lemma step_pop_read : forall s t pos m M',
  inv s -> pcs s t = QRead pos ->
  step (ms s) t (LLoad (valL (cellof pos)) Rlx m) M' ->
  inv {| ms := M'; pcs := upd_pc (pcs s) t (QStore pos m);
         g_push := g_push s; g_pop := g_pop s ++ [(pos, m_val m)];
         g_own := g_own s;
         g_rview := upd_cell (g_rview s) (cellof pos) (cur (threads M' t)) |}.
Proof.
  intros s t pos m M' I Hpc St.
  pose proof (i_wf s I) as Wf.
  destruct (load_facts _ _ _ _ _ _ Wf St) as (Wf' & Mo & Hm & Hin & Hlo & Hhi).
  pose proof (cellof_lt cap pos cap_pos) as Hi0.
  pose proof (pos_decomp cap pos cap_pos) as Hpos.
  assert (Hh : holds (pcs s t) = Some (cellof pos)) by now rewrite Hpc.
  pose proof (holder_of s t _ I Hi0 Hh) as H. rewrite Hpc in H. simpl in H.
  destruct H as (A & A' & B & C & F).
  set (i0 := cellof pos) in *. set (k0 := lapof pos) in *.
  assert (Htm : m_ts m = k0 + 1).
  { pose proof (wf_in_ts _ _ _ Wf Hin) as L. fold (Lv (ms s) i0) in L. lia. }
  destruct (i_val_val s I i0 m k0 Hi0 Hin) as [V1 V2]; [lia|]. rewrite <- Hpos in V1, V2.
  assert (HC : forall t0 l, cur (threads (ms s) t0) l <= cur (threads M' t0) l)
    by (intros; apply (mono_cur _ _ Mo)).
  assert (Own : g_own s i0 = Some t) by (now apply owner_of).
  assert (Hnew : ~ In pos (map fst (g_pop s))).
  { intros Hx. apply in_map_iff in Hx. destruct Hx as ([p v0] & Ep & Hx). simpl in Ep. subst p.
    destruct (i_pop_in s I pos v0 Hx) as (_ & _ & _ & [L|L]).
    - fold i0 k0 in L. lia.
    - unfold qstore_at in L. fold i0 in L. rewrite Own, Hpc in L. exact L. }
  constructor; cbn [ms pcs g_push g_pop g_own g_rview]; unfold E, D, Ls, Lv; rewrite ?Hm;
    fold (E (ms s)) (D (ms s)).
  - exact Wf'.
  - apply (i_enq_val s I).
  - apply (i_deq_val s I).
  - apply (i_seq_val s I).
  - apply (i_seq_view s I).
  - intros i m0 k Hi Hin0 Hk HL. destruct (Nat.eq_dec i i0) as [->|Ni].
    + fold (Ls (ms s) i0) in HL. lia.
    + rewrite upd_cell_other by assumption. now apply (i_seq_rview s I i m0 k).
  - apply (i_val_val s I).
  - apply (i_push_len s I).
  - apply (i_bounds s I).
  - apply (owner_same_holds s t (QStore pos m)); try reflexivity; [assumption|now rewrite Hpc].
  - intros i Hi. unfold cell_inv. cbn [ms pcs g_push g_pop g_own g_rview].
    destruct (Nat.eq_dec i i0) as [->|Ni].
    + rewrite Own, upd_pc_same. unfold holder_inv. cbn [ms g_rview g_pop]. fold i0 k0.
      unfold E, D, Ls, Lv. rewrite Hm. fold (E (ms s)) (D (ms s)) (Ls (ms s) i0) (Lv (ms s) i0).
      rewrite upd_cell_same.
      repeat (split; [assumption|]). split; [specialize (HC t (valL i0)); lia|].
      split; [apply vle_refl|]. split; [assumption|]. split; [assumption|].
      apply in_or_app. right. now left.
    + pose proof (i_cell s I i Hi) as Cc. unfold cell_inv in Cc.
      destruct (g_own s i) as [t'|] eqn:Eo.
      * assert (t' <> t) by (intros ->; apply Ni; apply (i_owner s I) in Eo; congruence).
        rewrite upd_pc_other by assumption.
        apply (holder_inv_gen s); cbn [ms pcs g_push g_pop g_own g_rview];
          [assumption|unfold E; rewrite Hm; lia|unfold D; rewrite Hm; lia| |intros l; apply HC|auto|].
        -- intros i' Hi'. assert (i' = i).
           { apply (i_owner s I) in Eo. congruence. } subst i'.
           unfold Ls, Lv. rewrite Hm, upd_cell_other by assumption. auto.
        -- intros x Hx. apply in_or_app. now left.
      * unfold E, D, Ls, Lv in *. rewrite Hm. exact Cc.
  - intros p v0 Hx. apply in_app_or in Hx. destruct Hx as [Hx|[Hx|[]]].
    + destruct (i_pop_in s I p v0 Hx) as (A1 & B1 & C1 & F1).
      repeat (split; [assumption|]).
      apply (pop_done_frame s); cbn [ms pcs g_own]; [assumption|unfold Ls; rewrite Hm; lia|].
      intros t' m0 Ho Hp'. assert (Nt : t' <> t) by (intros ->; congruence).
      rewrite upd_pc_other by assumption. auto.
    + inversion Hx; subst p v0. rewrite (i_push_len s I). repeat (split; [assumption|]).
      right. unfold qstore_at. cbn [pcs g_own]. fold i0. now rewrite Own, upd_pc_same.
  - rewrite map_app. simpl. apply nodup_snoc; [apply (i_pop_nodup s I)|assumption].
  - intros p Hp. rewrite map_app. simpl.
    destruct (i_pop_all s I p Hp) as [A1|A1]; [left; apply in_or_app; now left|].
    destruct (Nat.eq_dec p pos) as [->|Np].
    + left. apply in_or_app. right. now left.
    + right. apply (qread_at_frame s); cbn [pcs g_own]; [assumption|].
      intros t' Ho Hp'. assert (Nt : t' <> t) by (intros ->; congruence).
      rewrite upd_pc_other by assumption. auto.
  - intros t0. destruct (Nat.eq_dec t0 t) as [->|Hn].
    + rewrite upd_pc_same. exact Logic.I.
    + rewrite upd_pc_other by assumption.
      apply (done_inv_mono s); cbn [g_push g_pop]; [apply (i_done s I)|auto|].
      intros x Hx. apply in_or_app. now left.
  - intros t0. destruct (Nat.eq_dec t0 t) as [->|Hn].
    + rewrite upd_pc_same. exact Logic.I.
    + rewrite upd_pc_other by assumption.
      apply (thr_inv_rv _ (g_rview s)).
      * intros i. destruct (Nat.eq_dec i i0) as [->|Ni].
        -- right. exists k0. unfold Ls. rewrite Hm. exact B.
        -- left. now rewrite upd_cell_other.
      * apply (thr_inv_mono (ms s)); [assumption|apply (i_thr s I)].
Qed.

(** 316: the release store of the cell sequence in try_pop (2): frees the cell for the next lap *)
Lemma step_pop_store : forall s t pos m M',
  ok_orders -> inv s -> pcs s t = QStore pos m ->
  step (ms s) t (LStore (seqL (cellof pos)) (o_pop_seq_store o) (N.of_nat (pos + cap))) M' ->
  inv {| ms := M'; pcs := upd_pc (pcs s) t (QDone pos m);
         g_push := g_push s; g_pop := g_pop s;
         g_own := upd_cell (g_own s) (cellof pos) None; g_rview := g_rview s |}.
Proof.
  intros s t pos m M' Ok I Hpc St.
  pose proof (i_wf s I) as Wf.
  destruct (store_facts _ _ _ _ _ _ Wf St) as (Wf' & Mo & mk & Em & Hts & Hv & Hoth & Hcur & Hrel).
  destruct Ok as (_ & _ & _ & Orel). specialize (Hrel Orel).
  pose proof (cellof_lt cap pos cap_pos) as Hi0.
  pose proof (pos_decomp cap pos cap_pos) as Hpos.
  assert (Hh : holds (pcs s t) = Some (cellof pos)) by now rewrite Hpc.
  pose proof (holder_of s t _ I Hi0 Hh) as H. rewrite Hpc in H. simpl in H.
  destruct H as (A & A' & B & C & F & G & K1 & K2 & K3).
  set (i0 := cellof pos) in *. set (k0 := lapof pos) in *.
  assert (HE' : E M' = E (ms s)) by (unfold E; rewrite Hoth by apply enqL_seqL; reflexivity).
  assert (HD' : D M' = D (ms s)) by (unfold D; rewrite Hoth by apply deqL_seqL; reflexivity).
  assert (HLv' : forall i, Lv M' i = Lv (ms s) i)
    by (intros; unfold Lv; rewrite Hoth by apply valL_seqL; reflexivity).
  assert (Htk : m_ts mk = 2 * k0 + 2) by (fold (Ls (ms s) i0) in Hts; lia).
  assert (HLs0 : Ls M' i0 = 2 * k0 + 2) by (unfold Ls; rewrite Em, last_ts_app; exact Htk).
  assert (HLs' : forall i, i <> i0 -> Ls M' i = Ls (ms s) i).
  { intros i Ni. unfold Ls. rewrite Hoth; [reflexivity|]. intros X. apply seqL_inj in X. contradiction. }
  assert (HLsm : forall i, Ls (ms s) i <= Ls M' i) by (intros; now apply mono_Ls).
  assert (HC : forall t0 l, cur (threads (ms s) t0) l <= cur (threads M' t0) l)
    by (intros; apply (mono_cur _ _ Mo)).
  assert (Own : g_own s i0 = Some t) by (now apply owner_of).
  assert (Hseq : forall i, i <> i0 -> memory M' (seqL i) = memory (ms s) (seqL i)).
  { intros i Ni. apply Hoth. intros X. apply seqL_inj in X. contradiction. }
  constructor; cbn [ms pcs g_push g_pop g_own g_rview].
  - exact Wf'.
  - intros m0 Hin. rewrite Hoth in Hin by apply enqL_seqL. now apply (i_enq_val s I).
  - intros m0 Hin. rewrite Hoth in Hin by apply deqL_seqL. now apply (i_deq_val s I).
  - intros i m0 k Hi Hin. destruct (Nat.eq_dec i i0) as [->|Ni].
    + rewrite Em in Hin. apply in_snoc in Hin. destruct Hin as [Hin| ->].
      * now apply (i_seq_val s I).
      * rewrite Htk, Hv. split; intros Hk; [|lia]. assert (k = k0 + 1) by lia. subst k. f_equal. lia.
    + rewrite Hseq in Hin by assumption. now apply (i_seq_val s I).
  - intros i m0 k Hi Hin Hk. destruct (Nat.eq_dec i i0) as [->|Ni].
    + rewrite Em in Hin. apply in_snoc in Hin. destruct Hin as [Hin| ->].
      * now apply (i_seq_view s I).
      * rewrite Htk in Hk. specialize (Hrel (valL i0)). lia.
    + rewrite Hseq in Hin by assumption. now apply (i_seq_view s I).
  - intros i m0 k Hi Hin Hk HL. destruct (Nat.eq_dec i i0) as [->|Ni].
    + rewrite Em in Hin. apply in_snoc in Hin. destruct Hin as [Hin| ->].
      * pose proof (wf_in_ts _ _ _ Wf Hin) as L. fold (Ls (ms s) i0) in L. lia.
      * apply (vle_mono_r _ _ _ G Hrel).
    + rewrite Hseq in Hin by assumption. rewrite HLs' in HL by assumption.
      now apply (i_seq_rview s I i m0 k).
  - intros i m0 j Hi Hin. rewrite Hoth in Hin by apply valL_seqL. now apply (i_val_val s I).
  - rewrite HE'. apply (i_push_len s I).
  - intros i k Hi. rewrite HE', HD'. destruct (i_bounds s I i k Hi) as (A1 & B1 & C1 & F1).
    destruct (Nat.eq_dec i i0) as [->|Ni].
    + rewrite HLs0. split; [intros Hk; apply A1; lia|]. split.
      * intros Hk. destruct (Nat.eq_dec k k0) as [->|Nk]; [lia|]. apply B1. lia.
      * split; intros Hk; [specialize (C1 Hk)|specialize (F1 Hk)]; lia.
    + rewrite HLs' by assumption. auto.
  - intros t0 i. destruct (Nat.eq_dec i i0) as [->|Ni].
    + rewrite upd_cell_same. split; [|discriminate]. intros Hx.
      destruct (Nat.eq_dec t0 t) as [->|Hn].
      * rewrite upd_pc_same in Hx. discriminate.
      * rewrite upd_pc_other in Hx by assumption. apply (i_owner s I) in Hx. congruence.
    + rewrite upd_cell_other by assumption. destruct (Nat.eq_dec t0 t) as [->|Hn].
      * rewrite upd_pc_same. simpl. split; [discriminate|]. intros Ho.
        apply (i_owner s I) in Ho. congruence.
      * rewrite upd_pc_other by assumption. apply (i_owner s I).
  - intros i Hi. unfold cell_inv. cbn [ms pcs g_push g_pop g_own g_rview].
    destruct (Nat.eq_dec i i0) as [->|Ni].
    + rewrite upd_cell_same. intros k. rewrite HLs0, HE', HLv'. split; [|lia].
      intros Hk. assert (k = k0 + 1) by lia. subst k. split; [|assumption].
      destruct (i_bounds s I i0 (k0 + 1) Hi0) as (_ & _ & C1 & _).
      destruct (Nat.le_gt_cases (E (ms s)) (i0 + (k0 + 1) * cap)) as [L|L]; [assumption|].
      specialize (C1 L). lia.
    + rewrite upd_cell_other by assumption.
      pose proof (i_cell s I i Hi) as Cc. unfold cell_inv in Cc.
      destruct (g_own s i) as [t'|] eqn:Eo.
      * assert (t' <> t) by (intros ->; apply Ni; apply (i_owner s I) in Eo; congruence).
        rewrite upd_pc_other by assumption.
        apply (holder_inv_gen s); cbn [ms pcs g_push g_pop g_own g_rview];
          [assumption|lia|lia| |intros l; apply HC|auto|auto].
        intros i' Hi'. assert (i' = i).
        { apply (i_owner s I) in Eo. congruence. } subst i'.
        rewrite HLs', HLv' by assumption. repeat (split; [reflexivity|]).
        intros m0 Hin. now rewrite Hoth by apply valL_seqL.
      * intros k. rewrite HE', HD', HLv', HLs' by assumption. apply Cc.
  - intros p v0 Hin. destruct (i_pop_in s I p v0 Hin) as (A1 & B1 & C1 & F1).
    rewrite HD'. repeat (split; [assumption|]).
    destruct F1 as [F1|F1]; [left; cbn [ms]; specialize (HLsm (cellof p)); lia|].
    unfold qstore_at in F1. destruct (g_own s (cellof p)) as [t'|] eqn:Eo; [|contradiction].
    destruct (pcs s t') eqn:Ep; try contradiction. subst pos0.
    destruct (Nat.eq_dec t' t) as [->|Nt].
    + left. cbn [ms]. rewrite Hpc in Ep. inversion Ep; subst p. fold i0 k0. lia.
    + right. unfold qstore_at. cbn [pcs g_own].
      assert (Nc : cellof p <> i0) by (intros Ec; rewrite Ec in Eo; congruence).
      now rewrite upd_cell_other, Eo, upd_pc_other, Ep by assumption.
  - apply (i_pop_nodup s I).
  - intros p Hp. rewrite HD' in Hp. destruct (i_pop_all s I p Hp) as [A1|A1]; [now left|right].
    apply (qread_at_frame s); cbn [pcs g_own]; [assumption|].
    intros t' Ho Hp'. assert (Nt : t' <> t) by (intros ->; congruence).
    assert (Nc : cellof p <> i0) by (intros Ec; rewrite Ec in Ho; congruence).
    rewrite upd_cell_other, upd_pc_other by assumption. auto.
  - intros t0. destruct (Nat.eq_dec t0 t) as [->|Hn].
    + rewrite upd_pc_same. exact K3.
    + rewrite upd_pc_other by assumption. pose proof (i_done s I t0) as X.
      destruct (pcs s t0); try exact Logic.I; exact X.
  - intros t0. destruct (Nat.eq_dec t0 t) as [->|Hn].
    + rewrite upd_pc_same. exact Logic.I.
    + rewrite upd_pc_other by assumption.
      apply (thr_inv_mono (ms s)); [assumption|apply (i_thr s I)].
Qed.

(** ** The invariant holds in every reachable state *)

Lemma inv_step : forall s t lab s',
  orders_ok o = true -> inv s -> pstep s t lab s' -> inv s'.
Proof.
  intros s t lab s' Ok I St. apply orders_ok_spec in Ok.
  destruct St.
  - eapply step_to_pseq; [assumption|now apply idle_holds|eassumption].
  - eapply step_push_seq; eassumption.
  - eapply step_push_cas_ok; eassumption.
  - eapply step_to_pseq; [assumption|now rewrite H|eassumption].
  - eapply step_to_pseq; [assumption|now rewrite H|eassumption].
  - eapply step_push_enq2; eassumption.
  - eapply step_push_deq; eassumption.
  - eapply step_push_write; eassumption.
  - eapply step_push_store; eassumption.
  - eapply step_to_qseq; [assumption|now apply idle_holds|eassumption].
  - eapply step_pop_seq; eassumption.
  - eapply step_pop_cas_ok; eassumption.
  - eapply step_to_qseq; [assumption|now rewrite H|eassumption].
  - eapply step_to_qseq; [assumption|now rewrite H|eassumption].
  - eapply step_pop_deq2; eassumption.
  - eapply step_pop_enq; eassumption.
  - eapply step_pop_read; eassumption.
  - eapply step_pop_store; eassumption.
Qed.

Theorem inv_preach : forall s, orders_ok o = true -> preach s -> inv s.
Proof.
  intros s Ok R. induction R; [apply inv_init|eapply inv_step; eassumption].
Qed.

(** ** (a) MESSAGE PASSING: every pop returns the element of the push with the same ticket *)

(** tickets: [D <= E <= D + cap] (never more than [cap] elements) *)
Lemma tickets_bounded : forall s, inv s ->
  length (g_push s) = E (ms s) /\ D (ms s) <= E (ms s) /\ E (ms s) <= D (ms s) + cap.
Proof.
  intros s I. split; [apply (i_push_len s I)|]. split.
  - destruct (D (ms s)) as [|d] eqn:Ed; [lia|].
    pose proof (cellof_lt cap d cap_pos) as Hi. pose proof (pos_decomp cap d cap_pos) as Hd.
    destruct (i_bounds s I _ (lapof d) Hi) as (A & _ & _ & F). rewrite Ed in F.
    assert (H1 : 2 * lapof d + 1 <= Ls (ms s) (cellof d)) by (apply F; lia).
    specialize (A H1). lia.
  - destruct (E (ms s)) as [|e] eqn:Ee; [lia|].
    destruct (Nat.lt_ge_cases e cap) as [L|L]; [lia|].
    pose proof (cellof_lt cap e cap_pos) as Hi. pose proof (pos_decomp cap e cap_pos) as He.
    destruct (lapof e) as [|k'] eqn:Ek; [lia|].
    destruct (i_bounds s I _ (S k') Hi) as (_ & _ & C & _). rewrite Ee in C.
    assert (H1 : 2 * S k' <= Ls (ms s) (cellof e)) by (apply C; lia).
    destruct (i_bounds s I _ k' Hi) as (_ & B & _ & _).
    assert (H2 : cellof e + k' * cap < D (ms s)) by (apply B; lia). lia.
Qed.

(** A pop that has read its element (thread [t] at [QStore pos m]: its CAS on dequeue_pos gave it
    ticket [pos], [m] is the message of [cells[pos & mask].data] it read):
    - [m] is the [lapof pos + 1]-st write to the slot, i.e. the write of the push with ticket [pos]
      (the push whose sequence store [pos + 1] the pop observed), and it is the LATEST message of the
      slot - neither a stale nor a later value;
    - its value is the value pushed with ticket [pos]. *)
Theorem vyukov_pop_reads_push_wm : forall s t pos m,
  orders_ok o = true -> preach s -> pcs s t = QStore pos m ->
  In m (memory (ms s) (valL (cellof pos))) /\
  m_ts m = lapof pos + 1 /\
  m_ts m = last_ts (memory (ms s) (valL (cellof pos))) /\
  pos < D (ms s) /\ pos < length (g_push s) /\
  m_val m = nth pos (g_push s) 0%N /\
  In (pos, m_val m) (g_pop s).
Proof.
  intros s t pos m Ok R Hpc. pose proof (inv_preach s Ok R) as I.
  pose proof (cellof_lt cap pos cap_pos) as Hi0.
  assert (Hh : holds (pcs s t) = Some (cellof pos)) by now rewrite Hpc.
  pose proof (holder_of s t _ I Hi0 Hh) as H. rewrite Hpc in H. simpl in H.
  destruct H as (A & A' & B & C & F & G & K1 & K2 & K3).
  destruct (i_pop_in s I _ _ K3) as (P1 & P2 & P3 & _).
  unfold Lv in C. repeat split; try assumption; lia.
Qed.

(** The histories: every recorded pop [(p, v)] has a ticket [p] that was issued ([p < D]) to a push
    that was issued ([p < length g_push]), and [v] is the value of that push (nothing invented, FIFO
    per ticket); no ticket is popped twice (no duplication); every issued pop ticket has been served or
    is owned by a thread that is about to read the element (no loss); a completed pop / push is recorded. *)
Theorem vyukov_histories_wm : forall s,
  orders_ok o = true -> preach s ->
  (forall p v, In (p, v) (g_pop s) ->
     p < D (ms s) /\ p < length (g_push s) /\ v = nth p (g_push s) 0%N) /\
  NoDup (map fst (g_pop s)) /\
  (forall p, p < D (ms s) -> In p (map fst (g_pop s)) \/ exists t, pcs s t = QRead p) /\
  (forall t pos m, pcs s t = QDone pos m -> In (pos, m_val m) (g_pop s)) /\
  (forall t v pos, pcs s t = PDone v pos ->
     pos < length (g_push s) /\ nth pos (g_push s) 0%N = v) /\
  length (g_push s) = E (ms s) /\ D (ms s) <= E (ms s) /\ E (ms s) <= D (ms s) + cap.
Proof.
  intros s Ok R. pose proof (inv_preach s Ok R) as I.
  split; [|split; [|split; [|split; [|split]]]].
  - intros p v Hin. destruct (i_pop_in s I p v Hin) as (A & B & C & _). auto.
  - apply (i_pop_nodup s I).
  - intros p Hp. destruct (i_pop_all s I p Hp) as [A|A]; [now left|right].
    unfold qread_at in A. destruct (g_own s (cellof p)) as [t|]; [|contradiction]. now exists t.
  - intros t pos m Hpc. pose proof (i_done s I t) as X. now rewrite Hpc in X.
  - intros t v pos Hpc. pose proof (i_done s I t) as X. now rewrite Hpc in X.
  - now apply tickets_bounded.
Qed.

(** ** (b) RACE FREEDOM of the plain accesses to [cells[i].data]

    The accesses are made by the owner of the cell (between its successful CAS and its store of the
    cell sequence); a cell has at most one owner.
    - the push about to WRITE the slot (276) has in its view (i) the latest message of the slot - every
      earlier write to the slot happens-before this write - and (ii) the complete view that the last
      reader of the slot had when it read (311-313) - that read happens-before this write;
    - the pop about to READ the slot has in its view the latest message of the slot, which is the
      write of the push with the same ticket - that write happens-before the read, and no later write
      exists. *)
Theorem vyukov_race_free_wm : forall s,
  orders_ok o = true -> preach s ->
  (forall t1 t2 i, holds (pcs s t1) = Some i -> holds (pcs s t2) = Some i -> t1 = t2) /\
  (forall t v pos, pcs s t = PWrite v pos ->
     cur (threads (ms s) t) (valL (cellof pos)) = last_ts (memory (ms s) (valL (cellof pos))) /\
     last_ts (memory (ms s) (valL (cellof pos))) = lapof pos /\
     vle (g_rview s (cellof pos)) (cur (threads (ms s) t))) /\
  (forall t pos, pcs s t = QRead pos ->
     cur (threads (ms s) t) (valL (cellof pos)) = last_ts (memory (ms s) (valL (cellof pos))) /\
     last_ts (memory (ms s) (valL (cellof pos))) = lapof pos + 1).
Proof.
  intros s Ok R. pose proof (inv_preach s Ok R) as I. split; [|split].
  - intros t1 t2 i H1 H2. apply (i_owner s I) in H1. apply (i_owner s I) in H2. congruence.
  - intros t v pos Hpc. pose proof (cellof_lt cap pos cap_pos) as Hi0.
    assert (Hh : holds (pcs s t) = Some (cellof pos)) by now rewrite Hpc.
    pose proof (holder_of s t _ I Hi0 Hh) as H. rewrite Hpc in H. simpl in H.
    destruct H as (A & B & C & F & G & K).
    pose proof (wf_cur _ (i_wf s I) t (valL (cellof pos))) as Wc. unfold Lv in C.
    split; [lia|]. split; assumption.
  - intros t pos Hpc. pose proof (cellof_lt cap pos cap_pos) as Hi0.
    assert (Hh : holds (pcs s t) = Some (cellof pos)) by now rewrite Hpc.
    pose proof (holder_of s t _ I Hi0 Hh) as H. rewrite Hpc in H. simpl in H.
    destruct H as (A & A' & B & C & F).
    pose proof (wf_cur _ (i_wf s I) t (valL (cellof pos))) as Wc. unfold Lv in C.
    split; [lia|assumption].
Qed.

(** ** (c) FAILURES are justified by the messages read

    try_push returned false ([PFull w pos mq md]) / try_pop returned empty ([QEmpty w pos mq me]);
    [pos] was read from a message of enqueue_pos / dequeue_pos ([pos <= E] / [pos <= D]), [mq] is the
    message of the cell sequence that was read.
    - Weak push: [mq] is older (in the modification order of the cell sequence) than the store
      [2 * lapof pos] by which the pop of ticket [pos - cap] frees the cell: when [mq] was the latest
      message, the cell was still occupied.
    - Strong push: seq != pos, enqueue_pos was read twice as [pos] and a message [d] of dequeue_pos
      with value [pos - cap] was read.
    - Weak pop: [mq] is not newer than the store [2 * lapof pos] that frees the cell for ticket [pos]:
      when [mq] was the latest message, the element of ticket [pos] had not been published.
    - Strong pop: seq != pos + 1, dequeue_pos was read twice as [pos] and a message [e] of
      enqueue_pos with value [pos] was read.
    Under weak memory each of these reads may be STALE ([spurious_full] / [spurious_empty] below);
    a failing operation has written nothing ([fail_step_pure]), so (a) is not affected. *)
Theorem vyukov_fail_justified_wm : forall s,
  orders_ok o = true -> preach s ->
  (forall t w pos mq md, pcs s t = PFull w pos mq md ->
     pos <= E (ms s) /\ In mq (memory (ms s) (seqL (cellof pos))) /\
     match md with
     | None => w = true /\ (m_val mq < N.of_nat pos)%N /\ m_ts mq < 2 * lapof pos
     | Some d => w = false /\ m_val mq <> N.of_nat pos /\
                 In d (memory (ms s) deqL) /\ m_ts d + cap = pos
     end) /\
  (forall t w pos mq me, pcs s t = QEmpty w pos mq me ->
     pos <= D (ms s) /\ In mq (memory (ms s) (seqL (cellof pos))) /\
     match me with
     | None => w = true /\ (m_val mq < N.of_nat (pos + 1))%N /\ m_ts mq <= 2 * lapof pos
     | Some e => w = false /\ m_val mq <> N.of_nat (pos + 1) /\
                 In e (memory (ms s) enqL) /\ m_ts e = pos
     end).
Proof.
  intros s Ok R. pose proof (inv_preach s Ok R) as I. split.
  - intros t w pos mq md Hpc. pose proof (i_thr s I t) as T. rewrite Hpc in T. simpl in T.
    destruct T as (A & B & C). split; [assumption|]. split; [assumption|].
    pose proof (cellof_lt cap pos cap_pos) as Hi0.
    destruct md as [d|].
    + destruct C as (C1 & C2 & C3 & C4). repeat (split; [assumption|]).
      rewrite (i_deq_val s I d C3) in C4. lia.
    + destruct C as (C1 & C2). split; [assumption|]. split; [assumption|].
      apply (seq_val_lt_even s (cellof pos) mq (lapof pos) I Hi0 B).
      now rewrite <- (pos_decomp cap pos cap_pos).
  - intros t w pos mq me Hpc. pose proof (i_thr s I t) as T. rewrite Hpc in T. simpl in T.
    destruct T as (A & B & C). split; [assumption|]. split; [assumption|].
    pose proof (cellof_lt cap pos cap_pos) as Hi0.
    destruct me as [e|].
    + destruct C as (C1 & C2 & C3 & C4). repeat (split; [assumption|]).
      rewrite (i_enq_val s I e C3) in C4. lia.
    + destruct C as (C1 & C2). split; [assumption|]. split; [assumption|].
      apply (seq_val_lt_odd s (cellof pos) mq (lapof pos) I Hi0 B).
      now rewrite <- (pos_decomp cap pos cap_pos).
Qed.

(** the step by which an operation fails is a load: it changes neither the memory nor the histories *)
Lemma fail_step_pure : forall s t lab s',
  pstep s t lab s' -> has_failed (pcs s' t) = true -> has_failed (pcs s t) = false ->
  memory (ms s') = memory (ms s) /\ g_push s' = g_push s /\ g_pop s' = g_pop s.
Proof.
  intros s t lab s' St Hf Hn.
  destruct St; cbn [ms pcs g_push g_pop set_pc] in *;
    try (rewrite upd_pc_same in Hf; discriminate);
    (split; [|split; reflexivity]);
    match goal with H : step _ _ (LLoad _ _ _) _ |- _ =>
      apply step_load_inv in H; destruct H as [_ ->]; reflexivity end.
Qed.

(** ** The executable form is sound *)

Lemma with_load_sound : forall M t l od i k lab s',
  with_load M t l od i k = Some (lab, s') ->
  exists m M', lab = LLoad l od m /\ s' = k m M' /\ step M t (LLoad l od m) M'.
Proof.
  unfold with_load. intros M t l od i k lab s' H.
  destruct (exec_load M t l od i) as [[m M']|] eqn:Ex; [|discriminate].
  inversion H; subst. exists m, M'. split; [reflexivity|]. split; [reflexivity|].
  eapply exec_load_step; eassumption.
Qed.

Lemma pexec_sound : forall s t c lab s', pexec cap o s t c = Some (lab, s') -> pstep s t lab s'.
Proof.
  intros s t c lab s' H. unfold pexec in H. destruct c.
  - destruct (is_idle (pcs s t)) eqn:Ei; [|discriminate].
    apply with_load_sound in H. destruct H as (m & M' & -> & -> & St). now apply ps_push_start.
  - destruct (is_idle (pcs s t)) eqn:Ei; [|discriminate].
    apply with_load_sound in H. destruct H as (m & M' & -> & -> & St). now apply ps_pop_start.
  - destruct (pcs s t) eqn:Ep; try discriminate;
      apply with_load_sound in H; destruct H as (m0 & M' & -> & -> & St).
    + eapply ps_push_seq; eassumption.
    + eapply ps_push_cas_fail; eassumption.
    + eapply ps_push_enq_w; eassumption.
    + eapply ps_push_enq2; eassumption.
    + eapply ps_push_deq; eassumption.
    + eapply ps_pop_seq; eassumption.
    + eapply ps_pop_cas_fail; eassumption.
    + eapply ps_pop_deq_w; eassumption.
    + eapply ps_pop_deq2; eassumption.
    + eapply ps_pop_enq; eassumption.
    + eapply ps_pop_read; eassumption.
  - destruct (pcs s t) eqn:Ep; try discriminate.
    + destruct (N.eqb_spec (m_val (last_msg (memory (ms s) enqL))) (N.of_nat pos)) as [Eq|]; [|discriminate].
      inversion H; subst. eapply ps_push_cas_ok; [eassumption|assumption|constructor].
    + destruct (N.eqb_spec (m_val (last_msg (memory (ms s) deqL))) (N.of_nat pos)) as [Eq|]; [|discriminate].
      inversion H; subst. eapply ps_pop_cas_ok; [eassumption|assumption|constructor].
  - destruct (pcs s t) eqn:Ep; try discriminate; inversion H; subst.
    + eapply ps_push_write; [eassumption|constructor].
    + eapply ps_push_store; [eassumption|constructor].
    + eapply ps_pop_store; [eassumption|constructor].
Qed.

Lemma prun_sound : forall cs s tr s', prun cap o s cs = Some (tr, s') -> ptrace s tr s'.
Proof.
  induction cs as [|[t c] cs IH]; intros s tr s' H; simpl in H.
  - inversion H; subst. constructor.
  - destruct (pexec cap o s t c) as [[lab s1]|] eqn:Ex; [|discriminate].
    destruct (prun cap o s1 cs) as [[tr1 s2]|] eqn:E2; [|discriminate].
    inversion H; subst. econstructor; [eapply pexec_sound; eassumption|now apply IH].
Qed.

Lemma pstep_step : forall s t lab s', pstep s t lab s' -> step (ms s) t lab (ms s').
Proof. intros s t lab s' H. destruct H; assumption. Qed.

(** the trace of a program execution is a valid trace of the machine *)
Lemma ptrace_valid : forall s tr s', ptrace s tr s' -> valid (ms s) tr /\ ms s' = run (ms s) tr.
Proof.
  induction 1 as [|s t lab s1 tr s2 St _ [IH1 IH2]]; simpl; [auto|].
  apply pstep_step in St. apply step_apply in St. destruct St as [En Eq].
  rewrite <- Eq. auto.
Qed.

Lemma ptrace_preach : forall s tr s', preach s -> ptrace s tr s' -> preach s'.
Proof.
  intros s tr s' R H. induction H; [assumption|]. apply IHptrace. eapply preach_step; eassumption.
Qed.

End Proof.

(** ** Concrete executions *)

(** "some execution of the program with [cap] cells and orders [od], whose machine trace has the summary
    [sg], reaches a state satisfying [P]" *)
Definition exec_reaches (cap : nat) (od : orders) (sg : list esig) (P : pstate -> Prop) : Prop :=
  exists tr s,
    preach cap od s /\ ptrace cap od pinit tr s /\
    valid minit tr /\ ms s = run minit tr /\ map sig_of tr = sg /\ P s.

Lemma exec_reaches_by_computation : forall cap od cs sg (P : pstate -> Prop),
  match prun cap od pinit cs with
  | Some (tr, s) => map sig_of tr = sg /\ P s
  | None => False
  end -> exec_reaches cap od sg P.
Proof.
  intros cap od cs sg P H.
  destruct (prun cap od pinit cs) as [[tr s]|] eqn:Ex; [|contradiction].
  destruct H as [H1 H2]. apply prun_sound in Ex.
  exists tr, s. split; [eapply ptrace_preach; [constructor|eassumption]|]. split; [assumption|].
  apply ptrace_valid in Ex. destruct Ex as [V Mm]. auto.
Qed.

(** observers *)
Definition writer_view (cap : nat) (s : pstate) (t : tid) : option (ts * ts) :=
  match pcs s t with
  | PWrite v pos => Some (cur (threads (ms s) t) (valL (cellof cap pos)),
                          last_ts (memory (ms s) (valL (cellof cap pos))))
  | _ => None
  end.
(** (is it a push, Weak, pos) of a failed operation *)
Definition fail_result (s : pstate) (t : tid) : option (bool * bool * nat) :=
  match pcs s t with
  | PFull w pos _ _ => Some (true, w, pos)
  | QEmpty w pos _ _ => Some (false, w, pos)
  | _ => None
  end.

Arguments exec_reaches cap%nat od sg P.
Arguments exec_reaches_by_computation cap%nat od cs sg P.
Arguments writer_view cap%nat s t%nat.
Arguments fail_result s t%nat.
Arguments pop_result s t%nat.

Local Open Scope N_scope.

(** a complete try_push by thread [t]: 252 reads message [i] of enqueue_pos, 256 reads message [c] of the
    cell sequence; a complete try_pop: 285 reads message [i] of dequeue_pos, 289 message [c] of the cell
    sequence, 311 message [d] of the value slot *)
Definition push1 (t : tid) (w : bool) (v : val) (i c : nat) : list (tid * choice) :=
  [(t, CPush w v i); (t, CRd c); (t, CCas); (t, CGo); (t, CGo)].
Definition pop1 (t : tid) (w : bool) (i c d : nat) : list (tid * choice) :=
  [(t, CPop w i); (t, CRd c); (t, CCas); (t, CRd d); (t, CGo)].
Arguments push1 t%nat w v%N (i c)%nat.
Arguments pop1 t%nat w (i c d)%nat.

(** *** NON-VACUITY: 2 cells, the orders of the source: thread 1 pushes 7 and 8, thread 3 pushes 9 (into
    cell 0 again, second lap); thread 2 pops three times and obtains 7, 8, 9 with tickets 0, 1, 2.
    Locations: 0 enqueue_pos, 1 dequeue_pos, 2 / 3 sequence / data of cell 0, 4 / 5 of cell 1. *)
Example xenium_three_laps :
  exec_reaches 2 xenium_orders
    [ SLoad 1 0 Rlx 0 0; SLoad 1 2 Acq 0 0; SRmw 1 0 Rlx 1; SStore 1 3 Rlx 7; SStore 1 2 Rel 1;
      SLoad 2 1 Rlx 0 0; SLoad 2 2 Acq 1 1; SRmw 2 1 Rlx 1; SLoad 2 3 Rlx 7 1; SStore 2 2 Rel 2;
      SLoad 1 0 Rlx 1 1; SLoad 1 4 Acq 1 0; SRmw 1 0 Rlx 2; SStore 1 5 Rlx 8; SStore 1 4 Rel 2;
      SLoad 2 1 Rlx 1 1; SLoad 2 4 Acq 2 1; SRmw 2 1 Rlx 2; SLoad 2 5 Rlx 8 1; SStore 2 4 Rel 3;
      SLoad 3 0 Rlx 2 2; SLoad 3 2 Acq 2 2; SRmw 3 0 Rlx 3; SStore 3 3 Rlx 9; SStore 3 2 Rel 3;
      SLoad 2 1 Rlx 2 2; SLoad 2 2 Acq 3 3; SRmw 2 1 Rlx 3; SLoad 2 3 Rlx 9 2; SStore 2 2 Rel 4 ]
    (fun s => pop_result s 2 = Some (2%nat, 9) /\ g_push s = [7; 8; 9] /\
              g_pop s = [(0%nat, 7); (1%nat, 8); (2%nat, 9)]).
Proof.
  apply (exec_reaches_by_computation 2 xenium_orders
    (push1 1 false 7 0 0 ++ pop1 2 false 0 1 1 ++ push1 1 false 8 1 0 ++ pop1 2 false 1 1 1 ++
     push1 3 true 9 2 2 ++ pop1 2 true 2 3 2)).
  vm_compute. repeat split.
Qed.

(** *** NECESSITY of the four conditions of [orders_ok] *)

(** thread 1 pushes 7; thread 2 pops, reads the published sequence value 1 of cell 0, but then the
    INITIAL message (timestamp 0) of the value slot *)
Definition cs_stale_pop : list (tid * choice) := push1 1 false 7 0 0 ++ pop1 2 false 0 1 0.

(** (4) the sequence store of try_push (278) relaxed: the pop returns 0, a value that was never pushed *)
Theorem weak_push_seq_store_invents :
  exec_reaches 2 (set_push_seq_store Rlx xenium_orders)
    [ SLoad 1 0 Rlx 0 0; SLoad 1 2 Acq 0 0; SRmw 1 0 Rlx 1; SStore 1 3 Rlx 7;
      SStore 1 2 Rlx 1;           (* T1 278: sequence := 1, relaxed *)
      SLoad 2 1 Rlx 0 0;
      SLoad 2 2 Acq 1 1;          (* T2 289: seq = 1 = pos + 1 *)
      SRmw 2 1 Rlx 1;
      SLoad 2 3 Rlx 0 0;          (* T2 311: reads the uninitialised slot *)
      SStore 2 2 Rel 2 ]
    (fun s => pop_result s 2 = Some (0%nat, 0) /\ g_push s = [7] /\ g_pop s = [(0%nat, 0)]).
Proof.
  apply (exec_reaches_by_computation 2 _ cs_stale_pop). vm_compute. repeat split.
Qed.

(** (1) the sequence load of try_pop (289) relaxed: the same *)
Theorem weak_pop_seq_load_invents :
  exec_reaches 2 (set_pop_seq_load Rlx xenium_orders)
    [ SLoad 1 0 Rlx 0 0; SLoad 1 2 Acq 0 0; SRmw 1 0 Rlx 1; SStore 1 3 Rlx 7; SStore 1 2 Rel 1;
      SLoad 2 1 Rlx 0 0;
      SLoad 2 2 Rlx 1 1;          (* T2 289: seq = 1, relaxed *)
      SRmw 2 1 Rlx 1;
      SLoad 2 3 Rlx 0 0;          (* T2 311: reads the uninitialised slot *)
      SStore 2 2 Rel 2 ]
    (fun s => pop_result s 2 = Some (0%nat, 0) /\ g_push s = [7] /\ g_pop s = [(0%nat, 0)]).
Proof.
  apply (exec_reaches_by_computation 2 _ cs_stale_pop). vm_compute. repeat split.
Qed.

(** the machine rejects these read choices under the orders of the source *)
Example xenium_orders_reject_stale_pop : prun 2 xenium_orders pinit cs_stale_pop = None.
Proof. vm_compute. reflexivity. Qed.

(** hence the conclusion of (a) is FALSE for these orders *)
Theorem weak_orders_refute_mp :
  ~ (forall s p v, preach 2 (set_push_seq_store Rlx xenium_orders) s ->
       In (p, v) (g_pop s) -> v = nth p (g_push s) 0) /\
  ~ (forall s p v, preach 2 (set_pop_seq_load Rlx xenium_orders) s ->
       In (p, v) (g_pop s) -> v = nth p (g_push s) 0).
Proof.
  split; intros H.
  - destruct weak_push_seq_store_invents as (tr & s & R & _ & _ & _ & _ & _ & Hg & Hp).
    specialize (H s 0%nat 0 R). rewrite Hg, Hp in H. simpl in H.
    assert (X : 0 = 7) by (apply H; now left). discriminate.
  - destruct weak_pop_seq_load_invents as (tr & s & R & _ & _ & _ & _ & _ & Hg & Hp).
    specialize (H s 0%nat 0 R). rewrite Hg, Hp in H. simpl in H.
    assert (X : 0 = 7) by (apply H; now left). discriminate.
Qed.

(** thread 1 pushes 7 and 8, thread 2 pops 7 (frees cell 0), thread 3 obtains ticket 2 (cell 0, second
    lap) and is about to write the slot *)
Definition cs_reuse : list (tid * choice) :=
  push1 1 false 7 0 0 ++ push1 1 false 8 1 0 ++ pop1 2 false 0 1 1 ++
  [(3%nat, CPush false 9 2); (3%nat, CRd 2); (3%nat, CCas)].

(** (2) the sequence store of try_pop (316) relaxed: thread 3 writes the slot although the previous write
    to it (timestamp 1) - and the pop's read of it - is not in its view (view 0): a DATA RACE *)
Theorem weak_pop_seq_store_races :
  exec_reaches 2 (set_pop_seq_store Rlx xenium_orders)
    [ SLoad 1 0 Rlx 0 0; SLoad 1 2 Acq 0 0; SRmw 1 0 Rlx 1; SStore 1 3 Rlx 7; SStore 1 2 Rel 1;
      SLoad 1 0 Rlx 1 1; SLoad 1 4 Acq 1 0; SRmw 1 0 Rlx 2; SStore 1 5 Rlx 8; SStore 1 4 Rel 2;
      SLoad 2 1 Rlx 0 0; SLoad 2 2 Acq 1 1; SRmw 2 1 Rlx 1; SLoad 2 3 Rlx 7 1;
      SStore 2 2 Rlx 2;           (* T2 316: sequence := 2, relaxed *)
      SLoad 3 0 Rlx 2 2;
      SLoad 3 2 Acq 2 2;          (* T3 256: seq = 2 = pos *)
      SRmw 3 0 Rlx 3 ]
    (fun s => writer_view 2 s 3 = Some (0%nat, 1%nat)).
Proof.
  apply (exec_reaches_by_computation 2 _ cs_reuse). vm_compute. repeat split.
Qed.

(** (3) the sequence load of try_push (256) relaxed: the same *)
Theorem weak_push_seq_load_races :
  exec_reaches 2 (set_push_seq_load Rlx xenium_orders)
    [ SLoad 1 0 Rlx 0 0; SLoad 1 2 Rlx 0 0; SRmw 1 0 Rlx 1; SStore 1 3 Rlx 7; SStore 1 2 Rel 1;
      SLoad 1 0 Rlx 1 1; SLoad 1 4 Rlx 1 0; SRmw 1 0 Rlx 2; SStore 1 5 Rlx 8; SStore 1 4 Rel 2;
      SLoad 2 1 Rlx 0 0; SLoad 2 2 Acq 1 1; SRmw 2 1 Rlx 1; SLoad 2 3 Rlx 7 1; SStore 2 2 Rel 2;
      SLoad 3 0 Rlx 2 2;
      SLoad 3 2 Rlx 2 2;          (* T3 256: seq = 2 = pos, relaxed *)
      SRmw 3 0 Rlx 3 ]
    (fun s => writer_view 2 s 3 = Some (0%nat, 1%nat)).
Proof.
  apply (exec_reaches_by_computation 2 _ cs_reuse). vm_compute. repeat split.
Qed.

(** with the orders of the source the same schedule gives the writer the latest message of the slot *)
Example xenium_orders_reuse_ordered :
  exec_reaches 2 xenium_orders
    [ SLoad 1 0 Rlx 0 0; SLoad 1 2 Acq 0 0; SRmw 1 0 Rlx 1; SStore 1 3 Rlx 7; SStore 1 2 Rel 1;
      SLoad 1 0 Rlx 1 1; SLoad 1 4 Acq 1 0; SRmw 1 0 Rlx 2; SStore 1 5 Rlx 8; SStore 1 4 Rel 2;
      SLoad 2 1 Rlx 0 0; SLoad 2 2 Acq 1 1; SRmw 2 1 Rlx 1; SLoad 2 3 Rlx 7 1; SStore 2 2 Rel 2;
      SLoad 3 0 Rlx 2 2; SLoad 3 2 Acq 2 2; SRmw 3 0 Rlx 3 ]
    (fun s => writer_view 2 s 3 = Some (1%nat, 1%nat)).
Proof.
  apply (exec_reaches_by_computation 2 _ cs_reuse). vm_compute. repeat split.
Qed.

(** hence the conclusion of (b) is FALSE for these orders *)
Theorem weak_orders_refute_race_freedom :
  ~ (forall s t v pos, preach 2 (set_pop_seq_store Rlx xenium_orders) s -> pcs s t = PWrite v pos ->
       cur (threads (ms s) t) (valL (cellof 2 pos)) = last_ts (memory (ms s) (valL (cellof 2 pos)))) /\
  ~ (forall s t v pos, preach 2 (set_push_seq_load Rlx xenium_orders) s -> pcs s t = PWrite v pos ->
       cur (threads (ms s) t) (valL (cellof 2 pos)) = last_ts (memory (ms s) (valL (cellof 2 pos)))).
Proof.
  split; intros H.
  - destruct weak_pop_seq_store_races as (tr & s & R & _ & _ & _ & _ & Hw).
    unfold writer_view in Hw.
    destruct (pcs s 3%nat) eqn:Ep; try discriminate.
    rewrite (H s 3%nat v pos R Ep) in Hw.
    injection Hw as H1 H2. congruence.
  - destruct weak_push_seq_load_races as (tr & s & R & _ & _ & _ & _ & Hw).
    unfold writer_view in Hw.
    destruct (pcs s 3%nat) eqn:Ep; try discriminate.
    rewrite (H s 3%nat v pos R Ep) in Hw.
    injection Hw as H1 H2. congruence.
Qed.

(** *** What (c) does NOT say: with the (relaxed) orders of the source a failure may be SPURIOUS.

    try_push_strong reports "full" although the queue (2 cells) never held more than one element:
    thread 3 reads enqueue_pos = 2, the STALE sequence value 1 of cell 0, enqueue_pos = 2 again and the
    STALE dequeue_pos = 0 (0 + 2 == 2). *)
Example spurious_full :
  exec_reaches 2 xenium_orders
    [ SLoad 1 0 Rlx 0 0; SLoad 1 2 Acq 0 0; SRmw 1 0 Rlx 1; SStore 1 3 Rlx 7; SStore 1 2 Rel 1;
      SLoad 2 1 Rlx 0 0; SLoad 2 2 Acq 1 1; SRmw 2 1 Rlx 1; SLoad 2 3 Rlx 7 1; SStore 2 2 Rel 2;
      SLoad 1 0 Rlx 1 1; SLoad 1 4 Acq 1 0; SRmw 1 0 Rlx 2; SStore 1 5 Rlx 8; SStore 1 4 Rel 2;
      SLoad 3 0 Rlx 2 2;          (* T3 252: pos = 2 *)
      SLoad 3 2 Acq 1 1;          (* T3 256: seq = 1 (stale; the latest value is 2) *)
      SLoad 3 0 Rlx 2 2;          (* T3 268: pos2 = 2 = pos *)
      SLoad 3 1 Rlx 0 0 ]         (* T3 269: dequeue_pos = 0 (stale; the latest value is 1) *)
    (fun s => fail_result s 3 = Some (true, false, 2%nat) /\
              last_ts (memory (ms s) enqL) = 2%nat /\ last_ts (memory (ms s) deqL) = 1%nat).
Proof.
  apply (exec_reaches_by_computation 2 _
    (push1 1 false 7 0 0 ++ pop1 2 false 0 1 1 ++ push1 1 false 8 1 0 ++
     [(3%nat, CPush false 9 2); (3%nat, CRd 1); (3%nat, CRd 2); (3%nat, CRd 0)])).
  vm_compute. repeat split.
Qed.

(** try_pop_strong reports "empty" although the queue has not been empty since the first push *)
Example spurious_empty :
  exec_reaches 2 xenium_orders
    [ SLoad 1 0 Rlx 0 0; SLoad 1 2 Acq 0 0; SRmw 1 0 Rlx 1; SStore 1 3 Rlx 7; SStore 1 2 Rel 1;
      SLoad 1 0 Rlx 1 1; SLoad 1 4 Acq 1 0; SRmw 1 0 Rlx 2; SStore 1 5 Rlx 8; SStore 1 4 Rel 2;
      SLoad 2 1 Rlx 0 0; SLoad 2 2 Acq 1 1; SRmw 2 1 Rlx 1; SLoad 2 3 Rlx 7 1; SStore 2 2 Rel 2;
      SLoad 3 1 Rlx 1 1;          (* T3 285: pos = 1 *)
      SLoad 3 4 Acq 1 0;          (* T3 289: seq = 1 (stale; the latest value is 2) *)
      SLoad 3 1 Rlx 1 1;          (* T3 302: pos2 = 1 = pos *)
      SLoad 3 0 Rlx 1 1 ]         (* T3 303: enqueue_pos = 1 (stale; the latest value is 2) *)
    (fun s => fail_result s 3 = Some (false, false, 1%nat) /\
              last_ts (memory (ms s) enqL) = 2%nat /\ last_ts (memory (ms s) deqL) = 1%nat).
Proof.
  apply (exec_reaches_by_computation 2 _
    (push1 1 false 7 0 0 ++ push1 1 false 8 1 0 ++ pop1 2 false 0 1 1 ++
     [(3%nat, CPop false 1); (3%nat, CRd 0); (3%nat, CRd 1); (3%nat, CRd 1)])).
  vm_compute. repeat split.
Qed.

(** the weak variants fail on a stale sequence value, too *)
Example weak_variants_fail :
  exec_reaches 2 xenium_orders
    [ SLoad 1 0 Rlx 0 0; SLoad 1 2 Acq 0 0; SRmw 1 0 Rlx 1; SStore 1 3 Rlx 7; SStore 1 2 Rel 1;
      SLoad 2 1 Rlx 0 0;          (* T2 285: pos = 0 *)
      SLoad 2 2 Acq 0 0 ]         (* T2 289: seq = 0 < 1 (stale) *)
    (fun s => fail_result s 2 = Some (false, true, 0%nat)).
Proof.
  apply (exec_reaches_by_computation 2 _ (push1 1 false 7 0 0 ++ [(2%nat, CPop true 0); (2%nat, CRd 0)])).
  vm_compute. repeat split.
Qed.

Local Close Scope N_scope.

(** ** Summary theorem (the form used in Properties/Properties_C03_vyukov_src.v) *)

Theorem vyukov_weak_correct : forall cap o, 2 <= cap -> orders_ok o = true ->
  forall s, preach cap o s ->
  (* (a) message passing: a pop reads exactly the write of the push with its ticket *)
  (forall t pos m, pcs s t = QStore pos m ->
     In m (memory (ms s) (valL (cellof cap pos))) /\
     m_ts m = lapof cap pos + 1 /\
     m_ts m = last_ts (memory (ms s) (valL (cellof cap pos))) /\
     pos < D (ms s) /\ pos < length (g_push s) /\
     m_val m = nth pos (g_push s) 0%N /\
     In (pos, m_val m) (g_pop s)) /\
  (* ... the histories: nothing invented, nothing duplicated, nothing lost, FIFO per ticket *)
  ((forall p v, In (p, v) (g_pop s) ->
      p < D (ms s) /\ p < length (g_push s) /\ v = nth p (g_push s) 0%N) /\
   NoDup (map fst (g_pop s)) /\
   (forall p, p < D (ms s) -> In p (map fst (g_pop s)) \/ exists t, pcs s t = QRead p) /\
   (forall t pos m, pcs s t = QDone pos m -> In (pos, m_val m) (g_pop s)) /\
   (forall t v pos, pcs s t = PDone v pos ->
      pos < length (g_push s) /\ nth pos (g_push s) 0%N = v) /\
   length (g_push s) = E (ms s) /\ D (ms s) <= E (ms s) /\ E (ms s) <= D (ms s) + cap) /\
  (* (b) race freedom of the plain accesses *)
  ((forall t1 t2 i, holds cap (pcs s t1) = Some i -> holds cap (pcs s t2) = Some i -> t1 = t2) /\
   (forall t v pos, pcs s t = PWrite v pos ->
      cur (threads (ms s) t) (valL (cellof cap pos)) = last_ts (memory (ms s) (valL (cellof cap pos))) /\
      last_ts (memory (ms s) (valL (cellof cap pos))) = lapof cap pos /\
      vle (g_rview s (cellof cap pos)) (cur (threads (ms s) t))) /\
   (forall t pos, pcs s t = QRead pos ->
      cur (threads (ms s) t) (valL (cellof cap pos)) = last_ts (memory (ms s) (valL (cellof cap pos))) /\
      last_ts (memory (ms s) (valL (cellof cap pos))) = lapof cap pos + 1)) /\
  (* (c) failures are justified by the messages read *)
  ((forall t w pos mq md, pcs s t = PFull w pos mq md ->
      pos <= E (ms s) /\ In mq (memory (ms s) (seqL (cellof cap pos))) /\
      match md with
      | None => w = true /\ (m_val mq < N.of_nat pos)%N /\ m_ts mq < 2 * lapof cap pos
      | Some d => w = false /\ m_val mq <> N.of_nat pos /\
                  In d (memory (ms s) deqL) /\ m_ts d + cap = pos
      end) /\
   (forall t w pos mq me, pcs s t = QEmpty w pos mq me ->
      pos <= D (ms s) /\ In mq (memory (ms s) (seqL (cellof cap pos))) /\
      match me with
      | None => w = true /\ (m_val mq < N.of_nat (pos + 1))%N /\ m_ts mq <= 2 * lapof cap pos
      | Some e => w = false /\ m_val mq <> N.of_nat (pos + 1) /\
                  In e (memory (ms s) enqL) /\ m_ts e = pos
      end)).
Proof.
  intros cap o Hc Ok s R. split; [|split; [|split]].
  - intros t pos m Hpc. exact (vyukov_pop_reads_push_wm cap Hc o s t pos m Ok R Hpc).
  - exact (vyukov_histories_wm cap Hc o s Ok R).
  - exact (vyukov_race_free_wm cap Hc o s Ok R).
  - exact (vyukov_fail_justified_wm cap Hc o s Ok R).
Qed.

(** the machine ([View.step]) started in the constructed queue stays well formed, and every program
    execution is an execution of the machine *)
Theorem vyukov_machine_wf : forall cap o s, 2 <= cap -> orders_ok o = true -> preach cap o s -> wf (ms s).
Proof. intros cap o s Hc Ok R. destruct (inv_preach cap Hc o s Ok R). assumption. Qed.
