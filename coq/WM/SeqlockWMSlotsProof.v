(** * WM.SeqlockWMSlotsProof : over the weak-memory machine, seqlock::load for slots > 1 never
      returns a torn value; update reads the latest value.

    The model is in WM/SeqlockWMSlots.v.  The structure of the proof is that of
    WM/SeqlockWMProof.v (slots = 1); what is new: a generation lives in slot [g mod K], the reader
    accepts its copy of generation g as long as the lock acquisition of generation g + K (the next
    one that overwrites the slot) is not in its view, and the timestamps of the data messages are
    no longer the generations - the ghost map [g_gen] relates them. *)

Require Import List NArith ZArith Arith Lia Bool.
Import ListNotations.
Require Import XV.WM.View XV.WM.ViewLemmas XV.WM.SeqlockWM XV.WM.SeqlockWMProof XV.WM.SeqlockWMSlots.

(** ** Arithmetic *)

Lemma div2_bounds : forall k, 2 * Nat.div2 k <= k <= 2 * Nat.div2 k + 1.
Proof. intros k. pose proof (Nat.div2_odd k) as H. destruct (Nat.odd k); simpl in H; lia. Qed.

Lemma half_of_nat : forall k, half (N.of_nat k) = Nat.div2 k.
Proof. intros. unfold half. pose proof (div2_bounds k). zify. Z.div_mod_to_equations. lia. Qed.

Lemma rd_base_of_nat : forall k, rd_base (N.of_nat k) = N.of_nat (2 * Nat.div2 k).
Proof. intros. unfold rd_base. pose proof (div2_bounds k). zify. Z.div_mod_to_equations. lia. Qed.

(** two generations in the same slot are at least K apart *)
Lemma same_slot_far : forall K g g', 1 <= K -> g <= g' -> g' < g + K -> g mod K = g' mod K -> g' = g.
Proof.
  intros K g g' HK H1 H2 H3.
  pose proof (Nat.div_mod g K ltac:(lia)). pose proof (Nat.div_mod g' K ltac:(lia)).
  pose proof (Nat.mod_upper_bound g K ltac:(lia)).
  rewrite <- H3 in H0.
  assert (g / K = g' / K) by nia. nia.
Qed.

(** update() computes the slot it writes as [(idx + 1) % slots] from the slot [idx] it read
    (seqlock.hpp:196), store() as [((seq >> 1) + 1) % slots] (seqlock.hpp:203); the model uses the
    second expression for both - they are equal *)
Lemma update_wr_slot : forall K q, 1 <= K -> (upd_slot K q + 1) mod K = wr_slot K q.
Proof.
  intros K q HK. unfold upd_slot, wr_slot. rewrite Nat.add_mod_idemp_l by lia. reflexivity.
Qed.

Lemma dLs_seqL : forall W idx i, dLs W idx i <> seqL.
Proof. discriminate. Qed.

Lemma dLs_inj : forall W idx i idx' i', i < W -> i' < W -> dLs W idx i = dLs W idx' i' -> idx = idx' /\ i = i'.
Proof.
  unfold dLs. intros W idx i idx' i' H1 H2 H. injection H as H.
  assert (idx = idx') by nia. subst. lia.
Qed.

Lemma in_combine_seq' : forall (A : Type) (l : list A) a j x,
  In (j, x) (combine (seq a (length l)) l) -> a <= j /\ nth_error l (j - a) = Some x.
Proof.
  induction l as [|y l IH]; simpl; intros a j x H; [contradiction|].
  destruct H as [H|H].
  - inversion H; subst. split; [lia|]. now rewrite Nat.sub_diag.
  - apply IH in H. destruct H as [H1 H2]. split; [lia|].
    replace (j - a) with (S (j - S a)) by lia. exact H2.
Qed.

Lemma all_eq_repeat' : forall (h : nat) l, (forall x, In x l -> x = h) -> l = repeat h (length l).
Proof.
  induction l as [|y l IH]; intros H; simpl; [reflexivity|].
  rewrite (H y) by now left. f_equal. apply IH. intros x Hx. apply H. now right.
Qed.

Section Proof.

Variable K : nat.
Variable W : nat.
Hypothesis K_pos : 1 <= K.
Hypothesis W_pos : 1 <= W.
Variable o : orders.

Notation dLs := (dLs W).
Notation rd_slot := (rd_slot K).
Notation upd_slot := (upd_slot K).
Notation wr_slot := (wr_slot K).
Notation accept := (accept K).
Notation pstep := (pstep K W o).
Notation preach := (preach K W o).
Notation ptrace := (ptrace K W o).
Notation pinit := (pinit W).
Notation norm := (norm W).

(** ** The invariant *)

Definition Lseq (M : state) : ts := last_ts (memory M seqL).

Definition ggen := nat -> nat -> ts -> nat.

(** the generation / slot a message of [_seq] stands for *)
Definition gq (m : msg) : nat := Nat.div2 (m_ts m).
Definition rq (m : msg) : nat := gq m mod K.

(** word i of slot idx has a message of generation g with timestamp <= b *)
Definition has_gen (M : state) (gg : ggen) (idx i g : nat) (b : ts) : Prop :=
  exists md, In md (memory M (dLs idx i)) /\ gg idx i (m_ts md) = g /\ m_ts md <= b.

(** the ghost generation of existing data messages does not change *)
Definition gen_frame (M : state) (gg gg' : ggen) : Prop :=
  forall idx i m, i < W -> In m (memory M (dLs idx i)) -> gg' idx i (m_ts m) = gg idx i (m_ts m).

Definition need (M : state) (t : tid) : ts :=
  if is_acq (o_data_load o) then cur (threads M t) seqL
  else Nat.max (cur (threads M t) seqL) (acq (threads M t) seqL).

Definition rd_inv (M : state) (gg : ggen) (t : tid) (c0 : ts) (mq : msg) (buf : list msg) : Prop :=
  In mq (memory M seqL) /\ c0 <= m_ts mq /\ m_ts mq <= cur (threads M t) seqL /\
  length buf <= W /\
  (forall i, i < W -> has_gen M gg (rq mq) i (gq mq) (cur (threads M t) (dLs (rq mq) i))) /\
  (forall j m, nth_error buf j = Some m ->
     In m (memory M (dLs (rq mq) j)) /\ gq mq <= gg (rq mq) j (m_ts m)).

Definition thr_inv (M : state) (gg : ggen) (t : tid) (p : pc) : Prop :=
  match p with
  | RdData c0 mq buf =>
      rd_inv M gg t c0 mq buf /\ length buf < W /\
      (forall j m, nth_error buf j = Some m -> 2 * gg (rq mq) j (m_ts m) <= S (need M t))
  | RdFence c0 mq buf =>
      rd_inv M gg t c0 mq buf /\ length buf = W /\
      (forall j m, nth_error buf j = Some m -> 2 * gg (rq mq) j (m_ts m) <= S (need M t))
  | RdSeq2 c0 mq buf =>
      rd_inv M gg t c0 mq buf /\ length buf = W /\
      (forall j m, nth_error buf j = Some m ->
         2 * gg (rq mq) j (m_ts m) <= S (cur (threads M t) seqL))
  | RdDone c0 mq buf =>
      In mq (memory M seqL) /\ c0 <= m_ts mq /\ length buf = W /\
      (forall j m, nth_error buf j = Some m ->
         In m (memory M (dLs (rq mq) j)) /\ gg (rq mq) j (m_ts m) = gq mq)
  | WrCas w q => N.odd q = false
  | _ => True
  end.

Definition upd_inv (s : pstate) (t : tid) (buf : list msg) : Prop :=
  is_acq (o_lock_cas o) = true ->
  let g := g_cur s - 1 in let r := g mod K in
  (forall i, i < W -> has_gen (ms s) (g_gen s) r i g (cur (threads (ms s) t) (dLs r i))) /\
  (forall j m, nth_error buf j = Some m ->
     In m (memory (ms s) (dLs r j)) /\ g_gen s r j (m_ts m) = g).

(** all data messages are older than the generation being written, except the words already written *)
Definition fresh_from (s : pstate) (j : nat) : Prop :=
  forall idx i m, i < W -> In m (memory (ms s) (dLs idx i)) ->
    (idx = g_cur s mod K /\ i < j) \/ g_gen s idx i (m_ts m) < g_cur s.

Definition written_to (s : pstate) (t : tid) (j : nat) : Prop :=
  forall i, i < j ->
    has_gen (ms s) (g_gen s) (g_cur s mod K) i (g_cur s)
            (cur (threads (ms s) t) (dLs (g_cur s mod K) i)).

Definition holder_inv (s : pstate) (t : tid) (p : pc) : Prop :=
  let M := ms s in let G := g_cur s in
  Lseq M <= cur (threads M t) seqL /\
  match p with
  | WrRead f q buf =>
      N.of_nat (Lseq M) = (q + 1)%N /\ fresh_from s 0 /\
      length (g_hist s) = G /\ upd_inv s t buf /\ length buf < W
  | WrRFence f q buf =>
      N.of_nat (Lseq M) = (q + 1)%N /\ fresh_from s 0 /\
      length (g_hist s) = G /\ upd_inv s t buf /\ length buf = W
  | WrFence v q =>
      N.of_nat (Lseq M) = (q + 1)%N /\ fresh_from s 0 /\ length (g_hist s) = G
  | WrData v q j =>
      N.of_nat (Lseq M) = (q + 1)%N /\ j < W /\ fresh_from s j /\
      length (g_hist s) = S G /\ nth G (g_hist s) [] = norm v /\
      written_to s t j /\
      (is_rel (o_data_store o) = false -> Lseq M <= rel (threads M t) seqL)
  | WrUnlock q =>
      N.of_nat (Lseq M) = (q + 1)%N /\ length (g_hist s) = S G /\ written_to s t W
  | _ => False
  end.

Record inv (s : pstate) : Prop := {
  i_reach : reachable (ms s);
  i_seq_val : forall m, In m (memory (ms s) seqL) -> m_val m = N.of_nat (m_ts m);
  (* the message of _seq with timestamp 2g or 2g+1 carries the data stores of generation g *)
  i_seq_view : forall m i, In m (memory (ms s) seqL) -> i < W ->
                 has_gen (ms s) (g_gen s) (rq m) i (gq m) (m_view m (dLs (rq m) i));
  i_cur : match g_owner s with
          | None => Lseq (ms s) = 2 * g_cur s
          | Some _ => S (Lseq (ms s)) = 2 * g_cur s
          end;
  (* the data messages *)
  i_data_le : forall idx i m, i < W -> In m (memory (ms s) (dLs idx i)) ->
                g_gen s idx i (m_ts m) <= g_cur s;
  i_data_mono : forall idx i m m', i < W ->
                In m (memory (ms s) (dLs idx i)) -> In m' (memory (ms s) (dLs idx i)) ->
                m_ts m <= m_ts m' -> g_gen s idx i (m_ts m) <= g_gen s idx i (m_ts m');
  i_data_slot : forall idx i m, i < W -> In m (memory (ms s) (dLs idx i)) ->
                1 <= g_gen s idx i (m_ts m) -> g_gen s idx i (m_ts m) mod K = idx;
  i_data_view : forall idx i m, i < W -> In m (memory (ms s) (dLs idx i)) ->
                2 * g_gen s idx i (m_ts m) <= S (m_view m seqL);
  i_data_val : forall idx i m, i < W -> In m (memory (ms s) (dLs idx i)) ->
               g_gen s idx i (m_ts m) mod K = idx ->
               m_val m = nth i (nth (g_gen s idx i (m_ts m)) (g_hist s) []) 0%N;
  i_hist_len : forall v, In v (g_hist s) -> length v = W;
  (* the lock *)
  i_owner : forall t, locked (pcs s t) = true <-> g_owner s = Some t;
  i_unlocked : g_owner s = None -> length (g_hist s) = S (g_cur s);
  i_locked : forall t, g_owner s = Some t -> holder_inv s t (pcs s t);
  i_thr : forall t, thr_inv (ms s) (g_gen s) t (pcs s t)
}.

Lemma norm_length : forall v, length (norm v) = W.
Proof. intros. unfold norm, SeqlockWMSlots.norm. now rewrite map_length, seq_length. Qed.

Lemma norm_nth : forall v i, i < W -> nth i (norm v) 0%N = nth i v 0%N.
Proof.
  intros v i Hi. unfold norm, SeqlockWMSlots.norm.
  rewrite (nth_indep _ 0%N (nth 0 v 0%N)) by (now rewrite map_length, seq_length).
  change (nth 0 v 0%N) with ((fun i => nth i v 0%N) 0).
  rewrite map_nth. rewrite seq_nth by assumption. reflexivity.
Qed.

Lemma inv_init : inv pinit.
Proof.
  constructor; simpl.
  - constructor.
  - intros m [<-|[]]. reflexivity.
  - intros m i [<-|[]] Hi. exists init_msg. unfold rq, gq. simpl.
    rewrite Nat.mod_0_l by lia. split; [now left|]. split; [reflexivity|]. simpl. lia.
  - reflexivity.
  - intros. lia.
  - intros. lia.
  - intros. lia.
  - intros. lia.
  - intros idx i m Hi [<-|[]] H. rewrite Nat.mod_0_l in H by lia. subst idx. simpl.
    now rewrite norm_nth; [destruct i|].
  - intros v [<-|[]]. apply norm_length.
  - intros t. split; discriminate.
  - reflexivity.
  - discriminate.
  - intros t. exact Logic.I.
Qed.

(** ** Stability *)

Lemma gen_frame_refl : forall M gg, gen_frame M gg gg.
Proof. intros M gg idx i m _ _. reflexivity. Qed.

Lemma has_gen_mono : forall M M' gg gg' idx i g b b',
  i < W -> mono M M' -> gen_frame M gg gg' -> b <= b' ->
  has_gen M gg idx i g b -> has_gen M' gg' idx i g b'.
Proof.
  intros M M' gg gg' idx i g b b' Hi Mo Fr Hb (md & Hin & Hg & Ht).
  exists md. split; [now apply (mono_mem _ _ Mo)|]. split; [|lia].
  now rewrite (Fr idx i md Hi Hin).
Qed.

Lemma need_mono : forall M M' t, mono M M' -> need M t <= need M' t.
Proof.
  intros M M' t Mo. unfold need.
  pose proof (mono_cur _ _ Mo t seqL). pose proof (mono_acq _ _ Mo t seqL).
  destruct (is_acq (o_data_load o)); lia.
Qed.

Lemma rd_inv_mono : forall M M' gg gg' t c0 mq buf,
  mono M M' -> gen_frame M gg gg' -> rd_inv M gg t c0 mq buf -> rd_inv M' gg' t c0 mq buf.
Proof.
  intros M M' gg gg' t c0 mq buf Mo Fr (A & C & D & Len & E & F).
  split; [now apply (mono_mem _ _ Mo)|]. split; [assumption|].
  split; [pose proof (mono_cur _ _ Mo t seqL); lia|]. split; [assumption|]. split.
  - intros i Hi. eapply has_gen_mono; try eassumption; [|now apply E].
    apply (mono_cur _ _ Mo).
  - intros j m Hj. destruct (F j m Hj) as [F1 F2].
    assert (Hlt : j < W) by (pose proof (nth_error_lt _ _ _ _ Hj); lia).
    split; [now apply (mono_mem _ _ Mo)|]. now rewrite (Fr _ _ _ Hlt F1).
Qed.

Lemma thr_inv_mono : forall M M' gg gg' t p,
  mono M M' -> gen_frame M gg gg' -> thr_inv M gg t p -> thr_inv M' gg' t p.
Proof.
  intros M M' gg gg' t p Mo Fr H. pose proof (need_mono M M' t Mo) as N.
  pose proof (mono_cur _ _ Mo t seqL) as C.
  destruct p; simpl in *; try exact Logic.I; try assumption.
  - destruct H as (A & B & D). split; [eapply rd_inv_mono; eassumption|]. split; [assumption|].
    intros j m Hj. specialize (D j m Hj). destruct A as (_ & _ & _ & _ & _ & F).
    destruct (F j m Hj) as [F1 _].
    assert (Hlt : j < W) by (pose proof (nth_error_lt _ _ _ _ Hj); lia).
    rewrite (Fr _ _ _ Hlt F1). lia.
  - destruct H as (A & B & D). split; [eapply rd_inv_mono; eassumption|]. split; [assumption|].
    intros j m Hj. specialize (D j m Hj). destruct A as (_ & _ & _ & _ & _ & F).
    destruct (F j m Hj) as [F1 _].
    assert (Hlt : j < W) by (pose proof (nth_error_lt _ _ _ _ Hj); lia).
    rewrite (Fr _ _ _ Hlt F1). lia.
  - destruct H as (A & B & D). split; [eapply rd_inv_mono; eassumption|]. split; [assumption|].
    intros j m Hj. specialize (D j m Hj). destruct A as (_ & _ & _ & _ & _ & F).
    destruct (F j m Hj) as [F1 _].
    assert (Hlt : j < W) by (pose proof (nth_error_lt _ _ _ _ Hj); lia).
    rewrite (Fr _ _ _ Hlt F1). lia.
  - destruct H as (A & B & D & F). split; [now apply (mono_mem _ _ Mo)|].
    split; [assumption|]. split; [assumption|].
    intros j m Hj. destruct (F j m Hj) as [F1 F2].
    assert (Hlt : j < W) by (pose proof (nth_error_lt _ _ _ _ Hj); lia).
    split; [now apply (mono_mem _ _ Mo)|]. now rewrite (Fr _ _ _ Hlt F1).
Qed.

Lemma has_gen_le : forall M M' gg idx i g b b',
  mono M M' -> b <= b' -> has_gen M gg idx i g b -> has_gen M' gg idx i g b'.
Proof.
  intros M M' gg idx i g b b' Mo Hb (md & Hin & Hg & Ht).
  exists md. split; [now apply (mono_mem _ _ Mo)|]. split; [assumption|lia].
Qed.

Lemma upd_pc_same : forall f t p, upd_pc f t p t = p.
Proof. intros; unfold upd_pc; now rewrite Nat.eqb_refl. Qed.

Lemma upd_pc_other : forall f t p t', t' <> t -> upd_pc f t p t' = f t'.
Proof. intros; unfold upd_pc. destruct (Nat.eqb_spec t' t); [contradiction|reflexivity]. Qed.

Lemma written_to_le : forall s s' t j,
  mono (ms s) (ms s') -> g_cur s' = g_cur s -> g_gen s' = g_gen s ->
  written_to s t j -> written_to s' t j.
Proof.
  intros s s' t j Mo Hc Hg H i Hi. rewrite Hc, Hg.
  eapply has_gen_le; [eassumption|apply (mono_cur _ _ Mo)|now apply H].
Qed.

Lemma holder_inv_frame : forall s s' t p,
  mono (ms s) (ms s') -> memory (ms s') = memory (ms s) ->
  g_hist s' = g_hist s -> g_cur s' = g_cur s -> g_gen s' = g_gen s ->
  holder_inv s t p -> holder_inv s' t p.
Proof.
  intros s s' t p Mo Hm Hh Hc Hg [A B].
  assert (C : forall l, cur (threads (ms s) t) l <= cur (threads (ms s') t) l)
    by (intros; apply (mono_cur _ _ Mo)).
  assert (Fr : forall j, fresh_from s j -> fresh_from s' j).
  { intros j F idx i m Hi Hin. rewrite Hc, Hg. rewrite Hm in Hin. now apply F. }
  assert (Wt : forall j, written_to s t j -> written_to s' t j)
    by (intros j; now apply written_to_le).
  assert (U : forall buf, upd_inv s t buf -> upd_inv s' t buf).
  { intros buf U Acq. destruct (U Acq) as [U1 U2]. rewrite Hc, Hg, Hm. split.
    - intros i Hi. eapply has_gen_le; [eassumption|apply C|].
      specialize (U1 i Hi). exact U1.
    - exact U2. }
  unfold holder_inv, Lseq in *. rewrite Hm, Hh, Hc.
  split; [specialize (C seqL); lia|].
  destruct p; try contradiction.
  - destruct B as (B1 & B2 & B3 & B4 & B5). auto 10.
  - destruct B as (B1 & B2 & B3 & B4 & B5). auto 10.
  - destruct B as (B1 & B2 & B3). auto.
  - destruct B as (B1 & B2 & B3 & B4 & B5 & B6 & B7). repeat (split; [auto|]).
    intros Hr. specialize (B7 Hr). pose proof (mono_rel _ _ Mo t seqL). lia.
  - destruct B as (B1 & B2 & B3). auto.
Qed.

Lemma owner_of_locked : forall s t, inv s -> locked (pcs s t) = true -> g_owner s = Some t.
Proof. intros s t I H. now apply (i_owner s I). Qed.

Lemma inv_quiet : forall s t M' p',
  inv s -> mono (ms s) M' -> memory M' = memory (ms s) -> reachable M' ->
  locked p' = locked (pcs s t) ->
  thr_inv M' (g_gen s) t p' ->
  (g_owner s = Some t -> holder_inv (set_pc s M' t p') t p') ->
  inv (set_pc s M' t p').
Proof.
  intros s t M' p' I Mo Hm R' Hl Ht Hh.
  constructor; unfold set_pc; cbn [ms pcs g_hist g_gen g_cur g_owner]; unfold Lseq, has_gen; rewrite ?Hm.
  - exact R'.
  - apply (i_seq_val s I).
  - apply (i_seq_view s I).
  - apply (i_cur s I).
  - apply (i_data_le s I).
  - apply (i_data_mono s I).
  - apply (i_data_slot s I).
  - apply (i_data_view s I).
  - apply (i_data_val s I).
  - apply (i_hist_len s I).
  - intros t0. destruct (Nat.eq_dec t0 t) as [->|Hn].
    + rewrite upd_pc_same, Hl. apply (i_owner s I).
    + rewrite upd_pc_other by assumption. apply (i_owner s I).
  - apply (i_unlocked s I).
  - intros t0 Ho. destruct (Nat.eq_dec t0 t) as [->|Hn].
    + rewrite upd_pc_same. apply (Hh Ho).
    + rewrite upd_pc_other by assumption.
      apply (holder_inv_frame s); try reflexivity; try assumption.
      now apply (i_locked s I).
  - intros t0. destruct (Nat.eq_dec t0 t) as [->|Hn].
    + now rewrite upd_pc_same.
    + rewrite upd_pc_other by assumption.
      apply (thr_inv_mono (ms s) _ (g_gen s)); [assumption|apply gen_frame_refl|apply (i_thr s I)].
Qed.

Lemma inv_quiet_unlocked : forall s t M' p',
  inv s -> mono (ms s) M' -> memory M' = memory (ms s) -> reachable M' ->
  locked (pcs s t) = false -> locked p' = false ->
  thr_inv M' (g_gen s) t p' ->
  inv (set_pc s M' t p').
Proof.
  intros s t M' p' I Mo Hm R' Hl Hl' Ht. apply inv_quiet; try assumption; [congruence|].
  intros Ho. apply (i_owner s I) in Ho. congruence.
Qed.

Lemma idle_unlocked : forall p, is_idle p = true -> locked p = false.
Proof. destruct p; simpl; congruence. Qed.

Lemma wr_after_seq_unlocked : forall w m, locked (wr_after_seq w m) = false.
Proof. intros; unfold wr_after_seq; destruct (is_write_pending (m_val m)); reflexivity. Qed.

(** ** The conditions on the orders, unpacked *)

Definition ok_load : Prop :=
  is_acq (o_load_seq1 o) = true /\ is_acq (o_load_seq2 o) = true /\
  (is_acq (o_data_load o) = true \/ is_acq (o_fence_after_data o) = true) /\
  (is_rel (o_fence_before_data o) = true \/ is_rel (o_data_store o) = true) /\
  is_rel (o_unlock_store o) = true.

Lemma orders_ok_load_spec : orders_ok_load_slots o = true -> ok_load.
Proof.
  unfold orders_ok_load_slots, ok_load. rewrite !andb_true_iff, !orb_true_iff. tauto.
Qed.

(** ** The reader's steps *)

Lemma rd_slot_rq : forall s mq, inv s -> In mq (memory (ms s) seqL) -> rd_slot (m_val mq) = rq mq.
Proof.
  intros s mq I Hin. unfold rd_slot, SeqlockWMSlots.rd_slot, rq, gq.
  now rewrite (i_seq_val s I mq Hin), half_of_nat.
Qed.

(** after an ACQUIRE load of [_seq] (sites (1), (3)) *)
Lemma rd_seq_ok : forall s t c0 od m M',
  inv s -> is_acq od = true -> c0 <= cur (threads (ms s) t) seqL ->
  step (ms s) t (LLoad seqL od m) M' ->
  thr_inv M' (g_gen s) t (RdData c0 m []).
Proof.
  intros s t c0 od m M' I A C St.
  destruct (load_facts _ _ _ _ _ _ (i_reach s I) St) as (R' & Mo & Hm & Hin & Hlo & Hhi).
  simpl. split; [|split; [lia|intros j m0 Hj; destruct j; discriminate]].
  unfold rd_inv. rewrite Hm.
  split; [assumption|]. split; [lia|]. split; [assumption|]. split; [simpl; lia|]. split.
  - intros i Hi. eapply has_gen_le; [eassumption| |apply (i_seq_view s I m i Hin Hi)].
    apply (acquire_load_view _ _ _ _ _ _ St A).
  - intros j m0 Hj; destruct j; discriminate.
Qed.

Lemma step_rd_seq1 : forall s t m M',
  ok_load -> inv s -> is_idle (pcs s t) = true ->
  step (ms s) t (LLoad seqL (o_load_seq1 o) m) M' ->
  inv (set_pc s M' t (RdData (cur (threads (ms s) t) seqL) m [])).
Proof.
  intros s t m M' Ok I Hi St.
  destruct (load_facts _ _ _ _ _ _ (i_reach s I) St) as (R' & Mo & Hm & _).
  apply inv_quiet_unlocked; try assumption.
  - now apply idle_unlocked.
  - reflexivity.
  - destruct Ok as (O1 & _). exact (rd_seq_ok s t _ _ m M' I O1 (le_n _) St).
Qed.

(** after a data load (240) by a reader *)
Lemma rd_data_ok : forall s t c0 mq buf m M',
  inv s -> rd_inv (ms s) (g_gen s) t c0 mq buf -> length buf < W ->
  (forall j m0, nth_error buf j = Some m0 -> 2 * g_gen s (rq mq) j (m_ts m0) <= S (need (ms s) t)) ->
  step (ms s) t (LLoad (dLs (rq mq) (length buf)) (o_data_load o) m) M' ->
  rd_inv M' (g_gen s) t c0 mq (buf ++ [m]) /\
  (forall j m0, nth_error (buf ++ [m]) j = Some m0 ->
     2 * g_gen s (rq mq) j (m_ts m0) <= S (need M' t)).
Proof.
  intros s t c0 mq buf m M' I RI Hlen Hneed St.
  destruct (load_facts _ _ _ _ _ _ (i_reach s I) St) as (R' & Mo & Hm & Hin & Hlo & Hhi).
  pose proof (rd_inv_mono _ _ _ _ _ _ _ _ Mo (gen_frame_refl _ _) RI) as (A' & C' & D' & L' & E' & F').
  destruct RI as (A & C & D & L0 & E & F).
  split.
  - unfold rd_inv. split; [assumption|]. split; [assumption|]. split; [assumption|].
    split; [rewrite app_length; simpl; lia|]. split; [assumption|].
    intros j m0 Hj. apply nth_error_snoc in Hj. destruct Hj as [[_ Hj]|[-> ->]].
    + now apply F'.
    + rewrite Hm. split; [assumption|].
      destruct (E (length buf) Hlen) as (md & Hmd & Gmd & Tmd). rewrite <- Gmd.
      apply (i_data_mono s I _ _ md m Hlen Hmd Hin). lia.
  - intros j m0 Hj. apply nth_error_snoc in Hj. destruct Hj as [[_ Hj]|[-> ->]].
    + specialize (Hneed j m0 Hj). pose proof (need_mono _ _ t Mo). lia.
    + pose proof (i_data_view s I _ _ m Hlen Hin) as V.
      unfold need. destruct (is_acq (o_data_load o)) eqn:Ad.
      * pose proof (acquire_load_view _ _ _ _ _ _ St Ad seqL). lia.
      * pose proof (relaxed_load_view _ _ _ _ _ _ St seqL). lia.
Qed.

Lemma step_rd_data : forall s t c0 mq buf m M',
  inv s -> pcs s t = RdData c0 mq buf ->
  step (ms s) t (LLoad (dLs (rd_slot (m_val mq)) (length buf)) (o_data_load o) m) M' ->
  inv (set_pc s M' t (if Nat.eqb (S (length buf)) W
                      then RdFence c0 mq (buf ++ [m]) else RdData c0 mq (buf ++ [m]))).
Proof.
  intros s t c0 mq buf m M' I Hpc St.
  destruct (load_facts _ _ _ _ _ _ (i_reach s I) St) as (R' & Mo & Hm & _).
  pose proof (i_thr s I t) as T. rewrite Hpc in T. simpl in T. destruct T as (RI & Hlen & Hneed).
  assert (Hq : In mq (memory (ms s) seqL)) by apply RI.
  rewrite (rd_slot_rq s mq I Hq) in St.
  destruct (rd_data_ok _ _ _ _ _ _ _ I RI Hlen Hneed St) as [RI' Hneed'].
  assert (Hl : length (buf ++ [m]) = S (length buf)) by (rewrite app_length; simpl; lia).
  apply inv_quiet_unlocked; try assumption.
  - now rewrite Hpc.
  - destruct (Nat.eqb (S (length buf)) W); reflexivity.
  - destruct (Nat.eqb_spec (S (length buf)) W); simpl; (split; [assumption|split; [lia|assumption]]).
Qed.

Lemma step_rd_fence : forall s t c0 mq buf M',
  ok_load -> inv s -> pcs s t = RdFence c0 mq buf ->
  step (ms s) t (LFence (o_fence_after_data o)) M' ->
  inv (set_pc s M' t (RdSeq2 c0 mq buf)).
Proof.
  intros s t c0 mq buf M' Ok I Hpc St.
  destruct (fence_facts _ _ _ _ (i_reach s I) St) as (R' & Mo & Hm).
  pose proof (i_thr s I t) as T. rewrite Hpc in T. simpl in T. destruct T as (RI & Hlen & Hneed).
  apply inv_quiet_unlocked; try assumption.
  - now rewrite Hpc.
  - reflexivity.
  - simpl. split; [eapply rd_inv_mono; [eassumption|apply gen_frame_refl|eassumption]|].
    split; [assumption|].
    intros j m Hj. specialize (Hneed j m Hj). unfold need in Hneed.
    pose proof (mono_cur _ _ Mo t seqL) as Mc.
    destruct (is_acq (o_data_load o)) eqn:Ad; [lia|].
    destruct Ok as (_ & _ & [Ok|Ok] & _); [congruence|].
    pose proof (fence_acq_join _ _ _ _ St Ok seqL). lia.
Qed.

(** the subtraction of line 180 never truncates: seq <= seq2 *)
Lemma seq2_ge_seq : forall s t c0 mq buf od m M',
  inv s -> pcs s t = RdSeq2 c0 mq buf ->
  step (ms s) t (LLoad seqL od m) M' ->
  (rd_base (m_val mq) <= m_val m)%N.
Proof.
  intros s t c0 mq buf od m M' I Hpc St.
  destruct (load_facts _ _ _ _ _ _ (i_reach s I) St) as (R' & Mo & Hm & Hin & Hlo & Hhi).
  pose proof (i_thr s I t) as T. rewrite Hpc in T. simpl in T. destruct T as (RI & _).
  destruct RI as (A & C & D & _).
  rewrite (i_seq_val s I m Hin), (i_seq_val s I mq A), rd_base_of_nat.
  pose proof (div2_bounds (m_ts mq)). lia.
Qed.

Lemma step_rd_seq2 : forall s t c0 mq buf m M',
  ok_load -> inv s -> pcs s t = RdSeq2 c0 mq buf ->
  step (ms s) t (LLoad seqL (o_load_seq2 o) m) M' ->
  inv (set_pc s M' t (if accept (m_val m) (m_val mq)
                      then RdDone c0 mq buf else RdData c0 m [])).
Proof.
  intros s t c0 mq buf m M' Ok I Hpc St.
  destruct (load_facts _ _ _ _ _ _ (i_reach s I) St) as (R' & Mo & Hm & Hin & Hlo & Hhi).
  pose proof (i_thr s I t) as T. rewrite Hpc in T. simpl in T. destruct T as (RI & Hlen & Hb).
  apply inv_quiet_unlocked; try assumption.
  - now rewrite Hpc.
  - destruct (accept (m_val m) (m_val mq)); reflexivity.
  - destruct (accept (m_val m) (m_val mq)) eqn:Ea.
    + destruct RI as (A & C & D & L0 & E & F). simpl. rewrite Hm.
      split; [assumption|]. split; [assumption|]. split; [assumption|].
      unfold accept, SeqlockWMSlots.accept in Ea. apply N.ltb_lt in Ea.
      rewrite (i_seq_val s I m Hin), (i_seq_val s I mq A), rd_base_of_nat in Ea.
      fold (gq mq) in Ea. pose proof (div2_bounds (m_ts mq)) as Bq. fold (gq mq) in Bq.
      intros j m0 Hj. destruct (F j m0 Hj) as [F1 F2]. specialize (Hb j m0 Hj).
      split; [assumption|].
      assert (Hjw : j < W) by (pose proof (nth_error_lt _ _ _ _ Hj); lia).
      set (gm := g_gen s (rq mq) j (m_ts m0)) in *.
      destruct (Nat.eq_dec gm 0) as [Z|NZ]; [lia|].
      assert (Sl : gm mod K = rq mq) by (apply (i_data_slot s I _ _ m0 Hjw F1); fold gm; lia).
      apply (same_slot_far K (gq mq) gm); [assumption|assumption|lia|now rewrite Sl].
    + destruct RI as (A & C & D & _). destruct Ok as (_ & O3 & _).
      apply (rd_seq_ok s t c0 _ m M' I O3); [lia|exact St].
Qed.

(** ** The writer's steps before it holds the lock *)

Lemma wr_after_seq_ok : forall M gg t w m, thr_inv M gg t (wr_after_seq w m).
Proof.
  intros. unfold wr_after_seq, is_write_pending.
  destruct (N.odd (m_val m)) eqn:E; simpl; [exact Logic.I|exact E].
Qed.

Lemma step_wr_seq : forall s t w od m M',
  inv s -> locked (pcs s t) = false ->
  step (ms s) t (LLoad seqL od m) M' ->
  inv (set_pc s M' t (wr_after_seq w m)).
Proof.
  intros s t w od m M' I Hl St.
  destruct (load_facts _ _ _ _ _ _ (i_reach s I) St) as (R' & Mo & Hm & _).
  apply inv_quiet_unlocked; try assumption.
  - apply wr_after_seq_unlocked.
  - apply wr_after_seq_ok.
Qed.

(** ** The lock holder's steps *)

Lemma Lseq_eq : forall M M', memory M' = memory M -> Lseq M' = Lseq M.
Proof. intros M M' H. unfold Lseq. now rewrite H. Qed.

Lemma holder_G_pos : forall s t, inv s -> g_owner s = Some t -> 1 <= g_cur s.
Proof. intros s t I Ho. pose proof (i_cur s I) as C. rewrite Ho in C. lia. Qed.

(** the slots the lock holder computes *)
Lemma holder_slots : forall s q, S (Lseq (ms s)) = 2 * g_cur s -> N.of_nat (Lseq (ms s)) = (q + 1)%N ->
  upd_slot q = (g_cur s - 1) mod K /\ wr_slot q = g_cur s mod K.
Proof.
  intros s q C Q. unfold upd_slot, wr_slot, SeqlockWMSlots.upd_slot, SeqlockWMSlots.wr_slot.
  rewrite <- Q, half_of_nat. pose proof (div2_bounds (Lseq (ms s))) as B.
  assert (E : Nat.div2 (Lseq (ms s)) = g_cur s - 1) by lia. rewrite E.
  split; [reflexivity|]. f_equal. lia.
Qed.

(** update: a data load (240) under the lock *)
Lemma step_wr_read : forall s t f q buf m M',
  inv s -> pcs s t = WrRead f q buf ->
  step (ms s) t (LLoad (dLs (upd_slot q) (length buf)) (o_data_load o) m) M' ->
  inv (set_pc s M' t (if Nat.eqb (S (length buf)) W
                      then WrRFence f q (buf ++ [m]) else WrRead f q (buf ++ [m]))).
Proof.
  intros s t f q buf m M' I Hpc St.
  pose proof (i_reach s I) as R.
  destruct (load_facts _ _ _ _ _ _ R St) as (R' & Mo & Hm & Hin & Hlo & Hhi).
  assert (Ho : g_owner s = Some t) by (apply owner_of_locked; [assumption|now rewrite Hpc]).
  pose proof (i_cur s I) as C. rewrite Ho in C.
  pose proof (i_locked s I t Ho) as H. rewrite Hpc in H.
  destruct H as (A & Q & Fr & Hh & U & Len).
  destruct (holder_slots s q C Q) as [Us _]. rewrite Us in *.
  assert (Hl : length (buf ++ [m]) = S (length buf)) by (rewrite app_length; simpl; lia).
  apply inv_quiet; try assumption.
  - rewrite Hpc. destruct (Nat.eqb (S (length buf)) W); reflexivity.
  - destruct (Nat.eqb (S (length buf)) W); exact Logic.I.
  - intros _.
    assert (U' : upd_inv (set_pc s M' t (WrRead f q (buf ++ [m]))) t (buf ++ [m])).
    { intros Acq. destruct (U Acq) as [U1 U2]. unfold set_pc; cbn [ms g_cur g_gen]. rewrite Hm. split.
      - intros i Hi. eapply has_gen_le; [eassumption|apply (mono_cur _ _ Mo)|now apply U1].
      - intros j m0 Hj. apply nth_error_snoc in Hj. destruct Hj as [[_ Hj]|[-> ->]].
        + now apply U2.
        + split; [assumption|].
          destruct (U1 (length buf) Len) as (md & Hmd & Gmd & Tmd).
          pose proof (i_data_mono s I _ _ md m Len Hmd Hin ltac:(lia)) as Mn.
          destruct (Fr _ _ m Len Hin) as [[_ Hc]|Hc]; lia. }
    assert (A' : Lseq M' <= cur (threads M' t) seqL).
    { rewrite (Lseq_eq _ _ Hm). pose proof (mono_cur _ _ Mo t seqL). lia. }
    assert (Fr' : forall p, fresh_from (set_pc s M' t p) 0).
    { intros p idx i m0 Hi Hin0. unfold set_pc in *; cbn [ms g_cur g_gen] in *.
      rewrite Hm in Hin0. now apply Fr. }
    destruct (Nat.eqb_spec (S (length buf)) W);
      (split; [exact A'|]); cbn [ms g_cur g_hist set_pc]; rewrite (Lseq_eq _ _ Hm);
      (split; [assumption|]); (split; [apply Fr'|]); (split; [assumption|]);
      (split; [exact U'|lia]).
Qed.

(** update: the fence (243) after the data loads, then func(data) *)
Lemma step_wr_rfence : forall s t f q buf M',
  inv s -> pcs s t = WrRFence f q buf ->
  step (ms s) t (LFence (o_fence_after_data o)) M' ->
  inv (set_pc s M' t (WrFence (f (map m_val buf)) q)).
Proof.
  intros s t f q buf M' I Hpc St.
  destruct (fence_facts _ _ _ _ (i_reach s I) St) as (R' & Mo & Hm).
  assert (Ho : g_owner s = Some t) by (apply owner_of_locked; [assumption|now rewrite Hpc]).
  pose proof (i_locked s I t Ho) as H. rewrite Hpc in H.
  destruct H as (A & Q & Fr & Hh & U & Len).
  apply inv_quiet; try assumption.
  - now rewrite Hpc.
  - exact Logic.I.
  - intros _. split.
    + cbn [ms set_pc]. rewrite (Lseq_eq _ _ Hm). pose proof (mono_cur _ _ Mo t seqL). lia.
    + cbn [ms g_cur g_hist set_pc]. rewrite (Lseq_eq _ _ Hm).
      split; [assumption|]. split; [|assumption].
      intros idx i m0 Hi Hin0. unfold set_pc in *; cbn [ms g_cur g_gen] in *.
      rewrite Hm in Hin0. now apply Fr.
Qed.

(** the successful CAS (218) *)
Lemma step_wr_cas_ok : forall s t w q M',
  inv s -> pcs s t = WrCas w q ->
  m_val (last_msg (memory (ms s) seqL)) = q ->
  step (ms s) t (LRmw seqL (o_lock_cas o) (q + 1)%N) M' ->
  inv {| ms := M';
         pcs := upd_pc (pcs s) t (match w with
                                  | WStore v => WrFence v q
                                  | WUpdate f => WrRead f q []
                                  end);
         g_hist := g_hist s; g_gen := g_gen s;
         g_cur := S (g_cur s); g_owner := Some t |}.
Proof.
  intros s t w q M' I Hpc Hq St.
  pose proof (i_reach s I) as R. pose proof (wf_reachable _ R) as Wf.
  assert (R' : reachable M') by (eapply reach_step; eassumption).
  pose proof (mono_step _ _ _ _ Wf St) as Mo.
  destruct (rmw_facts _ _ _ _ _ _ R St) as (mk & E & Hts & Hv & Hoth & Hc & Hrd & Hacq).
  set (ml := last_msg (memory (ms s) seqL)) in *.
  assert (Inl : In ml (memory (ms s) seqL)) by (apply wf_last_in; assumption).
  assert (Tl : m_ts ml = Lseq (ms s)) by reflexivity.
  pose proof (i_thr s I t) as T. rewrite Hpc in T. simpl in T.
  pose proof (i_seq_val s I ml Inl) as Vl.
  destruct (even_of_nat (Lseq (ms s))) as [h Hh].
  { rewrite <- Tl, <- Vl, Hq. exact T. }
  assert (Own : g_owner s = None).
  { destruct (g_owner s) eqn:Eo; [|reflexivity]. pose proof (i_cur s I) as C. rewrite Eo in C. lia. }
  pose proof (i_cur s I) as C. rewrite Own in C.
  pose proof (i_unlocked s I Own) as UH.
  assert (L' : Lseq M' = S (Lseq (ms s))).
  { unfold Lseq. rewrite E, last_ts_app, Hts. reflexivity. }
  assert (Dm : forall idx i, memory M' (dLs idx i) = memory (ms s) (dLs idx i)).
  { intros idx i. apply Hoth. apply dLs_seqL. }
  assert (Nl : forall t0, t0 <> t -> locked (pcs s t0) = false).
  { intros t0 _. destruct (locked (pcs s t0)) eqn:El; [|reflexivity].
    apply (i_owner s I) in El. congruence. }
  assert (Gl : gq ml = g_cur s).
  { unfold gq. rewrite Tl. pose proof (div2_bounds (Lseq (ms s))). lia. }
  assert (Gk : gq mk = g_cur s).
  { unfold gq. rewrite Hts. fold (Lseq (ms s)). pose proof (div2_bounds (S (Lseq (ms s)))). lia. }
  assert (Hl : forall i, i < W ->
            has_gen M' (g_gen s) (g_cur s mod K) i (g_cur s) (m_view ml (dLs (g_cur s mod K) i))).
  { intros i Hi. pose proof (i_seq_view s I ml i Inl Hi) as V. unfold rq in V. rewrite Gl in V.
    eapply has_gen_le; [eassumption|apply le_n|exact V]. }
  constructor; cbn [ms pcs g_hist g_gen g_cur g_owner].
  - exact R'.
  - intros m Hin. rewrite E in Hin. apply in_snoc in Hin. destruct Hin as [Hin| ->].
    + now apply (i_seq_val s I).
    + rewrite Hv, Hts. fold (Lseq (ms s)). rewrite <- Tl. rewrite <- Hq, Vl. lia.
  - intros m i Hin Hi. rewrite E in Hin. apply in_snoc in Hin. destruct Hin as [Hin| ->].
    + eapply has_gen_le; [eassumption|apply le_n|now apply (i_seq_view s I)].
    + unfold rq. rewrite Gk.
      destruct (Hl i Hi) as (md & H1 & H2 & H3). exists md.
      split; [assumption|]. split; [assumption|]. specialize (Hrd (dLs (g_cur s mod K) i)). lia.
  - lia.
  - intros idx i m Hi Hin. rewrite Dm in Hin. pose proof (i_data_le s I idx i m Hi Hin). lia.
  - intros idx i m m' Hi Hin Hin'. rewrite Dm in Hin, Hin'. now apply (i_data_mono s I).
  - intros idx i m Hi Hin. rewrite Dm in Hin. now apply (i_data_slot s I).
  - intros idx i m Hi Hin. rewrite Dm in Hin. now apply (i_data_view s I idx i).
  - intros idx i m Hi Hin. rewrite Dm in Hin. now apply (i_data_val s I).
  - apply (i_hist_len s I).
  - intros t0. destruct (Nat.eq_dec t0 t) as [->|Hn].
    + rewrite upd_pc_same. destruct w; simpl; tauto.
    + rewrite upd_pc_other by assumption. rewrite (Nl t0 Hn). split; [discriminate|congruence].
  - discriminate.
  - intros t0 Ho. injection Ho as <-. rewrite upd_pc_same.
    assert (A' : Lseq M' <= cur (threads M' t) seqL) by (rewrite Hc, Hts, L'; apply le_n).
    assert (Q' : N.of_nat (Lseq M') = (q + 1)%N).
    { rewrite L', <- Hq, Vl, Tl. lia. }
    assert (Fr' : forall p, fresh_from {| ms := M'; pcs := p; g_hist := g_hist s; g_gen := g_gen s;
                                          g_cur := S (g_cur s); g_owner := Some t |} 0).
    { intros p idx i m Hi Hin. cbn [ms g_cur g_gen] in *. rewrite Dm in Hin. right.
      pose proof (i_data_le s I idx i m Hi Hin). lia. }
    destruct w; (split; [exact A'|]); cbn [ms g_cur g_hist].
    + split; [assumption|]. split; [apply Fr'|assumption].
    + split; [assumption|]. split; [apply Fr'|]. split; [assumption|]. split; [|simpl; lia].
      intros Acq. cbn [ms g_cur g_gen]. replace (S (g_cur s) - 1) with (g_cur s) by lia. split.
      * intros i Hi. destruct (Hl i Hi) as (md & H1 & H2 & H3). exists md.
        split; [assumption|]. split; [assumption|].
        specialize (Hacq Acq (dLs (g_cur s mod K) i)). lia.
      * intros j m0 Hj. destruct j; discriminate.
  - intros t0. destruct (Nat.eq_dec t0 t) as [->|Hn].
    + rewrite upd_pc_same. destruct w; exact Logic.I.
    + rewrite upd_pc_other by assumption.
      apply (thr_inv_mono (ms s) _ (g_gen s)); [assumption|apply gen_frame_refl|apply (i_thr s I)].
Qed.

(** the release fence (260) before the data stores *)
Lemma step_wr_fence : forall s t v q M',
  ok_load -> inv s -> pcs s t = WrFence v q ->
  step (ms s) t (LFence (o_fence_before_data o)) M' ->
  inv {| ms := M'; pcs := upd_pc (pcs s) t (WrData v q 0);
         g_hist := g_hist s ++ [norm v]; g_gen := g_gen s;
         g_cur := g_cur s; g_owner := g_owner s |}.
Proof.
  intros s t v q M' Ok I Hpc St.
  pose proof (i_reach s I) as R.
  destruct (fence_facts _ _ _ _ R St) as (R' & Mo & Hm).
  assert (Ho : g_owner s = Some t) by (apply owner_of_locked; [assumption|now rewrite Hpc]).
  pose proof (holder_G_pos s t I Ho) as Gp.
  pose proof (i_locked s I t Ho) as H. rewrite Hpc in H.
  destruct H as (A & Q & Fr & Hh).
  constructor; cbn [ms pcs g_hist g_gen g_cur g_owner]; unfold has_gen; rewrite ?(Lseq_eq _ _ Hm), ?Hm.
  - exact R'.
  - apply (i_seq_val s I).
  - apply (i_seq_view s I).
  - apply (i_cur s I).
  - apply (i_data_le s I).
  - apply (i_data_mono s I).
  - apply (i_data_slot s I).
  - apply (i_data_view s I).
  - intros idx i m Hi Hin Hs. rewrite (i_data_val s I idx i m Hi Hin Hs).
    destruct (Fr idx i m Hi Hin) as [[_ Hc]|Hc]; [lia|].
    rewrite app_nth1 by lia. reflexivity.
  - intros v0 Hin. apply in_app_or in Hin. destruct Hin as [Hin|[<-|[]]].
    + now apply (i_hist_len s I).
    + apply norm_length.
  - intros t0. destruct (Nat.eq_dec t0 t) as [->|Hn].
    + rewrite upd_pc_same. simpl. rewrite Ho. tauto.
    + rewrite upd_pc_other by assumption. apply (i_owner s I).
  - intros Hc. congruence.
  - intros t0 Ho'. assert (t0 = t) by congruence. subst t0. rewrite upd_pc_same.
    split; cbn [ms g_cur g_hist]; rewrite ?(Lseq_eq _ _ Hm).
    + pose proof (mono_cur _ _ Mo t seqL). lia.
    + split; [assumption|]. split; [lia|]. split.
      { intros idx i m Hi Hin. cbn [ms g_cur g_gen] in *. rewrite Hm in Hin. now apply Fr. }
      split; [rewrite app_length; simpl; lia|].
      split; [rewrite app_nth2 by lia; rewrite Hh, Nat.sub_diag; reflexivity|].
      split; [intros i Hi; lia|].
      intros Hr. destruct Ok as (_ & _ & _ & [Of|Od] & _); [|congruence].
      pose proof (fence_rel_snapshot _ _ _ _ St Of seqL). lia.
  - intros t0. destruct (Nat.eq_dec t0 t) as [->|Hn].
    + rewrite upd_pc_same. exact Logic.I.
    + rewrite upd_pc_other by assumption.
      apply (thr_inv_mono (ms s) _ (g_gen s)); [assumption|apply gen_frame_refl|apply (i_thr s I)].
Qed.

(** a data store (266) *)
Lemma step_wr_data : forall s t v q j M',
  inv s -> pcs s t = WrData v q j ->
  step (ms s) t (LStore (dLs (wr_slot q) j) (o_data_store o) (nth j v 0%N)) M' ->
  inv {| ms := M';
         pcs := upd_pc (pcs s) t (if Nat.eqb (S j) W then WrUnlock q else WrData v q (S j));
         g_hist := g_hist s;
         g_gen := upd_gen (g_gen s) (wr_slot q) j
                          (S (last_ts (memory (ms s) (dLs (wr_slot q) j)))) (g_cur s);
         g_cur := g_cur s; g_owner := g_owner s |}.
Proof.
  intros s t v q j M' I Hpc St.
  pose proof (i_reach s I) as R. pose proof (wf_reachable _ R) as Wf.
  assert (R' : reachable M') by (eapply reach_step; eassumption).
  pose proof (mono_step _ _ _ _ Wf St) as Mo.
  assert (Ho : g_owner s = Some t) by (apply owner_of_locked; [assumption|now rewrite Hpc]).
  pose proof (holder_G_pos s t I Ho) as Gp.
  pose proof (i_cur s I) as C. rewrite Ho in C.
  pose proof (i_locked s I t Ho) as H. rewrite Hpc in H.
  destruct H as (A & Q & Hj & Fr & Hh & Hn & Wt & Hr).
  destruct (holder_slots s q C Q) as [_ Ws]. rewrite Ws in *.
  set (r := g_cur s mod K) in *.
  destruct (store_facts _ _ _ _ _ _ R St) as (mk & E & Hts & Hv & Hoth & Hc & Hrel & Hrl).
  set (gg' := upd_gen (g_gen s) r j (S (last_ts (memory (ms s) (dLs r j)))) (g_cur s)).
  assert (Sm : memory M' seqL = memory (ms s) seqL).
  { apply Hoth. intros X. symmetry in X. revert X. apply dLs_seqL. }
  assert (Ls : Lseq M' = Lseq (ms s)) by (unfold Lseq; now rewrite Sm).
  (* membership in the new memory *)
  assert (Mem : forall idx i m, i < W -> In m (memory M' (dLs idx i)) ->
                  In m (memory (ms s) (dLs idx i)) \/ (idx = r /\ i = j /\ m = mk)).
  { intros idx i m Hi Hin. destruct (Nat.eq_dec (dLs idx i) (dLs r j)) as [Eq|Ne].
    - apply dLs_inj in Eq; [|assumption|assumption]. destruct Eq as [-> ->].
      rewrite E in Hin. apply in_snoc in Hin. tauto.
    - rewrite (Hoth _ Ne) in Hin. now left. }
  (* ghost generations: old messages keep theirs, the new one has g_cur *)
  assert (Frm : gen_frame (ms s) (g_gen s) gg').
  { intros idx i m Hi Hin. unfold gg', upd_gen.
    destruct (Nat.eqb_spec idx r) as [->|]; [|reflexivity].
    destruct (Nat.eqb_spec i j) as [->|]; [|reflexivity].
    pose proof (wf_in_ts _ _ _ Wf Hin) as B.
    destruct (Nat.eqb_spec (m_ts m) (S (last_ts (memory (ms s) (dLs r j))))); [lia|reflexivity]. }
  assert (Gk : gg' r j (m_ts mk) = g_cur s).
  { unfold gg', upd_gen. now rewrite Hts, !Nat.eqb_refl. }
  assert (Ink : In mk (memory M' (dLs r j))) by (rewrite E; apply in_snoc; now right).
  constructor; cbn [ms pcs g_hist g_gen g_cur g_owner]; fold gg'; rewrite ?Ls, ?Sm.
  - exact R'.
  - apply (i_seq_val s I).
  - intros m i Hin Hi. eapply has_gen_mono; try eassumption; [apply le_n|now apply (i_seq_view s I)].
  - rewrite Ho. exact C.
  - intros idx i m Hi Hin. destruct (Mem idx i m Hi Hin) as [Old|(-> & -> & ->)].
    + rewrite (Frm _ _ _ Hi Old). now apply (i_data_le s I).
    + rewrite Gk. apply le_n.
  - intros idx i m m' Hi Hin Hin' Hle.
    destruct (Mem idx i m Hi Hin) as [Old|(Ei & Ej & Em)];
      destruct (Mem idx i m' Hi Hin') as [Old'|(Ei' & Ej' & Em')].
    + rewrite (Frm _ _ _ Hi Old), (Frm _ _ _ Hi Old'). now apply (i_data_mono s I).
    + subst idx i m'. rewrite (Frm _ _ _ Hi Old), Gk.
      destruct (Fr r j m Hi Old) as [[_ Hx]|Hx]; lia.
    + subst idx i m. pose proof (wf_in_ts _ _ _ Wf Old') as B. lia.
    + subst m m'. apply le_n.
  - intros idx i m Hi Hin Hpos. destruct (Mem idx i m Hi Hin) as [Old|(-> & -> & ->)].
    + rewrite (Frm _ _ _ Hi Old) in *. now apply (i_data_slot s I).
    + rewrite Gk. reflexivity.
  - intros idx i m Hi Hin. destruct (Mem idx i m Hi Hin) as [Old|(-> & -> & ->)].
    + rewrite (Frm _ _ _ Hi Old). now apply (i_data_view s I idx i).
    + rewrite Gk. destruct (is_rel (o_data_store o)) eqn:Er.
      * specialize (Hrel eq_refl seqL). lia.
      * specialize (Hrl seqL). specialize (Hr eq_refl). lia.
  - intros idx i m Hi Hin Hs. destruct (Mem idx i m Hi Hin) as [Old|(-> & -> & ->)].
    + rewrite (Frm _ _ _ Hi Old) in *. now apply (i_data_val s I).
    + rewrite Gk, Hv, Hn. now rewrite norm_nth.
  - apply (i_hist_len s I).
  - intros t0. destruct (Nat.eq_dec t0 t) as [->|Hne].
    + rewrite upd_pc_same, Ho. destruct (Nat.eqb (S j) W); simpl; tauto.
    + rewrite upd_pc_other by assumption. apply (i_owner s I).
  - intros Hc'. congruence.
  - intros t0 Ho'. assert (t0 = t) by congruence. subst t0. rewrite upd_pc_same.
    assert (A' : Lseq M' <= cur (threads M' t) seqL).
    { rewrite Ls. pose proof (mono_cur _ _ Mo t seqL). lia. }
    assert (Fr' : forall p, fresh_from {| ms := M'; pcs := p; g_hist := g_hist s; g_gen := gg';
                                          g_cur := g_cur s; g_owner := g_owner s |} (S j)).
    { intros p idx i m Hi Hin. cbn [ms g_cur g_gen] in *. fold r.
      destruct (Mem idx i m Hi Hin) as [Old|(-> & -> & ->)].
      - rewrite (Frm _ _ _ Hi Old). destruct (Fr idx i m Hi Old) as [[X Y]|X]; [left; split; [assumption|lia]|now right].
      - left. split; [reflexivity|lia]. }
    assert (Wt' : forall p, written_to {| ms := M'; pcs := p; g_hist := g_hist s; g_gen := gg';
                                          g_cur := g_cur s; g_owner := g_owner s |} t (S j)).
    { intros p i Hi. cbn [ms g_cur g_gen]. fold r. destruct (Nat.eq_dec i j) as [->|Hne].
      - exists mk. split; [assumption|]. split; [assumption|]. rewrite Hc. apply le_n.
      - assert (Hi' : i < j) by lia.
        eapply has_gen_mono; try eassumption; [lia|apply (mono_cur _ _ Mo)|now apply Wt]. }
    destruct (Nat.eqb_spec (S j) W) as [Ew|Ew]; (split; [exact A'|]); cbn [ms g_cur g_hist]; rewrite Ls.
    + split; [assumption|]. split; [assumption|]. rewrite <- Ew. apply Wt'.
    + split; [assumption|]. split; [lia|]. split; [apply Fr'|]. split; [assumption|].
      split; [assumption|]. split; [apply Wt'|].
      intros Er. specialize (Hr Er). pose proof (mono_rel _ _ Mo t seqL). lia.
  - intros t0. destruct (Nat.eq_dec t0 t) as [->|Hne].
    + rewrite upd_pc_same. destruct (Nat.eqb (S j) W); exact Logic.I.
    + rewrite upd_pc_other by assumption.
      apply (thr_inv_mono (ms s) _ (g_gen s)); [assumption|exact Frm|apply (i_thr s I)].
Qed.

(** the unlocking release store (230) *)
Lemma step_wr_unlock : forall s t q M',
  ok_load -> inv s -> pcs s t = WrUnlock q ->
  step (ms s) t (LStore seqL (o_unlock_store o) (q + 2)%N) M' ->
  inv {| ms := M'; pcs := upd_pc (pcs s) t Idle;
         g_hist := g_hist s; g_gen := g_gen s; g_cur := g_cur s; g_owner := None |}.
Proof.
  intros s t q M' Ok I Hpc St.
  pose proof (i_reach s I) as R. pose proof (wf_reachable _ R) as Wf.
  assert (R' : reachable M') by (eapply reach_step; eassumption).
  pose proof (mono_step _ _ _ _ Wf St) as Mo.
  destruct (store_facts _ _ _ _ _ _ R St) as (mk & E & Hts & Hv & Hoth & Hc & Hrel & Hrl).
  assert (Ho : g_owner s = Some t) by (apply owner_of_locked; [assumption|now rewrite Hpc]).
  pose proof (i_cur s I) as C. rewrite Ho in C.
  pose proof (i_locked s I t Ho) as H. rewrite Hpc in H.
  destruct H as (A & Q & Hh & Wt).
  assert (Orel : is_rel (o_unlock_store o) = true) by apply Ok.
  assert (L' : Lseq M' = S (Lseq (ms s))).
  { unfold Lseq. rewrite E, last_ts_app, Hts. reflexivity. }
  assert (Dm : forall idx i, memory M' (dLs idx i) = memory (ms s) (dLs idx i)).
  { intros idx i. apply Hoth. apply dLs_seqL. }
  assert (Gk : gq mk = g_cur s).
  { unfold gq. rewrite Hts. fold (Lseq (ms s)). pose proof (div2_bounds (S (Lseq (ms s)))). lia. }
  constructor; cbn [ms pcs g_hist g_gen g_cur g_owner].
  - exact R'.
  - intros m Hin. rewrite E in Hin. apply in_snoc in Hin. destruct Hin as [Hin| ->].
    + now apply (i_seq_val s I).
    + rewrite Hv, Hts. fold (Lseq (ms s)). lia.
  - intros m i Hin Hi. rewrite E in Hin. apply in_snoc in Hin. destruct Hin as [Hin| ->].
    + eapply has_gen_le; [eassumption|apply le_n|now apply (i_seq_view s I)].
    + unfold rq. rewrite Gk.
      eapply has_gen_le; [eassumption| |apply (Wt i Hi)]. apply (Hrel Orel).
  - lia.
  - intros idx i m Hi Hin. rewrite Dm in Hin. now apply (i_data_le s I).
  - intros idx i m m' Hi Hin Hin'. rewrite Dm in Hin, Hin'. now apply (i_data_mono s I).
  - intros idx i m Hi Hin. rewrite Dm in Hin. now apply (i_data_slot s I).
  - intros idx i m Hi Hin. rewrite Dm in Hin. now apply (i_data_view s I idx i).
  - intros idx i m Hi Hin. rewrite Dm in Hin. now apply (i_data_val s I).
  - apply (i_hist_len s I).
  - intros t0. destruct (Nat.eq_dec t0 t) as [->|Hn].
    + rewrite upd_pc_same. simpl. split; discriminate.
    + rewrite upd_pc_other by assumption. split; [|discriminate].
      intros Hl. apply (i_owner s I) in Hl. congruence.
  - intros _. exact Hh.
  - discriminate.
  - intros t0. destruct (Nat.eq_dec t0 t) as [->|Hn].
    + rewrite upd_pc_same. exact Logic.I.
    + rewrite upd_pc_other by assumption.
      apply (thr_inv_mono (ms s) _ (g_gen s)); [assumption|apply gen_frame_refl|apply (i_thr s I)].
Qed.

(** ** The invariant holds in every reachable state *)

Lemma inv_step : forall s t lab s',
  orders_ok_load_slots o = true -> inv s -> pstep s t lab s' -> inv s'.
Proof.
  intros s t lab s' Ok I St. apply orders_ok_load_spec in Ok.
  destruct St.
  - now apply step_rd_seq1.
  - eapply step_rd_data; eassumption.
  - eapply step_rd_fence; eassumption.
  - eapply step_rd_seq2; eassumption.
  - eapply step_wr_seq; [assumption|now apply idle_unlocked|eassumption].
  - eapply step_wr_seq; [assumption|now rewrite H|eassumption].
  - eapply step_wr_cas_ok; eassumption.
  - eapply step_wr_seq; [assumption|now rewrite H|eassumption].
  - eapply step_wr_read; eassumption.
  - eapply step_wr_rfence; eassumption.
  - eapply step_wr_fence; eassumption.
  - eapply step_wr_data; eassumption.
  - eapply step_wr_unlock; eassumption.
Qed.

Theorem inv_preach : forall s, orders_ok_load_slots o = true -> preach s -> inv s.
Proof.
  intros s Ok R. induction R; [apply inv_init|eapply inv_step; eassumption].
Qed.

(** ** MAIN THEOREM (slots > 1): a load is never torn *)

Lemma ret_gens_length : forall s idx buf, length (ret_gens s idx buf) = length buf.
Proof.
  intros. unfold ret_gens. rewrite map_length, combine_length, seq_length. apply Nat.min_id.
Qed.

Lemma ret_gens_same : forall s idx buf h,
  (forall j m, nth_error buf j = Some m -> g_gen s idx j (m_ts m) = h) ->
  ret_gens s idx buf = repeat h (length buf).
Proof.
  intros s idx buf h H. rewrite <- (ret_gens_length s idx buf). apply all_eq_repeat'.
  intros x Hx. unfold ret_gens in Hx. apply in_map_iff in Hx. destruct Hx as ([j m] & <- & Hin).
  apply in_combine_seq' in Hin. destruct Hin as [_ Hn]. rewrite Nat.sub_0_r in Hn.
  simpl. now apply H.
Qed.

Lemma hist_length_bound : forall s, inv s ->
  g_cur s <= length (g_hist s) /\ (g_owner s = None -> length (g_hist s) = S (g_cur s)).
Proof.
  intros s I. split; [|apply (i_unlocked s I)].
  destruct (g_owner s) as [t0|] eqn:Eo.
  - pose proof (i_locked s I t0 Eo) as H. destruct H as [_ H].
    destruct (pcs s t0); try contradiction; decompose [and] H; lia.
  - pose proof (i_unlocked s I Eo). lia.
Qed.

(** For every completed load (thread [t] at [RdDone c0 mq buf]) there is ONE generation [g]
    (= half the timestamp of the message [mq] of [_seq] the copy was validated against) with:
    - the W words returned were read from slot [g mod K] and all carry generation [g];
    - they are exactly the value of generation [g];
    - generation [g] was complete at the end of the load ([2 * g <= last timestamp of _seq]);
    - [c0 <= 2 * g + 1]: every store whose unlocking store (timestamp [2 * k]) was in the reader's
      view of [_seq] when load() was called has [k <= g]. *)
Theorem seqlock_slots_load_atomic_wm : forall s t c0 mq buf,
  orders_ok_load_slots o = true -> preach s -> pcs s t = RdDone c0 mq buf ->
  exists g,
    length buf = W /\
    rd_slot (m_val mq) = g mod K /\
    (forall j m, nth_error buf j = Some m ->
       g_gen s (g mod K) j (m_ts m) = g /\ m_val m = nth j (nth g (g_hist s) []) 0%N) /\
    ret_gens s (g mod K) buf = repeat g W /\
    ret_vals buf = nth g (g_hist s) [] /\
    g < length (g_hist s) /\ g <= g_cur s /\ 2 * g <= last_ts (memory (ms s) seqL) /\
    2 * g <= m_ts mq <= 2 * g + 1 /\
    c0 <= 2 * g + 1.
Proof.
  intros s t c0 mq buf Ok R Hpc. pose proof (inv_preach s Ok R) as I.
  pose proof (i_thr s I t) as T. rewrite Hpc in T. simpl in T.
  destruct T as (Inq & Hc0 & Hlen & F).
  pose proof (wf_in_ts _ _ _ (wf_reachable _ (i_reach s I)) Inq) as Bq. fold (Lseq (ms s)) in Bq.
  pose proof (div2_bounds (m_ts mq)) as Bg. fold (gq mq) in Bg.
  destruct (hist_length_bound s I) as [HL1 HL2].
  assert (Hcur : gq mq <= g_cur s /\ gq mq < length (g_hist s)).
  { pose proof (i_cur s I) as C. destruct (g_owner s) eqn:Eo.
    - split; lia.
    - specialize (HL2 eq_refl). split; lia. }
  assert (G : forall j m, nth_error buf j = Some m ->
                g_gen s (gq mq mod K) j (m_ts m) = gq mq /\
                m_val m = nth j (nth (gq mq) (g_hist s) []) 0%N).
  { intros j m Hj. destruct (F j m Hj) as [Hin Hg]. fold (rq mq).
    assert (Hjw : j < W) by (rewrite <- Hlen; eapply nth_error_lt; eassumption).
    split; [assumption|].
    rewrite (i_data_val s I _ j m Hjw Hin); rewrite Hg; reflexivity. }
  exists (gq mq). split; [assumption|]. split; [now apply (rd_slot_rq s mq I)|].
  split; [exact G|]. split.
  { rewrite <- Hlen. apply ret_gens_same. intros j m Hj. now apply G. }
  split.
  { assert (Lh : length (nth (gq mq) (g_hist s) []) = W).
    { apply (i_hist_len s I). apply nth_In. lia. }
    unfold ret_vals. apply (nth_ext _ _ 0%N 0%N).
    - rewrite map_length. etransitivity; [exact Hlen|symmetry; exact Lh].
    - intros j Hj. rewrite map_length in Hj.
      destruct (nth_error buf j) as [m|] eqn:En; [|apply nth_error_None in En; lia].
      rewrite (nth_error_nth _ _ 0%N (map_nth_error m_val _ _ En)).
      now apply G. }
  unfold Lseq in Bq. repeat split; lia.
Qed.

Theorem seqlock_slots_writers_exclusive_wm : forall s t1 t2,
  orders_ok_load_slots o = true -> preach s ->
  locked (pcs s t1) = true -> locked (pcs s t2) = true -> t1 = t2.
Proof.
  intros s t1 t2 Ok R H1 H2. pose proof (inv_preach s Ok R) as I.
  apply (i_owner s I) in H1. apply (i_owner s I) in H2. congruence.
Qed.

(** update() applies its functor to the latest generation [g_cur - 1], read from slot
    [(g_cur - 1) mod K] (needs the acquire CAS (4)) *)
Theorem seqlock_slots_update_reads_latest_wm : forall s t f q buf,
  orders_ok_slots o = true -> preach s -> pcs s t = WrRFence f q buf ->
  1 <= g_cur s /\ length (g_hist s) = g_cur s /\ length buf = W /\
  upd_slot q = (g_cur s - 1) mod K /\
  (forall j m, nth_error buf j = Some m -> g_gen s (upd_slot q) j (m_ts m) = g_cur s - 1) /\
  ret_gens s (upd_slot q) buf = repeat (g_cur s - 1) W /\
  ret_vals buf = nth (g_cur s - 1) (g_hist s) [].
Proof.
  intros s t f q buf Ok R Hpc. unfold orders_ok_slots in Ok. apply andb_true_iff in Ok.
  destruct Ok as [Ok Oku]. pose proof (inv_preach s Ok R) as I.
  assert (Ho : g_owner s = Some t) by (apply owner_of_locked; [assumption|now rewrite Hpc]).
  pose proof (holder_G_pos s t I Ho) as Gp.
  pose proof (i_cur s I) as C. rewrite Ho in C.
  pose proof (i_locked s I t Ho) as H. rewrite Hpc in H.
  destruct H as (A & Q & Fr & Hh & U & Len). destruct (U Oku) as [U1 U2].
  destruct (holder_slots s q C Q) as [Us _]. rewrite Us.
  assert (G : forall j m, nth_error buf j = Some m ->
              g_gen s ((g_cur s - 1) mod K) j (m_ts m) = g_cur s - 1).
  { intros j m Hj. now destruct (U2 j m Hj). }
  split; [assumption|]. split; [assumption|]. split; [assumption|]. split; [reflexivity|].
  split; [exact G|]. split.
  { rewrite <- Len. now apply ret_gens_same. }
  assert (Lh : length (nth (g_cur s - 1) (g_hist s) []) = W).
  { apply (i_hist_len s I). apply nth_In. lia. }
  unfold ret_vals. apply (nth_ext _ _ 0%N 0%N).
  - rewrite map_length. etransitivity; [exact Len|symmetry; exact Lh].
  - intros j Hj. rewrite map_length in Hj.
    destruct (nth_error buf j) as [m|] eqn:En; [|apply nth_error_None in En; lia].
    rewrite (nth_error_nth _ _ 0%N (map_nth_error m_val _ _ En)).
    destruct (U2 j m En) as [Hin Hg].
    assert (Hjw : j < W) by lia.
    rewrite (i_data_val s I _ j m Hjw Hin); rewrite Hg; reflexivity.
Qed.

(** ** The executable form is sound *)

Lemma with_load_k_sound : forall (A : Type) M t l od i (k : msg -> state -> A) lab s',
  with_load_k M t l od i k = Some (lab, s') ->
  exists m M', lab = LLoad l od m /\ s' = k m M' /\ step M t (LLoad l od m) M'.
Proof.
  unfold with_load_k. intros A M t l od i k lab s' H.
  destruct (exec_load M t l od i) as [[m M']|] eqn:E; [|discriminate].
  inversion H; subst. exists m, M'. split; [reflexivity|]. split; [reflexivity|].
  eapply exec_load_step; eassumption.
Qed.

Lemma pexec_sound : forall s t c lab s', pexec K W o s t c = Some (lab, s') -> pstep s t lab s'.
Proof.
  intros s t c lab s' H. unfold pexec in H. destruct c.
  - destruct (is_idle (pcs s t)) eqn:Ei; [|discriminate].
    apply with_load_k_sound in H. destruct H as (m & M' & -> & -> & St). now apply ps_rd_seq1.
  - destruct (is_idle (pcs s t)) eqn:Ei; [|discriminate].
    apply with_load_k_sound in H. destruct H as (m & M' & -> & -> & St). now apply ps_wr_load.
  - destruct (pcs s t) eqn:Ep; try discriminate;
      apply with_load_k_sound in H; destruct H as (m & M' & -> & -> & St).
    + eapply ps_rd_data; eassumption.
    + eapply ps_rd_seq2; eassumption.
    + eapply ps_wr_spin; eassumption.
    + eapply ps_wr_cas_fail; eassumption.
    + eapply ps_wr_read; eassumption.
  - destruct (pcs s t) eqn:Ep; try discriminate.
    destruct (N.eqb_spec (m_val (last_msg (memory (ms s) seqL))) q) as [Eq|]; [|discriminate].
    inversion H; subst. eapply ps_wr_cas_ok; [eassumption|reflexivity|constructor].
  - destruct (pcs s t) eqn:Ep; try discriminate; inversion H; subst.
    + eapply ps_rd_fence; [eassumption|constructor].
    + eapply ps_wr_rfence; [eassumption|constructor].
    + eapply ps_wr_fence; [eassumption|constructor].
    + eapply ps_wr_data; [eassumption|constructor].
    + eapply ps_wr_unlock; [eassumption|constructor].
Qed.

Lemma prun_sound : forall cs s tr s', prun K W o s cs = Some (tr, s') -> ptrace s tr s'.
Proof.
  induction cs as [|[t c] cs IH]; intros s tr s' H; simpl in H.
  - inversion H; subst. constructor.
  - destruct (pexec K W o s t c) as [[lab s1]|] eqn:E; [|discriminate].
    destruct (prun K W o s1 cs) as [[tr1 s2]|] eqn:E2; [|discriminate].
    inversion H; subst. econstructor; [eapply pexec_sound; eassumption|now apply IH].
Qed.

Lemma pstep_step : forall s t lab s', pstep s t lab s' -> step (ms s) t lab (ms s').
Proof. intros s t lab s' H. destruct H; assumption. Qed.

Lemma ptrace_valid : forall s tr s', ptrace s tr s' -> valid (ms s) tr /\ ms s' = run (ms s) tr.
Proof.
  induction 1 as [|s t lab s1 tr s2 St _ [IH1 IH2]]; simpl; [auto|].
  apply pstep_step in St. apply step_apply in St. destruct St as [En Eq].
  rewrite <- Eq. auto.
Qed.

Lemma ptrace_preach : forall s tr s', preach s -> ptrace s tr s' -> preach s'.
Proof.
  intros s tr s' R H. induction H; [assumption|]. apply IHptrace. eapply preach_step; eassumption.
Qed.

End Proof.

(** ** Concrete executions (slots > 1) *)

Definition exec_load_returns (Kn Wn : nat) (od : orders) (sg : list esig) (t : tid)
           (gs : list nat) (vs : list val) : Prop :=
  exists tr s c0 mq buf,
    preach Kn Wn od s /\ ptrace Kn Wn od (pinit Wn) tr s /\
    valid init tr /\ ms s = run init tr /\ map sig_of tr = sg /\
    pcs s t = RdDone c0 mq buf /\ ret_gens s (rd_slot Kn (m_val mq)) buf = gs /\ ret_vals buf = vs.

Arguments exec_load_returns (Kn Wn)%nat od sg t%nat gs%nat vs%N.

Lemma exec_load_returns_by_computation : forall Kn Wn od cs sg t gs vs,
  match prun Kn Wn od (pinit Wn) cs with
  | Some (tr, s) => map sig_of tr = sg /\ done_gens Kn s t = Some gs /\ done_vals s t = Some vs
  | None => False
  end -> exec_load_returns Kn Wn od sg t gs vs.
Proof.
  intros Kn Wn od cs sg t gs vs H.
  destruct (prun Kn Wn od (pinit Wn) cs) as [[tr s]|] eqn:E; [|contradiction].
  destruct H as (H1 & H2 & H3). apply prun_sound in E.
  assert (R : preach Kn Wn od s) by (eapply ptrace_preach; [constructor|eassumption]).
  destruct (ptrace_valid _ _ _ _ _ _ E) as [V M].
  unfold done_gens in H2. unfold done_vals in H3.
  destruct (pcs s t) eqn:Ep; try discriminate.
  exists tr, s, c0, mq, buf. inversion H2. inversion H3. auto 10.
Qed.

Local Open Scope N_scope.

(** NON-VACUITY: 2 slots, 2 words, xenium's orders.  Thread 1 stores {7,8} (generation 1, slot 1);
    thread 2 calls load() and reads _seq = 2; thread 1 stores {5,6} (generation 2, slot 0) and locks
    again for generation 3 = {3,4} (slot 1) - thread 2 reads word 0 of slot 1 still from generation 1
    but word 1 already from generation 3; the fence (6) makes it see _seq >= 5, 5 - 2 >= 3: retry
    with seq = 5, i.e. generation 2 in slot 0, which it then returns although generation 3 is still
    being written (the load does not wait for the writer). *)
Example xenium_slots_load_completes :
  exec_load_returns 2 2 xenium_orders
    [ SLoad 1 0 Rlx 0 0; SRmw 1 0 Acq 1; SFence 1 Rel; SStore 1 3 Rlx 7; SStore 1 4 Rlx 8;
      SStore 1 0 Rel 2;
      SLoad 2 0 Acq 2 2;
      SLoad 1 0 Rlx 2 2; SRmw 1 0 Acq 3; SFence 1 Rel; SStore 1 1 Rlx 5; SStore 1 2 Rlx 6;
      SStore 1 0 Rel 4;
      SLoad 1 0 Rlx 4 4; SRmw 1 0 Acq 5; SFence 1 Rel; SStore 1 3 Rlx 3; SStore 1 4 Rlx 4;
      SLoad 2 3 Rlx 7 1; SLoad 2 4 Rlx 4 2; SFence 2 Acq; SLoad 2 0 Acq 5 5;
      SLoad 2 1 Rlx 5 1; SLoad 2 2 Rlx 6 1; SFence 2 Acq; SLoad 2 0 Acq 5 5 ]
    2 [2; 2]%nat [5; 6].
Proof.
  apply (exec_load_returns_by_computation 2 2 xenium_orders
    [(1%nat, CWrite (WStore [7; 8]) 0); (1%nat, CCas); (1%nat, CGo); (1%nat, CGo); (1%nat, CGo); (1%nat, CGo);
     (2%nat, CLoad 2);
     (1%nat, CWrite (WStore [5; 6]) 2); (1%nat, CCas); (1%nat, CGo); (1%nat, CGo); (1%nat, CGo); (1%nat, CGo);
     (1%nat, CWrite (WStore [3; 4]) 4); (1%nat, CCas); (1%nat, CGo); (1%nat, CGo); (1%nat, CGo);
     (2%nat, CRd 1); (2%nat, CRd 2); (2%nat, CGo); (2%nat, CRd 5);
     (2%nat, CRd 1); (2%nat, CRd 1); (2%nat, CGo); (2%nat, CRd 5)]).
  vm_compute. repeat split.
Qed.

(** NECESSITY of the fence (6) for slots > 1: the same schedule up to the torn copy, with
    [weak_orders] (the fence of read_data relaxed) the second load of _seq may still read 2 and the
    load returns word 0 of generation 1 with word 1 of generation 3: {7,4} *)
Theorem weak_orders_slots_torn :
  exec_load_returns 2 2 weak_orders
    [ SLoad 1 0 Rlx 0 0; SRmw 1 0 Acq 1; SFence 1 Rel; SStore 1 3 Rlx 7; SStore 1 4 Rlx 8;
      SStore 1 0 Rel 2;
      SLoad 2 0 Acq 2 2;
      SLoad 1 0 Rlx 2 2; SRmw 1 0 Acq 3; SFence 1 Rel; SStore 1 1 Rlx 5; SStore 1 2 Rlx 6;
      SStore 1 0 Rel 4;
      SLoad 1 0 Rlx 4 4; SRmw 1 0 Acq 5; SFence 1 Rel; SStore 1 3 Rlx 3; SStore 1 4 Rlx 4;
      SLoad 2 3 Rlx 7 1; SLoad 2 4 Rlx 4 2; SFence 2 Rlx; SLoad 2 0 Acq 2 2 ]
    2 [1; 3]%nat [7; 4].
Proof.
  apply (exec_load_returns_by_computation 2 2 weak_orders
    [(1%nat, CWrite (WStore [7; 8]) 0); (1%nat, CCas); (1%nat, CGo); (1%nat, CGo); (1%nat, CGo); (1%nat, CGo);
     (2%nat, CLoad 2);
     (1%nat, CWrite (WStore [5; 6]) 2); (1%nat, CCas); (1%nat, CGo); (1%nat, CGo); (1%nat, CGo); (1%nat, CGo);
     (1%nat, CWrite (WStore [3; 4]) 4); (1%nat, CCas); (1%nat, CGo); (1%nat, CGo); (1%nat, CGo);
     (2%nat, CRd 1); (2%nat, CRd 2); (2%nat, CGo); (2%nat, CRd 2)]).
  vm_compute. repeat split.
Qed.

Local Close Scope N_scope.

(** ** Summary theorem (the form used in Properties/Properties_C03_seqlock_slots.v) *)

Theorem seqlock_slots_weak_atomic : forall K W o, 1 <= K -> 1 <= W -> orders_ok_slots o = true ->
  forall s, preach K W o s ->
  (forall t c0 mq buf, pcs s t = RdDone c0 mq buf ->
     exists g,
       length buf = W /\
       rd_slot K (m_val mq) = g mod K /\
       (forall j m, nth_error buf j = Some m ->
          g_gen s (g mod K) j (m_ts m) = g /\ m_val m = nth j (nth g (g_hist s) []) 0%N) /\
       ret_gens s (g mod K) buf = repeat g W /\
       ret_vals buf = nth g (g_hist s) [] /\
       g < length (g_hist s) /\ g <= g_cur s /\ 2 * g <= last_ts (memory (ms s) seqL) /\
       2 * g <= m_ts mq <= 2 * g + 1 /\
       c0 <= 2 * g + 1) /\
  (forall t f q buf, pcs s t = WrRFence f q buf ->
     1 <= g_cur s /\ length (g_hist s) = g_cur s /\ length buf = W /\
     upd_slot K q = (g_cur s - 1) mod K /\
     (forall j m, nth_error buf j = Some m -> g_gen s (upd_slot K q) j (m_ts m) = g_cur s - 1) /\
     ret_gens s (upd_slot K q) buf = repeat (g_cur s - 1) W /\
     ret_vals buf = nth (g_cur s - 1) (g_hist s) []) /\
  (forall t1 t2, locked (pcs s t1) = true -> locked (pcs s t2) = true -> t1 = t2).
Proof.
  intros K W o HK HW Ok s R.
  assert (Okl : orders_ok_load_slots o = true).
  { unfold orders_ok_slots in Ok. apply andb_true_iff in Ok. tauto. }
  split; [|split].
  - intros t c0 mq buf Hpc. exact (seqlock_slots_load_atomic_wm K W HK HW o s t c0 mq buf Okl R Hpc).
  - intros t f q buf Hpc. exact (seqlock_slots_update_reads_latest_wm K W HK HW o s t f q buf Ok R Hpc).
  - intros t1 t2. exact (seqlock_slots_writers_exclusive_wm K W HK HW o s t1 t2 Okl R).
Qed.
