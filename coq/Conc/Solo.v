(** Solo termination (the progress notion of property C16) for the step-level models.

    Every model is an LTS [step : S -> A -> option (S * list E)] whose actions contain, for every
    thread [t], the action "thread t performs its next atomic step" ([act t], i.e. [Step t]) and
    which has a decidable notion "thread t is between operations" ([idle s t], i.e. [th s t = Idle]).

    A thread runs SOLO from [s] when only the actions [act t] are performed.  [step] is a
    function, so the solo run from [s] is unique:

      [solo_steps t n s s']    s' is reached from s by exactly n consecutive steps of t, each of them
                               enabled and each taken while t is not idle;
      [finishes_within t B s]  the solo run of t from s reaches an idle state after at most B steps;
      [solo_run t fuel s]      the executable version (Done / Stuck / Running);
      [never_stuck t s]        every step of the solo run is enabled as long as t is not idle
                               (a disabled step is how the models represent waiting, e.g. for a mutex);
      [blocks t s]             t does not finish within any bound: the negation of lock-freedom
                               for the operation t is executing in s.

    [finishes_by_measure] is the proof rule: a predicate closed under the steps of t and a measure
    that strictly decreases with every step of t bound the length of the solo run by the measure. *)
From Coq Require Import List Arith Lia.
Import ListNotations.

Section Solo.
  Variables (S A E : Type).
  Variable step : S -> A -> option (S * list E).
  Variable act : nat -> A.              (* the action "thread t takes its next step" *)
  Variable idle : S -> nat -> bool.     (* thread t is between operations *)

  Inductive solo_steps (t : nat) : nat -> S -> S -> Prop :=
  | solo_O : forall s, solo_steps t 0 s s
  | solo_S : forall n s s1 es s', idle s t = false -> step s (act t) = Some (s1, es) ->
             solo_steps t n s1 s' -> solo_steps t (Datatypes.S n) s s'.

  Definition finishes_within (t : nat) (B : nat) (s : S) : Prop :=
    exists n s', n <= B /\ solo_steps t n s s' /\ idle s' t = true.

  Definition finishes_exactly (t : nat) (n : nat) (s : S) : Prop :=
    exists s', solo_steps t n s s' /\ idle s' t = true.

  Definition never_stuck (t : nat) (s : S) : Prop :=
    forall n s', solo_steps t n s s' -> idle s' t = false -> exists s'' es, step s' (act t) = Some (s'', es).

  Definition blocks (t : nat) (s : S) : Prop := forall B, ~ finishes_within t B s.

  (** the thread is still inside its operation after every number of solo steps, and every one of
      these steps is enabled: it spins *)
  Definition spins (t : nat) (s : S) : Prop :=
    forall n, exists s', solo_steps t n s s' /\ idle s' t = false.

  (** executable solo run *)
  Inductive outcome :=
  | Done (s : S) (n : nat)       (* idle after n steps *)
  | Stuck (s : S) (n : nat)      (* not idle and the next step is disabled, after n steps *)
  | Running (s : S).             (* fuel exhausted, not idle *)

  Fixpoint solo_run (t : nat) (fuel : nat) (k : nat) (s : S) : outcome :=
    if idle s t then Done s k else
    match fuel with
    | O => Running s
    | Datatypes.S f =>
      match step s (act t) with
      | Some (s1, _) => solo_run t f (Datatypes.S k) s1
      | None => Stuck s k
      end
    end.

  Lemma solo_steps_det t n s s1 s2 : solo_steps t n s s1 -> solo_steps t n s s2 -> s1 = s2.
  Proof.
    intros H1. revert s2. induction H1 as [s|n s sa es s' Hi Hst H1 IH]; intros s2 H2.
    - inversion H2. reflexivity.
    - inversion H2 as [|n0 s0 sb es' s0' Hi' Hst' H2']; subst. rewrite Hst in Hst'. inversion Hst'; subst.
      apply IH. exact H2'.
  Qed.

  Lemma solo_steps_app t n m s s1 s2 : solo_steps t n s s1 -> solo_steps t m s1 s2 -> solo_steps t (n + m) s s2.
  Proof.
    intros H1 H2. induction H1 as [s|n s sa es s' Hi Hst H1 IH]; [exact H2|].
    cbn [Nat.add]. eapply solo_S; eauto.
  Qed.

  Lemma solo_steps_split t n m s s2 : solo_steps t (n + m) s s2 -> exists s1, solo_steps t n s s1 /\ solo_steps t m s1 s2.
  Proof.
    revert s. induction n as [|n IH]; intros s H.
    - exists s. split; [constructor|exact H].
    - cbn [Nat.add] in H. inversion H as [|n0 s0 sa es s0' Hi Hst H']; subst.
      destruct (IH _ H') as (s1 & Ha & Hb). exists s1. split; [eapply solo_S; eauto|exact Hb].
  Qed.

  (** an idle thread takes no solo step *)
  Lemma solo_steps_idle t n s s' : idle s t = true -> solo_steps t n s s' -> n = 0 /\ s' = s.
  Proof. intros Hi H. inversion H; subst; [split; reflexivity|congruence]. Qed.

  Lemma solo_run_done t fuel k s s' n :
    solo_run t fuel k s = Done s' n -> exists m, n = k + m /\ m <= fuel /\ solo_steps t m s s' /\ idle s' t = true.
  Proof.
    revert k s. induction fuel as [|f IH]; intros k s; cbn [solo_run].
    - destruct (idle s t) eqn:Hi; [|discriminate]. intros H; inversion H; subst.
      exists 0. repeat split; [lia|lia|constructor|exact Hi].
    - destruct (idle s t) eqn:Hi.
      + intros H; inversion H; subst. exists 0. repeat split; [lia|lia|constructor|exact Hi].
      + destruct (step s (act t)) as [[s1 es]|] eqn:Hst; [|discriminate].
        intros H. destruct (IH _ _ H) as (m & -> & Hm & Hs & Hid).
        exists (Datatypes.S m). repeat split; [lia|lia| |exact Hid]. eapply solo_S; eauto.
  Qed.

  Lemma solo_run_complete t n s s' : solo_steps t n s s' -> idle s' t = true ->
    forall fuel k, n <= fuel -> solo_run t fuel k s = Done s' (k + n).
  Proof.
    intros H Hid. induction H as [s|n s sa es s' Hi Hst H IH]; intros fuel k Hle.
    - destruct fuel; cbn [solo_run]; rewrite Hid; f_equal; lia.
    - destruct fuel as [|f]; [lia|]. cbn [solo_run]. rewrite Hi, Hst.
      rewrite IH by (try assumption; lia). f_equal. lia.
  Qed.

  (** [finishes_within] is exactly "the executable solo run with fuel B ends in [Done]" *)
  Theorem finishes_within_run t B s :
    finishes_within t B s <-> exists s' n, solo_run t B 0 s = Done s' n.
  Proof.
    split.
    - intros (n & s' & Hle & Hs & Hid). exists s', n. apply (solo_run_complete t n s s' Hs Hid B 0 Hle).
    - intros (s' & n & H). destruct (solo_run_done _ _ _ _ _ _ H) as (m & -> & Hm & Hs & Hid).
      exists m, s'. repeat split; assumption.
  Qed.

  Lemma finishes_within_mono t B B' s : B <= B' -> finishes_within t B s -> finishes_within t B' s.
  Proof. intros Hle (n & s' & Hn & H). exists n, s'. split; [lia|exact H]. Qed.

  Lemma finishes_exactly_within t n s : finishes_exactly t n s -> finishes_within t n s.
  Proof. intros (s' & H1 & H2). exists n, s'. repeat split; [lia|assumption|assumption]. Qed.

  (** a finishing solo run is never stuck on the way (determinism of [step]) *)
  Theorem finishes_never_stuck t B s : finishes_within t B s -> never_stuck t s.
  Proof.
    intros (n & sf & _ & Hs & Hid) m s' Hm Hni.
    destruct (Nat.le_gt_cases n m) as [Hle|Hlt].
    - (* the run is over after n steps *)
      exfalso. replace m with (n + (m - n)) in Hm by lia.
      destruct (solo_steps_split _ _ _ _ _ Hm) as (s1 & Ha & Hb).
      pose proof (solo_steps_det _ _ _ _ _ Hs Ha) as <-.
      destruct (solo_steps_idle _ _ _ _ Hid Hb) as [_ ->]. congruence.
    - replace n with (m + (n - m)) in Hs by lia.
      destruct (solo_steps_split _ _ _ _ _ Hs) as (s1 & Ha & Hb).
      pose proof (solo_steps_det _ _ _ _ _ Hm Ha) as <-.
      inversion Hb as [|k s0 sa es s0' Hi Hst Hb']; subst; [lia|]. eauto.
  Qed.

  (** * The proof rule for bounds *)
  Theorem finishes_by_measure (P : S -> Prop) (mu : S -> nat) (t : nat) :
    (forall s, P s -> idle s t = false ->
       exists s' es, step s (act t) = Some (s', es) /\ P s' /\ mu s' < mu s) ->
    forall s, P s -> finishes_within t (mu s) s.
  Proof.
    intros Hstep s. remember (mu s) as m eqn:Hm. revert s Hm.
    induction m as [m IH] using lt_wf_ind. intros s Hm HP.
    destruct (idle s t) eqn:Hi.
    - exists 0, s. repeat split; [lia|constructor|exact Hi].
    - destruct (Hstep s HP Hi) as (s1 & es & Hst & HP1 & Hlt).
      destruct (IH (mu s1) ltac:(lia) s1 eq_refl HP1) as (n & s' & Hn & Hs & Hid).
      exists (Datatypes.S n), s'. repeat split; [lia| |exact Hid]. eapply solo_S; eauto.
  Qed.

  (** exact variant: the measure decreases by exactly one, so it IS the number of solo steps *)
  Theorem finishes_by_exact_measure (P : S -> Prop) (mu : S -> nat) (t : nat) :
    (forall s, P s -> idle s t = true -> mu s = 0) ->
    (forall s, P s -> idle s t = false ->
       exists s' es, step s (act t) = Some (s', es) /\ P s' /\ mu s = Datatypes.S (mu s')) ->
    forall s, P s -> finishes_exactly t (mu s) s.
  Proof.
    intros Hidle Hstep s. remember (mu s) as m eqn:Hm. revert s Hm.
    induction m as [|m IH]; intros s Hm HP.
    - destruct (idle s t) eqn:Hi.
      + exists s. split; [constructor|exact Hi].
      + destruct (Hstep s HP Hi) as (s1 & es & _ & _ & Heq). lia.
    - destruct (idle s t) eqn:Hi.
      + rewrite (Hidle s HP Hi) in Hm. discriminate.
      + destruct (Hstep s HP Hi) as (s1 & es & Hst & HP1 & Heq).
        destruct (IH s1 ltac:(lia) HP1) as (s' & Hs & Hid).
        exists s'. split; [eapply solo_S; eauto|exact Hid].
  Qed.

  (** * Proof rules for the negative results *)

  (** a predicate closed under the steps of t on which t is never idle: t spins forever *)
  Theorem spins_by_invariant (P : S -> Prop) (t : nat) :
    (forall s, P s -> idle s t = false /\ exists s' es, step s (act t) = Some (s', es) /\ P s') ->
    forall s, P s -> spins t s.
  Proof.
    intros Hstep s HP n. revert s HP. induction n as [|n IH]; intros s HP.
    - exists s. split; [constructor|apply (Hstep s HP)].
    - destruct (Hstep s HP) as (Hi & s1 & es & Hst & HP1).
      destruct (IH s1 HP1) as (s' & Hs & Hi'). exists s'. split; [eapply solo_S; eauto|exact Hi'].
  Qed.

  Theorem spins_blocks t s : spins t s -> blocks t s.
  Proof.
    intros Hsp B (n & sf & _ & Hs & Hid).
    destruct (Hsp (Datatypes.S n)) as (s' & Hs' & _).
    replace (Datatypes.S n) with (n + 1) in Hs' by lia.
    destruct (solo_steps_split _ _ _ _ _ Hs') as (s1 & Ha & Hb).
    pose proof (solo_steps_det _ _ _ _ _ Hs Ha) as <-.
    destruct (solo_steps_idle _ _ _ _ Hid Hb) as [E0 _]. discriminate.
  Qed.

  (** t is inside an operation and its next step is disabled: it waits (e.g. for a mutex) *)
  Theorem disabled_blocks t s : idle s t = false -> step s (act t) = None -> blocks t s.
  Proof.
    intros Hi Hst B (n & sf & _ & Hs & Hid).
    inversion Hs as [|k s0 sa es s0' Hi' Hst' Hs']; subst; congruence.
  Qed.

  (** blocking after a solo prefix is blocking *)
  Lemma blocks_prefix t n s s1 : solo_steps t n s s1 -> blocks t s1 -> blocks t s.
  Proof.
    intros Hp Hb B (m & sf & _ & Hs & Hid).
    destruct (Nat.le_gt_cases n m) as [Hle|Hlt].
    - replace m with (n + (m - n)) in Hs by lia.
      destruct (solo_steps_split _ _ _ _ _ Hs) as (s2 & Ha & Hc).
      pose proof (solo_steps_det _ _ _ _ _ Hp Ha) as <-.
      apply (Hb (m - n)). exists (m - n), sf. repeat split; [lia|exact Hc|exact Hid].
    - replace n with (m + (n - m)) in Hp by lia.
      destruct (solo_steps_split _ _ _ _ _ Hp) as (s2 & Ha & Hc).
      pose proof (solo_steps_det _ _ _ _ _ Hs Ha) as <-.
      destruct (solo_steps_idle _ _ _ _ Hid Hc) as [E0 ->].
      apply (Hb 0). exists 0, sf. repeat split; [lia|constructor|exact Hid].
  Qed.
End Solo.

Arguments solo_steps {S A E} step act idle t n s s'.
Arguments finishes_within {S A E} step act idle t B s.
Arguments finishes_exactly {S A E} step act idle t n s.
Arguments never_stuck {S A E} step act idle t s.
Arguments blocks {S A E} step act idle t s.
Arguments spins {S A E} step act idle t s.
Arguments solo_run {S A E} step act idle t fuel k s.
Arguments Done {S}. Arguments Stuck {S}. Arguments Running {S}.
