(** Generic labelled transition systems: executable runs, reachability, the invariant rule.
    Every concurrent model in this development is an instance: a state, an action type
    (which thread moves / which operation a thread starts / which oracle value is used) and a
    partial step function returning the new state and the emitted events.  [reach] quantifies over
    ALL action sequences, i.e. over all programs, all schedules and any number of threads. *)
From Coq Require Import List.
Import ListNotations.

Section Lts.
  Variables (S A E : Type).
  Variable init : S.
  Variable step : S -> A -> option (S * list E).

  (** executable run: actions that are not enabled are skipped (and reported) *)
  Fixpoint run (s : S) (acts : list A) : S * list E * nat :=
    match acts with
    | [] => (s, [], 0)
    | a :: rest =>
      match step s a with
      | Some (s', es) => let '(sf, tr, sk) := run s' rest in (sf, es ++ tr, sk)
      | None => let '(sf, tr, sk) := run s rest in (sf, tr, Datatypes.S sk)
      end
    end.

  Inductive reach : S -> Prop :=
  | reach_init : reach init
  | reach_step : forall s a s' es, reach s -> step s a = Some (s', es) -> reach s'.

  Inductive reach_from (s0 : S) : S -> Prop :=
  | rf_refl : reach_from s0 s0
  | rf_step : forall s a s' es, reach_from s0 s -> step s a = Some (s', es) -> reach_from s0 s'.

  Lemma inv_rule (I : S -> Prop) :
    I init ->
    (forall s a s' es, I s -> step s a = Some (s', es) -> I s') ->
    forall s, reach s -> I s.
  Proof. intros Hi Hs s Hr. induction Hr as [|s a s' es Hr IH Hst]; [exact Hi|]. eapply Hs; eauto. Qed.

  Lemma inv_rule_from (I : S -> Prop) s0 :
    I s0 ->
    (forall s a s' es, I s -> step s a = Some (s', es) -> I s') ->
    forall s, reach_from s0 s -> I s.
  Proof. intros Hi Hs s Hr. induction Hr as [|s a s' es Hr IH Hst]; [exact Hi|]. eapply Hs; eauto. Qed.

  (** invariant rule with an auxiliary, already established invariant *)
  Lemma inv_rule_aux (J I : S -> Prop) :
    (forall s, reach s -> J s) ->
    I init ->
    (forall s a s' es, J s -> J s' -> I s -> step s a = Some (s', es) -> I s') ->
    forall s, reach s -> I s.
  Proof.
    intros HJ Hi Hs s Hr. induction Hr as [|s a s' es Hr IH Hst]; [exact Hi|].
    apply (Hs s a s' es); [apply HJ; exact Hr | apply HJ; eapply reach_step; eauto | exact IH | exact Hst].
  Qed.

  Lemma reach_from_reach s s' : reach s -> reach_from s s' -> reach s'.
  Proof. intros Hr Hf. induction Hf as [|x a y es Hf IH Hst]; [exact Hr|]. eapply reach_step; eauto. Qed.

  Lemma run_reach_from : forall acts s, reach_from s (fst (fst (run s acts))).
  Proof.
    induction acts as [|a rest IH]; intros s; cbn [run].
    - apply rf_refl.
    - destruct (step s a) as [[s' es]|] eqn:Hst.
      + specialize (IH s'). destruct (run s' rest) as [[sf tr] sk]. cbn in *.
        clear -IH Hst. induction IH as [|x b y es' Hf IH' Hst'].
        * eapply rf_step; [apply rf_refl|exact Hst].
        * eapply rf_step; eauto.
      + specialize (IH s). destruct (run s rest) as [[sf tr] sk]. exact IH.
  Qed.

  Lemma run_reach : forall acts, reach (fst (fst (run init acts))).
  Proof. intros acts. eapply reach_from_reach; [apply reach_init|apply run_reach_from]. Qed.

  Lemma run_app_fst : forall l1 l2 s,
    fst (fst (run s (l1 ++ l2))) = fst (fst (run (fst (fst (run s l1))) l2)).
  Proof.
    induction l1 as [|a rest IH]; intros l2 s; cbn [run app]; [reflexivity|].
    destruct (step s a) as [[s1 es1]|].
    - specialize (IH l2 s1). destruct (run s1 (rest ++ l2)) as [[sf tr] sk].
      destruct (run s1 rest) as [[sf' tr'] sk']. exact IH.
    - specialize (IH l2 s). destruct (run s (rest ++ l2)) as [[sf tr] sk].
      destruct (run s rest) as [[sf' tr'] sk']. exact IH.
  Qed.

  (** every reachable state is the end of some run *)
  Lemma reach_run : forall s, reach s -> exists acts, fst (fst (run init acts)) = s.
  Proof.
    intros s Hr. induction Hr as [|s a s' es Hr [acts IH] Hst].
    - exists []. reflexivity.
    - exists (acts ++ [a]). rewrite run_app_fst, IH. cbn [run]. rewrite Hst. reflexivity.
  Qed.
End Lts.

Arguments run {S A E} step s acts.
Arguments reach {S A E} init step s.
Arguments reach_from {S A E} step s0 s.

(** functional update of per-thread state *)
Definition upd {T : Type} (f : nat -> T) (t : nat) (v : T) : nat -> T :=
  fun x => if Nat.eqb x t then v else f x.
Lemma upd_same {T} (f : nat -> T) t v : upd f t v t = v.
Proof. unfold upd. rewrite PeanoNat.Nat.eqb_refl. reflexivity. Qed.
Lemma upd_other {T} (f : nat -> T) t v x : x <> t -> upd f t v x = f x.
Proof. unfold upd. intros H. destruct (PeanoNat.Nat.eqb_spec x t); [contradiction|reflexivity]. Qed.
