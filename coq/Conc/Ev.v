(** Events emitted by the step-level models: one per atomic access / fence of the C++ code, in the
    vocabulary printed by rt/xvrt (xv::fmt_rec).  Memory orders use the compiler's encoding:
    0 relaxed, 1 consume, 2 acquire, 3 release, 4 acq_rel, 5 seq_cst. *)
From Coq Require Import NArith List.
Import ListNotations.

Inductive loc :=
| LNamed (code : N) (off : N)      (* a field of the container object; code names are per model *)
| LHeap (block : N) (off : N).     (* byte offset inside the [block]-th tracked heap allocation *)

Inductive val :=
| VInt (n : N)
| VPtr (l : loc) (upper : N).      (* pointer to a location (low mark bits are part of the offset), upper 16 bits *)

Inductive ev :=
| EStart (t : nat) (op : N) (args : list N)
| ELoad (t : nat) (l : loc) (mo : N) (v : val)
| EStore (t : nat) (l : loc) (mo : N) (v : val)
| ERmw (t : nat) (l : loc) (mo : N) (old new : val)
| ECasF (t : nat) (l : loc) (mo fmo : N) (seen expected : val)
| EFence (t : nat) (mo : N)
| ERet (t : nat) (r : list N)
| EAlloc (t : nat) (block size : N)
| EFree (t : nat) (block : N)
| ENote (t : nat) (code : N) (args : list N).

Definition mo_rlx : N := 0.
Definition mo_acq : N := 2.
Definition mo_rel : N := 3.
Definition mo_acqrel : N := 4.
Definition mo_sc : N := 5.
