(** utils::rotate<C>: the generic template (generated: [rotC_left/right]) and its <0> specialisation
    (generated: [rot0_left/right]); which one a call uses is decided by the template argument. *)
From Coq Require Import NArith.
From XV Require Import Base.Word gen.RotateGen gen.Rotate0Gen.
Local Open Scope N_scope.
Definition rot_left (c v : N) : N := if c =? 0 then rot0_left v else rotC_left c v.
Definition rot_right (c v : N) : N := if c =? 0 then rot0_right v else rotC_right c v.
