(** Fixed-width machine arithmetic over [N], used by the code generated from the C++ sources
    (tools/cxx2gallina.py).  A value of a [w]-bit C++ integer type is an [N] below [2^w]; signed
    types are stored in two's complement. *)
From Coq Require Import NArith ZArith Lia Bool.
Local Open Scope N_scope.

Definition wrap (w x : N) : N := x mod 2 ^ w.
Definition wadd (w a b : N) : N := (a + b) mod 2 ^ w.
Definition wsub (w a b : N) : N := (a + 2 ^ w - b mod 2 ^ w) mod 2 ^ w.
Definition wmul (w a b : N) : N := (a * b) mod 2 ^ w.
Definition wneg (w a : N) : N := wsub w 0 a.
Definition wnot (w a : N) : N := N.lxor a (N.ones w).
Definition wshl (w a b : N) : N := (N.shiftl a b) mod 2 ^ w.
Definition wshr (a b : N) : N := N.shiftr a b.
Definition wdiv (a b : N) : N := a / b.      (* b = 0 is undefined behaviour in C++; Coq gives 0 *)
Definition wmod (a b : N) : N := a mod b.    (* b = 0: Coq gives a *)

(** signed view *)
Definition sval (w a : N) : Z := if a <? 2 ^ (w - 1) then Z.of_N a else (Z.of_N a - Z.of_N (2 ^ w))%Z.
Definition of_sval (w : N) (z : Z) : N := Z.to_N (z mod Z.of_N (2 ^ w)).
Definition sext (w1 w2 a : N) : N := of_sval w2 (sval w1 a).
Definition sshr (w a b : N) : N := of_sval w (Z.shiftr (sval w a) (Z.of_N b)).
Definition sdiv (w a b : N) : N := of_sval w (Z.quot (sval w a) (sval w b)).
Definition srem (w a b : N) : N := of_sval w (Z.rem (sval w a) (sval w b)).
Definition slt (w a b : N) : bool := (sval w a <? sval w b)%Z.
Definition sle (w a b : N) : bool := (sval w a <=? sval w b)%Z.

Definition b2n (b : bool) : N := if b then 1 else 0.
Definition n2b (x : N) : bool := negb (x =? 0).

(** [find_last_bit_set] of xenium/utils.hpp is [N.size]; the generated loop is proved equal to it
    in gen-dependent proof files. *)
Definition flbs (v : N) : N := N.size v.

Lemma wrap_small w x : x < 2 ^ w -> wrap w x = x.
Proof. intros H. unfold wrap. apply N.mod_small. exact H. Qed.

Lemma wadd_small w a b : a + b < 2 ^ w -> wadd w a b = a + b.
Proof. intros H. unfold wadd. apply N.mod_small. exact H. Qed.

Lemma pow2_pos w : 0 < 2 ^ w.
Proof. apply N.neq_0_lt_0. apply N.pow_nonzero. discriminate. Qed.

Lemma wsub_small w a b : b <= a -> a < 2 ^ w -> wsub w a b = a - b.
Proof.
  intros Hba Ha. unfold wsub.
  assert (Hp := pow2_pos w).
  rewrite (N.mod_small b) by lia.
  replace (a + 2 ^ w - b) with ((a - b) + 1 * 2 ^ w) by lia.
  rewrite N.mod_add by lia. apply N.mod_small. lia.
Qed.

Lemma wsub_wrap w a b : a < b -> b < 2 ^ w -> wsub w a b = a + 2 ^ w - b.
Proof.
  intros Hab Hb. unfold wsub. rewrite (N.mod_small b) by exact Hb.
  apply N.mod_small. lia.
Qed.

Lemma wadd_lt w a b : wadd w a b < 2 ^ w.
Proof. unfold wadd. apply N.mod_lt. apply N.pow_nonzero. discriminate. Qed.
Lemma wsub_lt w a b : wsub w a b < 2 ^ w.
Proof. unfold wsub. apply N.mod_lt. apply N.pow_nonzero. discriminate. Qed.
Lemma wmul_lt w a b : wmul w a b < 2 ^ w.
Proof. unfold wmul. apply N.mod_lt. apply N.pow_nonzero. discriminate. Qed.
Lemma wshl_lt w a b : wshl w a b < 2 ^ w.
Proof. unfold wshl. apply N.mod_lt. apply N.pow_nonzero. discriminate. Qed.
