(** Extraction of the executable models for the correspondence check (ExtrOcamlBasic only:
    bool, option, unit, prod, list, sumbool map to OCaml's; N/positive/nat/Z stay extracted datatypes). *)
From Coq Require Import ExtrOcamlBasic NArith List.
From XV Require Import Conc.Lts Conc.Ev Model.ChaseDefs.
Extraction Language OCaml.
Extraction "xm.ml" Lts.run ChaseDefs.step ChaseDefs.init N.of_nat N.to_nat.
