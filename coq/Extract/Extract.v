(** Extraction of the executable models for the correspondence check (ExtrOcamlBasic only:
    bool, option, unit, prod, list, sumbool map to OCaml's; N/positive/nat/Z stay extracted datatypes).
    Separate extraction: one OCaml module per Coq module, so model names never clash. *)
From Coq Require Import ExtrOcamlBasic NArith List.
From XV Require Import Conc.Lts Conc.Ev Model.ChaseDefs Model.SeqlockDefs Model.LeftRightDefs Model.VyukovDefs Model.MsqDefs Model.TblDefs Model.HmlDefs Model.HmlItDefs Model.EbrDefs Model.HpDefs Model.VhmDefs Model.VhmItDefs Model.RamDefs Model.KfbDefs Model.QsbrDefs Model.LfrcDefs Model.NikbDefs Model.KfqDefs Model.HeDefs Model.HmmDefs Model.VhmGrowDefs Model.NikqDefs Model.GebrDefs Model.StampDefs.
Extraction Language OCaml.
Separate Extraction Lts.run N.of_nat N.to_nat
  ChaseDefs.step ChaseDefs.init
  SeqlockDefs.step SeqlockDefs.init SeqlockDefs.pat_words SeqlockDefs.pat_func SeqlockDefs.pat_find
  LeftRightDefs.step LeftRightDefs.init
  VyukovDefs.step VyukovDefs.init
  MsqDefs.step MsqDefs.init
  TblDefs.step TblDefs.init
  HmlDefs.step HmlDefs.init
  HmlItDefs.xstep HmlItDefs.xinit
  EbrDefs.step EbrDefs.init
  HpDefs.step HpDefs.init
  VhmDefs.step VhmDefs.init
  VhmItDefs.step VhmItDefs.init
  RamDefs.step RamDefs.init
  KfbDefs.step KfbDefs.init
  QsbrDefs.step QsbrDefs.step_gen QsbrDefs.init
  LfrcDefs.step LfrcDefs.init
  NikbDefs.step NikbDefs.step_old NikbDefs.init
  KfqDefs.step KfqDefs.init
  HeDefs.step HeDefs.init
  HmmDefs.step HmmDefs.init HmmDefs.hf_id HmmDefs.hf_const HmmDefs.hf_mod2 HmmDefs.hf_rev
  VhmGrowDefs.step VhmGrowDefs.init
  NikqDefs.qstep NikqDefs.qinit
  GebrDefs.step GebrDefs.init
  StampDefs.step StampDefs.step_gen StampDefs.init.
