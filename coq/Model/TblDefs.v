(** Step-level model of xenium::reclamation::detail::thread_block_list<T>
    (xenium/reclamation/detail/thread_block_list.hpp), the per-thread record list shared by the
    epoch based reclaimers, hazard pointers, hazard eras and stamp-it (property C17).

      acquire_entry()/acquire_inactive_entry() = adopt_or_create_entry(initial_state):
          result = head.load(acquire);                                   W0
          while (result) {
            if (result->state.load(relaxed) == free                      W1
                && result->state.CAS_strong(free, initial, acquire))     W2
              return result;
            result = result->next_entry;                                 (plain, not a step)
          }
          result = new T();                                              (ALLOC, part of the preceding step)
          result->state.store(initial_state, relaxed);                   A1
          h = head.load(relaxed);                                        A2
          do node->next_entry = h;                                       (plain)
          while (!head.CAS_weak(h, node, release, relaxed));             A3
      release_entry(e) = e->abandon(): state.store(free, release)        R1
      e->activate():                   state.store(active, release)      V1

    One [Step] = one atomic access; it emits the event rt/xvrt prints for it (harness/h_tbl.cpp).
    compare_exchange_weak never fails spuriously under xvrt; it is modelled as strong.

    Entries are numbered 1, 2, ... in creation (allocation) order; entry [i] is heap block [i]
    (block 0 is the list object); 0 is nullptr.  entry_state: 0 free, 1 inactive, 2 active. *)
From Coq Require Import NArith List Bool Arith.
From XV Require Import Conc.Lts Conc.Ev.
Import ListNotations.

Inductive op := OAcquire | ORelease | OAcquireInactive | OActivate.

Inductive pc :=
| Idle
| Begin (o : op)
| W0 (ini : nat)               (* LD head acq *)
| W1 (ini c : nat)             (* LD c->state rlx *)
| W2 (ini c : nat)             (* CAS c->state free -> ini, acq *)
| A1 (ini n : nat)             (* ST n->state ini rlx   (n = new T) *)
| A2 (n : nat)                 (* LD head rlx; n->next_entry = h *)
| A3 (n h : nat)               (* CAS head h -> n rel/rlx; on failure n->next_entry = seen *)
| R1                           (* ST owned->state free rel *)
| V1.                          (* ST owned->state active rel *)

(** shared memory: [head], per entry [nxt] (next_entry) and [est] (state); [nent] entries were created.
    per thread: [th] program point, [owned] the entry the thread holds between operations (0 = none).
    ghosts: [g_owner e] the thread that currently owns entry [e];
            [g_live] number of threads between the START of an acquire and the end of their release
                     (threads that want or own an entry), [g_threads] these threads, [g_peak] the maximum of [g_live];
            [g_nlinked] number of entries linked into the list, [g_rank e] the position of [e] in link
                     order (1 = oldest = last element of the list, 0 = not linked / nullptr). *)
Record state := mkSt {
  head : nat; nxt : nat -> nat; est : nat -> nat; nent : nat;
  th : nat -> pc; owned : nat -> nat;
  g_owner : nat -> option nat; g_live : nat; g_peak : nat; g_threads : list nat;
  g_nlinked : nat; g_rank : nat -> nat }.

Inductive action := Start (t : nat) (o : op) | Step (t : nat).

Definition L_head := LNamed 0 0.
Definition state_off : N := 8.      (* offsetof(entry, state); next_entry is at 0; asserted by the harness *)
Definition entry_size : N := 16.
Definition L_state (e : nat) := LHeap (N.of_nat e) state_off.
Definition vptr (e : nat) : val := if e =? 0 then VInt 0 else VPtr (LHeap (N.of_nat e) 0) 0.
Definition vst (s : nat) : val := VInt (N.of_nat s).

Definition init : state :=
  mkSt 0 (fun _ => 0) (fun _ => 0) 0 (fun _ => Idle) (fun _ => 0) (fun _ => None) 0 0 [] 0 (fun _ => 0).

Definition opcode (o : op) : N :=
  match o with OAcquire => 0%N | ORelease => 1%N | OAcquireInactive => 2%N | OActivate => 3%N end.

(** an acquire is only legal for a thread that owns no entry, release/activate for a thread that owns one *)
Definition legal (st : state) (t : nat) (o : op) : bool :=
  match o with
  | OAcquire | OAcquireInactive => owned st t =? 0
  | ORelease => negb (owned st t =? 0)
  | OActivate => negb (owned st t =? 0) && (est st (owned st t) =? 1)
  end.

(** ** state transformers *)
Definition setpc (st : state) (t : nat) (p : pc) : state :=
  mkSt (head st) (nxt st) (est st) (nent st) (upd (th st) t p) (owned st)
       (g_owner st) (g_live st) (g_peak st) (g_threads st) (g_nlinked st) (g_rank st).

(** START of an acquire: the thread becomes live *)
Definition go_live (st : state) (t : nat) (p : pc) : state :=
  mkSt (head st) (nxt st) (est st) (nent st) (upd (th st) t p) (owned st)
       (g_owner st) (S (g_live st)) (Nat.max (g_peak st) (S (g_live st))) (t :: g_threads st) (g_nlinked st) (g_rank st).

(** [new T()]: the constructor sets next_entry = nullptr, state = active *)
Definition alloc (st : state) (t : nat) (ini : nat) : state :=
  let n := S (nent st) in
  mkSt (head st) (upd (nxt st) n 0) (upd (est st) n 2) n (upd (th st) t (A1 ini n)) (owned st)
       (upd (g_owner st) n (Some t)) (g_live st) (g_peak st) (g_threads st) (g_nlinked st) (g_rank st).

Definition set_est (st : state) (t : nat) (e v : nat) (p : pc) : state :=
  mkSt (head st) (nxt st) (upd (est st) e v) (nent st) (upd (th st) t p) (owned st)
       (g_owner st) (g_live st) (g_peak st) (g_threads st) (g_nlinked st) (g_rank st).

Definition set_nxt (st : state) (t : nat) (n h : nat) (p : pc) : state :=
  mkSt (head st) (upd (nxt st) n h) (est st) (nent st) (upd (th st) t p) (owned st)
       (g_owner st) (g_live st) (g_peak st) (g_threads st) (g_nlinked st) (g_rank st).

(** successful try_adopt: the operation returns [e] *)
Definition adopt (st : state) (t : nat) (e ini : nat) : state :=
  mkSt (head st) (nxt st) (upd (est st) e ini) (nent st) (upd (th st) t Idle) (upd (owned st) t e)
       (upd (g_owner st) e (Some t)) (g_live st) (g_peak st) (g_threads st) (g_nlinked st) (g_rank st).

(** successful head CAS of add_entry: the operation returns [n] *)
Definition link (st : state) (t : nat) (n : nat) : state :=
  mkSt n (nxt st) (est st) (nent st) (upd (th st) t Idle) (upd (owned st) t n)
       (g_owner st) (g_live st) (g_peak st) (g_threads st) (S (g_nlinked st)) (upd (g_rank st) n (S (g_nlinked st))).

Definition release (st : state) (t : nat) (e : nat) : state :=
  mkSt (head st) (nxt st) (upd (est st) e 0) (nent st) (upd (th st) t Idle) (upd (owned st) t 0)
       (upd (g_owner st) e None) (pred (g_live st)) (g_peak st) (filter (fun x => negb (x =? t)) (g_threads st))
       (g_nlinked st) (g_rank st).

(** the walk moves its cursor to [c]; at the end of the list the new entry is allocated in the same step *)
Definition advance (st : state) (t : nat) (ini c : nat) (e : list ev) : state * list ev :=
  let st1 := setpc st t (W1 ini c) in
  if c =? 0 then (alloc st1 t ini, e ++ [EAlloc t (N.of_nat (S (nent st))) entry_size]) else (st1, e).

Definition ret (t : nat) (e : nat) : ev := ERet t [N.of_nat e].

Definition step (st : state) (a : action) : option (state * list ev) :=
  match a with
  | Start t o =>
    match th st t with
    | Idle => if legal st t o then Some (setpc st t (Begin o), []) else None
    | _ => None
    end
  | Step t =>
    match th st t with
    | Idle => None
    | Begin OAcquire => Some (go_live st t (W0 2), [EStart t (opcode OAcquire) []])
    | Begin OAcquireInactive => Some (go_live st t (W0 1), [EStart t (opcode OAcquireInactive) []])
    | Begin ORelease => Some (setpc st t R1, [EStart t (opcode ORelease) []])
    | Begin OActivate => Some (setpc st t V1, [EStart t (opcode OActivate) []])
    (* ---- adopt_or_create_entry ---- *)
    | W0 ini => Some (advance st t ini (head st) [ELoad t L_head mo_acq (vptr (head st))])
    | W1 ini c =>
      let e := [ELoad t (L_state c) mo_rlx (vst (est st c))] in
      if est st c =? 0 then Some (setpc st t (W2 ini c), e) else Some (advance st t ini (nxt st c) e)
    | W2 ini c =>
      if est st c =? 0 then Some (adopt st t c ini, [ERmw t (L_state c) mo_acq (vst 0) (vst ini); ret t c])
      else Some (advance st t ini (nxt st c) [ECasF t (L_state c) mo_acq mo_acq (vst (est st c)) (vst 0)])
    | A1 ini n => Some (set_est st t n ini (A2 n), [EStore t (L_state n) mo_rlx (vst ini)])
    | A2 n => Some (set_nxt st t n (head st) (A3 n (head st)), [ELoad t L_head mo_rlx (vptr (head st))])
    | A3 n h =>
      if head st =? h then Some (link st t n, [ERmw t L_head mo_rel (vptr h) (vptr n); ret t n])
      else Some (set_nxt st t n (head st) (A3 n (head st)), [ECasF t L_head mo_rel mo_rlx (vptr (head st)) (vptr h)])
    (* ---- release_entry / activate ---- *)
    | R1 => let e := owned st t in Some (release st t e, [EStore t (L_state e) mo_rel (vst 0); ret t e])
    | V1 => let e := owned st t in Some (set_est st t e 2 Idle, [EStore t (L_state e) mo_rel (vst 2); ret t e])
    end
  end.
