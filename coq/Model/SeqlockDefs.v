(** Step-level model of xenium::seqlock (seqlock.hpp).  One [Step] = one atomic access or fence of
    the C++ code (plus a START step per invocation).  A value of type T is its list of [words]
    64-bit words (the last one zero padded, as store_data does).  No proofs in this file. *)
From Coq Require Import NArith List Bool.
From XV Require Import Base.Word Conc.Lts Conc.Ev.
Import ListNotations.
Local Open Scope N_scope.

Inductive op := OLoad | OStore (id : N) (v : list N) | OUpdate (d : N).   (* [id] only labels the invocation *)

Inductive pc :=
| Idle
| Begin (o : op)
(* load *)
| Ld1                                        (* LD seq acq *)
| LdSpin                                     (* slots = 1: LD seq acq while a write is pending *)
| LdW (q idx : N) (i : nat) (buf : list N)   (* LD data[idx][i] rlx *)
| LdF (q : N) (buf : list N)                 (* FENCE acq *)
| Ld3 (q : N) (buf : list N)                 (* LD seq acq; compare *)
(* acquire_lock *)
| Aq1 (o : op)                               (* LD seq rlx *)
| AqSpin (o : op)                            (* LD seq rlx while a write is pending *)
| AqCas (o : op) (q : N)                     (* CAS seq q -> q+1 acq/rlx *)
(* store_data + release_lock *)
| StF (q idx : N) (v : list N)               (* FENCE rel *)
| StW (q idx : N) (i : nat) (v : list N)     (* ST data[idx][i] rlx *)
| Rel (q : N) (v : list N)                   (* ST seq rel q+2 *)
(* update: read_data of the current slot under the lock *)
| UpR (q idx : N) (i : nat) (buf : list N) (d : N)   (* LD data[idx][i] rlx *)
| UpF (q idx : N) (buf : list N) (d : N).            (* FENCE acq, then func, then store_data *)

(** [g_hist]: ghost list of all values ever published, oldest first; version k (= seq/2) is [nth k g_hist] *)
Record state := mkSt { seq : N; data : N -> nat -> N; th : nat -> pc; g_hist : list (list N) }.

Inductive action := Start (t : nat) (o : op) | Step (t : nat).

Section Seqlock.
  Variable slots : N.        (* >= 1 *)
  Variable words : nat.      (* >= 1 : ceil(sizeof(T)/8) *)
  Variable func : N -> list N -> list N.   (* the update functor, indexed by the operation's argument *)
  Variable v0 : list N.      (* initial value (slot 0) *)

  Definition odd (q : N) : bool := negb (N.land q 1 =? 0).
  Definition L_seq := LNamed 0 0.
  Definition L_data (idx : N) (i : nat) := LNamed 1 (idx * (8 * N.of_nat words) + 8 * N.of_nat i).

  Definition init : state :=
    mkSt 0 (fun idx i => if idx =? 0 then nth i v0 0 else 0) (fun _ => Idle) [v0].

  (** where a load continues once it holds a sequence value [q] *)
  Definition ld_next (q : N) : pc :=
    if slots =? 1 then (if odd q then LdSpin else LdW q 0 0 [])
    else let s := wshr q 1 in LdW (wshl 64 s 1) (wmod s slots) 0 [].

  Definition aq_next (o : op) (q : N) : pc := if odd q then AqSpin o else AqCas o q.

  (** after the lock is taken at even [q] (sequence is now q+1) *)
  Definition locked_next (o : op) (q : N) : pc :=
    let s := wshr (wadd 64 q 1) 1 in
    match o with
    | OStore _ v => StF q (wmod (wadd 64 s 1) slots) v
    | OUpdate d => UpR q (wmod s slots) 0 [] d
    | OLoad => Idle
    end.

  Definition setd (d : N -> nat -> N) (idx : N) (i : nat) (x : N) : N -> nat -> N :=
    fun idx' i' => if andb (idx' =? idx) (Nat.eqb i' i) then x else d idx' i'.

  Definition opcode (o : op) : N * list N :=
    match o with OLoad => (0, []) | OStore id _ => (1, [id]) | OUpdate d => (2, [d]) end.

  Definition step (st : state) (a : action) : option (state * list ev) :=
    match a with
    | Start t o =>
      match th st t with
      | Idle => Some (mkSt (seq st) (data st) (upd (th st) t (Begin o)) (g_hist st), [])
      | _ => None
      end
    | Step t =>
      let go (p : pc) (e : list ev) := Some (mkSt (seq st) (data st) (upd (th st) t p) (g_hist st), e) in
      match th st t with
      | Idle => None
      | Begin o =>
        let '(c, args) := opcode o in
        go (match o with OLoad => Ld1 | _ => Aq1 o end) [EStart t c args]
      (* ---- load ---- *)
      | Ld1 => go (ld_next (seq st)) [ELoad t L_seq mo_acq (VInt (seq st))]
      | LdSpin => go (ld_next (seq st)) [ELoad t L_seq mo_acq (VInt (seq st))]
      | LdW q idx i buf =>
        let x := data st idx i in
        let buf' := buf ++ [x] in
        go (if Nat.eqb (S i) words then LdF q buf' else LdW q idx (S i) buf') [ELoad t (L_data idx i) mo_rlx (VInt x)]
      | LdF q buf => go (Ld3 q buf) [EFence t mo_acq]
      | Ld3 q buf =>
        let q2 := seq st in
        let e := [ELoad t L_seq mo_acq (VInt q2)] in
        if wsub 64 q2 q <? wsub 32 (wmul 32 2 slots) 1
        then Some (mkSt (seq st) (data st) (upd (th st) t Idle) (g_hist st), e ++ [ERet t buf])
        else go (ld_next q2) e
      (* ---- acquire_lock ---- *)
      | Aq1 o => go (aq_next o (seq st)) [ELoad t L_seq mo_rlx (VInt (seq st))]
      | AqSpin o => go (aq_next o (seq st)) [ELoad t L_seq mo_rlx (VInt (seq st))]
      | AqCas o q =>
        if seq st =? q then
          Some (mkSt (wadd 64 q 1) (data st) (upd (th st) t (locked_next o q)) (g_hist st),
                [ERmw t L_seq mo_acq (VInt q) (VInt (wadd 64 q 1))])
        else go (aq_next o (seq st)) [ECasF t L_seq mo_acq mo_rlx (VInt (seq st)) (VInt q)]
      (* ---- store_data / release_lock ---- *)
      | StF q idx v => go (StW q idx 0 v) [EFence t mo_rel]
      | StW q idx i v =>
        let x := nth i v 0 in
        Some (mkSt (seq st) (setd (data st) idx i x) (upd (th st) t (if Nat.eqb (S i) words then Rel q v else StW q idx (S i) v)) (g_hist st),
              [EStore t (L_data idx i) mo_rlx (VInt x)])
      | Rel q v =>
        Some (mkSt (wadd 64 q 2) (data st) (upd (th st) t Idle) (g_hist st ++ [v]),
              [EStore t L_seq mo_rel (VInt (wadd 64 q 2)); ERet t []])
      (* ---- update ---- *)
      | UpR q idx i buf d =>
        let x := data st idx i in
        let buf' := buf ++ [x] in
        go (if Nat.eqb (S i) words then UpF q idx buf' d else UpR q idx (S i) buf' d) [ELoad t (L_data idx i) mo_rlx (VInt x)]
      | UpF q idx buf d => go (StF q (wmod (wadd 64 idx 1) slots) (func d buf)) [EFence t mo_acq]
      end
    end.
End Seqlock.

(** the byte pattern used by the harness: value v of a [size]-byte T has byte j = (31 v + j) mod 256 *)
Definition pat_byte (v j : N) : N := (31 * v + j) mod 256.
Fixpoint pat_word_from (v base : N) (n : nat) (size : N) : N :=
  match n with
  | O => 0
  | S n' => (if base <? size then pat_byte v base else 0) + 256 * pat_word_from v (base + 1) n' size
  end.
Definition pat_words (size : N) (nwords : nat) (v : N) : list N :=
  map (fun i => pat_word_from v (8 * N.of_nat i) 8 size) (List.seq 0 nwords).
(** decode: the harness searches v in 0..4095 whose pattern matches all bytes *)
Fixpoint pat_find (size : N) (nwords : nat) (ws : list N) (fuel : nat) (v : N) : option N :=
  match fuel with
  | O => None
  | S f => if forallb (fun p => fst p =? snd p) (combine (pat_words size nwords v) ws) then Some v else pat_find size nwords ws f (v + 1)
  end.
Definition pat_func (size : N) (nwords : nat) (d : N) (ws : list N) : list N :=
  match pat_find size nwords ws 4096 0 with
  | Some v => pat_words size nwords (v + d)
  | None => pat_words size nwords 4095
  end.
