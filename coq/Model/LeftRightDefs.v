(** Step-level model of xenium::left_right (left_right.hpp) with T = {x; y}.  An update functor
    adds d to x and then to y (two steps), a read functor copies x and then y (two steps), so that
    mutual exclusion between readers and the writer on one instance is observable.
    One [Step] = one atomic access / mutex operation / sched_yield / plain functor step. *)
From Coq Require Import NArith List Bool.
From XV Require Import Base.Word Conc.Lts Conc.Ev.
Import ListNotations.
Local Open Scope N_scope.

Inductive op := ORead | OUpdate (d : N).

(** instance 0 = left, 1 = right; READ_LEFT = 0 *)
Record shared := mkSh {
  mutex : option nat; version : N; lr : N; ind0 : N; ind1 : N;
  lx : N; ly : N; rx : N; ry : N }.

Inductive pc :=
| Idle
| Begin (o : op)
(* read *)
| R1                          (* LD version rlx *)
| R2 (v : N)                  (* RMW ind[v] +1 sc (arrive) *)
| R3 (v : N)                  (* LD lr sc *)
| R4 (v i : N)                (* plain read inst[i].x *)
| R5 (v i x : N)              (* plain read inst[i].y *)
| R6 (v x y : N)              (* RMW ind[v] -1 rel (depart); return *)
(* update *)
| U0 (d : N)                  (* LOCK *)
| U1 (d : N)                  (* LD lr rlx *)
| U2 (d l : N)                (* plain write inst[1-l].x *)
| U3 (d l : N)                (* plain write inst[1-l].y *)
| U4 (d l : N)                (* ST lr sc (1-l) *)
| U5 (d l : N)                (* LD version rlx *)
| U6 (d l cv : N)             (* LD ind[(cv+1)&1] sc *)
| U6y (d l cv : N)            (* sched_yield *)
| U7 (d l cv : N)             (* ST version rlx (cv+1)&1 *)
| U8 (d l cv : N)             (* LD ind[cv&1] sc *)
| U8y (d l cv : N)            (* sched_yield *)
| U9 (d l : N)                (* plain write inst[l].x *)
| U10 (d l : N)               (* plain write inst[l].y *)
| U11.                        (* UNLOCK; return *)

(** ghost: [g_updates] = arguments of the updates that passed their indicator switch (U4), in order *)
Record state := mkSt { sh : shared; th : nat -> pc; g_updates : list N }.

Inductive action := Start (t : nat) (o : op) | Step (t : nat).

Definition get_ind (s : shared) (i : N) : N := if i =? 0 then ind0 s else ind1 s.
Definition set_ind (s : shared) (i v : N) : shared :=
  if i =? 0 then mkSh (mutex s) (version s) (lr s) v (ind1 s) (lx s) (ly s) (rx s) (ry s)
  else mkSh (mutex s) (version s) (lr s) (ind0 s) v (lx s) (ly s) (rx s) (ry s).
Definition get_x (s : shared) (i : N) : N := if i =? 0 then lx s else rx s.
Definition get_y (s : shared) (i : N) : N := if i =? 0 then ly s else ry s.
Definition set_x (s : shared) (i v : N) : shared :=
  if i =? 0 then mkSh (mutex s) (version s) (lr s) (ind0 s) (ind1 s) v (ly s) (rx s) (ry s)
  else mkSh (mutex s) (version s) (lr s) (ind0 s) (ind1 s) (lx s) (ly s) v (ry s).
Definition set_y (s : shared) (i v : N) : shared :=
  if i =? 0 then mkSh (mutex s) (version s) (lr s) (ind0 s) (ind1 s) (lx s) v (rx s) (ry s)
  else mkSh (mutex s) (version s) (lr s) (ind0 s) (ind1 s) (lx s) (ly s) (rx s) v.
Definition set_mutex (s : shared) (m : option nat) : shared := mkSh m (version s) (lr s) (ind0 s) (ind1 s) (lx s) (ly s) (rx s) (ry s).
Definition set_lr (s : shared) (v : N) : shared := mkSh (mutex s) (version s) v (ind0 s) (ind1 s) (lx s) (ly s) (rx s) (ry s).
Definition set_version (s : shared) (v : N) : shared := mkSh (mutex s) v (lr s) (ind0 s) (ind1 s) (lx s) (ly s) (rx s) (ry s).

Definition L_mutex := LNamed 0 0.
Definition L_version := LNamed 1 0.
Definition L_lr := LNamed 2 0.
Definition L_ind (i : N) := if i =? 0 then LNamed 3 0 else LNamed 4 0.

(** ENote codes: 100 LOCK, 101 UNLOCK, 102 SCHED_YIELD, 110 PR inst field value, 111 PW inst field value *)
Definition n_lock t := ENote t 100 [].
Definition n_unlock t := ENote t 101 [].
Definition n_yield t := ENote t 102 [].
Definition n_pr t (i f v : N) := ENote t 110 [i; f; v].
Definition n_pw t (i f v : N) := ENote t 111 [i; f; v].

Definition init : state := mkSt (mkSh None 0 0 0 0 0 0 0 0) (fun _ => Idle) [].

Definition other (l : N) : N := if l =? 0 then 1 else 0.

Definition step (st : state) (a : action) : option (state * list ev) :=
  match a with
  | Start t o =>
    match th st t with
    | Idle => Some (mkSt (sh st) (upd (th st) t (Begin o)) (g_updates st), [])
    | _ => None
    end
  | Step t =>
    let s := sh st in
    let go (s' : shared) (p : pc) (e : list ev) := Some (mkSt s' (upd (th st) t p) (g_updates st), e) in
    let fin (s' : shared) (r : list N) (e : list ev) := Some (mkSt s' (upd (th st) t Idle) (g_updates st), e ++ [ERet t r]) in
    match th st t with
    | Idle => None
    | Begin o =>
      match o with
      | ORead => go s R1 [EStart t 0 []]
      | OUpdate d => go s (U0 d) [EStart t 1 [d]]
      end
    (* ---- read ---- *)
    | R1 => go s (R2 (N.land (version s) 1)) [ELoad t L_version mo_rlx (VInt (version s))]
    | R2 v =>
      let c := get_ind s v in
      go (set_ind s v (wadd 64 c 1)) (R3 v) [ERmw t (L_ind v) mo_sc (VInt c) (VInt (wadd 64 c 1))]
    | R3 v => go s (R4 v (lr s)) [ELoad t L_lr mo_sc (VInt (lr s))]
    | R4 v i => go s (R5 v i (get_x s i)) [n_pr t i 0 (get_x s i)]
    | R5 v i x => go s (R6 v x (get_y s i)) [n_pr t i 1 (get_y s i)]
    | R6 v x y =>
      let c := get_ind s v in
      fin (set_ind s v (wsub 64 c 1)) [x; y] [ERmw t (L_ind v) mo_rel (VInt c) (VInt (wsub 64 c 1))]
    (* ---- update ---- *)
    | U0 d =>
      match mutex s with
      | None => go (set_mutex s (Some t)) (U1 d) [n_lock t]
      | Some _ => None     (* blocked *)
      end
    | U1 d => go s (U2 d (lr s)) [ELoad t L_lr mo_rlx (VInt (lr s))]
    | U2 d l => let i := other l in let v := wadd 64 (get_x s i) d in go (set_x s i v) (U3 d l) [n_pw t i 0 v]
    | U3 d l => let i := other l in let v := wadd 64 (get_y s i) d in go (set_y s i v) (U4 d l) [n_pw t i 1 v]
    | U4 d l =>
      Some (mkSt (set_lr s (other l)) (upd (th st) t (U5 d l)) (g_updates st ++ [d]), [EStore t L_lr mo_sc (VInt (other l))])
    | U5 d l => go s (U6 d l (version s)) [ELoad t L_version mo_rlx (VInt (version s))]
    | U6 d l cv =>
      let i := N.land (wadd 32 cv 1) 1 in
      let c := get_ind s i in
      go s (if c =? 0 then U7 d l cv else U6y d l cv) [ELoad t (L_ind i) mo_sc (VInt c)]
    | U6y d l cv => go s (U6 d l cv) [n_yield t]
    | U7 d l cv =>
      let i := N.land (wadd 32 cv 1) 1 in
      go (set_version s i) (U8 d l cv) [EStore t L_version mo_rlx (VInt i)]
    | U8 d l cv =>
      let i := N.land cv 1 in
      let c := get_ind s i in
      go s (if c =? 0 then U9 d l else U8y d l cv) [ELoad t (L_ind i) mo_sc (VInt c)]
    | U8y d l cv => go s (U8 d l cv) [n_yield t]
    | U9 d l => let v := wadd 64 (get_x s l) d in go (set_x s l v) (U10 d l) [n_pw t l 0 v]
    | U10 d l => let v := wadd 64 (get_y s l) d in go (set_y s l v) U11 [n_pw t l 1 v]
    | U11 => fin (set_mutex s None) [] [n_unlock t]
    end
  end.
