(** Step-level model of xenium::harris_michael_list_based_set<long, reclaimer<GC>>
    (harris_michael_list_based_set.hpp: find / contains / emplace_or_get / erase(key)) over a
    reclaimer whose guard acquisition is one atomic load and whose reclaimed nodes are never reused
    (what C01 guarantees to the container; harness/gc_reclaimer.hpp).  One [Step] = one atomic access.

    Heap blocks: block 0 is the set object (its only field [head] is at offset 0), nodes are blocks
    1, 2, ... in allocation order ([sizeof(node) = 32], [offsetof(node, next) = 24]).  A pointer is a
    block number, 0 = nullptr.

    A [concurrent_ptr* prev] of the C++ code is either [&head] or [&save->next] for the node [save]
    the thread holds a guard on (the assertion at the top of [find]); we therefore represent [prev]
    by the node [save], with [save = 0] standing for [&head]: "node 0" is a sentinel whose next field
    is the head pointer ([head st = nnext st 0]); it carries no key and is never marked.

    The mark bit of [marked_ptr<node, 1>] is bit 63 of the word (marked_ptr.hpp: marks live in the
    16 upper bits); xvrt prints the 16 upper bits of a pointer after [^], i.e. a marked pointer to
    block p prints as [&hp+0^32768] and a marked null pointer as the integer 2^63. *)
From Coq Require Import NArith List Bool.
From XV Require Import Base.Word Conc.Lts Conc.Ev.
Import ListNotations.
Local Open Scope N_scope.

Inductive op := OIns (k : N) | ODel (k : N) | OHas (k : N).

(** what the internal [find] was called for: [KIns n] by emplace_or_get (n = the new node),
    [KDel] by erase before the mark CAS, [KDel2] by erase after a failed unlink CAS (result ignored),
    [KHas] by contains *)
Inductive fk := KIns (n : N) | KDel | KDel2 | KHas.

(** program points; [key] = searched key, [start] = start_guard (0 = &head), [sv] = info.save
    (0: info.prev = &head, otherwise info.prev = &sv->next), [cur] = info.cur, [nx] = info.next *)
Inductive pc :=
| Idle
| Begin (o : op)
(* find(key, info, backoff) *)
| F1 (c : fk) (key start : N)              (* retry: info.next = prev->load(rlx); marked -> restart from head *)
| F2 (c : fk) (key start sv nx : N)        (* (5) cur.acquire_if_equal(prev, next, acq): one acq load of prev *)
| F3 (c : fk) (key start sv cur : N)       (* info.next = cur->next.load(rlx) *)
| F4 (c : fk) (key start sv cur : N)       (* (6) info.next = cur->next.load(acq).get() *)
| F5 (c : fk) (key start sv cur nx : N)    (* (7) CAS prev: cur -> next rel/rlx (help unlinking); reclaim cur *)
| F6 (c : fk) (key start sv cur nx : N)    (* prev->load(rlx) != cur -> retry; key comparison *)
(* emplace_or_get *)
| E1 (n key sv cur : N)                    (* n->next.store(cur, rlx) *)
| E2 (n key sv cur : N)                    (* (8) CAS prev: cur -> n rel/rlx (link) *)
(* erase(key) *)
| D1 (key sv cur nx : N)                   (* (9) CAS cur->next: next -> (next, mark) acq/rlx (logical removal) *)
| D2 (key sv cur nx : N).                  (* (10) CAS prev: cur -> next rel/rlx (unlink); reclaim cur *)

(** linearization events of the mutating operations: node [n] with key [k] linked / marked by thread [t] *)
Inductive lev := LIns (t : nat) (k n : N) | LDel (t : nat) (k n : N).

(** a completed operation: thread, operation, result, and [h_wit]: was the key in the abstract set at
    the linearization point of the operation (as recorded in [g_lp] during the call) *)
Record hrec := mkH { h_t : nat; h_op : op; h_res : bool; h_wit : option bool }.

(** ghosts:
    [g_abs]     the abstract set; changed exactly at the successful link CAS (E2) and at the
                successful mark CAS (D1);
    [g_lin]     the successful mutating operations in the order of their linearization points;
    [g_lp t]    membership of the key of thread t's current operation in [g_abs] at its latest
                candidate linearization point:
                - the F3 load that finds [cur] unmarked with [cur->key = key]  (find returning true),
                - the last load of a find that returns false (F2 reading null, or the F6 validation),
                - the successful link CAS E2, the successful mark CAS D1;
    [g_hist]    completed operations with result and [g_lp] at the return;
    [g_retired] nodes passed to [reclaim], in order. *)
Record state := mkSt {
  nkey : N -> N; nnext : N -> N; nmark : N -> bool; nalloc : N; th : nat -> pc;
  g_abs : list N; g_lin : list lev; g_lp : nat -> option bool; g_hist : list hrec; g_retired : list N }.

Definition head (st : state) : N := nnext st 0.

Inductive action := Start (t : nat) (o : op) | Step (t : nat).

Definition next_off : N := 24.     (* offsetof(node, next) *)
Definition node_size : N := 32.
Definition L_next (x : N) : loc := if x =? 0 then LHeap 0 0 else LHeap x next_off.
Definition mark_upper : N := 32768.                     (* bit 63 = bit 15 of the upper 16 bits *)
Definition mark_null : N := 9223372036854775808.        (* 2^63 *)
Definition vmp (p : N) (m : bool) : val :=
  if p =? 0 then VInt (if m then mark_null else 0) else VPtr (LHeap p 0) (if m then mark_upper else 0).
Definition vnext (st : state) (x : N) : val := vmp (nnext st x) (nmark st x).

Definition init : state :=
  mkSt (fun _ => 0) (fun _ => 0) (fun _ => false) 1 (fun _ => Idle) [] [] (fun _ => None) [] [].

Definition setf {X : Type} (f : N -> X) (i : N) (v : X) : N -> X := fun j => if j =? i then v else f j.

Definition memb (k : N) (l : list N) : bool := existsb (N.eqb k) l.
Definition remk (k : N) (l : list N) : list N := filter (fun j => negb (j =? k)) l.

Definition apply_lev (s : list N) (e : lev) : list N :=
  match e with LIns _ k _ => k :: s | LDel _ k _ => remk k s end.
Definition apply_lin (l : list lev) : list N := fold_left apply_lev l [].

Definition op_of (c : fk) (key : N) : op :=
  match c with KIns _ => OIns key | KDel | KDel2 => ODel key | KHas => OHas key end.
Definition is_del2 (c : fk) : bool := match c with KDel2 => true | _ => false end.

(** results: [ERet t [o; b]], o = 0 ins (1 new / 0 old), 1 del (1 ok / 0 no), 2 has (1 yes / 0 no) *)
Definition op_code (o : op) : N := match o with OIns _ => 0 | ODel _ => 1 | OHas _ => 2 end.
Definition b2n (b : bool) : N := if b then 1 else 0.

(** state transformers *)
Definition set_pc (st : state) (t : nat) (p : pc) : state :=
  mkSt (nkey st) (nnext st) (nmark st) (nalloc st) (upd (th st) t p)
       (g_abs st) (g_lin st) (g_lp st) (g_hist st) (g_retired st).
Definition set_pc_lp (st : state) (t : nat) (p : pc) (w : option bool) : state :=
  mkSt (nkey st) (nnext st) (nmark st) (nalloc st) (upd (th st) t p)
       (g_abs st) (g_lin st) (upd (g_lp st) t w) (g_hist st) (g_retired st).
(** return of operation [o] with result [r] and witness [w] *)
Definition ret_st (st : state) (t : nat) (o : op) (r : bool) (w : option bool) : state :=
  mkSt (nkey st) (nnext st) (nmark st) (nalloc st) (upd (th st) t Idle)
       (g_abs st) (g_lin st) (upd (g_lp st) t w) (g_hist st ++ [mkH t o r w]) (g_retired st).
(** successful unlink CAS [sv->next: cur -> nx] followed by [cur.reclaim()] *)
Definition unlink_st (st : state) (sv cur nx : N) : state :=
  mkSt (nkey st) (setf (nnext st) sv nx) (nmark st) (nalloc st) (th st)
       (g_abs st) (g_lin st) (g_lp st) (g_hist st) (g_retired st ++ [cur]).

Definition ret_ev (t : nat) (o : op) (r : bool) : ev := ERet t [op_code o; b2n r].

(** what happens when [find] returns [found] with info = (sv, cur, nx); [e] = events of the last access *)
Definition find_ret (st : state) (t : nat) (c : fk) (key sv cur nx : N) (found : bool) (e : list ev)
  : option (state * list ev) :=
  let w := if found then g_lp st t else Some (memb key (g_abs st)) in
  match c with
  | KIns n =>
    if found then Some (ret_st st t (OIns key) false w, e ++ [EFree t n; ret_ev t (OIns key) false])   (* delete n *)
    else Some (set_pc_lp st t (E1 n key sv cur) w, e)
  | KDel =>
    if found then Some (set_pc st t (D1 key sv cur nx), e)
    else Some (ret_st st t (ODel key) false w, e ++ [ret_ev t (ODel key) false])
  | KDel2 => Some (ret_st st t (ODel key) true (g_lp st t), e ++ [ret_ev t (ODel key) true])
  | KHas => Some (ret_st st t (OHas key) found w, e ++ [ret_ev t (OHas key) found])
  end.

Definition step (st : state) (a : action) : option (state * list ev) :=
  match a with
  | Start t o =>
    match th st t with
    | Idle => Some (set_pc st t (Begin o), [])
    | _ => None
    end
  | Step t =>
    let go (p : pc) (e : list ev) := Some (set_pc st t p, e) in
    match th st t with
    | Idle => None
    | Begin (OIns k) =>
      let n := nalloc st in
      Some (mkSt (setf (nkey st) n k) (setf (nnext st) n 0) (setf (nmark st) n false) (n + 1)
                 (upd (th st) t (F1 (KIns n) k 0))
                 (g_abs st) (g_lin st) (upd (g_lp st) t None) (g_hist st) (g_retired st),
            [EStart t 0 [k]; EAlloc t n node_size])
    | Begin (ODel k) => Some (set_pc_lp st t (F1 KDel k 0) None, [EStart t 1 [k]])
    | Begin (OHas k) => Some (set_pc_lp st t (F1 KHas k 0) None, [EStart t 2 [k]])
    (* ---- find ---- *)
    | F1 c key start =>
      let e := [ELoad t (L_next start) mo_rlx (vnext st start)] in
      if nmark st start then go (F1 c key 0) e
      else go (F2 c key start start (nnext st start)) e
    | F2 c key start sv nx =>
      let e := [ELoad t (L_next sv) mo_acq (vnext st sv)] in
      if negb ((nnext st sv =? nx) && negb (nmark st sv)) then go (F1 c key start) e
      else if nx =? 0 then find_ret st t c key sv 0 0 false e
      else go (F3 c key start sv nx) e
    | F3 c key start sv cur =>
      let e := [ELoad t (L_next cur) mo_rlx (vnext st cur)] in
      if nmark st cur then go (F4 c key start sv cur) e
      else if (nkey st cur =? key) && negb (is_del2 c)
           then Some (set_pc_lp st t (F6 c key start sv cur (nnext st cur)) (Some (memb key (g_abs st))), e)
           else go (F6 c key start sv cur (nnext st cur)) e
    | F4 c key start sv cur =>
      go (F5 c key start sv cur (nnext st cur)) [ELoad t (L_next cur) mo_acq (vnext st cur)]
    | F5 c key start sv cur nx =>
      if (nnext st sv =? cur) && negb (nmark st sv) then
        Some (set_pc (unlink_st st sv cur nx) t (F2 c key start sv nx),
              [ERmw t (L_next sv) mo_rel (vmp cur false) (vmp nx false); ENote t 120 [cur]])
      else go (F1 c key start) [ECasF t (L_next sv) mo_rel mo_rlx (vnext st sv) (vmp cur false)]
    | F6 c key start sv cur nx =>
      let e := [ELoad t (L_next sv) mo_rlx (vnext st sv)] in
      if negb ((nnext st sv =? cur) && negb (nmark st sv)) then go (F1 c key start) e
      else if nkey st cur <? key then go (F2 c key start cur nx) e
      else find_ret st t c key sv cur nx (nkey st cur =? key) e
    (* ---- emplace_or_get ---- *)
    | E1 n key sv cur =>
      Some (mkSt (nkey st) (setf (nnext st) n cur) (nmark st) (nalloc st) (upd (th st) t (E2 n key sv cur))
                 (g_abs st) (g_lin st) (g_lp st) (g_hist st) (g_retired st),
            [EStore t (L_next n) mo_rlx (vmp cur false)])
    | E2 n key sv cur =>
      if (nnext st sv =? cur) && negb (nmark st sv) then
        let w := Some (memb key (g_abs st)) in
        Some (mkSt (nkey st) (setf (nnext st) sv n) (nmark st) (nalloc st) (upd (th st) t Idle)
                   (key :: g_abs st) (g_lin st ++ [LIns t key n]) (upd (g_lp st) t w)
                   (g_hist st ++ [mkH t (OIns key) true w]) (g_retired st),
              [ERmw t (L_next sv) mo_rel (vmp cur false) (vmp n false); ret_ev t (OIns key) true])
      else go (F1 (KIns n) key sv) [ECasF t (L_next sv) mo_rel mo_rlx (vnext st sv) (vmp cur false)]
    (* ---- erase ---- *)
    | D1 key sv cur nx =>
      if (nnext st cur =? nx) && negb (nmark st cur) then
        Some (mkSt (nkey st) (nnext st) (setf (nmark st) cur true) (nalloc st) (upd (th st) t (D2 key sv cur nx))
                   (remk key (g_abs st)) (g_lin st ++ [LDel t key cur]) (upd (g_lp st) t (Some (memb key (g_abs st))))
                   (g_hist st) (g_retired st),
              [ERmw t (L_next cur) mo_acq (vmp nx false) (vmp nx true)])
      else go (F1 KDel key sv) [ECasF t (L_next cur) mo_acq mo_rlx (vnext st cur) (vmp nx false)]
    | D2 key sv cur nx =>
      if (nnext st sv =? cur) && negb (nmark st sv) then
        Some (ret_st (unlink_st st sv cur nx) t (ODel key) true (g_lp st t),
              [ERmw t (L_next sv) mo_rel (vmp cur false) (vmp nx false); ENote t 120 [cur]; ret_ev t (ODel key) true])
      else go (F1 KDel2 key sv) [ECasF t (L_next sv) mo_rel mo_rlx (vnext st sv) (vmp cur false)]
    end
  end.
