(** Step-level model of xenium::kirsch_bounded_kfifo_queue<T*> (kirsch_bounded_kfifo_queue.hpp):
    a ring of [k * segs] slots, head / tail = (start index of a segment, version tag) words,
    [try_push] and [pop] (= [do_pop]) with [find_index], [committed], [queue_full], [segment_empty],
    [in_valid_region], [not_in_valid_region].  One [Step] = one atomic access of the C++ code; the
    "random" start offset of [find_index] ([utils::random()]) is the oracle argument of the step
    that precedes the scan (the runtime prints it as a CHOICE line after the second load).

    Tags.  The model keeps the version tags of head / tail / slots as unbounded numbers; the events
    print them as the code stores them (head / tail tag in the upper 32 bits through the GENERATED
    [mk_idx], slot tag in the upper 16 bits of the pointer word).  Model and code therefore differ
    only in executions in which a thread sleeps across 2^16 changes of one slot or 2^32 changes of
    head / tail and then compares a word (ABA through tag wrap-around).

    Values.  The queue stores pointers: the harness allocates one token per push (heap block [b],
    payload [bval b]); block 0 is the queue object, block 1 the slot array, 0 = nullptr.

    Ghosts: [g_in] pointers whose insertion was finally committed, in commit order (a pop that takes
    a value whose pusher is still inside [committed] commits it); [g_out] pointers taken by pops;
    [g_ok] pointers whose [try_push] returned true; [g_hist j] the history of slot [j];
    [g_nch] number of random draws so far. *)
From Coq Require Import NArith List Bool.
From XV Require Import Base.Word Conc.Lts Conc.Ev gen.KirschIdxGen.
Import ListNotations.
Local Open Scope N_scope.

Inductive op := OPush (v : N) | OPop.

Definition iw := (N * N)%type.   (* head / tail word: (index, tag) *)
Definition sw := (N * N)%type.   (* slot word: (pointer = token block or 0, tag) *)

Inductive pc :=
| Idle
| Begin (o : op)
(* try_push *)
| P1 (b : N)                              (* LD _tail rlx *)
| P2 (b : N) (tl : iw)                    (* LD _head rlx; random() *)
| PF (b : N) (tl hd : iw) (ri i : N)      (* find_index<true>: LD slot acq *)
| P3 (b : N) (tl : iw) (j otag : N)       (* found: LD _tail rlx (re-check) *)
| P3n (b : N) (tl hd : iw)                (* not found: LD _tail rlx (re-check); queue_full, first conjunct *)
| P4 (b : N) (tl : iw) (j otag : N)       (* CAS slot (null,otag) -> (b,otag+1) rel/rlx *)
| PQ (b : N) (tl hd : iw)                 (* queue_full: LD _head rlx *)
| PS (b : N) (tl hd : iw) (i : N)         (* segment_empty: LD slot acq *)
| PHC (b : N) (tl hd : iw)                (* CAS _head hd -> (hd+k, tag+1) rlx *)
| PH (b : N) (tl hd : iw)                 (* LD _head rlx; == hd: full *)
| PT (b : N) (tl : iw)                    (* CAS _tail tl -> (tl+k, tag+1) rlx *)
(* committed(tl, (b,tg), j) *)
| C1 (b : N) (tl : iw) (j tg : N)         (* LD slot rlx; != value: true *)
| C2 (b : N) (tl : iw) (j tg : N)         (* LD _head rlx *)
| C3 (b : N) (tl : iw) (j tg : N) (hc : iw)      (* LD _tail rlx *)
| C4 (b : N) (tl : iw) (j tg : N) (hc tc : iw)   (* LD _head rlx (head_check); decide *)
| C5 (b : N) (tl : iw) (j tg : N) (hc : iw)      (* CAS _head hc -> (hc, tag+1) rlx *)
| C6 (b : N) (j tg : N)                   (* CAS slot (b,tg) -> (null,tg+1) rlx (take back) *)
(* do_pop *)
| D1                                      (* LD _head rlx *)
| D2 (hd : iw)                            (* LD _tail rlx; random() *)
| DF (hd tl : iw) (ri i : N)              (* find_index<false>: LD slot acq *)
| D3 (hd tl : iw) (j p tg : N)            (* found: LD _head rlx (re-check) *)
| D3n (hd tl : iw)                        (* not found: LD _head rlx (re-check) *)
| DT (hd tl : iw) (j p tg : N)            (* CAS _tail tl -> (tl+k, tag+1) rlx *)
| D4 (hd : iw) (j p tg : N)               (* CAS slot (p,tg) -> (null,tg+1) rel/rlx *)
| DE (hd tl : iw)                         (* LD _tail rlx; == tl: empty *)
| DH (hd : iw).                           (* CAS _head hd -> (hd+k, tag+1) rlx *)

Inductive hev := HIns (b : N) | HBack (b : N) | HTake (b : N).

Record state := mkSt {
  head : iw; tail : iw; slot : N -> sw; bval : N -> N; nalloc : N; th : nat -> pc;
  g_in : list N; g_out : list N; g_ok : list N; g_hist : N -> list hev; g_nch : N }.

(** [Step t r]: thread t performs its next atomic access; [r] is the value of the recorded choice
    (used only by the steps that call [utils::random()]) *)
Inductive action := Start (t : nat) (o : op) | Step (t : nat) (r : N).

Definition L_head := LHeap 0 16.
Definition L_tail := LHeap 0 24.
Definition entry_size : N := 16.          (* sizeof(padded_entry), padding_bytes = 8 *)
Definition L_slot (j : N) := LHeap 1 (entry_size * j).
Definition tok_size : N := 8.

(** printed words *)
Definition iwv (w : iw) : val := VInt (mk_idx (fst w) (snd w)).
Definition swv (w : sw) : val :=
  if fst w =? 0 then VInt ((snd w mod 2 ^ 16) * 2 ^ 48) else VPtr (LHeap (fst w) 0) (snd w mod 2 ^ 16).

Definition iw_eqb (a b : iw) : bool := (fst a =? fst b) && (snd a =? snd b).
Definition sw_eqb (a b : sw) : bool := (fst a =? fst b) && (snd a =? snd b).

Definition setf {X : Type} (f : N -> X) (i : N) (v : X) : N -> X := fun j => if j =? i then v else f j.

Definition mem (b : N) (l : list N) : bool := existsb (N.eqb b) l.
Definition commit (b : N) (l : list N) : list N := if mem b l then l else l ++ [b].

Definition init : state :=
  mkSt (0, 0) (0, 0) (fun _ => (0, 0)) (fun _ => 0) 2 (fun _ => Idle) [] [] [] (fun _ => []) 0.

(** state updates *)
Definition set_th (st : state) (t : nat) (p : pc) : state :=
  mkSt (head st) (tail st) (slot st) (bval st) (nalloc st) (upd (th st) t p)
       (g_in st) (g_out st) (g_ok st) (g_hist st) (g_nch st).
Definition set_head (st : state) (w : iw) : state :=
  mkSt w (tail st) (slot st) (bval st) (nalloc st) (th st) (g_in st) (g_out st) (g_ok st) (g_hist st) (g_nch st).
Definition set_tail (st : state) (w : iw) : state :=
  mkSt (head st) w (slot st) (bval st) (nalloc st) (th st) (g_in st) (g_out st) (g_ok st) (g_hist st) (g_nch st).
Definition set_slot (st : state) (j : N) (w : sw) (e : hev) : state :=
  mkSt (head st) (tail st) (setf (slot st) j w) (bval st) (nalloc st) (th st)
       (g_in st) (g_out st) (g_ok st) (setf (g_hist st) j (g_hist st j ++ [e])) (g_nch st).
Definition set_in (st : state) (l : list N) : state :=
  mkSt (head st) (tail st) (slot st) (bval st) (nalloc st) (th st) l (g_out st) (g_ok st) (g_hist st) (g_nch st).
Definition set_out (st : state) (l : list N) : state :=
  mkSt (head st) (tail st) (slot st) (bval st) (nalloc st) (th st) (g_in st) l (g_ok st) (g_hist st) (g_nch st).
Definition set_ok (st : state) (l : list N) : state :=
  mkSt (head st) (tail st) (slot st) (bval st) (nalloc st) (th st) (g_in st) (g_out st) l (g_hist st) (g_nch st).
Definition draw (st : state) : state :=
  mkSt (head st) (tail st) (slot st) (bval st) (nalloc st) (th st) (g_in st) (g_out st) (g_ok st) (g_hist st) (g_nch st + 1).
Definition alloc (st : state) (v : N) : state :=
  mkSt (head st) (tail st) (slot st) (setf (bval st) (nalloc st) v) (nalloc st + 1) (th st)
       (g_in st) (g_out st) (g_ok st) (g_hist st) (g_nch st).

Section Kfb.
  Variables k segs : N.
  Definition qsize : N := k * segs.

  (** (idx + k) % _queue_size, tag + 1 *)
  Definition adv (w : iw) : iw := ((fst w + k) mod qsize, snd w + 1).
  Definition bump (w : iw) : iw := (fst w, snd w + 1).
  (** find_index: (start_index + ((random_index + i) % k)) % _queue_size *)
  Definition fidx (start ri i : N) : N := (start + ((ri + i) mod k)) mod qsize.
  (** segment_empty: (start + i) % _queue_size *)
  Definition sidx (start i : N) : N := (start + i) mod qsize.
  (** utils::random() under the harness: xv::choose(64); random_index = random() % k *)
  Definition rnd (r : N) : N := r mod 64.

  Definition in_valid_region (tail_old tail_current head_current : N) : bool :=
    if negb (tail_current <? head_current)
    then (head_current <? tail_old) && (tail_old <=? tail_current)
    else (head_current <? tail_old) || (tail_old <=? tail_current).
  Definition not_in_valid_region (tail_old tail_current head_current : N) : bool :=
    if negb (tail_current <? head_current)
    then (tail_old <? tail_current) || (head_current <? tail_old)
    else (tail_current <? tail_old) && (tail_old <? head_current).

  (** results: [1] ok / [0] full / [1;v] popped payload v / [2] empty *)
  Definition step (st : state) (a : action) : option (state * list ev) :=
    match a with
    | Start t o =>
      match th st t with
      | Idle => Some (set_th st t (Begin o), [])
      | _ => None
      end
    | Step t r =>
      let go (p : pc) (e : list ev) := Some (set_th st t p, e) in
      let ret (s1 : state) (res : list N) (e : list ev) := Some (set_th s1 t Idle, e ++ [ERet t res]) in
      (* try_push returns true for pointer b *)
      let ret_ok (s1 : state) (b : N) (e : list ev) := ret (set_ok s1 (g_ok s1 ++ [b])) [1] e in
      match th st t with
      | Idle => None
      | Begin (OPush v) =>
        Some (set_th (alloc st v) t (P1 (nalloc st)), [EStart t 0 [v]; EAlloc t (nalloc st) tok_size])
      | Begin OPop => go D1 [EStart t 1 []]
      (* ---- try_push ---- *)
      | P1 b => go (P2 b (tail st)) [ELoad t L_tail mo_rlx (iwv (tail st))]
      | P2 b tl =>
        Some (set_th (draw st) t (PF b tl (head st) (rnd r mod k) 0),
              [ELoad t L_head mo_rlx (iwv (head st)); ENote t 130 [rnd r; 64]])
      | PF b tl hd ri i =>
        let j := fidx (fst tl) ri i in
        let w := slot st j in
        go (if fst w =? 0 then P3 b tl j (snd w) else if i + 1 <? k then PF b tl hd ri (i + 1) else P3n b tl hd)
           [ELoad t (L_slot j) mo_acq (swv w)]
      | P3 b tl j otag =>
        go (if iw_eqb tl (tail st) then P4 b tl j otag else P1 b) [ELoad t L_tail mo_rlx (iwv (tail st))]
      | P3n b tl hd =>
        go (if iw_eqb tl (tail st)
            then (if (fst tl + k) mod qsize =? fst hd then PQ b tl hd else PT b tl)
            else P1 b) [ELoad t L_tail mo_rlx (iwv (tail st))]
      | P4 b tl j otag =>
        if sw_eqb (slot st j) (0, otag) then
          Some (set_th (set_slot st j (b, otag + 1) (HIns b)) t (C1 b tl j (otag + 1)),
                [ERmw t (L_slot j) mo_rel (swv (0, otag)) (swv (b, otag + 1))])
        else go (P1 b) [ECasF t (L_slot j) mo_rel mo_rlx (swv (slot st j)) (swv (0, otag))]
      | PQ b tl hd =>
        go (if fst hd =? fst (head st) then PS b tl hd 0 else PT b tl) [ELoad t L_head mo_rlx (iwv (head st))]
      | PS b tl hd i =>
        let j := sidx (fst hd) i in
        let w := slot st j in
        go (if negb (fst w =? 0) then PH b tl hd else if i + 1 <? k then PS b tl hd (i + 1) else PHC b tl hd)
           [ELoad t (L_slot j) mo_acq (swv w)]
      | PHC b tl hd =>
        if iw_eqb (head st) hd then
          Some (set_th (set_head st (adv hd)) t (PT b tl), [ERmw t L_head mo_rlx (iwv hd) (iwv (adv hd))])
        else go (P1 b) [ECasF t L_head mo_rlx mo_rlx (iwv (head st)) (iwv hd)]
      | PH b tl hd =>
        if iw_eqb hd (head st) then ret st [0] [ELoad t L_head mo_rlx (iwv (head st)); EFree t b]
        else go (P1 b) [ELoad t L_head mo_rlx (iwv (head st))]
      | PT b tl =>
        if iw_eqb (tail st) tl then
          Some (set_th (set_tail st (adv tl)) t (P1 b), [ERmw t L_tail mo_rlx (iwv tl) (iwv (adv tl))])
        else go (P1 b) [ECasF t L_tail mo_rlx mo_rlx (iwv (tail st)) (iwv tl)]
      (* ---- committed ---- *)
      | C1 b tl j tg =>
        let e := [ELoad t (L_slot j) mo_rlx (swv (slot st j))] in
        if sw_eqb (slot st j) (b, tg) then go (C2 b tl j tg) e else ret_ok st b e
      | C2 b tl j tg => go (C3 b tl j tg (head st)) [ELoad t L_head mo_rlx (iwv (head st))]
      | C3 b tl j tg hc => go (C4 b tl j tg hc (tail st)) [ELoad t L_tail mo_rlx (iwv (tail st))]
      | C4 b tl j tg hc tc =>
        let e := [ELoad t L_head mo_rlx (iwv (head st))] in
        if iw_eqb (head st) hc then
          if in_valid_region (fst tl) (fst tc) (fst hc) then ret_ok (set_in st (commit b (g_in st))) b e
          else if not_in_valid_region (fst tl) (fst tc) (fst hc) then go (C6 b j tg) e
          else go (C5 b tl j tg hc) e
        else go (C3 b tl j tg (head st)) e
      | C5 b tl j tg hc =>
        if iw_eqb (head st) hc then
          ret_ok (set_in (set_head st (bump hc)) (commit b (g_in st))) b [ERmw t L_head mo_rlx (iwv hc) (iwv (bump hc))]
        else go (C6 b j tg) [ECasF t L_head mo_rlx mo_rlx (iwv (head st)) (iwv hc)]
      | C6 b j tg =>
        if sw_eqb (slot st j) (b, tg) then
          Some (set_th (set_slot st j (0, tg + 1) (HBack b)) t (P1 b),
                [ERmw t (L_slot j) mo_rlx (swv (b, tg)) (swv (0, tg + 1))])
        else ret_ok st b [ECasF t (L_slot j) mo_rlx mo_rlx (swv (slot st j)) (swv (b, tg))]
      (* ---- do_pop ---- *)
      | D1 => go (D2 (head st)) [ELoad t L_head mo_rlx (iwv (head st))]
      | D2 hd =>
        Some (set_th (draw st) t (DF hd (tail st) (rnd r mod k) 0),
              [ELoad t L_tail mo_rlx (iwv (tail st)); ENote t 130 [rnd r; 64]])
      | DF hd tl ri i =>
        let j := fidx (fst hd) ri i in
        let w := slot st j in
        go (if negb (fst w =? 0) then D3 hd tl j (fst w) (snd w) else if i + 1 <? k then DF hd tl ri (i + 1) else D3n hd tl)
           [ELoad t (L_slot j) mo_acq (swv w)]
      | D3 hd tl j p tg =>
        go (if iw_eqb hd (head st) then (if fst hd =? fst tl then DT hd tl j p tg else D4 hd j p tg) else D1)
           [ELoad t L_head mo_rlx (iwv (head st))]
      | D3n hd tl =>
        go (if iw_eqb hd (head st) then (if fst hd =? fst tl then DE hd tl else DH hd) else D1)
           [ELoad t L_head mo_rlx (iwv (head st))]
      | DT hd tl j p tg =>
        if iw_eqb (tail st) tl then
          Some (set_th (set_tail st (adv tl)) t (D4 hd j p tg), [ERmw t L_tail mo_rlx (iwv tl) (iwv (adv tl))])
        else go (D4 hd j p tg) [ECasF t L_tail mo_rlx mo_rlx (iwv (tail st)) (iwv tl)]
      | D4 hd j p tg =>
        if sw_eqb (slot st j) (p, tg) then
          let s1 := set_slot st j (0, tg + 1) (HTake p) in
          ret (set_out (set_in s1 (commit p (g_in st))) (g_out st ++ [p])) [1; bval st p]
              [ERmw t (L_slot j) mo_rel (swv (p, tg)) (swv (0, tg + 1)); EFree t p]
        else go D1 [ECasF t (L_slot j) mo_rel mo_rlx (swv (slot st j)) (swv (p, tg))]
      | DE hd tl =>
        let e := [ELoad t L_tail mo_rlx (iwv (tail st))] in
        if iw_eqb tl (tail st) then ret st [2] e else go (DH hd) e
      | DH hd =>
        if iw_eqb (head st) hd then
          Some (set_th (set_head st (adv hd)) t D1, [ERmw t L_head mo_rlx (iwv hd) (iwv (adv hd))])
        else go D1 [ECasF t L_head mo_rlx mo_rlx (iwv (head st)) (iwv hd)]
      end
    end.
End Kfb.
