(** Step-level model of xenium::vyukov_bounded_queue (vyukov_bounded_queue.hpp): strong and weak
    try_push / try_pop.  One [Step] = one atomic access of the C++ code (the plain construction /
    move of the element is merged into the following release store of the cell sequence). *)
From Coq Require Import NArith List Bool.
From XV Require Import Base.Word Conc.Lts Conc.Ev.
Import ListNotations.
Local Open Scope N_scope.

Inductive op := OPush (weak : bool) (v : N) | OPop (weak : bool).

Inductive pc :=
| Idle
| Begin (o : op)
(* do_try_push<Weak> *)
| P1 (w : bool) (v : N)                 (* LD enq rlx *)
| P2 (w : bool) (v pos : N)             (* LD cell[pos&mask].sequence acq *)
| P3 (w : bool) (v pos : N)             (* CAS enq pos -> pos+1 rlx *)
| P4 (v pos : N)                        (* strong: LD enq rlx (pos2) *)
| P5 (v pos : N)                        (* strong: LD deq rlx *)
| P1w (v : N)                           (* weak: LD enq rlx (retry) *)
| P6 (v pos : N)                        (* construct element; ST cell.sequence rel pos+1 *)
(* do_try_pop<Weak> *)
| Q1 (w : bool)                         (* LD deq rlx *)
| Q2 (w : bool) (pos : N)               (* LD cell.sequence acq *)
| Q3 (w : bool) (pos : N)               (* CAS deq pos -> pos+1 rlx *)
| Q4 (pos : N)                          (* strong: LD deq rlx (pos2) *)
| Q5 (pos : N)                          (* strong: LD enq rlx *)
| Q1w                                   (* weak: LD deq rlx (retry) *)
| Q6 (pos : N).                         (* move element out; ST cell.sequence rel pos+mask+1 *)

(** ghosts: [g_in] values in enqueue-ticket order (appended at the successful CAS on enq),
    [g_out] values in dequeue-ticket order (appended at the successful CAS on deq, with the value
    stored in the cell at that moment) *)
Record state := mkSt { enq : N; deq : N; cseq : N -> N; cval : N -> N; th : nat -> pc; g_in : list N; g_out : list N }.

Inductive action := Start (t : nat) (o : op) | Step (t : nat).

Section Vyukov.
  Variable cap : N.       (* a power of two >= 2 *)
  Definition mask := cap - 1.
  Definition cell (pos : N) : N := N.land pos mask.
  Definition L_enq := LNamed 0 0.
  Definition L_deq := LNamed 1 0.
  Definition L_cell (i : N) := LNamed (10 + i) 0.

  Definition init : state := mkSt 0 0 (fun i => i) (fun _ => 0) (fun _ => Idle) [] [].

  Definition setf (f : N -> N) (i v : N) : N -> N := fun j => if j =? i then v else f j.

  (** results: [1] ok / [1;x] value x / [0] full / [3] empty / [2] weak failure *)
  Definition step (st : state) (a : action) : option (state * list ev) :=
    match a with
    | Start t o =>
      match th st t with
      | Idle => Some (mkSt (enq st) (deq st) (cseq st) (cval st) (upd (th st) t (Begin o)) (g_in st) (g_out st), [])
      | _ => None
      end
    | Step t =>
      let go (p : pc) (e : list ev) := Some (mkSt (enq st) (deq st) (cseq st) (cval st) (upd (th st) t p) (g_in st) (g_out st), e) in
      let fin (r : list N) (e : list ev) := Some (mkSt (enq st) (deq st) (cseq st) (cval st) (upd (th st) t Idle) (g_in st) (g_out st), e ++ [ERet t r]) in
      match th st t with
      | Idle => None
      | Begin (OPush w v) => go (P1 w v) [EStart t (if w then 2 else 0) [v]]
      | Begin (OPop w) => go (Q1 w) [EStart t (if w then 3 else 1) []]
      (* ---- push ---- *)
      | P1 w v => go (P2 w v (enq st)) [ELoad t L_enq mo_rlx (VInt (enq st))]
      | P1w v => go (P2 true v (enq st)) [ELoad t L_enq mo_rlx (VInt (enq st))]
      | P2 w v pos =>
        let s := cseq st (cell pos) in
        let e := [ELoad t (L_cell (cell pos)) mo_acq (VInt s)] in
        if s =? pos then go (P3 w v pos) e
        else if w then (if s <? pos then fin [2] e else go (P1w v) e)
        else go (P4 v pos) e
      | P3 w v pos =>
        if enq st =? pos then
          Some (mkSt (wadd 64 pos 1) (deq st) (cseq st) (cval st) (upd (th st) t (P6 v pos)) (g_in st ++ [v]) (g_out st),
                [ERmw t L_enq mo_rlx (VInt pos) (VInt (wadd 64 pos 1))])
        else go (P2 w v (enq st)) [ECasF t L_enq mo_rlx mo_rlx (VInt (enq st)) (VInt pos)]
      | P4 v pos =>
        let pos2 := enq st in
        let e := [ELoad t L_enq mo_rlx (VInt pos2)] in
        if pos2 =? pos then go (P5 v pos) e else go (P2 false v pos2) e
      | P5 v pos =>
        let d := deq st in
        let e := [ELoad t L_deq mo_rlx (VInt d)] in
        if wadd 64 (wadd 64 d mask) 1 =? pos then fin [0] e else go (P2 false v pos) e
      | P6 v pos =>
        Some (mkSt (enq st) (deq st) (setf (cseq st) (cell pos) (wadd 64 pos 1)) (setf (cval st) (cell pos) v) (upd (th st) t Idle) (g_in st) (g_out st),
              [EStore t (L_cell (cell pos)) mo_rel (VInt (wadd 64 pos 1)); ERet t [1]])
      (* ---- pop ---- *)
      | Q1 w => go (Q2 w (deq st)) [ELoad t L_deq mo_rlx (VInt (deq st))]
      | Q1w => go (Q2 true (deq st)) [ELoad t L_deq mo_rlx (VInt (deq st))]
      | Q2 w pos =>
        let s := cseq st (cell pos) in
        let np := wadd 64 pos 1 in
        let e := [ELoad t (L_cell (cell pos)) mo_acq (VInt s)] in
        if s =? np then go (Q3 w pos) e
        else if w then (if s <? np then fin [2] e else go Q1w e)
        else go (Q4 pos) e
      | Q3 w pos =>
        if deq st =? pos then
          Some (mkSt (enq st) (wadd 64 pos 1) (cseq st) (cval st) (upd (th st) t (Q6 pos)) (g_in st) (g_out st ++ [cval st (cell pos)]),
                [ERmw t L_deq mo_rlx (VInt pos) (VInt (wadd 64 pos 1))])
        else go (Q2 w (deq st)) [ECasF t L_deq mo_rlx mo_rlx (VInt (deq st)) (VInt pos)]
      | Q4 pos =>
        let pos2 := deq st in
        let e := [ELoad t L_deq mo_rlx (VInt pos2)] in
        if pos2 =? pos then go (Q5 pos) e else go (Q2 false pos2) e
      | Q5 pos =>
        let en := enq st in
        let e := [ELoad t L_enq mo_rlx (VInt en)] in
        if en =? pos then fin [3] e else go (Q2 false pos) e
      | Q6 pos =>
        Some (mkSt (enq st) (deq st) (setf (cseq st) (cell pos) (wadd 64 (wadd 64 pos mask) 1)) (cval st) (upd (th st) t Idle) (g_in st) (g_out st),
              [EStore t (L_cell (cell pos)) mo_rel (VInt (wadd 64 (wadd 64 pos mask) 1)); ERet t [1; cval st (cell pos)]])
      end
    end.
End Vyukov.
